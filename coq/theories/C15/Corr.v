(** C15 — correspondence cases: what the implementation returned on an input, compared with
    the model ([model_check]) and with the specification itself ([spec_check], written without
    the model: brute-force enumeration / counting arguments). *)
From Coq Require Import ZArith NArith List Bool Sorting.Mergesort Orders.
From RlibV Require Import Common.Batch C15.Model.
Import ListNotations.
Open Scope Z_scope.

Inductive nbkind := K4 | K4d | K8.

(** All numbers are printed as [Z]; masks are bit patterns (non-negative, below 2^w). *)
Inductive case :=
| CSub (w x : Z) (out : list Z)                       (* iter_submasks::<w-bit type>(x).collect() *)
| CSup (w x : Z) (out : list Z)                       (* iter_supermasks *)
| CNext (d : list Z) (r : bool) (out : list Z)        (* next_permutation(&mut d) = r, d afterwards = out *)
| CIter (d : list Z) (out : list (list Z))            (* iter_permutations(d).collect() *)
| CNb (k : nbkind) (n m i j : Z) (out : list (Z * Z))  (* iter_neighbours_k(n, m, i, j).collect() *)
| CSubPre (w x k : Z) (out : list Z)                  (* iter_submasks::<w-bit type>(x).take(k).collect() *)
| CSupPre (w x k : Z) (out : list Z)                  (* iter_supermasks::<w-bit type>(x).take(k).collect() *)
| CIterPre (d : list Z) (k : Z) (out : list (list Z)). (* iter_permutations(d).take(k).collect() *)

(** Printing aid for the wide types (a 128-bit decimal numeral costs Coq's parser about 3 ms): when every item [u]
    of an observed output agrees with [base] outside the bit positions [free], the printer writes the item as the
    small number formed by its bits at the positions of [free] (lowest position = bit 0), and the case term rebuilds
    the observed items with [unpack].  Items that do not fit this shape are printed in full. *)
Fixpoint deposit_pos (m : positive) (i : N) : N :=
  match m with
  | xH => N.modulo i 2
  | xO m' => N.double (deposit_pos m' i)
  | xI m' => (N.double (deposit_pos m' (N.div2 i)) + N.modulo i 2)%N
  end.
Definition deposit (mask i : N) : N := match mask with N0 => 0%N | Npos m => deposit_pos m i end.
Definition unpack (free base : Z) (idxs : list Z) : list Z :=
  map (fun i => base + Z.of_N (deposit (Z.to_N free) (Z.to_N i))) idxs.
Definition unpack_sub (x : Z) (idxs : list Z) : list Z := unpack x 0 idxs.
Definition unpack_sup (w x : Z) (idxs : list Z) : list Z := unpack (2 ^ w - 1 - x) x idxs.

(** number of one bits *)
Fixpoint popcount_pos (p : positive) : N :=
  match p with xH => 1 | xO q => popcount_pos q | xI q => N.succ (popcount_pos q) end.
Definition popcount (x : N) : N := match x with N0 => 0%N | Npos p => popcount_pos p end.

(** Printing aid for prefixes of the submasks of a mask with many one bits (the items are close to [x], so their bits
    at the free positions form a number close to [2^popcount x - 1]): the printer writes an item by its distance from
    that top value. *)
Definition unpack_sub_top (x : Z) (idxs : list Z) : list Z :=
  let X := Z.to_N x in
  map (fun i => Z.of_N (deposit X (2 ^ popcount X - 1 - Z.to_N i)%N)) idxs.

(** Printing aid for long sequences: run-length encoding, [(value, count)] pairs. *)
Definition rle (runs : list (Z * Z)) : list Z :=
  flat_map (fun vc => repeat (fst vc) (Z.to_nat (snd vc))) runs.

Definition nonneg (l : list Z) : bool := forallb (fun v => 0 <=? v) l.
Definition toN (l : list Z) : list N := map Z.to_N l.
Definition zz_eqb (a b : Z * Z) : bool := peqb Z.eqb Z.eqb a b.

Definition offs_of (k : nbkind) : list (Z * Z) :=
  match k with K4 => offs4 | K4d => offs4d | K8 => offs8 end.

Definition model_check (c : case) : bool :=
  match c with
  | CSub w x out =>
      (0 <=? w) && (0 <=? x) && nonneg out &&
      match iter_submasks (Z.to_N w) (Z.to_N x) with
      | Some l => leqb N.eqb l (toN out) | None => false end
  | CSup w x out =>
      (0 <=? w) && (0 <=? x) && nonneg out &&
      match iter_supermasks (Z.to_N w) (Z.to_N x) with
      | Some l => leqb N.eqb l (toN out) | None => false end
  | CNext d r out =>
      let '(r', out') := next_permutation d in Bool.eqb r r' && leqb Z.eqb out out'
  | CIter d out =>
      match iter_permutations d with
      | Some l => leqb (leqb Z.eqb) l out | None => false end
  | CNb k n m i j out => leqb zz_eqb (neighbours (offs_of k) n m i j) out
  | CSubPre w x k out =>
      (0 <=? w) && (0 <=? x) && (0 <=? k) && nonneg out &&
      leqb N.eqb (iter_submasks_take (Z.to_N w) (Z.to_N x) (Z.to_nat k)) (toN out)
  | CSupPre w x k out =>
      (0 <=? w) && (0 <=? x) && (0 <=? k) && nonneg out &&
      leqb N.eqb (iter_supermasks_take (Z.to_N w) (Z.to_N x) (Z.to_nat k)) (toN out)
  | CIterPre d k out =>
      (0 <=? k) && leqb (leqb Z.eqb) (iter_permutations_take d (Z.to_nat k)) out
  end.

(** ** specification side *)

(** [0; 1; ...; 2^w - 1] (used for w <= 8 only) *)
Definition all_below (w : N) : list N := map N.of_nat (seq 0 (N.to_nat (2 ^ w))).

Fixpoint strictly (lt : N -> N -> bool) (l : list N) : bool :=
  match l with
  | a :: ((b :: _) as t) => lt a b && strictly lt t
  | _ => true
  end.
Definition lengthN {A} (l : list A) : N := fold_left (fun n _ => N.succ n) l 0%N.

Definition is_sub (x u : N) : bool := N.eqb (N.land u x) u.
Definition is_sup (w x u : N) : bool := N.eqb (N.land u x) x && N.ltb u (2 ^ w).

Definition spec_sub (w x : N) (out : list N) : bool :=
  if N.leb w 8 then leqb N.eqb out (filter (is_sub x) (rev (all_below w)))
  else forallb (is_sub x) out && strictly (fun a b => N.ltb b a) out
       && N.eqb (last out 1%N) 0 && N.eqb (lengthN out) (2 ^ popcount x).

Definition spec_sup (w x : N) (out : list N) : bool :=
  if N.leb w 8 then leqb N.eqb out (filter (is_sup w x) (all_below w))
  else forallb (is_sup w x) out && strictly N.ltb out
       && N.eqb (last out 0%N) (2 ^ w - 1) && N.eqb (lengthN out) (2 ^ (w - popcount x)).

(** The first [k] items in closed form.  The bits of a submask of [x] at the one positions of [x] form a number
    below [2^popcount x], and this reading is monotone; so the strictly decreasing listing of all submasks has the
    submask that reads [2^popcount x - 1 - i] at position [i] ([deposit x j] = the submask that reads [j]).
    Supermasks of [x] are [x + ] a submask of the complement, in increasing order of that reading. *)
Fixpoint sub_closed (x j : N) (k : nat) : list N :=
  match k with
  | O => []
  | S k' => deposit x j :: (if N.eqb j 0 then [] else sub_closed x (j - 1)%N k')
  end.
Fixpoint sup_closed (x free top j : N) (k : nat) : list N :=
  match k with
  | O => []
  | S k' => (x + deposit free j)%N :: (if N.eqb j top then [] else sup_closed x free top (j + 1)%N k')
  end.

Definition spec_sub_pre (w x : N) (k : nat) (out : list N) : bool :=
  leqb N.eqb out (sub_closed x (2 ^ popcount x - 1)%N k)
  && (if N.leb w 8 then leqb N.eqb out (firstn k (filter (is_sub x) (rev (all_below w)))) else true).

Definition spec_sup_pre (w x : N) (k : nat) (out : list N) : bool :=
  (let free := (2 ^ w - 1 - x)%N in leqb N.eqb out (sup_closed x free (2 ^ popcount free - 1)%N 0%N k))
  && (if N.leb w 8 then leqb N.eqb out (firstn k (filter (is_sup w x) (all_below w))) else true).

(** distinct arrangements of a multiset, listed lexicographically, by the definition:
    choose the first element among the distinct values in increasing order, recurse. *)
Module ZOrder <: TotalLeBool.
  Definition t := Z.
  Definition leb := Z.leb.
  Theorem leb_total : forall a1 a2, is_true (leb a1 a2) \/ is_true (leb a2 a1).
  Proof.
    intros a1 a2. unfold leb, is_true. destruct (Z.leb_spec a1 a2) as [H|H]; [left; reflexivity|right].
    apply Z.leb_le. apply Z.lt_le_incl. exact H.
  Qed.
End ZOrder.
Module ZSort := Sort ZOrder.

Fixpoint remove1 (v : Z) (l : list Z) : list Z :=
  match l with [] => [] | h :: t => if h =? v then t else h :: remove1 v t end.
Fixpoint dedup_adj (l : list Z) : list Z :=
  match l with
  | a :: ((b :: _) as t) => if a =? b then dedup_adj t else a :: dedup_adj t
  | _ => l
  end.
Fixpoint arrangements (n : nat) (l : list Z) : list (list Z) :=
  match n with
  | O => [[]]
  | S n' => flat_map (fun v => map (cons v) (arrangements n' (remove1 v l))) (dedup_adj l)
  end.
Definition all_arrangements (d : list Z) : list (list Z) := arrangements (length d) (ZSort.sort d).

(** the element following [d] in [A] *)
Fixpoint succ_in (A : list (list Z)) (d : list Z) : option (list Z) :=
  match A with
  | a :: ((b :: _) as t) => if leqb Z.eqb a d then Some b else succ_in t d
  | _ => None
  end.

Definition spec_next (d : list Z) (r : bool) (out : list Z) : bool :=
  let A := all_arrangements d in
  match succ_in A d with
  | Some b => r && leqb Z.eqb out b
  | None => negb r && leqb Z.eqb out (hd [] A)
  end.

(** The successor, directly (no enumeration, any length).  [r = true]: [d] and [out] first differ at some position
    (the pivot), where [d] has [a] and [out] has [b]; [a < b]; the rest [td] of [d] is non-increasing (no later
    position could have been raised); [b] occurs in [td] and is its least element greater than [a]; the rest of [out]
    is non-decreasing and [out] is a rearrangement of [d].  [r = false]: [d] is non-increasing and [out] is its
    reversal, which is non-decreasing.  [ProofsDirect.v] proves that this accepts exactly what [spec_next] accepts. *)
Fixpoint noninc_b (l : list Z) : bool :=
  match l with a :: ((b :: _) as t) => (b <=? a) && noninc_b t | _ => true end.
Fixpoint nondec_b (l : list Z) : bool :=
  match l with a :: ((b :: _) as t) => (a <=? b) && nondec_b t | _ => true end.
Definition memZ (v : Z) (l : list Z) : bool := existsb (Z.eqb v) l.

Fixpoint spec_next_true (d out : list Z) : bool :=
  match d, out with
  | a :: td, b :: to =>
      if a =? b then spec_next_true td to
      else (a <? b) && noninc_b td && memZ b td
           && forallb (fun v => (v <=? a) || (b <=? v)) td
           && nondec_b to && leqb Z.eqb (ZSort.sort (a :: td)) (ZSort.sort (b :: to))
  | _, _ => false
  end.
(** ([rev_append d []] is [rev d] in linear time; [if] and not [&&]: vm_compute evaluates both arguments of [&&]) *)
Definition spec_next_direct (d : list Z) (r : bool) (out : list Z) : bool :=
  if r then spec_next_true d out
  else if noninc_b d then leqb Z.eqb out (rev_append d []) && nondec_b out else false.

(** a prefix of the listing: starts with the sorted data; every further item is the successor of the one before;
    the listing may stop before the [k] requested items only after the last (non-increasing) arrangement.
    [chain_ok cur rest k]: [rest] follows [cur], [k] more items were requested. *)
Fixpoint chain_ok (cur : list Z) (rest : list (list Z)) (k : nat) : bool :=
  match rest with
  | [] => (k =? 0)%nat || noninc_b cur
  | nx :: t => match k with O => false | S k' => spec_next_true cur nx && chain_ok nx t k' end
  end.
Definition spec_iter_pre (d : list Z) (k : nat) (out : list (list Z)) : bool :=
  match out, k with
  | [], O => true
  | s :: rest, S k' => leqb Z.eqb s (ZSort.sort d) && chain_ok s rest k'
  | _, _ => false
  end
  && (if (length d <=? 8)%nat then leqb (leqb Z.eqb) out (firstn k (all_arrangements d)) else true).

(** the eight surrounding cells in the iterators' fixed (counter-clockwise from (i, j+1)) order *)
Definition ring (i j : Z) : list (Z * Z) :=
  [(i, j + 1); (i - 1, j + 1); (i - 1, j); (i - 1, j - 1); (i, j - 1); (i + 1, j - 1); (i + 1, j); (i + 1, j + 1)].
Definition adjacent (k : nbkind) (i j : Z) (c : Z * Z) : bool :=
  let di := Z.abs (fst c - i) in let dj := Z.abs (snd c - j) in
  match k with
  | K4 => di + dj =? 1
  | K4d => (di =? 1) && (dj =? 1)
  | K8 => Z.max di dj =? 1
  end.
Definition in_grid (n m : Z) (c : Z * Z) : bool :=
  (0 <=? fst c) && (fst c <? n) && (0 <=? snd c) && (snd c <? m).
Definition grid_cells (n m : Z) : list (Z * Z) :=
  flat_map (fun a => map (fun b => (Z.of_nat a, Z.of_nat b)) (seq 0 (Z.to_nat m))) (seq 0 (Z.to_nat n)).

Definition spec_nb (k : nbkind) (n m i j : Z) (out : list (Z * Z)) : bool :=
  leqb zz_eqb out (filter (fun c => adjacent k i j c && in_grid n m c) (ring i j))
  && (if n * m <=? 400 then (length out =? length (filter (adjacent k i j) (grid_cells n m)))%nat else true).

Definition spec_check (c : case) : bool :=
  match c with
  | CSub w x out =>
      if negb ((0 <=? w) && (0 <=? x) && (x <? 2 ^ w)) then true   (* outside the quantifier *)
      else nonneg out && spec_sub (Z.to_N w) (Z.to_N x) (toN out)
  | CSup w x out =>
      if negb ((0 <=? w) && (0 <=? x) && (x <? 2 ^ w)) then true
      else nonneg out && spec_sup (Z.to_N w) (Z.to_N x) (toN out)
  | CNext d r out =>
      (* the brute-force listing up to length 9 (where it is feasible) and the direct description at every length *)
      spec_next_direct d r out && (if (length d <=? 9)%nat then spec_next d r out else true)
  | CIter d out => leqb (leqb Z.eqb) out (all_arrangements d)
  | CNb k n m i j out =>
      if negb ((0 <=? n) && (0 <=? m) && (0 <=? i) && (0 <=? j)) then true
      else spec_nb k n m i j out
  | CSubPre w x k out =>
      if negb ((0 <=? w) && (0 <=? x) && (x <? 2 ^ w) && (0 <=? k)) then true
      else nonneg out && spec_sub_pre (Z.to_N w) (Z.to_N x) (Z.to_nat k) (toN out)
  | CSupPre w x k out =>
      if negb ((0 <=? w) && (0 <=? x) && (x <? 2 ^ w) && (0 <=? k)) then true
      else nonneg out && spec_sup_pre (Z.to_N w) (Z.to_N x) (Z.to_nat k) (toN out)
  | CIterPre d k out =>
      if negb (0 <=? k) then true else spec_iter_pre d (Z.to_nat k) out
  end.

(** the cases the theorems cover: integer types of at most 128 bits *)
Definition in_scope (c : case) : Prop :=
  match c with
  | CSub w _ _ | CSup w _ _ | CSubPre w _ _ _ | CSupPre w _ _ _ => w <= 128
  | _ => True
  end.

(** what the model computes on the input of a case (for replay files) *)
Inductive shown :=
| ShMasks (l : option (list N))
| ShNext (r : bool) (l : list Z)
| ShIter (l : option (list (list Z)))
| ShNb (l : list (Z * Z)).
Definition explain (c : case) : shown :=
  match c with
  | CSub w x _ => ShMasks (iter_submasks (Z.to_N w) (Z.to_N x))
  | CSup w x _ => ShMasks (iter_supermasks (Z.to_N w) (Z.to_N x))
  | CNext d _ _ => let '(r, l) := next_permutation d in ShNext r l
  | CIter d _ => ShIter (iter_permutations d)
  | CNb k n m i j _ => ShNb (neighbours (offs_of k) n m i j)
  | CSubPre w x k _ => ShMasks (Some (iter_submasks_take (Z.to_N w) (Z.to_N x) (Z.to_nat k)))
  | CSupPre w x k _ => ShMasks (Some (iter_supermasks_take (Z.to_N w) (Z.to_N x) (Z.to_nat k)))
  | CIterPre d k _ => ShIter (Some (iter_permutations_take d (Z.to_nat k)))
  end.
