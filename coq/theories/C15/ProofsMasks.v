(** C15 — proofs about the sub/supermask iterators. *)
From Coq Require Import ZArith NArith PArith Lia List Bool Sorting.Sorted.
From RlibV Require Import Common.Iter C15.Model.
Import ListNotations.
Open Scope N_scope.

(** * bit lemmas in [2*a] / [2*a+1] form *)
Lemma land_dd a b : N.land (2 * a) (2 * b) = 2 * N.land a b.
Proof. rewrite <- !N.double_spec. destruct a, b; simpl; auto. Qed.
Lemma land_ss a b : N.land (2 * a + 1) (2 * b + 1) = 2 * N.land a b + 1.
Proof. rewrite <- !N.succ_double_spec. destruct a, b; simpl; auto; destruct (Pos.land p p0); reflexivity. Qed.
Lemma land_ds a b : N.land (2 * a) (2 * b + 1) = 2 * N.land a b.
Proof. rewrite <- N.succ_double_spec, <- !N.double_spec. destruct a, b; simpl; auto. Qed.
Lemma land_sd a b : N.land (2 * a + 1) (2 * b) = 2 * N.land a b.
Proof. rewrite <- N.succ_double_spec, <- !N.double_spec. destruct a, b; simpl; auto. Qed.

Lemma lor_dd a b : N.lor (2 * a) (2 * b) = 2 * N.lor a b.
Proof. rewrite <- !N.double_spec. destruct a, b; simpl; auto. Qed.
Lemma lor_ss a b : N.lor (2 * a + 1) (2 * b + 1) = 2 * N.lor a b + 1.
Proof. rewrite <- !N.succ_double_spec. destruct a, b; simpl; auto. Qed.
Lemma lor_ds a b : N.lor (2 * a) (2 * b + 1) = 2 * N.lor a b + 1.
Proof. rewrite <- !N.succ_double_spec, <- !N.double_spec. destruct a, b; simpl; auto. Qed.
Lemma lor_sd a b : N.lor (2 * a + 1) (2 * b) = 2 * N.lor a b + 1.
Proof. rewrite <- !N.succ_double_spec, <- !N.double_spec. destruct a, b; simpl; auto. Qed.

Lemma N_binary_cases (n : N) : {m | n = 2 * m} + {m | n = 2 * m + 1}.
Proof.
  pose proof (N.div2_odd n) as H. destruct (N.odd n); cbn [N.b2n] in H.
  - right. exists (N.div2 n). exact H.
  - left. exists (N.div2 n). lia.
Qed.

Lemma land_le_l : forall a b, N.land a b <= a.
Proof.
  intros a. induction a as [a IH] using (well_founded_induction N.lt_wf_0). intros b.
  destruct (N.eq_dec a 0) as [->|Ha]; [rewrite N.land_0_l; lia|].
  destruct (N_binary_cases a) as [[a' ->]|[a' ->]]; destruct (N_binary_cases b) as [[b' ->]|[b' ->]].
  - rewrite land_dd. assert (H : a' < 2 * a') by lia. specialize (IH a' H b'). lia.
  - rewrite land_ds. assert (H : a' < 2 * a') by lia. specialize (IH a' H b'). lia.
  - rewrite land_sd. assert (H : a' < 2 * a' + 1) by lia. specialize (IH a' H b'). lia.
  - rewrite land_ss. assert (H : a' < 2 * a' + 1) by lia. specialize (IH a' H b'). lia.
Qed.
Lemma land_le_r a b : N.land a b <= b.
Proof. rewrite N.land_comm. apply land_le_l. Qed.

Lemma land_absorb_lor : forall s x, N.land s x = x -> N.lor s x = s.
Proof.
  intros s x H. apply N.bits_inj. intros k. rewrite N.lor_spec.
  assert (Hk : N.testbit (N.land s x) k = N.testbit x k) by (rewrite H; reflexivity).
  rewrite N.land_spec in Hk. destruct (N.testbit s k), (N.testbit x k); cbn in *; congruence.
Qed.

(** * the successor lemmas *)
Definition next_sub (s x : N) : N := N.land (N.pred s) x.
Definition next_sup (s x : N) : N := N.lor (s + 1) x.

(** for a non-zero submask [s] of [x], [(s-1) & x] is the greatest submask of [x] below [s] *)
Theorem next_sub_max : forall s x, s <> 0 -> N.land s x = s ->
  N.land (next_sub s x) x = next_sub s x /\ next_sub s x < s /\
  forall u, N.land u x = u -> u < s -> u <= next_sub s x.
Proof.
  intros s. induction s as [s IH] using (well_founded_induction N.lt_wf_0).
  intros x Hs Hsub. unfold next_sub in *.
  destruct (N_binary_cases s) as [[s' ->]|[s' ->]]; destruct (N_binary_cases x) as [[x' ->]|[x' ->]].
  - rewrite land_dd in Hsub. assert (Hsub' : N.land s' x' = s') by lia.
    assert (Hs' : s' <> 0) by lia. assert (Hlt : s' < 2 * s') by lia.
    destruct (IH s' Hlt x' Hs' Hsub') as (A & B & C).
    replace (N.pred (2 * s')) with (2 * N.pred s' + 1) by lia.
    rewrite land_sd. repeat split.
    + rewrite land_dd. lia.
    + lia.
    + intros u Hu Hlt'. destruct (N_binary_cases u) as [[u' ->]|[u' ->]].
      * rewrite land_dd in Hu. assert (Hu' : N.land u' x' = u') by lia.
        assert (H : u' < s') by lia. specialize (C u' Hu' H). lia.
      * rewrite land_sd in Hu. lia.
  - rewrite land_ds in Hsub. assert (Hsub' : N.land s' x' = s') by lia.
    assert (Hs' : s' <> 0) by lia. assert (Hlt : s' < 2 * s') by lia.
    destruct (IH s' Hlt x' Hs' Hsub') as (A & B & C).
    replace (N.pred (2 * s')) with (2 * N.pred s' + 1) by lia.
    rewrite land_ss. repeat split.
    + rewrite land_ss. lia.
    + lia.
    + intros u Hu Hlt'. destruct (N_binary_cases u) as [[u' ->]|[u' ->]].
      * rewrite land_ds in Hu. assert (Hu' : N.land u' x' = u') by lia.
        assert (H : u' < s') by lia. specialize (C u' Hu' H). lia.
      * rewrite land_ss in Hu. assert (Hu' : N.land u' x' = u') by lia.
        assert (H : u' < s') by lia. specialize (C u' Hu' H). lia.
  - rewrite land_sd in Hsub. lia.
  - rewrite land_ss in Hsub. assert (Hsub' : N.land s' x' = s') by lia.
    replace (N.pred (2 * s' + 1)) with (2 * s') by lia.
    rewrite land_ds, Hsub'. repeat split.
    + rewrite land_ds, Hsub'. reflexivity.
    + lia.
    + intros u _ Hlt'. lia.
Qed.

(** for a supermask [s] of [x] (no width: unbounded), [(s+1) | x] is the least supermask of [x] above [s] *)
Theorem next_sup_min : forall s x, N.land s x = x ->
  N.land (next_sup s x) x = x /\ s < next_sup s x /\
  forall u, N.land u x = x -> s < u -> next_sup s x <= u.
Proof.
  intros s. induction s as [s IH] using (well_founded_induction N.lt_wf_0).
  intros x Hsup. unfold next_sup in *.
  destruct (N_binary_cases s) as [[s' ->]|[s' ->]]; destruct (N_binary_cases x) as [[x' ->]|[x' ->]].
  - rewrite land_dd in Hsup. assert (Hsup' : N.land s' x' = x') by lia.
    rewrite lor_sd, (land_absorb_lor _ _ Hsup'). repeat split.
    + rewrite land_sd. lia.
    + lia.
    + intros u _ Hu. lia.
  - rewrite land_ds in Hsup. lia.
  - rewrite land_sd in Hsup. assert (Hsup' : N.land s' x' = x') by lia.
    assert (Hlt : s' < 2 * s' + 1) by lia.
    destruct (IH s' Hlt x' Hsup') as (A & B & C).
    replace (2 * s' + 1 + 1) with (2 * (s' + 1)) by lia.
    rewrite lor_dd. repeat split.
    + rewrite land_dd. lia.
    + lia.
    + intros u Hu Hlt'. destruct (N_binary_cases u) as [[u' ->]|[u' ->]].
      * rewrite land_dd in Hu. assert (Hu' : N.land u' x' = x') by lia.
        assert (H : s' < u') by lia. specialize (C u' Hu' H). lia.
      * rewrite land_sd in Hu. assert (Hu' : N.land u' x' = x') by lia.
        assert (H : s' < u') by lia. specialize (C u' Hu' H). lia.
  - rewrite land_ss in Hsup. assert (Hsup' : N.land s' x' = x') by lia.
    assert (Hlt : s' < 2 * s' + 1) by lia.
    destruct (IH s' Hlt x' Hsup') as (A & B & C).
    replace (2 * s' + 1 + 1) with (2 * (s' + 1)) by lia.
    rewrite lor_ds. repeat split.
    + rewrite land_ss. lia.
    + lia.
    + intros u Hu Hlt'. destruct (N_binary_cases u) as [[u' ->]|[u' ->]].
      * rewrite land_ds in Hu. lia.
      * rewrite land_ss in Hu. assert (Hu' : N.land u' x' = x') by lia.
        assert (H : s' < u') by lia. specialize (C u' Hu' H). lia.
Qed.

(** * width facts *)
Lemma pow2_pos w : 0 < 2 ^ w.
Proof. apply N.neq_0_lt_0. apply N.pow_nonzero. discriminate. Qed.

Lemma wrapping_sub1_eq w s : s <> 0 -> s < 2 ^ w -> wrapping_sub1 w s = N.pred s.
Proof.
  intros Hs Hw. unfold wrapping_sub1.
  replace (s + 2 ^ w - 1) with (N.pred s + 1 * 2 ^ w) by lia.
  rewrite N.mod_add by lia. apply N.mod_small. lia.
Qed.

Lemma wrapping_add1_eq w s : s <> ones w -> s < 2 ^ w -> wrapping_add1 w s = s + 1.
Proof.
  unfold ones, wrapping_add1. intros Hs Hw. apply N.mod_small. lia.
Qed.

Lemma ones_sup w x : x < 2 ^ w -> N.land (ones w) x = x.
Proof.
  intros Hx. unfold ones. rewrite <- N.pred_sub, <- N.ones_equiv, N.land_comm, N.land_ones.
  apply N.mod_small. exact Hx.
Qed.

(** * sorted lists *)
Section SortedAux.
Context {A : Type} (R : A -> A -> Prop).
Lemma ssorted_snoc l a : StronglySorted R l -> Forall (fun b => R b a) l -> StronglySorted R (l ++ [a]).
Proof.
  intros Hs. induction Hs as [|b l Hs IH Hb]; intros Hf; cbn [app].
  - constructor; constructor.
  - inversion Hf as [|? ? Hba Hf']; subst. constructor; [apply IH; exact Hf'|].
    apply Forall_app. split; [exact Hb|constructor; [exact Hba|constructor]].
Qed.
Lemma ssorted_rev l : StronglySorted R l -> StronglySorted (fun a b => R b a) (rev l).
Proof.
  intros Hs. induction Hs as [|b l Hs IH Hb]; cbn [rev]; [constructor|].
  revert IH. generalize (rev l) (Forall_rev Hb). clear. intros l' Hf Hs.
  induction Hs as [|c l' Hs IH Hc]; cbn [app].
  - constructor; constructor.
  - inversion Hf as [|? ? Hbc Hf']; subst. constructor; [apply IH; exact Hf'|].
    apply Forall_app. split; [exact Hc|constructor; [exact Hbc|constructor]].
Qed.
End SortedAux.

Lemma ssorted_lt_nodup (l : list N) : StronglySorted N.lt l -> NoDup l.
Proof.
  intros Hs. induction Hs as [|a l Hs IH Ha]; constructor; [|exact IH].
  intros Hin. rewrite Forall_forall in Ha. specialize (Ha a Hin). lia.
Qed.
Lemma ssorted_gt_nodup (l : list N) : StronglySorted (fun a b => b < a) l -> NoDup l.
Proof.
  intros Hs. induction Hs as [|a l Hs IH Ha]; constructor; [|exact IH].
  intros Hin. rewrite Forall_forall in Ha. specialize (Ha a Hin). lia.
Qed.

(** * the iterators *)
Definition sub_post (x : N) (l : list N) : Prop :=
  (forall u, In u l <-> N.land u x = u) /\ StronglySorted (fun a b => b < a) l /\ last l 1 = 0 /\ hd 1 l = x.

Definition sup_post (w x : N) (l : list N) : Prop :=
  (forall u, In u l <-> (N.land u x = x /\ u < 2 ^ w)) /\ StronglySorted N.lt l /\ last l 0 = ones w /\ hd 0 l = x.

Lemma hd_rev_last {A} (l : list A) (d : A) : hd d (rev l) = last l d.
Proof.
  induction l as [|a l IH]; [reflexivity|]. cbn [rev].
  destruct l as [|b l]; [reflexivity|]. cbn [last] in *. rewrite <- IH.
  cbn [rev]. destruct (rev l ++ [b]) eqn:E; [destruct (rev l); discriminate|reflexivity].
Qed.

Lemma iter_submasks_ok w x : w <= 128 -> x < 2 ^ w ->
  exists l, iter_submasks w x = Some l /\ sub_post x l.
Proof.
  intros Hw Hx. unfold iter_submasks.
  set (Inv := fun st : N * list N => let '(s, acc) := st in
     s < 2 ^ w /\ N.land s x = s /\ StronglySorted N.lt acc /\
     (forall u, In u acc -> N.land u x = u /\ s < u) /\
     (forall u, N.land u x = u -> s < u -> In u acc) /\ last (s :: acc) 1 = x).
  assert (Hpow : 2 ^ w <= 2 ^ 128) by (apply N.pow_le_mono_r; lia).
  destruct (iter_pos_spec (chain_step (next_submask w x) 0) Inv (sub_post x) (fun st => Z.of_N (fst st)))
    with (p := big_fuel) (s := (x, @nil N)) as (l & Hl & Hpost).
  - intros [s acc] (Hs & Hsub & Hsort & Hacc & Hall & Hlast). cbn [chain_step]. unfold next_submask.
    destruct (N.eqb_spec s 0) as [->|Hs0].
    + (* finished *)
      unfold sub_post. change (rev (0 :: acc)) with (rev acc ++ [0]). repeat split.
      * intros Hin. apply in_app_or in Hin. destruct Hin as [Hin|[<-|[]]]; [|apply N.land_0_l].
        apply in_rev in Hin. apply Hacc. exact Hin.
      * intros Hu. apply in_or_app. destruct (N.eq_dec u 0) as [->|Hu0]; [right; left; reflexivity|left].
        apply -> in_rev. apply Hall; [exact Hu|lia].
      * change (rev acc ++ [0]) with (rev (0 :: acc)). apply (ssorted_rev N.lt).
        constructor; [exact Hsort|]. apply Forall_forall. intros u Hu. apply Hacc. exact Hu.
      * apply last_last.
      * change (rev acc ++ [0]) with (rev (0 :: acc)). rewrite hd_rev_last. exact Hlast.
    + rewrite (wrapping_sub1_eq w s Hs0 Hs).
      destruct (next_sub_max s x Hs0 Hsub) as (A & B & C). fold (next_sub s x). cbn [fst]. split; [|lia].
      repeat split.
      * lia.
      * exact A.
      * constructor; [exact Hsort|]. apply Forall_forall. intros u Hu. apply Hacc. exact Hu.
      * destruct H as [<-|Hin]; [exact Hsub|apply Hacc; exact Hin].
      * destruct H as [<-|Hin]; [exact B|]. apply Hacc in Hin. lia.
      * intros u Hu Hlt. destruct (N.lt_trichotomy u s) as [Hus|[->|Hus]].
        -- specialize (C u Hu Hus). lia.
        -- left. reflexivity.
        -- right. apply Hall; assumption.
      * cbn [last] in *. exact Hlast.
  - cbn. repeat split; try exact Hx.
    + apply N.le_antisymm; [apply land_le_l|]. rewrite N.land_diag. lia.
    + constructor.
    + contradiction.
    + contradiction.
    + intros u Hu Hlt. pose proof (land_le_r u x). lia.
  - cbn [fst]. rewrite big_fuel_val. split; [lia|].
    apply Z.lt_le_trans with (Z.of_N (2 ^ 128)); [lia|]. change (Z.of_N (2 ^ 128)) with (2 ^ 128)%Z. lia.
  - exists l. rewrite Hl. split; [reflexivity|exact Hpost].
Qed.

Lemma iter_supermasks_ok w x : w <= 128 -> x < 2 ^ w ->
  exists l, iter_supermasks w x = Some l /\ sup_post w x l.
Proof.
  intros Hw Hx. unfold iter_supermasks.
  set (Inv := fun st : N * list N => let '(s, acc) := st in
     s < 2 ^ w /\ N.land s x = x /\ StronglySorted (fun a b => b < a) acc /\
     (forall u, In u acc -> N.land u x = x /\ u < s) /\
     (forall u, N.land u x = x -> u < s -> In u acc) /\ last (s :: acc) 0 = x).
  assert (Hpow : 2 ^ w <= 2 ^ 128) by (apply N.pow_le_mono_r; lia).
  pose proof (pow2_pos w) as Hpos.
  destruct (iter_pos_spec (chain_step (next_supermask w x) (ones w)) Inv (sup_post w x)
              (fun st => Z.of_N (ones w - fst st)))
    with (p := big_fuel) (s := (x, @nil N)) as (l & Hl & Hpost).
  - intros [s acc] (Hs & Hsup & Hsort & Hacc & Hall & Hlast). cbn [chain_step]. unfold next_supermask.
    destruct (N.eqb_spec s (ones w)) as [->|Hs1].
    + (* finished *)
      unfold sup_post. change (rev (ones w :: acc)) with (rev acc ++ [ones w]). repeat split.
      * apply in_app_or in H. destruct H as [Hin|[<-|[]]]; [|apply ones_sup; exact Hx].
        apply in_rev in Hin. apply Hacc. exact Hin.
      * apply in_app_or in H. destruct H as [Hin|[<-|[]]]; [|unfold ones; lia].
        apply in_rev in Hin. apply Hacc in Hin. lia.
      * intros [Hu Hlt]. apply in_or_app. destruct (N.eq_dec u (ones w)) as [->|Hu1]; [right; left; reflexivity|left].
        apply -> in_rev. apply Hall; [exact Hu|unfold ones in *; lia].
      * change (rev acc ++ [ones w]) with (rev (ones w :: acc)).
        apply (ssorted_rev (fun a b => b < a)).
        constructor; [exact Hsort|]. apply Forall_forall. intros u Hu. apply Hacc. exact Hu.
      * apply last_last.
      * change (rev acc ++ [ones w]) with (rev (ones w :: acc)). rewrite hd_rev_last. exact Hlast.
    + rewrite (wrapping_add1_eq w s Hs1 Hs).
      destruct (next_sup_min s x Hsup) as (A & B & C). fold (next_sup s x). cbn [fst].
      assert (Hle : next_sup s x <= ones w).
      { apply C; [apply ones_sup; exact Hx|unfold ones in *; lia]. }
      split; [|unfold ones in *; lia].
      repeat split.
      * unfold ones in *; lia.
      * exact A.
      * constructor; [exact Hsort|]. apply Forall_forall. intros u Hu. apply Hacc. exact Hu.
      * destruct H as [<-|Hin]; [exact Hsup|apply Hacc; exact Hin].
      * destruct H as [<-|Hin]; [exact B|]. apply Hacc in Hin. lia.
      * intros u Hu Hlt. destruct (N.lt_trichotomy u s) as [Hus|[->|Hus]].
        -- right. apply Hall; assumption.
        -- left. reflexivity.
        -- specialize (C u Hu Hus). lia.
      * cbn [last] in *. exact Hlast.
  - cbn. repeat split; try exact Hx.
    + apply N.land_diag.
    + constructor.
    + contradiction.
    + contradiction.
    + intros u Hu Hlt. pose proof (land_le_l u x). lia.
  - cbn [fst]. rewrite big_fuel_val. split; [lia|].
    apply Z.le_lt_trans with (Z.of_N (2 ^ 128)); [unfold ones; lia|]. change (Z.of_N (2 ^ 128)) with (2 ^ 128)%Z. lia.
  - exists l. rewrite Hl. split; [reflexivity|exact Hpost].
Qed.

(** the output is determined by the characterisation: two strictly sorted lists with the same elements are equal *)
Lemma ssorted_lt_unique (l1 l2 : list N) :
  StronglySorted N.lt l1 -> StronglySorted N.lt l2 -> (forall u, In u l1 <-> In u l2) -> l1 = l2.
Proof.
  intros H1. revert l2. induction H1 as [|a l1 H1 IH Ha]; intros l2 H2 Hin.
  - destruct l2 as [|b l2]; [reflexivity|]. exfalso. apply (Hin b). left. reflexivity.
  - destruct H2 as [|b l2 H2 Hb].
    + exfalso. apply (Hin a). left. reflexivity.
    + rewrite Forall_forall in Ha, Hb.
      assert (Hab : a = b).
      { destruct (proj1 (Hin a) (or_introl eq_refl)) as [E|Hi]; [symmetry; exact E|].
        destruct (proj2 (Hin b) (or_introl eq_refl)) as [E|Hj]; [exact E|].
        specialize (Ha _ Hj). specialize (Hb _ Hi). lia. }
      subst b. f_equal. apply IH; [exact H2|]. intros u. split; intros Hu.
      * destruct (proj1 (Hin u) (or_intror Hu)) as [E|Hi]; [|exact Hi]. subst u. specialize (Ha _ Hu). lia.
      * destruct (proj2 (Hin u) (or_intror Hu)) as [E|Hi]; [|exact Hi]. subst u. specialize (Hb _ Hu). lia.
Qed.

(** * statements used by Properties.v *)
Lemma submask_succ : forall w x s : N, s <> 0 -> s < 2 ^ w -> N.land s x = s ->
  exists n, next_submask w x s = Some (s, n) /\ N.land n x = n /\ n < s /\
            forall u, N.land u x = u -> u < s -> u <= n.
Proof.
  intros w x s Hs Hw Hsub. exists (next_sub s x). unfold next_submask.
  destruct (N.eqb_spec s 0) as [E|_]; [contradiction|].
  rewrite (wrapping_sub1_eq w s Hs Hw). split; [reflexivity|]. apply next_sub_max; assumption.
Qed.

Lemma supermask_succ : forall w x s : N, x < 2 ^ w -> s < 2 ^ w -> s <> 2 ^ w - 1 -> N.land s x = x ->
  exists n, next_supermask w x s = Some (s, n) /\ N.land n x = x /\ s < n /\ n < 2 ^ w /\
            forall u, N.land u x = x -> s < u -> n <= u.
Proof.
  intros w x s Hx Hw Hs Hsup. exists (next_sup s x). unfold next_supermask.
  destruct (N.eqb_spec s (ones w)) as [E|_]; [contradiction|].
  rewrite (wrapping_add1_eq w s Hs Hw). split; [reflexivity|].
  destruct (next_sup_min s x Hsup) as (A & B & C). repeat split; try assumption.
  assert (Hle : next_sup s x <= ones w) by (apply C; [apply ones_sup; exact Hx|unfold ones in *; lia]).
  pose proof (pow2_pos w). unfold ones in Hle. lia.
Qed.

Lemma mask_stop : forall w x : N, next_submask w x 0 = None /\ next_supermask w x (2 ^ w - 1) = None.
Proof.
  intros w x. split; [reflexivity|]. unfold next_supermask, ones. rewrite N.eqb_refl. reflexivity.
Qed.

Lemma submasks_enumeration : forall w x : N, w <= 128 -> x < 2 ^ w ->
  exists l, iter_submasks w x = Some l /\
            (forall u, In u l <-> N.land u x = u) /\
            StronglySorted (fun a b => b < a) l /\ NoDup l /\ hd 1 l = x /\ last l 1 = 0.
Proof.
  intros w x Hw Hx. destruct (iter_submasks_ok w x Hw Hx) as (l & Hl & A & B & C & D).
  exists l. split; [exact Hl|]. split; [exact A|]. split; [exact B|]. split; [apply ssorted_gt_nodup; exact B|].
  split; [exact D|exact C].
Qed.

Lemma supermasks_enumeration : forall w x : N, w <= 128 -> x < 2 ^ w ->
  exists l, iter_supermasks w x = Some l /\
            (forall u, In u l <-> (N.land u x = x /\ u < 2 ^ w)) /\
            StronglySorted N.lt l /\ NoDup l /\ hd 0 l = x /\ last l 0 = 2 ^ w - 1.
Proof.
  intros w x Hw Hx. destruct (iter_supermasks_ok w x Hw Hx) as (l & Hl & A & B & C & D).
  exists l. split; [exact Hl|]. split; [exact A|]. split; [exact B|]. split; [apply ssorted_lt_nodup; exact B|].
  split; [exact D|exact C].
Qed.

Lemma masks_terminate : forall w x : N, w <= 128 -> x < 2 ^ w ->
  iter_submasks w x <> None /\ iter_supermasks w x <> None.
Proof.
  intros w x Hw Hx. destruct (iter_submasks_ok w x Hw Hx) as (l & Hl & _).
  destruct (iter_supermasks_ok w x Hw Hx) as (l' & Hl' & _). rewrite Hl, Hl'. split; discriminate.
Qed.
