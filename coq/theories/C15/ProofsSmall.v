(** C15 — finite checks by computation: every sequence over a 3-letter alphabet up to length 7. *)
From Coq Require Import ZArith List Bool.
From RlibV Require Import Common.Batch C15.Model C15.Spec C15.Corr.
Import ListNotations.
Open Scope Z_scope.

Definition iter_matches (d : list Z) : bool :=
  match iter_permutations d with Some l => leqb (leqb Z.eqb) l (all_arrangements d) | None => false end.
Definition next_matches (d : list Z) : bool :=
  let '(r, out) := next_permutation d in spec_next d r out.

Lemma iter_permutations_small : forallb iter_matches (seqs_upto [0; 1; 2] 7) = true.
Proof. vm_compute. reflexivity. Qed.
Lemma next_permutation_small : forallb next_matches (seqs_upto [0; 1; 2] 7) = true.
Proof. vm_compute. reflexivity. Qed.
Lemma seqs_upto_count : length (seqs_upto [0; 1; 2] 7) = 3280%nat.
Proof. vm_compute. reflexivity. Qed.
