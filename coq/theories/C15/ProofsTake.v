(** C15 — the [take(k)] models ([iter_submasks_take], [iter_supermasks_take], [iter_permutations_take]) are the
    first [k] items of the full listings. *)
From Coq Require Import ZArith NArith Lia List Bool.
From RlibV Require Import Common.Iter C15.Model.
Import ListNotations.

Section Chain.
Variable next : N -> option (N * N).
Variable last : N.

Lemma chain_take_firstn : forall k j s, firstn k (chain_take next last (k + j) s) = chain_take next last k s.
Proof.
  induction k as [|k IH]; intros j s; [reflexivity|]. cbn [Nat.add chain_take].
  destruct (next s) as [[cur s']|]; cbn [firstn]; [rewrite IH; reflexivity|rewrite firstn_nil; reflexivity].
Qed.

Lemma chain_collect_take l : forall p s acc,
  iter_pos (chain_step next last) p (s, acc) = inr l ->
  forall x0, (forall k, rev acc ++ chain_take next last k s = chain_take next last (length acc + k) x0) ->
  forall k, chain_take next last k x0 = firstn k l.
Proof.
  intros p s acc Hrun x0 Hinv.
  pose proof (iter_pos_inv (chain_step next last)
    (fun st => forall k, rev (snd st) ++ chain_take next last k (fst st) = chain_take next last (length (snd st) + k) x0)
    (fun l => forall j, l = chain_take next last (length l + j) x0)) as HI.
  assert (Hstep : forall st, (forall k, rev (snd st) ++ chain_take next last k (fst st) = chain_take next last (length (snd st) + k) x0) ->
     match chain_step next last st with
     | inl st' => forall k, rev (snd st') ++ chain_take next last k (fst st') = chain_take next last (length (snd st') + k) x0
     | inr l => forall j, l = chain_take next last (length l + j) x0 end).
  { intros [s1 acc1] H1. cbn [fst snd] in H1. cbn [chain_step].
    destruct (next s1) as [[cur s']|] eqn:En.
    - cbn [fst snd]. intros k. specialize (H1 (S k)). cbn [chain_take] in H1. rewrite En in H1.
      cbn [rev length]. rewrite <- app_assoc. cbn [app]. rewrite H1. f_equal. lia.
    - intros j. specialize (H1 (S j)). cbn [chain_take] in H1. rewrite En in H1.
      cbn [rev]. rewrite app_length, rev_length. cbn [length]. rewrite H1. f_equal. lia. }
  specialize (HI Hstep p (s, acc) Hinv). rewrite Hrun in HI.
  intros k. destruct (Nat.le_gt_cases k (length l)) as [Hle|Hgt].
  - rewrite (HI 0%nat). replace (length l + 0)%nat with (k + (length l - k))%nat by lia. rewrite chain_take_firstn. reflexivity.
  - rewrite firstn_all2 by lia. transitivity (chain_take next last (length l + (k - length l)) x0); [f_equal; lia|symmetry; apply HI].
Qed.
End Chain.

Theorem iter_submasks_take_firstn w x l k : iter_submasks w x = Some l -> iter_submasks_take w x k = firstn k l.
Proof.
  unfold iter_submasks, iter_submasks_take. destruct (iter_pos _ _ _) as [|l'] eqn:E; [discriminate|]. intros H. injection H as ->.
  apply (chain_collect_take _ _ l big_fuel x [] E). intros j. reflexivity.
Qed.
Theorem iter_supermasks_take_firstn w x l k : iter_supermasks w x = Some l -> iter_supermasks_take w x k = firstn k l.
Proof.
  unfold iter_supermasks, iter_supermasks_take. destruct (iter_pos _ _ _) as [|l'] eqn:E; [discriminate|]. intros H. injection H as ->.
  apply (chain_collect_take _ _ l big_fuel x [] E). intros j. reflexivity.
Qed.

Lemma perm_take_from_firstn : forall k j s, firstn k (perm_take_from s (k + j)) = perm_take_from s k.
Proof.
  induction k as [|k IH]; intros j s; [reflexivity|]. cbn [Nat.add perm_take_from].
  destruct (next_permutation s) as [b nxt]. destruct b; cbn [firstn]; [rewrite IH; reflexivity|reflexivity].
Qed.

Theorem iter_permutations_take_firstn d l k : iter_permutations d = Some l -> iter_permutations_take d k = firstn k l.
Proof.
  unfold iter_permutations. cbn zeta. set (s := sort d).
  destruct (iter_pos perm_step (perm_fuel d) (s, [s])) as [|l'] eqn:E; [discriminate|]. intros H. injection H as ->.
  pose proof (iter_pos_inv perm_step
    (fun st => (1 <= length (snd st))%nat /\ forall k, rev (snd st) ++ perm_take_from (fst st) k = s :: perm_take_from s (length (snd st) - 1 + k))
    (fun l => (1 <= length l)%nat /\ forall j, l = s :: perm_take_from s (length l - 1 + j))) as HI.
  assert (Hstep : forall st, ((1 <= length (snd st))%nat /\ forall k, rev (snd st) ++ perm_take_from (fst st) k = s :: perm_take_from s (length (snd st) - 1 + k)) ->
     match perm_step st with
     | inl st' => (1 <= length (snd st'))%nat /\ forall k, rev (snd st') ++ perm_take_from (fst st') k = s :: perm_take_from s (length (snd st') - 1 + k)
     | inr l => (1 <= length l)%nat /\ forall j, l = s :: perm_take_from s (length l - 1 + j) end).
  { intros [cur acc] [Hlen H1]. cbn [fst snd] in *. cbn [perm_step].
    destruct (next_permutation cur) as [b nxt] eqn:En. destruct b.
    - cbn [fst snd length]. split; [lia|]. intros k0. specialize (H1 (S k0)). cbn [perm_take_from] in H1. rewrite En in H1.
      cbn [rev]. rewrite <- app_assoc. cbn [app]. rewrite H1. f_equal. f_equal. lia.
    - rewrite rev_length. split; [exact Hlen|]. intros j. specialize (H1 j).
      assert (E0 : perm_take_from cur j = []) by (destruct j; cbn [perm_take_from]; [|rewrite En]; reflexivity).
      rewrite E0, app_nil_r in H1. exact H1. }
  assert (H0 : (1 <= length (snd (s, [s])))%nat /\ forall k, rev (snd (s, [s])) ++ perm_take_from (fst (s, [s])) k = s :: perm_take_from s (length (snd (s, [s])) - 1 + k)).
  { cbn [fst snd length rev app]. split; [lia|]. intros k0. reflexivity. }
  specialize (HI Hstep (perm_fuel d) (s, [s]) H0). rewrite E in HI. destruct HI as [Hlen HI].
  unfold iter_permutations_take. destruct k as [|k]; [reflexivity|]. fold s.
  destruct (Nat.le_gt_cases (S k) (length l)) as [Hle|Hgt].
  - rewrite (HI 0%nat). cbn [firstn]. f_equal.
    replace (length l - 1 + 0)%nat with (k + (length l - 1 - k))%nat by lia. rewrite perm_take_from_firstn. reflexivity.
  - rewrite firstn_all2 by lia. transitivity (s :: perm_take_from s (length l - 1 + (S k - length l))); [f_equal; f_equal; lia|symmetry; apply HI].
Qed.
