(** C15 — proofs about iter_permutations (uses the successor theorems of ProofsPerm). *)
From Coq Require Import ZArith Lia List Bool Sorting.Permutation Sorting.Sorted.
From RlibV Require Import Common.Iter C15.Model C15.Spec C15.ProofsPerm.
Import ListNotations.
Open Scope Z_scope.

(** * insertion sort *)
Lemma insert_perm a l : Permutation (a :: l) (insert a l).
Proof.
  induction l as [|h t IH]; cbn [insert]; [reflexivity|].
  destruct (a <=? h); [reflexivity|]. transitivity (h :: a :: t); [apply perm_swap|]. constructor. exact IH.
Qed.
Lemma sort_perm l : Permutation l (sort l).
Proof.
  induction l as [|a l IH]; [reflexivity|]. cbn [sort fold_right]. fold (sort l).
  transitivity (a :: sort l); [constructor; exact IH|apply insert_perm].
Qed.
Lemma insert_nondec a l : nondec l -> nondec (insert a l).
Proof.
  intros H. induction H as [|h t H IH Hh]; cbn [insert]; [constructor; constructor|].
  destruct (Z.leb_spec a h) as [Hle|Hgt].
  - constructor; [constructor; assumption|]. constructor; [exact Hle|].
    rewrite Forall_forall in *. intros v Hv. specialize (Hh v Hv). lia.
  - constructor; [exact IH|]. apply Forall_forall. intros v Hv.
    apply (Permutation_in _ (Permutation_sym (insert_perm a t))) in Hv. destruct Hv as [<-|Hv]; [lia|].
    rewrite Forall_forall in Hh. apply Hh. exact Hv.
Qed.
Lemma sort_nondec l : nondec (sort l).
Proof. induction l as [|a l IH]; [constructor|]. cbn [sort fold_right]. fold (sort l). apply insert_nondec. exact IH. Qed.

(** * a measure that grows with the lexicographic order: ranks as digits in base B *)
Section Measure.
Variable s : list Z.
Definition rank (e : Z) : Z := Z.of_nat (length (filter (fun v => v <? e) s)).
Definition base : Z := Z.of_nat (length s) + 1.

Fixpoint val (l : list Z) : Z :=
  match l with [] => 0 | e :: t => rank e * base ^ Z.of_nat (length t) + val t end.

Lemma filter_length_le {A} (f : A -> bool) l : (length (filter f l) <= length l)%nat.
Proof. induction l as [|a l IH]; cbn [filter length]; [lia|]. destruct (f a); cbn [length]; lia. Qed.

Lemma filter_length_mono {A} (f g : A -> bool) l : (forall v, f v = true -> g v = true) ->
  (length (filter f l) <= length (filter g l))%nat.
Proof.
  intros Hfg. induction l as [|a l IH]; cbn [filter]; [lia|].
  destruct (f a) eqn:Ef; [rewrite (Hfg a Ef); cbn [length]; lia|]. destruct (g a); cbn [length]; lia.
Qed.

Lemma filter_length_lt {A} (f g : A -> bool) l e : (forall v, f v = true -> g v = true) ->
  In e l -> f e = false -> g e = true -> (length (filter f l) < length (filter g l))%nat.
Proof.
  intros Hfg. induction l as [|a l IH]; intros Hin Hf Hg; [contradiction|]. cbn [filter].
  destruct Hin as [->|Hin].
  - rewrite Hf, Hg. cbn [length]. pose proof (filter_length_mono f g l Hfg). lia.
  - specialize (IH Hin Hf Hg). destruct (f a) eqn:Ef; [rewrite (Hfg a Ef); cbn [length]; lia|].
    destruct (g a); cbn [length]; lia.
Qed.

Lemma rank_bound e : 0 <= rank e < base.
Proof. unfold rank, base. pose proof (filter_length_le (fun v => v <? e) s). lia. Qed.

Lemma rank_lt x y : In x s -> x < y -> rank x < rank y.
Proof.
  intros Hx Hxy. unfold rank. apply Nat2Z.inj_lt. apply filter_length_lt with (e := x).
  - intros v Hv. apply Z.ltb_lt in Hv. apply Z.ltb_lt. lia.
  - exact Hx.
  - apply Z.ltb_ge. lia.
  - apply Z.ltb_lt. exact Hxy.
Qed.

Lemma base_pos : 1 <= base.
Proof. unfold base. lia. Qed.

Lemma val_bound l : 0 <= val l < base ^ Z.of_nat (length l).
Proof.
  induction l as [|e t IH]; cbn [val length]; [change (base ^ Z.of_nat 0) with 1; lia|].
  rewrite Nat2Z.inj_succ, Z.pow_succ_r by lia. pose proof (rank_bound e) as Hr. pose proof base_pos as Hb.
  set (P := base ^ Z.of_nat (length t)) in *. assert (0 <= rank e * P) by nia.
  assert (rank e * P + P <= base * P) by nia. lia.
Qed.

Lemma val_lex p : forall q, length p = length q -> (forall x, In x p -> In x s) -> lex_lt p q -> val p < val q.
Proof.
  induction p as [|x p IH]; intros [|y q] Hl Hin Hlt; cbn [length] in Hl; try discriminate; try contradiction.
  cbn [val]. cbn [lex_lt] in Hlt. assert (Hl' : length p = length q) by lia. rewrite Hl'.
  pose proof (val_bound p) as Hp. pose proof (val_bound q) as Hq. rewrite Hl' in Hp.
  set (P := base ^ Z.of_nat (length q)) in *.
  destruct Hlt as [Hxy|[-> Hlt]].
  - pose proof (rank_lt x y (Hin x (or_introl eq_refl)) Hxy) as Hr.
    assert (rank x * P + P <= rank y * P) by nia. lia.
  - assert (val p < val q); [|lia]. apply IH; [exact Hl'| |exact Hlt]. intros v Hv. apply Hin. right. exact Hv.
Qed.
End Measure.

(** * the iterator *)
Definition iter_post (s : list Z) (l : list (list Z)) : Prop :=
  StronglySorted lex_lt l /\ (forall p, In p l <-> Permutation s p) /\ hd [] l = s.

Lemma perm_fuel_val d : Zpos (perm_fuel d) = (Z.of_nat (length d) + 1) ^ (Z.of_nat (length d) + 1).
Proof.
  unfold perm_fuel. rewrite Pos2Z.inj_pow, Zpos_P_of_succ_nat. unfold Z.succ. reflexivity.
Qed.

Lemma iter_permutations_sorted s : nondec s ->
  exists l, iter_pos perm_step (perm_fuel s) (s, [s]) = inr l /\ iter_post s l.
Proof.
  intros Hs.
  set (Inv := fun st : list Z * list (list Z) => let '(cur, acc) := st in
     Permutation s cur /\ (exists rest, acc = cur :: rest) /\
     StronglySorted (fun p q => lex_lt q p) acc /\
     (forall p, In p acc -> Permutation s p) /\
     (forall p, Permutation s p -> ~ lex_lt cur p -> In p acc) /\ last acc [] = s).
  set (n := Z.of_nat (length s)).
  destruct (iter_pos_spec perm_step Inv (iter_post s)
              (fun st => base s ^ n - 1 - val s (fst st)))
    with (p := perm_fuel s) (s := (s, [s])) as (l & Hl & Hpost).
  - intros [cur acc] (Hcur & [rest ->] & Hsort & Hsound & Hcompl & Hlast). cbn [perm_step].
    pose proof (next_perm_is_permutation cur) as Hperm.
    pose proof (next_perm_greater cur) as Hgt.
    pose proof (next_perm_minimal cur) as Hmin.
    pose proof (next_perm_wrap cur) as [Hwrap _].
    destruct (next_permutation cur) as [b nxt]. cbn [fst snd] in *. destruct b.
    + specialize (Hgt eq_refl). specialize (Hmin eq_refl).
      assert (Hnxt : Permutation s nxt) by (transitivity cur; assumption).
      split.
      * repeat split.
        -- exact Hnxt.
        -- eexists. reflexivity.
        -- constructor; [exact Hsort|]. apply Forall_forall. intros p [<-|Hp]; [exact Hgt|].
           apply StronglySorted_inv in Hsort. destruct Hsort as [_ Hc]. rewrite Forall_forall in Hc.
           apply lex_lt_trans with cur; [apply Hc; exact Hp|exact Hgt].
        -- intros p [<-|Hp]; [exact Hnxt|apply Hsound; exact Hp].
        -- intros p Hp Hnlt.
           destruct (lex_lt_trichotomy p nxt) as [H|[->|H]].
           ++ rewrite <- (Permutation_length Hp). apply Permutation_length. exact Hnxt.
           ++ right. apply Hcompl; [exact Hp|]. intros Hcp. apply (Hmin p); [|split; assumption].
              transitivity s; [symmetry; exact Hcur|exact Hp].
           ++ left. reflexivity.
           ++ contradiction.
        -- cbn [last] in *. exact Hlast.
      * pose proof (val_bound s nxt) as Hb. pose proof (val_bound s cur) as Hb'.
        rewrite <- (Permutation_length Hnxt) in Hb. fold n in Hb.
        assert (val s cur < val s nxt).
        { apply val_lex; [apply Permutation_length; exact Hperm| |exact Hgt].
          intros x Hx. eapply Permutation_in; [symmetry; exact Hcur|exact Hx]. }
        cbn [fst]. lia.
    + (* the last arrangement *)
      assert (Hni : noninc cur) by (apply Hwrap; reflexivity).
      unfold iter_post. split; [|split].
      * pose proof (ssorted_rev_flip _ _ Hsort) as Hr. cbn beta in Hr. exact Hr.
      * intros p. rewrite <- in_rev. split; [apply Hsound|]. intros Hp. apply Hcompl; [exact Hp|].
        apply noninc_max; [exact Hni|]. transitivity s; [symmetry; exact Hcur|exact Hp].
      * rewrite hd_rev_last. exact Hlast.
  - cbn. repeat split.
    + reflexivity.
    + eexists. reflexivity.
    + constructor; constructor.
    + intros p [<-|[]]. reflexivity.
    + intros p Hp Hn. left.
      destruct (lex_lt_trichotomy s p (Permutation_length Hp)) as [H|[H|H]]; [contradiction|exact H|].
      exfalso. exact (nondec_min s Hs p Hp H).
  - cbn [fst]. pose proof (val_bound s s) as Hb. fold n in Hb. split; [lia|].
    rewrite perm_fuel_val. fold n. change (Z.of_nat (length s) + 1) with (base s). unfold n.
    assert (base s ^ Z.of_nat (length s) <= base s ^ (Z.of_nat (length s) + 1)).
    { apply Z.pow_le_mono_r; [pose proof (base_pos s); lia|lia]. }
    unfold base in *. lia.
  - exists l. split; assumption.
Qed.

Lemma ssorted_lex_nodup (l : list (list Z)) : StronglySorted lex_lt l -> NoDup l.
Proof.
  intros Hs. induction Hs as [|a l Hs IH Ha]; constructor; [|exact IH].
  intros Hin. rewrite Forall_forall in Ha. exact (lex_lt_irrefl a (Ha a Hin)).
Qed.

Lemma iter_permutations_ok d :
  exists l, iter_permutations d = Some l /\ StronglySorted lex_lt l /\
            (forall p, In p l <-> Permutation d p) /\ NoDup l /\ hd [] l = sort d.
Proof.
  unfold iter_permutations. cbn zeta.
  assert (E : perm_fuel d = perm_fuel (sort d)).
  { unfold perm_fuel. rewrite (Permutation_length (sort_perm d)). reflexivity. }
  rewrite E. destruct (iter_permutations_sorted (sort d) (sort_nondec d)) as (l & Hl & Hs & Hin & Hhd).
  exists l. rewrite Hl. split; [reflexivity|]. split; [exact Hs|]. split; [|split; [apply ssorted_lex_nodup; exact Hs|exact Hhd]].
  intros p. rewrite Hin. split; intros Hp.
  - transitivity (sort d); [apply sort_perm|exact Hp].
  - transitivity d; [symmetry; apply sort_perm|exact Hp].
Qed.

(** two strictly increasing listings of the same set of sequences are equal: the characterisation determines the output *)
Lemma ssorted_lex_unique (l1 l2 : list (list Z)) :
  StronglySorted lex_lt l1 -> StronglySorted lex_lt l2 -> (forall u, In u l1 <-> In u l2) -> l1 = l2.
Proof.
  intros H1. revert l2. induction H1 as [|a l1 H1 IH Ha]; intros l2 H2 Hin.
  - destruct l2 as [|b l2]; [reflexivity|]. exfalso. apply (Hin b). left. reflexivity.
  - destruct H2 as [|b l2 H2 Hb].
    + exfalso. apply (Hin a). left. reflexivity.
    + rewrite Forall_forall in Ha, Hb.
      assert (Hab : a = b).
      { destruct (proj1 (Hin a) (or_introl eq_refl)) as [E|Hi]; [symmetry; exact E|].
        destruct (proj2 (Hin b) (or_introl eq_refl)) as [E|Hj]; [exact E|].
        specialize (Ha _ Hj). specialize (Hb _ Hi). exfalso. exact (lex_lt_irrefl a (lex_lt_trans _ _ _ Ha Hb)). }
      subst b. f_equal. apply IH; [exact H2|]. intros u. split; intros Hu.
      * destruct (proj1 (Hin u) (or_intror Hu)) as [E|Hi]; [|exact Hi]. subst u. exfalso. exact (lex_lt_irrefl a (Ha _ Hu)).
      * destruct (proj2 (Hin u) (or_intror Hu)) as [E|Hi]; [|exact Hi]. subst u. exfalso. exact (lex_lt_irrefl a (Hb _ Hu)).
Qed.

Lemma next_perm_wrap_sorted d : noninc d -> snd (next_permutation d) = sort d.
Proof.
  intros H. destruct (next_perm_wrap d) as [_ Hw]. destruct (Hw H) as [E Hnd].
  apply nondec_perm_unique; [exact Hnd|apply sort_nondec|].
  transitivity d; [symmetry; apply next_perm_is_permutation|apply sort_perm].
Qed.

Lemma next_perm_wrap_full : forall d : list Z,
  (fst (next_permutation d) = false <-> StronglySorted Z.ge d) /\
  (StronglySorted Z.ge d ->
     snd (next_permutation d) = rev d /\ StronglySorted Z.le (snd (next_permutation d)) /\
     snd (next_permutation d) = sort d).
Proof.
  intros d. destruct (next_perm_wrap d) as [H1 H2]. split; [exact H1|]. intros H. destruct (H2 H) as [E Hn].
  split; [exact E|]. split; [exact Hn|]. apply next_perm_wrap_sorted. exact H.
Qed.
