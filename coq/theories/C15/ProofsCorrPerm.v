(** C15 — the brute-force specification of Corr.v agrees with the model on permutations:
    [all_arrangements] is the strictly increasing listing of all arrangements, so it equals
    [iter_permutations]; [spec_next] accepts exactly the model's result. *)
From Coq Require Import ZArith Lia List Bool Sorting.Permutation Sorting.Sorted Sorting.Mergesort.
From RlibV Require Import Common.Batch C15.Model C15.Spec C15.Corr C15.ProofsPerm C15.ProofsIter.
Import ListNotations.
Open Scope Z_scope.

Lemma leqb_Z_eq : forall a b : list Z, leqb Z.eqb a b = true <-> a = b.
Proof.
  induction a as [|x a IH]; intros [|y b]; cbn [leqb]; try (split; [discriminate|discriminate]); [tauto|].
  rewrite andb_true_iff, Z.eqb_eq, IH. split; [intros [-> ->]; reflexivity|intros H; injection H; auto].
Qed.
Lemma leqb_ZZ_eq : forall a b : list (list Z), leqb (leqb Z.eqb) a b = true <-> a = b.
Proof.
  induction a as [|x a IH]; intros [|y b]; cbn [leqb]; try (split; [discriminate|discriminate]); [tauto|].
  rewrite andb_true_iff, leqb_Z_eq, IH. split; [intros [-> ->]; reflexivity|intros H; injection H; auto].
Qed.

(** * the library sort used by the specification is the sort *)
Lemma zsort_nondec d : nondec (ZSort.sort d).
Proof.
  unfold nondec. eapply ssorted_weaken; [|apply ZSort.StronglySorted_sort].
  - intros a b H. apply Z.leb_le. exact H.
  - intros a b c H1 H2. unfold is_true in *. apply Z.leb_le in H1, H2. apply Z.leb_le. lia.
Qed.
Lemma zsort_sort d : ZSort.sort d = sort d.
Proof.
  apply nondec_perm_unique; [apply zsort_nondec|apply sort_nondec|].
  transitivity d; [symmetry; apply ZSort.Permuted_sort|apply sort_perm].
Qed.

(** * remove1 / dedup_adj on non-decreasing lists *)
Lemma remove1_perm v l : In v l -> Permutation l (v :: remove1 v l).
Proof.
  induction l as [|h t IH]; [contradiction|]. intros Hin. cbn [remove1].
  destruct (Z.eqb_spec h v) as [->|Hne]; [reflexivity|].
  destruct Hin as [E|Hin]; [contradiction|]. transitivity (h :: v :: remove1 v t); [constructor; apply IH; exact Hin|apply perm_swap].
Qed.
Lemma remove1_incl v l u : In u (remove1 v l) -> In u l.
Proof.
  induction l as [|h t IH]; [contradiction|]. cbn [remove1]. destruct (h =? v); [intros H; right; exact H|].
  intros [->|H]; [left; reflexivity|right; apply IH; exact H].
Qed.
Lemma remove1_nondec v l : nondec l -> nondec (remove1 v l).
Proof.
  intros H. induction H as [|h t H IH Hh]; cbn [remove1]; [constructor|].
  destruct (h =? v); [exact H|]. constructor; [exact IH|]. rewrite Forall_forall in *.
  intros u Hu. apply Hh. eapply remove1_incl. exact Hu.
Qed.

Lemma dedup_adj_in l v : In v (dedup_adj l) <-> In v l.
Proof.
  induction l as [|a t IH]; [reflexivity|]. destruct t as [|b t']; [reflexivity|].
  change (dedup_adj (a :: b :: t')) with (if a =? b then dedup_adj (b :: t') else a :: dedup_adj (b :: t')).
  destruct (Z.eqb_spec a b) as [->|Hne].
  - rewrite IH. cbn [In]. tauto.
  - cbn [In] in *. rewrite IH. tauto.
Qed.
Lemma dedup_adj_sorted l : nondec l -> StronglySorted Z.lt (dedup_adj l).
Proof.
  intros H. induction H as [|a t H IH Ha]; [constructor|]. destruct t as [|b t']; [constructor; constructor|].
  change (dedup_adj (a :: b :: t')) with (if a =? b then dedup_adj (b :: t') else a :: dedup_adj (b :: t')).
  destruct (Z.eqb_spec a b) as [->|Hne]; [exact IH|]. constructor; [exact IH|].
  apply Forall_forall. intros v Hv. rewrite dedup_adj_in in Hv. rewrite Forall_forall in Ha.
  pose proof (Ha b (or_introl eq_refl)) as Hab.
  assert (Hbv : b <= v).
  { destruct Hv as [->|Hv]; [lia|]. apply StronglySorted_inv in H. destruct H as [_ Hb]. rewrite Forall_forall in Hb. apply Hb, Hv. }
  lia.
Qed.

(** * arrangements *)
Lemma map_cons_sorted v (L : list (list Z)) : StronglySorted lex_lt L -> StronglySorted lex_lt (map (cons v) L).
Proof.
  intros H. induction H as [|p L H IH Hp]; cbn [map]; constructor; [exact IH|].
  rewrite Forall_forall in *. intros q Hq. apply in_map_iff in Hq. destruct Hq as (q' & <- & Hq').
  cbn [lex_lt]. right. split; [reflexivity|apply Hp, Hq'].
Qed.

Lemma flat_map_heads_sorted (f : Z -> list (list Z)) vs :
  StronglySorted Z.lt vs -> (forall v, In v vs -> StronglySorted lex_lt (f v)) ->
  (forall v p, In v vs -> In p (f v) -> exists t, p = v :: t) ->
  StronglySorted lex_lt (flat_map f vs).
Proof.
  intros Hvs. induction Hvs as [|v vs Hvs IH Hv]; intros Hs Hh; cbn [flat_map]; [constructor|].
  apply ssorted_app.
  - apply Hs. left. reflexivity.
  - apply IH; [intros u Hu; apply Hs; right; exact Hu|intros u p Hu; apply Hh; right; exact Hu].
  - intros p q Hp Hq. apply in_flat_map in Hq. destruct Hq as (u & Hu & Hq).
    destruct (Hh v p (or_introl eq_refl) Hp) as (t & ->). destruct (Hh u q (or_intror Hu) Hq) as (t' & ->).
    cbn [lex_lt]. left. rewrite Forall_forall in Hv. apply Hv, Hu.
Qed.

Lemma arrangements_ok : forall n l, length l = n -> nondec l ->
  StronglySorted lex_lt (arrangements n l) /\ forall p, In p (arrangements n l) <-> Permutation l p.
Proof.
  induction n as [|n IH]; intros l Hl Hs.
  - destruct l; [|discriminate]. cbn [arrangements]. split; [constructor; constructor|].
    intros p. cbn [In]. split; [intros [<-|[]]; reflexivity|intros H; left; symmetry; apply Permutation_nil; exact H].
  - cbn [arrangements].
    assert (Hrem : forall v, In v l -> length (remove1 v l) = n /\ nondec (remove1 v l)).
    { intros v Hv. split; [|apply remove1_nondec; exact Hs].
      pose proof (Permutation_length (remove1_perm v l Hv)) as E. cbn [length] in E. lia. }
    split.
    + apply flat_map_heads_sorted.
      * apply dedup_adj_sorted. exact Hs.
      * intros v Hv. rewrite dedup_adj_in in Hv. apply map_cons_sorted. destruct (Hrem v Hv) as [E1 E2]. apply (IH _ E1 E2).
      * intros v p _ Hp. apply in_map_iff in Hp. destruct Hp as (t & <- & _). exists t. reflexivity.
    + intros p. rewrite in_flat_map. split.
      * intros (v & Hv & Hp). rewrite dedup_adj_in in Hv. apply in_map_iff in Hp. destruct Hp as (t & <- & Ht).
        destruct (Hrem v Hv) as [E1 E2]. apply (IH _ E1 E2) in Ht.
        transitivity (v :: remove1 v l); [apply remove1_perm; exact Hv|constructor; exact Ht].
      * intros Hp. destruct p as [|v t]; [apply Permutation_length in Hp; cbn [length] in Hp; lia|].
        assert (Hv : In v l) by (eapply Permutation_in; [symmetry; exact Hp|left; reflexivity]).
        exists v. split; [apply dedup_adj_in; exact Hv|]. apply in_map. destruct (Hrem v Hv) as [E1 E2].
        apply (IH _ E1 E2). apply Permutation_cons_inv with (a := v).
        transitivity l; [symmetry; apply remove1_perm; exact Hv|exact Hp].
Qed.

Lemma all_arrangements_ok d :
  StronglySorted lex_lt (all_arrangements d) /\ forall p, In p (all_arrangements d) <-> Permutation d p.
Proof.
  unfold all_arrangements. rewrite zsort_sort.
  destruct (arrangements_ok (length d) (sort d)) as [H1 H2].
  - symmetry. apply Permutation_length, sort_perm.
  - apply sort_nondec.
  - split; [exact H1|]. intros p. rewrite H2. split; intros H.
    + transitivity (sort d); [apply sort_perm|exact H].
    + transitivity d; [symmetry; apply sort_perm|exact H].
Qed.

Theorem iter_permutations_all_arrangements d : iter_permutations d = Some (all_arrangements d).
Proof.
  destruct (iter_permutations_ok d) as (l & Hl & Hs & Hin & _). rewrite Hl. f_equal.
  destruct (all_arrangements_ok d) as [Hs' Hin'].
  apply ssorted_lex_unique; [exact Hs|exact Hs'|]. intros u. rewrite Hin, Hin'. reflexivity.
Qed.

(** * the successor in a sorted listing *)
Lemma succ_in_next (A : list (list Z)) a b : StronglySorted lex_lt A -> In a A -> In b A -> lex_lt a b ->
  (forall p, In p A -> ~ (lex_lt a p /\ lex_lt p b)) -> succ_in A a = Some b.
Proof.
  intros Hs. induction Hs as [|x A Hs IH Hx]; intros Ha Hb Hab Hmin; [contradiction|].
  rewrite Forall_forall in Hx.
  destruct A as [|y A'].
  { exfalso. destruct Ha as [->|[]]. destruct Hb as [->|[]]. exact (lex_lt_irrefl _ Hab). }
  change (succ_in (x :: y :: A') a) with (if leqb Z.eqb x a then Some y else succ_in (y :: A') a).
  destruct (leqb Z.eqb x a) eqn:E.
  - apply leqb_Z_eq in E. subst x. f_equal.
    (* y is the least element above a; b is above a and nothing lies between *)
    destruct Hb as [->|Hb]; [exfalso; exact (lex_lt_irrefl _ Hab)|].
    destruct Hb as [->|Hb]; [reflexivity|]. exfalso.
    apply StronglySorted_inv in Hs. destruct Hs as [_ Hy]. rewrite Forall_forall in Hy.
    apply (Hmin y); [right; left; reflexivity|]. split; [apply Hx; left; reflexivity|apply Hy; exact Hb].
  - assert (Hne : x <> a) by (intros ->; rewrite (proj2 (leqb_Z_eq a a) eq_refl) in E; discriminate).
    destruct Ha as [Ha|Ha]; [contradiction|].
    apply IH; [exact Ha| |exact Hab|intros p Hp; apply Hmin; right; exact Hp].
    destruct Hb as [->|Hb]; [|exact Hb]. exfalso.
    exact (lex_lt_irrefl _ (lex_lt_trans _ _ _ Hab (Hx a Ha))).
Qed.

Lemma succ_in_last (A : list (list Z)) a : StronglySorted lex_lt A -> In a A ->
  (forall p, In p A -> ~ lex_lt a p) -> succ_in A a = None.
Proof.
  intros Hs. induction Hs as [|x A Hs IH Hx]; intros Ha Hmax; [reflexivity|].
  destruct A as [|y A']; [reflexivity|].
  change (succ_in (x :: y :: A') a) with (if leqb Z.eqb x a then Some y else succ_in (y :: A') a).
  rewrite Forall_forall in Hx.
  destruct (leqb Z.eqb x a) eqn:E.
  - apply leqb_Z_eq in E. subst x. exfalso. apply (Hmax y); [right; left; reflexivity|]. apply Hx. left. reflexivity.
  - assert (Hne : x <> a) by (intros ->; rewrite (proj2 (leqb_Z_eq a a) eq_refl) in E; discriminate).
    destruct Ha as [Ha|Ha]; [contradiction|]. apply IH; [exact Ha|]. intros p Hp. apply Hmax. right. exact Hp.
Qed.

Theorem next_permutation_spec d : spec_next d (fst (next_permutation d)) (snd (next_permutation d)) = true.
Proof.
  unfold spec_next. destruct (all_arrangements_ok d) as [Hs Hin].
  pose proof (next_perm_is_permutation d) as Hperm.
  destruct (fst (next_permutation d)) eqn:Er.
  - rewrite (succ_in_next (all_arrangements d) d (snd (next_permutation d))).
    + cbn [andb]. apply leqb_Z_eq. reflexivity.
    + exact Hs.
    + apply Hin. reflexivity.
    + apply Hin. exact Hperm.
    + apply next_perm_greater. exact Er.
    + intros p Hp. apply next_perm_minimal; [exact Er|apply Hin; exact Hp].
  - assert (Hni : noninc d) by (apply next_perm_wrap; exact Er).
    rewrite (succ_in_last (all_arrangements d) d).
    + cbn [negb andb]. apply leqb_Z_eq. rewrite (next_perm_wrap_sorted d Hni).
      pose proof (iter_permutations_all_arrangements d) as E.
      destruct (iter_permutations_ok d) as (l & Hl & _ & _ & _ & Hhd). rewrite Hl in E. injection E as <-. symmetry. exact Hhd.
    + exact Hs.
    + apply Hin. reflexivity.
    + intros p Hp. apply noninc_max; [exact Hni|apply Hin; exact Hp].
Qed.
