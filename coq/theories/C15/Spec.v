(** C15 — the notions the property theorems are stated with. *)
From Coq Require Import ZArith List Sorting.Sorted.
Import ListNotations.
Open Scope Z_scope.

(** lexicographic order on sequences (a proper prefix is smaller) *)
Fixpoint lex_lt (p q : list Z) : Prop :=
  match p, q with
  | _, [] => False
  | [], _ :: _ => True
  | x :: p', y :: q' => x < y \/ (x = y /\ lex_lt p' q')
  end.

(** non-increasing / non-decreasing sequences *)
Definition noninc (l : list Z) : Prop := StronglySorted Z.ge l.
Definition nondec (l : list Z) : Prop := StronglySorted Z.le l.

(** all sequences of length [n] / of length at most [n] over an alphabet *)
Fixpoint all_seqs (alpha : list Z) (n : nat) : list (list Z) :=
  match n with
  | O => [[]]
  | S n' => flat_map (fun t => map (fun a => a :: t) alpha) (all_seqs alpha n')
  end.
Definition seqs_upto (alpha : list Z) (n : nat) : list (list Z) := flat_map (all_seqs alpha) (seq 0 (S n)).
