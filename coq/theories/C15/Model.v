(** C15 — executable model of rlib/iter (masks.rs, permutations.rs, neighbours.rs).

    Definitions only; proofs are in Proofs*.v.

    Masks: a value of an integer type of [w] bits is its bit pattern, an [N] below [2^w]
    (signed types through their two's-complement pattern: every operation used by the code —
    [== 0], [wrapping_sub(1)], [wrapping_add(1)], [&], [|], [count_zeros] — acts on the pattern).
    Permutations: [Vec<T>] with [T : Ord] is [list Z] ([<], [>] of the code are [<?], [>?]).
    Neighbours: [usize as isize] arithmetic is [Z] (grid sizes and coordinates below 2^63). *)
From Coq Require Import ZArith NArith List Bool.
From RlibV Require Import Common.Iter.
Import ListNotations.

(** * masks.rs *)
Section Masks.
Local Open Scope N_scope.

(** [self.wrapping_sub(1)] and [self.wrapping_add(1)] in width [w] *)
Definition wrapping_sub1 (w s : N) : N := (s + 2 ^ w - 1) mod 2 ^ w.
Definition wrapping_add1 (w s : N) : N := (s + 1) mod 2 ^ w.
(** [<$t>::from_le_bytes([0xff; BITS / 8])] *)
Definition ones (w : N) : N := 2 ^ w - 1.

(** [next_submask(&mut self, x)]: [None], or [Some (cur, new value of *self)] *)
Definition next_submask (w x s : N) : option (N * N) :=
  if s =? 0 then None else Some (s, N.land (wrapping_sub1 w s) x).

(** [next_supermask]: [self.count_zeros() == 0] holds exactly for the all-ones pattern *)
Definition next_supermask (w x s : N) : option (N * N) :=
  if s =? ones w then None else Some (s, N.lor (wrapping_add1 w s) x).

(** [std::iter::from_fn(move || state.next(x)).chain([last])], collected.  One step of the
    collecting loop: state = (captured variable, items yielded so far, newest first). *)
Definition chain_step (next : N -> option (N * N)) (last : N) (st : N * list N)
  : (N * list N) + list N :=
  let '(s, acc) := st in
  match next s with
  | None => inr (rev (last :: acc))
  | Some (cur, s') => inl (s', cur :: acc)
  end.

(** [None] = out of fuel (excluded by the theorems for every width up to 128) *)
Definition iter_submasks (w x : N) : option (list N) :=
  match iter_pos (chain_step (next_submask w x) 0) big_fuel (x, []) with
  | inr l => Some l
  | inl _ => None
  end.

Definition iter_supermasks (w x : N) : option (list N) :=
  match iter_pos (chain_step (next_supermask w x) (ones w)) big_fuel (x, []) with
  | inr l => Some l
  | inl _ => None
  end.

(** [from_fn(..).chain([last]).take(k)], collected: [next()] is called at most [k] times ([k] is the small number
    of items a caller asks for, so structural recursion on it is the loop) *)
Fixpoint chain_take (next : N -> option (N * N)) (last : N) (k : nat) (s : N) : list N :=
  match k with
  | O => []
  | S k' => match next s with
            | None => [last]
            | Some (cur, s') => cur :: chain_take next last k' s'
            end
  end.
Definition iter_submasks_take (w x : N) (k : nat) : list N := chain_take (next_submask w x) 0 k x.
Definition iter_supermasks_take (w x : N) (k : nat) : list N := chain_take (next_supermask w x) (ones w) k x.
End Masks.

(** * permutations.rs *)
Section Perms.
Local Open Scope Z_scope.

(** [data[i]] (all uses are in bounds) *)
Definition get (d : list Z) (i : nat) : Z := nth i d 0.

Fixpoint set_nth (d : list Z) (i : nat) (v : Z) : list Z :=
  match d, i with
  | [], _ => []
  | _ :: t, O => v :: t
  | h :: t, S i' => h :: set_nth t i' v
  end.

(** [data.swap(a, b)] *)
Definition swap (d : list Z) (a b : nat) : list Z :=
  set_nth (set_nth d a (get d b)) b (get d a).

(** [for i in (1..=top).rev() { if data[i - 1] < data[i] { return Some(i) } }] *)
Fixpoint find_i (d : list Z) (top : nat) : option nat :=
  match top with
  | O => None
  | S i' => if get d i' <? get d top then Some top else find_i d i'
  end.

(** [while j + 1 < data.len() && data[j + 1] > p { j += 1 }]; [k] bounds the number of
    increments (called with [k = data.len()], which the loop condition never reaches) *)
Fixpoint scan_j (d : list Z) (p : Z) (j k : nat) : nat :=
  match k with
  | O => j
  | S k' => if (S j <? length d)%nat && (get d (S j) >? p) then scan_j d p (S j) k' else j
  end.

(** [data[i..].reverse()] *)
Definition reverse_from (d : list Z) (i : nat) : list Z := firstn i d ++ rev (skipn i d).

(** returned bool and the contents of [data] afterwards *)
Definition next_permutation (d : list Z) : bool * list Z :=
  match find_i d (length d - 1) with
  | Some i =>
      let j := scan_j d (get d (i - 1)) i (length d) in
      (true, reverse_from (swap d (i - 1) j) i)
  | None => (false, rev d)
  end.

(** [data.sort()] (any sorting algorithm gives the same list of integers) *)
Fixpoint insert (a : Z) (l : list Z) : list Z :=
  match l with
  | [] => [a]
  | h :: t => if a <=? h then a :: l else h :: insert a t
  end.
Definition sort (l : list Z) : list Z := fold_right insert [] l.

(** [PermutationIter::next], collected: the first call yields the sorted data, each further
    call yields the data after [next_permutation] as long as that returns [true]. *)
Definition perm_step (st : list Z * list (list Z)) : (list Z * list (list Z)) + list (list Z) :=
  let '(cur, acc) := st in
  let '(b, nxt) := next_permutation cur in
  if b then inl (nxt, nxt :: acc) else inr (rev acc).

(** fuel (n+1)^(n+1), binary: more than the number of arrangements of n elements *)
Definition perm_fuel (d : list Z) : positive :=
  let b := Pos.of_succ_nat (length d) in Pos.pow b b.

Definition iter_permutations (d : list Z) : option (list (list Z)) :=
  let s := sort d in
  match iter_pos perm_step (perm_fuel d) (s, [s]) with
  | inr l => Some l
  | inl _ => None
  end.

(** [iter_permutations(d).take(k)], collected: the sorted data, then up to [k - 1] further calls of
    [PermutationIter::next], stopping at the first call whose [next_permutation] returns [false] *)
Fixpoint perm_take_from (cur : list Z) (k : nat) : list (list Z) :=
  match k with
  | O => []
  | S k' => let '(b, nxt) := next_permutation cur in if b then nxt :: perm_take_from nxt k' else []
  end.
Definition iter_permutations_take (d : list Z) (k : nat) : list (list Z) :=
  match k with O => [] | S k' => let s := sort d in s :: perm_take_from s k' end.
End Perms.

(** * neighbours.rs *)
Section Neighbours.
Local Open Scope Z_scope.

Definition offs4 : list (Z * Z) := [(0, 1); (-1, 0); (0, -1); (1, 0)].
Definition offs4d : list (Z * Z) := [(-1, 1); (-1, -1); (1, -1); (1, 1)].
Definition offs8 : list (Z * Z) :=
  [(0, 1); (-1, 1); (-1, 0); (-1, -1); (0, -1); (1, -1); (1, 0); (1, 1)].

(** [.filter(|&(x, y)| i + x >= 0 && i + x < n && j + y >= 0 && j + y < m).map(|(x, y)| (i + x, j + y))] *)
Definition neighbours (offs : list (Z * Z)) (n m i j : Z) : list (Z * Z) :=
  map (fun '(x, y) => (i + x, j + y))
      (filter (fun '(x, y) => (i + x >=? 0) && (i + x <? n) && (j + y >=? 0) && (j + y <? m)) offs).

Definition iter_neighbours_4 := neighbours offs4.
Definition iter_neighbours_4d := neighbours offs4d.
Definition iter_neighbours_8 := neighbours offs8.
End Neighbours.
