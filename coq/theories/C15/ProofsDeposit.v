(** C15 — closed form of the mask iterators: the i-th submask is [deposit x (2^popcount x - 1 - i)], the i-th
    supermask is [x + deposit (~x) i]. *)
From Coq Require Import ZArith NArith Lia List Bool.
From RlibV Require Import Common.Batch Common.Iter C15.Model C15.Corr C15.ProofsMasks C15.ProofsMasksEnum C15.ProofsCorrMasks C15.ProofsTake.
Import ListNotations.
Open Scope N_scope.

Lemma div2_even q : (2 * q) / 2 = q.
Proof. symmetry. apply (N.div_unique (2 * q) 2 q 0); lia. Qed.
Lemma mod2_even q : (2 * q) mod 2 = 0.
Proof. symmetry. apply (N.mod_unique (2 * q) 2 q 0); lia. Qed.
Lemma div2_odd q : (2 * q + 1) / 2 = q.
Proof. symmetry. apply (N.div_unique (2 * q + 1) 2 q 1); lia. Qed.
Lemma mod2_odd q : (2 * q + 1) mod 2 = 1.
Proof. symmetry. apply (N.mod_unique (2 * q + 1) 2 q 1); lia. Qed.

Lemma deposit_0_l j : deposit 0 j = 0.
Proof. reflexivity. Qed.
Lemma deposit_double m j : deposit (2 * m) j = 2 * deposit m j.
Proof.
  destruct m as [|p]; [reflexivity|]. change (2 * N.pos p) with (N.pos (xO p)). cbn [deposit deposit_pos].
  rewrite N.double_spec. reflexivity.
Qed.
Lemma deposit_sdouble m j : deposit (2 * m + 1) j = 2 * deposit m (j / 2) + j mod 2.
Proof.
  destruct m as [|p]; [reflexivity|]. change (2 * N.pos p + 1) with (N.pos (xI p)). cbn [deposit deposit_pos].
  rewrite N.double_spec, N.div2_div. reflexivity.
Qed.

Definition dep_ok (m : N) : Prop := forall j, j < 2 ^ popcount m ->
  N.land (deposit m j) m = deposit m j /\
  (deposit m j = 0 <-> j = 0) /\
  (j <> 0 -> N.land (deposit m j - 1) m = deposit m (j - 1)) /\
  (forall j', j' < 2 ^ popcount m -> deposit m j = deposit m j' -> j = j').

Lemma dep_ok_all m : dep_ok m.
Proof.
  induction m as [|n IH|n IH] using N.binary_rect; unfold dep_ok.
  - cbn. intros j Hj. assert (j = 0) by lia. subst j. repeat split; try reflexivity; try (intros; lia).
  - rewrite N.double_spec, popcount_double. intros j Hj. destruct (IH j Hj) as (Hc & Hb & Hd & Hi).
    rewrite !deposit_double. repeat split.
    + rewrite land_dd, Hc. reflexivity.
    + intros H. apply Hb. lia.
    + intros ->. assert (deposit n 0 = 0) by (apply Hb; reflexivity). lia.
    + intros Hj0. assert (Hne : deposit n j <> 0) by (intros E; apply Hb in E; contradiction).
      replace (2 * deposit n j - 1) with (2 * (deposit n j - 1) + 1) by lia.
      rewrite land_sd, (Hd Hj0). reflexivity.
    + intros j' Hj' E. rewrite !deposit_double in E. apply Hi; [exact Hj'|lia].
  - rewrite N.succ_double_spec, popcount_succ_double, N.pow_add_r. change (2 ^ 1) with 2.
    intros j Hj.
    assert (Hcase : forall q r, r < 2 -> q < 2 ^ popcount n -> deposit (2 * n + 1) (2 * q + r) = 2 * deposit n q + r).
    { intros q r Hr Hq. rewrite deposit_sdouble. destruct (N.eq_dec r 0) as [->|Hr0].
      - rewrite N.add_0_r, div2_even, mod2_even. reflexivity.
      - assert (r = 1) by lia. subst r. rewrite div2_odd, mod2_odd. reflexivity. }
    destruct (N_binary_cases j) as [[q ->]|[q ->]].
    + assert (Hq : q < 2 ^ popcount n) by lia. destruct (IH q Hq) as (Hc & Hb & Hd & Hi).
      pose proof (Hcase q 0 ltac:(lia) Hq) as E. rewrite !N.add_0_r in E. rewrite E. repeat split.
      * rewrite land_ds, Hc. reflexivity.
      * intros H. assert (q = 0) by (apply Hb; lia). lia.
      * intros H. assert (q = 0) by lia. subst q. assert (deposit n 0 = 0) by (apply Hb; reflexivity). lia.
      * intros Hj0. assert (Hq0 : q <> 0) by lia.
        assert (Hne : deposit n q <> 0) by (intros E0; apply Hb in E0; contradiction).
        replace (2 * deposit n q - 1) with (2 * (deposit n q - 1) + 1) by lia.
        rewrite land_ss, (Hd Hq0). replace (2 * q - 1) with (2 * (q - 1) + 1) by lia.
        rewrite (Hcase (q - 1) 1) by lia. reflexivity.
      * intros j' Hj' E'. destruct (N_binary_cases j') as [[q' ->]|[q' ->]].
        -- pose proof (Hcase q' 0 ltac:(lia) ltac:(lia)) as E2. rewrite !N.add_0_r in E2. rewrite E2 in E'.
           assert (q = q') by (apply Hi; lia). lia.
        -- rewrite (Hcase q' 1) in E' by lia. lia.
    + assert (Hq : q < 2 ^ popcount n) by lia. destruct (IH q Hq) as (Hc & Hb & Hd & Hi).
      rewrite (Hcase q 1) by lia. repeat split.
      * rewrite land_ss, Hc. reflexivity.
      * intros H. lia.
      * intros H. lia.
      * intros _. replace (2 * deposit n q + 1 - 1) with (2 * deposit n q) by lia.
        rewrite land_ds, Hc. replace (2 * q + 1 - 1) with (2 * q + 0) by lia.
        rewrite (Hcase q 0) by lia. lia.
      * intros j' Hj' E'. destruct (N_binary_cases j') as [[q' ->]|[q' ->]].
        -- pose proof (Hcase q' 0 ltac:(lia) ltac:(lia)) as E2. rewrite !N.add_0_r in E2. rewrite E2 in E'. lia.
        -- rewrite (Hcase q' 1) in E' by lia. assert (q = q') by (apply Hi; lia). lia.
Qed.

Lemma pow2_ge1 a : 1 <= 2 ^ a.
Proof. pose proof (pow2_pos a). lia. Qed.

Lemma deposit_top m : deposit m (2 ^ popcount m - 1) = m.
Proof.
  induction m as [|n IH|n IH] using N.binary_rect; [reflexivity| |].
  - rewrite N.double_spec, popcount_double, deposit_double, IH. reflexivity.
  - rewrite N.succ_double_spec, popcount_succ_double, N.pow_add_r. change (2 ^ 1) with 2.
    pose proof (pow2_ge1 (popcount n)) as Hp. rewrite deposit_sdouble.
    replace (2 ^ popcount n * 2 - 1) with (2 * (2 ^ popcount n - 1) + 1) by lia.
    rewrite div2_odd, mod2_odd, IH. reflexivity.
Qed.

Lemma deposit_0_r m : deposit m 0 = 0.
Proof. destruct (dep_ok_all m 0) as (_ & Hb & _); [apply pow2_pos|]. apply Hb. reflexivity. Qed.

Lemma sub_take_closed w x : x < 2 ^ w -> forall k j, j < 2 ^ popcount x ->
  chain_take (next_submask w x) 0 k (deposit x j) = sub_closed x j k.
Proof.
  intros Hx. induction k as [|k IH]; intros j Hj; [reflexivity|]. cbn [chain_take sub_closed].
  destruct (dep_ok_all x j Hj) as (Hc & Hb & Hd & _). unfold next_submask.
  destruct (N.eqb_spec (deposit x j) 0) as [E|E].
  - apply Hb in E. subst j. rewrite deposit_0_r. reflexivity.
  - assert (Hj0 : j <> 0) by (intros ->; apply E, deposit_0_r).
    destruct (N.eqb_spec j 0) as [|_]; [contradiction|].
    assert (Hlt : deposit x j < 2 ^ w) by (pose proof (land_le_r (deposit x j) x); rewrite Hc in *; lia).
    rewrite (wrapping_sub1_eq w _ E Hlt), <- N.sub_1_r, (Hd Hj0), IH by lia. reflexivity.
Qed.

Theorem iter_submasks_take_closed w x k : x < 2 ^ w ->
  iter_submasks_take w x k = sub_closed x (2 ^ popcount x - 1) k.
Proof.
  intros Hx. unfold iter_submasks_take. rewrite <- (deposit_top x) at 2.
  apply sub_take_closed; [exact Hx|]. pose proof (pow2_ge1 (popcount x)). lia.
Qed.

(* supermasks *)
Definition sup_ok (w : nat) : Prop := forall x, x < 2 ^ N.of_nat w ->
  let F := 2 ^ N.of_nat w - 1 - x in forall j, j < 2 ^ popcount F ->
  N.lor (x + deposit F j) x = x + deposit F j /\
  (j + 1 < 2 ^ popcount F -> N.lor (x + deposit F j + 1) x = x + deposit F (j + 1)).

Lemma sup_ok_all w : sup_ok w.
Proof.
  induction w as [|w IH]; unfold sup_ok.
  - cbn. intros x Hx. assert (x = 0) by lia. subst x. cbn. intros j Hj. assert (j = 0) by lia. subst j. split; [reflexivity|lia].
  - unfold sup_ok in IH. rewrite Nat2N.inj_succ, N.pow_succ_r'. set (P := 2 ^ N.of_nat w) in *. pose proof (pow2_ge1 (N.of_nat w)) as HP. fold P in HP.
    intros x Hx. cbn zeta.
    destruct (N_binary_cases x) as [[x' ->]|[x' ->]].
    + (* bit 0 of x clear: free bit *)
      assert (Hx' : x' < P) by lia. specialize (IH x' Hx'). cbn zeta in IH.
      replace (2 * P - 1 - 2 * x') with (2 * (P - 1 - x') + 1) by lia. set (F' := P - 1 - x') in *.
      rewrite popcount_succ_double, N.pow_add_r. change (2 ^ 1) with 2. intros j Hj.
      assert (Hcase : forall q r, r < 2 -> deposit (2 * F' + 1) (2 * q + r) = 2 * deposit F' q + r).
      { intros q r Hr. rewrite deposit_sdouble. destruct (N.eq_dec r 0) as [->|Hr0].
        - rewrite N.add_0_r, div2_even, mod2_even. reflexivity.
        - assert (r = 1) by lia. subst r. rewrite div2_odd, mod2_odd. reflexivity. }
      destruct (N_binary_cases j) as [[q ->]|[q ->]].
      * assert (Hq : q < 2 ^ popcount F') by lia. destruct (IH q Hq) as [Hk He].
        pose proof (Hcase q 0 ltac:(lia)) as E. rewrite !N.add_0_r in E. rewrite E. split.
        -- replace (2 * x' + 2 * deposit F' q) with (2 * (x' + deposit F' q)) by lia. rewrite lor_dd, Hk. reflexivity.
        -- intros _. replace (2 * x' + 2 * deposit F' q + 1) with (2 * (x' + deposit F' q) + 1) by lia.
           rewrite lor_sd, Hk, (Hcase q 1) by lia. lia.
      * assert (Hq : q < 2 ^ popcount F') by lia. destruct (IH q Hq) as [Hk He].
        rewrite (Hcase q 1) by lia. split.
        -- replace (2 * x' + (2 * deposit F' q + 1)) with (2 * (x' + deposit F' q) + 1) by lia. rewrite lor_sd, Hk. reflexivity.
        -- intros Hj1. replace (2 * x' + (2 * deposit F' q + 1) + 1) with (2 * (x' + deposit F' q + 1)) by lia.
           rewrite lor_dd, He by lia. replace (2 * q + 1 + 1) with (2 * (q + 1) + 0) by lia.
           rewrite (Hcase (q + 1) 0) by lia. lia.
    + (* bit 0 of x set *)
      assert (Hx' : x' < P) by lia. specialize (IH x' Hx'). cbn zeta in IH.
      replace (2 * P - 1 - (2 * x' + 1)) with (2 * (P - 1 - x')) by lia. set (F' := P - 1 - x') in *.
      rewrite popcount_double. intros j Hj. destruct (IH j Hj) as [Hk He]. rewrite !deposit_double. split.
      * replace (2 * x' + 1 + 2 * deposit F' j) with (2 * (x' + deposit F' j) + 1) by lia. rewrite lor_ss, Hk. reflexivity.
      * intros Hj1. replace (2 * x' + 1 + 2 * deposit F' j + 1) with (2 * (x' + deposit F' j + 1)) by lia.
        rewrite lor_ds, (He Hj1). lia.
Qed.

Lemma sup_take_closed w x : x < 2 ^ w -> let F := 2 ^ w - 1 - x in forall k j, j < 2 ^ popcount F ->
  chain_take (next_supermask w x) (ones w) k (x + deposit F j) = sup_closed x F (2 ^ popcount F - 1) j k.
Proof.
  intros Hx F. induction k as [|k IH]; intros j Hj; [reflexivity|]. cbn [chain_take sup_closed].
  pose proof (sup_ok_all (N.to_nat w)) as Hs. unfold sup_ok in Hs. rewrite N2Nat.id in Hs. specialize (Hs x Hx). cbn zeta in Hs.
  fold F in Hs. destruct (Hs j Hj) as [Hk He].
  destruct (dep_ok_all F j Hj) as (Hc & _ & _ & Hi).
  assert (HF : x + F = 2 ^ w - 1) by (unfold F; lia).
  assert (Hle : deposit F j <= F) by (pose proof (land_le_r (deposit F j) F); rewrite Hc in *; lia).
  pose proof (pow2_ge1 (popcount F)) as Hp.
  unfold next_supermask, ones.
  destruct (N.eqb_spec (x + deposit F j) (2 ^ w - 1)) as [E|E].
  - assert (Ej : j = 2 ^ popcount F - 1).
    { apply Hi; [lia|]. rewrite deposit_top. lia. }
    rewrite E. destruct (N.eqb_spec j (2 ^ popcount F - 1)) as [_|Hn]; [reflexivity|contradiction].
  - assert (Ej : j <> 2 ^ popcount F - 1) by (intros ->; apply E; rewrite deposit_top; lia).
    destruct (N.eqb_spec j (2 ^ popcount F - 1)) as [|_]; [contradiction|].
    rewrite wrapping_add1_eq by (unfold ones; lia). rewrite He by lia. rewrite IH by lia. reflexivity.
Qed.

Theorem iter_supermasks_take_closed w x k : x < 2 ^ w ->
  iter_supermasks_take w x k = sup_closed x (2 ^ w - 1 - x) (2 ^ popcount (2 ^ w - 1 - x) - 1) 0 k.
Proof.
  intros Hx. unfold iter_supermasks_take. pose proof (sup_take_closed w x Hx) as H. cbn zeta in H.
  rewrite <- H by apply pow2_pos. rewrite deposit_0_r, N.add_0_r. reflexivity.
Qed.

(** * the prefix specifications accept the model's output *)
Lemma spec_sub_pre_model w x k : w <= 128 -> x < 2 ^ w -> spec_sub_pre w x k (iter_submasks_take w x k) = true.
Proof.
  intros Hw Hx. unfold spec_sub_pre. apply andb_true_iff. split.
  - apply leqb_N_eq. apply iter_submasks_take_closed. exact Hx.
  - destruct (w <=? 8); [|reflexivity]. apply leqb_N_eq. apply iter_submasks_take_firstn. apply (submasks_filter w x Hw Hx).
Qed.

Lemma spec_sup_pre_model w x k : w <= 128 -> x < 2 ^ w -> spec_sup_pre w x k (iter_supermasks_take w x k) = true.
Proof.
  intros Hw Hx. unfold spec_sup_pre. apply andb_true_iff. split.
  - apply leqb_N_eq. apply iter_supermasks_take_closed. exact Hx.
  - destruct (w <=? 8); [|reflexivity]. apply leqb_N_eq. apply iter_supermasks_take_firstn. apply (supermasks_filter w x Hw Hx).
Qed.
