(** C15 — proofs about next_permutation / iter_permutations. *)
From Coq Require Import ZArith Lia List Bool Sorting.Permutation Sorting.Sorted.
From RlibV Require Import Common.Iter C15.Model C15.Spec.
Import ListNotations.
Open Scope Z_scope.

(** * list / index helpers *)
Lemma get_app_l (l1 l2 : list Z) k : (k < length l1)%nat -> get (l1 ++ l2) k = get l1 k.
Proof. intros H. unfold get. apply app_nth1. exact H. Qed.
Lemma get_app_r (l1 l2 : list Z) k : get (l1 ++ l2) (length l1 + k) = get l2 k.
Proof. unfold get. rewrite app_nth2_plus. reflexivity. Qed.
Lemma get_app_mid (l1 l2 : list Z) a : get (l1 ++ a :: l2) (length l1) = a.
Proof. unfold get. apply nth_middle. Qed.

Lemma set_nth_app (l1 l2 : list Z) a v : set_nth (l1 ++ a :: l2) (length l1) v = l1 ++ v :: l2.
Proof. induction l1 as [|h l1 IH]; [reflexivity|]. cbn [app length set_nth]. rewrite IH. reflexivity. Qed.

Lemma firstn_app_len {A} (l1 l2 : list A) : firstn (length l1) (l1 ++ l2) = l1.
Proof. induction l1 as [|h l1 IH]; [reflexivity|]. cbn [app length firstn]. rewrite IH. reflexivity. Qed.
Lemma skipn_app_len {A} (l1 l2 : list A) : skipn (length l1) (l1 ++ l2) = l2.
Proof. induction l1 as [|h l1 IH]; [reflexivity|]. cbn [app length skipn]. exact IH. Qed.

Lemma swap_app (pre mid post : list Z) x y :
  swap (pre ++ x :: mid ++ y :: post) (length pre) (length pre + 1 + length mid) = pre ++ y :: mid ++ x :: post.
Proof.
  unfold swap.
  assert (G1 : get (pre ++ x :: mid ++ y :: post) (length pre) = x) by apply get_app_mid.
  assert (G2 : get (pre ++ x :: mid ++ y :: post) (length pre + 1 + length mid) = y).
  { replace (pre ++ x :: mid ++ y :: post) with ((pre ++ x :: mid) ++ y :: post) by (rewrite <- app_assoc; reflexivity).
    replace (length pre + 1 + length mid)%nat with (length (pre ++ x :: mid)) by (rewrite app_length; cbn [length]; lia).
    apply get_app_mid. }
  rewrite G1, G2, set_nth_app.
  replace (pre ++ y :: mid ++ y :: post) with ((pre ++ y :: mid) ++ y :: post) by (rewrite <- app_assoc; reflexivity).
  replace (length pre + 1 + length mid)%nat with (length (pre ++ y :: mid)) by (rewrite app_length; cbn [length]; lia).
  rewrite set_nth_app, <- app_assoc. reflexivity.
Qed.

Lemma reverse_from_app (l1 l2 : list Z) : reverse_from (l1 ++ l2) (length l1) = l1 ++ rev l2.
Proof. unfold reverse_from. rewrite firstn_app_len, skipn_app_len. reflexivity. Qed.

(** * non-increasing lists *)

Lemma noninc_adjacent l : noninc l -> forall k, (S k < length l)%nat -> get l (S k) <= get l k.
Proof.
  intros H. induction H as [|a l H IH Ha]; intros k Hk; [cbn in Hk; lia|].
  destruct k as [|k].
  - unfold get. cbn [nth]. destruct l as [|b l]; [cbn in Hk; lia|]. cbn [nth].
    inversion Ha as [|? ? Hab _]; subst. lia.
  - unfold get in *. cbn [nth]. apply IH. cbn [length] in Hk. lia.
Qed.

(** * the scan for the pivot *)
Lemma find_i_suffix pre suf : noninc suf -> forall k, (k < length suf)%nat ->
  find_i (pre ++ suf) (length pre + k) = find_i (pre ++ suf) (length pre).
Proof.
  intros Hs k. induction k as [|k IH]; intros Hk; [rewrite Nat.add_0_r; reflexivity|].
  replace (length pre + S k)%nat with (S (length pre + k)) by lia. cbn [find_i].
  replace (S (length pre + k)) with (length pre + S k)%nat by lia.
  rewrite !get_app_r. pose proof (noninc_adjacent suf Hs k Hk) as Hadj.
  destruct (Z.ltb_spec (get suf k) (get suf (S k))) as [Hlt|_]; [lia|]. apply IH. lia.
Qed.

Lemma find_i_noninc d : noninc d -> find_i d (length d - 1) = None.
Proof.
  intros H. destruct d as [|a d]; [reflexivity|].
  pose proof (find_i_suffix [] (a :: d) H (length (a :: d) - 1)) as E. cbn [app length Nat.add] in E.
  cbn [length]. rewrite E by (cbn [length]; lia). reflexivity.
Qed.

Lemma find_i_pivot pre a b suf : noninc (b :: suf) -> a < b ->
  find_i (pre ++ a :: b :: suf) (length (pre ++ a :: b :: suf) - 1) = Some (S (length pre)).
Proof.
  intros Hs Hab.
  replace (pre ++ a :: b :: suf) with ((pre ++ [a]) ++ b :: suf) by (rewrite <- app_assoc; reflexivity).
  replace (length ((pre ++ [a]) ++ b :: suf) - 1)%nat with (length (pre ++ [a]) + length suf)%nat
    by (rewrite !app_length; cbn [length]; lia).
  rewrite (find_i_suffix (pre ++ [a]) (b :: suf) Hs) by (cbn [length]; lia).
  rewrite app_length. cbn [length]. replace (length pre + 1)%nat with (S (length pre)) by lia.
  cbn [find_i].
  replace (get ((pre ++ [a]) ++ b :: suf) (length pre)) with a.
  2:{ rewrite <- app_assoc. cbn [app]. symmetry. apply get_app_mid. }
  replace (get ((pre ++ [a]) ++ b :: suf) (S (length pre))) with b.
  2:{ replace (S (length pre)) with (length (pre ++ [a])) by (rewrite app_length; cbn [length]; lia).
      symmetry. apply get_app_mid. }
  destruct (Z.ltb_spec a b) as [_|H]; [reflexivity|lia].
Qed.

(** * the scan for the swap position *)
Lemma scan_j_spec p : forall g front rest j k,
  length front = S j -> Forall (fun v => v > p) g ->
  match rest with [] => True | r :: _ => r <= p end -> (length g <= k)%nat ->
  scan_j (front ++ g ++ rest) p j k = (j + length g)%nat.
Proof.
  induction g as [|v g IH]; intros front rest j k Hf Hg Hr Hk.
  - cbn [app length]. rewrite Nat.add_0_r. destruct k as [|k]; [reflexivity|]. cbn [scan_j].
    rewrite <- Hf. destruct rest as [|r rest].
    + rewrite app_nil_r. rewrite Nat.ltb_irrefl. reflexivity.
    + rewrite get_app_mid. destruct (Z.gtb_spec r p) as [H|_]; [lia|]. rewrite andb_false_r. reflexivity.
  - destruct k as [|k]; [cbn [length] in Hk; lia|]. cbn [scan_j].
    inversion Hg as [|? ? Hv Hg']; subst.
    assert (E1 : (S j <? length (front ++ (v :: g) ++ rest))%nat = true).
    { apply Nat.ltb_lt. rewrite !app_length. cbn [length]. lia. }
    assert (E2 : get (front ++ (v :: g) ++ rest) (S j) = v) by (rewrite <- Hf; apply get_app_mid).
    rewrite E1, E2. destruct (Z.gtb_spec v p) as [_|H]; [|lia]. cbn [andb].
    replace (front ++ (v :: g) ++ rest) with ((front ++ [v]) ++ g ++ rest) by (rewrite <- app_assoc; reflexivity).
    rewrite (IH (front ++ [v]) rest (S j) k).
    + cbn [length]. lia.
    + rewrite app_length. cbn [length]. lia.
    + exact Hg'.
    + exact Hr.
    + cbn [length] in Hk. lia.
Qed.

(** * the structural description of one call *)
Record pivot_form (d pre : list Z) (a : Z) (s1 : list Z) (b : Z) (s2 : list Z) : Prop := {
  pf_eq : d = pre ++ a :: s1 ++ b :: s2;
  pf_suffix : noninc (s1 ++ b :: s2);
  pf_lt : a < b;
  pf_s1 : Forall (fun v => v > a) s1;
  pf_s2 : Forall (fun v => v <= a) s2 }.

Lemma next_permutation_noninc d : noninc d -> next_permutation d = (false, rev d).
Proof. intros H. unfold next_permutation. rewrite (find_i_noninc d H). reflexivity. Qed.

Lemma next_permutation_pivot d pre a s1 b s2 : pivot_form d pre a s1 b s2 ->
  next_permutation d = (true, pre ++ b :: rev s2 ++ a :: rev s1).
Proof.
  intros [-> Hs Hab H1 H2]. unfold next_permutation.
  assert (Hfi : find_i (pre ++ a :: s1 ++ b :: s2) (length (pre ++ a :: s1 ++ b :: s2) - 1) = Some (S (length pre))).
  { destruct s1 as [|c s1].
    - cbn [app] in *. apply find_i_pivot; assumption.
    - cbn [app] in *. apply find_i_pivot; [exact Hs|]. inversion H1; subst. lia. }
  rewrite Hfi. cbn zeta. replace (S (length pre) - 1)%nat with (length pre) by lia.
  rewrite get_app_mid.
  assert (Hj : scan_j (pre ++ a :: s1 ++ b :: s2) a (S (length pre)) (length (pre ++ a :: s1 ++ b :: s2))
               = (length pre + 1 + length s1)%nat).
  { destruct s1 as [|c s1].
    - cbn [app length]. 
      replace (pre ++ a :: b :: s2) with ((pre ++ [a; b]) ++ [] ++ s2) by (rewrite <- app_assoc; reflexivity).
      rewrite (scan_j_spec a [] (pre ++ [a; b]) s2 (S (length pre))).
      + cbn [length]. lia.
      + rewrite app_length. cbn [length]. lia.
      + constructor.
      + destruct s2 as [|r s2]; [exact I|]. inversion H2; subst. assumption.
      + cbn [length]. lia.
    - replace (pre ++ a :: (c :: s1) ++ b :: s2) with ((pre ++ [a; c]) ++ (s1 ++ [b]) ++ s2)
        by (rewrite <- !app_assoc; reflexivity).
      rewrite (scan_j_spec a (s1 ++ [b]) (pre ++ [a; c]) s2 (S (length pre))).
      + rewrite app_length. cbn [length]. lia.
      + rewrite app_length. cbn [length]. lia.
      + inversion H1; subst. apply Forall_app. split; [assumption|]. constructor; [lia|constructor].
      + destruct s2 as [|r s2]; [exact I|]. inversion H2; subst. assumption.
      + rewrite !app_length. cbn [length]. lia. }
  rewrite Hj, swap_app.
  replace (pre ++ b :: s1 ++ a :: s2) with ((pre ++ [b]) ++ s1 ++ a :: s2) by (rewrite <- app_assoc; reflexivity).
  replace (S (length pre)) with (length (pre ++ [b])) by (rewrite app_length; cbn [length]; lia).
  rewrite reverse_from_app, <- app_assoc. cbn [app]. rewrite rev_app_distr. cbn [rev]. rewrite <- app_assoc. reflexivity.
Qed.

(** * every list is non-increasing or has a pivot form *)
Lemma noninc_split a : forall t, noninc t ->
  exists g r, t = g ++ r /\ Forall (fun v => v > a) g /\ Forall (fun v => v <= a) r.
Proof.
  intros t H. induction H as [|x t H IH Hx].
  - exists [], []. repeat split; constructor.
  - destruct (Z_gt_le_dec x a) as [Hgt|Hle].
    + destruct IH as (g & r & -> & Hg & Hr). exists (x :: g), r. repeat split; [constructor; assumption|exact Hr].
    + exists [], (x :: t). repeat split; [constructor|]. constructor; [exact Hle|].
      rewrite Forall_forall in *. intros v Hv. specialize (Hx v Hv). lia.
Qed.

Lemma decompose d : noninc d \/ exists pre a s1 b s2, pivot_form d pre a s1 b s2.
Proof.
  induction d as [|x t IH]; [left; constructor|].
  destruct IH as [Ht|(pre & a & s1 & b & s2 & [-> Hs Hab H1 H2])].
  - destruct t as [|y t'].
    + left. constructor; constructor.
    + destruct (Z_lt_le_dec x y) as [Hlt|Hge].
      * right. destruct (noninc_split x (y :: t') Ht) as (g & r & E & Hg & Hr).
        destruct g as [|g0 g'] using rev_ind.
        { cbn [app] in E. subst r. inversion Hr; subst. lia. }
        clear IHg'. exists [], x, g', g0, r.
        apply Forall_app in Hg. destruct Hg as [Hg' Hg0]. inversion Hg0; subst.
        constructor; try assumption.
        -- cbn [app]. rewrite E, <- app_assoc. reflexivity.
        -- rewrite E, <- app_assoc in Ht. exact Ht.
        -- lia.
      * left. constructor; [exact Ht|]. pose proof Ht as Ht'. apply StronglySorted_inv in Ht'. destruct Ht' as [_ Hy].
        constructor; [lia|]. rewrite Forall_forall in *. intros v Hv. specialize (Hy v Hv). lia.
  - right. exists (x :: pre), a, s1, b, s2. constructor; try assumption. reflexivity.
Qed.

(** * lexicographic order *)
Lemma lex_lt_app_head pre p q : lex_lt (pre ++ p) (pre ++ q) <-> lex_lt p q.
Proof. induction pre as [|x pre IH]; [reflexivity|]. cbn [app lex_lt]. rewrite IH. intuition lia. Qed.

Lemma lex_lt_irrefl p : ~ lex_lt p p.
Proof. induction p as [|x p IH]; cbn [lex_lt]; [tauto|]. intuition lia. Qed.

Lemma lex_lt_trans p : forall q r, lex_lt p q -> lex_lt q r -> lex_lt p r.
Proof.
  induction p as [|x p IH]; intros [|y q] [|z r]; cbn [lex_lt]; try tauto.
  intros [H1|[-> H1]] [H2|[-> H2]]; try (left; lia). right. split; [reflexivity|]. eapply IH; eassumption.
Qed.

Lemma lex_lt_trichotomy p : forall q, length p = length q -> lex_lt p q \/ p = q \/ lex_lt q p.
Proof.
  induction p as [|x p IH]; intros [|y q] Hl; cbn [length] in Hl; try discriminate; [right; left; reflexivity|].
  cbn [lex_lt]. destruct (Z.lt_trichotomy x y) as [H|[->|H]]; [left; left; exact H| |right; right; left; exact H].
  destruct (IH q) as [H|[->|H]]; [lia|left; right; auto|right; left; reflexivity|right; right; right; auto].
Qed.

(** a non-increasing list is the greatest arrangement of its elements, a non-decreasing one the least *)
Lemma noninc_max l : noninc l -> forall p, Permutation l p -> ~ lex_lt l p.
Proof.
  intros H. induction H as [|x l H IH Hx]; intros p Hp Hlt.
  - apply Permutation_nil in Hp. subst p. exact Hlt.
  - destruct p as [|y p]; [exact Hlt|]. cbn [lex_lt] in Hlt.
    assert (Hy : y <= x).
    { assert (Hin : In y (x :: l)) by (eapply Permutation_in; [symmetry; exact Hp|left; reflexivity]).
      destruct Hin as [->|Hin]; [lia|]. rewrite Forall_forall in Hx. specialize (Hx y Hin). lia. }
    destruct Hlt as [Hlt|[-> Hlt]]; [lia|]. apply Permutation_cons_inv in Hp. exact (IH p Hp Hlt).
Qed.

Lemma nondec_min l : nondec l -> forall p, Permutation l p -> ~ lex_lt p l.
Proof.
  intros H. induction H as [|x l H IH Hx]; intros p Hp Hlt.
  - destruct p; exact Hlt.
  - destruct p as [|y p]; [apply Permutation_sym, Permutation_nil in Hp; discriminate|]. cbn [lex_lt] in Hlt.
    assert (Hy : x <= y).
    { assert (Hin : In y (x :: l)) by (eapply Permutation_in; [symmetry; exact Hp|left; reflexivity]).
      destruct Hin as [->|Hin]; [lia|]. rewrite Forall_forall in Hx. specialize (Hx y Hin). lia. }
    destruct Hlt as [Hlt|[-> Hlt]]; [lia|]. apply Permutation_cons_inv in Hp. exact (IH p Hp Hlt).
Qed.

(** * sortedness helpers *)
Lemma ssorted_weaken {A} (R R' : A -> A -> Prop) l :
  (forall a b, R a b -> R' a b) -> StronglySorted R l -> StronglySorted R' l.
Proof.
  intros HR H. induction H as [|a l H IH Ha]; constructor; [exact IH|].
  rewrite Forall_forall in *. intros b Hb. apply HR, Ha, Hb.
Qed.

Lemma ssorted_rev_flip {A} (R : A -> A -> Prop) l : StronglySorted R l -> StronglySorted (fun a b => R b a) (rev l).
Proof.
  intros Hs. induction Hs as [|b l Hs IH Hb]; cbn [rev]; [constructor|].
  revert IH. generalize (rev l) (Forall_rev Hb). clear. intros l' Hf Hs.
  induction Hs as [|c l' Hs IH Hc]; cbn [app].
  - constructor; constructor.
  - inversion Hf as [|? ? Hbc Hf']; subst. constructor; [apply IH; exact Hf'|].
    apply Forall_app. split; [exact Hc|constructor; [exact Hbc|constructor]].
Qed.

Lemma noninc_rev l : noninc l -> nondec (rev l).
Proof. intros H. apply ssorted_rev_flip in H. eapply ssorted_weaken; [|exact H]. cbn. intros; lia. Qed.
Lemma nondec_rev l : nondec l -> noninc (rev l).
Proof. intros H. apply ssorted_rev_flip in H. eapply ssorted_weaken; [|exact H]. cbn. intros; lia. Qed.

Lemma ssorted_app_inv {A} (R : A -> A -> Prop) l1 l2 :
  StronglySorted R (l1 ++ l2) -> StronglySorted R l1 /\ StronglySorted R l2 /\ forall a b, In a l1 -> In b l2 -> R a b.
Proof.
  induction l1 as [|x l1 IH]; cbn [app]; intros H.
  - repeat split; [constructor|exact H|contradiction].
  - apply StronglySorted_inv in H. destruct H as [H Hx]. destruct (IH H) as (H1 & H2 & H12).
    rewrite Forall_forall in Hx. repeat split.
    + constructor; [exact H1|]. apply Forall_forall. intros b Hb. apply Hx. apply in_or_app. left. exact Hb.
    + exact H2.
    + intros a b [->|Ha] Hb; [apply Hx; apply in_or_app; right; exact Hb|apply H12; assumption].
Qed.

Lemma ssorted_app {A} (R : A -> A -> Prop) l1 l2 :
  StronglySorted R l1 -> StronglySorted R l2 -> (forall a b, In a l1 -> In b l2 -> R a b) -> StronglySorted R (l1 ++ l2).
Proof.
  intros H1 H2 H12. induction H1 as [|x l1 H1 IH Hx]; cbn [app]; [exact H2|].
  constructor.
  - apply IH. intros a b Ha Hb. apply H12; [right; exact Ha|exact Hb].
  - apply Forall_app. split; [exact Hx|]. apply Forall_forall. intros b Hb. apply H12; [left; reflexivity|exact Hb].
Qed.

(** the tail after the swap is still non-increasing *)
Lemma swapped_tail_noninc a s1 b s2 :
  noninc (s1 ++ b :: s2) -> Forall (fun v => v > a) s1 -> Forall (fun v => v <= a) s2 -> noninc (s1 ++ a :: s2).
Proof.
  intros H H1 H2. apply ssorted_app_inv in H. destruct H as (Hs1 & Hbs2 & _).
  apply StronglySorted_inv in Hbs2. destruct Hbs2 as [Hs2 _]. rewrite Forall_forall in H1, H2.
  apply ssorted_app; [exact Hs1| |].
  - constructor; [exact Hs2|]. apply Forall_forall. intros v Hv. specialize (H2 v Hv). lia.
  - intros u v Hu [<-|Hv]; [specialize (H1 u Hu); lia|]. specialize (H1 u Hu). specialize (H2 v Hv). lia.
Qed.

(** * the theorems about one call *)
Lemma pivot_perm (a : Z) s1 b s2 : Permutation (a :: s1 ++ b :: s2) (b :: rev s2 ++ a :: rev s1).
Proof.
  transitivity (b :: a :: s1 ++ s2).
  - transitivity (a :: b :: s1 ++ s2); [|apply perm_swap]. constructor. symmetry. apply Permutation_middle.
  - constructor. transitivity (a :: rev s2 ++ rev s1); [|apply Permutation_middle].
    constructor. rewrite <- rev_app_distr. apply Permutation_rev.
Qed.

Lemma next_perm_is_permutation d : Permutation d (snd (next_permutation d)).
Proof.
  destruct (decompose d) as [H|(pre & a & s1 & b & s2 & Hpf)].
  - rewrite (next_permutation_noninc d H). apply Permutation_rev.
  - rewrite (next_permutation_pivot _ _ _ _ _ _ Hpf). destruct Hpf as [-> _ _ _ _]. cbn [snd].
    apply Permutation_app_head. apply pivot_perm.
Qed.

Lemma next_perm_greater d : fst (next_permutation d) = true -> lex_lt d (snd (next_permutation d)).
Proof.
  destruct (decompose d) as [H|(pre & a & s1 & b & s2 & Hpf)].
  - rewrite (next_permutation_noninc d H). discriminate.
  - rewrite (next_permutation_pivot _ _ _ _ _ _ Hpf). destruct Hpf as [-> _ Hab _ _]. cbn [snd]. intros _.
    apply lex_lt_app_head. cbn [lex_lt]. left. exact Hab.
Qed.

Lemma sandwich_prefix pre : forall u v p,
  Permutation (pre ++ u) p -> lex_lt (pre ++ u) p -> lex_lt p (pre ++ v) ->
  exists q, p = pre ++ q /\ Permutation u q /\ lex_lt u q /\ lex_lt q v.
Proof.
  induction pre as [|x pre IH]; intros u v p Hp H1 H2.
  - exists p. auto.
  - cbn [app] in *. destruct p as [|y p]; [apply Permutation_sym, Permutation_nil in Hp; discriminate|].
    cbn [lex_lt] in H1, H2.
    assert (E : x = y) by lia. subst y.
    destruct H1 as [H1|[_ H1]]; [lia|]. destruct H2 as [H2|[_ H2]]; [lia|].
    apply Permutation_cons_inv in Hp. destruct (IH u v p Hp H1 H2) as (q & -> & Hq).
    exists q. split; [reflexivity|exact Hq].
Qed.

Lemma next_perm_minimal d : fst (next_permutation d) = true ->
  forall p, Permutation d p -> ~ (lex_lt d p /\ lex_lt p (snd (next_permutation d))).
Proof.
  destruct (decompose d) as [H|(pre & a & s1 & b & s2 & Hpf)].
  - rewrite (next_permutation_noninc d H). discriminate.
  - rewrite (next_permutation_pivot _ _ _ _ _ _ Hpf). destruct Hpf as [-> Hs Hab H1 H2]. cbn [snd].
    intros _ p Hp [Hlo Hhi].
    destruct (sandwich_prefix pre _ _ p Hp Hlo Hhi) as (q & -> & Hq & Hq1 & Hq2).
    destruct q as [|c q]; [apply Permutation_sym, Permutation_nil in Hq; discriminate|].
    cbn [lex_lt] in Hq1, Hq2.
    assert (Hc : c = a \/ c = b).
    { assert (Hin : In c (a :: s1 ++ b :: s2)) by (eapply Permutation_in; [symmetry; exact Hq|left; reflexivity]).
      destruct Hin as [->|Hin]; [left; reflexivity|].
      apply in_app_or in Hin. destruct Hin as [Hin|[->|Hin]].
      - right. apply ssorted_app_inv in Hs. destruct Hs as (_ & _ & Hs).
        specialize (Hs c b Hin (or_introl eq_refl)). lia.
      - right. reflexivity.
      - left. rewrite Forall_forall in H2. specialize (H2 c Hin). lia. }
    destruct Hc as [-> | ->].
    + destruct Hq1 as [Hq1|[_ Hq1]]; [lia|]. apply Permutation_cons_inv in Hq.
      exact (noninc_max _ Hs q Hq Hq1).
    + destruct Hq2 as [Hq2|[_ Hq2]]; [lia|].
      assert (Hq' : Permutation (rev s2 ++ a :: rev s1) q).
      { apply Permutation_cons_inv with (a := b). transitivity (a :: s1 ++ b :: s2); [|exact Hq].
        symmetry. apply pivot_perm. }
      assert (Hnd : nondec (rev s2 ++ a :: rev s1)).
      { pose proof (noninc_rev _ (swapped_tail_noninc a s1 b s2 Hs H1 H2)) as Hr.
        rewrite rev_app_distr in Hr. cbn [rev] in Hr. rewrite <- app_assoc in Hr. exact Hr. }
      exact (nondec_min _ Hnd q Hq' Hq2).
Qed.

Lemma next_perm_wrap d :
  (fst (next_permutation d) = false <-> noninc d) /\
  (noninc d -> snd (next_permutation d) = rev d /\ nondec (snd (next_permutation d))).
Proof.
  split; [split|].
  - destruct (decompose d) as [H|(pre & a & s1 & b & s2 & Hpf)]; [intros _; exact H|].
    rewrite (next_permutation_pivot _ _ _ _ _ _ Hpf). discriminate.
  - intros H. rewrite (next_permutation_noninc d H). reflexivity.
  - intros H. rewrite (next_permutation_noninc d H). cbn [snd]. split; [reflexivity|apply noninc_rev; exact H].
Qed.

Lemma hd_rev_last {A} (l : list A) (d : A) : hd d (rev l) = last l d.
Proof.
  induction l as [|a l IH]; [reflexivity|]. cbn [rev].
  destruct l as [|b l]; [reflexivity|]. cbn [last] in *. rewrite <- IH.
  cbn [rev]. destruct (rev l ++ [b]) eqn:E; [destruct (rev l); discriminate|reflexivity].
Qed.

(** the wrap-around value is the sorted sequence *)
Lemma nondec_perm_unique p q : nondec p -> nondec q -> Permutation p q -> p = q.
Proof.
  intros Hp Hq Hpq. destruct (lex_lt_trichotomy p q (Permutation_length Hpq)) as [H|[H|H]]; [|exact H|].
  - exfalso. exact (nondec_min q Hq p (Permutation_sym Hpq) H).
  - exfalso. exact (nondec_min p Hp q Hpq H).
Qed.
