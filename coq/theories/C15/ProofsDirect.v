(** C15 — the direct successor specification of Corr.v ([spec_next_direct]: pivot position, least greater element,
    sorted tail; no enumeration) accepts exactly the model's result, hence exactly what the brute-force
    [spec_next] accepts; prefixes of the listing ([spec_iter_pre]). *)
From Coq Require Import ZArith Lia List Bool Sorting.Permutation Sorting.Sorted Sorting.Mergesort.
From RlibV Require Import Common.Batch C15.Model C15.Spec C15.Corr C15.ProofsPerm C15.ProofsIter C15.ProofsCorrPerm C15.ProofsTake.
Import ListNotations.
Open Scope Z_scope.

Lemma noninc_b_spec l : noninc_b l = true <-> noninc l.
Proof.
  unfold noninc. induction l as [|a l IH]; [split; [constructor|reflexivity]|].
  destruct l as [|b t].
  - split; [intros _; constructor; constructor|reflexivity].
  - change (noninc_b (a :: b :: t)) with ((b <=? a) && noninc_b (b :: t)).
    rewrite andb_true_iff, Z.leb_le, IH. split.
    + intros [Hab Hs]. constructor; [exact Hs|]. constructor; [lia|].
      apply StronglySorted_inv in Hs. destruct Hs as [_ Hb]. rewrite Forall_forall in *. intros v Hv. specialize (Hb v Hv). lia.
    + intros Hs. apply StronglySorted_inv in Hs. destruct Hs as [Hs Ha]. split; [|exact Hs].
      inversion Ha; subst. lia.
Qed.
Lemma nondec_b_spec l : nondec_b l = true <-> nondec l.
Proof.
  unfold nondec. induction l as [|a l IH]; [split; [constructor|reflexivity]|].
  destruct l as [|b t].
  - split; [intros _; constructor; constructor|reflexivity].
  - change (nondec_b (a :: b :: t)) with ((a <=? b) && nondec_b (b :: t)).
    rewrite andb_true_iff, Z.leb_le, IH. split.
    + intros [Hab Hs]. constructor; [exact Hs|]. constructor; [lia|].
      apply StronglySorted_inv in Hs. destruct Hs as [_ Hb]. rewrite Forall_forall in *. intros v Hv. specialize (Hb v Hv). lia.
    + intros Hs. apply StronglySorted_inv in Hs. destruct Hs as [Hs Ha]. split; [|exact Hs].
      inversion Ha; subst. lia.
Qed.
Lemma memZ_spec v l : memZ v l = true <-> In v l.
Proof.
  unfold memZ. rewrite existsb_exists. split.
  - intros (x & Hx & E). apply Z.eqb_eq in E. subst. exact Hx.
  - intros H. exists v. split; [exact H|apply Z.eqb_refl].
Qed.

Lemma zsort_perm_eq p q : Permutation p q -> ZSort.sort p = ZSort.sort q.
Proof.
  intros H. rewrite !zsort_sort. apply nondec_perm_unique; [apply sort_nondec|apply sort_nondec|].
  transitivity p; [symmetry; apply sort_perm|]. transitivity q; [exact H|apply sort_perm].
Qed.
Lemma zsort_eq_perm p q : ZSort.sort p = ZSort.sort q -> Permutation p q.
Proof.
  intros H. transitivity (ZSort.sort p); [apply ZSort.Permuted_sort|]. rewrite H. symmetry. apply ZSort.Permuted_sort.
Qed.

Lemma spec_next_true_app pre X Y : spec_next_true (pre ++ X) (pre ++ Y) = spec_next_true X Y.
Proof. induction pre as [|x pre IH]; [reflexivity|]. cbn [app spec_next_true]. rewrite Z.eqb_refl. exact IH. Qed.

Lemma pivot_tail_nondec a s1 b s2 :
  noninc (s1 ++ b :: s2) -> Forall (fun v => v > a) s1 -> Forall (fun v => v <= a) s2 -> nondec (rev s2 ++ a :: rev s1).
Proof.
  intros Hs H1 H2. pose proof (noninc_rev _ (swapped_tail_noninc a s1 b s2 Hs H1 H2)) as Hr.
  rewrite rev_app_distr in Hr. cbn [rev] in Hr. rewrite <- app_assoc in Hr. exact Hr.
Qed.

Theorem spec_next_direct_model d :
  spec_next_direct d (fst (next_permutation d)) (snd (next_permutation d)) = true.
Proof.
  destruct (decompose d) as [H|(pre & a & s1 & b & s2 & Hpf)].
  - rewrite (next_permutation_noninc d H). cbn [fst snd spec_next_direct].
    rewrite (proj2 (noninc_b_spec d) H), <- rev_alt, (proj2 (leqb_Z_eq _ _) eq_refl).
    rewrite (proj2 (nondec_b_spec _) (noninc_rev _ H)). reflexivity.
  - rewrite (next_permutation_pivot _ _ _ _ _ _ Hpf). destruct Hpf as [-> Hs Hab H1 H2].
    cbn [fst snd spec_next_direct]. rewrite spec_next_true_app. cbn [spec_next_true].
    destruct (Z.eqb_spec a b) as [E|_]; [lia|].
    rewrite (proj2 (Z.ltb_lt a b) Hab), (proj2 (noninc_b_spec _) Hs).
    rewrite (proj2 (memZ_spec b _)) by (apply in_or_app; right; left; reflexivity).
    rewrite (proj2 (nondec_b_spec _) (pivot_tail_nondec a s1 b s2 Hs H1 H2)).
    rewrite (zsort_perm_eq _ _ (pivot_perm a s1 b s2)), (proj2 (leqb_Z_eq _ _) eq_refl).
    cbn [andb]. rewrite !andb_true_r. apply forallb_forall. intros v Hv. apply orb_true_iff.
    apply in_app_or in Hv. destruct Hv as [Hv|[<-|Hv]].
    + right. apply Z.leb_le. apply ssorted_app_inv in Hs. destruct Hs as (_ & _ & Hs).
      specialize (Hs v b Hv (or_introl eq_refl)). lia.
    + right. apply Z.leb_le. lia.
    + left. apply Z.leb_le. rewrite Forall_forall in H2. apply H2, Hv.
Qed.

Lemma spec_next_true_inv : forall d out, spec_next_true d out = true ->
  exists pre a td b to, d = pre ++ a :: td /\ out = pre ++ b :: to /\ a < b /\ noninc td /\ In b td /\
    (forall v, In v td -> v <= a \/ b <= v) /\ nondec to /\ Permutation (a :: td) (b :: to).
Proof.
  induction d as [|a td IH]; intros [|b to] H; cbn [spec_next_true] in H; try discriminate.
  destruct (Z.eqb_spec a b) as [->|Hne].
  - destruct (IH to H) as (pre & a' & td' & b' & to' & -> & -> & Hrest).
    exists (b :: pre), a', td', b', to'. split; [reflexivity|]. split; [reflexivity|exact Hrest].
  - rewrite !andb_true_iff in H. destruct H as [[[[[H1 H2] H3] H4] H5] H6].
    exists [], a, td, b, to. split; [reflexivity|]. split; [reflexivity|].
    split; [apply Z.ltb_lt; exact H1|]. split; [apply noninc_b_spec; exact H2|]. split; [apply memZ_spec; exact H3|].
    split; [|split; [apply nondec_b_spec; exact H5|apply zsort_eq_perm, leqb_Z_eq; exact H6]].
    intros v Hv. rewrite forallb_forall in H4. specialize (H4 v Hv). apply orb_true_iff in H4.
    destruct H4 as [H4|H4]; apply Z.leb_le in H4; [left|right]; exact H4.
Qed.

Lemma noninc_last_le g g0 v : noninc (g ++ [g0]) -> In v g -> g0 <= v.
Proof.
  intros H Hv. apply ssorted_app_inv in H. destruct H as (_ & _ & H). specialize (H v g0 Hv (or_introl eq_refl)). lia.
Qed.

Theorem spec_next_direct_sound d r out : spec_next_direct d r out = true -> (r, out) = next_permutation d.
Proof.
  destruct r; cbn [spec_next_direct]; intros H.
  - destruct (spec_next_true_inv d out H) as (pre & a & td & b & to & -> & -> & Hab & Htd & Hb & Hmin & Hto & Hperm).
    destruct (noninc_split a td Htd) as (g & r & -> & Hg & Hr).
    assert (Hbg : In b g).
    { apply in_app_or in Hb. destruct Hb as [Hb|Hb]; [exact Hb|]. rewrite Forall_forall in Hr. specialize (Hr b Hb). lia. }
    destruct g as [|g0 g' _] using rev_ind; [contradiction|].
    assert (Hg0 : g0 = b).
    { apply Forall_app in Hg. destruct Hg as [_ Hg0]. inversion Hg0 as [|? ? Hg0a _]; subst.
      assert (Hge : b <= g0).
      { assert (Hin0 : In g0 ((g' ++ [g0]) ++ r)) by (apply in_or_app; left; apply in_or_app; right; left; reflexivity).
        destruct (Hmin g0 Hin0) as [Hl|Hl]; [lia|exact Hl]. }
      apply ssorted_app_inv in Htd. destruct Htd as (Hgs & _ & _).
      apply in_app_or in Hbg. destruct Hbg as [Hbg|[E|[]]]; [|exact E].
      pose proof (noninc_last_le g' g0 b Hgs Hbg). lia. }
    subst g0. rewrite <- app_assoc in *. cbn [app] in *.
    apply Forall_app in Hg. destruct Hg as [Hg' _].
    assert (Hpf : pivot_form (pre ++ a :: g' ++ b :: r) pre a g' b r) by (constructor; try assumption; reflexivity).
    rewrite (next_permutation_pivot _ _ _ _ _ _ Hpf). f_equal. f_equal. f_equal.
    apply nondec_perm_unique; [exact Hto|apply (pivot_tail_nondec a g' b r); assumption|].
    apply Permutation_cons_inv with (a := b). transitivity (a :: g' ++ b :: r); [symmetry; exact Hperm|apply pivot_perm].
  - destruct (noninc_b d) eqn:H1; [|discriminate]. apply andb_true_iff in H. destruct H as [H2 _].
    apply noninc_b_spec in H1. apply leqb_Z_eq in H2. subst out. rewrite <- rev_alt.
    rewrite (next_permutation_noninc d H1). reflexivity.
Qed.

Theorem spec_next_direct_iff d r out : spec_next_direct d r out = true <-> (r, out) = next_permutation d.
Proof.
  split; [apply spec_next_direct_sound|]. intros H. pose proof (spec_next_direct_model d) as Hm.
  rewrite <- H in Hm. exact Hm.
Qed.

Theorem spec_next_iff d r out : spec_next d r out = true <-> (r, out) = next_permutation d.
Proof.
  split.
  - intros H. pose proof (next_permutation_spec d) as Hm. destruct (next_permutation d) as [r' out']. cbn [fst snd] in Hm.
    unfold spec_next in *. destruct (succ_in (all_arrangements d) d) as [b|].
    + apply andb_true_iff in H, Hm. destruct H as [H1 H2], Hm as [H3 H4]. apply leqb_Z_eq in H2, H4.
      destruct r, r'; try discriminate. subst. reflexivity.
    + apply andb_true_iff in H, Hm. destruct H as [H1 H2], Hm as [H3 H4]. apply leqb_Z_eq in H2, H4.
      destruct r, r'; try discriminate. subst. reflexivity.
  - intros H. pose proof (next_permutation_spec d) as Hm. rewrite <- H in Hm. exact Hm.
Qed.

Theorem spec_next_direct_agrees d r out : spec_next_direct d r out = spec_next d r out.
Proof. apply eq_true_iff_eq. rewrite spec_next_direct_iff, spec_next_iff. reflexivity. Qed.

(** * prefixes of the listing *)
Lemma chain_ok_model : forall k cur, chain_ok cur (perm_take_from cur k) k = true.
Proof.
  induction k as [|k IH]; intros cur; [reflexivity|]. cbn [perm_take_from].
  pose proof (spec_next_direct_model cur) as Hd. pose proof (next_perm_wrap cur) as [Hw _].
  destruct (next_permutation cur) as [b nxt]. cbn [fst snd] in *. destruct b.
  - cbn [chain_ok]. cbn [spec_next_direct] in Hd. rewrite Hd, IH. reflexivity.
  - cbn [chain_ok]. apply orb_true_iff. right. apply noninc_b_spec, Hw. reflexivity.
Qed.

Lemma spec_iter_pre_model d k : spec_iter_pre d k (iter_permutations_take d k) = true.
Proof.
  unfold spec_iter_pre. apply andb_true_iff. split.
  - destruct k as [|k]; [reflexivity|]. cbn [iter_permutations_take].
    rewrite zsort_sort, (proj2 (leqb_Z_eq _ _) eq_refl), chain_ok_model. reflexivity.
  - destruct (length d <=? 8)%nat; [|reflexivity]. apply leqb_ZZ_eq.
    apply iter_permutations_take_firstn. apply iter_permutations_all_arrangements.
Qed.
