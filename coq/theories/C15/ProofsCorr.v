(** C15 — an observation that agrees with the model satisfies the specification of Corr.v
    ([model_check c = true -> spec_check c = true]): the batch lemma about the model carries the
    specification to the implementation by proof. *)
From Coq Require Import ZArith NArith Lia List Bool Sorting.Permutation Sorting.Sorted.
From RlibV Require Import Common.Batch C15.Model C15.Spec C15.Corr C15.ProofsMasks C15.ProofsMasksEnum
  C15.ProofsPerm C15.ProofsIter C15.ProofsNb C15.ProofsCorrPerm C15.ProofsCorrMasks C15.ProofsTake C15.ProofsDirect
  C15.ProofsDeposit.
Import ListNotations.
Open Scope Z_scope.

Lemma zz_eqb_eq (a b : Z * Z) : zz_eqb a b = true <-> a = b.
Proof.
  destruct a as [a1 a2], b as [b1 b2]. unfold zz_eqb, peqb. cbn [fst snd].
  rewrite andb_true_iff, !Z.eqb_eq. split; [intros [-> ->]; reflexivity|intros H; injection H; auto].
Qed.
Lemma leqb_zz_eq : forall a b : list (Z * Z), leqb zz_eqb a b = true <-> a = b.
Proof.
  induction a as [|x a IH]; intros [|y b]; cbn [leqb]; try (split; [discriminate|discriminate]); [tauto|].
  rewrite andb_true_iff, zz_eqb_eq, IH. split; [intros [-> ->]; reflexivity|intros H; injection H; auto].
Qed.

Lemma filter_andb {A} (f g : A -> bool) l : filter (fun c => f c && g c) l = filter g (filter f l).
Proof.
  induction l as [|a l IH]; [reflexivity|]. cbn [filter]. destruct (f a); cbn [andb filter]; rewrite IH; reflexivity.
Qed.

Ltac norm_offsets i j :=
  replace (i - i) with 0 by lia; replace (j - j) with 0 by lia;
  replace (i - 1 - i) with (-1) by lia; replace (i + 1 - i) with 1 by lia;
  replace (j - 1 - j) with (-1) by lia; replace (j + 1 - j) with 1 by lia.

Lemma ring_adjacent k i j :
  filter (adjacent k i j) (ring i j) = match k with K4 => cells4 i j | K4d => cells4d i j | K8 => cells8 i j end.
Proof.
  unfold ring. destruct k; unfold adjacent; cbn [filter fst snd]; norm_offsets i j; reflexivity.
Qed.

Lemma model_nb_eq k n m i j :
  neighbours (offs_of k) n m i j = filter (fun c => adjacent k i j c && in_grid n m c) (ring i j).
Proof.
  rewrite filter_andb, ring_adjacent. destruct k; cbn [offs_of].
  - apply nb4_eq.
  - apply nb4d_eq.
  - apply nb8_eq.
Qed.

Lemma adjacent_spec k i j a b : adjacent k i j (a, b) = true <->
  match k with
  | K4 => Z.abs (a - i) + Z.abs (b - j) = 1
  | K4d => Z.abs (a - i) = 1 /\ Z.abs (b - j) = 1
  | K8 => Z.max (Z.abs (a - i)) (Z.abs (b - j)) = 1
  end.
Proof. destruct k; unfold adjacent; cbn [fst snd]; rewrite ?andb_true_iff, ?Z.eqb_eq; reflexivity. Qed.

Lemma model_nb_in k n m i j a b : In (a, b) (neighbours (offs_of k) n m i j) <->
  (0 <= a < n /\ 0 <= b < m) /\ adjacent k i j (a, b) = true.
Proof.
  rewrite adjacent_spec. destruct k; cbn [offs_of].
  - fold (iter_neighbours_4 n m i j). rewrite nb4_in. tauto.
  - fold (iter_neighbours_4d n m i j). rewrite nb4d_in. tauto.
  - fold (iter_neighbours_8 n m i j). rewrite nb8_in. tauto.
Qed.

Lemma model_nb_nodup k n m i j : NoDup (neighbours (offs_of k) n m i j).
Proof. destruct k; [apply nb4_nodup|apply nb4d_nodup|apply nb8_nodup]. Qed.

Lemma nodup_app {A} (l1 l2 : list A) : NoDup l1 -> NoDup l2 -> (forall x, In x l1 -> ~ In x l2) -> NoDup (l1 ++ l2).
Proof.
  intros H1 H2 H. induction H1 as [|a l1 Ha H1 IH]; [exact H2|]. cbn [app]. constructor.
  - intros Hin. apply in_app_or in Hin. destruct Hin as [Hin|Hin]; [exact (Ha Hin)|]. exact (H a (or_introl eq_refl) Hin).
  - apply IH. intros x Hx. apply H. right. exact Hx.
Qed.

Lemma grid_cells_in n m a b : In (a, b) (grid_cells n m) <-> 0 <= a < n /\ 0 <= b < m.
Proof.
  unfold grid_cells. rewrite in_flat_map. split.
  - intros (x & Hx & Hin). apply in_map_iff in Hin. destruct Hin as (y & E & Hy). injection E as <- <-.
    apply in_seq in Hx. apply in_seq in Hy. lia.
  - intros [Ha Hb]. exists (Z.to_nat a). split; [apply in_seq; lia|]. apply in_map_iff. exists (Z.to_nat b).
    split; [f_equal; lia|apply in_seq; lia].
Qed.

Lemma grid_cells_nodup n m : NoDup (grid_cells n m).
Proof.
  unfold grid_cells. generalize (Z.to_nat m) as m'. intros m'.
  assert (G : forall len start, NoDup (flat_map (fun a => map (fun b => (Z.of_nat a, Z.of_nat b)) (seq 0 m')) (seq start len))).
  { induction len as [|len IH]; intros start; cbn [seq flat_map]; [constructor|]. apply nodup_app.
    - apply FinFun.Injective_map_NoDup; [|apply seq_NoDup]. intros x y E. injection E. lia.
    - apply IH.
    - intros c Hc Hc'. apply in_map_iff in Hc. destruct Hc as (y & <- & _). apply in_flat_map in Hc'.
      destruct Hc' as (x & Hx & Hc'). apply in_map_iff in Hc'. destruct Hc' as (y' & E & _). injection E as E1 E2.
      apply in_seq in Hx. lia. }
  apply G.
Qed.

Lemma spec_nb_model k n m i j : spec_nb k n m i j (neighbours (offs_of k) n m i j) = true.
Proof.
  unfold spec_nb. apply andb_true_iff. split; [apply leqb_zz_eq, model_nb_eq|].
  destruct (n * m <=? 400); [|reflexivity]. apply Nat.eqb_eq. apply Permutation_length.
  apply NoDup_Permutation; [apply model_nb_nodup|apply NoDup_filter, grid_cells_nodup|].
  intros [a b]. rewrite model_nb_in, filter_In, grid_cells_in. reflexivity.
Qed.

(** * the theorem *)
Lemma toN_lt w x : 0 <= w -> 0 <= x -> x < 2 ^ w -> (Z.to_N x < 2 ^ Z.to_N w)%N.
Proof.
  intros Hw Hx H. apply N2Z.inj_lt. rewrite N2Z.inj_pow, !Z2N.id by lia. exact H.
Qed.

Theorem model_implies_spec : forall c : case, in_scope c -> model_check c = true -> spec_check c = true.
Proof.
  intros [w x out|w x out|d r out|d out|k n m i j out|w x k out|w x k out|d k out] Hsc Hm;
    cbn [model_check spec_check in_scope] in *.
  - destruct ((0 <=? w) && (0 <=? x) && (x <? 2 ^ w)) eqn:Eg; [|reflexivity]. cbn [negb].
    apply andb_true_iff in Eg. destruct Eg as [Eg E3]. apply andb_true_iff in Eg. destruct Eg as [E1 E2].
    apply Z.leb_le in E1, E2. apply Z.ltb_lt in E3.
    rewrite !andb_true_iff in Hm. destruct Hm as [[_ Hnn] Hm]. rewrite Hnn. cbn [andb].
    destruct (iter_submasks (Z.to_N w) (Z.to_N x)) as [l|] eqn:El; [|discriminate].
    apply leqb_N_eq in Hm. subst l. apply spec_sub_model; [lia|apply toN_lt; assumption|exact El].
  - destruct ((0 <=? w) && (0 <=? x) && (x <? 2 ^ w)) eqn:Eg; [|reflexivity]. cbn [negb].
    apply andb_true_iff in Eg. destruct Eg as [Eg E3]. apply andb_true_iff in Eg. destruct Eg as [E1 E2].
    apply Z.leb_le in E1, E2. apply Z.ltb_lt in E3.
    rewrite !andb_true_iff in Hm. destruct Hm as [[_ Hnn] Hm]. rewrite Hnn. cbn [andb].
    destruct (iter_supermasks (Z.to_N w) (Z.to_N x)) as [l|] eqn:El; [|discriminate].
    apply leqb_N_eq in Hm. subst l. apply spec_sup_model; [lia|apply toN_lt; assumption|exact El].
  - pose proof (next_permutation_spec d) as Hs. destruct (next_permutation d) as [r' out']. cbn [fst snd] in Hs.
    apply andb_true_iff in Hm. destruct Hm as [Hr Ho]. apply leqb_Z_eq in Ho. apply eqb_prop in Hr. subst.
    rewrite spec_next_direct_agrees, Hs. destruct (length d <=? 9)%nat; reflexivity.
  - rewrite iter_permutations_all_arrangements in Hm. apply leqb_ZZ_eq in Hm. subst out. apply leqb_ZZ_eq. reflexivity.
  - apply leqb_zz_eq in Hm. subst out. destruct (negb _); [reflexivity|apply spec_nb_model].
  - destruct ((0 <=? w) && (0 <=? x) && (x <? 2 ^ w) && (0 <=? k)) eqn:Eg; [|reflexivity]. cbn [negb].
    rewrite !andb_true_iff in Eg. destruct Eg as [[[E1 E2] E3] E4].
    apply Z.leb_le in E1, E2, E4. apply Z.ltb_lt in E3.
    rewrite !andb_true_iff in Hm. destruct Hm as [[_ Hnn] Hm]. rewrite Hnn. cbn [andb].
    apply leqb_N_eq in Hm. rewrite <- Hm. apply spec_sub_pre_model; [lia|apply toN_lt; assumption].
  - destruct ((0 <=? w) && (0 <=? x) && (x <? 2 ^ w) && (0 <=? k)) eqn:Eg; [|reflexivity]. cbn [negb].
    rewrite !andb_true_iff in Eg. destruct Eg as [[[E1 E2] E3] E4].
    apply Z.leb_le in E1, E2, E4. apply Z.ltb_lt in E3.
    rewrite !andb_true_iff in Hm. destruct Hm as [[_ Hnn] Hm]. rewrite Hnn. cbn [andb].
    apply leqb_N_eq in Hm. rewrite <- Hm. apply spec_sup_pre_model; [lia|apply toN_lt; assumption].
  - apply andb_true_iff in Hm. destruct Hm as [Hk Hm]. rewrite Hk. cbn [negb].
    apply leqb_ZZ_eq in Hm. subst out. apply spec_iter_pre_model.
Qed.
