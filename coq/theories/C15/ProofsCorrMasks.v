(** C15 — the brute-force / counting specification of Corr.v agrees with the model on masks. *)
From Coq Require Import ZArith NArith Lia List Bool Sorting.Sorted.
From RlibV Require Import Common.Batch C15.Model C15.Corr C15.ProofsMasks C15.ProofsMasksEnum.
Import ListNotations.
Open Scope N_scope.

Lemma leqb_N_eq : forall a b : list N, leqb N.eqb a b = true <-> a = b.
Proof.
  induction a as [|x a IH]; intros [|y b]; cbn [leqb]; try (split; [discriminate|discriminate]); [tauto|].
  rewrite andb_true_iff, N.eqb_eq, IH. split; [intros [-> ->]; reflexivity|intros H; injection H; auto].
Qed.

Lemma lengthN_length {A} (l : list A) : lengthN l = N.of_nat (length l).
Proof.
  unfold lengthN. assert (G : forall n, fold_left (fun k _ => N.succ k) l n = n + N.of_nat (length l)).
  { induction l as [|a l IH]; intros n; cbn [fold_left length]; [lia|]. rewrite IH. lia. }
  rewrite G. lia.
Qed.

(** * counting by halving *)
Definition cnt (P : N -> bool) (n : nat) : nat := length (filter P (map N.of_nat (seq 0 n))).

Lemma cnt_S P n : cnt P (S n) = (cnt P n + if P (N.of_nat n) then 1 else 0)%nat.
Proof.
  unfold cnt. rewrite seq_S, map_app, filter_app, app_length. cbn [map filter Nat.add].
  destruct (P (N.of_nat n)); reflexivity.
Qed.

Lemma cnt_double P n : cnt P (2 * n)%nat = (cnt (fun u => P (2 * u)%N) n + cnt (fun u => P (2 * u + 1)%N) n)%nat.
Proof.
  induction n as [|n IH]; [reflexivity|].
  replace (2 * S n)%nat with (S (S (2 * n))) by lia. rewrite !cnt_S, IH.
  replace (N.of_nat (2 * n)) with (2 * N.of_nat n) by lia.
  replace (N.of_nat (S (2 * n))) with (2 * N.of_nat n + 1) by lia. lia.
Qed.

Lemma cnt_ext P Q n : (forall u, u < N.of_nat n -> P u = Q u) -> cnt P n = cnt Q n.
Proof.
  induction n as [|n IH]; intros H; [reflexivity|]. rewrite !cnt_S, IH, H by (intros; try apply H; lia). reflexivity.
Qed.

Lemma cnt_false n : cnt (fun _ => false) n = 0%nat.
Proof. induction n as [|n IH]; [reflexivity|]. rewrite cnt_S, IH. reflexivity. Qed.

Lemma popcount_double x : popcount (2 * x) = popcount x.
Proof. destruct x; reflexivity. Qed.
Lemma popcount_succ_double x : popcount (2 * x + 1) = popcount x + 1.
Proof. destruct x as [|p]; [reflexivity|]. cbn. lia. Qed.

Lemma pow2_nat w : N.to_nat (2 ^ N.of_nat (S w)) = (2 * N.to_nat (2 ^ N.of_nat w))%nat.
Proof. rewrite Nat2N.inj_succ, N.pow_succ_r'. lia. Qed.

Lemma count_sub : forall (w : nat) x, x < 2 ^ N.of_nat w ->
  N.of_nat (cnt (is_sub x) (N.to_nat (2 ^ N.of_nat w))) = 2 ^ popcount x.
Proof.
  induction w as [|w IH]; intros x Hx.
  - cbn in Hx. assert (x = 0) by lia. subst x. reflexivity.
  - rewrite pow2_nat, cnt_double. rewrite Nat2N.inj_succ, N.pow_succ_r' in Hx.
    destruct (N_binary_cases x) as [[x' ->]|[x' ->]].
    + rewrite (cnt_ext (fun u => is_sub (2 * x') (2 * u)) (is_sub x')).
      2:{ intros u _. unfold is_sub. rewrite land_dd. destruct (N.eqb_spec (N.land u x') u) as [E|E];
          [rewrite E; apply N.eqb_refl|apply N.eqb_neq; lia]. }
      rewrite (cnt_ext (fun u => is_sub (2 * x') (2 * u + 1)) (fun _ => false)).
      2:{ intros u _. unfold is_sub. rewrite land_sd. apply N.eqb_neq. lia. }
      rewrite cnt_false, Nat.add_0_r, popcount_double. apply IH. lia.
    + rewrite (cnt_ext (fun u => is_sub (2 * x' + 1) (2 * u)) (is_sub x')).
      2:{ intros u _. unfold is_sub. rewrite land_ds. destruct (N.eqb_spec (N.land u x') u) as [E|E];
          [rewrite E; apply N.eqb_refl|apply N.eqb_neq; lia]. }
      rewrite (cnt_ext (fun u => is_sub (2 * x' + 1) (2 * u + 1)) (is_sub x')).
      2:{ intros u _. unfold is_sub. rewrite land_ss. destruct (N.eqb_spec (N.land u x') u) as [E|E];
          [rewrite E; apply N.eqb_refl|apply N.eqb_neq; lia]. }
      rewrite popcount_succ_double, N.pow_add_r. change (2 ^ 1) with 2.
      rewrite Nat2N.inj_add, IH by lia. lia.
Qed.

Lemma count_sup : forall (w : nat) x, x < 2 ^ N.of_nat w ->
  popcount x <= N.of_nat w /\
  N.of_nat (cnt (is_sup (N.of_nat w) x) (N.to_nat (2 ^ N.of_nat w))) = 2 ^ (N.of_nat w - popcount x).
Proof.
  induction w as [|w IH]; intros x Hx.
  - cbn in Hx. assert (x = 0) by lia. subst x. split; [cbn; lia|reflexivity].
  - rewrite pow2_nat, cnt_double. pose proof Hx as Hx0. rewrite Nat2N.inj_succ, N.pow_succ_r' in Hx.
    assert (Hlt : forall u, u < N.of_nat (N.to_nat (2 ^ N.of_nat w)) ->
                   (2 * u <? 2 ^ N.of_nat (S w)) = true /\ (2 * u + 1 <? 2 ^ N.of_nat (S w)) = true /\
                   (u <? 2 ^ N.of_nat w) = true).
    { intros u Hu. rewrite N2Nat.id in Hu. rewrite Nat2N.inj_succ, N.pow_succ_r'. rewrite !N.ltb_lt. lia. }
    destruct (N_binary_cases x) as [[x' ->]|[x' ->]].
    + destruct (IH x') as [Hp Hc]; [lia|].
      rewrite (cnt_ext (fun u => is_sup (N.of_nat (S w)) (2 * x') (2 * u)) (is_sup (N.of_nat w) x')).
      2:{ intros u Hu. destruct (Hlt u Hu) as (E1 & E2 & E3). unfold is_sup. rewrite E1, E3, land_dd, !andb_true_r.
          destruct (N.eqb_spec (N.land u x') x') as [E|E]; [rewrite E; apply N.eqb_refl|apply N.eqb_neq; lia]. }
      rewrite (cnt_ext (fun u => is_sup (N.of_nat (S w)) (2 * x') (2 * u + 1)) (is_sup (N.of_nat w) x')).
      2:{ intros u Hu. destruct (Hlt u Hu) as (E1 & E2 & E3). unfold is_sup. rewrite E2, E3, land_sd, !andb_true_r.
          destruct (N.eqb_spec (N.land u x') x') as [E|E]; [rewrite E; apply N.eqb_refl|apply N.eqb_neq; lia]. }
      rewrite popcount_double. split; [lia|]. rewrite Nat2N.inj_add, Hc.
      replace (N.of_nat (S w) - popcount x') with (N.succ (N.of_nat w - popcount x')) by lia.
      rewrite N.pow_succ_r'. lia.
    + destruct (IH x') as [Hp Hc]; [lia|].
      rewrite (cnt_ext (fun u => is_sup (N.of_nat (S w)) (2 * x' + 1) (2 * u)) (fun _ => false)).
      2:{ intros u Hu. unfold is_sup. rewrite land_ds. apply andb_false_iff. left. apply N.eqb_neq. lia. }
      rewrite (cnt_ext (fun u => is_sup (N.of_nat (S w)) (2 * x' + 1) (2 * u + 1)) (is_sup (N.of_nat w) x')).
      2:{ intros u Hu. destruct (Hlt u Hu) as (E1 & E2 & E3). unfold is_sup. rewrite E2, E3, land_ss, !andb_true_r.
          destruct (N.eqb_spec (N.land u x') x') as [E|E]; [rewrite E; apply N.eqb_refl|apply N.eqb_neq; lia]. }
      rewrite cnt_false, popcount_succ_double. split; [lia|]. cbn [Nat.add]. rewrite Hc. f_equal. lia.
Qed.

(** * boolean sortedness *)
Lemma strictly_of_ssorted (lt : N -> N -> bool) (R : N -> N -> Prop) l :
  (forall a b, R a b -> lt a b = true) -> StronglySorted R l -> strictly lt l = true.
Proof.
  intros HR H. induction H as [|a l H IH Ha]; [reflexivity|]. destruct l as [|b l]; [reflexivity|].
  change (strictly lt (a :: b :: l)) with (lt a b && strictly lt (b :: l)).
  rewrite IH, andb_true_r. apply HR. inversion Ha; assumption.
Qed.

Lemma forallb_filter {A} (f : A -> bool) l : forallb f (filter f l) = true.
Proof. apply forallb_forall. intros x Hx. apply filter_In in Hx. apply Hx. Qed.

Lemma filter_rev' {A} (f : A -> bool) l : filter f (rev l) = rev (filter f l).
Proof.
  induction l as [|a l IH]; [reflexivity|]. cbn [rev filter]. rewrite filter_app, IH. cbn [filter].
  destruct (f a); cbn [rev]; [reflexivity|apply app_nil_r].
Qed.

(** * the two specifications accept the model's output *)
Lemma spec_sub_model w x l : w <= 128 -> x < 2 ^ w -> iter_submasks w x = Some l -> spec_sub w x l = true.
Proof.
  intros Hw Hx Hl. pose proof (submasks_filter w x Hw Hx) as Hf. rewrite Hl in Hf. injection Hf as ->.
  destruct (iter_submasks_ok w x Hw Hx) as (l & Hl' & Hin & Hs & Hlast & Hhd).
  rewrite (submasks_filter w x Hw Hx) in Hl'. injection Hl' as <-.
  unfold spec_sub. destruct (w <=? 8); [apply leqb_N_eq; reflexivity|].
  rewrite forallb_filter, (strictly_of_ssorted _ _ _ (fun a b H => proj2 (N.ltb_lt b a) H) Hs), Hlast. cbn [andb].
  rewrite N.eqb_refl. cbn [andb]. apply N.eqb_eq. rewrite lengthN_length.
  rewrite filter_rev', rev_length. unfold all_below.
  rewrite <- (N2Nat.id w) in Hx |- *. apply (count_sub (N.to_nat w) x Hx).
Qed.

Lemma spec_sup_model w x l : w <= 128 -> x < 2 ^ w -> iter_supermasks w x = Some l -> spec_sup w x l = true.
Proof.
  intros Hw Hx Hl. pose proof (supermasks_filter w x Hw Hx) as Hf. rewrite Hl in Hf. injection Hf as ->.
  destruct (iter_supermasks_ok w x Hw Hx) as (l & Hl' & Hin & Hs & Hlast & Hhd).
  rewrite (supermasks_filter w x Hw Hx) in Hl'. injection Hl' as <-.
  unfold spec_sup. destruct (w <=? 8); [apply leqb_N_eq; reflexivity|].
  rewrite forallb_filter, (strictly_of_ssorted _ _ _ (fun a b H => proj2 (N.ltb_lt a b) H) Hs), Hlast. cbn [andb].
  unfold ones. rewrite N.eqb_refl. cbn [andb]. apply N.eqb_eq. rewrite lengthN_length. unfold all_below.
  rewrite <- (N2Nat.id w) in Hx |- *. apply (count_sup (N.to_nat w) x Hx).
Qed.

(** the number of items *)
Lemma submasks_count w x : w <= 128 -> x < 2 ^ w ->
  exists l, iter_submasks w x = Some l /\ N.of_nat (length l) = 2 ^ popcount x.
Proof.
  intros Hw Hx. rewrite (submasks_filter w x Hw Hx). eexists. split; [reflexivity|].
  rewrite filter_rev', rev_length. unfold all_below.
  rewrite <- (N2Nat.id w) in Hx |- *. apply (count_sub (N.to_nat w) x Hx).
Qed.
Lemma supermasks_count w x : w <= 128 -> x < 2 ^ w ->
  exists l, iter_supermasks w x = Some l /\ N.of_nat (length l) = 2 ^ (w - popcount x).
Proof.
  intros Hw Hx. rewrite (supermasks_filter w x Hw Hx). eexists. split; [reflexivity|]. unfold all_below.
  rewrite <- (N2Nat.id w) in Hx |- *. apply (count_sup (N.to_nat w) x Hx).
Qed.
