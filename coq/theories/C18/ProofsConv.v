(** C18 — conversions: widening is exact, narrowing rounds correctly, the round trip is the identity. *)
From Coq Require Import ZArith Reals Bool Floats.SpecFloat Lia Lra.
From Flocq Require Import Core.Zaux Core.Raux Core.Defs Core.Digits Core.Float_prop Core.Generic_fmt Core.FLT
  Core.Round_NE IEEE754.BinarySingleNaN.
From RlibV Require Import C18.Model C18.Spec C18.Transport.
Open Scope Z_scope.

Global Instance Hp80 : FLX.Prec_gt_0 p80 := eq_refl.
Global Instance He80 : Prec_lt_emax p80 e80 := eq_refl.
Global Instance Hp64 : FLX.Prec_gt_0 p64 := eq_refl.
Global Instance He64 : Prec_lt_emax p64 e64 := eq_refl.

Notation bf80 := (binary_float p80 e80).
Notation bf64 := (binary_float p64 e64).

(** a bounded binary64 significand/exponent pair *)
Lemma bounded64_facts m e : bounded p64 e64 m e = true ->
  Zpos (digits2_pos m) <= 53 /\ -1074 <= e <= 971 /\ 1 <= Zpos (digits2_pos m).
Proof.
  unfold bounded, canonical_mantissa, fexp, emin, p64, e64. intros H.
  apply andb_prop in H. destruct H as [H1 H2].
  apply Zeq_bool_eq in H1. apply Zle_bool_imp_le in H2. lia.
Qed.

Lemma widen_finite s m e : bounded p64 e64 m e = true ->
  exists m' e', widen (S754_finite s m e) = S754_finite s m' e'
    /\ bounded p80 e80 m' e' = true
    /\ F2R (Float radix2 (Zpos m') e') = F2R (Float radix2 (Zpos m) e).
Proof.
  intros Hb. destruct (bounded64_facts m e Hb) as (Hd & He & Hd1).
  cbn [widen].
  set (t := fexp p80 e80 (Z.pos (digits2_pos m) + e)).
  assert (Ht : t <= e) by (unfold t, fexp, emin, p80, e80; lia).
  pose proof (shl_align_correct' m e t Ht) as Hs.
  destruct (shl_align m e t) as [m' e'] eqn:Hsa. destruct Hs as [HF He'].
  subst e'. exists m', t. split; [reflexivity|]. split; [|exact HF].
  unfold bounded. apply andb_true_intro. split.
  - unfold canonical_mantissa. apply Zeq_bool_true.
    rewrite Zpos_digits2_pos.
    rewrite <- (mag_F2R_Zdigits radix2 (Zpos m') t) by discriminate.
    rewrite HF. rewrite mag_F2R_Zdigits by discriminate.
    rewrite <- Zpos_digits2_pos. reflexivity.
  - apply Zle_bool_true. unfold t, fexp, emin, p80, e80. lia.
Qed.

Lemma widen_valid x : valid64 x -> valid80 (widen x).
Proof.
  unfold valid64, valid80. destruct x as [s|s| |s m e]; try reflexivity.
  cbn [valid_binary]. intros Hb.
  destruct (widen_finite s m e Hb) as (m' & e' & Hw & Hb' & _). rewrite Hw. exact Hb'.
Qed.

Lemma widen_val x : valid64 x -> val (widen x) = val x.
Proof.
  unfold valid64, val. destruct x as [s|s| |s m e]; try reflexivity.
  cbn [valid_binary]. intros Hb.
  destruct (widen_finite s m e Hb) as (m' & e' & Hw & _ & HF). rewrite Hw.
  cbn [SF2R]. destruct s; cbn [cond_Zopp].
  - change (Z.neg m') with (- Z.pos m'). change (Z.neg m) with (- Z.pos m).
    rewrite !F2R_Zopp. now rewrite HF.
  - exact HF.
Qed.

Lemma widen_class x :
  is_finite_SF (widen x) = is_finite_SF x /\ is_nan_SF (widen x) = is_nan_SF x
  /\ sign_SF (widen x) = sign_SF x
  /\ (forall s, widen x = S754_zero s <-> x = S754_zero s)
  /\ (forall s, widen x = S754_infinity s <-> x = S754_infinity s)
  /\ (widen x = S754_nan <-> x = S754_nan).
Proof.
  destruct x as [s|s| |s m e]; cbn [widen]; try (repeat split; intros; tauto || congruence).
  destruct (shl_align m e _) as [m' e'].
  repeat split; intros; congruence.
Qed.

(** narrowing = correct rounding to binary64 *)
Definition overflow64 (s : bool) : spec_float := S754_infinity s.

Lemma narrow_finite_B s m e :
  narrow (S754_finite s m e)
  = B2SF (binary_normalize p64 e64 Hp64 He64 mode_NE (cond_Zopp s (Zpos m)) e s).
Proof. cbn [narrow]. apply binary_normalize_equiv. Qed.

Lemma narrow_valid x : valid64 (narrow x).
Proof.
  unfold valid64. destruct x as [s|s| |s m e]; try reflexivity.
  rewrite narrow_finite_B. apply valid_binary_B2SF.
Qed.

Lemma SF2R_finite s m e : SF2R radix2 (S754_finite s m e) = F2R (Float radix2 (cond_Zopp s (Zpos m)) e).
Proof. reflexivity. Qed.

Lemma Rcompare_F2R_cond s m e :
  Rcompare (F2R (Float radix2 (cond_Zopp s (Zpos m)) e)) 0 = if s then Lt else Gt.
Proof.
  destruct s; cbn [cond_Zopp].
  - apply Rcompare_Lt. now apply F2R_lt_0.
  - apply Rcompare_Gt. now apply F2R_gt_0.
Qed.

Lemma sign_SF_B2SF prec emax (z : binary_float prec emax) : sign_SF (B2SF z) = Bsign z.
Proof. now destruct z. Qed.

Lemma narrow_correct s m e :
  let x := S754_finite s m e in
  (Rabs (rnd64 (val x)) < bpow radix2 e64)%R ->
  val (narrow x) = rnd64 (val x) /\ is_finite_SF (narrow x) = true /\ sign_SF (narrow x) = s
  /\ valid64 (narrow x).
Proof.
  intros x Hlt. unfold x in *. clear x. rewrite narrow_finite_B.
  pose proof (binary_normalize_correct p64 e64 Hp64 He64 mode_NE (cond_Zopp s (Zpos m)) e s) as H.
  cbv zeta in H.
  unfold rnd64, val in Hlt. rewrite SF2R_finite in Hlt.
  change (fexp p64 e64) with (FLT_exp (3 - e64 - p64) p64) in H.
  change (round_mode mode_NE) with ZnearestE in H.
  rewrite (Rlt_bool_true _ _ Hlt) in H. destruct H as (H1 & H2 & H3).
  unfold val. rewrite SF2R_B2SF, is_finite_SF_B2SF. repeat split.
  - rewrite H1. reflexivity.
  - exact H2.
  - rewrite Rcompare_F2R_cond in H3.
    set (z := binary_normalize _ _ _ _ _ _ _ _) in *.
    rewrite sign_SF_B2SF, H3. destruct s; reflexivity.
  - apply valid_binary_B2SF.
Qed.

Lemma narrow_overflow s m e :
  let x := S754_finite s m e in
  (bpow radix2 e64 <= Rabs (rnd64 (val x)))%R ->
  narrow x = S754_infinity s.
Proof.
  intros x Hge. unfold x. rewrite narrow_finite_B.
  pose proof (binary_normalize_correct p64 e64 Hp64 He64 mode_NE (cond_Zopp s (Zpos m)) e s) as H.
  cbv zeta in H.
  unfold rnd64, val, x in Hge. rewrite SF2R_finite in Hge.
  change (fexp p64 e64) with (FLT_exp (3 - e64 - p64) p64) in H.
  change (round_mode mode_NE) with ZnearestE in H.
  rewrite (Rlt_bool_false _ _ Hge) in H. rewrite H.
  unfold binary_overflow, overflow_to_inf. f_equal.
  destruct s; cbn [cond_Zopp].
  - apply Rlt_bool_true. now apply F2R_lt_0.
  - apply Rlt_bool_false. now apply F2R_ge_0.
Qed.

Lemma narrow_special :
  (forall s, narrow (S754_zero s) = S754_zero s) /\ (forall s, narrow (S754_infinity s) = S754_infinity s)
  /\ narrow S754_nan = S754_nan.
Proof. repeat split. Qed.

(** f64 -> f80 -> f64 is the identity *)
Lemma roundtrip x : valid64 x -> narrow (widen x) = x.
Proof.
  intros Hv. destruct x as [s|s| |s m e]; try reflexivity.
  pose proof Hv as Hb. unfold valid64 in Hb. cbn [valid_binary] in Hb.
  destruct (widen_finite s m e Hb) as (m' & e' & Hw & Hb' & HF).
  rewrite Hw, narrow_finite_B.
  set (z := binary_normalize p64 e64 Hp64 He64 mode_NE (cond_Zopp s (Zpos m')) e' s).
  pose proof (binary_normalize_correct p64 e64 Hp64 He64 mode_NE (cond_Zopp s (Zpos m')) e' s) as H.
  cbv zeta in H. fold z in H.
  set (x64 := B754_finite s m e Hb : bf64).
  assert (HR : F2R (Float radix2 (cond_Zopp s (Zpos m')) e') = B2R x64).
  { cbn [B2R x64]. destruct s; cbn [cond_Zopp].
    - change (Z.neg m') with (- Z.pos m'). change (Z.neg m) with (- Z.pos m).
      rewrite !F2R_Zopp. now rewrite HF.
    - exact HF. }
  rewrite HR in H.
  rewrite round_generic in H; [|apply valid_rnd_round_mode|apply generic_format_B2R].
  rewrite (Rlt_bool_true _ _ (abs_B2R_lt_emax _ _ x64)) in H.
  destruct H as (H1 & H2 & H3).
  assert (Hz : z = x64).
  { apply B2R_Bsign_inj; [exact H2|reflexivity|exact H1|].
    rewrite H3. cbn [B2R x64]. rewrite Rcompare_F2R_cond. destruct s; reflexivity. }
  rewrite Hz. reflexivity.
Qed.

Lemma widen_inj x y : valid64 x -> valid64 y -> widen x = widen y -> x = y.
Proof.
  intros Hx Hy H. rewrite <- (roundtrip x Hx), <- (roundtrip y Hy). now rewrite H.
Qed.
