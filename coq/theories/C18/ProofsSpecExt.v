(** C18 — the clauses of [spec_check] for the group [OExt] (relations, [min], [max], [abs] on operands that are
    genuinely extended-format values): what they accept is the IEEE relation on the OBSERVED raw operands.

    [xcmp] (exact comparison on integers) is [SFcompare] on data of the format; the observed booleans are
    therefore those of [lt80] … [partial_cmp80] applied to the decoded observed operands, [min]/[max] are one of
    the operands and a lower / upper bound of both, [abs] clears the sign; each [n_e] is the exact widening of the
    observed binary64 value. *)
From Coq Require Import ZArith Reals Bool List Floats.SpecFloat Lia Lra.
From Flocq Require Import Core.Zaux Core.Raux Core.Defs Core.Digits Core.Float_prop Core.Generic_fmt Core.FLT
  Core.Round_NE IEEE754.BinarySingleNaN.
From RlibV Require Import C18.Model C18.Corr C18.Spec C18.Transport C18.ProofsConv C18.ProofsArith
  C18.ProofsCmp C18.ProofsCmpR C18.ProofsRneZ C18.ProofsSpecSound.
Import ListNotations.
Open Scope Z_scope.

(** ** [xcmp] is the order of the real values, hence [SFcompare] on data of the format *)
Lemma parts_val x : is_finite_SF x = true ->
  val x = (IZR (sgnd (fst (fst (parts x))) (snd (fst (parts x)))) * bpow radix2 (snd (parts x)))%R.
Proof.
  destruct x as [s|s| |s m e]; try discriminate; intros _; unfold val; cbn [parts fst snd SF2R sgnd].
  - destruct s; cbn; ring.
  - unfold F2R. cbn [Fnum Fexp]. destruct s; reflexivity.
Qed.

Lemma shift_compare_R A B ex ey :
  (Z.shiftl A (ex - Z.min ex ey) ?= Z.shiftl B (ey - Z.min ex ey))
  = Rcompare (IZR A * bpow radix2 ex) (IZR B * bpow radix2 ey).
Proof.
  set (E := Z.min ex ey).
  replace (IZR A * bpow radix2 ex)%R with (IZR (Z.shiftl A (ex - E)) * bpow radix2 E)%R.
  2:{ rewrite shiftl_bpow by (unfold E; lia). f_equal. f_equal. ring. }
  replace (IZR B * bpow radix2 ey)%R with (IZR (Z.shiftl B (ey - E)) * bpow radix2 E)%R.
  2:{ rewrite shiftl_bpow by (unfold E; lia). f_equal. f_equal. ring. }
  rewrite Rcompare_mult_r by apply bpow_gt_0. now rewrite Rcompare_IZR.
Qed.

Lemma xcmp_finite x y : is_finite_SF x = true -> is_finite_SF y = true ->
  xcmp x y = Some (Rcompare (val x) (val y)).
Proof.
  intros Fx Fy. rewrite (parts_val x Fx), (parts_val y Fy).
  destruct x as [sx|sx| |sx mx ex]; try discriminate; destruct y as [sy|sy| |sy my ey]; try discriminate;
    cbn [xcmp parts fst snd]; f_equal; apply shift_compare_R.
Qed.

Lemma xcmp_SFcompare x y : valid80 x -> valid80 y -> xcmp x y = SFcompare x y.
Proof.
  intros Hx Hy.
  destruct (is_finite_SF x) eqn:Fx; [destruct (is_finite_SF y) eqn:Fy|].
  - rewrite (xcmp_finite x y Fx Fy). symmetry. now apply compare_real.
  - destruct x as [sx|sx| |sx mx ex]; try discriminate; destruct y as [sy|sy| |sy my ey]; try discriminate;
      try reflexivity; destruct sy; reflexivity.
  - destruct x as [sx|sx| |sx mx ex]; try discriminate; destruct y as [sy|sy| |sy my ey];
      try reflexivity; try (destruct sx; reflexivity); destruct sx, sy; reflexivity.
Qed.

(** ** one ordered pair *)
Lemma raw_eqb_eq a b : raw_eqb a b = true -> a = b.
Proof.
  destruct a as [a1 a2], b as [b1 b2]. unfold raw_eqb. cbn [fst snd]. intros H.
  apply andb_prop in H. destruct H as [H1 H2]. apply Z.eqb_eq in H1, H2. now subst.
Qed.

(** what [spec_rel] establishes *)
Definition rel_sound (u v : raw) (r : relobs) : Prop :=
  let X := decode80 u in
  let Y := decode80 v in
  valid80 X /\ valid80 Y
  /\ r_lt r = lt80 X Y /\ r_le r = le80 X Y /\ r_gt r = gt80 X Y /\ r_ge r = ge80 X Y /\ r_eq r = eq80 X Y
  /\ r_pcmp r = pcmp_code (partial_cmp80 X Y)
  /\ (X <> S754_nan -> Y <> S754_nan ->
      ((decode80 (r_min r) = X \/ decode80 (r_min r) = Y)
       /\ SFleb (decode80 (r_min r)) X = true /\ SFleb (decode80 (r_min r)) Y = true)
      /\ ((decode80 (r_max r) = X \/ decode80 (r_max r) = Y)
          /\ SFleb X (decode80 (r_max r)) = true /\ SFleb Y (decode80 (r_max r)) = true)).

Ltac split_andb H :=
  repeat match type of H with
         | _ && _ = true => let H' := fresh "H" in apply andb_prop in H; destruct H as [H H']
         end.

Lemma spec_rel_sound u v r : spec_rel u v r = true -> rel_sound u v r.
Proof.
  unfold spec_rel, rel_sound. cbv zeta.
  set (X := decode80 u). set (Y := decode80 v). intros H.
  apply andb_prop in H. destruct H as [H Hmm].
  apply andb_prop in H. destruct H as [H Hpc].
  apply andb_prop in H. destruct H as [H Heq].
  apply andb_prop in H. destruct H as [H Hge].
  apply andb_prop in H. destruct H as [H Hgt].
  apply andb_prop in H. destruct H as [H Hle].
  apply andb_prop in H. destruct H as [H Hlt].
  apply andb_prop in H. destruct H as [HvX HvY].
  change (valid80 X) in HvX. change (valid80 Y) in HvY.
  rewrite (xcmp_SFcompare X Y HvX HvY) in *.
  apply eqb_prop in Hlt, Hle, Hgt, Hge, Heq. apply Z.eqb_eq in Hpc.
  rewrite lt80_SFltb, le80_SFleb, gt80_SFltb, ge80_SFleb, eq80_SFeqb, partial_cmp80_SFcompare.
  unfold SFltb, SFleb, SFeqb. rewrite (SFcompare_swap X Y).
  split; [exact HvX|]. split; [exact HvY|].
  pose proof (SFcompare_None X Y) as HN.
  destruct (SFcompare X Y) as [[| |]|] eqn:Hc; cbn [CompOpp cmp_in existsb orb] in *;
    (split; [exact Hlt|]); (split; [exact Hle|]); (split; [exact Hgt|]); (split; [exact Hge|]);
    (split; [exact Heq|]); (split; [exact Hpc|]); intros HnX HnY.
  - (* equal values: either operand *)
    apply andb_prop in Hmm. destruct Hmm as [Hmin Hmax].
    pose proof (SFcompare_swap X Y) as Hs. rewrite Hc in Hs. cbn [CompOpp] in Hs.
    pose proof (SFcompare_refl X HnX) as HX. pose proof (SFcompare_refl Y HnY) as HY.
    split.
    + apply orb_prop in Hmin. destruct Hmin as [E|E]; apply raw_eqb_eq in E; rewrite E; fold X Y;
        unfold SFleb; rewrite ?HX, ?HY, ?Hc, ?Hs; auto.
    + apply orb_prop in Hmax. destruct Hmax as [E|E]; apply raw_eqb_eq in E; rewrite E; fold X Y;
        unfold SFleb; rewrite ?HX, ?HY, ?Hc, ?Hs; auto.
  - (* X < Y *)
    apply andb_prop in Hmm. destruct Hmm as [Hmin Hmax].
    apply raw_eqb_eq in Hmin, Hmax. rewrite Hmin, Hmax. fold X Y.
    unfold SFleb. rewrite (SFcompare_refl X HnX), (SFcompare_refl Y HnY), Hc. auto.
  - (* X > Y *)
    apply andb_prop in Hmm. destruct Hmm as [Hmin Hmax].
    apply raw_eqb_eq in Hmin, Hmax. rewrite Hmin, Hmax. fold X Y.
    pose proof (SFcompare_swap X Y) as Hs. rewrite Hc in Hs. cbn [CompOpp] in Hs.
    unfold SFleb. rewrite (SFcompare_refl X HnX), (SFcompare_refl Y HnY), Hs. auto.
  - exfalso. destruct (proj1 HN eq_refl); contradiction.
Qed.

(** ** [abs] *)
Lemma decode80_clear a : decode80 (clear_raw a) = SFabs (decode80 a).
Proof.
  destruct a as [se m]. unfold clear_raw, decode80. cbn [fst snd].
  rewrite Z.land_spec. change (Z.testbit 32767 15) with false. rewrite andb_false_r.
  rewrite <- Z.land_assoc. change (Z.land 32767 32767) with 32767.
  destruct (Z.land se 32767 =? 32767).
  - destruct (m =? 9223372036854775808); reflexivity.
  - destruct m; reflexivity.
Qed.

Definition abs_sound (u a : raw) : Prop :=
  match decode80 u with
  | S754_nan => True
  | S754_zero _ => exists s, decode80 a = S754_zero s
  | E => decode80 a = SFabs E
  end.

Lemma nonneg_sign A : A <> S754_nan ->
  cmp_in (xcmp A (S754_zero false)) [Gt; Eq] = true ->
  match A with S754_zero _ => True | _ => sign_SF A = false end.
Proof.
  intros Hn H. destruct A as [s|s| |s m e]; try exact I; try congruence.
  - destruct s; [discriminate|reflexivity].
  - destruct s; [|reflexivity]. exfalso.
    rewrite (xcmp_finite (S754_finite true m e) (S754_zero false) eq_refl eq_refl) in H.
    unfold val in H. cbn [SF2R cond_Zopp] in H.
    rewrite Rcompare_Lt in H; [discriminate|]. now apply F2R_lt_0.
Qed.

Lemma spec_abs_sound u a : spec_abs u a = true -> abs_sound u a.
Proof.
  unfold spec_abs, abs_sound. intros H.
  destruct (decode80 u) as [s|s| |s m e] eqn:Eu; cbn [is_nan_sf] in H; try exact I;
    apply andb_prop in H; destruct H as [Hc Hp]; apply raw_eqb_eq in Hc;
    pose proof (f_equal decode80 Hc) as Hd; rewrite !decode80_clear, Eu in Hd; cbn [SFabs] in Hd;
    (assert (Hn : decode80 a <> S754_nan) by (intros E; rewrite E in Hd; discriminate));
    pose proof (nonneg_sign (decode80 a) Hn Hp) as Hs;
    destruct (decode80 a) as [s'|s'| |s' m' e']; try discriminate; cbn [SFabs sign_SF] in *.
  - now exists s'.
  - now subst s'.
  - subst s'. exact Hd.
Qed.

(** ** the widening clause: the only accepted raw is the image of the binary64 datum *)
Lemma decode64_valid bits : valid64 (decode64 bits).
Proof.
  unfold valid64, decode64.
  set (e := Z.land (Z.shiftr bits 52) 2047). set (f := Z.land bits 4503599627370495).
  assert (He : 0 <= e < 2048).
  { unfold e. change 2047 with (Z.ones 11). rewrite Z.land_ones by lia. apply Z.mod_pos_bound. reflexivity. }
  assert (Hf : 0 <= f < 4503599627370496).
  { unfold f. change 4503599627370495 with (Z.ones 52). rewrite Z.land_ones by lia.
    apply Z.mod_pos_bound. reflexivity. }
  destruct (Z.eqb_spec e 2047) as [E1|E1]; [destruct (f =? 0); reflexivity|].
  destruct (Z.eqb_spec e 0) as [E0|E0].
  - destruct f as [|p|p] eqn:Ef; try reflexivity.
    cbn [valid_binary]. unfold bounded, canonical_mantissa, SpecFloat.fexp, emin, p64, e64.
    apply andb_true_intro. split; [|reflexivity]. apply Zeq_bool_true.
    assert (Hd : Zpos (digits2_pos p) <= 52).
    { rewrite Zpos_digits2_pos. apply Zdigits_le_Zpower. rewrite Z.abs_eq by lia.
      change (Zpower radix2 52) with 4503599627370496. lia. }
    pose proof (Pos2Z.is_pos (digits2_pos p)). lia.
  - destruct (f + 4503599627370496) as [|p|p] eqn:Ef; try reflexivity.
    cbn [valid_binary]. unfold bounded, canonical_mantissa, SpecFloat.fexp, emin, p64, e64.
    assert (Hd : Zpos (digits2_pos p) = 53).
    { rewrite Zpos_digits2_pos. apply Zdigits_unique. rewrite Z.abs_eq by lia.
      change (Zpower radix2 (53 - 1)) with 4503599627370496.
      change (Zpower radix2 53) with 9007199254740992. lia. }
    apply andb_true_intro. split; [apply Zeq_bool_true|apply Zle_bool_true]; lia.
Qed.

Lemma spec_widen_sound v w : valid64 v -> spec_widen v w = true -> decode80 w = widen v.
Proof.
  intros Hv H. destruct w as [se m]. destruct v as [s|s| |s mv ev]; cbn [spec_widen widen fst snd] in *.
  - apply andb_prop in H. destruct H as [H1 H2]. apply Z.eqb_eq in H1, H2. subst se m.
    destruct s; reflexivity.
  - apply andb_prop in H. destruct H as [H1 H2]. apply Z.eqb_eq in H1, H2. subst se m.
    destruct s; reflexivity.
  - unfold is_nan_raw in H. cbn [fst snd] in H. apply andb_prop in H. destruct H as [H1 H2].
    unfold decode80. rewrite H1. apply negb_true_iff in H2. now rewrite H2.
  - destruct (decode80 (se, m)) as [s'|s'| |s' m' e']; try discriminate.
    split_andb H. apply eqb_prop in H. subst s'.
    apply Z.leb_le in H3. apply Z.ltb_lt in H2. apply Z.leb_le in H1. apply Z.eqb_eq in H0.
    change (2 ^ 63) with 9223372036854775808 in H3. change (2 ^ 64) with 18446744073709551616 in H2.
    unfold valid64 in Hv. cbn [valid_binary] in Hv.
    destruct (bounded64_facts mv ev Hv) as (Hd & He & Hd1).
    set (t := SpecFloat.fexp p80 e80 (Z.pos (digits2_pos mv) + ev)).
    assert (Ht : t = Z.pos (digits2_pos mv) + ev - 64) by (unfold t, SpecFloat.fexp, emin, p80, e80; lia).
    assert (Hte : t <= ev) by lia.
    pose proof (shl_align_correct' mv ev t Hte) as Hs.
    destruct (shl_align mv ev t) as [m'' e''] eqn:Hsa. destruct Hs as [HF He'']. subst e''.
    (* the exponent of the observed raw is [t]: its significand has exactly 64 digits *)
    rewrite shiftl_pow in H0 by lia.
    assert (Hdig : Zdigits radix2 (Zpos m') = 64).
    { apply Zdigits_unique. rewrite Z.abs_eq by lia.
      change (Zpower radix2 (64 - 1)) with 9223372036854775808.
      change (Zpower radix2 64) with 18446744073709551616. lia. }
    assert (Hdig' : Zdigits radix2 (Zpos mv * 2 ^ (ev - e')) = Zdigits radix2 (Zpos mv) + (ev - e')).
    { change 2 with (radix_val radix2). apply Zdigits_mult_Zpower; [discriminate|lia]. }
    rewrite <- H0, Hdig, <- Zpos_digits2_pos in Hdig'.
    assert (Ee : e' = t) by lia. subst e'.
    (* both significands are [mv * 2^(ev - t)] *)
    rewrite (F2R_change_exp radix2 t (Zpos mv) ev Hte) in HF.
    apply eq_F2R in HF. change (Z.pow radix2 (ev - t)) with (2 ^ (ev - t)) in HF. rewrite <- H0 in HF.
    injection HF as HF. now subst m''.
Qed.
