(** C18 — the arithmetic of the model is correctly rounded (via Flocq's [Bplus_correct] …). *)
From Coq Require Import ZArith Reals Bool Floats.SpecFloat Lia Lra.
From Flocq Require Import Core.Zaux Core.Raux Core.Defs Core.Digits Core.Float_prop Core.Generic_fmt Core.FLT
  Core.Round_NE IEEE754.BinarySingleNaN.
From RlibV Require Import C18.Model C18.Spec C18.Transport C18.ProofsConv.
Open Scope Z_scope.

Lemma as_B80 x : valid80 x -> exists b : bf80, B2SF b = x.
Proof. intros H. exists (SF2B x H). apply B2SF_SF2B. Qed.
Lemma as_B64 x : valid64 x -> exists b : bf64, B2SF b = x.
Proof. intros H. exists (SF2B x H). apply B2SF_SF2B. Qed.

Ltac to_B x b :=
  let H := fresh "H" in
  match goal with Hv : valid80 x |- _ => destruct (as_B80 x Hv) as [b H]; subst x end.

Lemma fexp80_eq : fexp p80 e80 = FLT_exp (3 - e80 - p80) p80.
Proof. reflexivity. Qed.

(** ** general statements: any two extended-format data, result not overflowing *)

Lemma add80_correct x y : valid80 x -> valid80 y -> finite x -> finite y ->
  (Rabs (rnd80 (val x + val y)) < bpow radix2 e80)%R ->
  val (add80 x y) = rnd80 (val x + val y) /\ finite (add80 x y) /\ valid80 (add80 x y)
  /\ sign_SF (add80 x y) = sum_sign (val x + val y) (sign_SF x) (sign_SF y).
Proof.
  intros Hx Hy Fx Fy Hlt. to_B x bx. to_B y by_.
  unfold finite, val, add80, valid80 in *.
  rewrite !is_finite_SF_B2SF in *. rewrite !SF2R_B2SF in *. rewrite !sign_SF_B2SF.
  rewrite (SFadd_Bplus p80 e80 Hp80 He80).
  pose proof (Bplus_correct p80 e80 Hp80 He80 mode_NE bx by_ Fx Fy) as H.
  rewrite fexp80_eq in H. change (round_mode mode_NE) with ZnearestE in H.
  unfold rnd80 in Hlt. rewrite (Rlt_bool_true _ _ Hlt) in H. destruct H as (H1 & H2 & H3).
  rewrite SF2R_B2SF, is_finite_SF_B2SF, sign_SF_B2SF. repeat split; try assumption.
  apply valid_binary_B2SF.
Qed.

Lemma sub80_correct x y : valid80 x -> valid80 y -> finite x -> finite y ->
  (Rabs (rnd80 (val x - val y)) < bpow radix2 e80)%R ->
  val (sub80 x y) = rnd80 (val x - val y) /\ finite (sub80 x y) /\ valid80 (sub80 x y)
  /\ sign_SF (sub80 x y) = sum_sign (val x - val y) (sign_SF x) (negb (sign_SF y)).
Proof.
  intros Hx Hy Fx Fy Hlt. to_B x bx. to_B y by_.
  unfold finite, val, sub80, valid80 in *.
  rewrite !is_finite_SF_B2SF in *. rewrite !SF2R_B2SF in *. rewrite !sign_SF_B2SF.
  rewrite (SFsub_Bminus p80 e80 Hp80 He80).
  pose proof (Bminus_correct p80 e80 Hp80 He80 mode_NE bx by_ Fx Fy) as H.
  rewrite fexp80_eq in H. change (round_mode mode_NE) with ZnearestE in H.
  unfold rnd80 in Hlt. rewrite (Rlt_bool_true _ _ Hlt) in H. destruct H as (H1 & H2 & H3).
  rewrite SF2R_B2SF, is_finite_SF_B2SF, sign_SF_B2SF. repeat split; try assumption.
  apply valid_binary_B2SF.
Qed.

Lemma mul80_correct x y : valid80 x -> valid80 y -> finite x -> finite y ->
  (Rabs (rnd80 (val x * val y)) < bpow radix2 e80)%R ->
  val (mul80 x y) = rnd80 (val x * val y) /\ finite (mul80 x y) /\ valid80 (mul80 x y)
  /\ sign_SF (mul80 x y) = xorb (sign_SF x) (sign_SF y).
Proof.
  intros Hx Hy Fx Fy Hlt. to_B x bx. to_B y by_.
  unfold finite, val, mul80, valid80 in *.
  rewrite !is_finite_SF_B2SF in *. rewrite !SF2R_B2SF in *. rewrite !sign_SF_B2SF.
  rewrite (SFmul_Bmult p80 e80 Hp80 He80).
  pose proof (Bmult_correct p80 e80 Hp80 He80 mode_NE bx by_) as H.
  rewrite fexp80_eq in H. change (round_mode mode_NE) with ZnearestE in H.
  unfold rnd80 in Hlt. rewrite (Rlt_bool_true _ _ Hlt) in H. destruct H as (H1 & H2 & H3).
  rewrite SF2R_B2SF, is_finite_SF_B2SF, sign_SF_B2SF. rewrite Fx, Fy in H2.
  repeat split; try assumption.
  - apply valid_binary_B2SF.
  - apply H3. destruct (Bmult mode_NE bx by_); try reflexivity; discriminate.
Qed.

Lemma div80_correct x y : valid80 x -> valid80 y -> finite x -> finite y ->
  val y <> 0%R ->
  (Rabs (rnd80 (val x / val y)) < bpow radix2 e80)%R ->
  val (div80 x y) = rnd80 (val x / val y) /\ finite (div80 x y) /\ valid80 (div80 x y)
  /\ sign_SF (div80 x y) = xorb (sign_SF x) (sign_SF y).
Proof.
  intros Hx Hy Fx Fy Hy0 Hlt. to_B x bx. to_B y by_.
  unfold finite, val, div80, valid80 in *.
  rewrite !is_finite_SF_B2SF in *. rewrite !SF2R_B2SF in *. rewrite !sign_SF_B2SF.
  rewrite (SFdiv_Bdiv p80 e80 Hp80 He80).
  pose proof (Bdiv_correct p80 e80 Hp80 He80 mode_NE bx by_ Hy0) as H.
  rewrite fexp80_eq in H. change (round_mode mode_NE) with ZnearestE in H.
  unfold rnd80 in Hlt. rewrite (Rlt_bool_true _ _ Hlt) in H. destruct H as (H1 & H2 & H3).
  rewrite SF2R_B2SF, is_finite_SF_B2SF, sign_SF_B2SF. rewrite Fx in H2.
  repeat split; try assumption.
  - apply valid_binary_B2SF.
  - apply H3. destruct (Bdiv mode_NE bx by_); try reflexivity; discriminate.
Qed.

(** ** operands that are images of binary64 values: no overflow can occur *)

Lemma rnd80_bound k v : -16445 <= k < 16384 -> (Rabs v <= bpow radix2 k)%R ->
  (Rabs (rnd80 v) < bpow radix2 e80)%R.
Proof.
  intros Hk Hv. apply Rle_lt_trans with (bpow radix2 k).
  - unfold rnd80. apply abs_round_le_generic; [apply FLT_exp_valid; reflexivity|apply valid_rnd_N| |exact Hv].
    apply generic_format_bpow. unfold FLT_exp, p80, e80. lia.
  - apply bpow_lt. unfold e80. lia.
Qed.

Lemma val64_lt a : valid64 a -> (Rabs (val a) < bpow radix2 1024)%R.
Proof.
  intros Ha. destruct (as_B64 a Ha) as [b Hb]. subst a. unfold val. rewrite SF2R_B2SF.
  apply (abs_B2R_lt_emax p64 e64).
Qed.

Lemma val64_ge a : valid64 a -> val a <> 0%R -> (bpow radix2 (-1074) <= Rabs (val a))%R.
Proof.
  intros Ha H0. destruct (as_B64 a Ha) as [b Hb]. subst a. unfold val in *. rewrite SF2R_B2SF in *.
  apply (abs_B2R_ge_emin p64 e64 b).
  destruct b; try reflexivity; cbn [B2R] in H0; congruence.
Qed.

Lemma widen_finite_SF a : finite a -> finite (widen a).
Proof. unfold finite. now rewrite (proj1 (widen_class a)). Qed.
Lemma widen_sign a : sign_SF (widen a) = sign_SF a.
Proof. apply (widen_class a). Qed.

Lemma add_f64 a b : valid64 a -> valid64 b -> finite a -> finite b ->
  let r := add80 (widen a) (widen b) in
  val r = rnd80 (val a + val b) /\ finite r /\ valid80 r
  /\ sign_SF r = sum_sign (val a + val b) (sign_SF a) (sign_SF b).
Proof.
  intros Ha Hb Fa Fb r. unfold r.
  rewrite <- (widen_val a Ha), <- (widen_val b Hb), <- (widen_sign a), <- (widen_sign b).
  apply add80_correct; auto using widen_valid, widen_finite_SF.
  rewrite (widen_val a Ha), (widen_val b Hb).
  apply (rnd80_bound 1025); [lia|].
  pose proof (val64_lt a Ha). pose proof (val64_lt b Hb).
  eapply Rle_trans; [apply Rabs_triang|].
  change 1025 with (1024 + 1). rewrite bpow_plus_1. change (IZR radix2) with 2%R. lra.
Qed.

Lemma sub_f64 a b : valid64 a -> valid64 b -> finite a -> finite b ->
  let r := sub80 (widen a) (widen b) in
  val r = rnd80 (val a - val b) /\ finite r /\ valid80 r
  /\ sign_SF r = sum_sign (val a - val b) (sign_SF a) (negb (sign_SF b)).
Proof.
  intros Ha Hb Fa Fb r. unfold r.
  rewrite <- (widen_val a Ha), <- (widen_val b Hb), <- (widen_sign a), <- (widen_sign b).
  apply sub80_correct; auto using widen_valid, widen_finite_SF.
  rewrite (widen_val a Ha), (widen_val b Hb).
  apply (rnd80_bound 1025); [lia|].
  pose proof (val64_lt a Ha). pose proof (val64_lt b Hb).
  unfold Rminus. eapply Rle_trans; [apply Rabs_triang|]. rewrite Rabs_Ropp.
  change 1025 with (1024 + 1). rewrite bpow_plus_1. change (IZR radix2) with 2%R. lra.
Qed.

Lemma mul_f64 a b : valid64 a -> valid64 b -> finite a -> finite b ->
  let r := mul80 (widen a) (widen b) in
  val r = rnd80 (val a * val b) /\ finite r /\ valid80 r
  /\ sign_SF r = xorb (sign_SF a) (sign_SF b).
Proof.
  intros Ha Hb Fa Fb r. unfold r.
  rewrite <- (widen_val a Ha), <- (widen_val b Hb), <- (widen_sign a), <- (widen_sign b).
  apply mul80_correct; auto using widen_valid, widen_finite_SF.
  rewrite (widen_val a Ha), (widen_val b Hb).
  apply (rnd80_bound 2048); [lia|].
  pose proof (val64_lt a Ha). pose proof (val64_lt b Hb).
  rewrite Rabs_mult. change 2048 with (1024 + 1024). rewrite bpow_plus.
  apply Rmult_le_compat; try apply Rabs_pos; lra.
Qed.

Lemma div_f64 a b : valid64 a -> valid64 b -> finite a -> finite b -> val b <> 0%R ->
  let r := div80 (widen a) (widen b) in
  val r = rnd80 (val a / val b) /\ finite r /\ valid80 r
  /\ sign_SF r = xorb (sign_SF a) (sign_SF b).
Proof.
  intros Ha Hb Fa Fb Hb0 r. unfold r.
  rewrite <- (widen_val a Ha), <- (widen_val b Hb), <- (widen_sign a), <- (widen_sign b).
  apply div80_correct; auto using widen_valid, widen_finite_SF.
  { now rewrite (widen_val b Hb). }
  rewrite (widen_val a Ha), (widen_val b Hb).
  apply (rnd80_bound 2098); [lia|].
  pose proof (val64_lt a Ha). pose proof (val64_ge b Hb Hb0) as Hge.
  unfold Rdiv. rewrite Rabs_mult, Rabs_inv.
  change 2098 with (1024 + - (-1074)). rewrite bpow_plus, (bpow_opp radix2 (-1074)).
  pose proof (bpow_gt_0 radix2 (-1074)).
  apply Rmult_le_compat; try apply Rabs_pos.
  - apply Rlt_le, Rinv_0_lt_compat. lra.
  - lra.
  - apply Rinv_le; lra.
Qed.

(** ** special values (IEEE table), for every operand — by computation on the model *)
Lemma add80_special :
  (forall y, add80 S754_nan y = S754_nan) /\ (forall x, add80 x S754_nan = S754_nan)
  /\ (forall s, add80 (S754_infinity s) (S754_infinity s) = S754_infinity s)
  /\ (forall s, add80 (S754_infinity s) (S754_infinity (negb s)) = S754_nan)
  /\ (forall s y, finite y -> add80 (S754_infinity s) y = S754_infinity s /\ add80 y (S754_infinity s) = S754_infinity s)
  /\ (forall s1 s2, add80 (S754_zero s1) (S754_zero s2) = S754_zero (andb s1 s2))
  /\ (forall s y, is_finite_strict_SF y = true -> add80 (S754_zero s) y = y /\ add80 y (S754_zero s) = y).
Proof.
  repeat split; intros; try (destruct x as [[]|[]| |[]]; reflexivity);
    try (destruct s; reflexivity); try (destruct s1, s2; reflexivity);
    destruct y as [[]|[]| |[]]; try discriminate; reflexivity.
Qed.

Lemma sub80_special :
  (forall y, sub80 S754_nan y = S754_nan) /\ (forall x, sub80 x S754_nan = S754_nan)
  /\ (forall s, sub80 (S754_infinity s) (S754_infinity (negb s)) = S754_infinity s)
  /\ (forall s, sub80 (S754_infinity s) (S754_infinity s) = S754_nan)
  /\ (forall s y, finite y -> sub80 (S754_infinity s) y = S754_infinity s /\ sub80 y (S754_infinity s) = S754_infinity (negb s))
  /\ (forall s1 s2, sub80 (S754_zero s1) (S754_zero s2) = S754_zero (andb s1 (negb s2)))
  /\ (forall s y, is_finite_strict_SF y = true -> sub80 (S754_zero s) y = SFopp y /\ sub80 y (S754_zero s) = y).
Proof.
  repeat split; intros; try (destruct x as [[]|[]| |[]]; reflexivity);
    try (destruct s; reflexivity); try (destruct s1, s2; reflexivity);
    destruct y as [[]|[]| |[]]; try discriminate; reflexivity.
Qed.

Lemma mul80_special :
  (forall y, mul80 S754_nan y = S754_nan) /\ (forall x, mul80 x S754_nan = S754_nan)
  /\ (forall s1 s2, mul80 (S754_infinity s1) (S754_infinity s2) = S754_infinity (xorb s1 s2))
  /\ (forall s1 s2, mul80 (S754_infinity s1) (S754_zero s2) = S754_nan /\ mul80 (S754_zero s2) (S754_infinity s1) = S754_nan)
  /\ (forall s y, is_finite_strict_SF y = true ->
        mul80 (S754_infinity s) y = S754_infinity (xorb s (sign_SF y)) /\ mul80 y (S754_infinity s) = S754_infinity (xorb (sign_SF y) s))
  /\ (forall s y, finite y ->
        mul80 (S754_zero s) y = S754_zero (xorb s (sign_SF y)) /\ mul80 y (S754_zero s) = S754_zero (xorb (sign_SF y) s)).
Proof.
  repeat split; intros; try (destruct x as [[]|[]| |[]]; reflexivity);
    try (destruct y as [[]|[]| |[]]; try discriminate; reflexivity).
Qed.

Lemma div80_special :
  (forall y, div80 S754_nan y = S754_nan) /\ (forall x, div80 x S754_nan = S754_nan)
  /\ (forall s1 s2, div80 (S754_infinity s1) (S754_infinity s2) = S754_nan)
  /\ (forall s1 s2, div80 (S754_zero s1) (S754_zero s2) = S754_nan)
  /\ (forall s y, finite y -> div80 (S754_infinity s) y = S754_infinity (xorb s (sign_SF y))
                             /\ div80 y (S754_infinity s) = S754_zero (xorb (sign_SF y) s))
  /\ (forall s y, is_finite_strict_SF y = true ->
        div80 y (S754_zero s) = S754_infinity (xorb (sign_SF y) s)            (* division by zero *)
        /\ div80 (S754_zero s) y = S754_zero (xorb s (sign_SF y))).
Proof.
  repeat split; intros; try (destruct x as [[]|[]| |[]]; reflexivity);
    try (destruct y as [[]|[]| |[]]; try discriminate; reflexivity).
Qed.

Lemma neg80_spec x :
  val (neg80 x) = (- val x)%R /\ neg80 (neg80 x) = x
  /\ (x <> S754_nan -> sign_SF (neg80 x) = negb (sign_SF x))
  /\ is_finite_SF (neg80 x) = is_finite_SF x /\ is_nan_SF (neg80 x) = is_nan_SF x
  /\ (valid80 x -> valid80 (neg80 x)).
Proof.
  unfold val, neg80, valid80. destruct x as [s|s| |s m e]; cbn [SFopp SF2R sign_SF is_finite_SF is_nan_SF valid_binary];
    repeat split; try (rewrite ?negb_involutive; reflexivity); try (intros; auto; fail);
    try (symmetry; apply Ropp_0); try congruence.
  rewrite cond_Zopp_negb. apply F2R_Zopp.
Qed.
