(** C18 — soundness of [rne_ok] (integer test) against Flocq's rounding, and of the special-value tables of
    [spec_check]: what the batch lemma [forallb spec_check cases = true] means for every sampled case. *)
From Coq Require Import ZArith Reals Bool Floats.SpecFloat Lia Lra.
From Flocq Require Import Core.Zaux Core.Raux Core.Defs Core.Digits Core.Float_prop Core.Generic_fmt Core.FLT
  Core.Ulp Core.Round_NE IEEE754.BinarySingleNaN.
From RlibV Require Import C18.Model C18.Corr C18.Spec C18.ProofsRne.
Open Scope Z_scope.

Lemma shiftl_pow a k : 0 <= k -> Z.shiftl a k = a * 2 ^ k.
Proof. intros. now apply Z.shiftl_mul_pow2. Qed.

Lemma bpow_IZR k : 0 <= k -> bpow radix2 k = IZR (2 ^ k).
Proof. intros H. change (2 ^ k) with (Zpower radix2 k). now rewrite (IZR_Zpower radix2 k H). Qed.

Lemma cmp_scaled_real num den k c : 0 < den ->
  cmp_scaled num den k c = Rcompare (IZR num / IZR den * bpow radix2 k) (IZR c).
Proof.
  intros Hd. unfold cmp_scaled.
  assert (Hdr : (0 < IZR den)%R) by now apply IZR_lt.
  destruct (Z.leb_spec 0 k) as [Hk|Hk].
  - rewrite shiftl_pow by exact Hk.
    rewrite <- (Rcompare_mult_r (IZR den) _ _ Hdr).
    rewrite <- Rcompare_IZR, !mult_IZR, bpow_IZR by exact Hk.
    f_equal. field. lra.
  - rewrite shiftl_pow by lia.
    assert (Hp : (0 < bpow radix2 (- k))%R) by apply bpow_gt_0.
    rewrite <- (Rcompare_mult_r (IZR den * bpow radix2 (- k)) _ _ (Rmult_lt_0_compat _ _ Hdr Hp)).
    rewrite <- Rcompare_IZR, !mult_IZR. rewrite <- (bpow_IZR (- k)) by lia.
    f_equal; [|ring].
    replace (IZR num / IZR den * bpow radix2 k * (IZR den * bpow radix2 (- k)))%R
      with (IZR num * (bpow radix2 k * bpow radix2 (- k)))%R by (field; lra).
    rewrite <- bpow_plus. replace (k + - k) with 0 by ring. cbn [bpow]. ring.
Qed.

Section Gen.
Variables prec emax : Z.
Hypothesis Hprec : 1 < prec.
Hypothesis Hmax : prec < emax.
Let emin := 3 - emax - prec.
Notation rndf := (round radix2 (FLT_exp emin prec) ZnearestE).

Lemma canon_of_flags mr er :
  0 <= mr ->
  ((2 ^ (prec - 1) <=? mr) && (mr <? 2 ^ prec) && (emin <=? er) && (er <=? emax - prec))
  || ((mr <? 2 ^ (prec - 1)) && (er =? emin)) = true ->
  canon prec emin mr er /\ er <= emax - prec.
Proof.
  intros H0 H. unfold canon. apply orb_prop in H. destruct H as [H|H].
  - repeat (apply andb_prop in H; destruct H as [H ?]).
    apply Z.leb_le in H. apply Z.ltb_lt in H3. apply Z.leb_le in H2. apply Z.leb_le in H1. lia.
  - apply andb_prop in H. destruct H as [H1 H2]. apply Z.ltb_lt in H1. apply Z.eqb_eq in H2.
    unfold emin in *. lia.
Qed.

(** the real reading of the two neighbour tests *)
Lemma rne_ok_real num den E mr er : 0 < num -> 0 < den -> 0 <= mr ->
  let v := (IZR num / IZR den * bpow radix2 E)%R in
  let k := E - er + 2 in
  canon prec emin mr er ->
  match cmp_scaled num den k (4 * mr + 2) with Lt => true | Eq => Z.even mr | Gt => false end = true ->
  (if mr =? 0 then true
   else match cmp_scaled num den k (if (mr =? 2 ^ (prec - 1)) && (emin <? er) then 4 * mr - 1 else 4 * mr - 2)
        with Gt => true | Eq => Z.even mr | Lt => false end) = true ->
  rndf v = V mr er.
Proof.
  intros Hn Hd Hm v k Hc Hhi Hlo.
  assert (Hv : (0 < v)%R).
  { unfold v. apply Rmult_lt_0_compat; [|apply bpow_gt_0].
    apply Rdiv_lt_0_compat; now apply IZR_lt. }
  set (b := bpow radix2 er). assert (Hb : (0 < b)%R) by apply bpow_gt_0.
  set (t := (v / b)%R).
  assert (Hvt : v = (t * b)%R) by (unfold t; field; lra).
  assert (HA : (IZR num / IZR den * bpow radix2 k)%R = (4 * t)%R).
  { unfold k, t, v, b. replace (E - er + 2) with (E + (- er + 2)) by ring.
    rewrite bpow_plus, bpow_plus, bpow_opp. change (bpow radix2 2) with 4%R. field.
    repeat split; first [apply Rgt_not_eq, bpow_gt_0 | apply Rgt_not_eq; apply IZR_lt; exact Hd]. }
  rewrite !cmp_scaled_real in * by exact Hd. rewrite HA in *.
  apply (rne_real prec emin Hprec v mr er Hc Hv).
  - (* upper neighbour *)
    unfold V. fold b. rewrite plus_IZR. rewrite plus_IZR, mult_IZR in Hhi.
    destruct (Rcompare_spec (4 * t) (4 * IZR mr + 2)) as [Hlt|Heq|Hgt]; try discriminate.
    + left. rewrite Hvt. assert (0 < (4 * IZR mr + 2 - 4 * t) * b)%R by (apply Rmult_lt_0_compat; lra). lra.
    + right. split; [|exact Hhi]. rewrite Hvt.
      replace t with ((4 * IZR mr + 2) / 4)%R by lra. field.
  - (* lower neighbour *)
    destruct (Z.eqb_spec mr 0) as [->|Hm0]; [now left|right].
    unfold P, bnd. fold emin.
    destruct ((mr =? 2 ^ (prec - 1)) && (emin <? er)) eqn:Hbnd.
    + (* binade boundary: the predecessor is half a unit below *)
      apply andb_prop in Hbnd. destruct Hbnd as [Hb1 _]. apply Z.eqb_eq in Hb1.
      assert (HP2 : IZR (2 ^ prec - 1) = (2 * IZR mr - 1)%R).
      { rewrite minus_IZR. f_equal. rewrite Hb1, <- mult_IZR. f_equal.
        rewrite <- Z.pow_succ_r by lia. f_equal. lia. }
      unfold V. rewrite HP2. replace er with (er - 1 + 1) at 1 3 by ring. rewrite bpow_plus_1.
      change (IZR radix2) with 2%R.
      assert (Hb' : b = (2 * bpow radix2 (er - 1))%R).
      { unfold b. replace er with (er - 1 + 1) at 1 by ring. now rewrite bpow_plus_1. }
      set (b' := bpow radix2 (er - 1)) in *. assert (0 < b')%R by apply bpow_gt_0.
      rewrite minus_IZR, mult_IZR in Hlo.
      destruct (Rcompare_spec (4 * t) (4 * IZR mr - 1)) as [Hlt|Heq|Hgt]; try discriminate.
      * right. split; [|exact Hlo]. rewrite Hvt, Hb'.
        replace t with ((4 * IZR mr - 1) / 4)%R by lra. field.
      * left. rewrite Hvt, Hb'.
        assert (0 < (4 * t - (4 * IZR mr - 1)) * b')%R by (apply Rmult_lt_0_compat; lra). lra.
    + unfold V. fold b. rewrite minus_IZR. rewrite minus_IZR, mult_IZR in Hlo.
      destruct (Rcompare_spec (4 * t) (4 * IZR mr - 2)) as [Hlt|Heq|Hgt]; try discriminate.
      * right. split; [|exact Hlo]. rewrite Hvt.
        replace t with ((4 * IZR mr - 2) / 4)%R by lra. field.
      * left. rewrite Hvt.
        assert (0 < (4 * t - (4 * IZR mr - 2)) * b)%R by (apply Rmult_lt_0_compat; lra). lra.
Qed.


(** the three outcomes of the test *)
Lemma rne_ok_finite num den E s m e : 0 < num -> 0 < den ->
  rne_ok prec emax num den E (S754_finite s m e) = true ->
  rndf (IZR num / IZR den * bpow radix2 E) = F2R (Float radix2 (Zpos m) e)
  /\ bounded prec emax m e = true.
Proof.
  intros Hn Hd H. unfold rne_ok in H. cbv beta iota zeta in H. fold emin in H.
  apply andb_prop in H. destruct H as [H Hlo]. apply andb_prop in H. destruct H as [Hcan Hhi].
  destruct (canon_of_flags (Zpos m) e ltac:(lia) Hcan) as [Hc He].
  split.
  - rewrite (rne_ok_real num den E (Zpos m) e Hn Hd ltac:(lia) Hc Hhi Hlo). reflexivity.
  - unfold bounded. apply andb_true_intro. split; [|now apply Zle_bool_true].
    unfold canonical_mantissa. apply Zeq_bool_true.
    pose proof (canon_cexp prec emin Hprec (Zpos m) e Hc eq_refl) as Hce.
    unfold cexp in Hce. rewrite V_F2R, mag_F2R_Zdigits in Hce by discriminate.
    rewrite <- Zpos_digits2_pos in Hce. exact Hce.
Qed.

Lemma rne_ok_zero num den E s : 0 < num -> 0 < den ->
  rne_ok prec emax num den E (S754_zero s) = true ->
  rndf (IZR num / IZR den * bpow radix2 E) = 0%R.
Proof.
  intros Hn Hd H. unfold rne_ok in H. cbv beta iota zeta in H. fold emin in H.
  apply andb_prop in H. destruct H as [H Hlo]. apply andb_prop in H. destruct H as [Hcan Hhi].
  destruct (canon_of_flags 0 emin ltac:(lia) Hcan) as [Hc He].
  rewrite (rne_ok_real num den E 0 emin Hn Hd ltac:(lia) Hc Hhi Hlo). unfold V. ring.
Qed.

Lemma emin_le : emin <= emax - prec + 1.
Proof. unfold emin. lia. Qed.

Lemma rne_ok_inf num den E s : 0 < num -> 0 < den ->
  rne_ok prec emax num den E (S754_infinity s) = true ->
  (bpow radix2 emax <= rndf (IZR num / IZR den * bpow radix2 E))%R.
Proof.
  intros Hn Hd H. unfold rne_ok in H. cbv beta iota zeta in H.
  rewrite cmp_scaled_real in H by exact Hd.
  set (v := (IZR num / IZR den * bpow radix2 E)%R) in *.
  (* the overflow threshold: midpoint between the largest finite number and 2^emax *)
  set (T := (IZR (2 ^ (prec + 1) - 1) * bpow radix2 (emax - prec - 1))%R).
  assert (HT : (T <= v)%R).
  { replace (E - (emax - prec) + 1) with (E + - (emax - prec - 1)) in H by ring.
    rewrite bpow_plus, bpow_opp, <- Rmult_assoc in H. fold v in H.
    pose proof (bpow_gt_0 radix2 (emax - prec - 1)) as Hb.
    destruct (Rcompare_spec (v * / bpow radix2 (emax - prec - 1)) (IZR (2 ^ (prec + 1) - 1))) as [Hlt|Heq|Hgt];
      try discriminate; unfold T.
    - rewrite <- Heq. right. field. lra.
    - left. apply Rmult_lt_reg_r with (/ bpow radix2 (emax - prec - 1))%R.
      + now apply Rinv_0_lt_compat.
      + rewrite Rmult_assoc, Rinv_r by lra. lra. }
  assert (Hpow : 0 < 2 ^ (prec - 1)) by (apply Z.pow_pos_nonneg; lia).
  assert (Hc : canon prec emin (2 ^ (prec - 1)) (emax - prec + 1)).
  { left. pose proof (pow_lt prec Hprec). pose proof emin_le. lia. }
  assert (HV : V (2 ^ (prec - 1)) (emax - prec + 1) = bpow radix2 emax).
  { unfold V. rewrite <- (bpow_IZR (prec - 1)) by lia. rewrite <- bpow_plus. f_equal. ring. }
  assert (HrT : rndf T = bpow radix2 emax).
  { rewrite <- HV. apply (rne_real prec emin Hprec T _ _ Hc).
    - unfold T. apply Rmult_lt_0_compat; [|apply bpow_gt_0]. apply IZR_lt.
      assert (2 ^ 1 <= 2 ^ (prec + 1)) by (apply Z.pow_le_mono_r; lia). lia.
    - left.
      assert (HTlt : (T < bpow radix2 emax)%R).
      { unfold T. replace emax with (prec + 1 + (emax - prec - 1)) at 2 by ring. rewrite bpow_plus.
        apply Rmult_lt_compat_r; [apply bpow_gt_0|].
        rewrite (bpow_IZR (prec + 1)) by lia. apply IZR_lt. lia. }
      assert (HVlt : (V (2 ^ (prec - 1)) (emax - prec + 1) < V (2 ^ (prec - 1) + 1) (emax - prec + 1))%R).
      { unfold V. apply Rmult_lt_compat_r; [apply bpow_gt_0|]. apply IZR_lt. lia. }
      rewrite HV in *. lra.
    - right. right. split.
      + unfold P, bnd. fold emin.
        assert (Hb : (2 ^ (prec - 1) =? 2 ^ (prec - 1)) && (emin <? emax - prec + 1) = true).
        { rewrite Z.eqb_refl. cbn [andb]. apply Z.ltb_lt. unfold emin. lia. }
        rewrite Hb, HV. unfold V, T.
        set (c := bpow radix2 (emax - prec - 1)). set (q := bpow radix2 prec).
        assert (E1 : bpow radix2 emax = (2 * q * c)%R).
        { unfold q, c. replace emax with (prec + 1 + (emax - prec - 1)) at 1 by ring.
          rewrite bpow_plus, bpow_plus_1. change (IZR radix2) with 2%R. ring. }
        assert (E2 : bpow radix2 (emax - prec + 1 - 1) = (2 * c)%R).
        { unfold c. replace (emax - prec + 1 - 1) with (emax - prec - 1 + 1) by ring.
          rewrite bpow_plus_1. reflexivity. }
        assert (E3 : IZR (2 ^ prec - 1) = (q - 1)%R).
        { unfold q. rewrite minus_IZR, <- bpow_IZR by lia. reflexivity. }
        assert (E4 : IZR (2 ^ (prec + 1) - 1) = (2 * q - 1)%R).
        { unfold q. rewrite minus_IZR, <- bpow_IZR by lia. rewrite bpow_plus_1. reflexivity. }
        rewrite E1, E2, E3, E4. ring.
      + replace (prec - 1) with (Z.succ (prec - 2)) by lia. rewrite Z.pow_succ_r by lia.
        rewrite Z.even_mul. reflexivity. }
  rewrite <- HrT. apply round_le; [apply FLT_exp_valid; unfold FLX.Prec_gt_0; lia|apply valid_rnd_N|exact HT].
Qed.

End Gen.
