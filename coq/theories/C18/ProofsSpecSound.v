(** C18 — what [spec_check] accepts is exactly the IEEE result: every arithmetic / rounding clause of the
    specification checker, when it returns [true], forces the observed value to be the correctly rounded one
    (hence equal to the model's).  Together with a batch lemma [forallb spec_check cases = true] this says, for
    every sampled case, that the hardware returned the nearest-even rounding of the exact result. *)
From Coq Require Import ZArith Reals Bool Floats.SpecFloat Lia Lra.
From Flocq Require Import Core.Zaux Core.Raux Core.Defs Core.Digits Core.Float_prop Core.Generic_fmt Core.FLT
  Core.Ulp Core.Round_NE IEEE754.BinarySingleNaN.
From RlibV Require Import C18.Model C18.Corr C18.Spec C18.Transport C18.ProofsConv C18.ProofsArith
  C18.ProofsRne C18.ProofsRneZ.
Open Scope Z_scope.

Section Unique.
Variables prec emax : Z.
Hypothesis Hprec : 1 < prec.
Hypothesis Hmax : prec < emax.
Instance Hp : FLX.Prec_gt_0 prec. Proof. unfold FLX.Prec_gt_0. lia. Qed.
Instance He : Prec_lt_emax prec emax. Proof. exact Hmax. Qed.
Notation bf := (binary_float prec emax).
Notation fexp := (FLT_exp (3 - emax - prec) prec).
Notation rndf := (round radix2 fexp ZnearestE).
Instance Hve : Valid_exp fexp := FLT_exp_valid (3 - emax - prec) prec.
Instance Hne : Exists_NE radix2 fexp := exists_NE_FLT radix2 (3 - emax - prec) prec (or_intror Hprec).

(** [z] is the IEEE-754 result for the exact non-zero value [u] *)
Definition ieee_result (u : R) (z : bf) : Prop :=
  if Rlt_bool (Rabs (rndf u)) (bpow radix2 emax)
  then B2R z = rndf u /\ is_finite z = true /\ Bsign z = Rlt_bool u 0
  else B2SF z = S754_infinity (Rlt_bool u 0).

Lemma ieee_intro u (z : bf) :
  (if Rlt_bool (Rabs (round radix2 (SpecFloat.fexp prec emax) (round_mode mode_NE) u)) (bpow radix2 emax)
   then B2R z = round radix2 (SpecFloat.fexp prec emax) (round_mode mode_NE) u /\ is_finite z = true
        /\ Bsign z = Rlt_bool u 0
   else B2SF z = S754_infinity (Rlt_bool u 0)) -> ieee_result u z.
Proof. exact (fun H => H). Qed.

Lemma has_sign_eq s r : has_sign s r = true -> sign_of r = Some s.
Proof.
  unfold has_sign. destruct (sign_of r) as [s'|]; [|discriminate].
  intros H. apply eqb_prop in H. now subst.
Qed.

Lemma rnd_sign u : (u < 0)%R -> (rndf u <= 0)%R.
Proof.
  intros H. rewrite <- (round_0 radix2 fexp ZnearestE). apply round_le; try typeclasses eauto. lra.
Qed.
Lemma rnd_sign' u : (0 < u)%R -> (0 <= rndf u)%R.
Proof.
  intros H. rewrite <- (round_0 radix2 fexp ZnearestE). apply round_le; try typeclasses eauto. lra.
Qed.

Lemma rne_ok_unique u z num den E r :
  0 < num -> 0 < den -> Rabs u = (IZR num / IZR den * bpow radix2 E)%R ->
  ieee_result u z -> has_sign (Rlt_bool u 0) r = true -> rne_ok prec emax num den E r = true ->
  r = B2SF z.
Proof.
  intros Hn Hd Hu Hz Hs Hr.
  assert (Hpos : (0 < Rabs u)%R).
  { rewrite Hu. apply Rmult_lt_0_compat; [|apply bpow_gt_0]. apply Rdiv_lt_0_compat; now apply IZR_lt. }
  pose proof (round_NE_abs radix2 fexp u) as Habs. rewrite Hu in Habs.
  apply has_sign_eq in Hs. unfold ieee_result in Hz.
  destruct r as [s|s| |s m e]; cbn [sign_of] in Hs.
  - (* zero *)
    injection Hs as Hs. pose proof (rne_ok_zero prec emax Hprec Hmax num den E s Hn Hd Hr) as H0.
    rewrite Habs in H0. rewrite H0 in Hz. rewrite Rlt_bool_true in Hz by apply bpow_gt_0.
    destruct Hz as (Hz1 & Hz2 & Hz3).
    assert (Hr0 : rndf u = 0%R).
    { destruct (Req_dec (rndf u) 0) as [E0|E0]; [exact E0|]. apply Rabs_no_R0 in E0. lra. }
    assert (z = (B754_zero s : bf)).
    { apply (B2R_Bsign_inj prec emax); try assumption; try reflexivity.
      - now rewrite Hz1, Hr0.
      - now rewrite Hz3, <- Hs. }
    now subst z.
  - (* infinity *)
    injection Hs as Hs. pose proof (rne_ok_inf prec emax Hprec Hmax num den E s Hn Hd Hr) as H0.
    rewrite Habs in H0. rewrite Rlt_bool_false in Hz by exact H0. now rewrite Hz, <- Hs.
  - discriminate.
  - (* finite *)
    injection Hs as Hs.
    destruct (rne_ok_finite prec emax Hprec Hmax num den E s m e Hn Hd Hr) as [H0 Hb].
    rewrite Habs in H0. rewrite H0 in Hz.
    rewrite Rlt_bool_true in Hz by now apply (bounded_lt_emax prec emax).
    destruct Hz as (Hz1 & Hz2 & Hz3).
    assert (Hm : (0 < F2R (Float radix2 (Zpos m) e))%R) by now apply F2R_gt_0.
    assert (z = (B754_finite s m e Hb : bf)).
    { apply (B2R_Bsign_inj prec emax); try assumption; try reflexivity.
      - rewrite Hz1. cbn [B2R]. subst s.
        destruct (Rlt_bool_spec u 0) as [Hneg|Hnn]; cbn [cond_Zopp].
        + change (Z.neg m) with (- Z.pos m). rewrite F2R_Zopp, <- H0.
          rewrite Rabs_left1 by now apply rnd_sign. ring.
        + rewrite <- H0. rewrite Rabs_pos_eq; [reflexivity|].
          apply rnd_sign'. destruct Hnn as [Hnn|Hnn]; [exact Hnn|]. subst u. rewrite Rabs_R0 in Hpos. lra.
      - now rewrite Hz3, <- Hs. }
    now subst z.
Qed.

End Unique.

(** ** the clauses of [spec_check] *)
Lemma is_nan_sf_eq r : is_nan_sf r = true -> r = S754_nan.
Proof. destruct r; try discriminate; reflexivity. Qed.
Lemma is_inf_sf_eq s r : is_inf_sf s r = true -> r = S754_infinity s.
Proof. destruct r as [| s'| |]; try discriminate. cbn. intros H. apply eqb_prop in H. now subst. Qed.
Lemma is_zero_sf_eq s r : is_zero_sf s r = true -> r = S754_zero s.
Proof. destruct r as [s'| | |]; try discriminate. cbn. intros H. apply eqb_prop in H. now subst. Qed.

Lemma Rlt_bool_F2R_cond s m e : Rlt_bool (F2R (Float radix2 (cond_Zopp s (Zpos m)) e)) 0 = s.
Proof.
  destruct s; cbn [cond_Zopp].
  - apply Rlt_bool_true. now apply F2R_lt_0.
  - apply Rlt_bool_false. now apply F2R_ge_0.
Qed.
Lemma Rabs_F2R_cond s m e :
  Rabs (F2R (Float radix2 (cond_Zopp s (Zpos m)) e)) = (IZR (Zpos m) * bpow radix2 e)%R.
Proof. rewrite <- F2R_Zabs, abs_cond_Zopp. reflexivity. Qed.

Lemma lt1_53 : 1 < 53. Proof. reflexivity. Qed.
Lemma lt53_1024 : 53 < 1024. Proof. reflexivity. Qed.
Lemma lt1_64 : 1 < 64. Proof. reflexivity. Qed.
Lemma lt64_16384 : 64 < 16384. Proof. reflexivity. Qed.

(** narrowing clause: the only accepted answer is the model's (= correct rounding, [narrow_correct]) *)
Lemma spec_round_narrow x r : spec_round 53 1024 x r = true -> r = narrow x.
Proof.
  destruct x as [s|s| |s m e]; cbn [spec_round narrow]; intros H.
  - now apply is_zero_sf_eq.
  - now apply is_inf_sf_eq.
  - now apply is_nan_sf_eq.
  - apply andb_prop in H. destruct H as [Hs Hr].
    change (SpecFloat.binary_normalize p64 e64 (cond_Zopp s (Z.pos m)) e s) with (narrow (S754_finite s m e)).
    rewrite narrow_finite_B.
    set (u := F2R (Float radix2 (cond_Zopp s (Zpos m)) e)).
    apply (rne_ok_unique 53 1024 lt1_53 lt53_1024 u _ (Zpos m) 1 e r); try reflexivity.
    + unfold u. rewrite Rabs_F2R_cond. field.
    + apply (ieee_intro p64 e64).
      pose proof (binary_normalize_correct p64 e64 Hp64 He64 mode_NE (cond_Zopp s (Zpos m)) e s) as H.
      cbv zeta in H. fold u in H.
      destruct (Rlt_bool _ _).
      * destruct H as (H1 & H2 & H3). repeat split; try assumption.
        rewrite H3. unfold u. rewrite Rcompare_F2R_cond, Rlt_bool_F2R_cond. now destruct s.
      * exact H.
    + unfold u. now rewrite Rlt_bool_F2R_cond.
    + exact Hr.
Qed.

(** sign of a product / quotient of two finite non-zero numbers *)
Lemma Rlt_bool_mult sx mx ex sy my ey :
  Rlt_bool (F2R (Float radix2 (cond_Zopp sx (Zpos mx)) ex) * F2R (Float radix2 (cond_Zopp sy (Zpos my)) ey)) 0
  = xorb sx sy.
Proof.
  pose proof (F2R_gt_0 radix2 (Float radix2 (Zpos mx) ex) eq_refl) as Hx.
  pose proof (F2R_gt_0 radix2 (Float radix2 (Zpos my) ey) eq_refl) as Hy.
  pose proof (Rmult_lt_0_compat _ _ Hx Hy) as Hxy.
  destruct sx, sy; cbn [cond_Zopp xorb];
    change (Z.neg mx) with (- Z.pos mx); change (Z.neg my) with (- Z.pos my); rewrite ?F2R_Zopp.
  - apply Rlt_bool_false. lra.
  - apply Rlt_bool_true. lra.
  - apply Rlt_bool_true. lra.
  - apply Rlt_bool_false. lra.
Qed.
Lemma Rlt_bool_div sx mx ex sy my ey :
  Rlt_bool (F2R (Float radix2 (cond_Zopp sx (Zpos mx)) ex) / F2R (Float radix2 (cond_Zopp sy (Zpos my)) ey)) 0
  = xorb sx sy.
Proof.
  pose proof (F2R_gt_0 radix2 (Float radix2 (Zpos mx) ex) eq_refl) as Hx.
  pose proof (F2R_gt_0 radix2 (Float radix2 (Zpos my) ey) eq_refl) as Hy.
  pose proof (Rdiv_lt_0_compat _ _ Hx Hy) as Hxy.
  destruct sx, sy; cbn [cond_Zopp xorb];
    change (Z.neg mx) with (- Z.pos mx); change (Z.neg my) with (- Z.pos my); rewrite ?F2R_Zopp.
  - apply Rlt_bool_false. replace (- F2R (Float radix2 (Z.pos mx) ex) / - F2R (Float radix2 (Z.pos my) ey))%R
      with (F2R (Float radix2 (Z.pos mx) ex) / F2R (Float radix2 (Z.pos my) ey))%R by (field; lra). lra.
  - apply Rlt_bool_true. replace (- F2R (Float radix2 (Z.pos mx) ex) / F2R (Float radix2 (Z.pos my) ey))%R
      with (- (F2R (Float radix2 (Z.pos mx) ex) / F2R (Float radix2 (Z.pos my) ey)))%R by (field; lra). lra.
  - apply Rlt_bool_true. replace (F2R (Float radix2 (Z.pos mx) ex) / - F2R (Float radix2 (Z.pos my) ey))%R
      with (- (F2R (Float radix2 (Z.pos mx) ex) / F2R (Float radix2 (Z.pos my) ey)))%R by (field; lra). lra.
  - apply Rlt_bool_false. lra.
Qed.

Lemma not_nan_of_finite (z : bf80) : is_finite z = true -> is_nan z = false.
Proof. now destruct z. Qed.

(** multiplication clause *)
Lemma spec_mul_model x y r : valid80 x -> valid80 y -> spec_mul 64 16384 x y r = true -> r = mul80 x y.
Proof.
  intros Hx Hy H.
  destruct x as [sx|sx| |sx mx ex], y as [sy|sy| |sy my ey]; cbn [spec_mul] in H;
    try (apply is_nan_sf_eq in H; subst r; reflexivity);
    try (apply is_inf_sf_eq in H; subst r; reflexivity);
    try (apply is_zero_sf_eq in H; subst r; reflexivity).
  apply andb_prop in H. destruct H as [Hs Hr].
  set (bx := SF2B _ Hx : bf80). set (by_ := SF2B _ Hy : bf80).
  change (S754_finite sx mx ex) with (B2SF bx). change (S754_finite sy my ey) with (B2SF by_).
  unfold mul80. rewrite (SFmul_Bmult p80 e80 Hp80 He80).
  set (u := (B2R bx * B2R by_)%R).
  apply (rne_ok_unique 64 16384 lt1_64 lt64_16384 u _ (Zpos mx * Zpos my) 1 (ex + ey) r); try reflexivity.
  - unfold u. cbn [B2R bx by_ SF2B]. rewrite Rabs_mult, !Rabs_F2R_cond, mult_IZR, bpow_plus. field.
  - apply (ieee_intro p80 e80).
    pose proof (Bmult_correct p80 e80 Hp80 He80 mode_NE bx by_) as H. fold u in H.
    assert (Hsg : xorb (Bsign bx) (Bsign by_) = Rlt_bool u 0).
    { unfold u. cbn [B2R Bsign bx by_ SF2B]. now rewrite Rlt_bool_mult. }
    destruct (Rlt_bool _ _).
    + destruct H as (H1 & H2 & H3). cbn [is_finite bx by_ SF2B andb] in H2.
      repeat split; try assumption. rewrite <- Hsg. apply H3. now apply not_nan_of_finite.
    + rewrite H, Hsg. reflexivity.
  - unfold u. cbn [B2R bx by_ SF2B]. now rewrite Rlt_bool_mult.
  - exact Hr.
Qed.

(** division clause (division by zero and the other special cases included) *)
Lemma spec_div_model x y r : valid80 x -> valid80 y -> spec_div 64 16384 x y r = true -> r = div80 x y.
Proof.
  intros Hx Hy H.
  destruct x as [sx|sx| |sx mx ex], y as [sy|sy| |sy my ey]; cbn [spec_div] in H;
    try (apply is_nan_sf_eq in H; subst r; reflexivity);
    try (apply is_inf_sf_eq in H; subst r; reflexivity);
    try (apply is_zero_sf_eq in H; subst r; reflexivity).
  apply andb_prop in H. destruct H as [Hs Hr].
  set (bx := SF2B _ Hx : bf80). set (by_ := SF2B _ Hy : bf80).
  change (S754_finite sx mx ex) with (B2SF bx). change (S754_finite sy my ey) with (B2SF by_).
  unfold div80. rewrite (SFdiv_Bdiv p80 e80 Hp80 He80).
  set (u := (B2R bx / B2R by_)%R).
  assert (Hy0 : B2R by_ <> 0%R).
  { cbn [B2R by_ SF2B]. destruct sy; cbn [cond_Zopp].
    - apply Rlt_not_eq. now apply F2R_lt_0.
    - apply Rgt_not_eq. now apply F2R_gt_0. }
  apply (rne_ok_unique 64 16384 lt1_64 lt64_16384 u _ (Zpos mx) (Zpos my) (ex - ey) r); try reflexivity.
  - unfold u. unfold Rdiv at 1. rewrite Rabs_mult, Rabs_inv. cbn [B2R bx by_ SF2B].
    rewrite !Rabs_F2R_cond. unfold Zminus. rewrite bpow_plus, bpow_opp. field.
    split; [apply Rgt_not_eq, bpow_gt_0|now apply not_0_IZR].
  - apply (ieee_intro p80 e80).
    pose proof (Bdiv_correct p80 e80 Hp80 He80 mode_NE bx by_ Hy0) as H. fold u in H.
    assert (Hsg : xorb (Bsign bx) (Bsign by_) = Rlt_bool u 0).
    { unfold u. cbn [B2R Bsign bx by_ SF2B]. now rewrite Rlt_bool_div. }
    destruct (Rlt_bool _ _).
    + destruct H as (H1 & H2 & H3). cbn [is_finite bx SF2B] in H2.
      repeat split; try assumption. rewrite <- Hsg. apply H3. now apply not_nan_of_finite.
    + rewrite H, Hsg. reflexivity.
  - unfold u. cbn [B2R bx by_ SF2B]. now rewrite Rlt_bool_div.
  - exact Hr.
Qed.

(** addition clause *)
Definition sgnd (s : bool) (m : Z) : Z := if s then - m else m.

Lemma parts_B2R (b : bf80) : is_finite b = true ->
  let '(s, m, e) := parts (B2SF b) in
  B2R b = (IZR (sgnd s m) * bpow radix2 e)%R /\ Bsign b = s /\ 0 <= m /\ (m = 0 -> B2R b = 0%R)
  /\ (m <> 0 -> (if s then B2R b < 0 else 0 < B2R b)%R).
Proof.
  destruct b as [s|s| |s m e Hb]; try discriminate; intros _; cbn [B2SF parts B2R Bsign sgnd].
  - repeat split; try lia; try (destruct s; cbn; ring).
  - repeat split; try lia; try reflexivity; try (destruct s; reflexivity).
    intros _. destruct s; cbn [cond_Zopp]; [now apply F2R_lt_0|now apply F2R_gt_0].
Qed.

Lemma shiftl_bpow a k E : 0 <= k -> (IZR (Z.shiftl a k) * bpow radix2 E = IZR a * bpow radix2 (k + E))%R.
Proof.
  intros Hk. rewrite shiftl_pow by exact Hk. rewrite mult_IZR, <- bpow_IZR by exact Hk.
  rewrite bpow_plus. ring.
Qed.

Lemma add_core (bx by_ : bf80) sx mx ex sy my ey r :
  is_finite bx = true -> is_finite by_ = true ->
  parts (B2SF bx) = (sx, mx, ex) -> parts (B2SF by_) = (sy, my, ey) ->
  (let E := Z.min ex ey in
   let N := Z.shiftl (if sx then - mx else mx) (ex - E) + Z.shiftl (if sy then - my else my) (ey - E) in
   if N =? 0 then is_zero_sf ((mx =? 0) && (my =? 0) && sx && sy) r
   else has_sign (N <? 0) r && rne_ok 64 16384 (Z.abs N) 1 E r) = true ->
  r = B2SF (Bplus mode_NE bx by_).
Proof.
  intros Fx Fy Px Py H. cbv zeta in H.
  pose proof (parts_B2R bx Fx) as Hbx. rewrite Px in Hbx. destruct Hbx as (Vx & Sx & Mx & Zx & NZx).
  pose proof (parts_B2R by_ Fy) as Hby. rewrite Py in Hby. destruct Hby as (Vy & Sy & My & Zy & NZy).
  set (E := Z.min ex ey) in *.
  set (N := Z.shiftl (if sx then - mx else mx) (ex - E) + Z.shiftl (if sy then - my else my) (ey - E)) in *.
  set (u := (B2R bx + B2R by_)%R).
  assert (Hu : u = (IZR N * bpow radix2 E)%R).
  { unfold u, N. rewrite plus_IZR, Rmult_plus_distr_r.
    rewrite !shiftl_bpow by (unfold E; lia).
    replace (ex - E + E) with ex by ring. replace (ey - E + E) with ey by ring.
    rewrite Vx, Vy. reflexivity. }
  pose proof (Bplus_correct p80 e80 Hp80 He80 mode_NE bx by_ Fx Fy) as HB. fold u in HB.
  pose proof (bpow_gt_0 radix2 E) as HbE.
  destruct (Z.eqb_spec N 0) as [HN|HN].
  - (* exact zero *)
    apply is_zero_sf_eq in H. subst r.
    assert (Hu0 : u = 0%R) by (rewrite Hu, HN; ring).
    rewrite Hu0, round_0, Rabs_R0 in HB by apply valid_rnd_round_mode.
    rewrite Rlt_bool_true in HB by apply bpow_gt_0. rewrite Rcompare_Eq in HB by reflexivity.
    destruct HB as (H1 & H2 & H3).
    assert (Hflag : (mx =? 0) && (my =? 0) && sx && sy = andb (Bsign bx) (Bsign by_)).
    { rewrite Sx, Sy. destruct (Z.eqb_spec mx 0) as [Ex|Ex], (Z.eqb_spec my 0) as [Ey|Ey]; cbn [andb].
      - reflexivity.
      - exfalso. specialize (NZy Ey). specialize (Zx Ex). unfold u in Hu0. destruct sy; lra.
      - exfalso. specialize (NZx Ex). specialize (Zy Ey). unfold u in Hu0. destruct sx; lra.
      - specialize (NZx Ex). specialize (NZy Ey). unfold u in Hu0.
        destruct sx, sy; try reflexivity; exfalso; lra. }
    rewrite Hflag.
    assert (Hz : Bplus mode_NE bx by_ = B754_zero (andb (Bsign bx) (Bsign by_))).
    { apply B2R_Bsign_inj; try assumption; try reflexivity. }
    now rewrite Hz.
  - apply andb_prop in H. destruct H as [Hs Hr].
    assert (HNr : IZR N <> 0%R) by now apply not_0_IZR.
    assert (Hu0 : u <> 0%R).
    { rewrite Hu. apply Rmult_integral_contrapositive_currified; lra. }
    assert (Hsg : Rlt_bool u 0 = (N <? 0)).
    { rewrite Hu. destruct (Z.ltb_spec N 0) as [L|L].
      - apply Rlt_bool_true. apply IZR_lt in L. nra.
      - apply Rlt_bool_false. apply IZR_le in L. nra. }
    apply (rne_ok_unique 64 16384 lt1_64 lt64_16384 u _ (Z.abs N) 1 E r); try reflexivity.
    + lia.
    + rewrite Hu, Rabs_mult, <- abs_IZR, (Rabs_pos_eq (bpow radix2 E)) by lra. field.
    + apply (ieee_intro p80 e80).
      destruct (Rlt_bool _ _).
      * destruct HB as (H1 & H2 & H3). repeat split; try assumption. rewrite H3.
        destruct (Rcompare_spec u 0) as [L|L|L]; [|contradiction|].
        -- now rewrite Rlt_bool_true.
        -- rewrite Rlt_bool_false; [reflexivity|lra].
      * destruct HB as [H1 H2]. rewrite H1. unfold binary_overflow, overflow_to_inf. f_equal.
        (* operands of equal sign: the sign of the sum is theirs *)
        assert (Hss : sy = sx) by (rewrite <- Sx, <- Sy; symmetry; exact H2).
        rewrite Sx. clear Hs Hr Hsg. clearbody N. rewrite Hss in NZy.
        assert (Hle : if sx then (u <= 0)%R else (0 <= u)%R).
        { unfold u. destruct (Z.eq_dec mx 0) as [Ex|Ex], (Z.eq_dec my 0) as [Ey|Ey];
            try specialize (Zx Ex); try specialize (Zy Ey); try specialize (NZx Ex); try specialize (NZy Ey);
            destruct sx; lra. }
        destruct sx.
        -- rewrite Rlt_bool_true; [reflexivity|lra].
        -- rewrite Rlt_bool_false; [reflexivity|lra].
    + now rewrite Hsg.
    + exact Hr.
Qed.

Lemma spec_add_model x y r : valid80 x -> valid80 y -> spec_add 64 16384 x y r = true -> r = add80 x y.
Proof.
  intros Hx Hy H.
  destruct x as [sx|sx| |sx mx ex], y as [sy|sy| |sy my ey].
  all: try (cbn [spec_add] in H; apply is_nan_sf_eq in H; subst r; reflexivity).
  all: try (cbn [spec_add] in H; apply is_inf_sf_eq in H; subst r; reflexivity).
  all: try (destruct sx, sy; cbn [spec_add eqb] in H;
            first [apply is_inf_sf_eq in H | apply is_nan_sf_eq in H]; subst r; reflexivity).
  all: unfold add80; rewrite <- (B2SF_SF2B p80 e80 _ Hx), <- (B2SF_SF2B p80 e80 _ Hy),
         (SFadd_Bplus p80 e80 Hp80 He80).
  - apply (add_core _ _ sx 0 0 sy 0 0 r); try reflexivity; exact H.
  - apply (add_core _ _ sx 0 0 sy (Zpos my) ey r); try reflexivity; exact H.
  - apply (add_core _ _ sx (Zpos mx) ex sy 0 0 r); try reflexivity; exact H.
  - apply (add_core _ _ sx (Zpos mx) ex sy (Zpos my) ey r); try reflexivity; exact H.
Qed.

(** subtraction clause: the checker tests [x + (-y)] *)
Lemma sub80_add80 x y : sub80 x y = add80 x (flip y).
Proof.
  destruct x as [sx|sx| |sx mx ex], y as [sy|sy| |sy my ey]; try reflexivity;
    try (destruct sx, sy; reflexivity).
Qed.
Lemma flip_valid y : valid80 y -> valid80 (flip y).
Proof. now destruct y. Qed.
Lemma spec_sub_model x y r : valid80 x -> valid80 y -> spec_add 64 16384 x (flip y) r = true -> r = sub80 x y.
Proof.
  intros Hx Hy H. rewrite sub80_add80. apply spec_add_model; auto using flip_valid.
Qed.
