(** C18 — executable model of rlib_f80 (x87 80-bit extended precision) on
    [SpecFloat.spec_float].  Definitions only (no proofs).

    An [f80] is 10 raw bytes: a little-endian 64-bit significand with an
    EXPLICIT integer bit, followed by a 16-bit word (sign, 15-bit biased
    exponent).  The value of a finite non-zero raw is
    [m * 2^(max(E,1) - 16383 - 63)]; exponent field 0 therefore means
    [emin = 3 - 16384 - 64 = -16445] with the significand taken as is.

    The arithmetic instructions ([faddp], [fsubp], [fmulp], [fdivp], [fchs],
    [fld]/[fstp] of the three widths) are modelled by the IEEE operations of
    [SpecFloat] at (prec 64, emax 16384) resp. (53, 1024), round to nearest even
    (x87 control word 0x37F: extended precision, nearest).  The comparison
    instructions set (ZF, PF, CF); what the Rust code reads from those flags is
    modelled literally ([seta], [sete]/[setnp], [fcmovnbe], [fcmovbe]). *)
From Coq Require Import ZArith Bool Floats.SpecFloat.
Open Scope Z_scope.

Definition p80 := 64.
Definition e80 := 16384.
Definition p64 := 53.
Definition e64 := 1024.

(** ** Raw encodings *)

(** a raw f80: (sign/exponent word, significand word) *)
Definition raw := (Z * Z)%type.

Definition sgn16 (s : bool) : Z := if s then 32768 else 0.
Definition sgn64 (s : bool) : Z := if s then 9223372036854775808 else 0.

Definition decode80 (r : raw) : spec_float :=
  let (se, m) := r in
  let s := Z.testbit se 15 in
  let e := Z.land se 32767 in
  if e =? 32767 then
    if m =? 9223372036854775808 then S754_infinity s else S754_nan
  else
    match m with
    | Zpos p => S754_finite s p (if e =? 0 then -16445 else e - 16446)
    | _ => S754_zero s
    end.

(** the canonical NaN is the x87 "real indefinite" (negative quiet NaN) *)
Definition encode80 (x : spec_float) : raw :=
  match x with
  | S754_zero s => (sgn16 s, 0)
  | S754_infinity s => (sgn16 s + 32767, 9223372036854775808)
  | S754_nan => (65535, 13835058055282163712)
  | S754_finite s m e =>
      if Zpos m <? 9223372036854775808 then (sgn16 s, Zpos m)
      else (sgn16 s + (e + 16446), Zpos m)
  end.

Definition is_nan_raw (r : raw) : bool :=
  (Z.land (fst r) 32767 =? 32767) && negb (snd r =? 9223372036854775808).

(** NaNs are compared as a class (payloads are not modelled) *)
Definition raw_same (a b : raw) : bool :=
  if is_nan_raw a then is_nan_raw b
  else (fst a =? fst b) && (snd a =? snd b).

(** binary64 bit pattern -> value *)
Definition decode64 (bits : Z) : spec_float :=
  let s := Z.testbit bits 63 in
  let e := Z.land (Z.shiftr bits 52) 2047 in
  let f := Z.land bits 4503599627370495 in
  if e =? 2047 then (if f =? 0 then S754_infinity s else S754_nan)
  else if e =? 0 then
    match f with Zpos p => S754_finite s p (-1074) | _ => S754_zero s end
  else
    match f + 4503599627370496 with
    | Zpos p => S754_finite s p (e - 1075)
    | _ => S754_nan
    end.

Definition encode64 (x : spec_float) : Z :=
  match x with
  | S754_zero s => sgn64 s
  | S754_infinity s => sgn64 s + 9218868437227405312
  | S754_nan => 9221120237041090560
  | S754_finite s m e =>
      if Zpos m <? 4503599627370496 then sgn64 s + Zpos m
      else sgn64 s + (e + 1075) * 4503599627370496 + (Zpos m - 4503599627370496)
  end.

Definition is_nan_bits (b : Z) : bool :=
  (Z.land (Z.shiftr b 52) 2047 =? 2047) && negb (Z.land b 4503599627370495 =? 0).

Definition bits_same (a b : Z) : bool :=
  if is_nan_bits a then is_nan_bits b else a =? b.

(** ** Conversions *)

(** [From<f64> for f80]: [fld QWORD; fstp TBYTE].  Exact: the significand is
    shifted left until it has 64 bits (every binary64 value, subnormals
    included, is a normal number of the extended format). *)
Definition widen (x : spec_float) : spec_float :=
  match x with
  | S754_finite s m e =>
      let '(m', e') := shl_align m e (fexp p80 e80 (Zpos (digits2_pos m) + e)) in
      S754_finite s m' e'
  | _ => x
  end.

(** [From<f80> for f64]: [fld TBYTE; fstp QWORD] rounds to binary64
    (nearest even; overflow to infinity, gradual underflow). *)
Definition narrow (x : spec_float) : spec_float :=
  match x with
  | S754_finite s m e => binary_normalize p64 e64 (cond_Zopp s (Zpos m)) e s
  | _ => x
  end.

(** ** Arithmetic *)
Definition add80 := SFadd p80 e80.
Definition sub80 := SFsub p80 e80.
Definition mul80 := SFmul p80 e80.
Definition div80 := SFdiv p80 e80.
Definition neg80 := SFopp.

(** the chain used by the correspondence check: needs all 64 significand bits *)
Definition mad80 (x y : spec_float) := add80 (mul80 x y) x.
Definition chain80 (x y : spec_float) := div80 (mad80 x y) y.

(** ** Comparisons, as coded *)

(** flags (ZF, PF, CF) after [fcomi]/[fucomi]/[fcomip]/[fucomip st, st(1)]:
    st > st(1): 000, st < st(1): 001, equal: 100, unordered: 111 *)
Record flags := { ZF : bool; PF : bool; CF : bool }.
Definition fcomi (st0 st1 : spec_float) : flags :=
  match SFcompare st0 st1 with
  | Some Gt => {| ZF := false; PF := false; CF := false |}
  | Some Lt => {| ZF := false; PF := false; CF := true |}
  | Some Eq => {| ZF := true; PF := false; CF := false |}
  | None => {| ZF := true; PF := true; CF := true |}
  end.

(** condition codes *)
Definition cc_a (f : flags) := negb (CF f) && negb (ZF f).   (* seta / fcmovnbe *)
Definition cc_be (f : flags) := CF f || ZF f.                (* fcmovbe *)
Definition cc_e (f : flags) := ZF f.                         (* sete *)
Definition cc_np (f : flags) := negb (PF f).                 (* setnp *)

(** every method loads [self] first, then [rhs]: st = rhs, st(1) = self *)
Definition lt80 (self rhs : spec_float) : bool := cc_a (fcomi rhs self).
Definition eq80 (self rhs : spec_float) : bool :=
  let f := fcomi rhs self in cc_e f && cc_np f.
Definition gt80 (self rhs : spec_float) : bool := lt80 rhs self.
Definition le80 (self rhs : spec_float) : bool := lt80 self rhs || eq80 self rhs.
Definition ge80 (self rhs : spec_float) : bool := lt80 rhs self || eq80 self rhs.
Definition partial_cmp80 (self rhs : spec_float) : option comparison :=
  match le80 self rhs, ge80 self rhs with
  | false, false => None
  | false, true => Some Gt
  | true, false => Some Lt
  | true, true => Some Eq
  end.

(** [fucomi st, st(1); fcmovnbe st, st(1); fstp st(1); fstp [res]]:
    st (= rhs) is replaced by st(1) (= self) when rhs > self; ties and
    unordered operands return rhs *)
Definition min80 (self rhs : spec_float) : spec_float :=
  if cc_a (fcomi rhs self) then self else rhs.
(** [fcmovbe]: st (= rhs) is replaced by self when rhs <= self or unordered *)
Definition max80 (self rhs : spec_float) : spec_float :=
  if cc_be (fcomi rhs self) then self else rhs.

(** [if self < f80::from(0.) { -self } else { self }] *)
Definition abs80 (x : spec_float) : spec_float :=
  if lt80 x (widen (S754_zero false)) then neg80 x else x.
