(** C18 — comparisons as coded agree with the IEEE comparison [SFcompare]. *)
From Coq Require Import ZArith Bool Floats.SpecFloat Lia.
From RlibV Require Import C18.Model.
Open Scope Z_scope.

Lemma SFcompare_swap (x y : spec_float) :
  SFcompare y x = match SFcompare x y with Some c => Some (CompOpp c) | None => None end.
Proof.
  destruct x as [sx|sx| |sx mx ex], y as [sy|sy| |sy my ey]; cbn [SFcompare];
    try reflexivity;
    try (destruct sx; reflexivity); try (destruct sy; reflexivity);
    try (destruct sx, sy; reflexivity).
  destruct sx, sy; try reflexivity.
  - rewrite (Z.compare_antisym ex ey). destruct (ex ?= ey); cbn [CompOpp]; try reflexivity.
    rewrite (Pos.compare_cont_antisym mx my Eq). cbn [CompOpp].
    destruct (Pos.compare_cont Eq mx my); reflexivity.
  - rewrite (Z.compare_antisym ex ey). destruct (ex ?= ey); cbn [CompOpp]; try reflexivity.
    rewrite (Pos.compare_cont_antisym mx my Eq). cbn [CompOpp]. reflexivity.
Qed.

Lemma lt80_SFltb x y : lt80 x y = SFltb x y.
Proof.
  unfold lt80, SFltb, fcomi, cc_a. rewrite (SFcompare_swap x y).
  destruct (SFcompare x y) as [[| |]|]; reflexivity.
Qed.

Lemma eq80_SFeqb x y : eq80 x y = SFeqb x y.
Proof.
  unfold eq80, SFeqb, fcomi, cc_e, cc_np. rewrite (SFcompare_swap x y).
  destruct (SFcompare x y) as [[| |]|]; reflexivity.
Qed.

Lemma gt80_SFltb x y : gt80 x y = SFltb y x.
Proof. unfold gt80. apply lt80_SFltb. Qed.

Lemma le80_SFleb x y : le80 x y = SFleb x y.
Proof.
  unfold le80. rewrite lt80_SFltb, eq80_SFeqb. unfold SFltb, SFeqb, SFleb.
  destruct (SFcompare x y) as [[| |]|]; reflexivity.
Qed.

Lemma ge80_SFleb x y : ge80 x y = SFleb y x.
Proof.
  unfold ge80. rewrite lt80_SFltb, eq80_SFeqb. unfold SFltb, SFeqb, SFleb.
  rewrite (SFcompare_swap x y).
  destruct (SFcompare x y) as [[| |]|]; reflexivity.
Qed.

Lemma partial_cmp80_SFcompare x y : partial_cmp80 x y = SFcompare x y.
Proof.
  unfold partial_cmp80. rewrite le80_SFleb, ge80_SFleb. unfold SFleb.
  rewrite (SFcompare_swap x y).
  destruct (SFcompare x y) as [[| |]|]; reflexivity.
Qed.

Lemma SFcompare_None x y : SFcompare x y = None <-> x = S754_nan \/ y = S754_nan.
Proof.
  destruct x as [sx|sx| |sx mx ex], y as [sy|sy| |sy my ey]; cbn [SFcompare];
    split; intros H; try discriminate; try (destruct H; discriminate); auto;
    try (destruct sx; discriminate); try (destruct sy; discriminate).
Qed.

(** the relations, as coded, against the IEEE comparison *)
Lemma lt_is_ieee x y : lt80 x y = true <-> SFcompare x y = Some Lt.
Proof.
  rewrite lt80_SFltb. unfold SFltb. destruct (SFcompare x y) as [[| |]|]; split; congruence.
Qed.
Lemma gt_is_ieee x y : gt80 x y = true <-> SFcompare x y = Some Gt.
Proof.
  rewrite gt80_SFltb. unfold SFltb. rewrite (SFcompare_swap x y).
  destruct (SFcompare x y) as [[| |]|]; cbn [CompOpp]; split; congruence.
Qed.
Lemma eq_is_ieee x y : eq80 x y = true <-> SFcompare x y = Some Eq.
Proof.
  rewrite eq80_SFeqb. unfold SFeqb. destruct (SFcompare x y) as [[| |]|]; split; congruence.
Qed.

Lemma le_ge_partial_cmp x y :
  (le80 x y = true <-> SFcompare x y = Some Lt \/ SFcompare x y = Some Eq)
  /\ (ge80 x y = true <-> SFcompare x y = Some Gt \/ SFcompare x y = Some Eq)
  /\ partial_cmp80 x y = SFcompare x y
  /\ (partial_cmp80 x y = None <-> x = S754_nan \/ y = S754_nan).
Proof.
  rewrite le80_SFleb, ge80_SFleb, partial_cmp80_SFcompare. unfold SFleb.
  rewrite (SFcompare_swap x y).
  repeat split; try apply SFcompare_None;
    destruct (SFcompare x y) as [[| |]|]; cbn [CompOpp]; intuition congruence.
Qed.

Lemma eq_consistent x y : eq80 x y = true <-> partial_cmp80 x y = Some Eq.
Proof. rewrite partial_cmp80_SFcompare. apply eq_is_ieee. Qed.

(** witnesses of the two repaired defects stay repaired in the model *)
Lemma nan_relations y :
  le80 S754_nan y = false /\ ge80 S754_nan y = false /\ le80 y S754_nan = false /\ ge80 y S754_nan = false
  /\ partial_cmp80 S754_nan y = None /\ eq80 S754_nan y = false /\ eq80 y S754_nan = false.
Proof.
  rewrite !le80_SFleb, !ge80_SFleb, partial_cmp80_SFcompare, !eq80_SFeqb. unfold SFleb, SFeqb.
  destruct y as [s|s| |s m e]; cbn [SFcompare]; repeat split; reflexivity.
Qed.
Lemma zeros_equal s1 s2 : eq80 (S754_zero s1) (S754_zero s2) = true.
Proof. reflexivity. Qed.

(** min / max / abs *)
Lemma SFcompare_refl x : x <> S754_nan -> SFcompare x x = Some Eq.
Proof.
  destruct x as [s|s| |s m e]; cbn [SFcompare]; intros H; try reflexivity; try congruence.
  - destruct s; reflexivity.
  - rewrite Z.compare_refl, Pos.compare_cont_refl. destruct s; reflexivity.
Qed.

Lemma min80_lt x y : min80 x y = if lt80 x y then x else y.
Proof. reflexivity. Qed.
Lemma max80_lt x y : max80 x y = if lt80 x y then y else x.
Proof.
  unfold max80, lt80, cc_be, cc_a, fcomi.
  destruct (SFcompare y x) as [[| |]|]; reflexivity.
Qed.

Lemma min80_spec x y : x <> S754_nan -> y <> S754_nan ->
  (min80 x y = x \/ min80 x y = y)
  /\ SFleb (min80 x y) x = true /\ SFleb (min80 x y) y = true.
Proof.
  intros Hx Hy. rewrite min80_lt, lt80_SFltb. unfold SFltb, SFleb.
  pose proof (SFcompare_swap x y) as Hs. pose proof (SFcompare_None x y) as Hn.
  destruct (SFcompare x y) as [[| |]|] eqn:Hc; cbn [CompOpp] in Hs.
  - rewrite Hs, (SFcompare_refl y Hy). auto.
  - rewrite Hc, (SFcompare_refl x Hx). auto.
  - rewrite Hs, (SFcompare_refl y Hy). auto.
  - exfalso. destruct (proj1 Hn eq_refl); auto.
Qed.

Lemma max80_spec x y : x <> S754_nan -> y <> S754_nan ->
  (max80 x y = x \/ max80 x y = y)
  /\ SFleb x (max80 x y) = true /\ SFleb y (max80 x y) = true.
Proof.
  intros Hx Hy. rewrite max80_lt, lt80_SFltb. unfold SFltb, SFleb.
  pose proof (SFcompare_swap x y) as Hs. pose proof (SFcompare_None x y) as Hn.
  destruct (SFcompare x y) as [[| |]|] eqn:Hc; cbn [CompOpp] in Hs.
  - rewrite Hs, (SFcompare_refl x Hx). auto.
  - rewrite Hc, (SFcompare_refl y Hy). auto.
  - rewrite Hs, (SFcompare_refl x Hx). auto.
  - exfalso. destruct (proj1 Hn eq_refl); auto.
Qed.

(** ties: [min] returns its second operand, [max] its first (as the test-suite's reference does);
    with a NaN operand [min] returns the second and [max] the first operand *)
Lemma min80_tie x y : SFcompare x y = Some Eq -> min80 x y = y /\ max80 x y = x.
Proof.
  intros H. rewrite min80_lt, max80_lt, lt80_SFltb. unfold SFltb. rewrite H. auto.
Qed.
Lemma min80_nan x y : x = S754_nan \/ y = S754_nan -> min80 x y = y /\ max80 x y = x.
Proof.
  intros H. apply SFcompare_None in H. rewrite min80_lt, max80_lt, lt80_SFltb. unfold SFltb.
  rewrite H. auto.
Qed.

Lemma abs80_spec x : abs80 x = match x with S754_zero _ => x | _ => SFabs x end.
Proof. destruct x as [s|s| |s m e]; try destruct s; reflexivity. Qed.
