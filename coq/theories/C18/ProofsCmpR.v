(** C18 — the comparison of the model is the order of the real values. *)
From Coq Require Import ZArith Reals Bool Floats.SpecFloat Lia Lra.
From Flocq Require Import Core.Zaux Core.Raux Core.Defs Core.Float_prop Core.Generic_fmt Core.FLT
  Core.Round_NE IEEE754.BinarySingleNaN.
From RlibV Require Import C18.Model C18.Spec C18.Transport C18.ProofsConv C18.ProofsArith C18.ProofsCmp.
Open Scope Z_scope.

Lemma compare_real x y : valid80 x -> valid80 y -> finite x -> finite y ->
  SFcompare x y = Some (Rcompare (val x) (val y)).
Proof.
  intros Hx Hy Fx Fy. to_B x bx. to_B y by_.
  unfold finite, val in *. rewrite !is_finite_SF_B2SF in *. rewrite !SF2R_B2SF.
  rewrite (SFcompare_Bcompare p80 e80). now apply Bcompare_correct.
Qed.

Lemma compare_f64 a b : valid64 a -> valid64 b -> finite a -> finite b ->
  partial_cmp80 (widen a) (widen b) = Some (Rcompare (val a) (val b)).
Proof.
  intros Ha Hb Fa Fb. rewrite partial_cmp80_SFcompare.
  rewrite <- (widen_val a Ha), <- (widen_val b Hb).
  apply compare_real; auto using widen_valid, widen_finite_SF.
Qed.

(** infinities and NaN: the extended order *)
Lemma compare_inf :
  (forall s y, finite y -> SFcompare (S754_infinity s) y = Some (if s then Lt else Gt)
                        /\ SFcompare y (S754_infinity s) = Some (if s then Gt else Lt))
  /\ SFcompare (S754_infinity true) (S754_infinity false) = Some Lt
  /\ SFcompare (S754_infinity false) (S754_infinity true) = Some Gt
  /\ (forall s, SFcompare (S754_infinity s) (S754_infinity s) = Some Eq).
Proof.
  repeat split; intros; try reflexivity; try (destruct s; reflexivity);
    destruct y as [?|?| |? ? ?]; try discriminate; reflexivity.
Qed.

Lemma abs80_val x : val (abs80 x) = Rabs (val x).
Proof.
  rewrite abs80_spec. unfold val.
  destruct x as [s|s| |s m e]; cbn [SFabs SF2R]; try (symmetry; apply Rabs_R0).
  rewrite <- F2R_Zabs. now rewrite abs_cond_Zopp.
Qed.

Lemma abs80_sign x : x <> S754_nan -> (forall s, x <> S754_zero s) -> sign_SF (abs80 x) = false.
Proof.
  rewrite abs80_spec. destruct x as [s|s| |s m e]; intros Hn Hz; try reflexivity; try congruence.
Qed.
