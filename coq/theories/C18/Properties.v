(** C18 — property theorems (statements only; proofs by [exact]). *)
From Coq Require Import ZArith.
From RlibV Require Import C18.Model C18.Corr.
