(** C18 — property theorems (statements only; proofs by [exact]).

    Vocabulary ([C18/Spec.v]): [val x] real value of a [spec_float]; [rnd80]/[rnd64] round to nearest even to
    the extended format (64-bit significand, emax 16384) / to binary64; [valid64]/[valid80] "is a datum of the
    format"; [finite] = zero or finite non-zero.  [widen] is [f80::from(f64)], [narrow] is [f64::from(f80)],
    [add80 … abs80] are the operations of the model ([C18/Model.v]), which the correspondence batches compare
    with the x87 results bit for bit on every run. *)
From Coq Require Import ZArith Reals Bool List Floats.SpecFloat.
From Flocq Require Import Core.Zaux Core.Raux Core.Defs Core.Generic_fmt Core.FLT Core.Round_NE
  IEEE754.BinarySingleNaN.
From RlibV Require Import C18.Model C18.Corr C18.Spec C18.Transport C18.ProofsConv C18.ProofsArith
  C18.ProofsCmp C18.ProofsCmpR C18.ProofsSpecCheck C18.ProofsSpecTrace.
Open Scope Z_scope.

(** ** transport: the executable operations are Flocq's, at every precision (in particular (64, 16384)) *)
Theorem c18_transport_add : forall (prec emax : Z) (Hp : FLX.Prec_gt_0 prec) (He : Prec_lt_emax prec emax)
  (x y : binary_float prec emax),
  SFadd prec emax (B2SF x) (B2SF y) = B2SF (@Bplus prec emax Hp He mode_NE x y).
Proof. exact SFadd_Bplus. Qed.
Theorem c18_transport_sub : forall (prec emax : Z) (Hp : FLX.Prec_gt_0 prec) (He : Prec_lt_emax prec emax)
  (x y : binary_float prec emax),
  SFsub prec emax (B2SF x) (B2SF y) = B2SF (@Bminus prec emax Hp He mode_NE x y).
Proof. exact SFsub_Bminus. Qed.
Theorem c18_transport_mul : forall (prec emax : Z) (Hp : FLX.Prec_gt_0 prec) (He : Prec_lt_emax prec emax)
  (x y : binary_float prec emax),
  SFmul prec emax (B2SF x) (B2SF y) = B2SF (@Bmult prec emax Hp He mode_NE x y).
Proof. exact SFmul_Bmult. Qed.
Theorem c18_transport_div : forall (prec emax : Z) (Hp : FLX.Prec_gt_0 prec) (He : Prec_lt_emax prec emax)
  (x y : binary_float prec emax),
  SFdiv prec emax (B2SF x) (B2SF y) = B2SF (@Bdiv prec emax Hp He mode_NE x y).
Proof. exact SFdiv_Bdiv. Qed.

(** ** arithmetic on images of binary64 values: exact real result, rounded once to 64 bits; never overflows *)
Theorem c18_add_correct : forall a b : spec_float, valid64 a -> valid64 b -> finite a -> finite b ->
  let r := add80 (widen a) (widen b) in
  val r = rnd80 (val a + val b) /\ finite r /\ valid80 r
  /\ sign_SF r = sum_sign (val a + val b) (sign_SF a) (sign_SF b).
Proof. exact add_f64. Qed.
Theorem c18_sub_correct : forall a b : spec_float, valid64 a -> valid64 b -> finite a -> finite b ->
  let r := sub80 (widen a) (widen b) in
  val r = rnd80 (val a - val b) /\ finite r /\ valid80 r
  /\ sign_SF r = sum_sign (val a - val b) (sign_SF a) (negb (sign_SF b)).
Proof. exact sub_f64. Qed.
Theorem c18_mul_correct : forall a b : spec_float, valid64 a -> valid64 b -> finite a -> finite b ->
  let r := mul80 (widen a) (widen b) in
  val r = rnd80 (val a * val b) /\ finite r /\ valid80 r /\ sign_SF r = xorb (sign_SF a) (sign_SF b).
Proof. exact mul_f64. Qed.
Theorem c18_div_correct : forall a b : spec_float, valid64 a -> valid64 b -> finite a -> finite b ->
  val b <> 0%R ->
  let r := div80 (widen a) (widen b) in
  val r = rnd80 (val a / val b) /\ finite r /\ valid80 r /\ sign_SF r = xorb (sign_SF a) (sign_SF b).
Proof. exact div_f64. Qed.

(** ** the same for arbitrary extended-format operands (operation chains), while the result does not overflow *)
Theorem c18_add_correct_f80 : forall x y : spec_float, valid80 x -> valid80 y -> finite x -> finite y ->
  (Rabs (rnd80 (val x + val y)) < bpow radix2 e80)%R ->
  val (add80 x y) = rnd80 (val x + val y) /\ finite (add80 x y) /\ valid80 (add80 x y)
  /\ sign_SF (add80 x y) = sum_sign (val x + val y) (sign_SF x) (sign_SF y).
Proof. exact add80_correct. Qed.
Theorem c18_sub_correct_f80 : forall x y : spec_float, valid80 x -> valid80 y -> finite x -> finite y ->
  (Rabs (rnd80 (val x - val y)) < bpow radix2 e80)%R ->
  val (sub80 x y) = rnd80 (val x - val y) /\ finite (sub80 x y) /\ valid80 (sub80 x y)
  /\ sign_SF (sub80 x y) = sum_sign (val x - val y) (sign_SF x) (negb (sign_SF y)).
Proof. exact sub80_correct. Qed.
Theorem c18_mul_correct_f80 : forall x y : spec_float, valid80 x -> valid80 y -> finite x -> finite y ->
  (Rabs (rnd80 (val x * val y)) < bpow radix2 e80)%R ->
  val (mul80 x y) = rnd80 (val x * val y) /\ finite (mul80 x y) /\ valid80 (mul80 x y)
  /\ sign_SF (mul80 x y) = xorb (sign_SF x) (sign_SF y).
Proof. exact mul80_correct. Qed.
Theorem c18_div_correct_f80 : forall x y : spec_float, valid80 x -> valid80 y -> finite x -> finite y ->
  val y <> 0%R ->
  (Rabs (rnd80 (val x / val y)) < bpow radix2 e80)%R ->
  val (div80 x y) = rnd80 (val x / val y) /\ finite (div80 x y) /\ valid80 (div80 x y)
  /\ sign_SF (div80 x y) = xorb (sign_SF x) (sign_SF y).
Proof. exact div80_correct. Qed.

(** ** special values: NaN, infinities, signed zeros, division by zero *)
Theorem c18_add_special :
  (forall y, add80 S754_nan y = S754_nan) /\ (forall x, add80 x S754_nan = S754_nan)
  /\ (forall s, add80 (S754_infinity s) (S754_infinity s) = S754_infinity s)
  /\ (forall s, add80 (S754_infinity s) (S754_infinity (negb s)) = S754_nan)
  /\ (forall s y, finite y -> add80 (S754_infinity s) y = S754_infinity s /\ add80 y (S754_infinity s) = S754_infinity s)
  /\ (forall s1 s2, add80 (S754_zero s1) (S754_zero s2) = S754_zero (andb s1 s2))
  /\ (forall s y, is_finite_strict_SF y = true -> add80 (S754_zero s) y = y /\ add80 y (S754_zero s) = y).
Proof. exact add80_special. Qed.
Theorem c18_sub_special :
  (forall y, sub80 S754_nan y = S754_nan) /\ (forall x, sub80 x S754_nan = S754_nan)
  /\ (forall s, sub80 (S754_infinity s) (S754_infinity (negb s)) = S754_infinity s)
  /\ (forall s, sub80 (S754_infinity s) (S754_infinity s) = S754_nan)
  /\ (forall s y, finite y -> sub80 (S754_infinity s) y = S754_infinity s /\ sub80 y (S754_infinity s) = S754_infinity (negb s))
  /\ (forall s1 s2, sub80 (S754_zero s1) (S754_zero s2) = S754_zero (andb s1 (negb s2)))
  /\ (forall s y, is_finite_strict_SF y = true -> sub80 (S754_zero s) y = SFopp y /\ sub80 y (S754_zero s) = y).
Proof. exact sub80_special. Qed.
Theorem c18_mul_special :
  (forall y, mul80 S754_nan y = S754_nan) /\ (forall x, mul80 x S754_nan = S754_nan)
  /\ (forall s1 s2, mul80 (S754_infinity s1) (S754_infinity s2) = S754_infinity (xorb s1 s2))
  /\ (forall s1 s2, mul80 (S754_infinity s1) (S754_zero s2) = S754_nan /\ mul80 (S754_zero s2) (S754_infinity s1) = S754_nan)
  /\ (forall s y, is_finite_strict_SF y = true ->
        mul80 (S754_infinity s) y = S754_infinity (xorb s (sign_SF y)) /\ mul80 y (S754_infinity s) = S754_infinity (xorb (sign_SF y) s))
  /\ (forall s y, finite y ->
        mul80 (S754_zero s) y = S754_zero (xorb s (sign_SF y)) /\ mul80 y (S754_zero s) = S754_zero (xorb (sign_SF y) s)).
Proof. exact mul80_special. Qed.
Theorem c18_div_special :
  (forall y, div80 S754_nan y = S754_nan) /\ (forall x, div80 x S754_nan = S754_nan)
  /\ (forall s1 s2, div80 (S754_infinity s1) (S754_infinity s2) = S754_nan)
  /\ (forall s1 s2, div80 (S754_zero s1) (S754_zero s2) = S754_nan)
  /\ (forall s y, finite y -> div80 (S754_infinity s) y = S754_infinity (xorb s (sign_SF y))
                             /\ div80 y (S754_infinity s) = S754_zero (xorb (sign_SF y) s))
  /\ (forall s y, is_finite_strict_SF y = true ->
        div80 y (S754_zero s) = S754_infinity (xorb (sign_SF y) s)
        /\ div80 (S754_zero s) y = S754_zero (xorb s (sign_SF y))).
Proof. exact div80_special. Qed.

(** negation is exact, an involution, flips the sign (also of zeros and infinities), keeps NaN *)
Theorem c18_neg : forall x : spec_float,
  val (neg80 x) = (- val x)%R /\ neg80 (neg80 x) = x
  /\ (x <> S754_nan -> sign_SF (neg80 x) = negb (sign_SF x))
  /\ is_finite_SF (neg80 x) = is_finite_SF x /\ is_nan_SF (neg80 x) = is_nan_SF x
  /\ (valid80 x -> valid80 (neg80 x)).
Proof. exact neg80_spec. Qed.

(** ** conversions *)
(** every binary64 datum is an extended-format datum with the same real value, class and sign *)
Theorem c18_widen_exact : forall a : spec_float, valid64 a ->
  valid80 (widen a) /\ val (widen a) = val a
  /\ is_finite_SF (widen a) = is_finite_SF a /\ is_nan_SF (widen a) = is_nan_SF a
  /\ sign_SF (widen a) = sign_SF a
  /\ (forall s, widen a = S754_zero s <-> a = S754_zero s)
  /\ (forall s, widen a = S754_infinity s <-> a = S754_infinity s)
  /\ (widen a = S754_nan <-> a = S754_nan).
Proof. exact (fun a Ha => conj (widen_valid a Ha) (conj (widen_val a Ha) (widen_class a))). Qed.
Theorem c18_widen_injective : forall a b : spec_float, valid64 a -> valid64 b -> widen a = widen b -> a = b.
Proof. exact widen_inj. Qed.
(** f64 -> f80 -> f64 is the identity (NaN maps to NaN: payloads are not modelled) *)
Theorem c18_roundtrip_f64 : forall a : spec_float, valid64 a -> narrow (widen a) = a.
Proof. exact roundtrip. Qed.
(** f80 -> f64 rounds to nearest even, overflows to the infinity of the same sign, keeps zeros/infinities/NaN *)
Theorem c18_narrow_correct : forall (s : bool) (m : positive) (e : Z),
  let x := S754_finite s m e in
  ((Rabs (rnd64 (val x)) < bpow radix2 e64)%R ->
     val (narrow x) = rnd64 (val x) /\ is_finite_SF (narrow x) = true /\ sign_SF (narrow x) = s
     /\ valid64 (narrow x))
  /\ ((bpow radix2 e64 <= Rabs (rnd64 (val x)))%R -> narrow x = S754_infinity s).
Proof. exact (fun s m e => conj (narrow_correct s m e) (narrow_overflow s m e)). Qed.
Theorem c18_narrow_special :
  (forall s, narrow (S754_zero s) = S754_zero s) /\ (forall s, narrow (S754_infinity s) = S754_infinity s)
  /\ narrow S754_nan = S754_nan.
Proof. exact narrow_special. Qed.

(** ** relations, as read from the x87 flags, against the IEEE comparison *)
Theorem c18_lt_is_ieee : forall x y : spec_float,
  (lt80 x y = true <-> SFcompare x y = Some Lt) /\ (gt80 x y = true <-> SFcompare x y = Some Gt).
Proof. exact (fun x y => conj (lt_is_ieee x y) (gt_is_ieee x y)). Qed.
Theorem c18_eq_is_ieee : forall x y : spec_float, eq80 x y = true <-> SFcompare x y = Some Eq.
Proof. exact eq_is_ieee. Qed.
Theorem c18_le_ge_partial_cmp : forall x y : spec_float,
  (le80 x y = true <-> SFcompare x y = Some Lt \/ SFcompare x y = Some Eq)
  /\ (ge80 x y = true <-> SFcompare x y = Some Gt \/ SFcompare x y = Some Eq)
  /\ partial_cmp80 x y = SFcompare x y
  /\ (partial_cmp80 x y = None <-> x = S754_nan \/ y = S754_nan).
Proof. exact le_ge_partial_cmp. Qed.
Theorem c18_eq_consistent : forall x y : spec_float, eq80 x y = true <-> partial_cmp80 x y = Some Eq.
Proof. exact eq_consistent. Qed.
(** the IEEE comparison is the order of the real values (so -0 = +0); infinities are the extremes *)
Theorem c18_compare_real : forall a b : spec_float, valid64 a -> valid64 b -> finite a -> finite b ->
  partial_cmp80 (widen a) (widen b) = Some (Rcompare (val a) (val b)).
Proof. exact compare_f64. Qed.
Theorem c18_compare_real_f80 : forall x y : spec_float, valid80 x -> valid80 y -> finite x -> finite y ->
  SFcompare x y = Some (Rcompare (val x) (val y)).
Proof. exact compare_real. Qed.
Theorem c18_compare_inf :
  (forall s y, finite y -> SFcompare (S754_infinity s) y = Some (if s then Lt else Gt)
                        /\ SFcompare y (S754_infinity s) = Some (if s then Gt else Lt))
  /\ SFcompare (S754_infinity true) (S754_infinity false) = Some Lt
  /\ SFcompare (S754_infinity false) (S754_infinity true) = Some Gt
  /\ (forall s, SFcompare (S754_infinity s) (S754_infinity s) = Some Eq).
Proof. exact compare_inf. Qed.
(** the witnesses of the two repaired defects *)
Theorem c18_nan_unordered : forall y : spec_float,
  le80 S754_nan y = false /\ ge80 S754_nan y = false /\ le80 y S754_nan = false /\ ge80 y S754_nan = false
  /\ partial_cmp80 S754_nan y = None /\ eq80 S754_nan y = false /\ eq80 y S754_nan = false.
Proof. exact nan_relations. Qed.
Theorem c18_zeros_equal : forall s1 s2 : bool, eq80 (S754_zero s1) (S754_zero s2) = true.
Proof. exact zeros_equal. Qed.

(** ** min, max, abs *)
Theorem c18_min_max_abs : forall x y : spec_float, x <> S754_nan -> y <> S754_nan ->
  ((min80 x y = x \/ min80 x y = y) /\ SFleb (min80 x y) x = true /\ SFleb (min80 x y) y = true)
  /\ ((max80 x y = x \/ max80 x y = y) /\ SFleb x (max80 x y) = true /\ SFleb y (max80 x y) = true)
  /\ val (abs80 x) = Rabs (val x)
  /\ abs80 x = match x with S754_zero _ => x | _ => SFabs x end.
Proof.
  exact (fun x y Hx Hy => conj (min80_spec x y Hx Hy) (conj (max80_spec x y Hx Hy)
           (conj (abs80_val x) (abs80_spec x)))).
Qed.
(** which operand the instruction sequences return on ties and on NaN *)
Theorem c18_min_max_ties : forall x y : spec_float,
  (SFcompare x y = Some Eq -> min80 x y = y /\ max80 x y = x)
  /\ (x = S754_nan \/ y = S754_nan -> min80 x y = y /\ max80 x y = x).
Proof. exact (fun x y => conj (min80_tie x y) (min80_nan x y)). Qed.

(** ** what the specification checker of the correspondence batches accepts
    [rne_ok prec emax num den E r] is the integer test "r is the nearest representable value, ties to even, of
    num/den * 2^E" used by [spec_check]; it is sound w.r.t. Flocq's rounding in every format: *)
Theorem c18_rne_ok_sound : forall prec emax : Z, 1 < prec -> prec < emax ->
  forall (num den E : Z) (r : spec_float), 0 < num -> 0 < den -> rne_ok prec emax num den E r = true ->
  let rv := round radix2 (FLT_exp (3 - emax - prec) prec) ZnearestE (IZR num / IZR den * bpow radix2 E) in
  match r with
  | S754_finite _ m e => rv = F2R (Float radix2 (Zpos m) e) /\ bounded prec emax m e = true
  | S754_zero _ => rv = 0%R
  | S754_infinity _ => (bpow radix2 emax <= rv)%R
  | S754_nan => False
  end.
Proof. exact rne_ok_sound. Qed.

(** if [spec_check] accepts a case then, on the OBSERVED operands [x = f80::from(a)], [y = f80::from(b)] (which are
    data of the extended format), every observed arithmetic result is the IEEE result — the exact real result
    rounded to nearest even by [c18_add_correct_f80] … [c18_div_correct_f80], with the special-value tables — and
    every observed binary64 result is the correct rounding ([c18_narrow_correct]) of the observed extended one.

    Group [OExt] (relations on operands that are NOT images of binary64 values: [ext_pairs o] lists the observed
    raws of (e, n_e), (n_e, e) for e = x*y+x, x*y, x/y, x+y and n_e = f80::from(f64::from(e)), and of three
    pairs of unrelated extended values, each with what the library returned on it): the operands are data of
    the extended format and every observed [<], [<=], [>], [>=], [==], [partial_cmp] IS the relation of the
    model on the decoded OBSERVED operands — hence the IEEE comparison by [c18_lt_is_ieee], [c18_eq_is_ieee],
    [c18_le_ge_partial_cmp] and the order of the real values by [c18_compare_real_f80]; the observed [min] /
    [max] is one of the operands and a lower / upper bound of both (the characterisation of
    [c18_min_max_abs]); the observed [abs e] is [e] with the sign cleared (either zero for a zero); the observed
    f64::from(x*y+x) is the correct rounding and every n_e is the exact widening of the observed f64::from(e).
    With a batch lemma [forallb spec_check cases = true] this holds for every sampled case, independently of
    [model_check]. *)
Theorem c18_spec_check_sound : forall (op : opk) (a b : Z) (o : obs), spec_check (Case op a b o) = true ->
  let x := decode80 (o_wa o) in
  let y := decode80 (o_wb o) in
  (sel op OAdd = true -> valid80 x /\ valid80 y /\ decode80 (o_add o) = add80 x y
                         /\ decode64 (o_nadd o) = narrow (decode80 (o_add o)))
  /\ (sel op OSub = true -> valid80 x /\ valid80 y /\ decode80 (o_sub o) = sub80 x y
                         /\ decode64 (o_nsub o) = narrow (decode80 (o_sub o)))
  /\ (sel op OMul = true -> valid80 x /\ valid80 y /\ decode80 (o_mul o) = mul80 x y
                         /\ decode64 (o_nmul o) = narrow (decode80 (o_mul o)))
  /\ (sel op ODiv = true -> valid80 x /\ valid80 y /\ decode80 (o_div o) = div80 x y
                         /\ decode64 (o_ndiv o) = narrow (decode80 (o_div o)))
  /\ (sel op OChain = true -> valid80 x /\ valid80 y /\ valid80 (decode80 (o_mul o))
                         /\ decode80 (o_mad o) = add80 (decode80 (o_mul o)) x
                         /\ decode80 (o_chain o) = div80 (decode80 (o_mad o)) y
                         /\ decode64 (o_nchain o) = narrow (decode80 (o_chain o)))
  /\ (sel op OExt = true ->
        (forall (u v : raw) (r : relobs), In (u, v, r) (ext_pairs o) ->
           let X := decode80 u in
           let Y := decode80 v in
           valid80 X /\ valid80 Y
           /\ r_lt r = lt80 X Y /\ r_le r = le80 X Y /\ r_gt r = gt80 X Y /\ r_ge r = ge80 X Y
           /\ r_eq r = eq80 X Y /\ r_pcmp r = pcmp_code (partial_cmp80 X Y)
           /\ (X <> S754_nan -> Y <> S754_nan ->
               ((decode80 (r_min r) = X \/ decode80 (r_min r) = Y)
                /\ SFleb (decode80 (r_min r)) X = true /\ SFleb (decode80 (r_min r)) Y = true)
               /\ ((decode80 (r_max r) = X \/ decode80 (r_max r) = Y)
                   /\ SFleb X (decode80 (r_max r)) = true /\ SFleb Y (decode80 (r_max r)) = true)))
        /\ (forall u t : raw, In (u, t) (ext_abs o) ->
              match decode80 u with
              | S754_nan => True
              | S754_zero _ => exists s : bool, decode80 t = S754_zero s
              | E => decode80 t = SFabs E
              end)
        /\ decode64 (x_nmad (o_ext o)) = narrow (decode80 (o_mad o))
        /\ (forall (n : Z) (w : raw), In (n, w) (ext_widened o) -> decode80 w = widen (decode64 n))).
Proof. exact spec_check_sound. Qed.

(** ** straight-line programs ([Trace]): what [spec_check] accepts
    Registers r0 = f80::from(a), r1 = f80::from(b), r(k+2) = result of step k.  If [spec_check] accepts the
    observation of a program, then for every step the observed result is the model's operation applied to the
    OBSERVED operand raws (arbitrary extended-format values: results of earlier steps), the observed binary64 value
    is the narrowing of the observed result, and the observed relation code is the model's on the operands. *)
Theorem c18_spec_trace_sound : forall (a b : Z) (wa wb : raw) (steps : list tstep),
  spec_check (Trace a b wa wb steps) = true ->
  decode80 wa = widen (decode64 a) /\ decode80 wb = widen (decode64 b)
  /\ forall (k : nat) (op : top) (i j : nat) (r : raw) (n code : Z),
       nth_error steps k = Some (TS op i j r n code) ->
       let regs := wa :: wb :: map step_raw (firstn k steps) in
       let U := decode80 (nth i regs (0, 0)) in
       let V := decode80 (nth j regs (0, 0)) in
       let R := decode80 r in
       (i < k + 2)%nat /\ (j < k + 2)%nat /\ valid80 U /\ valid80 V
       /\ match op with
          | TAdd => R = add80 U V | TSub => R = sub80 U V | TMul => R = mul80 U V | TDiv => R = div80 U V
          | TNeg => R = neg80 U | TRnd => R = widen (narrow U)
          | TAbs => match U with
                    | S754_nan => True
                    | S754_zero _ => exists s : bool, R = S754_zero s
                    | E => R = SFabs E
                    end
          | TMin => U <> S754_nan -> V <> S754_nan -> (R = U \/ R = V) /\ SFleb R U = true /\ SFleb R V = true
          | TMax => U <> S754_nan -> V <> S754_nan -> (R = U \/ R = V) /\ SFleb U R = true /\ SFleb V R = true
          end
       /\ decode64 n = narrow R /\ code = rel_code U V.
Proof. exact spec_check_trace_sound. Qed.
