(** C18 — what [spec_check] accepts on a straight-line program ([Trace]): every step's observed result is the
    model's operation applied to the OBSERVED operand raws, every observed binary64 value is the narrowing of the
    observed result, and every relation code is the model's on the observed operands. *)
From Coq Require Import ZArith Reals Bool List Floats.SpecFloat Lia.
From RlibV Require Import C18.Model C18.Corr C18.Spec C18.ProofsConv C18.ProofsCmp C18.ProofsSpecSound
  C18.ProofsSpecExt.
Import ListNotations.
Open Scope Z_scope.

Lemma xrel_code_model U V : valid80 U -> valid80 V -> xrel_code U V = rel_code U V.
Proof.
  intros HU HV. unfold xrel_code, rel_code. cbv zeta. rewrite (xcmp_SFcompare U V HU HV).
  rewrite lt80_SFltb, le80_SFleb, gt80_SFltb, ge80_SFleb, eq80_SFeqb, partial_cmp80_SFcompare.
  unfold SFltb, SFleb, SFeqb. rewrite (SFcompare_swap U V).
  destruct (SFcompare U V) as [[| |]|]; reflexivity.
Qed.

Lemma is_nan_raw_decode r : is_nan_raw r = true -> decode80 r = S754_nan.
Proof.
  destruct r as [se m]. unfold is_nan_raw, decode80. cbn [fst snd]. intros H.
  apply andb_prop in H. destruct H as [H1 H2]. rewrite H1. apply negb_true_iff in H2. now rewrite H2.
Qed.

Lemma decode80_flip a : decode80 (flip_raw a) = SFopp (decode80 a).
Proof.
  destruct a as [se m]. unfold flip_raw, decode80. cbn [fst snd].
  rewrite Z.lxor_spec. change (Z.testbit 32768 15) with true. rewrite xorb_true_r.
  assert (E : Z.land (Z.lxor se 32768) 32767 = Z.land se 32767).
  { apply Z.bits_inj'. intros k Hk. rewrite !Z.land_spec, Z.lxor_spec.
    destruct (Z.eq_dec k 15) as [->|Hne].
    - change (Z.testbit 32767 15) with false. now rewrite !andb_false_r.
    - replace (Z.testbit 32768 k) with false; [now rewrite xorb_false_r|].
      symmetry. change 32768 with (2 ^ 15). apply Z.pow2_bits_false. lia. }
  rewrite E.
  destruct (Z.land se 32767 =? 32767).
  - destruct (m =? 9223372036854775808); reflexivity.
  - destruct m; reflexivity.
Qed.

(** what one accepted step establishes, on the decoded OBSERVED operands [U], [V] and result [R] *)
Definition minmax_sound (lo : bool) (X Y R : spec_float) : Prop :=
  X <> S754_nan -> Y <> S754_nan ->
  (R = X \/ R = Y)
  /\ (if lo then SFleb R X = true /\ SFleb R Y = true else SFleb X R = true /\ SFleb Y R = true).
Definition step_prop (op : top) (U V R : spec_float) : Prop :=
  match op with
  | TAdd => R = add80 U V | TSub => R = sub80 U V | TMul => R = mul80 U V | TDiv => R = div80 U V
  | TNeg => R = neg80 U | TRnd => R = widen (narrow U)
  | TAbs => match U with
            | S754_nan => True
            | S754_zero _ => exists s : bool, R = S754_zero s
            | E => R = SFabs E
            end
  | TMin => U <> S754_nan -> V <> S754_nan -> (R = U \/ R = V) /\ SFleb R U = true /\ SFleb R V = true
  | TMax => U <> S754_nan -> V <> S754_nan -> (R = U \/ R = V) /\ SFleb U R = true /\ SFleb V R = true
  end.
Definition step_sound (op : top) (u v r : raw) : Prop := step_prop op (decode80 u) (decode80 v) (decode80 r).
Fixpoint trace_sound (regs : list raw) (steps : list tstep) : Prop :=
  match steps with
  | [] => True
  | TS op i j r n code :: rest =>
      let u := nth i regs (0, 0) in
      let v := nth j regs (0, 0) in
      (i < List.length regs)%nat /\ (j < List.length regs)%nat
      /\ valid80 (decode80 u) /\ valid80 (decode80 v)
      /\ step_sound op u v r
      /\ decode64 n = narrow (decode80 r)
      /\ code = rel_code (decode80 u) (decode80 v)
      /\ trace_sound (regs ++ [r]) rest
  end.

Lemma minmax_sound_min u v r :
  valid80 (decode80 u) -> valid80 (decode80 v) ->
  match xcmp (decode80 u) (decode80 v) with
  | Some Lt => raw_eqb r u | Some Gt => raw_eqb r v
  | Some Eq => raw_eqb r u || raw_eqb r v | None => true
  end = true -> minmax_sound true (decode80 u) (decode80 v) (decode80 r).
Proof.
  intros HU HV H. rewrite (xcmp_SFcompare _ _ HU HV) in H.
  set (X := decode80 u) in *. set (Y := decode80 v) in *. intros HnX HnY.
  pose proof (SFcompare_refl X HnX) as HX. pose proof (SFcompare_refl Y HnY) as HY.
  pose proof (SFcompare_swap X Y) as Hs.
  destruct (SFcompare X Y) as [[| |]|] eqn:Hc; cbn [CompOpp] in Hs.
  - apply orb_prop in H. destruct H as [E|E]; apply raw_eqb_eq in E; rewrite E; fold X Y;
      unfold SFleb; rewrite ?HX, ?HY, ?Hc, ?Hs; auto.
  - apply raw_eqb_eq in H. rewrite H. fold X. unfold SFleb. rewrite HX, Hc. auto.
  - apply raw_eqb_eq in H. rewrite H. fold Y. unfold SFleb. rewrite HY, Hs. auto.
  - exfalso. destruct (proj1 (SFcompare_None X Y) Hc); contradiction.
Qed.

Lemma minmax_sound_max u v r :
  valid80 (decode80 u) -> valid80 (decode80 v) ->
  match xcmp (decode80 u) (decode80 v) with
  | Some Lt => raw_eqb r v | Some Gt => raw_eqb r u
  | Some Eq => raw_eqb r u || raw_eqb r v | None => true
  end = true -> minmax_sound false (decode80 u) (decode80 v) (decode80 r).
Proof.
  intros HU HV H. rewrite (xcmp_SFcompare _ _ HU HV) in H.
  set (X := decode80 u) in *. set (Y := decode80 v) in *. intros HnX HnY.
  pose proof (SFcompare_refl X HnX) as HX. pose proof (SFcompare_refl Y HnY) as HY.
  pose proof (SFcompare_swap X Y) as Hs.
  destruct (SFcompare X Y) as [[| |]|] eqn:Hc; cbn [CompOpp] in Hs.
  - apply orb_prop in H. destruct H as [E|E]; apply raw_eqb_eq in E; rewrite E; fold X Y;
      unfold SFleb; rewrite ?HX, ?HY, ?Hc, ?Hs; auto.
  - apply raw_eqb_eq in H. rewrite H. fold Y. unfold SFleb. rewrite HY, Hc. auto.
  - apply raw_eqb_eq in H. rewrite H. fold X. unfold SFleb. rewrite HX, Hs. auto.
  - exfalso. destruct (proj1 (SFcompare_None X Y) Hc); contradiction.
Qed.

Lemma top_spec_sound op u v r n :
  valid80 (decode80 u) -> valid80 (decode80 v) -> top_spec op u v r n = true -> step_sound op u v r.
Proof.
  intros HU HV H. unfold top_spec in H. cbv zeta in H. unfold step_sound, step_prop.
  destruct op.
  - now apply spec_add_model.
  - now apply spec_sub_model.
  - now apply spec_mul_model.
  - now apply spec_div_model.
  - (* neg *)
    destruct (is_nan_sf (decode80 u)) eqn:En.
    + apply is_nan_sf_eq in En. rewrite En. now apply is_nan_raw_decode.
    + apply raw_eqb_eq in H. rewrite H. apply decode80_flip.
  - (* abs *) pose proof (spec_abs_sound u r H) as Ha. unfold abs_sound in Ha.
    destruct (decode80 u); exact Ha.
  - intros Hx Hy. destruct (minmax_sound_min u v r HU HV H Hx Hy) as (A & B & C). auto.
  - intros Hx Hy. destruct (minmax_sound_max u v r HU HV H Hx Hy) as (A & B & C). auto.
  - (* rnd *)
    apply andb_prop in H. destruct H as [H1 H2].
    apply spec_round_narrow in H1. rewrite <- H1.
    apply spec_widen_sound; [apply decode64_valid|exact H2].
Qed.

Lemma trace_spec_sound steps : forall regs, trace_spec regs steps = true -> trace_sound regs steps.
Proof.
  induction steps as [|[op i j r n code] rest IH]; intros regs H; cbn [trace_spec trace_sound] in *; [exact I|].
  cbv zeta in H.
  apply andb_prop in H. destruct H as [H Hrest].
  apply andb_prop in H. destruct H as [H Hcode].
  apply andb_prop in H. destruct H as [H Hn].
  apply andb_prop in H. destruct H as [H Hop].
  apply andb_prop in H. destruct H as [H HV].
  apply andb_prop in H. destruct H as [H HU].
  apply andb_prop in H. destruct H as [Hi Hj].
  apply Nat.ltb_lt in Hi, Hj. apply Z.eqb_eq in Hcode.
  change (valid80 (decode80 (nth i regs (0, 0)))) in HU. change (valid80 (decode80 (nth j regs (0, 0)))) in HV.
  repeat split; try assumption.
  - now apply (top_spec_sound op _ _ r n).
  - now apply spec_round_narrow.
  - rewrite Hcode. now apply xrel_code_model.
  - now apply IH.
Qed.

Lemma trace_sound_nth steps : forall regs, trace_sound regs steps ->
  forall k op i j r n code, nth_error steps k = Some (TS op i j r n code) ->
  let regs' := regs ++ map step_raw (firstn k steps) in
  let U := decode80 (nth i regs' (0, 0)) in
  let V := decode80 (nth j regs' (0, 0)) in
  let R := decode80 r in
  (i < List.length regs + k)%nat /\ (j < List.length regs + k)%nat /\ valid80 U /\ valid80 V
  /\ step_prop op U V R /\ decode64 n = narrow R /\ code = rel_code U V.
Proof.
  induction steps as [|[op0 i0 j0 r0 n0 code0] rest IH]; intros regs H k op i j r n code Hk.
  - destruct k; discriminate.
  - cbn [trace_sound] in H. cbv zeta in H. destruct H as (Hi & Hj & HU & HV & Hs & Hn & Hc & Hrest).
    destruct k as [|k].
    + cbn [nth_error] in Hk. injection Hk as -> -> -> -> -> ->.
      cbn [firstn map]. rewrite app_nil_r. cbv zeta. rewrite Nat.add_0_r.
      repeat split; assumption.
    + cbn [nth_error] in Hk. specialize (IH (regs ++ [r0]) Hrest k op i j r n code Hk). cbv zeta in IH.
      cbn [firstn map step_raw]. cbv zeta.
      rewrite app_length in IH. cbn [List.length] in IH.
      replace (regs ++ r0 :: map step_raw (firstn k rest)) with ((regs ++ [r0]) ++ map step_raw (firstn k rest))
        by (rewrite <- app_assoc; reflexivity).
      replace (List.length regs + S k)%nat with (List.length regs + 1 + k)%nat by lia.
      exact IH.
Qed.

Lemma spec_check_trace_sound (a b : Z) (wa wb : raw) (steps : list tstep) :
  spec_check (Trace a b wa wb steps) = true ->
  decode80 wa = widen (decode64 a) /\ decode80 wb = widen (decode64 b)
  /\ forall (k : nat) (op : top) (i j : nat) (r : raw) (n code : Z),
       nth_error steps k = Some (TS op i j r n code) ->
       let regs := wa :: wb :: map step_raw (firstn k steps) in
       let U := decode80 (nth i regs (0, 0)) in
       let V := decode80 (nth j regs (0, 0)) in
       let R := decode80 r in
       (i < k + 2)%nat /\ (j < k + 2)%nat /\ valid80 U /\ valid80 V
       /\ step_prop op U V R /\ decode64 n = narrow R /\ code = rel_code U V.
Proof.
  intros H. unfold spec_check in H.
  apply andb_prop in H. destruct H as [H Ht].
  apply andb_prop in H. destruct H as [Ha Hb].
  split; [|split].
  - apply spec_widen_sound; [apply decode64_valid|exact Ha].
  - apply spec_widen_sound; [apply decode64_valid|exact Hb].
  - intros k op i j r n code Hk.
    pose proof (trace_sound_nth steps [wa; wb] (trace_spec_sound steps _ Ht) k op i j r n code Hk) as T.
    cbv zeta in T. cbn [List.length app] in T. cbv zeta.
    replace (k + 2)%nat with (2 + k)%nat by lia. exact T.
Qed.
