(** C18 — correspondence cases.

    A case is a pair of binary64 bit patterns [a], [b] together with everything
    the real [rlib_f80] returned on [x = f80::from(a)], [y = f80::from(b)]
    (raw bytes as (sign/exponent word, significand word), f64 results as bit
    patterns, booleans) — and, in the group [OExt], what the relations, [min],
    [max], [abs] returned on operands that are NOT images of binary64 values:
    the extended-format results [m = x*y+x], [p = x*y], [q = x/y], [s = x+y]
    against their own roundings through binary64 [n_e = f80::from(f64::from(e))]
    (equal to [e], one 64-bit ulp away from it, an infinity or a zero when [e] is
    outside the binary64 range) and against each other.

    A second kind of case, [Trace], is a straight-line program over the crate's operations (by-value and
    assigning operators, [neg], [abs], [min], [max], the round trip through binary64) on registers that start
    with [x], [y]: every step records the raw result, [f64::from] of it and the relation code of its operand pair.
    Operands of those steps are arbitrary extended-format values (differences, products and quotients of extended
    values, results of [neg]/[min]/[max]/[abs], f80 overflows to infinity, f80 denormals).

    [model_check]: the observation equals what the model computes (NaNs as a class).
    [spec_check]:  the observation satisfies the property, decided by exact
    integer/rational arithmetic on the decoded operands — no [SFadd]/[SFmul]/…
    is called here: the observed result must be THE nearest representable value
    (ties to even) of the exact dyadic/rational result, checked against its two
    neighbours in the format. *)
From Coq Require Import ZArith List Bool String Floats.SpecFloat Uint63.
From RlibV Require Import Common.Batch C18.Model.
Import ListNotations.
Open Scope Z_scope.

Inductive opk := OAll | OAdd | OSub | OMul | ODiv | ONeg | OChain | OConv | ORel | OMinMax | OAbs | OExt.

Definition opk_eqb (a b : opk) : bool :=
  match a, b with
  | OAll, OAll | OAdd, OAdd | OSub, OSub | OMul, OMul | ODiv, ODiv | ONeg, ONeg
  | OChain, OChain | OConv, OConv | ORel, ORel | OMinMax, OMinMax | OAbs, OAbs | OExt, OExt => true
  | _, _ => false
  end.

(** everything the relations returned on one ordered pair (u, v) of extended-format operands *)
Record relobs := mkRel {
  r_lt : bool; r_le : bool; r_gt : bool; r_ge : bool; r_eq : bool;   (* u<v u<=v u>v u>=v u==v *)
  r_pcmp : Z;                                   (* u.partial_cmp(v): 0 None, 1 Less, 2 Equal, 3 Greater *)
  r_min : raw; r_max : raw                      (* u.min(v), u.max(v) *)
}.

(** the group [OExt]: with m = x*y+x, p = x*y, q = x/y, s = x+y (their raws are [o_mad], [o_mul], [o_div],
    [o_add] below) and n_e = f80::from(f64::from(e)) *)
Record extobs := mkExt {
  x_nmad : Z;                                   (* f64::from(m); those of p, q, s are o_nmul, o_ndiv, o_nadd *)
  x_nm : raw; x_np : raw; x_nq : raw; x_ns : raw;            (* n_m n_p n_q n_s *)
  x_m_nm : relobs; x_nm_m : relobs; x_p_np : relobs; x_np_p : relobs;
  x_q_nq : relobs; x_nq_q : relobs; x_s_ns : relobs; x_ns_s : relobs;
  x_m_p : relobs; x_p_s : relobs; x_s_q : relobs;            (* two unrelated extended values *)
  x_am : raw; x_ap : raw; x_aq : raw; x_as : raw             (* m.abs() p.abs() q.abs() s.abs() *)
}.

Record obs := mkObs {
  o_wa : raw; o_wb : raw;                       (* f80::from(a), f80::from(b) *)
  o_add : raw; o_sub : raw; o_mul : raw; o_div : raw; o_neg : raw;   (* x+y x-y x*y x/y -x *)
  o_mad : raw; o_chain : raw;                   (* x*y+x, (x*y+x)/y *)
  o_back : Z;                                   (* f64::from(f80::from(a)) *)
  o_nadd : Z; o_nsub : Z; o_nmul : Z; o_ndiv : Z; o_nchain : Z;  (* f64::from of the results *)
  o_lt : bool; o_le : bool; o_gt : bool; o_ge : bool; o_eq : bool;
  o_pcmp : Z;                                   (* 0 None, 1 Less, 2 Equal, 3 Greater *)
  o_min : raw; o_max : raw; o_abs : raw;
  o_ext : extobs
}.

(** the ordered operand pairs of the group [OExt] (as OBSERVED raws) with what the relations returned on them *)
Definition ext_pairs (o : obs) : list (raw * raw * relobs) :=
  let e := o_ext o in
  [ (o_mad o, x_nm e, x_m_nm e); (x_nm e, o_mad o, x_nm_m e);
    (o_mul o, x_np e, x_p_np e); (x_np e, o_mul o, x_np_p e);
    (o_div o, x_nq e, x_q_nq e); (x_nq e, o_div o, x_nq_q e);
    (o_add o, x_ns e, x_s_ns e); (x_ns e, o_add o, x_ns_s e);
    (o_mad o, o_mul o, x_m_p e); (o_mul o, o_add o, x_p_s e); (o_add o, o_div o, x_s_q e) ].
(** (operand, what [abs] returned on it) *)
Definition ext_abs (o : obs) : list (raw * raw) :=
  let e := o_ext o in
  [ (o_mad o, x_am e); (o_mul o, x_ap e); (o_div o, x_aq e); (o_add o, x_as e) ].
(** (observed f64::from(e), observed f80::from(f64::from(e))) for e = m, p, q, s *)
Definition ext_widened (o : obs) : list (Z * raw) :=
  let e := o_ext o in
  [ (x_nmad e, x_nm e); (o_nmul o, x_np e); (o_ndiv o, x_nq e); (o_nadd o, x_ns e) ].

(** ** straight-line programs over the crate's operations (constructor [Trace])
    Registers r0 = f80::from(a), r1 = f80::from(b); step k computes r(k+2) = op(r_i, r_j) and records the raw
    result, [f64::from] of it, and the relation code of the ordered operand pair (r_i, r_j) (the six relations
    taken through references to the two registers: the SAME reference twice when i = j).  Operands are therefore
    arbitrary extended-format values: results of earlier steps (differences, products, quotients, negations,
    [min]/[max]/[abs] results, f80 overflows to infinity, f80 denormals). *)
Inductive top := TAdd | TSub | TMul | TDiv | TNeg | TAbs | TMin | TMax | TRnd.
Inductive tstep := TS (op : top) (i j : nat) (r : raw) (n : Z) (code : Z).

Inductive case :=
| Case (op : opk) (a b : Z) (o : obs)
| Trace (a b : Z) (wa wb : raw) (steps : list tstep).

Definition sel (op k : opk) : bool := opk_eqb op OAll || opk_eqb op k.
(** [on op k c]: check [c] only when group [k] is selected (a notation: [vm_compute] is call by value) *)
Notation on op k c := (if sel op k then c else true) (only parsing).

Definition pcmp_code (c : option comparison) : Z :=
  match c with None => 0 | Some Lt => 1 | Some Eq => 2 | Some Gt => 3 end.

(** the executor's relation code [u<v] + 2[u<=v] + 4[u>v] + 8[u>=v] + 16[u==v] + 32*partial_cmp, by the model *)
Definition b2z (b : bool) : Z := if b then 1 else 0.
Definition rel_code (u v : spec_float) : Z :=
  b2z (lt80 u v) + 2 * b2z (le80 u v) + 4 * b2z (gt80 u v) + 8 * b2z (ge80 u v) + 16 * b2z (eq80 u v)
  + 32 * pcmp_code (partial_cmp80 u v).
(** one operation of a trace, by the model ([TRnd] is [f80::from(f64::from(u))]; the assigning operators are
    the same model functions: [*self = self.add(rhs)]) *)
Definition top_model (op : top) (u v : spec_float) : spec_float :=
  match op with
  | TAdd => add80 u v | TSub => sub80 u v | TMul => mul80 u v | TDiv => div80 u v
  | TNeg => neg80 u | TAbs => abs80 u | TMin => min80 u v | TMax => max80 u v
  | TRnd => widen (narrow u)
  end.
(** the registers hold the MODEL's values *)
Fixpoint trace_model (regs : list spec_float) (steps : list tstep) : bool :=
  match steps with
  | [] => true
  | TS op i j r n code :: rest =>
      let u := nth i regs S754_nan in
      let v := nth j regs S754_nan in
      let m := top_model op u v in
      Nat.ltb i (List.length regs) && Nat.ltb j (List.length regs)
      && raw_same (encode80 m) r && bits_same (encode64 (narrow m)) n
      && (code =? rel_code u v)
      && trace_model (regs ++ [m]) rest
  end.

(** ** implementation = model *)
Definition model_check (c : case) : bool :=
  match c with
  | Trace a b wa wb steps =>
      let x := widen (decode64 a) in
      let y := widen (decode64 b) in
      raw_same (encode80 x) wa && raw_same (encode80 y) wb && trace_model [x; y] steps
  | Case op a b o =>
  let x := widen (decode64 a) in
  let y := widen (decode64 b) in
  let same r v := raw_same (encode80 v) r in
  let sameb n v := bits_same (encode64 v) n in
  (* the four extended results are used by several groups: evaluated once ([vm_compute] is call by value);
     [m] is [mad80 x y] unfolded so that the product is shared *)
  let s := add80 x y in
  let p := mul80 x y in
  let q := div80 x y in
  let m := add80 p x in
  on op OConv (same (o_wa o) x && same (o_wb o) y && sameb (o_back o) (narrow x))
  && on op OAdd (same (o_add o) s && sameb (o_nadd o) (narrow s))
  && on op OSub (let r := sub80 x y in same (o_sub o) r && sameb (o_nsub o) (narrow r))
  && on op OMul (same (o_mul o) p && sameb (o_nmul o) (narrow p))
  && on op ODiv (same (o_div o) q && sameb (o_ndiv o) (narrow q))
  && on op ONeg (same (o_neg o) (neg80 x))
  && on op OChain (let r := div80 m y in
                   same (o_mad o) m && same (o_chain o) r && sameb (o_nchain o) (narrow r))
  && on op ORel (Bool.eqb (o_lt o) (lt80 x y) && Bool.eqb (o_le o) (le80 x y) && Bool.eqb (o_gt o) (gt80 x y)
                 && Bool.eqb (o_ge o) (ge80 x y) && Bool.eqb (o_eq o) (eq80 x y)
                 && (o_pcmp o =? pcmp_code (partial_cmp80 x y)))
  && on op OMinMax (same (o_min o) (min80 x y) && same (o_max o) (max80 x y))
  && on op OAbs (same (o_abs o) (abs80 x))
  && on op OExt
       (let nm := widen (narrow m) in let np := widen (narrow p) in
        let nq := widen (narrow q) in let ns := widen (narrow s) in
        (* the same model functions, applied to the model's own extended values *)
        let rel u v r :=
            Bool.eqb (r_lt r) (lt80 u v) && Bool.eqb (r_le r) (le80 u v) && Bool.eqb (r_gt r) (gt80 u v)
            && Bool.eqb (r_ge r) (ge80 u v) && Bool.eqb (r_eq r) (eq80 u v)
            && (r_pcmp r =? pcmp_code (partial_cmp80 u v))
            && same (r_min r) (min80 u v) && same (r_max r) (max80 u v) in
        let e := o_ext o in
        sameb (x_nmad e) (narrow m)
        && same (x_nm e) nm && same (x_np e) np && same (x_nq e) nq && same (x_ns e) ns
        && rel m nm (x_m_nm e) && rel nm m (x_nm_m e) && rel p np (x_p_np e) && rel np p (x_np_p e)
        && rel q nq (x_q_nq e) && rel nq q (x_nq_q e) && rel s ns (x_s_ns e) && rel ns s (x_ns_s e)
        && rel m p (x_m_p e) && rel p s (x_p_s e) && rel s q (x_s_q e)
        && same (x_am e) (abs80 m) && same (x_ap e) (abs80 p) && same (x_aq e) (abs80 q)
        && same (x_as e) (abs80 s))
  end.

(** ** the specification, decided on integers *)

(** Is the magnitude of [r] the round-to-nearest-even image, in the format
    (prec, emax), of the positive rational [v = num/den * 2^E] ([num, den > 0])?
    With [R = mr * 2^er] the candidate and [U = 2^(er-1)]: [R] must be
    canonical, and [2v] must lie between [R + pred R] and [R + succ R]
    (a tie is allowed only for an even significand).  [succ R = (mr+1) 2^er];
    [pred R = (mr-1) 2^er], except at a binade boundary ([mr = 2^(prec-1)],
    [er > emin]) where it is [(2^prec - 1) 2^(er-1)].  Overflow: the result is
    an infinity iff [v >= (2^prec - 1/2) 2^(emax-prec)]. *)
(** compare [num/den * 2^k] with the integer [c] ([den > 0]) without building [c * den * 2^(-k)] by a
    long multiplication *)
Definition cmp_scaled (num den k c : Z) : comparison :=
  if 0 <=? k then Z.shiftl num k ?= c * den else num ?= Z.shiftl (c * den) (- k).

Definition rne_ok (prec emax num den E : Z) (r : spec_float) : bool :=
  let emin := 3 - emax - prec in
  match r with
  | S754_nan => false
  | S754_infinity _ =>
      match cmp_scaled num den (E - (emax - prec) + 1) (2 ^ (prec + 1) - 1) with Lt => false | _ => true end
  | _ =>
      let '(mr, er) := match r with S754_finite _ m e => (Zpos m, e) | _ => (0, emin) end in
      let canonical :=
        ((2 ^ (prec - 1) <=? mr) && (mr <? 2 ^ prec) && (emin <=? er) && (er <=? emax - prec))
        || ((mr <? 2 ^ (prec - 1)) && (er =? emin)) in
      let k := E - er + 2 in
      let ev := Z.even mr in
      let hi := match cmp_scaled num den k (4 * mr + 2) with Lt => true | Eq => ev | Gt => false end in
      let lowc := if (mr =? 2 ^ (prec - 1)) && (emin <? er) then 4 * mr - 1 else 4 * mr - 2 in
      let lo := if mr =? 0 then true
                else match cmp_scaled num den k lowc with Gt => true | Eq => ev | Lt => false end in
      canonical && hi && lo
  end.

Definition sign_of (r : spec_float) : option bool :=
  match r with
  | S754_zero s | S754_infinity s | S754_finite s _ _ => Some s
  | S754_nan => None
  end.
Definition has_sign (s : bool) (r : spec_float) : bool :=
  match sign_of r with Some s' => Bool.eqb s s' | None => false end.
Definition is_nan_sf (r : spec_float) : bool := match r with S754_nan => true | _ => false end.
Definition is_inf_sf (s : bool) (r : spec_float) : bool :=
  match r with S754_infinity s' => Bool.eqb s s' | _ => false end.
Definition is_zero_sf (s : bool) (r : spec_float) : bool :=
  match r with S754_zero s' => Bool.eqb s s' | _ => false end.

(** finite-or-zero operand as (sign, significand >= 0, exponent) *)
Definition parts (x : spec_float) : bool * Z * Z :=
  match x with
  | S754_finite s m e => (s, Zpos m, e)
  | S754_zero s => (s, 0, 0)
  | _ => (false, 0, 0)
  end.
Definition flip (x : spec_float) : spec_float :=
  match x with
  | S754_zero s => S754_zero (negb s)
  | S754_infinity s => S754_infinity (negb s)
  | S754_finite s m e => S754_finite (negb s) m e
  | S754_nan => S754_nan
  end.

(** IEEE addition table + correct rounding of the exact sum *)
Definition spec_add (prec emax : Z) (x y r : spec_float) : bool :=
  match x, y with
  | S754_nan, _ | _, S754_nan => is_nan_sf r
  | S754_infinity sx, S754_infinity sy => if Bool.eqb sx sy then is_inf_sf sx r else is_nan_sf r
  | S754_infinity sx, _ => is_inf_sf sx r
  | _, S754_infinity sy => is_inf_sf sy r
  | _, _ =>
      let '(sx, mx, ex) := parts x in
      let '(sy, my, ey) := parts y in
      let E := Z.min ex ey in
      let N := Z.shiftl (if sx then - mx else mx) (ex - E) + Z.shiftl (if sy then - my else my) (ey - E) in
      if N =? 0 then
        (* exact zero: -0 only for (-0) + (-0) *)
        is_zero_sf ((mx =? 0) && (my =? 0) && sx && sy) r
      else has_sign (N <? 0) r && rne_ok prec emax (Z.abs N) 1 E r
  end.

Definition spec_mul (prec emax : Z) (x y r : spec_float) : bool :=
  match x, y with
  | S754_nan, _ | _, S754_nan => is_nan_sf r
  | S754_infinity _, S754_zero _ | S754_zero _, S754_infinity _ => is_nan_sf r
  | S754_infinity sx, (S754_infinity sy | S754_finite sy _ _)
  | S754_finite sx _ _, S754_infinity sy => is_inf_sf (xorb sx sy) r
  | S754_zero sx, (S754_zero sy | S754_finite sy _ _)
  | S754_finite sx _ _, S754_zero sy => is_zero_sf (xorb sx sy) r
  | S754_finite sx mx ex, S754_finite sy my ey =>
      has_sign (xorb sx sy) r && rne_ok prec emax (Zpos mx * Zpos my) 1 (ex + ey) r
  end.

Definition spec_div (prec emax : Z) (x y r : spec_float) : bool :=
  match x, y with
  | S754_nan, _ | _, S754_nan => is_nan_sf r
  | S754_infinity _, S754_infinity _ | S754_zero _, S754_zero _ => is_nan_sf r
  | S754_infinity sx, (S754_zero sy | S754_finite sy _ _)
  | S754_finite sx _ _, S754_zero sy => is_inf_sf (xorb sx sy) r      (* incl. division by zero *)
  | S754_zero sx, (S754_infinity sy | S754_finite sy _ _)
  | S754_finite sx _ _, S754_infinity sy => is_zero_sf (xorb sx sy) r
  | S754_finite sx mx ex, S754_finite sy my ey =>
      has_sign (xorb sx sy) r && rne_ok prec emax (Zpos mx) (Zpos my) (ex - ey) r
  end.

(** rounding of an exactly known value into a format (conversions) *)
Definition spec_round (prec emax : Z) (x r : spec_float) : bool :=
  match x with
  | S754_nan => is_nan_sf r
  | S754_infinity s => is_inf_sf s r
  | S754_zero s => is_zero_sf s r
  | S754_finite s m e => has_sign s r && rne_ok prec emax (Zpos m) 1 e r
  end.

(** exact comparison of two values (of any format), on integers *)
Definition xcmp (x y : spec_float) : option comparison :=
  match x, y with
  | S754_nan, _ | _, S754_nan => None
  | S754_infinity sx, S754_infinity sy =>
      Some (if Bool.eqb sx sy then Eq else if sx then Lt else Gt)
  | S754_infinity sx, _ => Some (if sx then Lt else Gt)
  | _, S754_infinity sy => Some (if sy then Gt else Lt)
  | _, _ =>
      let '(sx, mx, ex) := parts x in
      let '(sy, my, ey) := parts y in
      let E := Z.min ex ey in
      Some (Z.shiftl (if sx then - mx else mx) (ex - E) ?= Z.shiftl (if sy then - my else my) (ey - E))
  end.
Definition cmp_in (c : option comparison) (l : list comparison) : bool :=
  match c with
  | Some Lt => existsb (fun d => match d with Lt => true | _ => false end) l
  | Some Eq => existsb (fun d => match d with Eq => true | _ => false end) l
  | Some Gt => existsb (fun d => match d with Gt => true | _ => false end) l
  | None => false
  end.

(** exact widening: same class and sign, same real value, 64-bit significand *)
Definition spec_widen (v : spec_float) (w : raw) : bool :=
  match v with
  | S754_nan => is_nan_raw w
  | S754_infinity s => (fst w =? sgn16 s + 32767) && (snd w =? 2 ^ 63)
  | S754_zero s => (fst w =? sgn16 s) && (snd w =? 0)
  | S754_finite s m e =>
      match decode80 w with
      | S754_finite s' m' e' =>
          Bool.eqb s s' && (2 ^ 63 <=? Zpos m') && (Zpos m' <? 2 ^ 64) && (e' <=? e)
          && (Zpos m' =? Z.shiftl (Zpos m) (e - e'))
      | _ => false
      end
  end.

Definition raw_eqb (a b : raw) : bool := (fst a =? fst b) && (snd a =? snd b).
Definition flip_raw (a : raw) : raw := (Z.lxor (fst a) 32768, snd a).
Definition clear_raw (a : raw) : raw := (Z.land (fst a) 32767, snd a).

(** the relations on one ordered pair of OBSERVED extended-format operands [u], [v]: the booleans and
    [partial_cmp] are those of the exact order of the decoded values (NaN unordered, -0 = +0); [min]/[max] return
    the operand that is the smaller / the larger one in that exact order (any of the two on a tie, as the
    property allows; nothing is required when an operand is a NaN) *)
Definition spec_rel (u v : raw) (r : relobs) : bool :=
  let U := decode80 u in
  let V := decode80 v in
  let c := xcmp U V in
  let either w := raw_eqb w u || raw_eqb w v in
  valid_binary 64 16384 U && valid_binary 64 16384 V
  && Bool.eqb (r_lt r) (cmp_in c [Lt]) && Bool.eqb (r_le r) (cmp_in c [Lt; Eq])
  && Bool.eqb (r_gt r) (cmp_in c [Gt]) && Bool.eqb (r_ge r) (cmp_in c [Gt; Eq])
  && Bool.eqb (r_eq r) (cmp_in c [Eq]) && (r_pcmp r =? pcmp_code c)
  && match c with
     | Some Lt => raw_eqb (r_min r) u && raw_eqb (r_max r) v
     | Some Gt => raw_eqb (r_min r) v && raw_eqb (r_max r) u
     | Some Eq => either (r_min r) && either (r_max r)
     | None => true
     end.

(** [abs] of an observed extended-format operand: same magnitude bits, and not below zero *)
Definition spec_abs (u a : raw) : bool :=
  if is_nan_sf (decode80 u) then true
  else raw_eqb (clear_raw a) (clear_raw u) && cmp_in (xcmp (decode80 a) (S754_zero false)) [Gt; Eq].

(** *** traces: every step judged on the OBSERVED raw operands *)
(** the relation code of the exact order of two decoded operands (NaN unordered, -0 = +0) *)
Definition xrel_code (U V : spec_float) : Z :=
  let c := xcmp U V in
  b2z (cmp_in c [Lt]) + 2 * b2z (cmp_in c [Lt; Eq]) + 4 * b2z (cmp_in c [Gt]) + 8 * b2z (cmp_in c [Gt; Eq])
  + 16 * b2z (cmp_in c [Eq]) + 32 * pcmp_code c.
(** the result [r] (and, for [TRnd], the binary64 value [n] in between) of one operation on the observed
    operand raws [u], [v]: IEEE table + correct rounding of the exact result; negation flips the sign bit;
    [min]/[max] return the smaller / larger operand of the exact order (either on a tie, nothing is required
    when an operand is a NaN); [abs] as [spec_abs] *)
Definition top_spec (op : top) (u v r : raw) (n : Z) : bool :=
  let U := decode80 u in
  let V := decode80 v in
  let R := decode80 r in
  match op with
  | TAdd => spec_add 64 16384 U V R
  | TSub => spec_add 64 16384 U (flip V) R
  | TMul => spec_mul 64 16384 U V R
  | TDiv => spec_div 64 16384 U V R
  | TNeg => if is_nan_sf U then is_nan_raw r else raw_eqb r (flip_raw u)
  | TAbs => spec_abs u r
  | TMin => match xcmp U V with
            | Some Lt => raw_eqb r u | Some Gt => raw_eqb r v
            | Some Eq => raw_eqb r u || raw_eqb r v | None => true
            end
  | TMax => match xcmp U V with
            | Some Lt => raw_eqb r v | Some Gt => raw_eqb r u
            | Some Eq => raw_eqb r u || raw_eqb r v | None => true
            end
  | TRnd => spec_round 53 1024 U (decode64 n) && spec_widen (decode64 n) r
  end.
(** the registers hold the OBSERVED raws *)
Fixpoint trace_spec (regs : list raw) (steps : list tstep) : bool :=
  match steps with
  | [] => true
  | TS op i j r n code :: rest =>
      let u := nth i regs (0, 0) in
      let v := nth j regs (0, 0) in
      Nat.ltb i (List.length regs) && Nat.ltb j (List.length regs)
      && valid_binary 64 16384 (decode80 u) && valid_binary 64 16384 (decode80 v)
      && top_spec op u v r n
      && spec_round 53 1024 (decode80 r) (decode64 n)
      && (code =? xrel_code (decode80 u) (decode80 v))
      && trace_spec (regs ++ [r]) rest
  end.

(** the raw result recorded in a step (the registers of a trace are r0, r1 and these, in order) *)
Definition step_raw (s : tstep) : raw := let '(TS _ _ _ r _ _) := s in r.

Definition spec_check (c : case) : bool :=
  match c with
  | Trace a b wa wb steps =>
      spec_widen (decode64 a) wa && spec_widen (decode64 b) wb && trace_spec [wa; wb] steps
  | Case op a b o =>
  let va := decode64 a in
  let vb := decode64 b in
  (* the operands of the arithmetic are the OBSERVED widened values *)
  let x := decode80 (o_wa o) in
  let y := decode80 (o_wb o) in
  (* the observed operands are data of the extended format (canonical significand, exponent in range) *)
  let ok v := valid_binary 64 16384 v in
  let ar (sp : Z -> Z -> spec_float -> spec_float -> spec_float -> bool) r n :=
      ok x && ok y && sp 64 16384 x y (decode80 r) && spec_round 53 1024 (decode80 r) (decode64 n) in
  let nonan := negb (is_nan_sf va) && negb (is_nan_sf vb) in
  on op OConv (spec_widen va (o_wa o) && spec_widen vb (o_wb o)
               && (if is_nan_sf va then is_nan_bits (o_back o) else o_back o =? a))
  && on op OAdd (ar spec_add (o_add o) (o_nadd o))
  && on op OSub (ok x && ok y && spec_add 64 16384 x (flip y) (decode80 (o_sub o))
                 && spec_round 53 1024 (decode80 (o_sub o)) (decode64 (o_nsub o)))
  && on op OMul (ar spec_mul (o_mul o) (o_nmul o))
  && on op ODiv (ar spec_div (o_div o) (o_ndiv o))
  && on op ONeg (if is_nan_sf va then is_nan_raw (o_neg o) else raw_eqb (o_neg o) (flip_raw (o_wa o)))
  && on op OChain (ok x && ok y && ok (decode80 (o_mul o)) && ok (decode80 (o_mad o))
                   && spec_add 64 16384 (decode80 (o_mul o)) x (decode80 (o_mad o))
                   && spec_div 64 16384 (decode80 (o_mad o)) y (decode80 (o_chain o))
                   && spec_round 53 1024 (decode80 (o_chain o)) (decode64 (o_nchain o)))
  && on op ORel (let c := xcmp va vb in
                 Bool.eqb (o_lt o) (cmp_in c [Lt]) && Bool.eqb (o_le o) (cmp_in c [Lt; Eq])
                 && Bool.eqb (o_gt o) (cmp_in c [Gt]) && Bool.eqb (o_ge o) (cmp_in c [Gt; Eq])
                 && Bool.eqb (o_eq o) (cmp_in c [Eq]) && (o_pcmp o =? pcmp_code c))
  && on op OMinMax
       (if nonan then
          (raw_eqb (o_min o) (o_wa o) || raw_eqb (o_min o) (o_wb o))
          && cmp_in (xcmp (decode80 (o_min o)) va) [Lt; Eq] && cmp_in (xcmp (decode80 (o_min o)) vb) [Lt; Eq]
          && (raw_eqb (o_max o) (o_wa o) || raw_eqb (o_max o) (o_wb o))
          && cmp_in (xcmp (decode80 (o_max o)) va) [Gt; Eq] && cmp_in (xcmp (decode80 (o_max o)) vb) [Gt; Eq]
        else true)
  && on op OAbs
       (if is_nan_sf va then true
        else raw_eqb (clear_raw (o_abs o)) (clear_raw (o_wa o))
             && cmp_in (xcmp (decode80 (o_abs o)) (S754_zero false)) [Gt; Eq])
  (* relations on extended-format operands: judged on the OBSERVED raw operands only *)
  && on op OExt
       (* f64::from(m) is the correct rounding of the observed m (those of p, q, s: groups OMul, ODiv, OAdd);
          each n_e is the exact widening of the observed f64::from(e) *)
       (valid_binary 64 16384 (decode80 (o_mad o))
        && spec_round 53 1024 (decode80 (o_mad o)) (decode64 (x_nmad (o_ext o)))
        && forallb (fun t => let '(n, w) := t in spec_widen (decode64 n) w) (ext_widened o)
        && forallb (fun t => let '(u, v, r) := t in spec_rel u v r) (ext_pairs o)
        && forallb (fun t => let '(u, a) := t in spec_abs u a) (ext_abs o))
  end.

(** what the model computes on the input of a case (for replay files) *)
Definition explain_case (op : opk) (a b : Z) (o : obs) :=
  let x := widen (decode64 a) in
  let y := widen (decode64 b) in
  (("x,y,add,sub,mul,div,neg,mad,chain"%string,
    [encode80 x; encode80 y; encode80 (add80 x y); encode80 (sub80 x y); encode80 (mul80 x y);
     encode80 (div80 x y); encode80 (neg80 x); encode80 (mad80 x y); encode80 (chain80 x y)]),
   ("back,nadd,nsub,nmul,ndiv,nchain"%string,
    [encode64 (narrow x); encode64 (narrow (add80 x y)); encode64 (narrow (sub80 x y));
     encode64 (narrow (mul80 x y)); encode64 (narrow (div80 x y)); encode64 (narrow (chain80 x y))]),
   ("lt,le,gt,ge,eq,pcmp"%string, [lt80 x y; le80 x y; gt80 x y; ge80 x y; eq80 x y], pcmp_code (partial_cmp80 x y)),
   ("min,max,abs"%string, [encode80 (min80 x y); encode80 (max80 x y); encode80 (abs80 x)]),
   ("ext: f64(m); n_m,n_p,n_q,n_s; (lt,le,gt,ge,eq,pcmp,min,max) of (m,n_m),(n_m,m),(p,n_p),(n_p,p),(q,n_q),(n_q,q),(s,n_s),(n_s,s),(m,p),(p,s),(s,q); abs m,p,q,s"%string,
    (let m := mad80 x y in let p := mul80 x y in let q := div80 x y in let s := add80 x y in
     let nm := widen (narrow m) in let np := widen (narrow p) in
     let nq := widen (narrow q) in let ns := widen (narrow s) in
     let rel u v := ([lt80 u v; le80 u v; gt80 u v; ge80 u v; eq80 u v], pcmp_code (partial_cmp80 u v),
                     encode80 (min80 u v), encode80 (max80 u v)) in
     (encode64 (narrow m), [encode80 nm; encode80 np; encode80 nq; encode80 ns],
      [rel m nm; rel nm m; rel p np; rel np p; rel q nq; rel nq q; rel s ns; rel ns s; rel m p; rel p s; rel s q],
      [encode80 (abs80 m); encode80 (abs80 p); encode80 (abs80 q); encode80 (abs80 s)])))).
(** for a trace: the model's registers r0, r1 and, per step, (raw result, f64::from of it, relation code of the
    operand pair) *)
Fixpoint explain_steps (regs : list spec_float) (steps : list tstep) : list (raw * Z * Z) :=
  match steps with
  | [] => []
  | TS op i j _ _ _ :: rest =>
      let u := nth i regs S754_nan in
      let v := nth j regs S754_nan in
      let m := top_model op u v in
      (encode80 m, encode64 (narrow m), rel_code u v) :: explain_steps (regs ++ [m]) rest
  end.
Definition explain_trace (a b : Z) (steps : list tstep) :=
  let x := widen (decode64 a) in
  let y := widen (decode64 b) in
  ("trace: r0, r1; per step (raw, f64 bits, relation code of the operands)"%string,
   [encode80 x; encode80 y], explain_steps [x; y] steps).
Definition explain_case_ty : Type :=
  ltac:(match type of explain_case with _ -> _ -> _ -> _ -> ?T => exact T end).
Definition explain_trace_ty : Type :=
  ltac:(match type of explain_trace with _ -> _ -> _ -> ?T => exact T end).
Definition explain (c : case) : match c with Case _ _ _ _ => explain_case_ty | Trace _ _ _ _ _ => explain_trace_ty end :=
  match c with
  | Case op a b o => explain_case op a b o
  | Trace a b _ _ steps => explain_trace a b steps
  end.

(** ** literals of the batch files
    Decimal [Z] literals of 20 digits cost about 1 ms each to parse; primitive-integer literals
    cost 0.03 ms.  The batch files therefore write every 64-bit word as two 32-bit halves.
    (Only the batch files use these; no theorem mentions primitive integers.) *)
Definition W (hi lo : int) : Z := Z.shiftl (Uint63.to_Z hi) 32 + Uint63.to_Z lo.
Definition RW (se hi lo : int) : raw := (Uint63.to_Z se, W hi lo).
(** The group [OExt] repeats raws: [min]/[max] return one of their operands, [n_e] often is [e], [abs e] is [e]
    for a non-negative [e].  The printer writes such a raw as a back-reference to the operand ([SU]: first, [SV]:
    second) when the executor printed the very same two words, and in full ([SR]) otherwise — a lossless
    abbreviation of the observation line, resolved here. *)
Inductive rsel := SU | SV | SR (se hi lo : int).
Definition pick (u v : raw) (s : rsel) : raw :=
  match s with SU => u | SV => v | SR se hi lo => RW se hi lo end.
(** one [relobs] on the pair (u, v) from the executor's relation code
    [u<v] + 2[u<=v] + 4[u>v] + 8[u>=v] + 16[u==v] + 32*partial_cmp and the raws of min, max *)
Inductive rlit := RL (code : int) (mn mx : rsel).
Definition rel_of (u v : raw) (l : rlit) : relobs :=
  let '(RL code mn mx) := l in
  let c := Uint63.to_Z code in
  mkRel (Z.testbit c 0) (Z.testbit c 1) (Z.testbit c 2) (Z.testbit c 3) (Z.testbit c 4) (Z.shiftr c 5)
        (pick u v mn) (pick u v mx).
(** one step of a trace with the relation code as a primitive-integer literal *)
Definition TSI (op : top) (i j : nat) (r : raw) (n : Z) (code : int) : tstep := TS op i j r n (Uint63.to_Z code).
(** the whole observation line, in the order the executor prints it *)
Definition OBS (wa wb add sub mul div neg mad chain : raw) (back nadd nsub nmul ndiv nchain : Z)
    (lt le gt ge eq : bool) (pc : Z) (mn mx ab : raw)
    (nmad : Z) (snm snp snq sns : rsel)
    (m_nm nm_m p_np np_p q_nq nq_q s_ns ns_s m_p p_s s_q : rlit) (sam sap saq sas : rsel) : obs :=
  let nm := pick mad mad snm in
  let np := pick mul mul snp in
  let nq := pick div div snq in
  let ns := pick add add sns in
  mkObs wa wb add sub mul div neg mad chain back nadd nsub nmul ndiv nchain lt le gt ge eq pc mn mx ab
    (mkExt nmad nm np nq ns
       (rel_of mad nm m_nm) (rel_of nm mad nm_m) (rel_of mul np p_np) (rel_of np mul np_p)
       (rel_of div nq q_nq) (rel_of nq div nq_q) (rel_of add ns s_ns) (rel_of ns add ns_s)
       (rel_of mad mul m_p) (rel_of mul add p_s) (rel_of add div s_q)
       (pick mad mad sam) (pick mul mul sap) (pick div div saq) (pick add add sas)).
