(** C18 — the clauses of [spec_check], assembled: if [spec_check] accepts a case, every observed
    arithmetic result equals the IEEE operation applied to the OBSERVED operands, every observed binary64
    result is the correct rounding of the observed extended result, and (group [OExt]) every relation / [min] /
    [max] / [abs] observed on extended-format operands is the IEEE one on the OBSERVED raw operands. *)
From Coq Require Import ZArith Reals Bool List Floats.SpecFloat Lia.
From Flocq Require Import Core.Zaux Core.Raux Core.Defs Core.Generic_fmt Core.FLT Core.Round_NE
  IEEE754.BinarySingleNaN.
From RlibV Require Import C18.Model C18.Corr C18.Spec C18.ProofsConv C18.ProofsRneZ C18.ProofsSpecSound
  C18.ProofsSpecExt.
Open Scope Z_scope.

(** the integer nearest-even test, against Flocq's rounding, for every format *)
Lemma rne_ok_sound prec emax : 1 < prec -> prec < emax ->
  forall num den E r, 0 < num -> 0 < den -> rne_ok prec emax num den E r = true ->
  let rv := round radix2 (FLT_exp (3 - emax - prec) prec) ZnearestE (IZR num / IZR den * bpow radix2 E) in
  match r with
  | S754_finite _ m e => rv = F2R (Float radix2 (Zpos m) e) /\ bounded prec emax m e = true
  | S754_zero _ => rv = 0%R
  | S754_infinity _ => (bpow radix2 emax <= rv)%R
  | S754_nan => False
  end.
Proof.
  intros Hp He num den E r Hn Hd H rv. destruct r as [s|s| |s m e].
  - exact (rne_ok_zero prec emax Hp He num den E s Hn Hd H).
  - exact (rne_ok_inf prec emax Hp He num den E s Hn Hd H).
  - discriminate.
  - exact (rne_ok_finite prec emax Hp He num den E s m e Hn Hd H).
Qed.

Definition arith_sound (op : opk) (o : obs) : Prop :=
  let x := decode80 (o_wa o) in
  let y := decode80 (o_wb o) in
  (sel op OAdd = true -> valid80 x /\ valid80 y /\ decode80 (o_add o) = add80 x y
                         /\ decode64 (o_nadd o) = narrow (decode80 (o_add o)))
  /\ (sel op OSub = true -> valid80 x /\ valid80 y /\ decode80 (o_sub o) = sub80 x y
                         /\ decode64 (o_nsub o) = narrow (decode80 (o_sub o)))
  /\ (sel op OMul = true -> valid80 x /\ valid80 y /\ decode80 (o_mul o) = mul80 x y
                         /\ decode64 (o_nmul o) = narrow (decode80 (o_mul o)))
  /\ (sel op ODiv = true -> valid80 x /\ valid80 y /\ decode80 (o_div o) = div80 x y
                         /\ decode64 (o_ndiv o) = narrow (decode80 (o_div o)))
  /\ (sel op OChain = true -> valid80 x /\ valid80 y /\ valid80 (decode80 (o_mul o))
                         /\ decode80 (o_mad o) = add80 (decode80 (o_mul o)) x
                         /\ decode80 (o_chain o) = div80 (decode80 (o_mad o)) y
                         /\ decode64 (o_nchain o) = narrow (decode80 (o_chain o))).

Ltac split_and H :=
  repeat match type of H with
         | _ && _ = true => let H' := fresh "H" in apply andb_prop in H; destruct H as [H H']
         end.

Lemma spec_check_arith op a b o : spec_check (Case op a b o) = true -> arith_sound op o.
Proof.
  intros H. unfold spec_check in H. cbv zeta in H.
  apply andb_prop in H. destruct H as [H Hext].
  apply andb_prop in H. destruct H as [H Habs].
  apply andb_prop in H. destruct H as [H Hminmax].
  apply andb_prop in H. destruct H as [H Hrel].
  apply andb_prop in H. destruct H as [H Hchain].
  apply andb_prop in H. destruct H as [H Hneg].
  apply andb_prop in H. destruct H as [H Hdiv].
  apply andb_prop in H. destruct H as [H Hmul].
  apply andb_prop in H. destruct H as [H Hsub].
  apply andb_prop in H. destruct H as [Hconv Hadd].
  unfold arith_sound. cbv zeta. split; [|split; [|split; [|split]]]; intros Hsel;
    match goal with
    | Hs : sel op ?k = true |- _ =>
        match goal with Hk : (if sel op k then _ else true) = true |- _ => rewrite Hs in Hk; split_and Hk end
    end; repeat split; try assumption;
    try (now apply spec_round_narrow);
    try (apply spec_add_model; assumption);
    try (apply spec_sub_model; assumption);
    try (apply spec_mul_model; assumption);
    try (apply spec_div_model; assumption).
Qed.

(** ** the group [OExt] *)
Definition ext_sound (o : obs) : Prop :=
  (forall u v r, In (u, v, r) (ext_pairs o) -> rel_sound u v r)
  /\ (forall u a, In (u, a) (ext_abs o) -> abs_sound u a)
  /\ decode64 (x_nmad (o_ext o)) = narrow (decode80 (o_mad o))
  /\ (forall n w, In (n, w) (ext_widened o) -> decode80 w = widen (decode64 n)).

Lemma spec_check_ext op a b o : spec_check (Case op a b o) = true -> sel op OExt = true -> ext_sound o.
Proof.
  intros H Hsel. unfold spec_check in H. cbv zeta in H.
  apply andb_prop in H. destruct H as [_ H]. rewrite Hsel in H.
  apply andb_prop in H. destruct H as [H Habs].
  apply andb_prop in H. destruct H as [H Hrel].
  apply andb_prop in H. destruct H as [H Hwid].
  apply andb_prop in H. destruct H as [Hval Hrnd].
  rewrite forallb_forall in Habs, Hrel, Hwid.
  unfold ext_sound. split; [|split; [|split]].
  - intros u v r Hin. apply spec_rel_sound. exact (Hrel _ Hin).
  - intros u a' Hin. apply spec_abs_sound. exact (Habs _ Hin).
  - now apply spec_round_narrow.
  - intros n w Hin. apply spec_widen_sound; [apply decode64_valid|]. exact (Hwid _ Hin).
Qed.

(** everything together, in the shape of the property statement *)
Definition check_sound (op : opk) (o : obs) : Prop :=
  let x := decode80 (o_wa o) in
  let y := decode80 (o_wb o) in
  (sel op OAdd = true -> valid80 x /\ valid80 y /\ decode80 (o_add o) = add80 x y
                         /\ decode64 (o_nadd o) = narrow (decode80 (o_add o)))
  /\ (sel op OSub = true -> valid80 x /\ valid80 y /\ decode80 (o_sub o) = sub80 x y
                         /\ decode64 (o_nsub o) = narrow (decode80 (o_sub o)))
  /\ (sel op OMul = true -> valid80 x /\ valid80 y /\ decode80 (o_mul o) = mul80 x y
                         /\ decode64 (o_nmul o) = narrow (decode80 (o_mul o)))
  /\ (sel op ODiv = true -> valid80 x /\ valid80 y /\ decode80 (o_div o) = div80 x y
                         /\ decode64 (o_ndiv o) = narrow (decode80 (o_div o)))
  /\ (sel op OChain = true -> valid80 x /\ valid80 y /\ valid80 (decode80 (o_mul o))
                         /\ decode80 (o_mad o) = add80 (decode80 (o_mul o)) x
                         /\ decode80 (o_chain o) = div80 (decode80 (o_mad o)) y
                         /\ decode64 (o_nchain o) = narrow (decode80 (o_chain o)))
  /\ (sel op OExt = true -> ext_sound o).

Lemma spec_check_sound op a b o : spec_check (Case op a b o) = true -> check_sound op o.
Proof.
  intros H. destruct (spec_check_arith op a b o H) as (A1 & A2 & A3 & A4 & A5).
  unfold check_sound. cbv zeta.
  repeat (split; [assumption|]). exact (spec_check_ext op a b o H).
Qed.
