(** C18 — non-vacuity: the model runs on literals (results = what the x87 returned for the same operands),
    and every hypothesis of every property theorem is met by a concrete instance. *)
From Coq Require Import ZArith Reals Bool List Floats.SpecFloat Lia Lra.
From Flocq Require Import Core.Zaux Core.Raux Core.Defs Core.Float_prop Core.Generic_fmt Core.FLT
  Core.Round_NE IEEE754.BinarySingleNaN.
From RlibV Require Import C18.Model C18.Corr C18.Spec C18.ProofsConv C18.ProofsArith C18.Properties.
Open Scope Z_scope.

(** 0.1 = 0x3FB999999999999A and 1/3 = 0x3FD5555555555555 *)
Definition a01 : spec_float := decode64 4591870180066957722.
Definition third : spec_float := decode64 4599676419421066581.
Example a01_lit : a01 = S754_finite false 7205759403792794 (-56). Proof. reflexivity. Qed.
Example third_lit : third = S754_finite false 6004799503160661 (-54). Proof. reflexivity. Qed.

Example v_a01 : valid64 a01. Proof. reflexivity. Qed.
Example v_third : valid64 third. Proof. reflexivity. Qed.
Example f_a01 : finite a01. Proof. reflexivity. Qed.
Example f_third : finite third. Proof. reflexivity. Qed.
Example nz_third : val third <> 0%R.
Proof. apply Rgt_not_eq. unfold val. rewrite third_lit. apply F2R_gt_0. reflexivity. Qed.

(** model runs; the right-hand sides are the raw words the executor printed for these operands *)
Example run_widen : encode80 (widen a01) = (16379, 14757395258967642112). Proof. vm_compute. reflexivity. Qed.
Example run_add : encode80 (add80 (widen a01) (widen third)) = (16381, 15987178197214944256).
Proof. vm_compute. reflexivity. Qed.
Example run_sub : encode80 (sub80 (widen a01) (widen third)) = (49148, 17216961135462246400).
Proof. vm_compute. reflexivity. Qed.
Example run_mul : encode80 (mul80 (widen a01) (widen third)) = (16378, 9838263505978427529).
Proof. vm_compute. reflexivity. Qed.
Example run_div : encode80 (div80 (widen a01) (widen third)) = (16381, 11068046444225732198).
Proof. vm_compute. reflexivity. Qed.
Example run_chain : encode80 (chain80 (widen a01) (widen third)) = (16381, 14757395258967642726).
Proof. vm_compute. reflexivity. Qed.
Example run_narrow : encode64 (narrow (chain80 (widen a01) (widen third))) = 4600877379321698714.
Proof. vm_compute. reflexivity. Qed.
Example run_rel : (lt80 (widen a01) (widen third), le80 (widen a01) (widen third), gt80 (widen a01) (widen third),
                   ge80 (widen a01) (widen third), eq80 (widen a01) (widen third),
                   partial_cmp80 (widen a01) (widen third)) = (true, true, false, false, false, Some Lt).
Proof. vm_compute. reflexivity. Qed.
Example run_nan_le : le80 S754_nan (widen a01) = false /\ partial_cmp80 S754_nan (widen a01) = None
                     /\ eq80 S754_nan S754_nan = false /\ eq80 (S754_zero true) (S754_zero false) = true.
Proof. vm_compute. auto. Qed.
Example run_min_zero : min80 (S754_zero false) (S754_zero true) = S754_zero true
                       /\ max80 (S754_zero false) (S754_zero true) = S754_zero false
                       /\ abs80 (S754_zero true) = S754_zero true
                       /\ abs80 (neg80 (widen a01)) = widen a01.
Proof. vm_compute. auto. Qed.
Example run_overflow64 : narrow (mul80 (widen (decode64 9218868437227405311)) (widen (decode64 9218868437227405311)))
                         = S754_infinity false.     (* f64::MAX^2 is finite in f80, infinite in f64 *)
Proof. vm_compute. reflexivity. Qed.
Example run_subnormal64 : encode64 (narrow (div80 (widen (decode64 1)) (widen (decode64 4613937818241073152)))) = 0.
Proof. vm_compute. reflexivity. Qed.    (* 2^-1074 / 3 rounds to +0 in binary64 *)

(** theorems applied to the instances *)
Example ex_add : val (add80 (widen a01) (widen third)) = rnd80 (val a01 + val third).
Proof. apply (c18_add_correct a01 third v_a01 v_third f_a01 f_third). Qed.
Example ex_sub : val (sub80 (widen a01) (widen third)) = rnd80 (val a01 - val third).
Proof. apply (c18_sub_correct a01 third v_a01 v_third f_a01 f_third). Qed.
Example ex_mul : val (mul80 (widen a01) (widen third)) = rnd80 (val a01 * val third).
Proof. apply (c18_mul_correct a01 third v_a01 v_third f_a01 f_third). Qed.
Example ex_div : val (div80 (widen a01) (widen third)) = rnd80 (val a01 / val third).
Proof. apply (c18_div_correct a01 third v_a01 v_third f_a01 f_third nz_third). Qed.

(** hypotheses of the general (extended-format) statements: a chain step *)
Definition p80 := mul80 (widen a01) (widen third).
Example v_p : valid80 p80. Proof. reflexivity. Qed.
Example f_p : finite p80. Proof. reflexivity. Qed.
Example v_wa : valid80 (widen a01). Proof. reflexivity. Qed.
Example f_wa : finite (widen a01). Proof. reflexivity. Qed.
Example small_p : (Rabs (val p80) <= bpow radix2 2048)%R.
Proof.
  destruct (c18_mul_correct a01 third v_a01 v_third f_a01 f_third) as (H & _). fold p80 in H. rewrite H.
  apply abs_round_le_generic; [apply FLT_exp_valid; reflexivity|apply valid_rnd_N| |].
  - apply generic_format_bpow. unfold FLT_exp, Model.p80, e80. lia.
  - pose proof (val64_lt a01 v_a01). pose proof (val64_lt third v_third).
    rewrite Rabs_mult. change 2048 with (1024 + 1024). rewrite bpow_plus.
    apply Rmult_le_compat; try apply Rabs_pos; lra.
Qed.
Example no_overflow_mad : (Rabs (rnd80 (val p80 + val (widen a01))) < bpow radix2 e80)%R.
Proof.
  apply (rnd80_bound 2049); [lia|].
  pose proof small_p. pose proof (val64_lt a01 v_a01) as Ha. rewrite <- (widen_val a01 v_a01) in Ha.
  eapply Rle_trans; [apply Rabs_triang|].
  change 2049 with (2048 + 1). rewrite bpow_plus_1. change (IZR radix2) with 2%R.
  pose proof (bpow_le radix2 1024 2048 ltac:(lia)). lra.
Qed.
Example ex_mad : val (mad80 (widen a01) (widen third)) = rnd80 (val p80 + val (widen a01)).
Proof. apply (c18_add_correct_f80 p80 (widen a01) v_p v_wa f_p f_wa no_overflow_mad). Qed.
Example no_overflow_sub : (Rabs (rnd80 (val p80 - val (widen a01))) < bpow radix2 e80)%R.
Proof.
  apply (rnd80_bound 2049); [lia|].
  pose proof small_p. pose proof (val64_lt a01 v_a01) as Ha. rewrite <- (widen_val a01 v_a01) in Ha.
  unfold Rminus. eapply Rle_trans; [apply Rabs_triang|]. rewrite Rabs_Ropp.
  change 2049 with (2048 + 1). rewrite bpow_plus_1. change (IZR radix2) with 2%R.
  pose proof (bpow_le radix2 1024 2048 ltac:(lia)). lra.
Qed.
Example ex_sub_f80 : val (sub80 p80 (widen a01)) = rnd80 (val p80 - val (widen a01)).
Proof. apply (c18_sub_correct_f80 p80 (widen a01) v_p v_wa f_p f_wa no_overflow_sub). Qed.
Example no_overflow_mul : (Rabs (rnd80 (val p80 * val (widen a01))) < bpow radix2 e80)%R.
Proof.
  apply (rnd80_bound 3072); [lia|].
  pose proof small_p. pose proof (val64_lt a01 v_a01) as Ha. rewrite <- (widen_val a01 v_a01) in Ha.
  rewrite Rabs_mult. change 3072 with (2048 + 1024). rewrite bpow_plus.
  apply Rmult_le_compat; try apply Rabs_pos; lra.
Qed.
Example ex_mul_f80 : val (mul80 p80 (widen a01)) = rnd80 (val p80 * val (widen a01)).
Proof. apply (c18_mul_correct_f80 p80 (widen a01) v_p v_wa f_p f_wa no_overflow_mul). Qed.
Example nz_wthird : val (widen third) <> 0%R.
Proof. rewrite (widen_val third v_third). exact nz_third. Qed.
Example no_overflow_div : (Rabs (rnd80 (val p80 / val (widen third))) < bpow radix2 e80)%R.
Proof.
  apply (rnd80_bound 3122); [lia|].
  pose proof small_p. pose proof (val64_ge third v_third nz_third) as Hge.
  rewrite (widen_val third v_third).
  unfold Rdiv. rewrite Rabs_mult, Rabs_inv.
  change 3122 with (2048 + - (-1074)). rewrite bpow_plus, (bpow_opp radix2 (-1074)).
  pose proof (bpow_gt_0 radix2 (-1074)).
  apply Rmult_le_compat; try apply Rabs_pos.
  - apply Rlt_le, Rinv_0_lt_compat. lra.
  - lra.
  - apply Rinv_le; lra.
Qed.
Example ex_div_f80 : val (div80 p80 (widen third)) = rnd80 (val p80 / val (widen third)).
Proof.
  apply (c18_div_correct_f80 p80 (widen third) v_p (widen_valid third v_third) f_p
           (widen_finite_SF third f_third) nz_wthird no_overflow_div).
Qed.

(** special-value tables: their side conditions *)
Example strict_a01 : is_finite_strict_SF a01 = true. Proof. reflexivity. Qed.
Example ex_add_zero : add80 (S754_zero true) a01 = a01.
Proof. apply (proj2 (proj2 (proj2 (proj2 (proj2 (proj2 c18_add_special))))) true a01 strict_a01). Qed.
Example ex_div_by_zero : div80 a01 (S754_zero true) = S754_infinity true.
Proof. apply (proj2 (proj2 (proj2 (proj2 (proj2 c18_div_special)))) true a01 strict_a01). Qed.
Example ex_inf_plus : add80 (S754_infinity true) a01 = S754_infinity true.
Proof. apply (proj1 (proj2 (proj2 (proj2 (proj2 c18_add_special)))) true a01 f_a01). Qed.

(** conversions *)
Example ex_widen : val (widen a01) = val a01. Proof. apply (c18_widen_exact a01 v_a01). Qed.
Example ex_roundtrip : narrow (widen a01) = a01. Proof. exact (c18_roundtrip_f64 a01 v_a01). Qed.
Example ex_widen_inj : a01 <> third -> widen a01 <> widen third.
Proof. intros H E. apply H. exact (c18_widen_injective a01 third v_a01 v_third E). Qed.
(** narrowing, in-range branch: the product 0.1 * 1/3 computed with 64 bits *)
Example narrow_in_range : (Rabs (rnd64 (val (S754_finite false 9838263505978427529 (-68)))) < bpow radix2 e64)%R.
Proof.
  apply Rle_lt_trans with (bpow radix2 0); [|apply bpow_lt; reflexivity].
  unfold rnd64. apply abs_round_le_generic; [apply FLT_exp_valid; reflexivity|apply valid_rnd_N| |].
  - apply generic_format_bpow. unfold FLT_exp, p64, e64. lia.
  - unfold val. cbn [SF2R cond_Zopp].
    apply Rlt_le. apply (F2R_lt_bpow radix2 (Float radix2 9838263505978427529 (-68)) 0). vm_compute. reflexivity.
Qed.
Example ex_narrow : val (narrow (S754_finite false 9838263505978427529 (-68)))
                    = rnd64 (val (S754_finite false 9838263505978427529 (-68))).
Proof. apply (proj1 (c18_narrow_correct false 9838263505978427529 (-68)) narrow_in_range). Qed.
(** narrowing, overflow branch: 2^1024 *)
Example narrow_overflows : (bpow radix2 e64 <= Rabs (rnd64 (val (S754_finite false 1 1024))))%R.
Proof.
  unfold val. cbn [SF2R cond_Zopp]. rewrite F2R_bpow. unfold rnd64.
  rewrite round_generic; [|apply valid_rnd_N|].
  - rewrite Rabs_pos_eq by apply bpow_ge_0. apply Rle_refl.
  - apply generic_format_bpow. unfold FLT_exp, p64, e64. lia.
Qed.
Example ex_narrow_overflow : narrow (S754_finite false 1 1024) = S754_infinity false.
Proof. apply (proj2 (c18_narrow_correct false 1 1024) narrow_overflows). Qed.

(** comparisons *)
Example ex_compare : partial_cmp80 (widen a01) (widen third) = Some (Rcompare (val a01) (val third)).
Proof. exact (c18_compare_real a01 third v_a01 v_third f_a01 f_third). Qed.
Example ex_compare_f80 : SFcompare p80 (widen a01) = Some (Rcompare (val p80) (val (widen a01))).
Proof. exact (c18_compare_real_f80 p80 (widen a01) v_p v_wa f_p f_wa). Qed.
Example ex_inf_cmp : SFcompare (S754_infinity true) a01 = Some Lt.
Proof. apply (proj1 c18_compare_inf true a01 f_a01). Qed.
Example ex_tie : min80 (S754_zero false) (S754_zero true) = S754_zero true.
Proof. apply (proj1 (c18_min_max_ties (S754_zero false) (S754_zero true)) eq_refl). Qed.
Example ex_min_nan : min80 S754_nan a01 = a01 /\ max80 S754_nan a01 = S754_nan.
Proof. apply (proj2 (c18_min_max_ties S754_nan a01)). now left. Qed.
Example nn_a01 : widen a01 <> S754_nan. Proof. discriminate. Qed.
Example nn_third : widen third <> S754_nan. Proof. discriminate. Qed.
Example ex_min : SFleb (min80 (widen a01) (widen third)) (widen third) = true.
Proof. apply (c18_min_max_abs (widen a01) (widen third) nn_a01 nn_third). Qed.
Example ex_valid80_neg : valid80 (neg80 (widen a01)).
Proof. apply (c18_neg (widen a01)). exact v_wa. Qed.

(** ** the specification checker: an accepted case (the executor's line for 0.1 and 1/3) and what follows from it *)
(** the group [OExt] of that line: m = x*y+x, p = x*y, q = x/y, s = x+y all need more than 53 bits, so each differs
    from its rounding through binary64 *)
Definition ext01 : extobs :=
  (mkExt 4593971859893063953 (16380, 9838263505978427392) (16378, 9838263505978427392) (16381, 11068046444225732608) (16381, 15987178197214945280)
          (mkRel false false true true false 3 (16380, 9838263505978427392) (16380, 9838263505978427938))
          (mkRel true true false false false 1 (16380, 9838263505978427392) (16380, 9838263505978427938))
          (mkRel false false true true false 3 (16378, 9838263505978427392) (16378, 9838263505978427529))
          (mkRel true true false false false 1 (16378, 9838263505978427392) (16378, 9838263505978427529))
          (mkRel true true false false false 1 (16381, 11068046444225732198) (16381, 11068046444225732608))
          (mkRel false false true true false 3 (16381, 11068046444225732198) (16381, 11068046444225732608))
          (mkRel true true false false false 1 (16381, 15987178197214944256) (16381, 15987178197214945280))
          (mkRel false false true true false 3 (16381, 15987178197214944256) (16381, 15987178197214945280))
          (mkRel false false true true false 3 (16378, 9838263505978427529) (16380, 9838263505978427938))
          (mkRel true true false false false 1 (16378, 9838263505978427529) (16381, 15987178197214944256))
          (mkRel false false true true false 3 (16381, 11068046444225732198) (16381, 15987178197214944256))
          (16380, 9838263505978427938) (16378, 9838263505978427529) (16381, 11068046444225732198) (16381, 15987178197214944256)).
Definition obs01 : obs :=
    (mkObs (16379, 14757395258967642112) (16381, 12297829382473033728) (16381, 15987178197214944256) (49148, 17216961135462246400) (16378, 9838263505978427529) (16381, 11068046444225732198) (49147, 14757395258967642112) (16380, 9838263505978427938) (16381, 14757395258967642726)
       4591870180066957722 4601477859272014780 13820946776449736157 4584964660638322961 4599075939470750516 4600877379321698714
       true true false false false 1
       (16379, 14757395258967642112) (16381, 12297829382473033728) (16379, 14757395258967642112)
       ext01).
Definition case01 : case := Case OAll 4591870180066957722 4599676419421066581 obs01.
Example case01_spec : spec_check case01 = true. Proof. vm_compute. reflexivity. Qed.
Example case01_model : model_check case01 = true. Proof. vm_compute. reflexivity. Qed.
Example ex_spec_sound_add :
  decode80 (16381, 15987178197214944256) = add80 (decode80 (16379, 14757395258967642112)) (decode80 (16381, 12297829382473033728)).
Proof. apply (c18_spec_check_sound OAll _ _ _ case01_spec). reflexivity. Qed.
Example ex_spec_sound_chain_narrow :
  decode64 4600877379321698714 = narrow (decode80 (16381, 14757395258967642726)).
Proof. apply (c18_spec_check_sound OAll _ _ _ case01_spec). reflexivity. Qed.
(** a wrong last bit is rejected *)
Example case01_bad : spec_check (Case OAdd 4591870180066957722 4599676419421066581
  (mkObs (16379, 14757395258967642112) (16381, 12297829382473033728) (16381, 15987178197214944257)
     (0,0) (0,0) (0,0) (0,0) (0,0) (0,0) 0 4601477859272014780 0 0 0 0 false false false false false 0 (0,0) (0,0) (0,0) ext01)) = false.
Proof. vm_compute. reflexivity. Qed.

(** ** relations on operands that are not images of binary64 values (group [OExt]) *)
(** 1e17 + 1 is exact with 64 bits and rounds to 1e17 in binary64: the two compare as different values *)
Definition big : spec_float := widen (decode64 4861130398305394688).              (* 1e17 *)
Definition big1 : spec_float := add80 big (widen (decode64 4607182418800017408)). (* 1e17 + 1 *)
Example run_ext_rel : (narrow big1, widen (narrow big1)) = (decode64 4861130398305394688, big)
  /\ (lt80 big big1, le80 big1 big, ge80 big big1, eq80 big1 big, partial_cmp80 big big1, partial_cmp80 big1 big)
     = (true, false, false, false, Some Lt, Some Gt)
  /\ (min80 big1 big, max80 big big1) = (big, big1).
Proof. vm_compute. auto. Qed.
(** f64::MAX^2 is finite in the extended format (its binary64 rounding is +inf); MIN_POSITIVE^2 is not zero *)
Example run_ext_range :
  let mx := widen (decode64 9218868437227405311) in let mn := widen (decode64 4503599627370496) in
  (lt80 (mul80 mx mx) (widen (narrow (mul80 mx mx))), eq80 (mul80 mx mx) (widen (narrow (mul80 mx mx))),
   widen (narrow (mul80 mx mx)))
  = (true, false, S754_infinity false)
  /\ (gt80 (mul80 mn mn) (widen (narrow (mul80 mn mn))), eq80 (mul80 mn mn) (widen (narrow (mul80 mn mn))),
      widen (narrow (mul80 mn mn)))
     = (true, false, S754_zero false).
Proof. vm_compute. auto. Qed.

(** what [c18_spec_check_sound] gives for the accepted case on the pair (m, n_m), m = x*y + x: the observed
    relations are those of the model on the two observed raws, which are different values *)
Example in_m_nm : In ((16380, 9838263505978427938), (16380, 9838263505978427392), x_m_nm ext01)
                     (ext_pairs obs01).
Proof. left. reflexivity. Qed.
Example ex_spec_sound_ext :
  r_eq (x_m_nm ext01) = eq80 (decode80 (16380, 9838263505978427938)) (decode80 (16380, 9838263505978427392))
  /\ r_pcmp (x_m_nm ext01)
     = pcmp_code (partial_cmp80 (decode80 (16380, 9838263505978427938)) (decode80 (16380, 9838263505978427392))).
Proof.
  destruct (c18_spec_check_sound OAll _ _ _ case01_spec) as (_ & _ & _ & _ & _ & Hext).
  destruct (Hext eq_refl) as (Hrel & _). destruct (Hrel _ _ _ in_m_nm) as (_ & _ & _ & _ & _ & _ & He & Hp & _).
  exact (conj He Hp).
Qed.
Example nn_m : decode80 (16380, 9838263505978427938) <> S754_nan. Proof. discriminate. Qed.
Example nn_nm : decode80 (16380, 9838263505978427392) <> S754_nan. Proof. discriminate. Qed.
Example ex_spec_sound_ext_min :
  decode80 (r_min (x_m_nm ext01)) = decode80 (16380, 9838263505978427938)
  \/ decode80 (r_min (x_m_nm ext01)) = decode80 (16380, 9838263505978427392).
Proof.
  destruct (c18_spec_check_sound OAll _ _ _ case01_spec) as (_ & _ & _ & _ & _ & Hext).
  destruct (Hext eq_refl) as (Hrel & _).
  destruct (Hrel _ _ _ in_m_nm) as (_ & _ & _ & _ & _ & _ & _ & _ & Hmm).
  exact (proj1 (proj1 (Hmm nn_m nn_nm))).
Qed.
Example in_abs_m : In ((16380, 9838263505978427938), x_am ext01) (ext_abs obs01).
Proof. left. reflexivity. Qed.
Example ex_spec_sound_ext_abs : decode80 (x_am ext01) = SFabs (decode80 (16380, 9838263505978427938)).
Proof.
  destruct (c18_spec_check_sound OAll _ _ _ case01_spec) as (_ & _ & _ & _ & _ & Hext).
  destruct (Hext eq_refl) as (_ & Habs & _). exact (Habs _ _ in_abs_m).
Qed.
Example in_wid_m : In (x_nmad ext01, x_nm ext01) (ext_widened obs01).
Proof. left. reflexivity. Qed.
Example ex_spec_sound_ext_widen : decode80 (x_nm ext01) = widen (narrow (decode80 (16380, 9838263505978427938))).
Proof.
  destruct (c18_spec_check_sound OAll _ _ _ case01_spec) as (_ & _ & _ & _ & _ & Hext).
  destruct (Hext eq_refl) as (_ & _ & Hn & Hw). rewrite (Hw _ _ in_wid_m).
  change (o_mad _) with (16380, 9838263505978427938) in Hn. now rewrite <- Hn.
Qed.
(** the equality computed through binary64 (m == n_m, m <= n_m, partial_cmp = Equal although m > n_m) is rejected
    by both checks *)
Definition ext01_bad : extobs :=
  let e := ext01 in
  mkExt (x_nmad e) (x_nm e) (x_np e) (x_nq e) (x_ns e)
    (mkRel false true true true true 2 (r_min (x_m_nm e)) (r_max (x_m_nm e)))
    (x_nm_m e) (x_p_np e) (x_np_p e) (x_q_nq e) (x_nq_q e) (x_s_ns e) (x_ns_s e) (x_m_p e) (x_p_s e) (x_s_q e)
    (x_am e) (x_ap e) (x_aq e) (x_as e).
Definition with_ext (c : case) (e : extobs) : case :=
  let o := obs01 in
  Case OExt 4591870180066957722 4599676419421066581 (mkObs (o_wa o) (o_wb o) (o_add o) (o_sub o) (o_mul o) (o_div o) (o_neg o) (o_mad o) (o_chain o)
                   (o_back o) (o_nadd o) (o_nsub o) (o_nmul o) (o_ndiv o) (o_nchain o)
                   (o_lt o) (o_le o) (o_gt o) (o_ge o) (o_eq o) (o_pcmp o) (o_min o) (o_max o) (o_abs o) e).
Example case01_ext_ok : spec_check (with_ext case01 ext01) = true /\ model_check (with_ext case01 ext01) = true.
Proof. vm_compute. auto. Qed.
Example case01_ext_bad : spec_check (with_ext case01 ext01_bad) = false
                         /\ model_check (with_ext case01 ext01_bad) = false.
Proof. vm_compute. auto. Qed.

(** the integer nearest-even test on 1/3 at 64 bits: 0xAAAAAAAAAAAAAAAB * 2^-65 *)
Example rne_third : rne_ok 64 16384 1 3 0 (S754_finite false 12297829382473034411 (-65)) = true.
Proof. vm_compute. reflexivity. Qed.
Example ex_rne_sound :
  round radix2 (FLT_exp (3 - 16384 - 64) 64) ZnearestE (IZR 1 / IZR 3 * bpow radix2 0)
  = F2R (Float radix2 12297829382473034411 (-65)).
Proof. apply (c18_rne_ok_sound 64 16384 eq_refl eq_refl 1 3 0 _ eq_refl eq_refl rne_third). Qed.

(** ** straight-line programs ([Trace]) *)
Import ListNotations.
(** x = 1, y = 3: r2 = x / y, r3 = r2 * r2, r4 = -r3, r5 = f80::from(f64::from(r2)); as printed by the executor *)
Definition trace01 : case :=
  Trace 4607182418800017408 4613937818241073152 (16383, 9223372036854775808) (16384, 13835058055282163712)
    [TS TDiv 0 1 (16381, 12297829382473034411) 4599676419421066581 35;
     TS TMul 2 2 (16379, 16397105843297379215) 4592670820000712476 90;
     TS TNeg 3 3 (49147, 16397105843297379215) 13816042856855488284 90;
     TS TRnd 2 2 (16381, 12297829382473033728) 4599676419421066581 90].
Example trace01_spec : spec_check trace01 = true. Proof. vm_compute. reflexivity. Qed.
Example trace01_model : model_check trace01 = true. Proof. vm_compute. reflexivity. Qed.
(** step 1 (the square of the extended-format value 1/3): operands are the OBSERVED raw of step 0 *)
Example ex_spec_trace_sound :
  decode80 (16379, 16397105843297379215)
  = mul80 (decode80 (16381, 12297829382473034411)) (decode80 (16381, 12297829382473034411))
  /\ decode64 4592670820000712476 = narrow (decode80 (16379, 16397105843297379215)).
Proof.
  destruct (c18_spec_trace_sound _ _ _ _ _ trace01_spec) as (_ & _ & H).
  destruct (H 1%nat TMul 2%nat 2%nat _ _ _ eq_refl) as (_ & _ & _ & _ & Hop & Hn & _).
  exact (conj Hop Hn).
Qed.
(** a wrong last bit of the product is rejected by both checks *)
Example trace01_bad :
  let bad := Trace 4607182418800017408 4613937818241073152 (16383, 9223372036854775808) (16384, 13835058055282163712)
               [TS TDiv 0 1 (16381, 12297829382473034411) 4599676419421066581 35;
                TS TMul 2 2 (16379, 16397105843297379214) 4592670820000712476 90] in
  spec_check bad = false /\ model_check bad = false.
Proof. vm_compute. auto. Qed.
(** the squares of f64::MAX: x^16 (about 2^16384 (1 - 2^-49)) is still finite, x^32 is +inf; of MIN_POSITIVE:
    x^16 = 2^-16352, times 2^-60 is an f80 denormal (exponent word 0), squared again it is +0 *)
Example run_trace_ends :
  let mx := widen (decode64 9218868437227405311) in
  let mn := widen (decode64 4503599627370496) in
  let sq x := mul80 x x in
  (is_finite_SF (sq (sq (sq (sq mx)))), sq (sq (sq (sq (sq mx)))))
  = (true, S754_infinity false)
  /\ fst (encode80 (mul80 (sq (sq (sq (sq mn)))) (widen (decode64 4336966441157787648)))) = 0
  /\ sq (mul80 (sq (sq (sq (sq mn)))) (widen (decode64 4336966441157787648))) = S754_zero false.
Proof. vm_compute. auto. Qed.
