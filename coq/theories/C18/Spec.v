(** C18 — the notions the property statements are written with (definitions only). *)
From Coq Require Import ZArith Reals Floats.SpecFloat.
From Flocq Require Import Core.Zaux Core.Raux Core.Defs Core.Generic_fmt Core.FLT Core.Round_NE
  IEEE754.BinarySingleNaN.
From RlibV Require Import C18.Model.

(** real value of a [spec_float] (0 for zeros; by convention also for infinities and NaN) *)
Definition val (x : spec_float) : R := SF2R radix2 x.

(** round to nearest, ties to even, to a 64-bit significand (extended format, gradual underflow) *)
Definition rnd80 (r : R) : R := round radix2 (FLT_exp (3 - e80 - p80) p80) ZnearestE r.
(** … to binary64 *)
Definition rnd64 (r : R) : R := round radix2 (FLT_exp (3 - e64 - p64) p64) ZnearestE r.

(** [x] is a binary64 datum / an extended-format datum (canonical significand, exponent in range) *)
Definition valid64 (x : spec_float) : Prop := valid_binary p64 e64 x = true.
Definition valid80 (x : spec_float) : Prop := valid_binary p80 e80 x = true.
Definition finite (x : spec_float) : Prop := is_finite_SF x = true.

(** sign of an exactly-zero sum in round-to-nearest: negative only if both operands are *)
Definition sum_sign (v : R) (sx sy : bool) : bool :=
  match Rcompare v 0 with Eq => andb sx sy | Lt => true | Gt => false end.
