(** C18 — soundness of the integer nearest-even test [rne_ok] used by [spec_check]:
    whenever the test accepts, the candidate IS the correctly rounded value
    (Flocq's [round radix2 (FLT_exp emin prec) ZnearestE]).  Real-number core. *)
From Coq Require Import ZArith Reals Bool Lia Lra.
From Flocq Require Import Core.Zaux Core.Raux Core.Defs Core.Digits Core.Float_prop Core.Generic_fmt Core.FLT
  Core.Ulp Core.Round_NE.
Open Scope Z_scope.

Section Rne.
Variables prec emin : Z.
Hypothesis Hprec : 1 < prec.
Instance prec_gt_0 : FLX.Prec_gt_0 prec. Proof. unfold FLX.Prec_gt_0. lia. Qed.
Notation fexp := (FLT_exp emin prec).
Instance Hve : Valid_exp fexp := FLT_exp_valid emin prec.
Notation fmt := (generic_format radix2 fexp).
Notation rnd := (round radix2 fexp ZnearestE).
Notation RD := (round radix2 fexp Zfloor).
Notation RU := (round radix2 fexp Zceil).
Notation usucc := (succ radix2 fexp).
Notation upred := (pred radix2 fexp).

(** canonical (significand, exponent) pairs of the format, zero included *)
Definition canon (m e : Z) : Prop :=
  (2 ^ (prec - 1) <= m < 2 ^ prec /\ emin <= e) \/ (0 <= m < 2 ^ (prec - 1) /\ e = emin).
Definition V (m e : Z) : R := (IZR m * bpow radix2 e)%R.

Lemma V_F2R m e : V m e = F2R (Float radix2 m e).
Proof. reflexivity. Qed.

Lemma pow_lt : 2 ^ (prec - 1) < 2 ^ prec.
Proof. apply Z.pow_lt_mono_r; lia. Qed.

Lemma canon_nonneg m e : canon m e -> 0 <= m.
Proof. pose proof (Z.pow_pos_nonneg 2 (prec - 1)). unfold canon. lia. Qed.

Lemma V_nonneg m e : canon m e -> (0 <= V m e)%R.
Proof.
  intros H. unfold V. apply Rmult_le_pos; [apply IZR_le, (canon_nonneg m e H)|apply bpow_ge_0].
Qed.

Lemma canon_fmt m e : canon m e -> fmt (V m e).
Proof.
  intros H. apply generic_format_FLT. rewrite V_F2R.
  apply (FLT_spec radix2 emin prec _ (Float radix2 m e)); cbn [Fnum Fexp]; try reflexivity.
  - pose proof pow_lt. change (Zpower radix2 prec) with (2 ^ prec). unfold canon in H. lia.
  - unfold canon in H. lia.
Qed.

Lemma canon_cexp m e : canon m e -> 0 < m -> cexp radix2 fexp (V m e) = e.
Proof.
  intros H Hm. unfold cexp. rewrite V_F2R, mag_F2R_Zdigits by lia.
  unfold FLT_exp. destruct H as [[[H1 H2] H3]|[[H1 H2] H3]].
  - rewrite (Zdigits_unique radix2 m prec).
    + lia.
    + rewrite Z.abs_eq by lia. change (Zpower radix2 (prec - 1)) with (2 ^ (prec - 1)).
      change (Zpower radix2 prec) with (2 ^ prec). lia.
  - assert (Zdigits radix2 m <= prec - 1).
    { apply Zdigits_le_Zpower. rewrite Z.abs_eq by lia. exact H2. }
    lia.
Qed.

Lemma canon_ulp m e : canon m e -> ulp radix2 fexp (V m e) = bpow radix2 e.
Proof.
  intros H. destruct (Z.eq_dec m 0) as [->|Hm].
  - unfold V. rewrite Rmult_0_l, ulp_FLT_0.
    + f_equal. pose proof (Z.pow_pos_nonneg 2 (prec - 1)). unfold canon in H. lia.
    + exact prec_gt_0.
  - pose proof (canon_nonneg m e H).
    rewrite ulp_neq_0.
    + now rewrite canon_cexp by (auto; lia).
    + unfold V. apply Rmult_integral_contrapositive_currified.
      * apply not_0_IZR. lia.
      * apply Rgt_not_eq, bpow_gt_0.
Qed.

Lemma canon_succ m e : canon m e -> usucc (V m e) = V (m + 1) e.
Proof.
  intros H. rewrite succ_eq_pos by now apply V_nonneg.
  rewrite canon_ulp by exact H. unfold V. rewrite plus_IZR. ring.
Qed.

(** the predecessor: one unit of the last place below, except at a binade boundary *)
Definition bnd (m e : Z) : bool := (m =? 2 ^ (prec - 1)) && (emin <? e).
Definition P (m e : Z) : R := if bnd m e then V (2 ^ prec - 1) (e - 1) else V (m - 1) e.

Lemma canon_pred_canon m e : canon m e -> 0 < m ->
  if bnd m e then canon (2 ^ prec - 1) (e - 1) else canon (m - 1) e.
Proof.
  intros H Hm. pose proof pow_lt. unfold bnd.
  destruct (Z.eqb_spec m (2 ^ (prec - 1))) as [E|E], (Z.ltb_spec emin e) as [L|L]; cbn [andb];
    unfold canon in *; lia.
Qed.

Lemma canon_pred m e : canon m e -> 0 < m -> upred (V m e) = P m e /\ fmt (P m e) /\ usucc (P m e) = V m e.
Proof.
  intros H Hm. pose proof (canon_pred_canon m e H Hm) as Hc. unfold P.
  assert (Hs : usucc (if bnd m e then V (2 ^ prec - 1) (e - 1) else V (m - 1) e) = V m e).
  { destruct (bnd m e) eqn:Hb.
    - rewrite canon_succ by exact Hc. unfold bnd in Hb. apply andb_prop in Hb. destruct Hb as [Hb _].
      apply Z.eqb_eq in Hb. subst m. unfold V.
      replace (2 ^ prec - 1 + 1) with (2 * 2 ^ (prec - 1)).
      + rewrite mult_IZR. replace e with (e - 1 + 1) at 2 by ring. rewrite bpow_plus_1.
        change (IZR radix2) with 2%R. ring.
      + rewrite <- Z.pow_succ_r by lia. replace (Z.succ (prec - 1)) with prec by lia. lia.
    - rewrite canon_succ by exact Hc. now replace (m - 1 + 1) with m by ring. }
  assert (Hf : fmt (if bnd m e then V (2 ^ prec - 1) (e - 1) else V (m - 1) e)).
  { destruct (bnd m e); now apply canon_fmt. }
  repeat split; try assumption.
  rewrite <- Hs. apply (pred_succ radix2 fexp _ Hf).
Qed.

(** mantissa of the round-down of a value whose round-down is a known canonical pair *)
Lemma floor_mantissa v m e : canon m e -> RD v = V m e ->
  Zfloor (scaled_mantissa radix2 fexp v) = m.
Proof.
  intros H HD.
  destruct (Z.eq_dec m 0) as [->|Hm].
  - unfold V in HD. rewrite Rmult_0_l in HD. unfold round, F2R in HD. cbn [Fnum Fexp] in HD.
    apply Rmult_integral in HD. destruct HD as [HD|HD].
    + now apply eq_IZR in HD.
    + exfalso. pose proof (bpow_gt_0 radix2 (cexp radix2 fexp v)). lra.
  - pose proof (canon_nonneg m e H).
    assert (Hpos : (0 < RD v)%R).
    { rewrite HD. unfold V. apply Rmult_lt_0_compat; [apply IZR_lt; lia|apply bpow_gt_0]. }
    assert (Hc : cexp radix2 fexp v = e).
    { unfold cexp. rewrite <- (mag_DN radix2 fexp v Hpos). rewrite HD.
      apply (canon_cexp m e H). lia. }
    unfold round, F2R in HD. cbn [Fnum Fexp] in HD. rewrite Hc in HD. unfold V in HD.
    apply Rmult_eq_reg_r in HD; [now apply eq_IZR|apply Rgt_not_eq, bpow_gt_0].
Qed.

(** main lemma, in real form *)
Lemma rne_real v m e : canon m e -> (0 < v)%R ->
  ((2 * v < V m e + V (m + 1) e)%R \/ ((2 * v = V m e + V (m + 1) e)%R /\ Z.even m = true)) ->
  (m = 0 \/ (V m e + P m e < 2 * v)%R \/ ((2 * v = V m e + P m e)%R /\ Z.even m = true)) ->
  rnd v = V m e.
Proof.
  intros H Hv Hhi Hlo.
  pose proof (canon_fmt m e H) as HF.
  pose proof (canon_succ m e H) as HS.
  pose proof (V_nonneg m e H) as H0.
  destruct (Rtotal_order v (V m e)) as [Hlt|[Heq|Hgt]].
  - (* below the candidate *)
    assert (Hm : 0 < m).
    { pose proof (canon_nonneg m e H). destruct (Z.eq_dec m 0) as [->|]; [|lia].
      unfold V in Hlt. rewrite Rmult_0_l in Hlt. lra. }
    destruct (canon_pred m e H Hm) as (HP & HPf & HPs).
    assert (HPlt : (P m e < v)%R) by (destruct Hlo as [Hlo|[Hlo|[Hlo _]]]; [lia|lra|lra]).
    assert (HU : RU v = V m e).
    { apply (round_UP_eq radix2 fexp v (V m e) HF). rewrite HP. lra. }
    assert (HD : RD v = P m e).
    { apply (round_DN_eq radix2 fexp v (P m e) HPf). rewrite HPs. lra. }
    destruct Hlo as [Hlo|[Hlo|[Hlo Hev]]]; [lia| |].
    + rewrite <- HU. apply (round_N_eq_UP radix2 fexp). rewrite HU, HD. lra.
    + rewrite (round_N_middle radix2 fexp) by (rewrite HU, HD; lra).
      rewrite HU, HD.
      assert (Hodd : Z.even (Zfloor (scaled_mantissa radix2 fexp v)) = false).
      { pose proof (canon_pred_canon m e H Hm) as Hc. unfold P in HD.
        destruct (bnd m e) eqn:Hb.
        - rewrite (floor_mantissa v _ _ Hc HD).
          replace (2 ^ prec - 1) with (1 + 2 * (2 ^ (prec - 1) - 1)).
          + rewrite Z.even_add_mul_2. reflexivity.
          + replace prec with (Z.succ (prec - 1)) at 2 by lia. rewrite Z.pow_succ_r by lia. ring.
        - rewrite (floor_mantissa v _ _ Hc HD).
          replace (m - 1) with (m + (-1) * 1) by ring.
          rewrite Z.even_add, Hev. reflexivity. }
      now rewrite Hodd.
  - subst v. apply round_generic; [apply valid_rnd_N|exact HF].
  - (* above the candidate *)
    assert (HSgt : (v < V (m + 1) e)%R) by (destruct Hhi as [Hhi|[Hhi _]]; lra).
    assert (HD : RD v = V m e).
    { apply (round_DN_eq radix2 fexp v (V m e) HF). rewrite HS. lra. }
    assert (HSf : fmt (V (m + 1) e)).
    { rewrite <- HS. apply (generic_format_succ radix2 fexp _ HF). }
    assert (HU : RU v = V (m + 1) e).
    { apply (round_UP_eq radix2 fexp v (V (m + 1) e) HSf). rewrite <- HS, (pred_succ radix2 fexp _ HF). lra. }
    destruct Hhi as [Hhi|[Hhi Hev]].
    + rewrite <- HD. apply (round_N_eq_DN radix2 fexp). rewrite HU, HD. lra.
    + rewrite (round_N_middle radix2 fexp) by (rewrite HU, HD; lra).
      rewrite (floor_mantissa v m e H HD), Hev. cbn [negb]. exact HD.
Qed.

End Rne.
