(** C18 — transport between the executable [SpecFloat] operations and Flocq's
    [binary_float] operations, generic in (prec, emax).  This replays the generic
    part of [Flocq.IEEE754.PrimFloat] (which is stated for primitive floats,
    i.e. (53, 1024) only, and under the primitive-float axioms) directly on
    [spec_float], so that it applies to (64, 16384) and needs no float axiom. *)
From Coq Require Import ZArith Reals Bool Floats.SpecFloat.
From Flocq Require Import Core.Zaux Core.Raux Core.Defs Core.Generic_fmt Core.FLT Core.Round_NE
  IEEE754.BinarySingleNaN.

Section Gen.
Variables prec emax : Z.
Context (Hprec : FLX.Prec_gt_0 prec) (Hmax : Prec_lt_emax prec emax).
Notation bf := (binary_float prec emax).

Lemma round_nearest_even_equiv s m l :
  round_nearest_even m l = choice_mode mode_NE s m l.
Proof.
case l; [reflexivity|intro c].
case c; [ | reflexivity..].
now simpl; unfold Round.cond_incr; case Z.even.
Qed.

Lemma binary_round_aux_equiv sx mx ex lx :
  SpecFloat.binary_round_aux prec emax sx mx ex lx
  = binary_round_aux prec emax mode_NE sx mx ex lx.
Proof.
unfold SpecFloat.binary_round_aux, binary_round_aux.
set (mrse' := shr_fexp _ _ _ _ _).
case mrse'; intros mrs' e'; simpl.
now rewrite (round_nearest_even_equiv sx).
Qed.

Lemma binary_round_equiv s m e :
  SpecFloat.binary_round prec emax s m e =
  binary_round prec emax mode_NE s m e.
Proof.
unfold SpecFloat.binary_round, binary_round, shl_align_fexp.
set (mez := shl_align _ _ _); case mez as [mz ez].
apply binary_round_aux_equiv.
Qed.

Lemma binary_normalize_equiv m e szero :
  SpecFloat.binary_normalize prec emax m e szero
  = B2SF (binary_normalize prec emax Hprec Hmax mode_NE m e szero).
Proof.
case m as [ | p | p].
- now simpl.
- simpl; rewrite B2SF_SF2B; apply binary_round_equiv.
- simpl; rewrite B2SF_SF2B; apply binary_round_equiv.
Qed.

Theorem SFadd_Bplus (x y : bf) :
  SFadd prec emax (B2SF x) (B2SF y) = B2SF (Bplus mode_NE x y).
Proof.
destruct x as [sx|sx| |sx mx ex Bx]; destruct y as [sy|sy| |sy my ey By];
  try (now (trivial || simpl; case Bool.eqb)).
apply binary_normalize_equiv.
Qed.

Theorem SFsub_Bminus (x y : bf) :
  SFsub prec emax (B2SF x) (B2SF y) = B2SF (Bminus mode_NE x y).
Proof.
destruct x as [sx|sx| |sx mx ex Bx]; destruct y as [sy|sy| |sy my ey By];
  try (now (trivial || simpl; case Bool.eqb)).
simpl.
unfold Zminus.
rewrite <- cond_Zopp_negb.
apply binary_normalize_equiv.
Qed.

Theorem SFmul_Bmult (x y : bf) :
  SFmul prec emax (B2SF x) (B2SF y) = B2SF (Bmult mode_NE x y).
Proof.
destruct x as [sx|sx| |sx mx ex Bx]; destruct y as [sy|sy| |sy my ey By]; try now trivial.
simpl. rewrite B2SF_SF2B. apply binary_round_aux_equiv.
Qed.

Theorem SFdiv_Bdiv (x y : bf) :
  SFdiv prec emax (B2SF x) (B2SF y) = B2SF (Bdiv mode_NE x y).
Proof.
destruct x as [sx|sx| |sx mx ex Bx]; destruct y as [sy|sy| |sy my ey By]; try now trivial.
simpl.
rewrite B2SF_SF2B.
set (melz := SFdiv_core_binary _ _ _ _ _ _).
case melz as [[mz ez] lz].
apply binary_round_aux_equiv.
Qed.

Theorem SFopp_Bopp (x : bf) : SFopp (B2SF x) = B2SF (Bopp x).
Proof. now destruct x. Qed.

Theorem SFabs_Babs (x : bf) : SFabs (B2SF x) = B2SF (Babs x).
Proof. now destruct x. Qed.

Theorem SFcompare_Bcompare (x y : bf) : SFcompare (B2SF x) (B2SF y) = Bcompare x y.
Proof. reflexivity. Qed.

End Gen.
