(** C08 — the specification: a pure parser on the whole input byte string.
    No buffer, no events, no fuel.  Only the *types* of scripts and values
    ([ity], [sty], [op], [val], [status]) are shared with Model.v; the character
    classes, the decimal value and the range test are restated here.

    [SPanic] marks input that is outside the reader's contract at that point
    (no token left, malformed or out-of-range number): the debug build panics
    there, and so does the specification. *)
From Coq Require Import ZArith NArith List Bool.
From RlibV Require Import C08.Model.
Import ListNotations.
Open Scope Z_scope.

(** all data bytes of a schedule, in order *)
Fixpoint data_of (src : list event) : list byte :=
  match src with
  | [] => []
  | Data c :: s => c ++ data_of s
  | Intr :: s => data_of s
  end.

(** ASCII whitespace: space, TAB, LF, FF, CR *)
Definition ws (c : byte) : bool := existsb (Z.eqb c) [32; 9; 10; 12; 13].
Definition digit (c : byte) : bool := (48 <=? c) && (c <=? 57).

Fixpoint drop_ws (l : list byte) : list byte :=
  match l with
  | c :: l' => if ws c then drop_ws l' else l
  | [] => []
  end.

(** the maximal whitespace-free prefix, and what follows it *)
Fixpoint token (l : list byte) : list byte * list byte :=
  match l with
  | [] => ([], [])
  | c :: l' => if ws c then ([], l) else let '(t, r) := token l' in (c :: t, r)
  end.

(** value of a digit string (Horner, unbounded) *)
Definition dec_value (ds : list byte) : Z := fold_left (fun a c => a * 10 + (c - 48)) ds 0.

Definition min_of (t : ity) : Z := if sgn t then - 2 ^ (bits t - 1) else 0.
Definition max_of (t : ity) : Z := if sgn t then 2 ^ (bits t - 1) - 1 else 2 ^ bits t - 1.
Definition fits (t : ity) (v : Z) : bool := (min_of t <=? v) && (v <=? max_of t).

Inductive sres (A : Type) := SRet (a : A) (rest : list byte) | SPanic.
Arguments SRet {A} a rest. Arguments SPanic {A}.

(** a decimal token: optional '-' (signed types only), then one or more digits,
    the value inside the type's range *)
Definition spec_int (t : ity) (l : list byte) : sres Z :=
  let l1 := drop_ws l in
  let '(neg, l2) := match l1 with
                    | c :: l' => if sgn t && (c =? 45) then (true, l') else (false, l1)
                    | [] => (false, l1)
                    end in
  let '(tok, rest) := token l2 in
  match tok with
  | [] => SPanic
  | _ :: _ =>
      let v := if neg then - dec_value tok else dec_value tok in
      if forallb digit tok && fits t v then SRet v rest else SPanic
  end.

Definition spec_string (l : list byte) : sres (list byte) :=
  let '(tok, rest) := token (drop_ws l) in
  match tok with [] => SPanic | _ :: _ => SRet tok rest end.

Definition spec_char (l : list byte) : sres byte :=
  match drop_ws l with c :: rest => SRet c rest | [] => SPanic end.

(** first line of a non-empty input and the rest: ends at LF (a CR directly before
    it is stripped) or at the end of input *)
Fixpoint line_split (l : list byte) : list byte * list byte :=
  match l with
  | [] => ([], [])
  | c :: r =>
      if c =? 10 then ([], r)
      else if (c =? 13) && (match r with c2 :: _ => c2 =? 10 | [] => false end) then ([], tl r)
      else let '(x, r') := line_split r in (c :: x, r')
  end.
Definition spec_line (l : list byte) : option (list byte) * list byte :=
  match l with
  | [] => (None, [])
  | _ :: _ => let '(x, r) := line_split l in (Some x, r)
  end.

(** all lines: split at LF, one CR before the LF stripped, no line after a final LF *)
Fixpoint split_lines (cur : list byte) (l : list byte) : list (list byte) :=
  match l with
  | [] => match cur with [] => [] | _ :: _ => [rev' cur] end
  | c :: r =>
      if c =? 10 then
        rev' (match cur with c' :: cur' => if c' =? 13 then cur' else cur | [] => cur end)
          :: split_lines [] r
      else split_lines (c :: cur) r
  end.
Definition spec_lines (l : list byte) : list (list byte) := split_lines [] l.

(** end-of-input test: nothing but whitespace is left (and it is consumed) *)
Definition spec_is_eof (l : list byte) : bool * list byte :=
  let r := drop_ws l in (match r with [] => true | _ :: _ => false end, r).

Definition sbind {A B} (x : sres A) (k : A -> list byte -> sres B) : sres B :=
  match x with SRet a r => k a r | SPanic => SPanic end.

Definition spec_scalar (t : sty) (l : list byte) : sres sval :=
  match t with
  | TInt t => sbind (spec_int t l) (fun v r => SRet (SInt v) r)
  | TStr => sbind (spec_string l) (fun v r => SRet (SStr v) r)
  | TChar => sbind (spec_char l) (fun v r => SRet (SChar v) r)
  end.

Fixpoint spec_seq (ts : list sty) (l : list byte) : sres (list sval) :=
  match ts with
  | [] => SRet [] l
  | t :: ts' =>
      sbind (spec_scalar t l) (fun v r => sbind (spec_seq ts' r) (fun vs r' => SRet (v :: vs) r'))
  end.

Definition spec_op (o : op) (l : list byte) : sres val :=
  match o with
  | OScalar t => sbind (spec_scalar t l) (fun v r => SRet (VScalar v) r)
  | OTuple ts => sbind (spec_seq ts l) (fun v r => SRet (VTuple v) r)
  | OVec n t => sbind (spec_seq (repeat t (N.to_nat n)) l) (fun v r => SRet (VVec v) r)
  | OLine => let '(x, r) := spec_line l in SRet (VLine x) r
  | OLines => SRet (VLines (spec_lines l)) []
  | OIsEof => let '(b, r) := spec_is_eof l in SRet (VEof b) r
  end.

(** values returned by a script on an input; [Panicked] = the script left the contract *)
Fixpoint spec_run (ops : list op) (l : list byte) : list val * status :=
  match ops with
  | [] => ([], Finished)
  | o :: ops' =>
      match spec_op o l with
      | SRet v r => let '(vs, st) := spec_run ops' r in (v :: vs, st)
      | SPanic => ([], Panicked)
      end
  end.
