(** C08 — proofs, part 3: the digit loop with checked arithmetic.  Every
    intermediate value of an in-range decimal token is in range (no overflow
    panic), in particular for the minimum of a signed type, which is accumulated
    negatively; and an out-of-range or malformed token always panics. *)
From Coq Require Import ZArith NArith List Bool Lia.
From RlibV Require Import C08.Model C08.Spec.
From RlibV Require Import C08.ProofsCore C08.ProofsLoops.
Import ListNotations.
Open Scope Z_scope.

(** the 12 Rust types have at least 8 bits; the proofs need one *)
Definition ity_ok (t : ity) : Prop := 1 <= bits t.

Fixpoint fold_opt {A} (f : A -> byte -> option A) (a : A) (l : list byte) : option A :=
  match l with
  | [] => Some a
  | c :: l' => match f a c with None => None | Some a' => fold_opt f a' l' end
  end.

(** unchecked Horner step of the two loops *)
Definition hstep (neg : bool) (a : Z) (c : byte) : Z := if neg then a * 10 - (c - 48) else a * 10 + (c - 48).
Definition horner (neg : bool) (v : Z) (tok : list byte) : Z := fold_left (hstep neg) tok v.

Lemma dec_value_horner tok : dec_value tok = horner false 0 tok.
Proof. reflexivity. Qed.

Lemma horner_neg : forall tok v, horner true v tok = - horner false (- v) tok.
Proof.
  induction tok as [|c tok IH]; intros v; cbn [horner fold_left]; [lia|].
  fold (horner true (hstep true v c) tok). fold (horner false (hstep false (- v) c) tok).
  rewrite IH. f_equal. f_equal. unfold hstep. lia.
Qed.

Lemma is_digit_range c : is_digit c = true -> 0 <= c - 48 <= 9.
Proof. unfold is_digit. intros H. apply andb_prop in H. destruct H as [H1 H2]. lia. Qed.

Lemma horner_pos_ge : forall tok v, forallb is_digit tok = true -> 0 <= v -> v <= horner false v tok.
Proof.
  induction tok as [|c tok IH]; intros v Hd Hv; cbn [horner fold_left]; [lia|].
  cbn [forallb] in Hd. apply andb_prop in Hd. destruct Hd as [Hc Hd].
  pose proof (is_digit_range _ Hc) as Hr.
  fold (horner false (hstep false v c) tok).
  assert (H1 : v <= hstep false v c) by (unfold hstep; lia).
  specialize (IH (hstep false v c) Hd). lia.
Qed.

Lemma horner_neg_le : forall tok v, forallb is_digit tok = true -> v <= 0 -> horner true v tok <= v.
Proof.
  intros tok v Hd Hv. rewrite horner_neg. pose proof (horner_pos_ge tok (- v) Hd). lia.
Qed.

Lemma lo_hi t : ity_ok t -> lo t <= 0 <= hi t.
Proof.
  unfold ity_ok, lo, hi. intros H. destruct (sgn t).
  - assert (0 < 2 ^ (bits t - 1)) by (apply Z.pow_pos_nonneg; lia). lia.
  - assert (0 < 2 ^ bits t) by (apply Z.pow_pos_nonneg; lia). lia.
Qed.

Lemma in_range_iff t v : in_range t v = true <-> lo t <= v <= hi t.
Proof. unfold in_range. rewrite andb_true_iff, !Z.leb_le. tauto. Qed.



(** the checked loop = "all digits, final value in range"; then it returns the unchecked value *)
Lemma int_fold : forall (t : ity) (neg : bool), ity_ok t -> forall (tok : list byte) (v : Z) (b : bool),
  (if neg then lo t <= v <= 0 else 0 <= v <= hi t) ->
  fold_opt (int_acc t neg) (v, b) tok =
    if forallb is_digit tok && in_range t (horner neg v tok)
    then Some (horner neg v tok, b || negb (is_nil tok)) else None.
Proof.
  intros t neg Hok. pose proof (lo_hi t Hok) as Hlh.
  induction tok as [|c tok IH]; intros v b Hv.
  - cbn [fold_opt forallb horner fold_left is_nil negb andb].
    assert (Hin : in_range t v = true) by (apply in_range_iff; destruct neg; lia).
    rewrite Hin, orb_false_r. reflexivity.
  - cbn [fold_opt forallb is_nil negb]. unfold int_acc at 1. cbn [fst snd].
    destruct (is_digit c) eqn:Hc; [|reflexivity]. cbn [andb].
    pose proof (is_digit_range _ Hc) as Hr.
    cbn [horner fold_left]. fold (horner neg (hstep neg v c) tok).
    unfold chk.
    destruct (in_range t (v * 10)) eqn:Hm.
    + apply in_range_iff in Hm.
      replace (if neg then v * 10 - (c - 48) else v * 10 + (c - 48)) with (hstep neg v c) by reflexivity.
      destruct (in_range t (hstep neg v c)) eqn:Hs.
      * apply in_range_iff in Hs. rewrite IH.
        -- rewrite orb_true_r. destruct (forallb is_digit tok && in_range t (horner neg (hstep neg v c) tok));
             [rewrite orb_true_l|]; reflexivity.
        -- unfold hstep in *. destruct neg; lia.
      * (* the step overflows: so does the whole token *)
        destruct (forallb is_digit tok) eqn:Hd; [|reflexivity]. cbn [andb].
        assert (Hout : in_range t (horner neg (hstep neg v c) tok) = false).
        { apply not_true_is_false. intros Hx. apply in_range_iff in Hx.
          apply not_true_iff_false in Hs. apply Hs. apply in_range_iff.
          destruct neg.
          - pose proof (horner_neg_le tok (hstep true v c) Hd). unfold hstep in *. lia.
          - pose proof (horner_pos_ge tok (hstep false v c) Hd). unfold hstep in *. lia. }
        rewrite Hout. reflexivity.
    + destruct (forallb is_digit tok) eqn:Hd; [|reflexivity]. cbn [andb].
      assert (Hout : in_range t (horner neg (hstep neg v c) tok) = false).
      { apply not_true_is_false. intros Hx. apply in_range_iff in Hx.
        apply not_true_iff_false in Hm. apply Hm. apply in_range_iff.
        destruct neg.
        - pose proof (horner_neg_le tok (hstep true v c) Hd). unfold hstep in *. lia.
        - pose proof (horner_pos_ge tok (hstep false v c) Hd). unfold hstep in *. lia. }
      rewrite Hout. reflexivity.
Qed.

(** c08_parse_no_overflow, loop form: an in-range decimal token is accepted by the
    checked loop (no intermediate overflow), with its mathematical value *)
Lemma parse_no_overflow : forall (t : ity) (neg : bool) (tok : list byte),
  ity_ok t -> tok <> [] -> forallb digit tok = true ->
  fits t (if neg then - dec_value tok else dec_value tok) = true ->
  fold_opt (int_acc t neg) (0, false) tok = Some (if neg then - dec_value tok else dec_value tok, true).
Proof.
  intros t neg tok Hok Hne Hd Hf. pose proof (lo_hi t Hok) as Hlh.
  rewrite (int_fold t neg Hok tok 0 false) by (destruct neg; lia).
  change (forallb is_digit tok) with (forallb digit tok). rewrite Hd. cbn [andb].
  assert (Hv : horner neg 0 tok = if neg then - dec_value tok else dec_value tok).
  { destruct neg; [|reflexivity]. rewrite horner_neg. reflexivity. }
  rewrite Hv. change (in_range t) with (fits t). rewrite Hf.
  destruct tok; [contradiction|]. reflexivity.
Qed.
