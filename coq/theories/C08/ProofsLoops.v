(** C08 — proofs, part 2: the loops (skip_whitespace, the token loop, read_line,
    read_lines) compute the corresponding pure functions on the remaining input. *)
From Coq Require Import ZArith NArith List Bool Lia.
From RlibV Require Import Common.Iter C08.Model C08.Spec.
From RlibV Require Import C08.ProofsCore.
Import ListNotations.
Open Scope Z_scope.

(** proof rule for [run_loop] *)
Lemma run_loop_spec {S A} (step : S -> S + res A) (I : S -> Prop) (Post : res A -> Prop) (mu : S -> Z) :
  (forall s, I s -> match step s with inl s' => I s' /\ 0 <= mu s' < mu s | inr x => Post x end) ->
  forall s, I s -> 0 <= mu s < 2 ^ 130 -> Post (run_loop step s).
Proof.
  intros Hstep s Hi Hmu. unfold run_loop.
  destruct (iter_pos_spec step I Post mu Hstep big_fuel s Hi) as (x & Hx & Hp).
  - rewrite big_fuel_val. exact Hmu.
  - rewrite Hx. exact Hp.
Qed.

Definition remaining (r : reader) (src : list event) : Z := Z.of_nat (length (live r ++ data_of src)).
Lemma remaining_represents r src l : represents r src l -> remaining r src = Z.of_nat (length l).
Proof. intros [_ H]. unfold remaining. rewrite H. reflexivity. Qed.

(** result of a model function vs result of a pure function *)
Definition sim {A} (x : res A) (y : option (A * list byte)) : Prop :=
  match y with
  | None => x = Panic
  | Some (a, l') => exists r' src', x = Ret a r' src' /\ represents r' src' l'
  end.

(** ------------------------------------------------------------------ token loop *)
Fixpoint sscan {A} (f : A -> byte -> option A) (a : A) (l : list byte) : option (A * list byte) :=
  match l with
  | [] => Some (a, [])
  | c :: l' =>
      if negb (is_ws c) then match f a c with None => None | Some a' => sscan f a' l' end
      else Some (a, l)
  end.

Lemma scan_sim {A} (f : A -> byte -> option A) : forall a r src l,
  represents r src l -> Z.of_nat (length l) < 2 ^ 130 -> sim (scan f a r src) (sscan f a l).
Proof.
  intros a r src l HR Hlen. unfold scan.
  apply (run_loop_spec (scan_step f)
    (fun s => let '(r1, s1, a1) := s in exists l1, represents r1 s1 l1 /\ sscan f a1 l1 = sscan f a l
                                              /\ (length l1 <= length l)%nat)
    (fun x => sim x (sscan f a l))
    (fun s => let '(r1, s1, _) := s in remaining r1 s1)).
  - intros [[r1 s1] a1] (l1 & HR1 & Hs & Hle). unfold scan_step.
    destruct (fill r1 s1) as [r2 s2] eqn:Ef.
    destruct (fill_spec _ _ _ _ _ HR1 Ef) as (HR2 & _ & Hm).
    destruct l1 as [|c l1].
    + rewrite Hm. rewrite <- Hs. cbn [sscan sim]. eauto.
    + destruct Hm as (He & _). rewrite He.
      destruct (peek r2 s2) as [[oc r3] s3] eqn:Ep.
      destruct (peek_spec _ _ _ _ _ _ HR2 Ep) as (HR3 & _ & _ & _ & -> & lv & Hlv).
      rewrite <- Hs. cbn [sscan]. destruct (negb (is_ws c)).
      * destruct (f a1 c) as [a2|]; [|reflexivity].
        destruct (advance_spec _ _ _ _ _ HR3 Hlv) as (r4 & -> & HR4 & _).
        split.
        -- exists l1. split; [exact HR4|]. split; [reflexivity|]. cbn [length] in Hle. lia.
        -- rewrite (remaining_represents _ _ _ HR4), (remaining_represents _ _ _ HR1). cbn [length]. lia.
      * cbn [sim]. eauto.
  - exists l. auto.
  - rewrite (remaining_represents _ _ _ HR). lia.
Qed.

Lemma sscan_length {A} (f : A -> byte -> option A) : forall l a a' l',
  sscan f a l = Some (a', l') -> (length l' <= length l)%nat.
Proof.
  induction l as [|c l IH]; intros a a' l' H; cbn [sscan] in H.
  - inversion H. cbn. lia.
  - destruct (negb (is_ws c)).
    + destruct (f a c); [|discriminate]. apply IH in H. cbn [length]. lia.
    + inversion H. lia.
Qed.

(** ------------------------------------------------------------------ skip_whitespace *)
Fixpoint sdrop (l : list byte) : list byte :=
  match l with
  | c :: l' => if is_ws c then sdrop l' else l
  | [] => []
  end.

Definition is_nil {A} (l : list A) : bool := match l with [] => true | _ :: _ => false end.

Lemma represents_eof_false : forall r src c l, represents r src (c :: l) -> eof r = false.
Proof.
  intros r src c l [Hinv Hl]. destruct (eof r) eqn:E; [|reflexivity].
  destruct (inv_eof _ _ Hinv E) as (H1 & _ & H2). rewrite H1, H2 in Hl. discriminate.
Qed.

(** besides the remaining input, skip_whitespace leaves [eof] up to date *)
Lemma skip_ws_sim : forall r src l,
  represents r src l -> Z.of_nat (length l) < 2 ^ 130 ->
  exists r' src', skip_ws r src = Ret tt r' src' /\ represents r' src' (sdrop l) /\ eof r' = is_nil (sdrop l).
Proof.
  intros r src l HR Hlen. unfold skip_ws.
  apply (run_loop_spec skip_ws_step
    (fun s => let '(r1, s1) := s in exists l1, represents r1 s1 l1 /\ sdrop l1 = sdrop l
                                          /\ (length l1 <= length l)%nat)
    (fun x => exists r' src', x = Ret tt r' src' /\ represents r' src' (sdrop l) /\ eof r' = is_nil (sdrop l))
    (fun s => let '(r1, s1) := s in remaining r1 s1)).
  - intros [r1 s1] (l1 & HR1 & Hs & Hle). unfold skip_ws_step.
    destruct (fill r1 s1) as [r2 s2] eqn:Ef.
    destruct (fill_spec _ _ _ _ _ HR1 Ef) as (HR2 & _ & Hm).
    destruct l1 as [|c l1].
    + rewrite Hm. rewrite <- Hs. cbn [sdrop is_nil]. eauto.
    + destruct Hm as (He & _). rewrite He.
      destruct (peek r2 s2) as [[oc r3] s3] eqn:Ep.
      destruct (peek_spec _ _ _ _ _ _ HR2 Ep) as (HR3 & _ & _ & He3 & -> & lv & Hlv).
      rewrite <- Hs. cbn [sdrop]. destruct (is_ws c).
      * destruct (advance_spec _ _ _ _ _ HR3 Hlv) as (r4 & -> & HR4 & _).
        destruct (fill r4 s3) as [r5 s5] eqn:Ef2.
        destruct (fill_spec _ _ _ _ _ HR4 Ef2) as (HR5 & _ & _).
        split.
        -- exists l1. split; [exact HR5|]. split; [reflexivity|]. cbn [length] in Hle. lia.
        -- rewrite (remaining_represents _ _ _ HR5), (remaining_represents _ _ _ HR1). cbn [length]. lia.
      * cbn [is_nil]. eauto.
  - exists l. auto.
  - rewrite (remaining_represents _ _ _ HR). lia.
Qed.

Lemma sdrop_length : forall l, (length (sdrop l) <= length l)%nat.
Proof. induction l as [|c l IH]; cbn [sdrop length]; [lia|]. destruct (is_ws c); cbn [length]; lia. Qed.

(** ------------------------------------------------------------------ read_line *)
Lemma rev'_cons {A} (c : A) (a : list A) : rev' (c :: a) = rev' a ++ [c].
Proof. unfold rev'. rewrite !rev_append_rev, !app_nil_r. reflexivity. Qed.

Definition sline (acc : list byte) (rs : bool) (l : list byte) : option (list byte) * list byte :=
  match l with
  | [] => (if rs then Some (rev' acc) else None, [])
  | _ :: _ => let '(x, r) := line_split l in (Some (rev' acc ++ x), r)
  end.

Lemma sline_continue : forall acc rs c l,
  c <> 10 -> (c = 13 -> forall l', l <> 10 :: l') ->
  sline acc rs (c :: l) = sline (c :: acc) true l.
Proof.
  intros acc rs c l H10 H13. unfold sline at 1. cbn [line_split].
  destruct (Z.eqb_spec c 10) as [|_]; [contradiction|].
  match goal with |- context [if ?b then ([], tl l) else _] => assert (Hc : b = false) end.
  { destruct (Z.eqb_spec c 13) as [E|]; [|reflexivity]. cbn [andb].
    destruct l as [|c2 l']; [reflexivity|]. destruct (Z.eqb_spec c2 10) as [->|]; [|reflexivity].
    exfalso. eapply H13; eauto. }
  rewrite Hc. unfold sline. destruct l as [|c2 l'].
  - cbn [line_split]. rewrite rev'_cons. reflexivity.
  - destruct (line_split (c2 :: l')) as [x r']. rewrite rev'_cons, <- app_assoc. reflexivity.
Qed.

Lemma read_line_sim : forall r src l,
  represents r src l -> Z.of_nat (length l) < 2 ^ 130 ->
  exists r' src', read_line r src = Ret (fst (spec_line l)) r' src' /\ represents r' src' (snd (spec_line l)).
Proof.
  intros r src l HR Hlen. unfold read_line.
  assert (Hgoal : forall o rest, sline [] false l = (o, rest) ->
            exists r' src', run_loop line_step (r, src, [], false) = Ret o r' src' /\ represents r' src' rest).
  { intros o rest Hsl.
    apply (run_loop_spec line_step
      (fun s => let '(r1, s1, acc, rs) := s in exists l1, represents r1 s1 l1 /\ sline acc rs l1 = (o, rest)
                                                     /\ (length l1 <= length l)%nat)
      (fun x => exists r' src', x = Ret o r' src' /\ represents r' src' rest)
      (fun s => let '(r1, s1, _, _) := s in remaining r1 s1)).
    - intros [[[r1 s1] acc] rs] (l1 & HR1 & Hs & Hle). unfold line_step.
      destruct (fill r1 s1) as [r2 s2] eqn:Ef.
      destruct (fill_spec _ _ _ _ _ HR1 Ef) as (HR2 & _ & Hm).
      destruct l1 as [|c l1].
      + rewrite Hm. cbn [sline] in Hs. inversion Hs; subst. eauto.
      + destruct Hm as (He & _). rewrite He.
        destruct (peek r2 s2) as [[oc r3] s3] eqn:Ep.
        destruct (peek_spec _ _ _ _ _ _ HR2 Ep) as (HR3 & _ & _ & _ & -> & lv & Hlv).
        destruct (advance_spec _ _ _ _ _ HR3 Hlv) as (r4 & -> & HR4 & _).
        assert (Hmu : forall r' s', represents r' s' l1 -> 0 <= remaining r' s' < remaining r1 s1).
        { intros r' s' HR'. rewrite (remaining_represents _ _ _ HR'), (remaining_represents _ _ _ HR1).
          cbn [length]. lia. }
        assert (Hle1 : (length l1 <= length l)%nat) by (cbn [length] in Hle; lia).
        destruct (Z.eqb_spec c 13) as [->|Hn13].
        * destruct (peek r4 s3) as [[oc2 r5] s5] eqn:Ep2.
          destruct (peek_spec _ _ _ _ _ _ HR4 Ep2) as (HR5 & _ & _ & Hm5).
          destruct l1 as [|c2 l2].
          -- destruct Hm5 as (He5 & c2 & ->). rewrite He5, andb_false_r.
             split; [|apply Hmu; exact HR5].
             exists []. split; [exact HR5|]. split; [|exact Hle1].
             rewrite <- Hs. symmetry. apply sline_continue; [lia|]. intros _ l' Hx. discriminate.
          -- destruct Hm5 as (He5 & -> & lv5 & Hlv5). rewrite He5. cbn [negb]. rewrite andb_true_r.
             destruct (Z.eqb_spec c2 10) as [->|Hn10].
             ++ destruct (advance_spec _ _ _ _ _ HR5 Hlv5) as (r6 & -> & HR6 & _).
                unfold sline in Hs. cbn in Hs. rewrite app_nil_r in Hs. inversion Hs; subst. eauto.
             ++ split; [|apply Hmu; exact HR5].
                exists (c2 :: l2). split; [exact HR5|]. split; [|exact Hle1].
                rewrite <- Hs. symmetry. apply sline_continue; [lia|].
                intros _ l' Hx. inversion Hx. contradiction.
        * destruct (Z.eqb_spec c 10) as [->|Hn10].
          -- unfold sline in Hs. cbn in Hs. rewrite app_nil_r in Hs. inversion Hs; subst. eauto.
          -- split; [|apply Hmu; exact HR4].
             exists l1. split; [exact HR4|]. split; [|exact Hle1].
             rewrite <- Hs. symmetry. apply sline_continue; [exact Hn10|]. intros Hx. contradiction.
    - exists l. auto.
    - rewrite (remaining_represents _ _ _ HR). lia. }
  destruct (sline [] false l) as [o rest] eqn:Esl.
  destruct (Hgoal _ _ eq_refl) as (r' & src' & H1 & H2).
  exists r', src'. unfold sline in Esl. unfold spec_line. destruct l as [|c l'].
  - inversion Esl; subst. cbn [fst snd]. auto.
  - destruct (line_split (c :: l')) as [x rr]. inversion Esl; subst. cbn [fst snd]. auto.
Qed.

Lemma line_split_length : forall l x rest,
  l <> [] -> line_split l = (x, rest) -> (length rest < length l)%nat.
Proof.
  induction l as [|c l IH]; intros x rest Hne H; [contradiction|]. cbn [line_split] in H.
  destruct (c =? 10); [inversion H; cbn [length]; lia|].
  destruct ((c =? 13) && match l with c2 :: _ => c2 =? 10 | [] => false end).
  - inversion H. destruct l; cbn [tl length]; lia.
  - destruct (line_split l) as [x' r'] eqn:E. inversion H; subst.
    destruct l as [|c2 l2].
    + cbn in E. inversion E. cbn. lia.
    + assert (Hx : c2 :: l2 <> []) by discriminate. specialize (IH _ _ Hx eq_refl). cbn [length] in *. lia.
Qed.

(** ------------------------------------------------------------------ read_lines *)
Lemma lines_split_gen : forall l cur x rest,
  (forall cur' l', cur = 13 :: cur' -> l <> 10 :: l') ->
  (l <> [] \/ cur <> []) ->
  line_split l = (x, rest) ->
  split_lines cur l = (rev' cur ++ x) :: split_lines [] rest.
Proof.
  induction l as [|c l IH]; intros cur x rest Hcr Hne H.
  - cbn in H. inversion H; subst. cbn [split_lines]. destruct cur; [destruct Hne; contradiction|].
    rewrite app_nil_r. reflexivity.
  - cbn [line_split] in H. cbn [split_lines].
    destruct (Z.eqb_spec c 10) as [->|Hn10].
    + inversion H; subst. rewrite app_nil_r. f_equal.
      destruct cur as [|c' cur']; [reflexivity|].
      destruct (Z.eqb_spec c' 13) as [->|]; [|reflexivity].
      exfalso. eapply Hcr; reflexivity.
    + destruct (Z.eqb_spec c 13) as [->|Hn13].
      * cbn [andb] in H. destruct l as [|c2 l2].
        -- cbn in H. inversion H; subst. cbn [split_lines]. rewrite rev'_cons. reflexivity.
        -- destruct (Z.eqb_spec c2 10) as [->|Hc2].
           ++ inversion H; subst. cbn [tl split_lines]. cbn. rewrite app_nil_r. reflexivity.
           ++ destruct (line_split (c2 :: l2)) as [x' r'] eqn:E. inversion H; subst.
              rewrite (IH (13 :: cur) x' rest); [rewrite rev'_cons, <- app_assoc; reflexivity| | |reflexivity].
              ** intros cur' l' _ Hx. inversion Hx. contradiction.
              ** left. discriminate.
      * cbn [andb] in H. destruct (line_split l) as [x' r'] eqn:E. inversion H; subst.
        rewrite (IH (c :: cur) x' rest); [rewrite rev'_cons, <- app_assoc; reflexivity| | |reflexivity].
        -- intros cur' l' Hx. inversion Hx. contradiction.
        -- right. discriminate.
Qed.

Lemma lines_split : forall l x rest, l <> [] -> line_split l = (x, rest) ->
  spec_lines l = x :: spec_lines rest.
Proof.
  intros l x rest Hne H. unfold spec_lines. rewrite (lines_split_gen l [] x rest); auto.
  intros cur' l' Hx. discriminate.
Qed.

Lemma read_lines_sim : forall r src l,
  represents r src l -> Z.of_nat (length l) < 2 ^ 130 ->
  exists r' src', read_lines r src = Ret (spec_lines l) r' src' /\ represents r' src' [].
Proof.
  intros r src l HR Hlen. unfold read_lines.
  apply (run_loop_spec lines_step
    (fun s => let '(r1, s1, acc) := s in exists l1, represents r1 s1 l1 /\ rev' acc ++ spec_lines l1 = spec_lines l
                                               /\ (length l1 <= length l)%nat)
    (fun x => exists r' src', x = Ret (spec_lines l) r' src' /\ represents r' src' [])
    (fun s => let '(r1, s1, _) := s in remaining r1 s1)).
  - intros [[r1 s1] acc] (l1 & HR1 & Hs & Hle). unfold lines_step.
    assert (Hlen1 : Z.of_nat (length l1) < 2 ^ 130) by lia.
    destruct (read_line_sim _ _ _ HR1 Hlen1) as (r2 & s2 & -> & HR2).
    unfold spec_line in *. destruct l1 as [|c l1].
    + cbn [fst snd] in *. exists r2, s2. split; [|exact HR2]. rewrite <- Hs. cbn. rewrite app_nil_r. reflexivity.
    + destruct (line_split (c :: l1)) as [x rest] eqn:E. cbn [fst snd] in *.
      assert (Hne : c :: l1 <> []) by discriminate.
      pose proof (line_split_length _ _ _ Hne E) as Hlt.
      split.
      * exists rest. split; [exact HR2|]. split; [|lia].
        rewrite rev'_cons, <- app_assoc. cbn [app]. rewrite <- (lines_split _ _ _ Hne E). exact Hs.
      * rewrite (remaining_represents _ _ _ HR2), (remaining_represents _ _ _ HR1). lia.
  - exists l. auto.
  - rewrite (remaining_represents _ _ _ HR). lia.
Qed.
