(** C08 — the two defects that were repaired in /repo (known_findings.txt: 4e1aef5, 46c5d25),
    as statements about explicitly named *old* variants of the model.  They document why
    [c08_schedule_independent] was false before the repairs; nothing else depends on them. *)
From Coq Require Import ZArith NArith List Bool Lia.
From RlibV Require Import Common.Iter C08.Model C08.Spec.
Import ListNotations.
Open Scope Z_scope.

(** old read_line: [if c == '\r' && self.peek() == b'\n' {] — without [&& !self.eof].  At end
    of input [peek] returns the stale [buf[begin]]; if that is LF the CR is dropped (and [begin]
    moves past [end], which no later call notices because [eof] is set: the model leaves the
    cursor where it is in that case). *)
Definition line_step_old (s : reader * list event * list byte * bool)
  : (reader * list event * list byte * bool) + res (option (list byte)) :=
  let '(r, src, acc, rs) := s in
  let '(r1, src1) := fill r src in
  if eof r1 then inr (Ret (if rs then Some (rev' acc) else None) r1 src1)
  else
    let '(oc, r2, src2) := peek r1 src1 in
    match oc, advance r2 with
    | Some c, Some r3 =>
        if c =? 13 then
          let '(oc2, r4, src4) := peek r3 src2 in
          match oc2 with
          | None => inr Panic
          | Some c2 =>
              if c2 =? 10 then
                match advance r4 with
                | Some r5 => inr (Ret (Some (rev' acc)) r5 src4)
                | None => inr (Ret (Some (rev' acc)) r4 src4)
                end
              else inl (r4, src4, c :: acc, true)
          end
        else if c =? 10 then inr (Ret (Some (rev' acc)) r3 src2)
        else inl (r3, src2, c :: acc, true)
    | _, _ => inr Panic
    end.
Definition read_line_old (r : reader) (src : list event) : res (option (list byte)) :=
  run_loop line_step_old (r, src, [], false).
Definition lines_step_old (s : reader * list event * list (list byte))
  : (reader * list event * list (list byte)) + res (list (list byte)) :=
  let '(r, src, acc) := s in
  match read_line_old r src with
  | Ret (Some l) r' src' => inl (r', src', l :: acc)
  | Ret None r' src' => inr (Ret (rev' acc) r' src')
  | Panic => inr Panic
  | Fuel => inr Fuel
  end.
Definition read_lines_old (r : reader) (src : list event) : res (list (list byte)) :=
  run_loop lines_step_old (r, src, []).

Definition value {A} (x : res A) : option A := match x with Ret a _ _ => Some a | _ => None end.

(** "\nabc\r": one read vs one byte per read *)
Lemma old_stale_refuted :
  exists src1 src2 : list event,
    Forall (fun e => e <> Data []) src1 /\ Forall (fun e => e <> Data []) src2 /\
    data_of src1 = data_of src2 /\
    value (read_lines_old (new_reader 65536) src1) = Some [[]; [97; 98; 99]] /\
    value (read_lines_old (new_reader 65536) src2) = Some [[]; [97; 98; 99; 13]] /\
    (* the repaired reader returns the second answer for both *)
    value (read_lines (new_reader 65536) src1) = Some [[]; [97; 98; 99; 13]] /\
    value (read_lines (new_reader 65536) src2) = Some [[]; [97; 98; 99; 13]].
Proof.
  exists [Data [10; 97; 98; 99; 13]], [Data [10]; Data [97]; Data [98]; Data [99]; Data [13]].
  split; [repeat constructor; discriminate|]. split; [repeat constructor; discriminate|].
  split; [reflexivity|]. repeat split; vm_compute; reflexivity.
Qed.

(** old refill: [let bytes = self.stdin.read(&mut self.buf[self.end..]).unwrap();] — an
    Interrupted error is unwrapped *)
Definition src_read_old (room : list byte) (src : list event) : option (list byte * list byte * list event) :=
  match src with
  | [] => Some ([], room, [])
  | Intr :: _ => None
  | Data ch :: s =>
      let '(t, cr, rr) := take_cap ch room in
      Some (t, rr, match cr with [] => s | _ :: _ => Data cr :: s end)
  end.

(** the very first refill of a fresh reader panics as soon as the schedule starts with Interrupted *)
Lemma old_interrupted_refuted : forall (BUF : N) (src : list event),
  src_read_old (post (new_reader BUF)) (Intr :: src) = None
  /\ src_read (post (new_reader BUF)) (Intr :: src) = src_read (post (new_reader BUF)) src.
Proof. intros BUF src. split; reflexivity. Qed.
