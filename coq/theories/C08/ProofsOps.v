(** C08 — proofs, part 4: every operation of the reader computes the pure parser's
    result on the remaining input; scripts; schedule independence. *)
From Coq Require Import ZArith NArith List Bool Lia.
From RlibV Require Import C08.Model C08.Spec.
From RlibV Require Import C08.ProofsCore C08.ProofsLoops C08.ProofsInt.
Import ListNotations.
Open Scope Z_scope.

(** the character classes of the specification are those of the model *)
Lemma ws_is_ws c : ws c = is_ws c.
Proof.
  unfold ws, is_ws. cbn [existsb].
  destruct (c =? 32), (c =? 9), (c =? 10), (c =? 12), (c =? 13); reflexivity.
Qed.

Lemma sdrop_drop_ws : forall l, sdrop l = drop_ws l.
Proof. induction l as [|c l IH]; cbn [sdrop drop_ws]; [reflexivity|]. rewrite ws_is_ws, IH. reflexivity. Qed.

Lemma sscan_token {A} (f : A -> byte -> option A) : forall l a,
  sscan f a l = let '(tok, rest) := token l in
                match fold_opt f a tok with None => None | Some a' => Some (a', rest) end.
Proof.
  induction l as [|c l IH]; intros a; cbn [sscan token]; [reflexivity|].
  rewrite ws_is_ws. destruct (is_ws c); cbn [negb]; [reflexivity|].
  destruct (token l) as [tok rest] eqn:E. cbn [fold_opt].
  destruct (f a c) as [a'|]; [|reflexivity]. rewrite IH. reflexivity.
Qed.

Lemma drop_ws_length : forall l, (length (drop_ws l) <= length l)%nat.
Proof. intros l. rewrite <- sdrop_drop_ws. apply sdrop_length. Qed.

Lemma token_length : forall l tok rest, token l = (tok, rest) -> (length rest <= length l)%nat.
Proof.
  induction l as [|c l IH]; intros tok rest H; cbn [token] in H.
  - inversion H. cbn. lia.
  - destruct (ws c); [inversion H; lia|]. destruct (token l) as [t r] eqn:E. inversion H; subst.
    specialize (IH _ _ eq_refl). cbn [length]. lia.
Qed.

(** model result vs specification result *)
Definition sim_s {A} (x : res A) (y : sres A) : Prop :=
  match y with
  | SPanic => x = Panic
  | SRet a l' => exists r' src', x = Ret a r' src' /\ represents r' src' l'
  end.

(** ------------------------------------------------------------------ integers *)
Definition spec_digits (t : ity) (neg : bool) (l2 : list byte) : sres Z :=
  let '(tok, rest) := token l2 in
  match tok with
  | [] => SPanic
  | _ :: _ =>
      let v := if neg then - dec_value tok else dec_value tok in
      if forallb digit tok && fits t v then SRet v rest else SPanic
  end.

Lemma int_tail_sim : forall t neg r src l2,
  ity_ok t -> represents r src l2 -> Z.of_nat (length l2) < 2 ^ 130 ->
  sim_s (int_finish (scan (int_acc t neg) (0, false) r src)) (spec_digits t neg l2).
Proof.
  intros t neg r src l2 Hok HR Hlen.
  pose proof (scan_sim (int_acc t neg) (0, false) r src l2 HR Hlen) as Hs.
  rewrite sscan_token in Hs. unfold spec_digits. destruct (token l2) as [tok rest].
  pose proof (lo_hi t Hok) as Hlh.
  rewrite (int_fold t neg Hok tok 0 false) in Hs by (destruct neg; lia).
  assert (Hv : horner neg 0 tok = if neg then - dec_value tok else dec_value tok).
  { destruct neg; [|reflexivity]. rewrite horner_neg. reflexivity. }
  rewrite Hv in Hs. change (forallb is_digit tok) with (forallb digit tok) in Hs.
  change (in_range t) with (fits t) in Hs.
  destruct tok as [|c tok].
  - cbn [forallb andb is_nil negb orb] in Hs.
    destruct (fits t (if neg then - dec_value [] else dec_value [])); cbn [sim] in Hs.
    + destruct Hs as (r' & s' & -> & _). reflexivity.
    + rewrite Hs. reflexivity.
  - destruct (forallb digit (c :: tok) && fits t (if neg then - dec_value (c :: tok) else dec_value (c :: tok)));
      cbn [sim] in Hs.
    + destruct Hs as (r' & s' & -> & HR'). cbn [is_nil negb orb int_finish bind snd fst sim_s]. eauto.
    + rewrite Hs. reflexivity.
Qed.

Lemma spec_int_unfold : forall t l,
  spec_int t l = match drop_ws l with
                 | c :: l' => if sgn t && (c =? 45) then spec_digits t true l' else spec_digits t false (c :: l')
                 | [] => spec_digits t false []
                 end.
Proof.
  intros t l. unfold spec_int, spec_digits. destruct (drop_ws l) as [|c l']; [reflexivity|].
  destruct (sgn t && (c =? 45)); reflexivity.
Qed.

Lemma read_int_sim : forall t r src l,
  ity_ok t -> represents r src l -> Z.of_nat (length l) < 2 ^ 130 ->
  sim_s (read_int t r src) (spec_int t l).
Proof.
  intros t r src l Hok HR Hlen. unfold read_int.
  destruct (skip_ws_sim _ _ _ HR Hlen) as (r1 & s1 & -> & HR1 & He1). cbn [bind].
  rewrite sdrop_drop_ws in *. pose proof (drop_ws_length l) as Hdl.
  rewrite spec_int_unfold. destruct (sgn t) eqn:Esg.
  - destruct (peek r1 s1) as [[oc r2] s2] eqn:Ep.
    destruct (peek_spec _ _ _ _ _ _ HR1 Ep) as (HR2 & _ & _ & Hm).
    destruct (drop_ws l) as [|c l'] eqn:El1.
    + destruct Hm as (He2 & c & ->).
      destruct (c =? 45).
      * destruct HR2 as [Hi2 _]. rewrite (advance_eof _ _ Hi2 He2). reflexivity.
      * apply int_tail_sim; auto. cbn. lia.
    + destruct Hm as (He2 & -> & lv & Hlv). cbn [andb]. destruct (c =? 45).
      * destruct (advance_spec _ _ _ _ _ HR2 Hlv) as (r3 & -> & HR3 & _).
        apply int_tail_sim; auto. cbn [length] in Hdl. lia.
      * apply int_tail_sim; auto. lia.
  - destruct (drop_ws l) as [|c l'] eqn:El1; cbn [andb]; apply int_tail_sim; auto; lia.
Qed.

(** ------------------------------------------------------------------ String, char, is_eof *)
Lemma str_fold : forall tok acc b,
  fold_opt str_acc (acc, b) tok = Some (rev tok ++ acc, b || negb (is_nil tok)).
Proof.
  induction tok as [|c tok IH]; intros acc b; cbn [fold_opt is_nil negb rev app].
  - rewrite orb_false_r. reflexivity.
  - unfold str_acc at 1. cbn [fst]. rewrite IH, <- app_assoc, orb_true_r. destruct tok; reflexivity.
Qed.

Lemma rev'_rev {A} (l : list A) : rev' l = rev l.
Proof. unfold rev'. rewrite rev_append_rev, app_nil_r. reflexivity. Qed.

Lemma read_string_sim : forall r src l,
  represents r src l -> Z.of_nat (length l) < 2 ^ 130 ->
  sim_s (read_string r src) (spec_string l).
Proof.
  intros r src l HR Hlen. unfold read_string, spec_string.
  destruct (skip_ws_sim _ _ _ HR Hlen) as (r1 & s1 & -> & HR1 & _). cbn [bind].
  rewrite sdrop_drop_ws in *. pose proof (drop_ws_length l) as Hdl.
  assert (Hl1 : Z.of_nat (length (drop_ws l)) < 2 ^ 130) by lia.
  pose proof (scan_sim str_acc ([], false) r1 s1 _ HR1 Hl1) as Hs.
  rewrite sscan_token in Hs. destruct (token (drop_ws l)) as [tok rest].
  rewrite str_fold in Hs. cbn [sim] in Hs. destruct Hs as (r2 & s2 & -> & HR2). cbn [bind snd fst].
  destruct tok as [|c tok]; cbn [is_nil negb orb sim_s]; [reflexivity|].
  exists r2, s2. split; [|exact HR2]. rewrite rev'_rev, app_nil_r, rev_involutive. reflexivity.
Qed.

Lemma read_char_sim : forall r src l,
  represents r src l -> Z.of_nat (length l) < 2 ^ 130 ->
  sim_s (read_char r src) (spec_char l).
Proof.
  intros r src l HR Hlen. unfold read_char, spec_char.
  destruct (skip_ws_sim _ _ _ HR Hlen) as (r1 & s1 & -> & HR1 & He1). cbn [bind].
  rewrite sdrop_drop_ws in *. rewrite He1.
  destruct (drop_ws l) as [|c rest]; cbn [is_nil sim_s]; [reflexivity|].
  destruct (peek r1 s1) as [[oc r2] s2] eqn:Ep.
  destruct (peek_spec _ _ _ _ _ _ HR1 Ep) as (HR2 & _ & _ & _ & -> & lv & Hlv).
  destruct (advance_spec _ _ _ _ _ HR2 Hlv) as (r3 & -> & HR3 & _). eauto.
Qed.

Lemma is_eof_sim : forall r src l,
  represents r src l -> Z.of_nat (length l) < 2 ^ 130 ->
  exists r' src', is_eof r src = Ret (fst (spec_is_eof l)) r' src' /\ represents r' src' (snd (spec_is_eof l)).
Proof.
  intros r src l HR Hlen. unfold is_eof, spec_is_eof.
  destruct (skip_ws_sim _ _ _ HR Hlen) as (r1 & s1 & -> & HR1 & He1). cbn [bind fst snd].
  rewrite sdrop_drop_ws in *. rewrite He1. exists r1, s1. split; [|exact HR1].
  destruct (drop_ws l); reflexivity.
Qed.

(** ------------------------------------------------------------------ scalars, sequences, ops *)
Definition sty_ok (t : sty) : Prop := match t with TInt t => ity_ok t | TStr | TChar => True end.
Definition op_ok (o : op) : Prop :=
  match o with
  | OScalar t => sty_ok t
  | OTuple ts => Forall sty_ok ts
  | OVec _ t => sty_ok t
  | OLine | OLines | OIsEof => True
  end.

Lemma sim_s_bind {A B} (x : res A) (y : sres A) (k : A -> B) :
  sim_s x y -> sim_s (bind x (fun v r s => Ret (k v) r s)) (sbind y (fun v r => SRet (k v) r)).
Proof.
  destruct y as [a l'|]; cbn [sim_s sbind].
  - intros (r' & s' & -> & HR). cbn [bind]. eauto.
  - intros ->. reflexivity.
Qed.

Lemma read_scalar_sim : forall t r src l,
  sty_ok t -> represents r src l -> Z.of_nat (length l) < 2 ^ 130 ->
  sim_s (read_scalar t r src) (spec_scalar t l).
Proof.
  intros t r src l Hok HR Hlen. destruct t as [t| |]; cbn [read_scalar spec_scalar];
    apply sim_s_bind; [apply read_int_sim|apply read_string_sim|apply read_char_sim]; auto.
Qed.

Lemma spec_scalar_length : forall t l v rest, spec_scalar t l = SRet v rest -> (length rest <= length l)%nat.
Proof.
  intros t l v rest H. pose proof (drop_ws_length l) as Hd. destruct t as [t| |]; cbn [spec_scalar] in H.
  - unfold spec_int in H.
    destruct (match drop_ws l with
              | c :: l' => if sgn t && (c =? 45) then (true, l') else (false, drop_ws l)
              | [] => (false, drop_ws l) end) as [neg l2] eqn:E.
    assert (Hl2 : (length l2 <= length l)%nat).
    { destruct (drop_ws l) as [|c l'] eqn:Ed; [inversion E; subst; cbn; lia|].
      destruct (sgn t && (c =? 45)); inversion E; subst; cbn [length] in *; lia. }
    destruct (token l2) as [tok rr] eqn:Et. apply token_length in Et.
    destruct tok; [discriminate|]. cbn [sbind] in H.
    destruct (forallb digit (z :: tok) && fits t (if neg then - dec_value (z :: tok) else dec_value (z :: tok)));
      cbn [sbind] in H; [|discriminate]. inversion H; subst. lia.
  - unfold spec_string in H. destruct (token (drop_ws l)) as [tok rr] eqn:Et. apply token_length in Et.
    destruct tok; [discriminate|]. cbn [sbind] in H. inversion H; subst. lia.
  - unfold spec_char in H. destruct (drop_ws l) as [|c rr]; [discriminate|]. cbn [sbind] in H.
    inversion H; subst. cbn [length] in Hd. lia.
Qed.

Lemma read_seq_sim : forall ts r src l,
  Forall sty_ok ts -> represents r src l -> Z.of_nat (length l) < 2 ^ 130 ->
  sim_s (read_seq ts r src) (spec_seq ts l).
Proof.
  induction ts as [|t ts IH]; intros r src l Hok HR Hlen; cbn [read_seq spec_seq].
  - cbn [sim_s]. eauto.
  - inversion Hok as [|? ? Ht Hts]; subst.
    pose proof (read_scalar_sim t r src l Ht HR Hlen) as Hs.
    destruct (spec_scalar t l) as [v rest|] eqn:Esp; cbn [sim_s sbind] in *.
    + destruct Hs as (r1 & s1 & -> & HR1). cbn [bind].
      apply spec_scalar_length in Esp.
      assert (Hl1 : Z.of_nat (length rest) < 2 ^ 130) by lia.
      pose proof (IH r1 s1 rest Hts HR1 Hl1) as Hs2.
      destruct (spec_seq ts rest) as [vs rest2|]; cbn [sim_s sbind] in *.
      * destruct Hs2 as (r2 & s2 & -> & HR2). cbn [bind]. eauto.
      * rewrite Hs2. reflexivity.
    + rewrite Hs. reflexivity.
Qed.

Lemma spec_seq_length : forall ts l vs rest, spec_seq ts l = SRet vs rest -> (length rest <= length l)%nat.
Proof.
  induction ts as [|t ts IH]; intros l vs rest H; cbn [spec_seq] in H.
  - inversion H. lia.
  - destruct (spec_scalar t l) as [v r1|] eqn:E1; cbn [sbind] in H; [|discriminate].
    destruct (spec_seq ts r1) as [vs' r2|] eqn:E2; cbn [sbind] in H; [|discriminate].
    inversion H; subst. apply spec_scalar_length in E1. apply IH in E2. lia.
Qed.

Lemma Forall_repeat {A} (P : A -> Prop) (x : A) n : P x -> Forall P (repeat x n).
Proof. intros H. induction n; cbn [repeat]; constructor; auto. Qed.

(** the simulation step: one operation *)
Lemma run_op_sim : forall o r src l,
  op_ok o -> represents r src l -> Z.of_nat (length l) < 2 ^ 130 ->
  sim_s (run_op o r src) (spec_op o l).
Proof.
  intros o r src l Hok HR Hlen. destruct o as [t|ts|n t| | |]; cbn [run_op spec_op op_ok] in *.
  - apply sim_s_bind. apply read_scalar_sim; auto.
  - apply sim_s_bind. apply read_seq_sim; auto.
  - apply sim_s_bind. apply read_seq_sim; auto. apply Forall_repeat. exact Hok.
  - destruct (read_line_sim _ _ _ HR Hlen) as (r' & s' & -> & HR'). cbn [bind].
    destruct (spec_line l) as [x rest]. cbn [fst snd sim_s] in *. eauto.
  - destruct (read_lines_sim _ _ _ HR Hlen) as (r' & s' & -> & HR'). cbn [bind sim_s]. eauto.
  - destruct (is_eof_sim _ _ _ HR Hlen) as (r' & s' & -> & HR'). cbn [bind].
    destruct (spec_is_eof l) as [b rest]. cbn [fst snd sim_s] in *. eauto.
Qed.

Lemma spec_op_length : forall o l v rest, spec_op o l = SRet v rest -> (length rest <= length l)%nat.
Proof.
  intros o l v rest H. destruct o as [t|ts|n t| | |]; cbn [spec_op] in H.
  - destruct (spec_scalar t l) eqn:E; cbn [sbind] in H; [|discriminate]. inversion H; subst.
    eapply spec_scalar_length; eauto.
  - destruct (spec_seq ts l) eqn:E; cbn [sbind] in H; [|discriminate]. inversion H; subst.
    eapply spec_seq_length; eauto.
  - destruct (spec_seq (repeat t (N.to_nat n)) l) eqn:E; cbn [sbind] in H; [|discriminate]. inversion H; subst.
    eapply spec_seq_length; eauto.
  - unfold spec_line in H. destruct l as [|c l']; [inversion H; cbn; lia|].
    destruct (line_split (c :: l')) as [x r'] eqn:E. inversion H; subst.
    assert (Hne : c :: l' <> []) by discriminate. pose proof (line_split_length _ _ _ Hne E). lia.
  - inversion H. cbn. lia.
  - unfold spec_is_eof in H. inversion H; subst. apply drop_ws_length.
Qed.

(** scripts *)
Lemma run_ops_spec : forall ops r src l,
  Forall op_ok ops -> represents r src l -> Z.of_nat (length l) < 2 ^ 130 ->
  run_ops ops r src = spec_run ops l.
Proof.
  induction ops as [|o ops IH]; intros r src l Hok HR Hlen; cbn [run_ops spec_run]; [reflexivity|].
  inversion Hok as [|? ? Ho Hops]; subst.
  pose proof (run_op_sim o r src l Ho HR Hlen) as Hs.
  destruct (spec_op o l) as [v rest|] eqn:E; cbn [sim_s] in Hs.
  - destruct Hs as (r' & s' & -> & HR'). apply spec_op_length in E.
    rewrite (IH r' s' rest Hops HR'); [reflexivity|lia].
  - rewrite Hs. reflexivity.
Qed.

(** the reader refines the pure parser, for every capacity and every schedule *)
Theorem run_refines_parser : forall BUF src ops,
  (1 <= BUF)%N -> wf_src src -> Forall op_ok ops -> Z.of_nat (length (data_of src)) < 2 ^ 130 ->
  run BUF src ops = spec_run ops (data_of src).
Proof.
  intros BUF src ops HB Hwf Hok Hlen. unfold run.
  apply run_ops_spec; auto. apply new_reader_represents; auto.
Qed.

Theorem schedule_independent : forall BUF1 BUF2 src1 src2 ops,
  (1 <= BUF1)%N -> (1 <= BUF2)%N -> wf_src src1 -> wf_src src2 -> Forall op_ok ops ->
  data_of src1 = data_of src2 -> Z.of_nat (length (data_of src1)) < 2 ^ 130 ->
  run BUF1 src1 ops = run BUF2 src2 ops /\ run BUF1 src1 ops = spec_run ops (data_of src1).
Proof.
  intros BUF1 BUF2 src1 src2 ops H1 H2 Hw1 Hw2 Hok Hd Hlen.
  rewrite (run_refines_parser BUF1 src1 ops), (run_refines_parser BUF2 src2 ops); auto.
  - rewrite Hd. auto.
  - rewrite <- Hd. exact Hlen.
Qed.
