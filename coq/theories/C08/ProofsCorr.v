(** C08 — proofs, part 6: on in-scope cases [model_check] implies [spec_check], so the
    batch lemma about the model carries the specification to the implementation. *)
From Coq Require Import ZArith NArith List Bool Lia.
From RlibV Require Import Common.Batch C08.Model C08.Spec C08.Corr.
From RlibV Require Import C08.ProofsCore C08.ProofsLoops C08.ProofsInt C08.ProofsOps C08.ProofsSpec.
Import ListNotations.
Open Scope Z_scope.

Definition in_scope (c : case) : Prop :=
  (1 <= c_buf c)%N /\ wf_src (c_src c) /\ Forall op_ok (c_ops c)
  /\ Z.of_nat (length (data_of (c_src c))) < 2 ^ 130.

Lemma leqb_prefixb : forall a b, leqb val_eqb a b = true -> prefixb a b = true.
Proof.
  induction a as [|x a IH]; intros b H; [reflexivity|]. destruct b as [|y b]; [discriminate|].
  cbn [leqb prefixb] in *. apply andb_prop in H. destruct H as [H1 H2]. rewrite H1, (IH _ H2). reflexivity.
Qed.

Lemma model_implies_spec : forall c, in_scope c -> model_check c = true -> spec_check c = true.
Proof.
  intros c (HB & Hwf & Hok & Hlen) H. unfold model_check in H. unfold spec_check.
  rewrite (run_refines_parser _ _ _ HB Hwf Hok Hlen) in H. unfold agrees in H.
  destruct (snd (spec_run (c_ops c) (data_of (c_src c)))); [exact H| |discriminate].
  destruct (c_dbg c); [|exact H]. apply andb_prop in H. destruct H as [H _]. apply leqb_prefixb. exact H.
Qed.

Lemma is_eof_full : forall (r : reader) (src : list event) (l : list byte),
  represents r src l -> Z.of_nat (length l) < 2 ^ 130 ->
  (exists r' src', is_eof r src = Ret (fst (spec_is_eof l)) r' src' /\ represents r' src' (snd (spec_is_eof l)))
  /\ (fst (spec_is_eof l) = true <-> Forall (fun c => ws c = true) l)
  /\ snd (spec_is_eof l) = drop_ws l.
Proof. intros r src l HR Hlen. exact (conj (is_eof_sim r src l HR Hlen) (spec_is_eof_props l)). Qed.

Definition read_line_full := conj read_line_sim spec_line_props.
