(** C08 — proofs, part 5: what the pure line splitter and the end-of-input test mean. *)
From Coq Require Import ZArith NArith List Bool Lia.
From RlibV Require Import C08.Model C08.Spec.
Import ListNotations.
Open Scope Z_scope.

Definition no_lf (x : list byte) : Prop := Forall (fun c => c <> 10) x.

Lemma cr_check_false : forall c (l : list byte),
  (forall c2 l', l = c2 :: l' -> c = 13 -> c2 <> 10) ->
  (c =? 13) && match l with c2 :: _ => c2 =? 10 | [] => false end = false.
Proof.
  intros c l H. destruct (Z.eqb_spec c 13) as [E|]; [|reflexivity]. cbn [andb].
  destruct l as [|c2 l']; [reflexivity|]. destruct (Z.eqb_spec c2 10) as [E2|]; [|reflexivity].
  exfalso. exact (H c2 l' eq_refl E E2).
Qed.

Lemma line_split_lf : forall x rest, no_lf x -> last x 0 <> 13 -> line_split (x ++ 10 :: rest) = (x, rest).
Proof.
  induction x as [|c x IH]; intros rest Hx Hlast; [reflexivity|].
  inversion Hx as [|? ? Hc Hx']; subst. cbn [app line_split].
  destruct (Z.eqb_spec c 10) as [|_]; [contradiction|].
  rewrite cr_check_false.
  - rewrite IH; [reflexivity|exact Hx'|]. destruct x; [cbn; lia|exact Hlast].
  - intros c2 l' Hl Hc13. destruct x as [|c3 x'].
    + cbn in Hlast. contradiction.
    + cbn [app] in Hl. inversion Hl; subst. inversion Hx'; assumption.
Qed.

Lemma line_split_crlf : forall x rest, no_lf x -> line_split (x ++ 13 :: 10 :: rest) = (x, rest).
Proof.
  induction x as [|c x IH]; intros rest Hx; [reflexivity|].
  inversion Hx as [|? ? Hc Hx']; subst. cbn [app line_split].
  destruct (Z.eqb_spec c 10) as [|_]; [contradiction|].
  rewrite cr_check_false.
  - rewrite IH; [reflexivity|exact Hx'].
  - intros c2 l' Hl _. destruct x as [|c3 x']; cbn [app] in Hl; inversion Hl; subst; [lia|].
    inversion Hx'; assumption.
Qed.

Lemma line_split_unterminated : forall x, no_lf x -> line_split x = (x, []).
Proof.
  induction x as [|c x IH]; intros Hx; [reflexivity|].
  inversion Hx as [|? ? Hc Hx']; subst. cbn [line_split].
  destruct (Z.eqb_spec c 10) as [|_]; [contradiction|].
  rewrite cr_check_false.
  - rewrite IH; [reflexivity|exact Hx'].
  - intros c2 l' Hl _. subst x. inversion Hx'; assumption.
Qed.

(** read_line on the byte string: strips LF or CR LF, keeps a lone CR, preserves
    empty lines, None only at end of input *)
Lemma spec_line_props :
  (forall l, fst (spec_line l) = None <-> l = []) /\
  (forall x rest, no_lf x -> last x 0 <> 13 -> spec_line (x ++ 10 :: rest) = (Some x, rest)) /\
  (forall x rest, no_lf x -> spec_line (x ++ 13 :: 10 :: rest) = (Some x, rest)) /\
  (forall x, no_lf x -> x <> [] -> spec_line x = (Some x, [])).
Proof.
  split; [|split; [|split]].
  - intros l. unfold spec_line. destruct l as [|c l]; [cbn; tauto|].
    destruct (line_split (c :: l)). cbn [fst]. split; discriminate.
  - intros x rest Hx Hl. unfold spec_line. rewrite line_split_lf by assumption. destruct x; reflexivity.
  - intros x rest Hx. unfold spec_line. rewrite line_split_crlf by assumption. destruct x; reflexivity.
  - intros x Hx Hne. unfold spec_line. rewrite line_split_unterminated by assumption.
    destruct x; [contradiction|reflexivity].
Qed.

Lemma drop_ws_nil_iff : forall l, drop_ws l = [] <-> Forall (fun c => ws c = true) l.
Proof.
  induction l as [|c l IH]; cbn [drop_ws].
  - split; auto.
  - destruct (ws c) eqn:E.
    + rewrite IH. split; [intros H; constructor; assumption|intros H; inversion H; assumption].
    + split; [discriminate|]. intros H. inversion H; subst. congruence.
Qed.

Lemma spec_is_eof_props : forall l,
  (fst (spec_is_eof l) = true <-> Forall (fun c => ws c = true) l) /\ snd (spec_is_eof l) = drop_ws l.
Proof.
  intros l. unfold spec_is_eof. cbn [fst snd]. split; [|reflexivity].
  rewrite <- drop_ws_nil_iff. destruct (drop_ws l); split; auto; discriminate.
Qed.
