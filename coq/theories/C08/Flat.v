(** C08 — the reader state of Model.v (a three-way split of the buffer) against the
    literal Rust state [(buf, begin, end, eof)] with a flat array: [refill], [buf[begin]]
    and [begin += 1] commute with the abstraction [abs].  So the split is only a
    representation that makes [buf[begin]] O(1) under [vm_compute]; nothing is lost,
    stale bytes included. *)
From Coq Require Import ZArith NArith List Bool Lia.
From RlibV Require Import C08.Model.
Import ListNotations.

Record flat := mkFlat { fbuf : list byte; fbegin : nat; fend : nat; feof : bool }.

Definition abs (r : reader) : flat :=
  mkFlat (buf_of r) (length (rpre r)) (length (rpre r) + length (live r)) (eof r).

(** <[T]>::copy_within(b..e, dest) *)
Definition copy_within (buf : list byte) (b e dest : nat) : list byte :=
  firstn dest buf ++ firstn (e - b) (skipn b buf) ++ skipn (dest + (e - b)) buf.
(** a read into [&mut buf[pos..]] that delivers [t] *)
Definition write_at (buf : list byte) (pos : nat) (t : list byte) : list byte :=
  firstn pos buf ++ t ++ skipn (pos + length t) buf.

(** fn refill, literally *)
Definition flat_refill (f : flat) (src : list event) : flat * list event :=
  if feof f then (f, src)
  else
    let f1 := match fbegin f with
              | O => f
              | S _ => mkFlat (copy_within (fbuf f) (fbegin f) (fend f) 0) 0 (fend f - fbegin f) false
              end in
    let '(t, _, src') := src_read (skipn (fend f1) (fbuf f1)) src in
    (mkFlat (write_at (fbuf f1) (fend f1) t) (fbegin f1) (fend f1 + length t)
            (match t with [] => true | _ :: _ => false end), src').

Lemma take_cap_room : forall ch room t cr rr, take_cap ch room = (t, cr, rr) -> rr = skipn (length t) room.
Proof.
  induction ch as [|c ch IH]; intros room t cr rr H; cbn [take_cap] in H.
  - inversion H. reflexivity.
  - destruct room as [|x ro]; [inversion H; reflexivity|].
    destruct (take_cap ch ro) as [[t1 cr1] rr1] eqn:E. inversion H; subst.
    cbn [length skipn]. eapply IH; eauto.
Qed.

Lemma src_read_room : forall src room t room' src',
  src_read room src = (t, room', src') -> room' = skipn (length t) room.
Proof.
  induction src as [|e src IH]; intros room t room' src' H; cbn [src_read] in H.
  - inversion H. reflexivity.
  - destruct e as [ch|]; [|eauto].
    destruct (take_cap ch room) as [[t1 cr] rr] eqn:E. inversion H; subst. eapply take_cap_room; eauto.
Qed.

Lemma drop_len_skipn {A B} : forall (k : list A) (l : list B), drop_len k l = skipn (length k) l.
Proof.
  induction k as [|a k IH]; intros l; [destruct l; reflexivity|].
  destruct l as [|b l]; [reflexivity|]. cbn [drop_len length skipn]. apply IH.
Qed.

Lemma buf_of_eq r : buf_of r = rev (rpre r) ++ live r ++ post r.
Proof. unfold buf_of. apply rev_append_rev. Qed.

Lemma skipn_app_exact {A} (a b : list A) : skipn (length a) (a ++ b) = b.
Proof. induction a; cbn [length skipn app]; auto. Qed.
Lemma firstn_app_exact {A} (a b : list A) : firstn (length a) (a ++ b) = a.
Proof. induction a; cbn [length firstn app]; [reflexivity|]. f_equal. assumption. Qed.

Lemma skipn_app_plus {A} (a b : list A) n : skipn (length a + n) (a ++ b) = skipn n b.
Proof. induction a; cbn [length skipn app Nat.add]; auto. Qed.

(** the read step on a compacted state *)
Lemma read_step : forall lv po src,
  let '(t, room, src') := src_read po src in
  flat_refill (mkFlat (lv ++ po) 0 (length lv) false) src =
    (abs (mkReader [] (lv ++ t) room (match t with [] => true | _ :: _ => false end)), src').
Proof.
  intros lv po src. destruct (src_read po src) as [[t room] src'] eqn:E.
  unfold flat_refill. cbn [feof fbegin fend fbuf]. rewrite skipn_app_exact, E.
  unfold abs. cbn [rpre live post eof length]. rewrite app_length. f_equal. f_equal.
  unfold write_at, buf_of. cbn [rev_append rpre live post].
  rewrite firstn_app_exact, <- app_assoc. f_equal. f_equal.
  rewrite (src_read_room _ _ _ _ _ E).
  apply skipn_app_plus.
Qed.

Theorem refill_abs : forall r src,
  flat_refill (abs r) src = (abs (fst (refill r src)), snd (refill r src)).
Proof.
  intros r src. unfold refill. destruct (eof r) eqn:Ee.
  - unfold flat_refill, abs at 1. cbn [feof]. rewrite Ee. reflexivity.
  - destruct (rpre r) as [|x p] eqn:Ep.
    + pose proof (read_step (live r) (post r) src) as H.
      destruct (src_read (post r) src) as [[t room] src'] eqn:E. cbn [fst snd].
      rewrite Ep. rewrite <- H. unfold abs. rewrite Ep, Ee. cbn [length Nat.add].
      unfold buf_of. rewrite Ep. reflexivity.
    + cbn [rpre live post].
      pose proof (read_step (live r) (drop_len (live r) (buf_of r)) src) as H.
      destruct (src_read (drop_len (live r) (buf_of r)) src) as [[t room] src'] eqn:E. cbn [fst snd].
      rewrite <- H. unfold flat_refill at 1. unfold abs. cbn [feof fbegin fend fbuf]. rewrite Ee, Ep.
      cbn [length]. 
      assert (Hc : copy_within (buf_of r) (S (length p)) (S (length p) + length (live r)) 0
                   = live r ++ drop_len (live r) (buf_of r)).
      { unfold copy_within. cbn [firstn app Nat.add].
        replace (S (length p + length (live r)) - S (length p))%nat with (length (live r)) by lia.
        rewrite drop_len_skipn. f_equal. rewrite buf_of_eq, Ep.
        replace (S (length p)) with (length (rev (x :: p))) by (rewrite rev_length; reflexivity).
        rewrite skipn_app_exact. apply firstn_app_exact. }
      rewrite Hc.
      replace (S (length p) + length (live r) - S (length p))%nat with (length (live r)) by lia.
      unfold flat_refill. cbn [feof fbegin fend fbuf]. reflexivity.
Qed.

(** buf[begin] *)
Theorem at_begin_abs : forall r, at_begin r = nth_error (fbuf (abs r)) (fbegin (abs r)).
Proof.
  intros r. unfold abs. cbn [fbuf fbegin]. rewrite buf_of_eq.
  rewrite nth_error_app2 by (rewrite rev_length; lia). rewrite rev_length, Nat.sub_diag.
  unfold at_begin. destruct (live r); [destruct (post r); reflexivity|reflexivity].
Qed.

(** begin += 1 *)
Theorem advance_abs : forall r r', advance r = Some r' ->
  abs r' = mkFlat (fbuf (abs r)) (S (fbegin (abs r))) (fend (abs r)) (feof (abs r)).
Proof.
  intros r r' H. unfold advance in H. destruct (live r) as [|c l] eqn:El; [discriminate|].
  inversion H; subst r'. unfold abs, buf_of. cbn [rpre live post eof length rev_append fbuf fbegin fend feof].
  rewrite El. cbn [app length]. f_equal. lia.
Qed.

(** Reader::new *)
Theorem new_reader_abs : forall BUF, abs (new_reader BUF) = mkFlat (zeros BUF) 0 0 false.
Proof.
  intros BUF. unfold abs, new_reader, buf_of. cbn [rpre live post eof length rev_append app Nat.add].
  f_equal. unfold initial_buf. destruct (N.eqb_spec BUF 65536) as [->|]; reflexivity.
Qed.
