(** C08 — non-vacuity: concrete instances of every hypothesis used in Properties.v, and
    the model run on literals (including the two repaired defects' witnesses). *)
From Coq Require Import ZArith NArith List Bool Lia.
Import ListNotations.
From RlibV Require Import C08.Model C08.Spec C08.Corr.
From RlibV Require Import C08.ProofsCore C08.ProofsLoops C08.ProofsInt C08.ProofsOps C08.ProofsSpec C08.ProofsCorr
  C08.Properties.
Open Scope Z_scope.

(** the 12 integer types of the reader (isize/usize: 64 bits) *)
Definition i8 := mkIty 8 true.    Definition u8 := mkIty 8 false.
Definition i16 := mkIty 16 true.  Definition u16 := mkIty 16 false.
Definition i32 := mkIty 32 true.  Definition u32 := mkIty 32 false.
Definition i64 := mkIty 64 true.  Definition u64 := mkIty 64 false.
Definition i128 := mkIty 128 true. Definition u128 := mkIty 128 false.
Definition all_ity := [i8; i16; i32; i64; i128; u8; u16; u32; u64; u128].

Example ity_ok_all : Forall ity_ok all_ity.
Proof. repeat first [apply Forall_nil | apply Forall_cons]; unfold ity_ok; cbn; lia. Qed.

(** "\nabc\r" delivered at once, and one byte at a time with Interrupted in between *)
Definition stale_input : list byte := [10; 97; 98; 99; 13].
Definition sched_once : list event := [Data stale_input].
Definition sched_bytes : list event := [Intr; Data [10]; Data [97]; Intr; Intr; Data [98]; Data [99]; Data [13]; Intr].

Example wf_once : wf_src sched_once.
Proof. repeat constructor; discriminate. Qed.
Example wf_bytes : wf_src sched_bytes.
Proof. repeat constructor; discriminate. Qed.
Example same_data : data_of sched_once = data_of sched_bytes.
Proof. reflexivity. Qed.
Ltac lists := repeat first [apply Forall_nil | apply Forall_cons].
Example ops_ok : Forall op_ok [OLines; OIsEof; OScalar (TInt i8); OTuple [TInt u64; TStr; TChar]; OVec 3 (TInt i128); OLine].
Proof. lists; cbn [op_ok sty_ok]; lists; cbn [sty_ok]; try exact I; unfold ity_ok; cbn; lia. Qed.
Example short_enough : Z.of_nat (length (data_of sched_once)) < 2 ^ 130.
Proof. cbn. lia. Qed.

(** the hypotheses of c08_schedule_independent hold together; its conclusion, computed *)
Example independent_instance :
  run 65536 sched_once [OLines; OIsEof] = run 3 sched_bytes [OLines; OIsEof]
  /\ run 65536 sched_once [OLines; OIsEof] = spec_run [OLines; OIsEof] stale_input.
Proof.
  apply (c08_schedule_independent 65536 3 sched_once sched_bytes [OLines; OIsEof]).
  - lia.
  - lia.
  - exact wf_once.
  - exact wf_bytes.
  - repeat constructor.
  - exact same_data.
  - exact short_enough.
Qed.
Example stale_witness_now : run 65536 sched_once [OLines] = ([VLines [[]; [97; 98; 99; 13]]], Finished).
Proof. vm_compute. reflexivity. Qed.
Example stale_witness_bytes : run 1 sched_bytes [OLines] = ([VLines [[]; [97; 98; 99; 13]]], Finished).
Proof. vm_compute. reflexivity. Qed.

(** c08_parse_no_overflow at the minimum of i8: "-128" *)
Example i8_min_hyps : ity_ok i8 /\ [49; 50; 56] <> [] /\ forallb digit [49; 50; 56] = true
                      /\ fits i8 (- dec_value [49; 50; 56]) = true.
Proof. repeat split; try discriminate; unfold ity_ok; cbn; lia. Qed.
Example i8_min_loop : fold_opt (int_acc i8 true) (0, false) [49; 50; 56] = Some (-128, true).
Proof. vm_compute. reflexivity. Qed.
Example i8_min_run : run 2 [Data [32; 45]; Intr; Data [49; 50; 56; 10]] [OScalar (TInt i8); OIsEof]
                     = ([VScalar (SInt (-128)); VEof true], Finished).
Proof. vm_compute. reflexivity. Qed.
Example i8_below_min_panics : run 2 [Data [45; 49; 50; 57]] [OScalar (TInt i8)] = ([], Panicked).
Proof. vm_compute. reflexivity. Qed.

(** extremes of every width, one byte per read, capacity 1 *)
Definition bytewise (l : list byte) : list event := map (fun c => Data [c]) l.
Definition dec_digits (v : Z) : list byte :=   (* decimal rendering, for this example only *)
  let fix go (fuel : nat) (v : Z) (acc : list byte) :=
    match fuel with
    | O => acc
    | S f => if v <? 10 then (48 + v) :: acc else go f (v / 10) ((48 + v mod 10) :: acc)
    end in
  if v <? 0 then 45 :: go 50%nat (- v) [] else go 50%nat v [].
Example extremes_all_widths :
  forallb (fun t =>
    match run 1 (bytewise (dec_digits (lo t) ++ [32] ++ dec_digits (hi t))) [OTuple [TInt t; TInt t]] with
    | ([VTuple [SInt a; SInt b]], Finished) => (a =? lo t) && (b =? hi t)
    | _ => false
    end) all_ity = true.
Proof. vm_compute. reflexivity. Qed.

(** a represented state other than the initial one, and the simulation step on it *)
Example represents_instance : represents (new_reader 4) sched_bytes stale_input.
Proof. apply (c08_initial 4 sched_bytes); [lia|exact wf_bytes]. Qed.

(** the line splitter's hypotheses: a line without LF not ending in CR; one ending in CR *)
Example no_lf_abc : no_lf [97; 98; 99] /\ last [97; 98; 99] 0 <> 13.
Proof. split; [repeat constructor; lia|cbn; lia]. Qed.
Example lone_cr_kept : spec_line [97; 13; 98; 13] = (Some [97; 13; 98; 13], []).
Proof. reflexivity. Qed.
Example crlf_stripped : spec_line [97; 13; 10; 98] = (Some [97], [98]).
Proof. reflexivity. Qed.
Example empty_lines_kept : spec_lines [10; 13; 10; 97; 10; 10] = [[]; []; [97]; []].
Proof. reflexivity. Qed.

(** an in-scope correspondence case *)
Definition sample_case : case :=
  mkCase 65536 sched_bytes [OLines; OIsEof] [VLines [[]; [97; 98; 99; 13]]; VEof true] false true.
Example sample_in_scope : in_scope sample_case.
Proof.
  split; [cbn; lia|]. split; [exact wf_bytes|]. split; [repeat constructor|cbn; lia].
Qed.
Example sample_checks : model_check sample_case = true /\ spec_check sample_case = true.
Proof. split; vm_compute; reflexivity. Qed.
