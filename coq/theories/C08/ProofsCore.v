(** C08 — proofs, part 1: the source oracle, refill/fill/peek/advance against the
    representation relation [represents r src l]: "the reader [r] together with the
    undelivered source [src] stands for the remaining input [l]". *)
From Coq Require Import ZArith NArith List Bool Lia.
From RlibV Require Import C08.Model C08.Spec.
Import ListNotations.
Open Scope Z_scope.

(** a schedule never hands over an empty chunk in the middle (Ok(0) means end of input) *)
Definition wf_src (src : list event) : Prop := Forall (fun e => e <> Data []) src.

(** size of the buffer array *)
Definition total (r : reader) : nat := (length (rpre r) + length (live r) + length (post r))%nat.

Record inv (r : reader) (src : list event) : Prop := mkInv {
  inv_cap : total r <> 0%nat;
  inv_wf : wf_src src;
  inv_eof : eof r = true -> live r = [] /\ rpre r = [] /\ src = []
}.

(** the simulation invariant: live part of buf ++ remaining source bytes = remaining spec input *)
Definition represents (r : reader) (src : list event) (l : list byte) : Prop :=
  inv r src /\ live r ++ data_of src = l.

Lemma take_cap_spec : forall ch room t cr rr,
  take_cap ch room = (t, cr, rr) ->
  ch = t ++ cr /\ (length t + length rr = length room)%nat /\ (t = [] -> ch = [] \/ room = []).
Proof.
  induction ch as [|c ch IH]; intros room t cr rr H; cbn [take_cap] in H.
  - inversion H; subst. repeat split; auto.
  - destruct room as [|x ro].
    + inversion H; subst. repeat split; auto.
    + destruct (take_cap ch ro) as [[t1 cr1] rr1] eqn:E. inversion H; subst.
      destruct (IH _ _ _ _ E) as (H1 & H2 & _). subst ch. repeat split; cbn [length app]; try lia; auto.
      discriminate.
Qed.

Lemma src_read_spec : forall src room t room' src',
  wf_src src -> room <> [] -> src_read room src = (t, room', src') ->
  wf_src src' /\ data_of src = t ++ data_of src' /\ (length t + length room' = length room)%nat
  /\ (t = [] -> src' = []).
Proof.
  induction src as [|e src IH]; intros room t room' src' Hwf Hroom H; cbn [src_read] in H.
  - inversion H; subst. repeat split; auto.
  - inversion Hwf as [|? ? He Hwf']; subst. destruct e as [ch|].
    + destruct (take_cap ch room) as [[t1 cr] rr] eqn:E. inversion H; subst.
      destruct (take_cap_spec _ _ _ _ _ E) as (H1 & H2 & H3). subst ch.
      split; [|split; [|split]].
      * destruct cr; [assumption|]. constructor; [discriminate|assumption].
      * cbn [data_of]. destruct cr; cbn [data_of]; rewrite <- ?app_assoc; reflexivity.
      * exact H2.
      * intros ->. destruct (H3 eq_refl) as [H4|H4]; [|contradiction].
        cbn [app] in H4. subst cr. exfalso. apply He. reflexivity.
    + cbn [data_of]. eapply IH; eauto.
Qed.

Lemma drop_len_nil {B} (l : list B) : @drop_len byte B [] l = l.
Proof. destruct l; reflexivity. Qed.

Lemma rev_append_length {A} (l a : list A) : length (rev_append l a) = (length l + length a)%nat.
Proof. rewrite rev_append_rev, app_length, rev_length. reflexivity. Qed.

(** what [fill] guarantees *)
Lemma fill_spec : forall r src l r' src',
  represents r src l -> fill r src = (r', src') ->
  represents r' src' l /\ total r' = total r /\
  match l with
  | [] => eof r' = true
  | c :: _ => eof r' = false /\ exists lv, live r' = c :: lv
  end.
Proof.
  intros r src l r' src' [Hinv Hl] H. unfold fill in H.
  destruct (live r) as [|c lv] eqn:Elive.
  - unfold refill in H. destruct (eof r) eqn:Eeof.
    + inversion H; subst r' src'. destruct (inv_eof _ _ Hinv Eeof) as (_ & _ & Hs). subst src.
      rewrite ?Elive in Hl. cbn in Hl. subst l.
      split; [split; [assumption|rewrite Elive; reflexivity]|split; [reflexivity|assumption]].
    + (* a real read *)
      set (r1 := match rpre r with [] => r
                 | _ :: _ => mkReader [] (live r) (drop_len (live r) (buf_of r)) false end) in H.
      assert (H1 : rpre r1 = [] /\ live r1 = [] /\ length (post r1) = total r).
      { subst r1. destruct (rpre r) as [|x p] eqn:Ep.
        - rewrite Elive. repeat split; auto. unfold total. rewrite Ep, Elive. reflexivity.
        - cbn [rpre live post]. rewrite Elive. repeat split; auto.
          rewrite drop_len_nil. unfold buf_of, total. rewrite rev_append_length, Ep, Elive, app_length.
          cbn [length]. lia. }
      destruct H1 as (Hp1 & Hl1 & Hc1).
      destruct (src_read (post r1) src) as [[t room] s'] eqn:E.
      inversion H; subst r' src'. clear H.
      assert (Hroom : post r1 <> []).
      { intro Hx. rewrite Hx in Hc1. cbn in Hc1. apply (inv_cap _ _ Hinv). auto. }
      destruct (src_read_spec _ _ _ _ _ (inv_wf _ _ Hinv) Hroom E) as (Hw & Hd & Hlen & Hnil).
      rewrite Hp1, Hl1. cbn [app].
      assert (Htot : total (mkReader [] t room (match t with [] => true | _ :: _ => false end)) = total r).
      { unfold total at 1. cbn [rpre live post length]. lia. }
      split; [split|split; [exact Htot|]].
      * constructor.
        -- rewrite Htot. apply (inv_cap _ _ Hinv).
        -- exact Hw.
        -- cbn [eof live rpre]. destruct t; [|discriminate]. intros _. repeat split; auto.
      * cbn [live]. rewrite <- Hl, ?Elive, Hd. reflexivity.
      * rewrite <- Hl, ?Elive, Hd. cbn [app eof live].
        destruct t as [|c t]; cbn [app].
        -- rewrite (Hnil eq_refl). reflexivity.
        -- split; [reflexivity|]. exists t. reflexivity.
  - inversion H; subst r' src'. split; [split; [assumption|rewrite Elive; assumption]|split; [reflexivity|]].
    rewrite <- Hl, ?Elive. cbn [app]. split; [|exists lv; reflexivity].
    destruct (eof r) eqn:Eeof; [|reflexivity].
    destruct (inv_eof _ _ Hinv Eeof) as (Hx & _). rewrite Hx in Elive. discriminate.
Qed.

(** once [fill] has run, running it again changes nothing *)
Lemma fill_idem : forall r src l r' src',
  represents r src l -> fill r src = (r', src') -> fill r' src' = (r', src').
Proof.
  intros r src l r' src' HR H. destruct (fill_spec _ _ _ _ _ HR H) as (_ & _ & Hm).
  unfold fill. destruct l.
  - destruct (live r'); [|reflexivity]. unfold refill. rewrite Hm. reflexivity.
  - destruct Hm as (_ & lv & ->). reflexivity.
Qed.

(** at end of input [buf[begin]] is a stale byte, but it exists *)
Lemma at_begin_eof : forall r src, inv r src -> eof r = true -> exists c, at_begin r = Some c.
Proof.
  intros r src Hinv He. destruct (inv_eof _ _ Hinv He) as (Hl & Hp & _).
  unfold at_begin. rewrite Hl. destruct (post r) as [|c po] eqn:Epo; [|exists c; reflexivity].
  exfalso. apply (inv_cap _ _ Hinv). unfold total. rewrite Hl, Hp, Epo. reflexivity.
Qed.

Lemma peek_spec : forall r src l oc r' src',
  represents r src l -> peek r src = (oc, r', src') ->
  represents r' src' l /\ total r' = total r /\ fill r' src' = (r', src') /\
  match l with
  | [] => eof r' = true /\ exists c, oc = Some c
  | c :: _ => eof r' = false /\ oc = Some c /\ exists lv, live r' = c :: lv
  end.
Proof.
  intros r src l oc r' src' HR H. unfold peek in H.
  destruct (fill r src) as [r1 s1] eqn:E. inversion H; subst oc r' src'. clear H.
  destruct (fill_spec _ _ _ _ _ HR E) as (HR' & Ht & Hm).
  split; [exact HR'|split; [exact Ht|split; [exact (fill_idem _ _ _ _ _ HR E)|]]].
  destruct l.
  - split; [exact Hm|]. destruct HR' as [Hi _]. eapply at_begin_eof; eauto.
  - destruct Hm as (He & lv & Hlv). split; [exact He|]. split; [|exists lv; exact Hlv].
    unfold at_begin. rewrite Hlv. reflexivity.
Qed.

Lemma advance_spec : forall r src c l lv,
  represents r src (c :: l) -> live r = c :: lv ->
  exists r', advance r = Some r' /\ represents r' src l /\ total r' = total r.
Proof.
  intros r src c l lv [Hinv Hl] Hlv. unfold advance. rewrite Hlv.
  eexists. split; [reflexivity|]. rewrite Hlv in Hl. cbn [app] in Hl. inversion Hl as [Hl'].
  assert (He : eof r = false).
  { destruct (eof r) eqn:E; [|reflexivity]. destruct (inv_eof _ _ Hinv E) as (Hx & _).
    rewrite Hx in Hlv. discriminate. }
  split; [split|].
  - constructor.
    + unfold total. cbn [rpre live post length]. pose proof (inv_cap _ _ Hinv) as Hc. unfold total in Hc.
      rewrite Hlv in Hc. cbn [length] in Hc. lia.
    + apply (inv_wf _ _ Hinv).
    + cbn [eof]. rewrite He. discriminate.
  - cbn [live]. reflexivity.
  - unfold total. cbn [rpre live post length]. rewrite Hlv. cbn [length]. lia.
Qed.

Lemma advance_eof : forall r src, inv r src -> eof r = true -> advance r = None.
Proof.
  intros r src Hinv He. destruct (inv_eof _ _ Hinv He) as (Hl & _). unfold advance. rewrite Hl. reflexivity.
Qed.

(** the initial state *)
Lemma zeros_length n : length (zeros n) = N.to_nat n.
Proof.
  unfold zeros. rewrite N2Nat.inj_iter. induction (N.to_nat n) as [|k IH]; [reflexivity|].
  simpl. f_equal. exact IH.
Qed.
Lemma initial_buf_zeros BUF : initial_buf BUF = zeros BUF.
Proof.
  unfold initial_buf. destruct (N.eqb_spec BUF 65536) as [->|]; reflexivity.
Qed.
Lemma new_reader_represents : forall BUF src, (1 <= BUF)%N -> wf_src src ->
  represents (new_reader BUF) src (data_of src).
Proof.
  intros BUF src HB Hwf. split; [|reflexivity]. constructor.
  - unfold total, new_reader. cbn [rpre live post length]. rewrite initial_buf_zeros, zeros_length. lia.
  - exact Hwf.
  - cbn. discriminate.
Qed.
