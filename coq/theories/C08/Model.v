(** C08 — executable model of rlib/io/src/reader.rs (debug profile: overflow
    checks and [debug_assert!] are panics).

    Reader state.  The Rust struct is [(buf : [u8; BUF], begin, end, eof)].
    The model stores the same information as a three-way split of the buffer
    (a zipper), so that [buf[begin]] and [begin += 1] cost O(1) under
    [vm_compute] even for BUF = 65536:

        buf   = rev rpre ++ live ++ post        (always BUF bytes)
        begin = length rpre
        end   = length rpre + length live

    [post] is the free room [buf[end..]] handed to [Read::read]; it keeps its
    stale contents (zeros at first, later whatever earlier refills left there),
    because [peek] at end of input returns [buf[begin]] with [begin = end], i.e.
    the head of [post].  BUF itself only occurs in [new_reader]: it is a
    parameter of the model, every theorem is for all BUF >= 1.

    Source = list of events.  One [Read::read] call consumes the head event:
    [Intr] is [Err(ErrorKind::Interrupted)], [Data c] hands over as many bytes of
    [c] as fit into the room and leaves the rest of the chunk for the next call;
    the empty list is end of input ([Ok(0)] for ever).

    A panic is [Panic]; running out of loop fuel is [Fuel] (never a value).
    Definitions only; proofs are in Proofs*.v. *)
From Coq Require Import ZArith NArith List Bool.
From RlibV Require Import Common.Iter.
Import ListNotations.
Open Scope Z_scope.

Notation byte := Z (only parsing).
Inductive event := Data (l : list byte) | Intr.
Record reader := mkReader { rpre : list byte; live : list byte; post : list byte; eof : bool }.

Definition zeros (n : N) : list byte := N.iter n (cons 0) [].
(** Reader::new: buf = [0; BUF], begin = end = 0, eof = false *)
Definition zeros_64k : list byte := zeros 65536.
(** [initial_buf BUF = zeros BUF] (lemma [initial_buf_zeros]); the named constant for the
    capacity of the current code is evaluated once per [vm_compute] batch instead of once
    per case (2.7 ms per case otherwise). *)
Definition initial_buf (BUF : N) : list byte := if (BUF =? 65536)%N then zeros_64k else zeros BUF.
Definition new_reader (BUF : N) : reader := mkReader [] [] (initial_buf BUF) false.

(** the flat view used in comments, replay files and Examples.v *)
Definition buf_of (r : reader) : list byte := rev_append (rpre r) (live r ++ post r).
Definition begin_of (r : reader) : N := N.of_nat (length (rpre r)).
Definition end_of (r : reader) : N := N.of_nat (length (rpre r) + length (live r)).

(** ------------------------------------------------------------------ source *)
(** [take_cap chunk room] = (bytes handed over, rest of the chunk, rest of the room):
    min(len chunk, len room) bytes *)
Fixpoint take_cap (chunk room : list byte) : list byte * list byte * list byte :=
  match chunk, room with
  | c :: ch, _ :: ro => let '(t, cr, rr) := take_cap ch ro in (c :: t, cr, rr)
  | _, _ => ([], chunk, room)
  end.

(** the retry loop of [refill]:
      loop { match stdin.read(&mut buf[end..]) { Err(Interrupted) => continue, r => break r.unwrap() } }
    returns (bytes written at buf[end..], untouched rest of the room, remaining source) *)
Fixpoint src_read (room : list byte) (src : list event) : list byte * list byte * list event :=
  match src with
  | [] => ([], room, [])
  | Intr :: s => src_read room s
  | Data ch :: s =>
      let '(t, cr, rr) := take_cap ch room in
      (t, rr, match cr with [] => s | _ :: _ => Data cr :: s end)
  end.

(** drop as many elements from [l] as [k] has *)
Fixpoint drop_len {A B} (k : list A) (l : list B) : list B :=
  match k, l with
  | _ :: k', _ :: l' => drop_len k' l'
  | _, _ => l
  end.

(** fn refill *)
Definition refill (r : reader) (src : list event) : reader * list event :=
  if eof r then (r, src)
  else
    (* if begin != 0 { buf.copy_within(begin..end, 0); end -= begin; begin = 0 } *)
    let r1 := match rpre r with
              | [] => r
              | _ :: _ => mkReader [] (live r) (drop_len (live r) (buf_of r)) false
              end in
    let '(t, room, src') := src_read (post r1) src in
    (* if bytes == 0 { eof = true }  end += bytes *)
    (mkReader (rpre r1) (live r1 ++ t) room (match t with [] => true | _ :: _ => false end), src').

(** if begin == end { refill() } *)
Definition fill (r : reader) (src : list event) : reader * list event :=
  match live r with [] => refill r src | _ :: _ => (r, src) end.

(** buf[begin]; [None] = index out of bounds (begin = end = BUF) *)
Definition at_begin (r : reader) : option byte :=
  match live r with c :: _ => Some c | [] => hd_error (post r) end.

(** fn peek *)
Definition peek (r : reader) (src : list event) : option byte * reader * list event :=
  let '(r1, src1) := fill r src in (at_begin r1, r1, src1).

(** begin += 1.  [None] when begin = end already: the state begin > end is not
    representable here.  In the debug profile it arises at one place only (a
    signed read at end of input whose stale [buf[begin]] is '-'), and there the
    Rust code panics right afterwards ([debug_assert!(read_something)]); the
    model panics at the [None]. *)
Definition advance (r : reader) : option reader :=
  match live r with
  | c :: l => Some (mkReader (c :: rpre r) l (post r) (eof r))
  | [] => None
  end.

(** ------------------------------------------------------------------ results *)
Inductive res (A : Type) := Ret (a : A) (r : reader) (s : list event) | Panic | Fuel.
Arguments Ret {A} a r s. Arguments Panic {A}. Arguments Fuel {A}.

Definition run_loop {S A} (step : S -> S + res A) (s : S) : res A :=
  match iter_pos step big_fuel s with inr x => x | inl _ => Fuel end.

(** u8::is_ascii_whitespace: U+0020 SPACE, U+0009 TAB, U+000A LF, U+000C FF, U+000D CR *)
Definition is_ws (c : byte) : bool := (c =? 32) || (c =? 9) || (c =? 10) || (c =? 12) || (c =? 13).
Definition is_digit (c : byte) : bool := (48 <=? c) && (c <=? 57).

(** fn skip_whitespace:
      while { if begin == end { refill() }  !eof && peek().is_ascii_whitespace() }
            { begin += 1; if begin == end { refill() } } *)
Definition skip_ws_step (s : reader * list event) : (reader * list event) + res unit :=
  let '(r, src) := s in
  let '(r1, src1) := fill r src in
  if eof r1 then inr (Ret tt r1 src1)
  else
    let '(oc, r2, src2) := peek r1 src1 in
    match oc with
    | None => inr Panic
    | Some c =>
        if is_ws c then
          match advance r2 with
          | None => inr Panic
          | Some r3 => inl (fill r3 src2)
          end
        else inr (Ret tt r2 src2)
    end.
Definition skip_ws (r : reader) (src : list event) : res unit := run_loop skip_ws_step (r, src).

(** the token loops of String / read_signed / read_unsigned:
      while { if begin == end { refill() }  !eof && !peek().is_ascii_whitespace() }
            { acc = f(acc, buf[begin])  (may panic);  begin += 1 } *)
Definition scan_step {A} (f : A -> byte -> option A) (s : reader * list event * A)
  : (reader * list event * A) + res A :=
  let '(r, src, a) := s in
  let '(r1, src1) := fill r src in
  if eof r1 then inr (Ret a r1 src1)
  else
    let '(oc, r2, src2) := peek r1 src1 in
    match oc with
    | None => inr Panic
    | Some c =>
        if negb (is_ws c) then
          match f a c with
          | None => inr Panic
          | Some a' =>
              match advance r2 with
              | None => inr Panic
              | Some r3 => inl (r3, src2, a')
              end
          end
        else inr (Ret a r2 src2)
    end.
Definition scan {A} (f : A -> byte -> option A) (a : A) (r : reader) (src : list event) : res A :=
  run_loop (scan_step f) (r, src, a).

(** ------------------------------------------------------------------ integers *)
(** an integer type: width in bits and signedness (isize/usize are 64 bits wide) *)
Record ity := mkIty { bits : Z; sgn : bool }.
Definition lo (t : ity) : Z := if sgn t then - 2 ^ (bits t - 1) else 0.
Definition hi (t : ity) : Z := if sgn t then 2 ^ (bits t - 1) - 1 else 2 ^ bits t - 1.
Definition in_range (t : ity) (v : Z) : bool := (lo t <=? v) && (v <=? hi t).
(** checked arithmetic of the debug profile: [None] = "attempt to ... with overflow" *)
Definition chk (t : ity) (v : Z) : option Z := if in_range t v then Some v else None.

(** debug_assert!(buf[begin].is_ascii_digit()); result = result * 10 +/- (buf[begin] - b'0') as $t;
    read_something = true *)
Definition int_acc (t : ity) (neg : bool) (a : Z * bool) (c : byte) : option (Z * bool) :=
  if is_digit c then
    match chk t (fst a * 10) with
    | None => None
    | Some m =>
        match chk t (if neg then m - (c - 48) else m + (c - 48)) with
        | None => None
        | Some v => Some (v, true)
        end
    end
  else None.

Definition bind {A B} (x : res A) (k : A -> reader -> list event -> res B) : res B :=
  match x with Ret a r s => k a r s | Panic => Panic | Fuel => Fuel end.

(** debug_assert!(read_something); result *)
Definition int_finish (x : res (Z * bool)) : res Z :=
  bind x (fun a r s => if snd a then Ret (fst a) r s else Panic).

Definition read_int (t : ity) (r : reader) (src : list event) : res Z :=
  bind (skip_ws r src) (fun _ r1 src1 =>
    if sgn t then
      let '(oc, r2, src2) := peek r1 src1 in
      match oc with
      | None => Panic
      | Some c =>
          if c =? 45 then
            match advance r2 with
            | None => Panic   (* stale '-' at end of input, see [advance] *)
            | Some r3 => int_finish (scan (int_acc t true) (0, false) r3 src2)
            end
          else int_finish (scan (int_acc t false) (0, false) r2 src2)
      end
    else int_finish (scan (int_acc t false) (0, false) r1 src1)).

(** ------------------------------------------------------------------ String, char *)
(** result.push(peek() as char); read_something = true.  The accumulator is the
    reversed string. *)
Definition str_acc (a : list byte * bool) (c : byte) : option (list byte * bool) := Some (c :: fst a, true).

Definition read_string (r : reader) (src : list event) : res (list byte) :=
  bind (skip_ws r src) (fun _ r1 src1 =>
    bind (scan str_acc ([], false) r1 src1) (fun a r2 src2 =>
      if snd a then Ret (rev' (fst a)) r2 src2 else Panic)).

Definition read_char (r : reader) (src : list event) : res byte :=
  bind (skip_ws r src) (fun _ r1 src1 =>
    if eof r1 then Panic   (* debug_assert!(!reader.eof) *)
    else
      let '(oc, r2, src2) := peek r1 src1 in
      match oc, advance r2 with
      | Some c, Some r3 => Ret c r3 src2
      | _, _ => Panic
      end).

(** ------------------------------------------------------------------ lines *)
(** one iteration of the loop in read_line:
      while { if begin == end { refill() }  !eof } {
        let c = peek() as char; result.push(c); begin += 1; read_something = true;
        if c == '\r' && peek() == b'\n' && !eof { result.pop(); begin += 1; break }
        else if c == '\n' { result.pop(); break } }
      if read_something { Some(result) } else { None }
    state = (reader, source, reversed result, read_something) *)
Definition line_step (s : reader * list event * list byte * bool)
  : (reader * list event * list byte * bool) + res (option (list byte)) :=
  let '(r, src, acc, rs) := s in
  let '(r1, src1) := fill r src in
  if eof r1 then inr (Ret (if rs then Some (rev' acc) else None) r1 src1)
  else
    let '(oc, r2, src2) := peek r1 src1 in
    match oc, advance r2 with
    | Some c, Some r3 =>
        if c =? 13 then
          let '(oc2, r4, src4) := peek r3 src2 in
          match oc2 with
          | None => inr Panic
          | Some c2 =>
              if (c2 =? 10) && negb (eof r4) then
                match advance r4 with
                | Some r5 => inr (Ret (Some (rev' acc)) r5 src4)
                | None => inr Panic
                end
              else inl (r4, src4, c :: acc, true)
          end
        else if c =? 10 then inr (Ret (Some (rev' acc)) r3 src2)
        else inl (r3, src2, c :: acc, true)
    | _, _ => inr Panic
    end.

Definition read_line (r : reader) (src : list event) : res (option (list byte)) :=
  run_loop line_step (r, src, [], false).

(** (0..).map_while(|_| self.read_line()).collect() *)
Definition lines_step (s : reader * list event * list (list byte))
  : (reader * list event * list (list byte)) + res (list (list byte)) :=
  let '(r, src, acc) := s in
  match read_line r src with
  | Ret (Some l) r' src' => inl (r', src', l :: acc)
  | Ret None r' src' => inr (Ret (rev' acc) r' src')
  | Panic => inr Panic
  | Fuel => inr Fuel
  end.
Definition read_lines (r : reader) (src : list event) : res (list (list byte)) :=
  run_loop lines_step (r, src, []).

(** fn is_eof *)
Definition is_eof (r : reader) (src : list event) : res bool :=
  bind (skip_ws r src) (fun _ r1 src1 => Ret (eof r1) r1 src1).

(** ------------------------------------------------------------------ scripts *)
Inductive sty := TInt (t : ity) | TStr | TChar.
Inductive sval := SInt (v : Z) | SStr (s : list byte) | SChar (c : byte).
Inductive op :=
| OScalar (t : sty)            (* reader.read::<T>() *)
| OTuple (ts : list sty)       (* reader.read::<(A, B, ...)>() : components left to right *)
| OVec (n : N) (t : sty)       (* reader.read_vec::<T>(n) *)
| OLine | OLines | OIsEof.
Inductive val :=
| VScalar (v : sval) | VTuple (vs : list sval) | VVec (vs : list sval)
| VLine (l : option (list byte)) | VLines (ls : list (list byte)) | VEof (b : bool).

Definition read_scalar (t : sty) (r : reader) (src : list event) : res sval :=
  match t with
  | TInt t => bind (read_int t r src) (fun v r' s' => Ret (SInt v) r' s')
  | TStr => bind (read_string r src) (fun v r' s' => Ret (SStr v) r' s')
  | TChar => bind (read_char r src) (fun v r' s' => Ret (SChar v) r' s')
  end.

Fixpoint read_seq (ts : list sty) (r : reader) (src : list event) : res (list sval) :=
  match ts with
  | [] => Ret [] r src
  | t :: ts' =>
      bind (read_scalar t r src) (fun v r1 s1 =>
        bind (read_seq ts' r1 s1) (fun vs r2 s2 => Ret (v :: vs) r2 s2))
  end.

Definition run_op (o : op) (r : reader) (src : list event) : res val :=
  match o with
  | OScalar t => bind (read_scalar t r src) (fun v r' s' => Ret (VScalar v) r' s')
  | OTuple ts => bind (read_seq ts r src) (fun v r' s' => Ret (VTuple v) r' s')
  | OVec n t => bind (read_seq (repeat t (N.to_nat n)) r src) (fun v r' s' => Ret (VVec v) r' s')
  | OLine => bind (read_line r src) (fun v r' s' => Ret (VLine v) r' s')
  | OLines => bind (read_lines r src) (fun v r' s' => Ret (VLines v) r' s')
  | OIsEof => bind (is_eof r src) (fun v r' s' => Ret (VEof v) r' s')
  end.

(** how a script ended *)
Inductive status := Finished | Panicked | OutOfFuel.

(** the values returned before the script ended, and how it ended (a panic ends it) *)
Fixpoint run_ops (ops : list op) (r : reader) (src : list event) : list val * status :=
  match ops with
  | [] => ([], Finished)
  | o :: ops' =>
      match run_op o r src with
      | Ret v r' src' => let '(vs, st) := run_ops ops' r' src' in (v :: vs, st)
      | Panic => ([], Panicked)
      | Fuel => ([], OutOfFuel)
      end
  end.

Definition run (BUF : N) (src : list event) (ops : list op) : list val * status :=
  run_ops ops (new_reader BUF) src.
