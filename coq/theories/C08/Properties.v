(** C08 — property theorems (statements only; proofs in Proofs*.v). *)
From Coq Require Import ZArith NArith List Bool.
Import ListNotations.
From RlibV Require Import C08.Model C08.Spec C08.Corr.
Open Scope Z_scope.
