(** C08 — property theorems (statements only; proofs in Proofs*.v).

    Vocabulary.  [represents r src l] (ProofsCore) is the simulation invariant: the
    reader state [r] and the not yet delivered schedule [src] are consistent
    ([inv]: the buffer array is non-empty, no empty data chunk ahead, and once [eof]
    is set nothing is left) and [live r ++ data_of src = l], the remaining input of
    the pure parser.  [wf_src]: no empty [Data] chunk (a read returning 0 bytes means
    end of input).  [op_ok]: integer types have at least one bit.  The bound 2^130 on
    the input length is the loop fuel ([Common.Iter.big_fuel]). *)
From Coq Require Import ZArith NArith List Bool.
Import ListNotations.
From RlibV Require Import C08.Model C08.Spec C08.Corr.
From RlibV Require Import C08.ProofsCore C08.ProofsLoops C08.ProofsInt C08.ProofsOps C08.ProofsSpec C08.ProofsCorr.
From RlibV Require Import C08.Flat C08.OldVariant.
Open Scope Z_scope.

(** the initial state represents the whole input, for every capacity >= 1 *)
Theorem c08_initial : forall (BUF : N) (src : list event),
  (1 <= BUF)%N -> wf_src src -> represents (new_reader BUF) src (data_of src).
Proof. exact new_reader_represents. Qed.

(** simulation: one operation on a represented state returns the pure parser's value and
    leaves a state representing the parser's remaining input; it panics exactly where
    the parser leaves the contract *)
Theorem c08_simulation_step : forall (o : op) (r : reader) (src : list event) (l : list byte),
  op_ok o -> represents r src l -> Z.of_nat (length l) < 2 ^ 130 ->
  match spec_op o l with
  | SRet v l' => exists r' src', run_op o r src = Ret v r' src' /\ represents r' src' l'
  | SPanic => run_op o r src = Panic
  end.
Proof. exact run_op_sim. Qed.

(** refinement: a whole script, any capacity, any schedule = the pure parser on the bytes *)
Theorem c08_refines_parser : forall (BUF : N) (src : list event) (ops : list op),
  (1 <= BUF)%N -> wf_src src -> Forall op_ok ops -> Z.of_nat (length (data_of src)) < 2 ^ 130 ->
  run BUF src ops = spec_run ops (data_of src).
Proof. exact run_refines_parser. Qed.

(** the property: results depend on the bytes alone *)
Theorem c08_schedule_independent : forall (BUF1 BUF2 : N) (src1 src2 : list event) (ops : list op),
  (1 <= BUF1)%N -> (1 <= BUF2)%N -> wf_src src1 -> wf_src src2 -> Forall op_ok ops ->
  data_of src1 = data_of src2 -> Z.of_nat (length (data_of src1)) < 2 ^ 130 ->
  run BUF1 src1 ops = run BUF2 src2 ops /\ run BUF1 src1 ops = spec_run ops (data_of src1).
Proof. exact schedule_independent. Qed.

(** the digit loop with checked arithmetic accepts every in-range decimal token: no
    intermediate overflow, also for the minimum of a signed type (accumulated negatively) *)
Theorem c08_parse_no_overflow : forall (t : ity) (neg : bool) (tok : list byte),
  ity_ok t -> tok <> [] -> forallb digit tok = true ->
  fits t (if neg then - dec_value tok else dec_value tok) = true ->
  fold_opt (int_acc t neg) (0, false) tok = Some (if neg then - dec_value tok else dec_value tok, true).
Proof. exact parse_no_overflow. Qed.

(** ... and the integer reader as a whole returns the value of the token, or panics if the
    token is missing, malformed or out of range *)
Theorem c08_read_int_spec : forall (t : ity) (r : reader) (src : list event) (l : list byte),
  ity_ok t -> represents r src l -> Z.of_nat (length l) < 2 ^ 130 ->
  match spec_int t l with
  | SRet v l' => exists r' src', read_int t r src = Ret v r' src' /\ represents r' src' l'
  | SPanic => read_int t r src = Panic
  end.
Proof. exact read_int_sim. Qed.

(** read_line = first line of the remaining bytes; and what that is: None only at end of
    input, LF stripped, CR LF stripped, a CR not followed by LF kept, empty lines kept,
    an unterminated last line returned *)
Theorem c08_read_line_spec :
  (forall (r : reader) (src : list event) (l : list byte),
     represents r src l -> Z.of_nat (length l) < 2 ^ 130 ->
     exists r' src', read_line r src = Ret (fst (spec_line l)) r' src' /\ represents r' src' (snd (spec_line l)))
  /\ (forall l, fst (spec_line l) = None <-> l = [])
  /\ (forall x rest, no_lf x -> last x 0 <> 13 -> spec_line (x ++ 10 :: rest) = (Some x, rest))
  /\ (forall x rest, no_lf x -> spec_line (x ++ 13 :: 10 :: rest) = (Some x, rest))
  /\ (forall x, no_lf x -> x <> [] -> spec_line x = (Some x, [])).
Proof. exact read_line_full. Qed.

(** read_lines returns all lines and consumes everything *)
Theorem c08_read_lines_spec : forall (r : reader) (src : list event) (l : list byte),
  represents r src l -> Z.of_nat (length l) < 2 ^ 130 ->
  exists r' src', read_lines r src = Ret (spec_lines l) r' src' /\ represents r' src' [].
Proof. exact read_lines_sim. Qed.

(** is_eof: true iff only whitespace is left; the whitespace is consumed *)
Theorem c08_is_eof_spec : forall (r : reader) (src : list event) (l : list byte),
  represents r src l -> Z.of_nat (length l) < 2 ^ 130 ->
  (exists r' src', is_eof r src = Ret (fst (spec_is_eof l)) r' src' /\ represents r' src' (snd (spec_is_eof l)))
  /\ (fst (spec_is_eof l) = true <-> Forall (fun c => ws c = true) l)
  /\ snd (spec_is_eof l) = drop_ws l.
Proof. exact is_eof_full. Qed.

(** correspondence cases: agreeing with the model implies satisfying the specification *)
Theorem c08_model_implies_spec : forall c : case, in_scope c -> model_check c = true -> spec_check c = true.
Proof. exact model_implies_spec. Qed.

(** the model's reader state (consumed prefix / live part / free room) is the Rust state
    (buf, begin, end, eof) with a flat array: refill (compaction with copy_within, the read
    into buf[end..], eof on 0 bytes), buf[begin], begin += 1 and Reader::new commute with [abs] *)
Theorem c08_state_is_flat_array :
  (forall (r : reader) (src : list event),
     flat_refill (abs r) src = (abs (fst (refill r src)), snd (refill r src)))
  /\ (forall r : reader, at_begin r = nth_error (fbuf (abs r)) (fbegin (abs r)))
  /\ (forall r r' : reader, advance r = Some r' ->
        abs r' = mkFlat (fbuf (abs r)) (S (fbegin (abs r))) (fend (abs r)) (feof (abs r)))
  /\ (forall BUF : N, abs (new_reader BUF) = mkFlat (zeros BUF) 0 0 false).
Proof. exact (conj refill_abs (conj at_begin_abs (conj advance_abs new_reader_abs))). Qed.

(** documentation of the two repaired defects, about explicitly named OLD variants only *)
Theorem c08_old_stale_refuted :
  exists src1 src2 : list event,
    Forall (fun e => e <> Data []) src1 /\ Forall (fun e => e <> Data []) src2 /\
    data_of src1 = data_of src2 /\
    value (read_lines_old (new_reader 65536) src1) = Some [[]; [97; 98; 99]] /\
    value (read_lines_old (new_reader 65536) src2) = Some [[]; [97; 98; 99; 13]] /\
    value (read_lines (new_reader 65536) src1) = Some [[]; [97; 98; 99; 13]] /\
    value (read_lines (new_reader 65536) src2) = Some [[]; [97; 98; 99; 13]].
Proof. exact old_stale_refuted. Qed.

Theorem c08_old_interrupted_refuted : forall (BUF : N) (src : list event),
  src_read_old (post (new_reader BUF)) (Intr :: src) = None
  /\ src_read (post (new_reader BUF)) (Intr :: src) = src_read (post (new_reader BUF)) src.
Proof. exact old_interrupted_refuted. Qed.
