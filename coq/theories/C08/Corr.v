(** C08 — correspondence cases.  A case = buffer capacity reported by the
    implementation (hook [Reader::VERIF_BUF_SIZE]), the delivery schedule, the
    script, and what the implementation returned (values, and whether the script
    ended in a panic).  [model_check]: the model computes the same.  [spec_check]:
    the values are those of the pure parser on the concatenated bytes
    (independent of the model, of the capacity and of the schedule). *)
From Coq Require Import ZArith NArith List Bool.
From RlibV Require Import Common.Batch C08.Model C08.Spec.
Import ListNotations.
Open Scope Z_scope.

Record case := mkCase {
  c_buf : N; c_src : list event; c_ops : list op;
  c_obs : list val; c_panic : bool;
  c_dbg : bool  (* true: debug profile.  false: release profile (no overflow checks, no
                   debug assertions): the model describes it only up to the first model panic *)
}.

(** run-length helper for long inputs: [rep n b] = n copies of b *)
Definition rep (n : N) (b : byte) : list byte := N.iter n (cons b) [].
(** the same for schedules: [intrs n] = n consecutive reads failing with ErrorKind::Interrupted *)
Definition intrs (n : N) : list event := N.iter n (cons Intr) [].

Definition bytes_eqb := leqb Z.eqb.
Definition ity_eqb (a b : ity) := (bits a =? bits b) && Bool.eqb (sgn a) (sgn b).
Definition sval_eqb (a b : sval) : bool :=
  match a, b with
  | SInt x, SInt y => x =? y
  | SStr x, SStr y => bytes_eqb x y
  | SChar x, SChar y => x =? y
  | _, _ => false
  end.
Definition val_eqb (a b : val) : bool :=
  match a, b with
  | VScalar x, VScalar y => sval_eqb x y
  | VTuple x, VTuple y => leqb sval_eqb x y
  | VVec x, VVec y => leqb sval_eqb x y
  | VLine x, VLine y => oeqb bytes_eqb x y
  | VLines x, VLines y => leqb bytes_eqb x y
  | VEof x, VEof y => Bool.eqb x y
  | _, _ => false
  end.
Fixpoint prefixb (p l : list val) : bool :=
  match p, l with
  | [], _ => true
  | a :: p', b :: l' => val_eqb a b && prefixb p' l'
  | _ :: _, [] => false
  end.

Definition agrees (expected : list val * status) (c : case) : bool :=
  match snd expected with
  | Finished => leqb val_eqb (fst expected) (c_obs c) && negb (c_panic c)
  | Panicked =>
      if c_dbg c then leqb val_eqb (fst expected) (c_obs c) && c_panic c
      else prefixb (fst expected) (c_obs c)
  | OutOfFuel => false
  end.

Definition model_check (c : case) : bool := agrees (run (c_buf c) (c_src c) (c_ops c)) c.

(** Out-of-contract scripts (the parser meets a missing/malformed/out-of-range token:
    [Panicked]) are outside the property: only the values before that point are compared. *)
Definition spec_check (c : case) : bool :=
  let e := spec_run (c_ops c) (data_of (c_src c)) in
  match snd e with
  | Finished => leqb val_eqb (fst e) (c_obs c) && negb (c_panic c)
  | _ => prefixb (fst e) (c_obs c)
  end.

(** for replay files: what the model and the specification say *)
Definition explain (c : case) := (run (c_buf c) (c_src c) (c_ops c), spec_run (c_ops c) (data_of (c_src c))).
