(** C06 — fixed-width integer helpers (definitions only).

    Rust semantics reproduced here:
    - [as] casts between integer types never panic: they keep the low bits
      ([wrap_u w], [wrap_s w]);
    - [+ - *] panic on overflow in a debug build and wrap in a release build:
      the checked forms return [None] in that case, so a model function
      returning [Some z] means "no intermediate left its Rust type, and the
      value is [z] in both profiles";
    - [/] and [%] on signed integers truncate towards zero ([Z.quot],
      [Z.rem]) and panic on a zero divisor and on [MIN / -1]. *)
From Coq Require Import ZArith Bool.
Open Scope Z_scope.

Definition bind {A B} (o : option A) (f : A -> option B) : option B :=
  match o with Some a => f a | None => None end.
Notation "x <- e ;; f" := (bind e (fun x => f)) (at level 61, e at next level, right associativity).

(** unsigned / signed (two's complement) ranges of width [w] *)
Definition in_u (w z : Z) : bool := (0 <=? z) && (z <? 2 ^ w).
Definition in_s (w z : Z) : bool := (- 2 ^ (w - 1) <=? z) && (z <? 2 ^ (w - 1)).

(** [as uW] and [as iW] *)
Definition wrap_u (w z : Z) : Z := z mod 2 ^ w.
Definition wrap_s (w z : Z) : Z := (z + 2 ^ (w - 1)) mod 2 ^ w - 2 ^ (w - 1).

(** the result of an overflow-checked operation *)
Definition chk_u (w z : Z) : option Z := if in_u w z then Some z else None.
Definition chk_s (w z : Z) : option Z := if in_s w z then Some z else None.

(** signed division and remainder of width [w] *)
Definition div_s (w a b : Z) : option Z := if b =? 0 then None else chk_s w (Z.quot a b).
Definition rem_s (w a b : Z) : option Z :=
  if b =? 0 then None else if (a =? - 2 ^ (w - 1)) && (b =? -1) then None else Some (Z.rem a b).
