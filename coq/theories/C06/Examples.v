(** C06 — non-vacuity: every hypothesis of the property theorems has instances, and the model
    runs on literals (small, competition and near-2^31 moduli, prime and composite). *)
From Coq Require Import ZArith Lia Bool String.
From RlibV Require Import Common.Iter C06.Fixed C06.Model C06.Corr C06.Properties.
Open Scope Z_scope.
Open Scope string_scope.

(** moduli satisfying 2 <= M < 2^31: the two ends and the usual primes *)
Example ex_M_min : 2 <= 2 < 2 ^ 31. Proof. lia. Qed.
Example ex_M_max : 2 <= 2147483647 < 2 ^ 31. Proof. lia. Qed.
Example ex_M_998 : 2 <= 998244353 < 2 ^ 31. Proof. lia. Qed.
Example ex_M_composite : 2 <= 2147483646 < 2 ^ 31. Proof. lia. Qed.

(** constructor: i64::MIN, i64::MAX, values >= 2^31, negatives *)
Example ex_new_min : new 2147483647 (- 2 ^ 63) = Some 2147483645. Proof. vm_compute. reflexivity. Qed.
Example ex_new_max : new 2147483647 (2 ^ 63 - 1) = Some 1. Proof. vm_compute. reflexivity. Qed.
Example ex_new_neg : new 7 (-1) = Some 6. Proof. vm_compute. reflexivity. Qed.
Example ex_new_big : new 998244353 (2 ^ 31) = Some 150994942. Proof. vm_compute. reflexivity. Qed.
Example ex_new_thm : new 2147483647 (- 2 ^ 63) = Some ((- 2 ^ 63) mod 2147483647).
Proof. apply c06_new; lia. Qed.

(** ring operations at the residues M-1 (largest intermediate values) *)
Example ex_add : add 2147483647 2147483646 2147483646 = Some 2147483645. Proof. vm_compute. reflexivity. Qed.
Example ex_sub : sub 2147483647 0 2147483646 = Some 1. Proof. vm_compute. reflexivity. Qed.
Example ex_mul : mul 2147483647 2147483646 2147483646 = Some 1. Proof. vm_compute. reflexivity. Qed.
Example ex_neg0 : neg 2147483647 0 = Some 0. Proof. vm_compute. reflexivity. Qed.
Example ex_neg : neg 2147483647 1 = Some 2147483646. Proof. vm_compute. reflexivity. Qed.
Example ex_add_thm : add 12 11 11 = Some ((11 + 11) mod 12).
Proof. apply c06_add; lia. Qed.

(** pow with the largest exponent *)
Example ex_pow_max : pow 2147483647 2 (2 ^ 64 - 1) = Some 32768. Proof. vm_compute. reflexivity. Qed.
Example ex_pow_0 : pow 2 0 0 = Some 1. Proof. vm_compute. reflexivity. Qed.
Example ex_pow_hyp : 0 <= 2 ^ 64 - 1 < 2 ^ 64. Proof. lia. Qed.

(** inverse: units (prime and composite modulus) and a non-unit *)
Example ex_unit_prime : Z.gcd 2 2147483647 = 1. Proof. reflexivity. Qed.
Example ex_unit_composite : Z.gcd 5 12 = 1. Proof. reflexivity. Qed.
Example ex_unit_composite_big : Z.gcd 2147483645 2147483646 = 1. Proof. reflexivity. Qed.
Example ex_inv_prime : inv 2147483647 2 = Some 1073741824. Proof. vm_compute. reflexivity. Qed.
Example ex_inv_composite : inv 12 5 = Some 5. Proof. vm_compute. reflexivity. Qed.
Example ex_inv_composite_big : inv 2147483646 2147483645 = Some 2147483645. Proof. vm_compute. reflexivity. Qed.
Example ex_inv_nonunit : inv 12 4 = Some 1. Proof. vm_compute. reflexivity. Qed.   (* 1 * 4 = gcd(4, 12) *)
Example ex_inv_zero : inv 12 0 = Some 0. Proof. vm_compute. reflexivity. Qed.
Example ex_inv_fuel : 2147483645 < Zpos big_fuel. Proof. reflexivity. Qed.
Example ex_div : div 11 5 6 = Some 10. Proof. vm_compute. reflexivity. Qed.
Example ex_div_thm : exists q, div 12 7 5 = Some q /\ 0 <= q < 12 /\ mul 12 q 5 = Some 7.
Proof. apply c06_div; try lia. reflexivity. Qed.

(** equality *)
Example ex_eq : exists x y, new 7 (-1) = Some x /\ new 7 13 = Some y /\ eqb x y = true.
Proof. exists 6, 6. repeat split. Qed.

(** rendering *)
Example ex_render0 : render 0 = Some "0". Proof. reflexivity. Qed.
Example ex_render : render 2147483646 = Some "2147483646". Proof. vm_compute. reflexivity. Qed.
Example ex_render_max : render 4294967295 = Some "4294967295". Proof. vm_compute. reflexivity. Qed.

Example ex_write_thm : exists s, render 4294967295 = Some s /\ sval s = 4294967295.
Proof. apply c06_write. lia. Qed.
Example ex_sval : sval "2147483646" = 2147483646. Proof. vm_compute. reflexivity. Qed.
Example ex_inv_64 : exists x, inv_loop 2147483647 64 1327217884 = inr (Some x).
Proof. eexists. vm_compute. reflexivity. Qed.   (* M/phi: the longest run of the loop *)

(** correspondence cases accepted by model_check exist (so c06_model_implies_spec is not vacuous) *)
Example ex_case_inv :
  model_check (C 2147483647 (OInv 2) (ValS 1073741824 "1073741824")) = true.
Proof. vm_compute. reflexivity. Qed.
Example ex_case_div :
  model_check (C 12 (OBin BDiv true 7 (-7)) (ValS 11 "11")) = true.
Proof. vm_compute. reflexivity. Qed.
Example ex_case_spec :
  spec_check (C 12 (OBin BDiv true 7 (-7)) (ValS 11 "11")) = true.
Proof. vm_compute. reflexivity. Qed.
Example ex_case_spec_rejects :
  spec_check (C 12 (OBin BDiv true 7 (-7)) (ValS 10 "10")) = false.
Proof. vm_compute. reflexivity. Qed.
Example ex_pow_65 : pow_loop 2147483647 65 2 (2 ^ 64 - 1) = inr (Some 32768).
Proof. vm_compute. reflexivity. Qed.
Example ex_canon_dec : canon_dec 2147483646 "2147483646" = true. Proof. vm_compute. reflexivity. Qed.
Example ex_canon_dec_leading_zero : canon_dec 7 "07" = false. Proof. vm_compute. reflexivity. Qed.
Example ex_canon_dec_zero : canon_dec 0 "0" = true. Proof. vm_compute. reflexivity. Qed.
Example ex_canon_dec_nondigit : canon_dec 7 "7 " = false. Proof. vm_compute. reflexivity. Qed.
Example ex_case_strict :
  spec_strict (C 12 (OBin BDiv true 7 (-7)) (ValS 11 "11")) = true.
Proof. apply c06_model_implies_spec_strict. vm_compute. reflexivity. Qed.
