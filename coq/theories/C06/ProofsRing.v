(** C06 — proofs for the constructor and the ring operations. *)
From Coq Require Import ZArith Lia Bool.
From RlibV Require Import C06.Fixed C06.Model.
Open Scope Z_scope.

Lemma chk_s32_some z : - 2 ^ 31 <= z < 2 ^ 31 -> chk_s 32 z = Some z.
Proof.
  intros H. unfold chk_s, in_s. change (2 ^ (32 - 1)) with (2 ^ 31).
  destruct (- 2 ^ 31 <=? z) eqn:E1; [|apply Z.leb_gt in E1; lia].
  destruct (z <? 2 ^ 31) eqn:E2; [reflexivity|apply Z.ltb_ge in E2; lia].
Qed.

Lemma chk_s64_some z : - 2 ^ 63 <= z < 2 ^ 63 -> chk_s 64 z = Some z.
Proof.
  intros H. unfold chk_s, in_s. change (2 ^ (64 - 1)) with (2 ^ 63).
  destruct (- 2 ^ 63 <=? z) eqn:E1; [|apply Z.leb_gt in E1; lia].
  destruct (z <? 2 ^ 63) eqn:E2; [reflexivity|apply Z.ltb_ge in E2; lia].
Qed.

Lemma chk_u32_some z : 0 <= z < 2 ^ 32 -> chk_u 32 z = Some z.
Proof.
  intros H. unfold chk_u, in_u.
  destruct (0 <=? z) eqn:E1; [|apply Z.leb_gt in E1; lia].
  destruct (z <? 2 ^ 32) eqn:E2; [reflexivity|apply Z.ltb_ge in E2; lia].
Qed.

Lemma wrap_s32_id z : - 2 ^ 31 <= z < 2 ^ 31 -> wrap_s 32 z = z.
Proof.
  intros H. unfold wrap_s. change (2 ^ (32 - 1)) with (2 ^ 31).
  rewrite Z.mod_small by lia. lia.
Qed.

Lemma wrap_u32_id z : 0 <= z < 2 ^ 32 -> wrap_u 32 z = z.
Proof. intros H. unfold wrap_u. apply Z.mod_small. exact H. Qed.

(** truncating remainder, lifted when negative, is the mathematical residue *)
Lemma rem_lift v M : 0 < M ->
  (if Z.rem v M <? 0 then Z.rem v M + M else Z.rem v M) = v mod M.
Proof.
  intros HM. pose proof (Z.quot_rem' v M) as Hq.
  destruct (Z.rem v M <? 0) eqn:E.
  - apply Z.ltb_lt in E.
    assert (Hb : - M < Z.rem v M).
    { destruct (Z.le_gt_cases 0 v) as [Hv|Hv].
      - pose proof (Z.rem_bound_pos_pos v M HM Hv). lia.
      - pose proof (Z.rem_bound_pos_neg v M HM ltac:(lia)). lia. }
    apply (Z.mod_unique_pos v M (Z.quot v M - 1)); lia.
  - apply Z.ltb_ge in E.
    assert (Hb : Z.rem v M < M).
    { destruct (Z.le_gt_cases 0 v) as [Hv|Hv].
      - pose proof (Z.rem_bound_pos_pos v M HM Hv). lia.
      - pose proof (Z.rem_bound_pos_neg v M HM ltac:(lia)). lia. }
    apply (Z.mod_unique_pos v M (Z.quot v M)); lia.
Qed.

Lemma rem_abs_lt v M : 0 < M -> - M < Z.rem v M < M.
Proof.
  intros HM. destruct (Z.le_gt_cases 0 v) as [Hv|Hv].
  - pose proof (Z.rem_bound_pos_pos v M HM Hv). lia.
  - pose proof (Z.rem_bound_pos_neg v M HM ltac:(lia)). lia.
Qed.

Section Ring.
Variable M : Z.
Hypothesis HM : 2 <= M < 2 ^ 31.

Lemma new_correct v : - 2 ^ 63 <= v < 2 ^ 63 -> new M v = Some (v mod M).
Proof.
  intros Hv. unfold new, rem_s, bind.
  destruct (M =? 0) eqn:E0; [apply Z.eqb_eq in E0; lia|].
  replace (M =? -1) with false by (symmetry; apply Z.eqb_neq; lia).
  rewrite andb_false_r.
  pose proof (rem_abs_lt v M ltac:(lia)) as Hr.
  pose proof (rem_lift v M ltac:(lia)) as Hl.
  pose proof (Z.mod_pos_bound v M ltac:(lia)) as Hm.
  rewrite (wrap_s32_id (Z.rem v M)) by lia.
  rewrite (wrap_s32_id M) by lia.
  destruct (Z.rem v M <? 0) eqn:E.
  - rewrite chk_s32_some by lia. rewrite wrap_u32_id by lia. rewrite Hl. reflexivity.
  - rewrite wrap_u32_id by lia. rewrite Hl. reflexivity.
Qed.

Lemma new_range v : 0 <= v mod M < M.
Proof. apply Z.mod_pos_bound. lia. Qed.

Lemma add_correct x y : 0 <= x < M -> 0 <= y < M -> add M x y = Some ((x + y) mod M).
Proof.
  intros Hx Hy. unfold add, bind. rewrite chk_u32_some by lia.
  destruct (x + y >=? M) eqn:E.
  - apply Z.geb_le in E. rewrite chk_u32_some by lia. f_equal.
    apply (Z.mod_unique_pos (x + y) M 1); lia.
  - rewrite Z.geb_leb in E. apply Z.leb_gt in E. f_equal. symmetry. apply Z.mod_small. lia.
Qed.

Lemma sub_correct x y : 0 <= x < M -> 0 <= y < M -> sub M x y = Some ((x - y) mod M).
Proof.
  intros Hx Hy. unfold sub, bind. rewrite chk_u32_some by lia. rewrite chk_u32_some by lia.
  destruct (x + M - y >=? M) eqn:E.
  - apply Z.geb_le in E. rewrite chk_u32_some by lia. f_equal.
    replace (x + M - y - M) with (x - y) by lia. symmetry. apply Z.mod_small. lia.
  - rewrite Z.geb_leb in E. apply Z.leb_gt in E. f_equal.
    apply (Z.mod_unique_pos (x - y) M (-1)); lia.
Qed.

Lemma mul_correct x y : 0 <= x < M -> 0 <= y < M -> mul M x y = Some ((x * y) mod M).
Proof.
  intros Hx Hy. unfold mul, bind.
  assert (Hp : 0 <= x * y < 2 ^ 62) by nia.
  rewrite chk_s64_some by lia. apply new_correct. lia.
Qed.

Lemma neg_correct x : 0 <= x < M -> neg M x = Some ((- x) mod M).
Proof.
  intros Hx. unfold neg. destruct (x =? 0) eqn:E.
  - apply Z.eqb_eq in E. subst x. reflexivity.
  - apply Z.eqb_neq in E. rewrite chk_u32_some by lia. f_equal.
    apply (Z.mod_unique_pos (- x) M (-1)); lia.
Qed.
End Ring.
