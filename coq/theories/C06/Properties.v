(** C06 — property theorems (statements only; proofs by [exact]).

    [M] is the const-generic modulus; a [Modular<M>] value is its field [v].  Every model function
    returns [option]; [Some z] means: no cast/arithmetic step left its Rust type (no debug-build
    panic, no release-build wrap) and the value is [z]. *)
From Coq Require Import ZArith String.
From RlibV Require Import Common.Iter C06.Fixed C06.Model
  C06.Corr C06.ProofsRing C06.ProofsPow C06.ProofsInv C06.ProofsMisc C06.ProofsIO C06.ProofsSpec.
Open Scope Z_scope.

(** construction from any i64 (incl. MIN/MAX) gives the canonical representative *)
Theorem c06_new : forall M : Z, 2 <= M < 2 ^ 31 -> forall v : Z, - 2 ^ 63 <= v < 2 ^ 63 ->
  new M v = Some (v mod M) /\ 0 <= v mod M < M.
Proof. exact (fun M HM v Hv => conj (new_correct M HM v Hv) (new_range M HM v)). Qed.

Theorem c06_add : forall M : Z, 2 <= M < 2 ^ 31 -> forall x y : Z, 0 <= x < M -> 0 <= y < M ->
  add M x y = Some ((x + y) mod M).
Proof. exact add_correct. Qed.

Theorem c06_sub : forall M : Z, 2 <= M < 2 ^ 31 -> forall x y : Z, 0 <= x < M -> 0 <= y < M ->
  sub M x y = Some ((x - y) mod M).
Proof. exact sub_correct. Qed.

Theorem c06_mul : forall M : Z, 2 <= M < 2 ^ 31 -> forall x y : Z, 0 <= x < M -> 0 <= y < M ->
  mul M x y = Some ((x * y) mod M).
Proof. exact mul_correct. Qed.

Theorem c06_neg : forall M : Z, 2 <= M < 2 ^ 31 -> forall x : Z, 0 <= x < M ->
  neg M x = Some ((- x) mod M).
Proof. exact neg_correct. Qed.

(** exponentiation for every u64 exponent *)
Theorem c06_pow : forall M x d : Z, 2 <= M < 2 ^ 31 -> 0 <= x < M -> 0 <= d < 2 ^ 64 ->
  pow M x d = Some ((x ^ d) mod M).
Proof. exact pow_correct. Qed.

(** ... within 64 iterations (fuel 65 = 64 iterations and the exit test) *)
Theorem c06_pow_64 : forall M x d : Z, 2 <= M < 2 ^ 31 -> 0 <= x < M -> 0 <= d < 2 ^ 64 ->
  pow_loop M 65 x d = inr (Some ((x ^ d) mod M)).
Proof. exact pow_loop_65. Qed.

(** whatever the fuel, no i32 operation inside the loop of [inv] leaves i32
    ([inr None] is the outcome of a failed checked operation) *)
Theorem c06_inv_no_overflow : forall M : Z, 2 <= M < 2 ^ 31 -> forall v : Z, 0 <= v < M ->
  forall fuel : positive, inv_loop M fuel v <> inr None.
Proof. exact inv_loop_no_overflow. Qed.

(** the loop of [inv] ends within any fuel above [v], in particular within the model's fuel *)
Theorem c06_inv_terminates : forall M : Z, 2 <= M < 2 ^ 31 -> forall v : Z, 0 <= v < M ->
  forall fuel : positive, v < Zpos fuel ->
  exists x, inv_loop M fuel v = inr (Some x) /\ Z.abs x <= M /\ (x * v) mod M = Z.gcd v M mod M.
Proof. exact inv_loop_terminates. Qed.

(** at most 64 iterations: the product a*b at least halves per iteration *)
Theorem c06_inv_terminates_64 : forall M : Z, 2 <= M < 2 ^ 31 -> forall v : Z, 0 <= v < M ->
  exists x, inv_loop M 64 v = inr (Some x) /\ Z.abs x <= M /\ (x * v) mod M = Z.gcd v M mod M.
Proof. exact inv_loop_terminates_64. Qed.

(** for every residue (unit or not) [inv] returns a canonical r with r * v = gcd(v, M) mod M *)
Theorem c06_inv_gcd : forall M : Z, 2 <= M < 2 ^ 31 -> forall v : Z, 0 <= v < M ->
  exists r, inv M v = Some r /\ 0 <= r < M /\ (r * v) mod M = Z.gcd v M mod M.
Proof. exact inv_general. Qed.

Theorem c06_inv_correct : forall M : Z, 2 <= M < 2 ^ 31 -> forall v : Z, 0 <= v < M -> Z.gcd v M = 1 ->
  exists r, inv M v = Some r /\ 0 <= r < M /\ (r * v) mod M = 1.
Proof. exact inv_correct. Qed.

(** (x / y) * y = x whenever y is coprime to M (prime or composite M) *)
Theorem c06_div : forall M x y : Z, 2 <= M < 2 ^ 31 -> 0 <= x < M -> 0 <= y < M -> Z.gcd y M = 1 ->
  exists q, div M x y = Some q /\ 0 <= q < M /\ mul M q y = Some x.
Proof. exact div_correct. Qed.

(** derived [==] on the stored representative decides congruence of the constructor arguments *)
Theorem c06_canonical_eq : forall M a b : Z, 2 <= M < 2 ^ 31 ->
  - 2 ^ 63 <= a < 2 ^ 63 -> - 2 ^ 63 <= b < 2 ^ 63 ->
  exists x y, new M a = Some x /\ new M b = Some y /\ 0 <= x < M /\ 0 <= y < M /\
              (eqb x y = true <-> a mod M = b mod M).
Proof. exact canonical_eq. Qed.

(** why the bound is needed: at M = 2^31 the constructor and the inverse overflow i32 *)
Theorem c06_bound_needed_refuted_at_2_31 :
  (exists v, - 2 ^ 63 <= v < 2 ^ 63 /\ new (2 ^ 31) v <> Some (v mod 2 ^ 31)) /\
  (exists v, 0 <= v < 2 ^ 31 /\ Z.gcd v (2 ^ 31) = 1 /\ inv_loop (2 ^ 31) big_fuel v = inr None).
Proof. exact bound_needed_2_31. Qed.

(** Readable: new applied to the parsed i64 *)
Theorem c06_read : forall M : Z, 2 <= M < 2 ^ 31 -> forall v : Z, - 2 ^ 63 <= v < 2 ^ 63 ->
  read M v = Some (v mod M).
Proof. exact new_correct. Qed.

(** Display/Debug/Writable: the digit loop stays inside its 10-byte buffer for every u32 and the
    text denotes the representative, so printing is canonical (equal text <-> equal value) *)
Theorem c06_write : forall v : Z, 0 <= v < 2 ^ 32 -> exists s, render v = Some s /\ sval s = v.
Proof. exact render_correct. Qed.

Theorem c06_write_canonical : forall (x y : Z) (s : string), 0 <= x < 2 ^ 32 -> 0 <= y < 2 ^ 32 ->
  render x = Some s -> render y = Some s -> x = y.
Proof. exact render_injective. Qed.

(** every correspondence case on which the implementation equals the model satisfies the numeric
    specification used by spec_check (range, ring equations, inverse/division equations) by proof *)
Theorem c06_model_implies_spec : forall c : case, model_check c = true -> spec_num c = true.
Proof. exact model_implies_spec. Qed.

(** ... and also the textual specification (the three renderings are the canonical decimal numeral
    of inner()): everything in spec_check except the cross-check against the standard library's printer *)
Theorem c06_model_implies_spec_strict : forall c : case, model_check c = true -> spec_strict c = true.
Proof. exact model_implies_strict. Qed.

(** the digit loop produces the canonical numeral: digits only, no leading zero, value v *)
Theorem c06_write_canonical_numeral : forall v : Z, 0 <= v < 2 ^ 32 ->
  exists s, render v = Some s /\ canon_dec v s = true.
Proof. exact render_canonical. Qed.

(** why 2 <= M: for M = 1 the constant ONE is outside [0, M) and pow returns it *)
Theorem c06_lower_bound_needed_refuted_at_1 :
  exists x d r, 0 <= x < 1 /\ 0 <= d < 2 ^ 64 /\ pow 1 x d = Some r /\ ~ (0 <= r < 1).
Proof. exact lower_bound_needed_1. Qed.
