(** C06 — property theorems (statements only; proofs by [exact]). *)
From Coq Require Import ZArith.
From RlibV Require Import C06.Fixed C06.Model.
Open Scope Z_scope.
