(** C06 — proofs for inv and div. *)
From Coq Require Import ZArith Lia Bool Znumtheory.
From RlibV Require Import Common.Iter C06.Fixed C06.Model C06.ProofsRing.
Open Scope Z_scope.

(** ---- pure arithmetic behind one iteration (kept in small contexts: no [nia] on big goals) ---- *)
Lemma abs_sub_opp x y k : x * y <= 0 -> 0 <= k -> Z.abs (x - k * y) = Z.abs x + k * Z.abs y.
Proof.
  intros Hs Hk.
  destruct (Z.abs_spec x) as [[Hx ->]|[Hx ->]], (Z.abs_spec y) as [[Hy ->]|[Hy ->]].
  - (* x >= 0, y >= 0, so x*y = 0 *)
    assert (Hxy : 0 <= x * y) by (apply Z.mul_nonneg_nonneg; lia).
    assert (Hz : x * y = 0) by lia. apply Z.mul_eq_0 in Hz. destruct Hz as [-> | ->].
    + rewrite Z.abs_neq; [lia|]. assert (0 <= k * y) by (apply Z.mul_nonneg_nonneg; lia). lia.
    + rewrite Z.mul_0_r, Z.sub_0_r. rewrite Z.abs_eq; lia.
  - assert (Hky : k * y <= 0) by (apply Z.mul_nonneg_nonpos; lia).
    rewrite Z.abs_eq; lia.
  - assert (Hky : 0 <= k * y) by (apply Z.mul_nonneg_nonneg; lia).
    rewrite Z.abs_neq; lia.
  - assert (Hxy : 0 < x * y) by (apply Z.mul_neg_neg; lia). lia.
Qed.

Lemma sign_step x y k : x * y <= 0 -> 0 <= k -> y * (x - k * y) <= 0.
Proof.
  intros Hs Hk. pose proof (Z.square_nonneg y) as Hsq.
  assert (H : 0 <= k * (y * y)) by (apply Z.mul_nonneg_nonneg; lia). lia.
Qed.

Lemma step_arith a b ax ay k M :
  0 < a -> a < b -> 0 <= k -> k * a <= b -> 0 <= ax -> 0 <= ay -> ay * b + ax * a = M ->
  k <= b /\ ay * b <= M /\ ax * a <= M /\ k * ay <= M /\ (ax + k * ay) * a <= M /\ ay <= M
  /\ (ax + k * ay) * a + ay * (b - k * a) = M /\ ax + k * ay <= M.
Proof.
  intros Ha Hab Hk Hka Hax Hay Hsum.
  assert (P1 : 0 <= ax * a) by (apply Z.mul_nonneg_nonneg; lia).
  assert (P2 : 0 <= ay * b) by (apply Z.mul_nonneg_nonneg; lia).
  assert (P3 : k * 1 <= k * a) by (apply Z.mul_le_mono_nonneg_l; lia).
  assert (P4 : ay * (k * a) <= ay * b) by (apply Z.mul_le_mono_nonneg_l; lia).
  assert (P5 : (k * ay) * 1 <= (k * ay) * a).
  { apply Z.mul_le_mono_nonneg_l; [apply Z.mul_nonneg_nonneg; lia|lia]. }
  assert (P6 : ay * 1 <= ay * b) by (apply Z.mul_le_mono_nonneg_l; lia).
  assert (P7 : (ax + k * ay) * 1 <= (ax + k * ay) * a).
  { apply Z.mul_le_mono_nonneg_l; [|lia]. assert (0 <= k * ay) by (apply Z.mul_nonneg_nonneg; lia). lia. }
  repeat split; try lia.
Qed.

Section Inv.
Variable M : Z.
Hypothesis HM : 2 <= M < 2 ^ 31.
Variable v : Z.
Hypothesis Hv : 0 <= v < M.

(** loop invariant (state after both swaps): Bezout-style bookkeeping with alternating signs *)
Definition inv_inv (s : Z * Z * Z * Z) : Prop :=
  let '(a, b, x, y) := s in
  0 <= a < b /\ b <= M /\ Z.abs y * b + Z.abs x * a = M /\ x * y <= 0 /\ Z.abs x <= M /\
  (a - y * v) mod M = 0 /\ (b - x * v) mod M = 0 /\ Z.gcd a b = Z.gcd v M.

Definition inv_post (r : option Z) : Prop :=
  exists x, r = Some x /\ Z.abs x <= M /\ (x * v) mod M = Z.gcd v M mod M.
Definition inv_mu (s : Z * Z * Z * Z) : Z := let '(a, _, _, _) := s in a.

Lemma inv_init : inv_inv (v, M, 0, 1).
Proof.
  cbn [inv_inv]. repeat split; try lia.
  - replace (v - 1 * v) with 0 by lia. apply Zmod_0_l.
  - replace (M - 0 * v) with (1 * M) by lia. apply Z_mod_mult.
Qed.

(** one iteration from a state with a <> 0: no check fails, the next state is explicit *)
Lemma inv_step_shape a b x y : inv_inv (a, b, x, y) -> a <> 0 ->
  inv_step (a, b, x, y) = inl (b mod a, a, y, x - b / a * y) /\
  inv_inv (b mod a, a, y, x - b / a * y) /\ 0 <= b mod a < a /\ 2 * (b mod a) < b.
Proof.
  intros (Hab & HbM & Hsum & Hsign & Hx & Hca & Hcb & Hg) Ha0.
  unfold inv_step. destruct (a =? 0) eqn:E0; [apply Z.eqb_eq in E0; contradiction|].
  assert (Hapos : 0 < a) by lia.
  pose proof (Z.div_mod b a Ha0) as Hdm. pose proof (Z.mod_pos_bound b a Hapos) as Hmod.
  assert (Hk : 0 <= b / a) by (apply Z.div_pos; lia).
  assert (Hk1 : 1 <= b / a) by (apply Z.div_le_lower_bound; lia).
  unfold div_s. rewrite E0. rewrite Z.quot_div_nonneg by lia.
  set (k := b / a) in *.
  assert (Hr : b mod a = b - k * a) by lia. rewrite Hr.
  assert (Hka : k * a <= b) by lia.
  assert (Hka1 : 1 * a <= k * a) by (apply Z.mul_le_mono_nonneg_r; lia).
  pose proof (abs_sub_opp x y k Hsign Hk) as Habs.
  pose proof (sign_step x y k Hsign Hk) as G4.
  destruct (step_arith a b (Z.abs x) (Z.abs y) k M Hapos ltac:(lia) Hk Hka
              (Z.abs_nonneg x) (Z.abs_nonneg y) Hsum)
    as (A1 & A2 & A3 & A4 & A5 & A6 & A7 & A8).
  assert (Habsky : Z.abs (k * y) <= M) by (rewrite Z.abs_mul, (Z.abs_eq k) by lia; lia).
  assert (Hkann : 0 <= k * a) by (apply Z.mul_nonneg_nonneg; lia).
  unfold bind.
  rewrite (chk_s32_some k) by lia.
  rewrite (chk_s32_some (k * a)) by lia.
  rewrite (chk_s32_some (b - k * a)) by lia.
  rewrite (chk_s32_some (k * y)) by lia.
  rewrite (chk_s32_some (x - k * y)) by lia.
  split; [reflexivity|]. split; [|lia].
  cbn [inv_inv].
  assert (G5 : (b - k * a - (x - k * y) * v) mod M = 0).
  { replace (b - k * a - (x - k * y) * v) with ((b - x * v) - k * (a - y * v)) by ring.
    rewrite Zminus_mod, Zmult_mod, Hca, Hcb, Z.mul_0_r. reflexivity. }
  assert (G7 : Z.gcd (b - k * a) a = Z.gcd v M).
  { rewrite <- Hg. rewrite Z.gcd_comm.
    replace (b - k * a) with (b + (- k) * a) by ring. apply Z.gcd_add_mult_diag_r. }
  rewrite Habs.
  repeat split; try assumption; try lia.
Qed.

Lemma inv_step_exit b x y : inv_inv (0, b, x, y) ->
  inv_step (0, b, x, y) = inr (Some x) /\ inv_post (Some x).
Proof.
  intros (Hab & HbM & Hsum & Hsign & Hx & Hca & Hcb & Hg). split; [reflexivity|].
  exists x. split; [reflexivity|]. split; [exact Hx|].
  rewrite Z.gcd_0_l, Z.abs_eq in Hg by lia. rewrite <- Hg.
  apply Zmod_divides in Hcb; [|lia]. destruct Hcb as [c Hc].
  replace (x * v) with (b + (- c) * M) by lia. apply Z_mod_plus_full.
Qed.

Lemma inv_step_ok s : inv_inv s ->
  match inv_step s with
  | inl s' => inv_inv s' /\ 0 <= inv_mu s' < inv_mu s
  | inr r => inv_post r
  end.
Proof.
  destruct s as [[[a b] x] y]. intros Hi. destruct (Z.eq_dec a 0) as [->|Ha0].
  - destruct (inv_step_exit b x y Hi) as [-> Hp]. exact Hp.
  - destruct (inv_step_shape a b x y Hi Ha0) as (-> & Hi' & Hlt & _).
    split; [exact Hi'|]. cbn [inv_mu]. exact Hlt.
Qed.

(** second measure: the product a*b at least halves in every iteration, so the loop of
    two 31-bit values makes at most 62 iterations before a = 0 *)
Definition inv_mu2 (s : Z * Z * Z * Z) : Z :=
  let '(a, b, _, _) := s in if a =? 0 then 0 else Z.log2 (a * b) + 1.

Lemma inv_step_ok2 s : inv_inv s ->
  match inv_step s with
  | inl s' => inv_inv s' /\ 0 <= inv_mu2 s' < inv_mu2 s
  | inr r => inv_post r
  end.
Proof.
  destruct s as [[[a b] x] y]. intros Hi. destruct (Z.eq_dec a 0) as [->|Ha0].
  - destruct (inv_step_exit b x y Hi) as [-> Hp]. exact Hp.
  - destruct (inv_step_shape a b x y Hi Ha0) as (-> & Hi' & Hlt & Hhalf).
    split; [exact Hi'|]. cbn [inv_mu2].
    destruct Hi as (Hab & _).
    replace (a =? 0) with false by (symmetry; apply Z.eqb_neq; exact Ha0).
    pose proof (Z.log2_nonneg (a * b)) as Hl0.
    destruct (b mod a =? 0) eqn:E; [lia|]. apply Z.eqb_neq in E.
    set (r := b mod a) in *.
    assert (Hra : 0 < r * a) by (apply Z.mul_pos_pos; lia).
    assert (Hle : 2 * (r * a) <= a * b).
    { replace (2 * (r * a)) with (a * (2 * r)) by ring. apply Z.mul_le_mono_nonneg_l; lia. }
    pose proof (Z.log2_nonneg (r * a)) as Hl1.
    pose proof (Z.log2_double (r * a) Hra) as Hd.
    pose proof (Z.log2_le_mono _ _ Hle) as Hm. lia.
Qed.
End Inv.

Section InvLoop.
Variable M : Z.
Hypothesis HM : 2 <= M < 2 ^ 31.
Variable v : Z.
Hypothesis Hv : 0 <= v < M.

Lemma inv_loop_start p : inv_loop M p v = iter_pos (inv_step) p (v, M, 0, 1).
Proof. unfold inv_loop. rewrite (wrap_s32_id v), (wrap_s32_id M) by lia. reflexivity. Qed.

(** whatever the fuel, no checked i32 operation of the loop fails *)
Lemma inv_loop_no_overflow p : inv_loop M p v <> inr None.
Proof.
  rewrite inv_loop_start.
  assert (Hstep : forall s, inv_inv M v s ->
            match inv_step s with inl s' => inv_inv M v s' | inr r => inv_post M v r end).
  { intros s Hs. pose proof (inv_step_ok M HM v s Hs) as Hok.
    destruct (inv_step s) as [s'|r]; [exact (proj1 Hok)|exact Hok]. }
  pose proof (iter_pos_inv inv_step (inv_inv M v) (inv_post M v) Hstep p (v, M, 0, 1)
                (inv_init M HM v Hv)) as H.
  intros E. rewrite E in H. destruct H as (x & Hx & _). discriminate Hx.
Qed.

(** the loop ends within any fuel above v (a strictly decreases), with a Bezout coefficient *)
Lemma inv_loop_terminates p : v < Zpos p ->
  exists x, inv_loop M p v = inr (Some x) /\ Z.abs x <= M /\ (x * v) mod M = Z.gcd v M mod M.
Proof.
  intros Hp. rewrite inv_loop_start.
  destruct (iter_pos_spec inv_step (inv_inv M v) (inv_post M v) inv_mu
              (inv_step_ok M HM v) p (v, M, 0, 1)) as (r & Hr & (x & -> & Hx1 & Hx2)).
  - apply inv_init; assumption.
  - cbn [inv_mu]. lia.
  - exists x. auto.
Qed.

(** ... and it ends within 64 iterations *)
Lemma inv_loop_terminates_64 :
  exists x, inv_loop M 64 v = inr (Some x) /\ Z.abs x <= M /\ (x * v) mod M = Z.gcd v M mod M.
Proof.
  rewrite inv_loop_start.
  destruct (iter_pos_spec inv_step (inv_inv M v) (inv_post M v) inv_mu2
              (inv_step_ok2 M HM v) 64%positive (v, M, 0, 1)) as (r & Hr & (x & -> & Hx1 & Hx2)).
  - apply inv_init; assumption.
  - cbn [inv_mu2]. destruct (v =? 0) eqn:E; [lia|]. apply Z.eqb_neq in E.
    assert (Hpos : 0 < v * M) by (apply Z.mul_pos_pos; lia).
    assert (Hlt : v * M < 2 ^ 62).
    { apply Z.le_lt_trans with (2 ^ 31 * M).
      - apply Z.mul_le_mono_nonneg_r; lia.
      - change (2 ^ 62) with (2 ^ 31 * 2 ^ 31). apply Z.mul_lt_mono_pos_l; lia. }
    pose proof (Z.log2_nonneg (v * M)) as Hl0.
    apply Z.log2_lt_pow2 in Hlt; [|exact Hpos]. lia.
  - exists x. auto.
Qed.

Lemma inv_general : exists r, inv M v = Some r /\ 0 <= r < M /\ (r * v) mod M = Z.gcd v M mod M.
Proof.
  destruct (inv_loop_terminates big_fuel) as (x & Hl & Hx1 & Hx2).
  { rewrite big_fuel_val. apply Z.lt_trans with (2 ^ 31); [lia|reflexivity]. }
  unfold inv. rewrite Hl. rewrite (new_correct M HM x) by lia.
  exists (x mod M). split; [reflexivity|]. split; [apply Z.mod_pos_bound; lia|].
  rewrite Z.mul_mod_idemp_l by lia. exact Hx2.
Qed.

Lemma inv_correct : Z.gcd v M = 1 ->
  exists r, inv M v = Some r /\ 0 <= r < M /\ (r * v) mod M = 1.
Proof.
  intros Hg. destruct inv_general as (r & Hr & Hrange & Hmul). exists r.
  rewrite Hg in Hmul. rewrite (Z.mod_small 1 M) in Hmul by lia. auto.
Qed.
End InvLoop.

Lemma div_correct M x y : 2 <= M < 2 ^ 31 -> 0 <= x < M -> 0 <= y < M -> Z.gcd y M = 1 ->
  exists q, div M x y = Some q /\ 0 <= q < M /\ mul M q y = Some x.
Proof.
  intros HM Hx Hy Hg. destruct (inv_correct M HM y Hy Hg) as (r & Hr & Hrange & Hmul).
  unfold div, bind. rewrite Hr. rewrite (mul_correct M HM x r Hx Hrange).
  exists ((x * r) mod M). split; [reflexivity|].
  assert (Hq : 0 <= (x * r) mod M < M) by (apply Z.mod_pos_bound; lia).
  split; [exact Hq|]. rewrite (mul_correct M HM _ y Hq Hy). f_equal.
  rewrite Z.mul_mod_idemp_l by lia. rewrite <- Z.mul_assoc.
  rewrite <- Z.mul_mod_idemp_r by lia. rewrite Hmul. rewrite Z.mul_1_r. apply Z.mod_small. exact Hx.
Qed.
