(** C06 — canonical equality and the witness showing why M < 2^31 is needed. *)
From Coq Require Import ZArith Lia Bool.
From RlibV Require Import Common.Iter C06.Fixed C06.Model C06.ProofsRing.
Open Scope Z_scope.

Lemma canonical_eq M a b : 2 <= M < 2 ^ 31 -> - 2 ^ 63 <= a < 2 ^ 63 -> - 2 ^ 63 <= b < 2 ^ 63 ->
  exists x y, new M a = Some x /\ new M b = Some y /\ 0 <= x < M /\ 0 <= y < M /\
              (eqb x y = true <-> a mod M = b mod M).
Proof.
  intros HM Ha Hb. exists (a mod M), (b mod M).
  rewrite (new_correct M HM a Ha), (new_correct M HM b Hb).
  repeat split; try (apply Z.mod_pos_bound; lia); unfold eqb; apply Z.eqb_eq.
Qed.

(** at M = 2^31 ([M as i32] wraps to i32::MIN) the constructor overflows on every negative
    residue and the inverse loop overflows already for v = 1, 3 *)
Lemma bound_needed_2_31 :
  (exists v, - 2 ^ 63 <= v < 2 ^ 63 /\ new (2 ^ 31) v <> Some (v mod 2 ^ 31)) /\
  (exists v, 0 <= v < 2 ^ 31 /\ Z.gcd v (2 ^ 31) = 1 /\ inv_loop (2 ^ 31) big_fuel v = inr None).
Proof.
  split.
  - exists (-1). split; [lia|]. vm_compute. discriminate.
  - exists 3. split; [lia|]. split; vm_compute; reflexivity.
Qed.

(** at M = 1 the constant ONE (v = 1) is not a canonical representative: pow with exponent 0
    returns it, so the lower bound 2 <= M is needed as well *)
Lemma lower_bound_needed_1 : exists x d r, 0 <= x < 1 /\ 0 <= d < 2 ^ 64 /\ pow 1 x d = Some r /\ ~ (0 <= r < 1).
Proof. exists 0, 0, 1. split; [lia|]. split; [lia|]. split; [vm_compute; reflexivity|lia]. Qed.
