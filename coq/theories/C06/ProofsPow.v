(** C06 — proofs for pow. *)
From Coq Require Import ZArith Lia Bool Zpow_facts.
From RlibV Require Import Common.Iter C06.Fixed C06.Model C06.ProofsRing.
Open Scope Z_scope.

Section Pow.
Variable M : Z.
Hypothesis HM : 2 <= M < 2 ^ 31.
Variables x0 d0 : Z.
Hypothesis Hx0 : 0 <= x0 < M.
Hypothesis Hd0 : 0 <= d0.

Definition pow_inv (s : Z * Z * Z) : Prop :=
  let '(res, a, d) := s in
  0 <= res < M /\ 0 <= a < M /\ 0 <= d /\ (res * a ^ d) mod M = (x0 ^ d0) mod M.
Definition pow_post (r : option Z) : Prop := r = Some ((x0 ^ d0) mod M).
Definition pow_mu (s : Z * Z * Z) : Z := let '(_, _, d) := s in d.

(** second measure: the bit length of d, so the loop makes at most 64 iterations for a u64 *)
Definition pow_mu2 (s : Z * Z * Z) : Z := let '(_, _, d) := s in if d =? 0 then 0 else Z.log2 d + 1.

Lemma pow_mu2_half d : 0 < d -> 0 <= pow_mu2 (0, 0, d / 2) < pow_mu2 (0, 0, d).
Proof.
  intros Hd. cbn [pow_mu2]. replace (d =? 0) with false by (symmetry; apply Z.eqb_neq; lia).
  pose proof (Z.log2_nonneg d) as Hl. destruct (d / 2 =? 0) eqn:E; [lia|]. apply Z.eqb_neq in E.
  assert (Hq : 0 < d / 2).
  { assert (0 <= d / 2) by (apply Z.div_pos; lia). lia. }
  pose proof (Z.log2_nonneg (d / 2)) as Hl2.
  pose proof (Z.log2_double (d / 2) Hq) as Hdb.
  assert (Hle : 2 * (d / 2) <= d) by (apply Z.mul_div_le; lia).
  pose proof (Z.log2_le_mono _ _ Hle) as Hm. lia.
Qed.

Lemma pow_step_ok s : pow_inv s ->
  match pow_step M s with
  | inl s' => pow_inv s' /\ 0 <= pow_mu s' < pow_mu s /\ 0 <= pow_mu2 s' < pow_mu2 s
  | inr r => pow_post r
  end.
Proof.
  destruct s as [[res a] d]. intros (Hres & Ha & Hd & Heq). unfold pow_step.
  destruct (d =? 0) eqn:E0.
  - apply Z.eqb_eq in E0. subst d. unfold pow_post. f_equal.
    rewrite Z.pow_0_r, Z.mul_1_r in Heq. rewrite <- Heq. symmetry. apply Z.mod_small. exact Hres.
  - apply Z.eqb_neq in E0.
    assert (Hdpos : 0 < d) by lia.
    rewrite Z.rem_mod_nonneg by lia. rewrite Z.quot_div_nonneg by lia.
    pose proof (Z.div_mod d 2 ltac:(lia)) as Hdm.
    pose proof (Z.mod_pos_bound d 2 ltac:(lia)) as Hdb.
    assert (Hq : 0 <= d / 2 < d) by (split; [apply Z.div_pos; lia | apply Z.div_lt; lia]).
    rewrite (mul_correct M HM a a Ha Ha).
    assert (Hsq : (a * a) ^ (d / 2) = a ^ (2 * (d / 2))).
    { rewrite Z.pow_mul_r by lia. f_equal. lia. }
    destruct (d mod 2 =? 1) eqn:E1.
    + apply Z.eqb_eq in E1. rewrite (mul_correct M HM res a Hres Ha).
      cbn [pow_inv pow_mu]. split; [|split; [lia|apply (pow_mu2_half d Hdpos)]].
      split; [apply Z.mod_pos_bound; lia|]. split; [apply Z.mod_pos_bound; lia|]. split; [lia|].
      assert (Key : a ^ d = a * (a * a) ^ (d / 2)).
      { rewrite Hsq. rewrite Hdm at 1. rewrite E1. rewrite Z.pow_add_r by lia. rewrite Z.pow_1_r. ring. }
      rewrite Z.mul_mod_idemp_l by lia. rewrite <- Z.mul_mod_idemp_r by lia.
      rewrite <- Zpower_mod by lia. rewrite Z.mul_mod_idemp_r by lia.
      rewrite <- Heq. f_equal. rewrite Key. ring.
    + apply Z.eqb_neq in E1.
      cbn [pow_inv pow_mu]. split; [|split; [lia|apply (pow_mu2_half d Hdpos)]].
      split; [exact Hres|]. split; [apply Z.mod_pos_bound; lia|]. split; [lia|].
      assert (Key : a ^ d = (a * a) ^ (d / 2)).
      { rewrite Hsq. rewrite Hdm at 1. replace (d mod 2) with 0 by lia. f_equal. lia. }
      rewrite <- Z.mul_mod_idemp_r by lia.
      rewrite <- Zpower_mod by lia. rewrite Z.mul_mod_idemp_r by lia.
      rewrite <- Heq. f_equal. rewrite Key. ring.
Qed.

Lemma pow_init : pow_inv (1, x0, d0).
Proof. cbn [pow_inv]. repeat split; try lia. f_equal. ring. Qed.
End Pow.

Lemma pow_loop_correct M x d p : 2 <= M < 2 ^ 31 -> 0 <= x < M -> 0 <= d < Zpos p ->
  pow_loop M p x d = inr (Some ((x ^ d) mod M)).
Proof.
  intros HM Hx Hd. unfold pow_loop.
  assert (Hd0 : 0 <= d) by lia.
  assert (Hstep : forall s, pow_inv M x d s ->
            match pow_step M s with
            | inl s' => pow_inv M x d s' /\ 0 <= pow_mu s' < pow_mu s
            | inr r => pow_post M x d r
            end).
  { intros s Hs. pose proof (pow_step_ok M HM x d Hx Hd0 s Hs) as Hok.
    destruct (pow_step M s) as [s'|r]; [tauto|exact Hok]. }
  destruct (iter_pos_spec (pow_step M) (pow_inv M x d) (pow_post M x d) pow_mu
              Hstep p (1, x, d)) as (r & Hr & Hp).
  - apply pow_init; lia.
  - cbn [pow_mu]. exact Hd.
  - rewrite Hr. unfold pow_post in Hp. rewrite Hp. reflexivity.
Qed.

Lemma pow_correct M x d : 2 <= M < 2 ^ 31 -> 0 <= x < M -> 0 <= d < 2 ^ 64 ->
  pow M x d = Some ((x ^ d) mod M).
Proof.
  intros HM Hx Hd. unfold pow. rewrite pow_loop_correct; [reflexivity|exact HM|exact Hx|].
  rewrite big_fuel_val. split; [lia|]. apply Z.lt_trans with (2 ^ 64); [lia|]. reflexivity.
Qed.

(** at most 65 evaluations of the loop condition (64 iterations plus the exit) for a u64 exponent *)
Lemma pow_loop_65 M x d : 2 <= M < 2 ^ 31 -> 0 <= x < M -> 0 <= d < 2 ^ 64 ->
  pow_loop M 65 x d = inr (Some ((x ^ d) mod M)).
Proof.
  intros HM Hx Hd. unfold pow_loop.
  assert (Hd0 : 0 <= d) by lia.
  assert (Hstep : forall s, pow_inv M x d s ->
            match pow_step M s with
            | inl s' => pow_inv M x d s' /\ 0 <= pow_mu2 s' < pow_mu2 s
            | inr r => pow_post M x d r
            end).
  { intros s Hs. pose proof (pow_step_ok M HM x d Hx Hd0 s Hs) as Hok.
    destruct (pow_step M s) as [s'|r]; [tauto|exact Hok]. }
  destruct (iter_pos_spec (pow_step M) (pow_inv M x d) (pow_post M x d) pow_mu2
              Hstep 65%positive (1, x, d)) as (r & Hr & Hp).
  - apply pow_init; lia.
  - cbn [pow_mu2]. destruct (d =? 0) eqn:E; [lia|]. apply Z.eqb_neq in E.
    pose proof (Z.log2_nonneg d) as Hl.
    assert (Hlt : Z.log2 d < 64) by (apply Z.log2_lt_pow2; lia). lia.
  - rewrite Hr. unfold pow_post in Hp. rewrite Hp. reflexivity.
Qed.
