(** C06 — the model satisfies the specification used by [spec_check] (numeric part):
    a case accepted by [model_check] is accepted by [spec_num] by proof. *)
From Coq Require Import ZArith Lia Bool String Zpow_facts.
From RlibV Require Import Common.Iter C06.Fixed C06.Model C06.Corr
  C06.ProofsRing C06.ProofsPow C06.ProofsInv C06.ProofsIO.
Open Scope Z_scope.

Lemma powmod_pos_spec b e m : 0 < m -> powmod_pos b e m = (b ^ Zpos e) mod m.
Proof.
  intros Hm. induction e as [e IH|e IH|]; cbn [powmod_pos].
  - rewrite IH. rewrite Pos2Z.inj_xI.
    replace (b ^ (2 * Z.pos e + 1)) with (b ^ Z.pos e * b ^ Z.pos e * b).
    + rewrite <- Z.mul_mod by lia. rewrite Z.mul_mod_idemp_l by lia. reflexivity.
    + rewrite Z.pow_add_r, Z.pow_1_r by lia. replace (2 * Z.pos e) with (Z.pos e + Z.pos e) by lia.
      rewrite Z.pow_add_r by lia. reflexivity.
  - rewrite IH. rewrite Pos2Z.inj_xO.
    replace (b ^ (2 * Z.pos e)) with (b ^ Z.pos e * b ^ Z.pos e).
    + rewrite <- Z.mul_mod by lia. reflexivity.
    + replace (2 * Z.pos e) with (Z.pos e + Z.pos e) by lia. rewrite Z.pow_add_r by lia. reflexivity.
  - rewrite Z.pow_1_r. reflexivity.
Qed.

Lemma powmod_spec b e m : 0 < m -> 0 <= e -> powmod b e m = (b ^ e) mod m.
Proof.
  intros Hm He. destruct e as [|p|p]; cbn [powmod].
  - reflexivity.
  - apply powmod_pos_spec. exact Hm.
  - lia.
Qed.

Lemma is_i64_true v : is_i64 v = true -> - 2 ^ 63 <= v < 2 ^ 63.
Proof. unfold is_i64. intros H. apply andb_prop in H. destruct H as [H1 H2].
  apply Z.leb_le in H1. apply Z.ltb_lt in H2. lia. Qed.
Lemma is_u64_true v : is_u64 v = true -> 0 <= v < 2 ^ 64.
Proof. unfold is_u64. intros H. apply andb_prop in H. destruct H as [H1 H2].
  apply Z.leb_le in H1. apply Z.ltb_lt in H2. lia. Qed.

Lemma div_general M x y : 2 <= M < 2 ^ 31 -> 0 <= x < M -> 0 <= y < M ->
  exists q, div M x y = Some q /\ 0 <= q < M.
Proof.
  intros HM Hx Hy. destruct (inv_general M HM y Hy) as (r & Hr & Hrange & _).
  unfold div, bind. rewrite Hr. rewrite (mul_correct M HM x r Hx Hrange).
  eexists. split; [reflexivity|]. apply Z.mod_pos_bound. lia.
Qed.

Definition is_eq (o : op) : bool := match o with OEq _ _ => true | _ => false end.

(** on every in-scope operation the model returns a canonical value meeting the specification *)
Lemma run_spec M o : in_scope M o = true -> is_eq o = false ->
  exists v, run M o = Some v /\ 0 <= v < M /\ spec_value M o v = true.
Proof.
  unfold in_scope. intros Hs Hne.
  apply andb_prop in Hs. destruct Hs as [Hs Hops]. apply andb_prop in Hs. destruct Hs as [H1 H2].
  apply Z.leb_le in H1. apply Z.ltb_lt in H2. assert (HM : 2 <= M < 2 ^ 31) by lia. clear H1 H2.
  assert (Hr : forall a, 0 <= a mod M < M) by (intros a; apply Z.mod_pos_bound; lia).
  destruct o as [v|v|a|a|a d|k asg a b|a b]; cbn [run spec_value is_eq] in *; try discriminate Hne.
  - apply is_i64_true in Hops. rewrite (new_correct M HM v Hops).
    eexists. split; [reflexivity|]. split; [apply Hr|]. apply Z.eqb_refl.
  - apply is_i64_true in Hops. unfold read. rewrite (new_correct M HM v Hops).
    eexists. split; [reflexivity|]. split; [apply Hr|]. apply Z.eqb_refl.
  - apply is_i64_true in Hops. rewrite (new_correct M HM a Hops). cbn [bind].
    rewrite (neg_correct M HM _ (Hr a)).
    eexists. split; [reflexivity|]. split; [apply Hr|]. apply Z.eqb_eq.
    change (- (a mod M)) with (0 - a mod M). rewrite Zminus_mod_idemp_r. reflexivity.
  - apply is_i64_true in Hops. rewrite (new_correct M HM a Hops). cbn [bind].
    destruct (inv_general M HM _ (Hr a)) as (r & Hinv & Hrange & Hmul).
    exists r. split; [exact Hinv|]. split; [exact Hrange|].
    destruct (Z.gcd a M =? 1) eqn:Eg; [|reflexivity]. apply Z.eqb_eq in Eg. apply Z.eqb_eq.
    rewrite Z.gcd_mod, Z.gcd_comm, Eg in Hmul by lia.
    rewrite Z.mul_mod_idemp_r in Hmul by lia. rewrite Hmul. apply Z.mod_small. lia.
  - apply andb_prop in Hops. destruct Hops as [Ha Hd]. apply is_i64_true in Ha. apply is_u64_true in Hd.
    rewrite (new_correct M HM a Ha). cbn [bind].
    rewrite (pow_correct M _ d HM (Hr a) Hd).
    eexists. split; [reflexivity|]. split; [apply Hr|]. apply Z.eqb_eq.
    rewrite powmod_spec by lia. rewrite <- Zpower_mod by lia. reflexivity.
  - apply andb_prop in Hops. destruct Hops as [Ha Hb]. apply is_i64_true in Ha. apply is_i64_true in Hb.
    rewrite (new_correct M HM a Ha), (new_correct M HM b Hb). cbn [bind].
    destruct k; cbn [bin].
    + rewrite (add_correct M HM _ _ (Hr a) (Hr b)).
      eexists. split; [reflexivity|]. split; [apply Hr|]. apply Z.eqb_eq.
      rewrite <- Zplus_mod. reflexivity.
    + rewrite (sub_correct M HM _ _ (Hr a) (Hr b)).
      eexists. split; [reflexivity|]. split; [apply Hr|]. apply Z.eqb_eq.
      rewrite <- Zminus_mod. reflexivity.
    + rewrite (mul_correct M HM _ _ (Hr a) (Hr b)).
      eexists. split; [reflexivity|]. split; [apply Hr|]. apply Z.eqb_eq.
      rewrite <- Zmult_mod. reflexivity.
    + destruct (Z.gcd b M =? 1) eqn:Eg.
      * apply Z.eqb_eq in Eg.
        assert (Hg : Z.gcd (b mod M) M = 1) by (rewrite Z.gcd_mod, Z.gcd_comm by lia; exact Eg).
        destruct (div_correct M _ _ HM (Hr a) (Hr b) Hg) as (q & Hq & Hrange & Hmul).
        exists q. split; [exact Hq|]. split; [exact Hrange|]. apply Z.eqb_eq.
        rewrite (mul_correct M HM q _ Hrange (Hr b)) in Hmul. injection Hmul as Hmul.
        rewrite Z.mul_mod_idemp_r in Hmul by lia. exact Hmul.
      * destruct (div_general M _ _ HM (Hr a) (Hr b)) as (q & Hq & Hrange).
        exists q. split; [exact Hq|]. split; [exact Hrange|]. reflexivity.
Qed.

(** a case on which the implementation agrees with the model satisfies the numeric specification *)
Lemma model_implies_spec c : model_check c = true -> spec_num c = true.
Proof.
  destruct c as [M o r]. unfold model_check, spec_num.
  destruct (in_scope M o) eqn:Hs; [|reflexivity]. cbn [negb].
  destruct (is_eq o) eqn:He.
  - destruct o as [v|v|a|a|a d|k asg a b|a b]; try discriminate He.
    unfold in_scope in Hs.
    apply andb_prop in Hs. destruct Hs as [Hs Hops]. apply andb_prop in Hs. destruct Hs as [H1 H2].
    apply Z.leb_le in H1. apply Z.ltb_lt in H2. assert (HM : 2 <= M < 2 ^ 31) by lia.
    apply andb_prop in Hops. destruct Hops as [Ha Hb]. apply is_i64_true in Ha. apply is_i64_true in Hb.
    rewrite (new_correct M HM a Ha), (new_correct M HM b Hb). cbn [bind]. unfold eqb.
    destruct r; try discriminate. intros H. exact H.
  - destruct (run_spec M o Hs He) as (v & Hrun & Hrange & Hspec).
    intros H.
    assert (H' : match (v0 <- run M o ;; s <- render (inner v0) ;; Some (inner v0, s)), r with
                 | Some (v, s), Val i d g w => (v =? i) && String.eqb s d && String.eqb s g && String.eqb s w
                 | None, Panic => true
                 | _, _ => false
                 end = true).
    { destruct o; try exact H. cbn [is_eq] in He. discriminate He. }
    clear H. rewrite Hrun in H'. cbn [bind] in H'. unfold inner in H'.
    assert (HM31 : M < 2 ^ 31).
    { unfold in_scope in Hs. apply andb_prop in Hs. destruct Hs as [Hs _].
      apply andb_prop in Hs. destruct Hs as [_ H2]. apply Z.ltb_lt in H2. exact H2. }
    destruct (render_correct v ltac:(lia)) as (s0 & Hrender & _).
    destruct (render v) as [s|]; cbn [bind] in H'.
    + destruct r as [|i d g w|e1 e2]; try discriminate H'.
      apply andb_prop in H'. destruct H' as [H' _]. apply andb_prop in H'. destruct H' as [H' _].
      apply andb_prop in H'. destruct H' as [H' _]. apply Z.eqb_eq in H'. subst i.
      assert (G : (0 <=? v) && (v <? M) && spec_value M o v = true).
      { rewrite Hspec. replace (0 <=? v) with true by (symmetry; apply Z.leb_le; lia).
        replace (v <? M) with true by (symmetry; apply Z.ltb_lt; lia). reflexivity. }
      destruct o; try exact G. cbn [is_eq] in He. discriminate He.
    + discriminate Hrender.
Qed.

(** ... and the textual one: the three renderings are the canonical numeral of inner() *)
Lemma model_implies_text c : model_check c = true -> spec_text c = true.
Proof.
  destruct c as [M o r]. unfold model_check, spec_text.
  destruct (in_scope M o) eqn:Hs; [|reflexivity]. cbn [negb].
  destruct r as [|i d g w|e1 e2]; try reflexivity.
  intros H.
  destruct (is_eq o) eqn:He.
  { destruct o; try discriminate He.
    destruct (x <- new M a ;; y <- new M b ;; Some (eqb x y)); discriminate H. }
  assert (H' : match (v0 <- run M o ;; s <- render (inner v0) ;; Some (inner v0, s)) with
               | Some (v, s) => (v =? i) && String.eqb s d && String.eqb s g && String.eqb s w
               | None => false
               end = true).
  { destruct o; try exact H. cbn [is_eq] in He. discriminate He. }
  clear H.
  destruct (run_spec M o Hs He) as (v & Hrun & Hrange & _).
  rewrite Hrun in H'. cbn [bind] in H'. unfold inner in H'.
  assert (HM31 : M < 2 ^ 31).
  { unfold in_scope in Hs. apply andb_prop in Hs. destruct Hs as [Hs _].
    apply andb_prop in Hs. destruct Hs as [_ H2]. apply Z.ltb_lt in H2. exact H2. }
  destruct (render_canonical v ltac:(lia)) as (s & Hrender & Hcanon).
  rewrite Hrender in H'. cbn [bind] in H'.
  apply andb_prop in H'. destruct H' as [H' Hw]. apply andb_prop in H'. destruct H' as [H' Hg].
  apply andb_prop in H'. destruct H' as [Hi Hd].
  apply Z.eqb_eq in Hi. apply String.eqb_eq in Hd, Hg, Hw. subst i d g w.
  rewrite Hcanon, String.eqb_refl. reflexivity.
Qed.

Lemma model_implies_strict c : model_check c = true -> spec_strict c = true.
Proof.
  intros H. unfold spec_strict. rewrite (model_implies_spec c H), (model_implies_text c H). reflexivity.
Qed.
