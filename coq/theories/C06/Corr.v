(** C06 — correspondence cases: what the implementation returned on an input, compared with
    the model ([model_check]) and with the specification itself ([spec_check]: arithmetic in
    Z/M written with [Z.modulo], [Z.gcd], an MSB-first modular power and the standard library's
    decimal printer — nothing from Model.v). *)
From Coq Require Import ZArith List Bool String DecimalString.
From RlibV Require Import Common.Batch C06.Fixed C06.Model.
Import ListNotations.
Open Scope Z_scope.

Inductive binop := BAdd | BSub | BMul | BDiv.

(** operands of value type are i64 constructor arguments: [Modular::new] is the only public way
    to obtain a value; [assign] selects [x op= y] instead of [x op y] *)
Inductive op :=
| ONew (v : Z)
| ORead (v : Z)
| ONeg (a : Z)
| OInv (a : Z)
| OPow (a d : Z)
| OBin (k : binop) (assign : bool) (a b : Z)
| OEq (a b : Z).

(** what the executor printed: [Panic], or inner() with the three renderings, or the two
    results of [==] and [!(_ != _)] *)
Inductive obs :=
| Panic
| Val (inner : Z) (display debug written : string)
| Eq (e1 e2 : bool).

(** abbreviation used by the case printer when the three renderings are the same text *)
Definition ValS (inner : Z) (text : string) : obs := Val inner text text text.

Inductive case := C (M : Z) (o : op) (r : obs).

Definition bin (M : Z) (k : binop) : Z -> Z -> option Z :=
  match k with BAdd => add M | BSub => sub M | BMul => mul M | BDiv => div M end.

(** the value the model computes; the assigning forms are [*self = *self op rhs] *)
Definition run (M : Z) (o : op) : option Z :=
  match o with
  | ONew v => new M v
  | ORead v => read M v
  | ONeg a => x <- new M a ;; neg M x
  | OInv a => x <- new M a ;; inv M x
  | OPow a d => x <- new M a ;; pow M x d
  | OBin k _ a b => x <- new M a ;; y <- new M b ;; bin M k x y
  | OEq _ _ => None
  end.

Definition model_check (c : case) : bool :=
  let '(C M o r) := c in
  match o with
  | OEq a b =>
      match (x <- new M a ;; y <- new M b ;; Some (eqb x y)), r with
      | Some e, Eq e1 e2 => Bool.eqb e e1 && Bool.eqb e e2
      | None, Panic => true
      | _, _ => false
      end
  | _ =>
      match (v <- run M o ;; s <- render (inner v) ;; Some (inner v, s)), r with
      | Some (v, s), Val i d g w => (v =? i) && String.eqb s d && String.eqb s g && String.eqb s w
      | None, Panic => true
      | _, _ => false
      end
  end.

(** ---- specification side ---- *)

(** b^e mod m, most significant bit first *)
Fixpoint powmod_pos (b : Z) (e : positive) (m : Z) : Z :=
  match e with
  | xH => b mod m
  | xO e' => let t := powmod_pos b e' m in (t * t) mod m
  | xI e' => let t := powmod_pos b e' m in ((t * t) mod m * b) mod m
  end.
Definition powmod (b e m : Z) : Z :=
  match e with Z0 => 1 mod m | Zpos p => powmod_pos b p m | Zneg _ => 0 end.

Definition decimal (v : Z) : string := NilZero.string_of_uint (N.to_uint (Z.to_N v)).

(** value of a decimal text (most significant digit first), used to state that printing is canonical *)
Fixpoint slen (s : string) : Z := match s with EmptyString => 0 | String _ s' => 1 + slen s' end.
Fixpoint sval (s : string) : Z :=
  match s with
  | EmptyString => 0
  | String c s' => (Z.of_N (Ascii.N_of_ascii c) - 48) * 10 ^ slen s' + sval s'
  end.

(** [s] is the canonical decimal numeral of [i]: non-empty, digits only, no leading zero
    (except "0" itself), and its value is [i] *)
Definition is_digit (c : Ascii.ascii) : bool :=
  let n := Z.of_N (Ascii.N_of_ascii c) in (48 <=? n) && (n <=? 57).
Fixpoint all_digits (s : string) : bool :=
  match s with EmptyString => true | String c s' => is_digit c && all_digits s' end.
Definition canon_dec (i : Z) (s : string) : bool :=
  match s with
  | EmptyString => false
  | String c s' =>
      all_digits s
      && (negb (Z.of_N (Ascii.N_of_ascii c) =? 48) || match s' with EmptyString => true | _ => false end)
      && (sval s =? i)
  end.

Definition is_i64 (v : Z) : bool := (- 2 ^ 63 <=? v) && (v <? 2 ^ 63).
Definition is_u64 (v : Z) : bool := (0 <=? v) && (v <? 2 ^ 64).

(** the operands are inside the property's quantifier *)
Definition in_scope (M : Z) (o : op) : bool :=
  (2 <=? M) && (M <? 2 ^ 31) &&
  match o with
  | ONew v | ORead v | ONeg v | OInv v => is_i64 v
  | OPow a d => is_i64 a && is_u64 d
  | OBin _ _ a b | OEq a b => is_i64 a && is_i64 b
  end.

(** The property decided on the observation.  For a non-unit the value of [inv]/[/] is not
    specified (only that it is a canonical representative). *)
Definition spec_value (M : Z) (o : op) (i : Z) : bool :=
  match o with
  | ONew v | ORead v => i =? v mod M
  | ONeg a => i =? (- a) mod M
  | OInv a => if Z.gcd a M =? 1 then (i * a) mod M =? 1 else true
  | OPow a d => i =? powmod a d M
  | OBin BAdd _ a b => i =? (a + b) mod M
  | OBin BSub _ a b => i =? (a - b) mod M
  | OBin BMul _ a b => i =? (a * b) mod M
  | OBin BDiv _ a b => if Z.gcd b M =? 1 then (i * b) mod M =? a mod M else true
  | OEq _ _ => false
  end.

(** numeric part: canonical range and the ring/field equation *)
Definition spec_num (c : case) : bool :=
  let '(C M o r) := c in
  if negb (in_scope M o) then true else
  match o, r with
  | _, Panic => false
  | OEq a b, Eq e1 e2 => let e := (a mod M =? b mod M) in Bool.eqb e e1 && Bool.eqb e e2
  | OEq _ _, _ => false
  | _, Eq _ _ => false
  | _, Val i _ _ _ => (0 <=? i) && (i <? M) && spec_value M o i
  end.

(** textual part: Display, Debug and Writable all print the decimal form of inner() *)
Definition spec_text (c : case) : bool :=
  let '(C M o r) := c in
  if negb (in_scope M o) then true else
  match r with
  | Val i d g w => canon_dec i d && String.eqb d g && String.eqb d w
  | _ => true
  end.

(** the same judged with the standard library's decimal printer (kept as a cross-check of
    [canon_dec]; evaluated on every case by [spec_check]) *)
Definition spec_text_stdlib (c : case) : bool :=
  let '(C M o r) := c in
  if negb (in_scope M o) then true else
  match r with
  | Val i d g w => String.eqb (decimal i) d && String.eqb (decimal i) g && String.eqb (decimal i) w
  | _ => true
  end.

Definition spec_strict (c : case) : bool := spec_num c && spec_text c.
Definition spec_check (c : case) : bool := spec_strict c && spec_text_stdlib c.

(** what the model computes on the input of a case (for replay files) *)
Definition explain (c : case) : option Z * option bool :=
  let '(C M o r) := c in
  match o with
  | OEq a b => (None, x <- new M a ;; y <- new M b ;; Some (eqb x y))
  | _ => (run M o, None)
  end.
