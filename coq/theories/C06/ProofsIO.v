(** C06 — output: the digit loop never runs out of its 10-byte buffer for a u32 and the text it
    produces denotes the value (so equal texts <-> equal representatives). *)
From Coq Require Import ZArith Lia Bool String Ascii.
From RlibV Require Import C06.Fixed C06.Model C06.Corr.
Open Scope Z_scope.

Lemma slen_nonneg s : 0 <= slen s.
Proof. induction s as [|c s IH]; cbn [slen]; lia. Qed.

Lemma digit_val d : 0 <= d < 10 -> Z.of_N (N_of_ascii (digit d)) - 48 = d.
Proof.
  intros Hd. unfold digit. rewrite N_ascii_embedding.
  - rewrite Z2N.id by lia. lia.
  - apply N2Z.inj_lt. rewrite Z2N.id by lia. change (Z.of_N 256) with 256. lia.
Qed.

Lemma render_loop_spec room : forall v acc, 0 <= v < 10 ^ Z.of_nat room ->
  exists s, render_loop room v acc = Some s /\ sval s = v * 10 ^ slen acc + sval acc.
Proof.
  induction room as [|room IH]; intros v acc Hv.
  - cbn in Hv. assert (v = 0) by lia. subst v. cbn [render_loop Z.eqb].
    exists acc. split; [reflexivity|]. lia.
  - cbn [render_loop]. destruct (v =? 0) eqn:E.
    + apply Z.eqb_eq in E. subst v. exists acc. split; [reflexivity|]. lia.
    + apply Z.eqb_neq in E.
      rewrite Z.quot_div_nonneg, Z.rem_mod_nonneg by lia.
      pose proof (Z.div_mod v 10 ltac:(lia)) as Hdm.
      pose proof (Z.mod_pos_bound v 10 ltac:(lia)) as Hmb.
      rewrite Nat2Z.inj_succ, Z.pow_succ_r in Hv by lia.
      assert (Hq : 0 <= v / 10 < 10 ^ Z.of_nat room).
      { split; [apply Z.div_pos; lia|]. apply Z.div_lt_upper_bound; lia. }
      destruct (IH (v / 10) (String (digit (v mod 10)) acc) Hq) as (s & Hs & Hval).
      exists s. split; [exact Hs|]. rewrite Hval. cbn [sval slen].
      rewrite digit_val by lia.
      pose proof (slen_nonneg acc) as Hl.
      rewrite Z.pow_add_r, Z.pow_1_r by lia.
      rewrite Hdm at 3. ring.
Qed.

Lemma render_correct v : 0 <= v < 2 ^ 32 -> exists s, render v = Some s /\ sval s = v.
Proof.
  intros Hv. unfold render. destruct (v =? 0) eqn:E.
  - apply Z.eqb_eq in E. subst v. exists "0"%string. split; reflexivity.
  - destruct (render_loop_spec 10 v EmptyString) as (s & Hs & Hval).
    + split; [lia|]. apply Z.lt_trans with (2 ^ 32); [lia|]. reflexivity.
    + exists s. split; [exact Hs|]. rewrite Hval. cbn [slen sval]. lia.
Qed.

Lemma render_injective x y s : 0 <= x < 2 ^ 32 -> 0 <= y < 2 ^ 32 ->
  render x = Some s -> render y = Some s -> x = y.
Proof.
  intros Hx Hy Ex Ey.
  destruct (render_correct x Hx) as (sx & Hsx & Vx). destruct (render_correct y Hy) as (sy & Hsy & Vy).
  rewrite Ex in Hsx. rewrite Ey in Hsy. injection Hsx as <-. injection Hsy as <-. lia.
Qed.

(** ---- the text is the canonical numeral: digits only, no leading zero ---- *)
Lemma digit_code d : 0 <= d < 10 -> Z.of_N (N_of_ascii (digit d)) = 48 + d.
Proof. intros Hd. pose proof (digit_val d Hd). lia. Qed.

Lemma digit_is_digit d : 0 <= d < 10 -> is_digit (digit d) = true.
Proof.
  intros Hd. unfold is_digit. rewrite digit_code by exact Hd.
  apply andb_true_intro. split; [apply Z.leb_le|apply Z.leb_le]; lia.
Qed.

Definition head_nonzero (s : string) : Prop :=
  match s with EmptyString => False | String c _ => Z.of_N (N_of_ascii c) <> 48 end.

Lemma render_loop_shape room : forall v acc s, 0 <= v -> all_digits acc = true ->
  render_loop room v acc = Some s ->
  all_digits s = true /\ (v <> 0 -> head_nonzero s).
Proof.
  induction room as [|room IH]; intros v acc s Hv Hacc Hs; cbn [render_loop] in Hs.
  - destruct (v =? 0) eqn:E; [|discriminate Hs]. apply Z.eqb_eq in E. injection Hs as <-.
    split; [exact Hacc|]. intros Hne. contradiction.
  - destruct (v =? 0) eqn:E.
    + apply Z.eqb_eq in E. injection Hs as <-. split; [exact Hacc|]. intros Hne. contradiction.
    + apply Z.eqb_neq in E.
      rewrite Z.quot_div_nonneg, Z.rem_mod_nonneg in Hs by lia.
      pose proof (Z.mod_pos_bound v 10 ltac:(lia)) as Hmb.
      assert (Hq : 0 <= v / 10) by (apply Z.div_pos; lia).
      assert (Hacc' : all_digits (String (digit (v mod 10)) acc) = true).
      { cbn [all_digits]. rewrite digit_is_digit by lia. exact Hacc. }
      destruct (IH (v / 10) _ s Hq Hacc' Hs) as [Hall Hhead].
      split; [exact Hall|]. intros _.
      destruct (Z.eq_dec (v / 10) 0) as [Hz|Hnz]; [|exact (Hhead Hnz)].
      (* most significant digit: v < 10, so the digit is v itself, which is not 0 *)
      rewrite Hz in Hs. destruct room; cbn [render_loop Z.eqb] in Hs; injection Hs as <-;
        cbn [head_nonzero]; rewrite digit_code by lia;
        pose proof (Z.div_mod v 10 ltac:(lia)); lia.
Qed.

Lemma render_canonical v : 0 <= v < 2 ^ 32 -> exists s, render v = Some s /\ canon_dec v s = true.
Proof.
  intros Hv. destruct (render_correct v Hv) as (s & Hs & Hval). exists s. split; [exact Hs|].
  unfold render in Hs. destruct (v =? 0) eqn:E.
  - apply Z.eqb_eq in E. subst v. injection Hs as <-. reflexivity.
  - apply Z.eqb_neq in E.
    destruct (render_loop_shape 10 v EmptyString s ltac:(lia) eq_refl Hs) as [Hall Hhead].
    specialize (Hhead E). destruct s as [|c s']; [contradiction|]. cbn [head_nonzero] in Hhead.
    unfold canon_dec. rewrite Hall. rewrite Hval, Z.eqb_refl.
    replace (Z.of_N (N_of_ascii c) =? 48) with false by (symmetry; apply Z.eqb_neq; exact Hhead).
    reflexivity.
Qed.
