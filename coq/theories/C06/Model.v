(** C06 — executable model of rlib/mint/src/lib.rs ([Modular<M>]).

    The modulus [M] (a [u32] const generic) is a parameter of every function.
    A value of type [Modular<M>] is modelled by its field [v : u32], a [Z].
    Every function returns [option]: [None] = some arithmetic step left its
    Rust type (panic in a debug build, wrapped value in a release build) or a
    loop ran out of fuel; the theorems say [Some] of the mathematical value.
    Definitions only; proofs are in Proofs*.v. *)
From Coq Require Import ZArith Bool String Ascii List.
From RlibV Require Import Common.Iter C06.Fixed.
Import ListNotations.
Open Scope Z_scope.

Section Mint.
Variable M : Z.   (* const M: u32 *)

(** pub fn new(v: i64):
      let mut v = (v % M as i64) as i32;  if v < 0 { v += M as i32; }  Self { v: v as u32 } *)
Definition new (v : Z) : option Z :=
  r <- rem_s 64 v M ;;                       (* M as i64 is lossless (u32 -> i64) *)
  let v1 := wrap_s 32 r in                   (* as i32 *)
  v2 <- (if v1 <? 0 then chk_s 32 (v1 + wrap_s 32 M) else Some v1) ;;
  Some (wrap_u 32 v2).                       (* as u32 *)

(** fn add: let mut v = self.v + rhs.v; if v >= M { v -= M; } *)
Definition add (x y : Z) : option Z :=
  s <- chk_u 32 (x + y) ;;
  if s >=? M then chk_u 32 (s - M) else Some s.

(** fn sub: let mut v = self.v + Self::md() - rhs.v; if v >= M { v -= M; } *)
Definition sub (x y : Z) : option Z :=
  t <- chk_u 32 (x + M) ;;
  u <- chk_u 32 (t - y) ;;
  if u >=? M then chk_u 32 (u - M) else Some u.

(** fn mul: Self::new(self.v as i64 * rhs.v as i64) *)
Definition mul (x y : Z) : option Z :=
  p <- chk_s 64 (x * y) ;;
  new p.

(** fn neg: if self.v == 0 { self } else { Self { v: Self::md() - self.v } } *)
Definition neg (x : Z) : option Z :=
  if x =? 0 then Some x else chk_u 32 (M - x).

(** fn pow(&self, mut d: u64): res = ONE; a = *self;
      while d != 0 { if d % 2 == 1 { res *= a; } a *= a; d /= 2; } res *)
Definition pow_step (s : Z * Z * Z) : (Z * Z * Z) + option Z :=
  let '(res, a, d) := s in
  if d =? 0 then inr (Some res) else
  match (if Z.rem d 2 =? 1 then mul res a else Some res) with
  | None => inr None
  | Some res' =>
      match mul a a with
      | None => inr None
      | Some a' => inl (res', a', Z.quot d 2)
      end
  end.
Definition pow_loop (fuel : positive) (x d : Z) := iter_pos pow_step fuel (1, x, d).
Definition pow (x d : Z) : option Z :=
  match pow_loop big_fuel x d with inr r => r | inl _ => None end.

(** fn inv: a = self.v as i32; b = M as i32; x = 0; y = 1   (all i32)
      while a != 0 { let k = b / a; b -= k * a; x -= k * y; swap(a, b); swap(x, y); }
      Self::new(x as i64) *)
Definition inv_step (s : Z * Z * Z * Z) : (Z * Z * Z * Z) + option Z :=
  let '(a, b, x, y) := s in
  if a =? 0 then inr (Some x) else
  match (k <- div_s 32 b a ;;
         ka <- chk_s 32 (k * a) ;;
         b' <- chk_s 32 (b - ka) ;;
         ky <- chk_s 32 (k * y) ;;
         x' <- chk_s 32 (x - ky) ;;
         Some (b', a, y, x')) with
  | None => inr None
  | Some s' => inl s'
  end.
Definition inv_loop (fuel : positive) (v : Z) :=
  iter_pos inv_step fuel (wrap_s 32 v, wrap_s 32 M, 0, 1).
Definition inv (v : Z) : option Z :=
  match inv_loop big_fuel v with
  | inr (Some x) => new x                    (* x as i64 is lossless *)
  | _ => None
  end.

(** fn div: self * rhs.inv() *)
Definition div (x y : Z) : option Z :=
  i <- inv y ;;
  mul x i.

(** PartialEq is derived: compares the field *)
Definition eqb (x y : Z) : bool := x =? y.

(** fn inner *)
Definition inner (x : Z) : Z := x.

(** Readable: Self::new(reader.read())  — the i64 parser itself belongs to C08 *)
Definition read (parsed : Z) : option Z := new parsed.
End Mint.

(** Writable for u32 (rlib/io/src/writer.rs, [write_unsigned]), which Display/Debug/Writable of
    [Modular] delegate to ([self.v.fmt(f)], [self.v.write(writer)]):
      if self == 0 { '0' } else { while value != 0 { buf[--index] = value % 10 + b'0'; value /= 10 } }
    The buffer has BASE_10_LEN = 10 bytes for u32; running out of it is the out-of-bounds panic. *)
Definition digit (d : Z) : ascii := ascii_of_N (Z.to_N (48 + d)).
Fixpoint render_loop (room : nat) (value : Z) (acc : string) : option string :=
  if value =? 0 then Some acc else
  match room with
  | O => None
  | S room' => render_loop room' (Z.quot value 10) (String (digit (Z.rem value 10)) acc)
  end.
Definition render (v : Z) : option string :=
  if v =? 0 then Some "0"%string else render_loop 10 v EmptyString.
