(** C02 — the search theorems in their final form, from [lower_bound_correct] /
    [lower_bound_rev_correct] (coq/theories/C01/ProofsTree.v). *)
From Coq Require Import List Arith Lia Bool.
From RlibV Require Import C01.Model C01.Spec C01.Laws C01.ProofsCore C01.ProofsBound C01.ProofsTree.
Import ListNotations.

Section Search.
Context {T M V : Type}.
Variable merge : T -> T -> T.
Variable update : T -> T -> T -> T.
Variable modify : T -> M -> T.
Variable push : T -> T -> T -> T * T * T.
Variable obs : T -> V.
Variable vmerge : V -> V -> V.
Variable act : M -> V -> V.
Variable Pending : T -> list M -> Prop.
Hypothesis LAW : lawful merge update modify push obs vmerge act Pending.
Variable dflt : T.
Variable f : T -> bool.
Variable g : V -> bool.
Hypothesis Hfg : forall x : T, f x = g (obs x).
Local Notation RepT := (RepT obs vmerge act Pending).
Local Notation range := (range vmerge (obs dflt)).

Theorem lower_bound_spec (t : tree T) (vs : list V) (l : nat) :
  RepT t vs -> l < tn t ->
  (forall k, l <= k -> k < tn t -> vmerge (obs dflt) (range vs l k) = range vs l k) ->
  (forall j k, l <= j -> j <= k -> k < tn t -> g (range vs l j) = true -> g (range vs l k) = true) ->
  exists t' res tr, lower_bound merge push dflt t l f = Some (t', res, tr) /\ tn t' = tn t /\ RepT t' vs /\
    match res with
    | Some r => l <= r /\ r < tn t /\ g (range vs l r) = true /\
                (forall j, l <= j -> j < r -> g (range vs l j) = false)
    | None => forall j, l <= j -> j < tn t -> g (range vs l j) = false
    end.
Proof.
  intros HR Hl Hid Hmono.
  destruct (lower_bound_correct _ _ _ _ _ _ _ _ LAW dflt f g Hfg t vs l HR Hl Hid)
    as (t' & res & tr & E & Hn & HR' & _ & Hres & Hmin).
  exists t', res, tr. split; [exact E|]. split; [exact Hn|]. split; [exact HR'|].
  specialize (Hmin Hmono). destruct res as [r|].
  - destruct Hres as (? & ? & ?). auto.
  - exact Hmin.
Qed.

Theorem lower_bound_trace (t : tree T) (vs : list V) (l : nat) :
  RepT t vs -> l < tn t ->
  (forall k, l <= k -> k < tn t -> vmerge (obs dflt) (range vs l k) = range vs l k) ->
  exists t' res tr, lower_bound merge push dflt t l f = Some (t', res, tr) /\ RepT t' vs /\
    (forall x, In x tr -> exists k, l <= k /\ k < tn t /\ obs x = range vs l k).
Proof.
  intros HR Hl Hid.
  destruct (lower_bound_correct _ _ _ _ _ _ _ _ LAW dflt f g Hfg t vs l HR Hl Hid)
    as (t' & res & tr & E & Hn & HR' & Htr & _).
  exists t', res, tr. auto.
Qed.

Theorem lower_bound_rev_spec (t : tree T) (vs : list V) (r : nat) :
  RepT t vs -> r < tn t ->
  (forall k, k <= r -> vmerge (range vs k r) (obs dflt) = range vs k r) ->
  (forall j k, j <= k -> k <= r -> g (range vs k r) = true -> g (range vs j r) = true) ->
  exists t' res tr, lower_bound_rev merge push dflt t r f = Some (t', res, tr) /\ tn t' = tn t /\ RepT t' vs /\
    match res with
    | Some l => l <= r /\ g (range vs l r) = true /\
                (forall j, l < j -> j <= r -> g (range vs j r) = false)
    | None => forall j, j <= r -> g (range vs j r) = false
    end.
Proof.
  intros HR Hr Hid Hmono.
  destruct (lower_bound_rev_correct _ _ _ _ _ _ _ _ LAW dflt f g Hfg t vs r HR Hr Hid)
    as (t' & res & tr & E & Hn & HR' & _ & Hres & Hmin).
  exists t', res, tr. split; [exact E|]. split; [exact Hn|]. split; [exact HR'|].
  specialize (Hmin Hmono). destruct res as [l|].
  - destruct Hres as (? & ?). auto.
  - exact Hmin.
Qed.

Theorem lower_bound_rev_trace (t : tree T) (vs : list V) (r : nat) :
  RepT t vs -> r < tn t ->
  (forall k, k <= r -> vmerge (range vs k r) (obs dflt) = range vs k r) ->
  exists t' res tr, lower_bound_rev merge push dflt t r f = Some (t', res, tr) /\ RepT t' vs /\
    (forall x, In x tr -> exists k, k <= r /\ obs x = range vs k r).
Proof.
  intros HR Hr Hid.
  destruct (lower_bound_rev_correct _ _ _ _ _ _ _ _ LAW dflt f g Hfg t vs r HR Hr Hid)
    as (t' & res & tr & E & Hn & HR' & Htr & _).
  exists t', res, tr. auto.
Qed.
End Search.
