(** C02 — correspondence cases: the same histories and the same tree model as C01
    (coq/theories/C01), generated with many more boundary searches.
    [model_check]: the model reproduces every observation, in particular every search
                   result and the exact list of arguments the closure received.
    [spec_check]:  for every search whose candidates satisfy the identity law of
                   [default]: each argument shown to the closure is the in-order merge of
                   some range [l..k] (resp. [k..r]) of the plain array, and — when the
                   predicate is monotone along those ranges — the returned index is the
                   first candidate satisfying it ([None] iff there is none). *)
From Coq Require Import ZArith List Bool.
From RlibV Require Import C01.Model C01.Items C01.Spec C01.Corr.
Import ListNotations.

Definition case := C01.Corr.case.
Definition model_check (c : case) : bool := C01.Corr.model_check c.
Definition spec_check (c : case) : bool := spec_check_gen false true c.
Definition explain (c : case) := C01.Corr.explain c.
