(** C02 — non-vacuity: the hypotheses of the search theorems (identity law of [default] on
    the candidate merges, monotone predicate) hold on a concrete MinAdd array, and the
    theorems then pin the answer down. *)
From Coq Require Import ZArith List Bool Arith Lia.
From RlibV Require Import C01.Model C01.Items C01.Spec C01.Laws C01.Corr
  C01.ProofsCore C01.ProofsTree C01.ProofsItems C01.ProofsTop C01.Properties C02.Corr C02.Properties.
Import ListNotations.
Local Open Scope nat_scope.

Definition vs5 : list Z := [5; 7; 11; 2; 9]%Z.
Definition g4 (v : Z) : bool := (v <=? 4)%Z.
Definition dflt_minadd : vadd := VA i64_max 0.
Local Notation rg := (range min_merge (va_v dflt_minadd) vs5).
Local Notation RepM := (RepT va_v min_merge add_act va_pending).

Example ex_identity_fwd : forall k, 1 <= k -> k < 5 -> min_merge (va_v dflt_minadd) (rg 1 k) = rg 1 k.
Proof. intros k H1 H2. destruct k as [|[|[|[|[|k]]]]]; try lia; reflexivity. Qed.
Example ex_monotone_fwd : forall j k, 1 <= j -> j <= k -> k < 5 -> g4 (rg 1 j) = true -> g4 (rg 1 k) = true.
Proof.
  intros j k H1 H2 H3. destruct j as [|[|[|[|[|j]]]]]; try lia; destruct k as [|[|[|[|[|k]]]]]; try lia; vm_compute; auto.
Qed.

(** whatever lazy tags the tree holds: lower_bound(1, v <= 4) = Some 3 *)
Example ex_lower_bound_applies : forall t, RepM t vs5 -> tn t = 5 ->
  exists t' tr, lower_bound minadd_merge va_push dflt_minadd t 1 (fun x => g4 (va_v x)) = Some (t', Some 3, tr) /\ RepM t' vs5.
Proof.
  intros t HR Hn.
  destruct (c02_lower_bound_spec _ _ _ _ _ _ _ _ _ _ _ c01_minadd_lawful dflt_minadd (fun x => g4 (va_v x)) g4
              (fun x => eq_refl) t vs5 1 HR) as (t' & res & tr & E & _ & HR' & Hres).
  - lia.
  - intros k ? ?. apply ex_identity_fwd; lia.
  - intros j k ? ? ?. apply ex_monotone_fwd; lia.
  - assert (Hr : res = Some 3); [|subst res; exists t', tr; split; [exact E|exact HR']].
    destruct res as [r|].
    + destruct Hres as (H1 & H2 & H3 & H4). rewrite Hn in H2.
      destruct r as [|[|[|[|[|r]]]]]; try lia; try (vm_compute in H3; discriminate); [reflexivity|].
      specialize (H4 3). vm_compute in H4. assert (1 <= 3) as A by lia. assert (3 < 4) as B by lia.
      specialize (H4 A B). discriminate.
    + specialize (Hres 3). rewrite Hn in Hres. assert (1 <= 3) as A by lia. assert (3 < 5) as B by lia.
      specialize (Hres A B). vm_compute in Hres. discriminate.
Qed.

Example ex_identity_rev : forall k, k <= 4 -> min_merge (rg k 4) (va_v dflt_minadd) = rg k 4.
Proof. intros k H. destruct k as [|[|[|[|[|k]]]]]; try lia; reflexivity. Qed.
Definition g8 (v : Z) : bool := (v <=? 8)%Z.
Example ex_monotone_rev : forall j k, j <= k -> k <= 4 -> g8 (rg k 4) = true -> g8 (rg j 4) = true.
Proof.
  intros j k H1 H2. destruct j as [|[|[|[|[|j]]]]]; try lia; destruct k as [|[|[|[|[|k]]]]]; try lia; vm_compute; auto.
Qed.
(** lower_bound_rev(4, v <= 8) = Some 3: [4..4] merges to 9, [3..4] to 2 *)
Example ex_lower_bound_rev_applies : forall t, RepM t vs5 -> tn t = 5 ->
  exists t' tr, lower_bound_rev minadd_merge va_push dflt_minadd t 4 (fun x => g8 (va_v x)) = Some (t', Some 3, tr) /\ RepM t' vs5.
Proof.
  intros t HR Hn.
  destruct (c02_lower_bound_rev_spec _ _ _ _ _ _ _ _ _ _ _ c01_minadd_lawful dflt_minadd (fun x => g8 (va_v x)) g8
              (fun x => eq_refl) t vs5 4 HR) as (t' & res & tr & E & _ & HR' & Hres).
  - lia.
  - intros k ?. apply ex_identity_rev; lia.
  - intros j k ? ?. apply ex_monotone_rev; lia.
  - assert (Hr : res = Some 3); [|subst res; exists t', tr; split; [exact E|exact HR']].
    destruct res as [l|].
    + destruct Hres as (H1 & H3 & H4).
      destruct l as [|[|[|[|[|l]]]]]; try lia; try (vm_compute in H3; discriminate); try reflexivity;
        specialize (H4 3); vm_compute in H4; assert (3 <= 4) as B by lia.
      * assert (0 < 3) as A by lia. specialize (H4 A B). discriminate.
      * assert (1 < 3) as A by lia. specialize (H4 A B). discriminate.
      * assert (2 < 3) as A by lia. specialize (H4 A B). discriminate.
    + specialize (Hres 3). assert (3 <= 4) as B by lia. specialize (Hres B). vm_compute in Hres. discriminate.
Qed.

(** such trees exist (c01_build_correct), so nothing above is vacuous *)
Example ex_tree_exists : exists t, RepM t vs5 /\ tn t = 5.
Proof.
  destruct (c01_build_correct _ _ _ _ _ _ _ _ _ _ _ c01_minadd_lawful dflt_minadd) as (_ & _ & H).
  destruct (H [VA 5 0; VA 7 0; VA 11 0; VA 2 0; VA 9 0]) as (t & _ & Hn & HR); [discriminate|].
  exists t. split; [exact HR|exact Hn].
Qed.

(** a lazy item whose modifier type is zero-sized (Flip, M = unit): the flip of modify(0,3) is still pending at the
    root when the searches start; both must push it on the way down.  The observation below (what the real code
    returns) passes model_check and spec_check; the observation of a search that skipped the push (result None,
    closure shown the stale children (0,2)) fails both. *)
Definition ex_fl_ops : list (op flip unit pred) :=
  [ONew 4 (fl_new 0); OModify 0 3 tt; OLowerBound 0 (PFst (PGe 1%Z))].
Example ex_flip_pending_ok :
  let c := CFlip (ex_fl_ops, [OUnit; OUnit; OBound (Some 0) [FL 4 4 false; FL 2 2 false; FL 1 1 false]]) in
  C02.Corr.model_check c = true /\ C02.Corr.spec_check c = true.
Proof. vm_compute. split; reflexivity. Qed.
Example ex_flip_pending_skipped_push :
  let c := CFlip (ex_fl_ops, [OUnit; OUnit; OBound None [FL 4 4 false; FL 0 2 false; FL 0 2 false]]) in
  C02.Corr.model_check c = false /\ C02.Corr.spec_check c = false.
Proof. vm_compute. split; reflexivity. Qed.
