(** C07 — executable model of rlib/rational/src/lib.rs (Rational<T>).

    Integers are unbounded [Z] (the property restricts itself to magnitudes for
    which nothing overflows; [c07_fits_2_30] shows that |.| <= 2^30 is such a
    box for i64).  Rust's [/] on signed integers is [Z.quot].  [None] models a
    panic (division by zero in [norm] after gcd(0,0) = 0, or in floor/ceil of a
    hand-built x/0).  The gcd is C11's model of rlib_gcd::gcd.
    Definitions only; proofs are in Proofs*.v. *)
From Coq Require Import ZArith List String DecimalString.
From RlibV Require Import Common.Iter C11.Model.
Import ListNotations.
Open Scope Z_scope.

(** struct Rational<T> { a, b }  — public fields, derived Eq/Hash (structural) *)
Record rat := Rat { ra : Z; rb : Z }.

(** fn norm(&mut self): g = gcd(a, b); a /= g; b /= g; if b < 0 { b = -b; a = -a } *)
Definition norm (r : rat) : option rat :=
  match gcd (ra r) (rb r) with
  | None => None                                  (* out of fuel: excluded by every theorem *)
  | Some g =>
      if g =? 0 then None                         (* a /= 0 panics *)
      else
        let a := Z.quot (ra r) g in
        let b := Z.quot (rb r) g in
        if b <? 0 then Some (Rat (- a) (- b)) else Some (Rat a b)
  end.

Definition new (a b : Z) : option rat := norm (Rat a b).
Definition new_int (a : Z) : rat := Rat a 1.

(** Add/Sub/Mul/Div<&Self>: cross products, then [new].  The by-value forms
    (impl_copy_op) and the assigning forms ([self] is overwritten with [self.clone() op rhs]) forward
    to these, so they share the model function. *)
Definition add (x y : rat) : option rat := new (ra x * rb y + rb x * ra y) (rb x * rb y).
Definition sub (x y : rat) : option rat := new (ra x * rb y - rb x * ra y) (rb x * rb y).
Definition mul (x y : rat) : option rat := new (ra x * ra y) (rb x * rb y).
Definition div (x y : rat) : option rat := new (ra x * rb y) (rb x * ra y).

(** Neg: Self { a: -self.a, b: self.b } — no renormalisation *)
Definition neg (x : rat) : rat := Rat (- ra x) (rb x).

(** Ord::cmp: (self.clone() - rhs).a.cmp(&0) *)
Definition cmp (x y : rat) : option comparison :=
  match sub x y with
  | None => None
  | Some d => Some (ra d ?= 0)
  end.

(** derived PartialEq: field-wise *)
Definition eqb (x y : rat) : bool := (ra x =? ra y) && (rb x =? rb y).

(** floor / ceil: truncating division adjusted by the sign of the numerator; panics if b = 0 *)
Definition floor (x : rat) : option rat :=
  if rb x =? 0 then None
  else if ra x >=? 0 then Some (Rat (Z.quot (ra x) (rb x)) 1)
  else Some (Rat (Z.quot (ra x - rb x + 1) (rb x)) 1).

Definition ceil (x : rat) : option rat :=
  if rb x =? 0 then None
  else if ra x >=? 0 then Some (Rat (Z.quot (ra x + rb x - 1) (rb x)) 1)
  else Some (Rat (Z.quot (ra x) (rb x)) 1).

(** Display: write!(f, "{}/{}", a, b) *)
Definition dec (z : Z) : string := NilZero.string_of_int (Z.to_int z).
Definition display (x : rat) : string := (dec (ra x) ++ "/" ++ dec (rb x))%string.
