(** C07 — the cases for which [model_check -> spec_check] is proved: inputs of
    magnitude below 2^32 (far inside the model's fuel; the property's box is 2^30).
    Definitions only. *)
From Coq Require Import ZArith.
From RlibV Require Import C07.Model C07.Corr.
Open Scope Z_scope.

Definition in_scope (c : case) : Prop :=
  let '(Case _ _ a b c d _) := c in
  Z.abs a < 2 ^ 32 /\ Z.abs b < 2 ^ 32 /\ Z.abs c < 2 ^ 32 /\ Z.abs d < 2 ^ 32.
