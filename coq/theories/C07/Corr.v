(** C07 — correspondence cases.  One case = an operator of Rational<T>, the
    operator form used by the executor (by value / by reference / assigning —
    all forward to one impl, so they share the model function), the integer
    inputs a b c d (x = Rational::new(a, b), y = Rational::new(c, d)) and what
    the implementation returned.  The executor may build an operand of the same
    VALUE by another route (new_int(a) / ZERO / ONE for b = 1, a struct literal
    a/b with b > 0, the result of a history of earlier operations whose canonical
    fields are a b): the prediction is the same, because every operator result is
    the canonical form of the exact value ([c07_unreduced_same], [c07_canonical_eq]).  [model_check]: observation = model.
    [spec_check]: the observation satisfies the property, decided by exact
    integer arithmetic on the inputs (cross-multiplication, [Z.gcd]) — it never
    calls the model's arithmetic. *)
From Coq Require Import ZArith List Bool String.
From RlibV Require Import Common.Batch C11.Model C07.Model.
Import ListNotations.
Open Scope Z_scope.

Inductive form := FVal | FRef | FAsgVal | FAsgRef | FNone
  | FAll.   (* the executor ran all four forms and they returned the same fields *)
Inductive opk := ONew | ONewInt | OAdd | OSub | OMul | ODiv | ONeg | OCmp | OEqHash | OFloor | OCeil | OShow.

(** what the Rust side printed *)
Inductive obs :=
| RPanic
| RRat (a b : Z)                   (* fields of the resulting struct *)
| RCmp (c pc : comparison)         (* Ord::cmp, PartialOrd::partial_cmp (always Some) *)
| REq (eq heq : bool)              (* x == y,  hash(x) == hash(y) under a fixed-key hasher *)
| RStr (s : string)                (* format!("{}", x) *)
| RBad (s : string).               (* the executor's own consistency checks failed (value != Rational::new of its fields,
                                      hash / cmp disagree with ==, clone differs, prefix of a history went wrong ...):
                                      equal to no prediction and accepted by no specification *)

Inductive case := Case (f : form) (o : opk) (a b c d : Z) (r : obs).

Definition cmp_eqb (x y : comparison) : bool :=
  match x, y with Lt, Lt | Eq, Eq | Gt, Gt => true | _, _ => false end.

Definition obs_eqb (x y : obs) : bool :=
  match x, y with
  | RPanic, RPanic => true
  | RRat a b, RRat a' b' => (a =? a') && (b =? b')
  | RCmp c p, RCmp c' p' => cmp_eqb c c' && cmp_eqb p p'
  | REq e h, REq e' h' => Bool.eqb e e' && Bool.eqb h h'
  | RStr s, RStr s' => String.eqb s s'
  | _, _ => false
  end.

Definition orat (o : option rat) : obs := match o with Some r => RRat (ra r) (rb r) | None => RPanic end.

Definition bind2 (x y : option rat) (k : rat -> rat -> obs) : obs :=
  match x, y with Some x, Some y => k x y | _, _ => RPanic end.

(** the model's prediction for one case input *)
Definition model_run (o : opk) (a b c d : Z) : obs :=
  let x := new a b in
  let y := new c d in
  match o with
  | ONew => orat x
  | ONewInt => orat (Some (new_int a))
  | OAdd => bind2 x y (fun x y => orat (add x y))
  | OSub => bind2 x y (fun x y => orat (sub x y))
  | OMul => bind2 x y (fun x y => orat (mul x y))
  | ODiv => bind2 x y (fun x y => orat (div x y))
  | ONeg => match x with Some x => orat (Some (neg x)) | None => RPanic end
  | OCmp => bind2 x y (fun x y => match cmp x y with Some c => RCmp c c | None => RPanic end)
  | OEqHash => bind2 x y (fun x y => REq (eqb x y) (eqb x y))   (* derived Hash feeds exactly the fields Eq compares *)
  | OFloor => match x with Some x => orat (floor x) | None => RPanic end
  | OCeil => match x with Some x => orat (ceil x) | None => RPanic end
  | OShow => match x with Some x => RStr (display x) | None => RPanic end
  end.

Definition model_check (c : case) : bool :=
  let '(Case _ o a b c d r) := c in obs_eqb (model_run o a b c d) r.

(** ---- specification, independent of the model ---- *)
Definition canon (p q : Z) : bool := (0 <? q) && (Z.gcd p q =? 1).

(** the observed p/q is the canonical form of num/den *)
Definition is_value (num den : Z) (r : obs) : bool :=
  match r with RRat p q => canon p q && (p * den =? num * q) | _ => false end.

(** a/b with the sign moved to the numerator *)
Definition sgn_norm (a b : Z) : Z * Z := if b <? 0 then (- a, - b) else (a, b).

Definition spec_check (c : case) : bool :=
  let '(Case _ o a b c d r) := c in
  let unary_ok := negb (b =? 0) in
  let binary_ok := negb (b =? 0) && negb (d =? 0) in
  match o with
  | ONew => if unary_ok then is_value a b r else true
  | ONewInt => match r with RRat p q => (p =? a) && (q =? 1) | _ => false end
  | OAdd => if binary_ok then is_value (a * d + c * b) (b * d) r else true
  | OSub => if binary_ok then is_value (a * d - c * b) (b * d) r else true
  | OMul => if binary_ok then is_value (a * c) (b * d) r else true
  | ODiv => if binary_ok && negb (c =? 0) then is_value (a * d) (b * c) r else true
  | ONeg => if unary_ok then is_value (- a) b r else true
  | OCmp => if binary_ok then
              match r with
              | RCmp x px => let s := ((a * d - c * b) * (b * d) ?= 0) in cmp_eqb x s && cmp_eqb px s
              | _ => false
              end
            else true
  | OEqHash => if binary_ok then
                 match r with
                 | REq e h => let s := (a * d =? c * b) in Bool.eqb e s && Bool.eqb h s
                 | _ => false
                 end
               else true
  | OFloor => if unary_ok then
                let '(a', b') := sgn_norm a b in
                match r with RRat p q => (q =? 1) && (p * b' <=? a') && (a' <? (p + 1) * b') | _ => false end
              else true
  | OCeil => if unary_ok then
               let '(a', b') := sgn_norm a b in
               match r with RRat p q => (q =? 1) && ((p - 1) * b' <? a') && (a' <=? p * b') | _ => false end
             else true
  | OShow => if unary_ok then
               let '(a', b') := sgn_norm a b in
               let g := Z.gcd a b in
               match r with RStr s => String.eqb s (dec (a' / g) ++ "/" ++ dec (b' / g))%string | _ => false end
             else true
  end.

(** for replay files: what the model computes on the input of a case *)
Definition explain (c : case) : obs :=
  let '(Case _ o a b c d _) := c in model_run o a b c d.
