(** C07 — an observation that agrees with the model satisfies the specification. *)
From Coq Require Import ZArith QArith Qround List Lia Bool String Znumtheory.
From RlibV Require Import Common.Iter C11.Model C11.Proofs C07.Model C07.Spec C07.Corr C07.Scope C07.Proofs.
Open Scope Z_scope.

Lemma cmp_eqb_refl c : cmp_eqb c c = true. Proof. destruct c; reflexivity. Qed.
Lemma cmp_eqb_eq x y : cmp_eqb x y = true -> x = y.
Proof. destruct x, y; cbn; congruence. Qed.

Lemma obs_eqb_eq x y : obs_eqb x y = true -> x = y.
Proof.
  destruct x, y; cbn [obs_eqb]; try discriminate; try reflexivity.
  - rewrite andb_true_iff, !Z.eqb_eq. intros [-> ->]. reflexivity.
  - rewrite andb_true_iff. intros [H1 H2]. apply cmp_eqb_eq in H1, H2. subst. reflexivity.
  - rewrite andb_true_iff. intros [H1 H2]. apply Bool.eqb_prop in H1, H2. subst. reflexivity.
  - rewrite String.eqb_eq. intros ->. reflexivity.
Qed.

Lemma obs_eqb_bad x s : obs_eqb x (RBad s) = false.
Proof. destruct x; reflexivity. Qed.

(** facts about x = new a b used for every operator *)
Record is_new (a b : Z) (x : rat) : Prop := {
  n_pos : 0 < rb x;
  n_gcd : Z.gcd (ra x) (rb x) = 1;
  n_val : ra x * b = a * rb x;
  n_small : small x }.

Lemma canonical_le p q a b : 0 < q -> Z.gcd p q = 1 -> p * b = a * q -> b <> 0 ->
  Z.abs q <= Z.abs b /\ Z.abs p <= Z.abs a.
Proof.
  intros Hq Hg Hv Hb. split.
  - assert (D : (q | b)).
    { apply Z.gauss with (m := p); [|rewrite Z.gcd_comm; exact Hg]. exists a. lia. }
    apply Z.divide_abs_r in D. apply Z.divide_pos_le in D; lia.
  - destruct (Z.eq_dec a 0) as [->|Ha].
    + assert (p = 0) by nia. subst. lia.
    + assert (D : (p | a)).
      { apply Z.gauss with (m := q); [|exact Hg]. exists b. lia. }
      apply Z.divide_abs_r, Z.divide_abs_l in D. apply Z.divide_pos_le in D; lia.
Qed.

Lemma new_facts a b : b <> 0 -> Z.abs a < 2 ^ 32 -> Z.abs b < 2 ^ 32 ->
  exists x, new a b = Some x /\ is_new a b x.
Proof.
  intros Hb Ha Hb'. destruct (norm_spec a b Hb ltac:(lia)) as (r & Hn & [Hp Hg] & Hv).
  exists r. split; [exact Hn|].
  destruct (canonical_le _ _ _ _ Hp Hg Hv Hb) as [Lq Lp].
  constructor; try assumption. split; lia.
Qed.

Lemma value_transfer N D N' D' R S : D <> 0 -> N * D' = N' * D -> R * D = N * S -> R * D' = N' * S.
Proof.
  intros HD H1 H2. apply Z.mul_reg_r with (p := D); [exact HD|].
  transitivity (R * D * D'); [ring|]. rewrite H2.
  transitivity (N * D' * S); [ring|]. rewrite H1. ring.
Qed.

Lemma is_value_intro num den r : canonical r -> ra r * den = num * rb r ->
  is_value num den (RRat (ra r) (rb r)) = true.
Proof.
  intros [Hp Hg] Hv. unfold is_value, canon. rewrite Hg, Hv.
  rewrite !Z.eqb_refl. destruct (Z.ltb_spec 0 (rb r)); [reflexivity|lia].
Qed.

(** one binary arithmetic operator: the model normalises N/D, the spec expects N'/D' *)
Lemma binop_ok N D N' D' : D <> 0 -> Z.abs D < 2 ^ 130 -> N * D' = N' * D ->
  is_value N' D' (orat (new N D)) = true.
Proof.
  intros HD Hs Hc. destruct (norm_spec N D HD Hs) as (r & Hn & Hcan & Hv).
  unfold new. rewrite Hn. cbn [orat]. apply is_value_intro; [exact Hcan|].
  eapply value_transfer; eassumption.
Qed.

Section Pair.
Variables a b c d : Z.
Variables x y : rat.
Hypothesis Hb : b <> 0.
Hypothesis Hd : d <> 0.
Hypothesis X : is_new a b x.
Hypothesis Y : is_new c d y.

Let p := ra x. Let q := rb x. Let p' := ra y. Let q' := rb y.

Lemma facts : 0 < q /\ 0 < q' /\ p * b = a * q /\ p' * d = c * q'.
Proof. destruct X, Y. repeat split; assumption. Qed.

Lemma den_small : Z.abs (q * q') < 2 ^ 130 /\ Z.abs (q * p') < 2 ^ 130.
Proof. destruct X as [_ _ _ [? ?]], Y as [_ _ _ [? ?]]. split; apply small_mul; assumption. Qed.

Lemma add_ok : is_value (a * d + c * b) (b * d) (orat (add x y)) = true.
Proof.
  destruct facts as (Hq & Hq' & H1 & H2). destruct den_small as [S1 _].
  unfold add. apply binop_ok; [fold q q'; nia|exact S1|]. fold p q p' q'.
  enough (E : (p * q' + q * p') * (b * d) - (a * d + c * b) * (q * q') = 0) by lia.
  replace (_ - _) with (q' * d * (p * b - a * q) + q * b * (p' * d - c * q')) by ring.
  rewrite H1, H2. ring.
Qed.

Lemma sub_ok : is_value (a * d - c * b) (b * d) (orat (sub x y)) = true.
Proof.
  destruct facts as (Hq & Hq' & H1 & H2). destruct den_small as [S1 _].
  unfold sub. apply binop_ok; [fold q q'; nia|exact S1|]. fold p q p' q'.
  enough (E : (p * q' - q * p') * (b * d) - (a * d - c * b) * (q * q') = 0) by lia.
  replace (_ - _) with (q' * d * (p * b - a * q) - q * b * (p' * d - c * q')) by ring.
  rewrite H1, H2. ring.
Qed.

Lemma mul_ok : is_value (a * c) (b * d) (orat (mul x y)) = true.
Proof.
  destruct facts as (Hq & Hq' & H1 & H2). destruct den_small as [S1 _].
  unfold mul. apply binop_ok; [fold q q'; nia|exact S1|]. fold p q p' q'.
  enough (E : (p * p') * (b * d) - (a * c) * (q * q') = 0) by lia.
  replace (_ - _) with (p' * d * (p * b - a * q) + a * q * (p' * d - c * q')) by ring.
  rewrite H1, H2. ring.
Qed.

Lemma div_ok : c <> 0 -> is_value (a * d) (b * c) (orat (div x y)) = true.
Proof.
  intros Hc. destruct facts as (Hq & Hq' & H1 & H2). destruct den_small as [_ S2].
  assert (Hp' : p' <> 0) by (intros E; rewrite E in H2; nia).
  unfold div. apply binop_ok; [fold q p'; nia|exact S2|]. fold p q p' q'.
  enough (E : (p * q') * (b * c) - (a * d) * (q * p') = 0) by lia.
  replace (_ - _) with (q' * c * (p * b - a * q) - a * q * (p' * d - c * q')) by ring.
  rewrite H1, H2. ring.
Qed.

Lemma cmp_ok : cmp x y = Some ((a * d - c * b) * (b * d) ?= 0).
Proof.
  destruct facts as (Hq & Hq' & H1 & H2). destruct den_small as [S1 _].
  unfold cmp, sub, new.
  destruct (norm_spec (ra x * rb y - rb x * ra y) (rb x * rb y) ltac:(fold q q'; nia) S1)
    as (r & Hn & [Hr _] & Hv).
  rewrite Hn. f_equal. fold p q p' q' in Hv.
  rewrite (sign_transfer (ra r) (q * q') (rb r) (p * q') (q * p')) by (nia || assumption).
  rewrite (Z.compare_sub (p * q') (q * p')).
  apply sign_transfer with (D := (b * d) * (b * d)) (q := q * q'); [nia|nia|].
  rewrite Z.sub_0_r.
  enough (E : (p * q' - q * p') * (b * d) = (a * d - c * b) * (q * q')).
  { transitivity ((p * q' - q * p') * (b * d) * (b * d)); [ring|]. rewrite E. ring. }
  enough (E : (p * q' - q * p') * (b * d) - (a * d - c * b) * (q * q') = 0) by lia.
  replace (_ - _) with (q' * d * (p * b - a * q) - q * b * (p' * d - c * q')) by ring.
  rewrite H1, H2. ring.
Qed.

Lemma eq_ok : eqb x y = (a * d =? c * b).
Proof.
  destruct facts as (Hq & Hq' & H1 & H2).
  destruct (Z.eqb_spec (a * d) (c * b)) as [E|E].
  - apply eqb_eq. apply canonical_eq.
    + destruct X; split; assumption.
    + destruct Y; split; assumption.
    + unfold to_Q, Qeq; cbn [Qnum Qden]. rewrite !den_id by assumption. fold p q p' q'.
      apply Z.mul_reg_r with (p := b * d); [nia|].
      transitivity ((p * b) * (q' * d)); [ring|]. rewrite H1.
      transitivity ((p' * d) * (q * b)); [|ring]. rewrite H2.
      transitivity ((a * d) * (q * q')); [ring|]. rewrite E. ring.
  - destruct (eqb x y) eqn:Q; [|reflexivity]. exfalso. apply E.
    apply eqb_eq in Q.
    assert (Ep : p' = p) by (unfold p, p'; rewrite Q; reflexivity).
    assert (Eq : q' = q) by (unfold q, q'; rewrite Q; reflexivity).
    rewrite Ep, Eq in H2.
    apply Z.mul_reg_r with (p := q); [lia|].
    transitivity ((a * q) * d); [ring|]. rewrite <- H1.
    transitivity ((p * d) * b); [ring|]. rewrite H2. ring.
Qed.
End Pair.

Section Unary.
Variables a b : Z.
Variable x : rat.
Hypothesis Hb : b <> 0.
Hypothesis X : is_new a b x.
Let p := ra x. Let q := rb x.

(** a/b with the sign moved to the numerator has the same cross equation *)
Lemma sgn_facts : let '(a', b') := sgn_norm a b in 0 < b' /\ p * b' = a' * q.
Proof.
  destruct X as [Hq _ Hv _]. fold p q in Hv. unfold sgn_norm.
  destruct (Z.ltb_spec b 0); split; lia.
Qed.

Lemma new_ok : is_value a b (orat (Some x)) = true.
Proof. destruct X. cbn [orat]. apply is_value_intro; [split|]; assumption. Qed.

Lemma neg_ok : is_value (- a) b (orat (Some (neg x))) = true.
Proof.
  destruct X as [Hq Hg Hv _]. cbn [orat]. apply is_value_intro.
  - split; cbn [neg ra rb]; [assumption|]. rewrite Z.gcd_opp_l. exact Hg.
  - cbn [neg ra rb]. lia.
Qed.

Lemma floor_ok : let '(a', b') := sgn_norm a b in
  match orat (floor x) with
  | RRat fl one => (one =? 1) && (fl * b' <=? a') && (a' <? (fl + 1) * b')
  | _ => false
  end = true.
Proof.
  pose proof sgn_facts as SF. destruct (sgn_norm a b) as [a' b']. destruct SF as [Hb' Hv].
  destruct X as [Hq _ _ _]. fold q in Hq.
  rewrite (floor_spec x Hq). cbn [orat ra rb]. unfold to_Q, Qfloor. rewrite den_id by exact Hq.
  fold p q. set (fl := p / q).
  pose proof (Z.div_mod p q ltac:(lia)) as Hdm. pose proof (Z.mod_pos_bound p q Hq) as Hm.
  fold fl in Hdm.
  assert (L1 : fl * q <= p) by lia. assert (L2 : p < (fl + 1) * q) by lia.
  rewrite Z.eqb_refl. cbn [andb].
  apply andb_true_iff; split; [apply Z.leb_le|apply Z.ltb_lt].
  - apply (Z.mul_le_mono_pos_r _ _ q Hq). rewrite <- Hv.
    replace (fl * b' * q) with (fl * q * b') by ring.
    apply Z.mul_le_mono_nonneg_r; lia.
  - apply (Z.mul_lt_mono_pos_r q _ _ Hq). rewrite <- Hv.
    replace ((fl + 1) * b' * q) with ((fl + 1) * q * b') by ring.
    apply Z.mul_lt_mono_pos_r; lia.
Qed.

Lemma ceil_ok : let '(a', b') := sgn_norm a b in
  match orat (ceil x) with
  | RRat cl one => (one =? 1) && ((cl - 1) * b' <? a') && (a' <=? cl * b')
  | _ => false
  end = true.
Proof.
  pose proof sgn_facts as SF. destruct (sgn_norm a b) as [a' b']. destruct SF as [Hb' Hv].
  destruct X as [Hq _ _ _]. fold q in Hq.
  rewrite (ceil_spec x Hq). cbn [orat ra rb]. unfold to_Q, Qceiling, Qfloor, Qopp; cbn [Qnum Qden].
  rewrite den_id by exact Hq. fold p q. set (k := - p / q).
  pose proof (Z.div_mod (- p) q ltac:(lia)) as Hdm. pose proof (Z.mod_pos_bound (- p) q Hq) as Hm.
  fold k in Hdm.
  assert (L1 : p <= - k * q) by lia. assert (L2 : (- k - 1) * q < p) by lia.
  rewrite Z.eqb_refl. cbn [andb].
  apply andb_true_iff; split; [apply Z.ltb_lt|apply Z.leb_le].
  - apply (Z.mul_lt_mono_pos_r q _ _ Hq). rewrite <- Hv.
    replace ((- k - 1) * b' * q) with ((- k - 1) * q * b') by ring.
    apply Z.mul_lt_mono_pos_r; lia.
  - apply (Z.mul_le_mono_pos_r _ _ q Hq). rewrite <- Hv.
    replace (- k * b' * q) with (- k * q * b') by ring.
    apply Z.mul_le_mono_nonneg_r; lia.
Qed.

(** Display prints the canonical form: numerator and denominator are a'/g and b'/g *)
Lemma show_ok : let '(a', b') := sgn_norm a b in
  x = Rat (a' / Z.gcd a b) (b' / Z.gcd a b).
Proof.
  pose proof sgn_facts as SF.
  assert (G : let '(a', b') := sgn_norm a b in Z.gcd a' b' = Z.gcd a b).
  { unfold sgn_norm. destruct (b <? 0); [rewrite Z.gcd_opp_l, Z.gcd_opp_r|]; reflexivity. }
  destruct (sgn_norm a b) as [a' b']. destruct SF as [Hb' Hv].
  set (g := Z.gcd a b) in *.
  assert (Hg : 0 < g).
  { pose proof (Z.gcd_nonneg a' b'). rewrite G in *.
    destruct (Z.eq_dec g 0) as [E|E]; [|lia]. rewrite <- G in E. apply Z.gcd_eq_0_r in E. lia. }
  pose proof (Zdivide_Zdiv_eq g a' Hg ltac:(rewrite <- G; apply Z.gcd_divide_l)) as Ea.
  pose proof (Zdivide_Zdiv_eq g b' Hg ltac:(rewrite <- G; apply Z.gcd_divide_r)) as Eb.
  pose proof (Z.gcd_div_gcd a' b' g ltac:(lia) (eq_sym G)) as Hco.
  set (A := a' / g) in *. set (B := b' / g) in *.
  destruct X as [Hq Hgc _ _]. fold p q in Hq, Hgc.
  apply canonical_eq.
  - split; assumption.
  - split; cbn [ra rb]; [nia|exact Hco].
  - unfold to_Q, Qeq; cbn [Qnum Qden ra rb]. rewrite !Z2Pos.id by (assumption || nia).
    fold p q. apply Z.mul_reg_r with (p := g); [lia|].
    transitivity (p * b'); [rewrite Eb; ring|]. rewrite Hv, Ea. ring.
Qed.
End Unary.

Theorem model_implies_spec c : in_scope c -> model_check c = true -> spec_check c = true.
Proof.
  destruct c as [f o a b c d r]. intros (Sa & Sb & Sc & Sd) Hm.
  unfold model_check in Hm. apply obs_eqb_eq in Hm. subst r.
  unfold spec_check, model_run.
  destruct o.
  - (* new *) destruct (Z.eqb_spec b 0) as [E|E]; cbn [negb]; [reflexivity|].
    destruct (new_facts a b E Sa Sb) as (x & -> & X). apply new_ok; assumption.
  - (* new_int *) cbn [orat new_int ra rb]. rewrite !Z.eqb_refl. reflexivity.
  - (* add *) destruct (Z.eqb_spec b 0) as [E|E]; cbn [negb andb]; [reflexivity|].
    destruct (Z.eqb_spec d 0) as [E'|E']; cbn [negb]; [reflexivity|].
    destruct (new_facts a b E Sa Sb) as (x & -> & X). destruct (new_facts c d E' Sc Sd) as (y & -> & Y).
    cbn [bind2]. eapply add_ok; eassumption.
  - (* sub *) destruct (Z.eqb_spec b 0) as [E|E]; cbn [negb andb]; [reflexivity|].
    destruct (Z.eqb_spec d 0) as [E'|E']; cbn [negb]; [reflexivity|].
    destruct (new_facts a b E Sa Sb) as (x & -> & X). destruct (new_facts c d E' Sc Sd) as (y & -> & Y).
    cbn [bind2]. eapply sub_ok; eassumption.
  - (* mul *) destruct (Z.eqb_spec b 0) as [E|E]; cbn [negb andb]; [reflexivity|].
    destruct (Z.eqb_spec d 0) as [E'|E']; cbn [negb]; [reflexivity|].
    destruct (new_facts a b E Sa Sb) as (x & -> & X). destruct (new_facts c d E' Sc Sd) as (y & -> & Y).
    cbn [bind2]. eapply mul_ok; eassumption.
  - (* div *) destruct (Z.eqb_spec b 0) as [E|E]; cbn [negb andb]; [reflexivity|].
    destruct (Z.eqb_spec d 0) as [E'|E']; cbn [negb andb]; [reflexivity|].
    destruct (Z.eqb_spec c 0) as [E''|E'']; cbn [negb]; [reflexivity|].
    destruct (new_facts a b E Sa Sb) as (x & -> & X). destruct (new_facts c d E' Sc Sd) as (y & -> & Y).
    cbn [bind2]. eapply div_ok; eassumption.
  - (* neg *) destruct (Z.eqb_spec b 0) as [E|E]; cbn [negb]; [reflexivity|].
    destruct (new_facts a b E Sa Sb) as (x & -> & X). apply neg_ok; assumption.
  - (* cmp *) destruct (Z.eqb_spec b 0) as [E|E]; cbn [negb andb]; [reflexivity|].
    destruct (Z.eqb_spec d 0) as [E'|E']; cbn [negb]; [reflexivity|].
    destruct (new_facts a b E Sa Sb) as (x & -> & X). destruct (new_facts c d E' Sc Sd) as (y & -> & Y).
    cbn [bind2]. rewrite (cmp_ok a b c d x y E E' X Y). rewrite !cmp_eqb_refl. reflexivity.
  - (* eq / hash *) destruct (Z.eqb_spec b 0) as [E|E]; cbn [negb andb]; [reflexivity|].
    destruct (Z.eqb_spec d 0) as [E'|E']; cbn [negb]; [reflexivity|].
    destruct (new_facts a b E Sa Sb) as (x & -> & X). destruct (new_facts c d E' Sc Sd) as (y & -> & Y).
    cbn [bind2]. rewrite (eq_ok a b c d x y E E' X Y). rewrite !Bool.eqb_reflx. reflexivity.
  - (* floor *) destruct (Z.eqb_spec b 0) as [E|E]; cbn [negb]; [reflexivity|].
    destruct (new_facts a b E Sa Sb) as (x & -> & X).
    pose proof (floor_ok a b x E X) as H. destruct (sgn_norm a b) as [a' b']. exact H.
  - (* ceil *) destruct (Z.eqb_spec b 0) as [E|E]; cbn [negb]; [reflexivity|].
    destruct (new_facts a b E Sa Sb) as (x & -> & X).
    pose proof (ceil_ok a b x E X) as H. destruct (sgn_norm a b) as [a' b']. exact H.
  - (* Display *) destruct (Z.eqb_spec b 0) as [E|E]; cbn [negb]; [reflexivity|].
    destruct (new_facts a b E Sa Sb) as (x & -> & X).
    pose proof (show_ok a b x E X) as H. destruct (sgn_norm a b) as [a' b']. subst x.
    unfold display; cbn [ra rb]. apply String.eqb_refl.
Qed.
