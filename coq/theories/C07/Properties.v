(** C07 — property theorems (statements only; proofs by [exact]). *)
From Coq Require Import ZArith QArith Qround.
From RlibV Require Import C11.Model C07.Model.
Open Scope Z_scope.
