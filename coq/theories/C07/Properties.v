(** C07 — property theorems (statements only; proofs by [exact]). *)
From Coq Require Import ZArith QArith Qround List.
From RlibV Require Import C11.Model C07.Model C07.Spec C07.Trace C07.Corr C07.Scope C07.Proofs C07.ProofsFits C07.ProofsCorr C07.ProofsLit.
Open Scope Z_scope.

(** Rational::new(a, b), b <> 0 of either sign: lowest terms, positive denominator, value a/b *)
Theorem c07_new_canonical : forall a b : Z, b <> 0 -> Z.abs b < 2 ^ 130 -> exists r, new a b = Some r /\ canonical r /\ (to_Q r == frac a b)%Q.
Proof. exact new_canonical. Qed.

(** new_int *)
Theorem c07_new_int : forall a : Z, canonical (new_int a) /\ (to_Q (new_int a) == inject_Z a)%Q.
Proof. exact new_int_spec. Qed.

(** + is exact and its result canonical (operands need a positive denominator, not lowest terms) *)
Theorem c07_add_exact : forall x y : rat, 0 < rb x -> 0 < rb y -> small x -> small y -> exists r, add x y = Some r /\ canonical r /\ (to_Q r == to_Q x + to_Q y)%Q.
Proof. exact add_exact. Qed.

(** - *)
Theorem c07_sub_exact : forall x y : rat, 0 < rb x -> 0 < rb y -> small x -> small y -> exists r, sub x y = Some r /\ canonical r /\ (to_Q r == to_Q x - to_Q y)%Q.
Proof. exact sub_exact. Qed.

(** * *)
Theorem c07_mul_exact : forall x y : rat, 0 < rb x -> 0 < rb y -> small x -> small y -> exists r, mul x y = Some r /\ canonical r /\ (to_Q r == to_Q x * to_Q y)%Q.
Proof. exact mul_exact. Qed.

(** / by a non-zero divisor (of either sign: the sign moves to the numerator) *)
Theorem c07_div_exact : forall x y : rat, 0 < rb x -> 0 < rb y -> small x -> small y -> ra y <> 0 -> exists r, div x y = Some r /\ canonical r /\ (to_Q r == to_Q x / to_Q y)%Q.
Proof. exact div_exact. Qed.

(** Neg does not renormalise and does not need to *)
Theorem c07_neg : forall x : rat, canonical x -> canonical (neg x) /\ (to_Q (neg x) == - to_Q x)%Q.
Proof. exact neg_exact. Qed.

(** canonical forms are unique: numeric equality implies structural equality *)
Theorem c07_canonical_eq : forall x y : rat, canonical x -> canonical y -> (to_Q x == to_Q y)%Q -> x = y.
Proof. exact canonical_eq. Qed.

(** derived == (field-wise, what derived Hash hashes) coincides with numeric equality *)
Theorem c07_eq_numeric : forall x y : rat, canonical x -> canonical y -> (eqb x y = true <-> (to_Q x == to_Q y)%Q).
Proof. exact eqb_numeric. Qed.

(** Ord::cmp is the order of Q (hence total, antisymmetric, transitive) *)
Theorem c07_cmp : forall x y : rat, 0 < rb x -> 0 < rb y -> small x -> small y -> cmp x y = Some (to_Q x ?= to_Q y)%Q.
Proof. exact cmp_spec. Qed.

(** cmp is consistent with == *)
Theorem c07_cmp_eq : forall x y : rat, canonical x -> canonical y -> small x -> small y -> (cmp x y = Some Eq <-> x = y).
Proof. exact cmp_eq_iff. Qed.

(** floor: greatest integer <= x, both signs *)
Theorem c07_floor : forall x : rat, 0 < rb x -> floor x = Some (Rat (Qfloor (to_Q x)) 1).
Proof. exact floor_spec. Qed.

(** ceil: least integer >= x, both signs *)
Theorem c07_ceil : forall x : rat, 0 < rb x -> ceil x = Some (Rat (Qceiling (to_Q x)) 1).
Proof. exact ceil_spec. Qed.

(** the instrumented variants (C07/Trace.v: same code plus the list of every intermediate integer) return the model's results *)
Theorem c07_trace_same : forall (x y : rat) (a b : Z), fst (new_t a b) = new a b /\ fst (add_t x y) = add x y /\ fst (sub_t x y) = sub x y /\ fst (mul_t x y) = mul x y /\ fst (div_t x y) = div x y /\ fst (neg_t x) = neg x /\ fst (cmp_t x y) = cmp x y /\ fst (floor_t x) = floor x /\ fst (ceil_t x) = ceil x.
Proof. exact (fun x y a b => trace_same x y a b). Qed.

(** the property's box: operands and constructor arguments of magnitude at most 2^30 keep every intermediate of every operator below 2^62 (no i64 overflow) *)
Theorem c07_fits_2_30 : forall (x y : rat) (a b : Z), within (2 ^ 30) x -> within (2 ^ 30) y -> Z.abs a <= 2 ^ 30 -> Z.abs b <= 2 ^ 30 -> all_below (2 ^ 62) (snd (new_t a b)) /\ all_below (2 ^ 62) (snd (add_t x y)) /\ all_below (2 ^ 62) (snd (sub_t x y)) /\ all_below (2 ^ 62) (snd (mul_t x y)) /\ all_below (2 ^ 62) (snd (div_t x y)) /\ all_below (2 ^ 62) (snd (neg_t x)) /\ all_below (2 ^ 62) (snd (cmp_t x y)) /\ all_below (2 ^ 62) (snd (floor_t x)) /\ all_below (2 ^ 62) (snd (ceil_t x)).
Proof. exact (fits_2_30). Qed.

(** the executor's i32 box: magnitudes at most 2^14 keep everything below 2^30 *)
Theorem c07_fits_i32_2_14 : forall (x y : rat) (a b : Z), within (2 ^ 14) x -> within (2 ^ 14) y -> Z.abs a <= 2 ^ 14 -> Z.abs b <= 2 ^ 14 -> all_below (2 ^ 30) (snd (new_t a b)) /\ all_below (2 ^ 30) (snd (add_t x y)) /\ all_below (2 ^ 30) (snd (sub_t x y)) /\ all_below (2 ^ 30) (snd (mul_t x y)) /\ all_below (2 ^ 30) (snd (div_t x y)) /\ all_below (2 ^ 30) (snd (neg_t x)) /\ all_below (2 ^ 30) (snd (cmp_t x y)) /\ all_below (2 ^ 30) (snd (floor_t x)) /\ all_below (2 ^ 30) (snd (ceil_t x)).
Proof. exact (fits_i32_2_14). Qed.

(** general form: operands bounded by M keep every intermediate at most 2*M*M *)
Theorem c07_fits_general : forall (M : Z) (x y : rat) (a b : Z), 1 <= M -> 2 * (M * M) < 2 ^ 130 -> within M x -> within M y -> Z.abs a <= M -> Z.abs b <= M -> let le B := Forall (fun v => Z.abs v <= B) in le M (snd (new_t a b)) /\ le (2 * (M * M)) (snd (add_t x y)) /\ le (2 * (M * M)) (snd (sub_t x y)) /\ le (2 * (M * M)) (snd (mul_t x y)) /\ le (2 * (M * M)) (snd (div_t x y)) /\ le M (snd (neg_t x)) /\ le (2 * (M * M)) (snd (cmp_t x y)) /\ le (2 * M + 1) (snd (floor_t x)) /\ le (2 * M + 1) (snd (ceil_t x)).
Proof. exact (fits_general). Qed.

(** on in-scope cases (inputs below 2^32 in magnitude) an observation that agrees with the model satisfies the
    specification: the batch lemma about the model carries the spec to the implementation by proof *)
Theorem c07_model_implies_spec : forall c : case, in_scope c -> model_check c = true -> spec_check c = true.
Proof. exact model_implies_spec. Qed.

(** floor x is the greatest integer <= x *)
Theorem c07_floor_greatest : forall x : rat, 0 < rb x -> exists n, floor x = Some (Rat n 1) /\ (inject_Z n <= to_Q x)%Q /\ (to_Q x < inject_Z (n + 1))%Q.
Proof. exact floor_bounds. Qed.

(** ceil x is the least integer >= x *)
Theorem c07_ceil_least : forall x : rat, 0 < rb x -> exists n, ceil x = Some (Rat n 1) /\ (inject_Z (n - 1) < to_Q x)%Q /\ (to_Q x <= inject_Z n)%Q.
Proof. exact ceil_bounds. Qed.

(** operands that are not in lowest terms (struct literal a/b with b > 0: the fields are public) give exactly the
    results of Rational::new of their fields, for every operator, cmp, floor and ceil *)
Theorem c07_unreduced_same : forall x y x' y' : rat, 0 < rb x -> 0 < rb y -> small x -> small y -> new (ra x) (rb x) = Some x' -> new (ra y) (rb y) = Some y' -> add x y = add x' y' /\ sub x y = sub x' y' /\ mul x y = mul x' y' /\ (ra y <> 0 -> div x y = div x' y') /\ cmp x y = cmp x' y' /\ floor x = floor x' /\ ceil x = ceil x'.
Proof. exact unreduced_same. Qed.

(** a canonical value is a fixed point of Rational::new (results of earlier operations, new_int, ZERO, ONE as operands) *)
Theorem c07_new_canonical_id : forall x : rat, canonical x -> Z.abs (rb x) < 2 ^ 130 -> new (ra x) (rb x) = Some x.
Proof. exact new_canonical_id. Qed.
