(** C07 — operands that are not in lowest terms.  The fields of Rational<T> are
    public, so a caller can hand an operator a struct literal a/b (b > 0) that
    never went through [norm].  Every operator and floor/ceil return on such an
    operand exactly what they return on [Rational::new] of its fields: the
    results are canonical forms of the same exact value, and canonical forms are
    unique.  This is what lets the correspondence feed literal operands, results
    of earlier operations, new_int / ZERO / ONE to the one [Case] constructor
    whose prediction is computed from [new a b]. *)
From Coq Require Import ZArith QArith Qround Lia Znumtheory Bool.
From RlibV Require Import Common.Iter C11.Model C11.Proofs C07.Model C07.Spec C07.Corr C07.Proofs C07.ProofsCorr.
Open Scope Z_scope.

Lemma toQ_eq_cross x r : 0 < rb x -> 0 < rb r -> ra r * rb x = ra x * rb r -> to_Q r == to_Q x.
Proof.
  intros Hb Hp Hv. unfold to_Q, Qeq; cbn [Qnum Qden].
  rewrite (den_id x Hb), (den_id r Hp). exact Hv.
Qed.

Lemma cross_of_toQ_eq x r : 0 < rb x -> 0 < rb r -> to_Q r == to_Q x -> ra r * rb x = ra x * rb r.
Proof.
  intros Hb Hp Hv. unfold to_Q, Qeq in Hv; cbn [Qnum Qden] in Hv.
  rewrite (den_id x Hb), (den_id r Hp) in Hv. exact Hv.
Qed.

Lemma lt64_lt130 v : Z.abs v < 2 ^ 64 -> Z.abs v < 2 ^ 130.
Proof. intros H. assert (E : 2 ^ 64 < 2 ^ 130) by reflexivity. lia. Qed.

Lemma new_spec a b : b <> 0 -> Z.abs b < 2 ^ 130 ->
  exists r, new a b = Some r /\ canonical r /\ ra r * b = a * rb r.
Proof.
  intros Hb Hlt. destruct (norm_spec a b Hb Hlt) as (r & Hn & Hc & Hv).
  exists r. split; [exact Hn|]. split; [exact Hc|exact Hv].
Qed.

Lemma reduce_facts x x' : 0 < rb x -> small x -> new (ra x) (rb x) = Some x' ->
  canonical x' /\ small x' /\ to_Q x' == to_Q x.
Proof.
  intros Hb [Sa Sb] Hn.
  assert (Hb0 : rb x <> 0) by (clear - Hb; lia).
  destruct (new_spec (ra x) (rb x) Hb0 (lt64_lt130 _ Sb)) as (r & Hr & Hc & Hv).
  rewrite Hr in Hn. injection Hn as <-.
  split; [exact Hc|]. destruct Hc as [Hp Hg]. split.
  - destruct (canonical_le _ _ _ _ Hp Hg Hv Hb0) as [Lq Lp]. split.
    + apply Z.le_lt_trans with (m := Z.abs (ra x)); [exact Lp|exact Sa].
    + apply Z.le_lt_trans with (m := Z.abs (rb x)); [exact Lq|exact Sb].
  - apply toQ_eq_cross; [exact Hb|exact Hp|exact Hv].
Qed.

Section Same.
Variables x y x' y' : rat.
Hypothesis Hx : 0 < rb x.
Hypothesis Hy : 0 < rb y.
Hypothesis Sx : small x.
Hypothesis Sy : small y.
Hypothesis Nx : new (ra x) (rb x) = Some x'.
Hypothesis Ny : new (ra y) (rb y) = Some y'.

Lemma same_add : add x y = add x' y'.
Proof.
  destruct (reduce_facts _ _ Hx Sx Nx) as (Cx & Sx' & Ex).
  destruct (reduce_facts _ _ Hy Sy Ny) as (Cy & Sy' & Ey).
  destruct (add_exact x y Hx Hy Sx Sy) as (r & -> & Cr & Vr).
  destruct (add_exact x' y' (proj1 Cx) (proj1 Cy) Sx' Sy') as (r' & -> & Cr' & Vr').
  f_equal. apply canonical_eq; [exact Cr|exact Cr'|]. rewrite Vr, Vr', Ex, Ey. reflexivity.
Qed.

Lemma same_sub : sub x y = sub x' y'.
Proof.
  destruct (reduce_facts _ _ Hx Sx Nx) as (Cx & Sx' & Ex).
  destruct (reduce_facts _ _ Hy Sy Ny) as (Cy & Sy' & Ey).
  destruct (sub_exact x y Hx Hy Sx Sy) as (r & -> & Cr & Vr).
  destruct (sub_exact x' y' (proj1 Cx) (proj1 Cy) Sx' Sy') as (r' & -> & Cr' & Vr').
  f_equal. apply canonical_eq; [exact Cr|exact Cr'|]. rewrite Vr, Vr', Ex, Ey. reflexivity.
Qed.

Lemma same_mul : mul x y = mul x' y'.
Proof.
  destruct (reduce_facts _ _ Hx Sx Nx) as (Cx & Sx' & Ex).
  destruct (reduce_facts _ _ Hy Sy Ny) as (Cy & Sy' & Ey).
  destruct (mul_exact x y Hx Hy Sx Sy) as (r & -> & Cr & Vr).
  destruct (mul_exact x' y' (proj1 Cx) (proj1 Cy) Sx' Sy') as (r' & -> & Cr' & Vr').
  f_equal. apply canonical_eq; [exact Cr|exact Cr'|]. rewrite Vr, Vr', Ex, Ey. reflexivity.
Qed.

Lemma same_div : ra y <> 0 -> div x y = div x' y'.
Proof.
  intros Hy0.
  destruct (reduce_facts _ _ Hx Sx Nx) as (Cx & Sx' & Ex).
  destruct (reduce_facts _ _ Hy Sy Ny) as (Cy & Sy' & Ey).
  assert (Hy0' : ra y' <> 0).
  { intros E. destruct Cy as [Hp _]. pose proof (cross_of_toQ_eq _ _ Hy Hp Ey) as Hc.
    rewrite E in Hc. rewrite Z.mul_0_l in Hc. symmetry in Hc. apply Z.mul_eq_0 in Hc.
    destruct Hc as [Hc|Hc]; [contradiction|]. rewrite Hc in Hp. revert Hp. apply Z.lt_irrefl. }
  destruct (div_exact x y Hx Hy Sx Sy Hy0) as (r & -> & Cr & Vr).
  destruct (div_exact x' y' (proj1 Cx) (proj1 Cy) Sx' Sy' Hy0') as (r' & -> & Cr' & Vr').
  f_equal. apply canonical_eq; [exact Cr|exact Cr'|]. rewrite Vr, Vr', Ex, Ey. reflexivity.
Qed.

Lemma same_cmp : cmp x y = cmp x' y'.
Proof.
  destruct (reduce_facts _ _ Hx Sx Nx) as (Cx & Sx' & Ex).
  destruct (reduce_facts _ _ Hy Sy Ny) as (Cy & Sy' & Ey).
  rewrite (cmp_spec x y Hx Hy Sx Sy), (cmp_spec x' y' (proj1 Cx) (proj1 Cy) Sx' Sy').
  f_equal. rewrite Ex, Ey. reflexivity.
Qed.

Lemma same_floor : floor x = floor x'.
Proof.
  destruct (reduce_facts _ _ Hx Sx Nx) as (Cx & Sx' & Ex).
  rewrite (floor_spec x Hx), (floor_spec x' (proj1 Cx)). rewrite Ex. reflexivity.
Qed.

Lemma same_ceil : ceil x = ceil x'.
Proof.
  destruct (reduce_facts _ _ Hx Sx Nx) as (Cx & Sx' & Ex).
  rewrite (ceil_spec x Hx), (ceil_spec x' (proj1 Cx)). rewrite Ex. reflexivity.
Qed.

Theorem unreduced_same :
  add x y = add x' y' /\ sub x y = sub x' y' /\ mul x y = mul x' y' /\ (ra y <> 0 -> div x y = div x' y') /\
  cmp x y = cmp x' y' /\ floor x = floor x' /\ ceil x = ceil x'.
Proof.
  repeat split; [apply same_add|apply same_sub|apply same_mul|apply same_div|apply same_cmp|apply same_floor|apply same_ceil].
Qed.
End Same.

(** a value that is already canonical is a fixed point of [new]: results of earlier operations, new_int a,
    ZERO and ONE are operands of exactly the kind [Case] describes *)
Theorem new_canonical_id x : canonical x -> Z.abs (rb x) < 2 ^ 130 -> new (ra x) (rb x) = Some x.
Proof.
  intros Cx Hlt. destruct Cx as [Hp Hg].
  assert (Hb0 : rb x <> 0) by (clear - Hp; lia).
  destruct (new_spec (ra x) (rb x) Hb0 Hlt) as (r & Hr & Hc & Hv).
  rewrite Hr. f_equal. apply canonical_eq; [exact Hc|split; [exact Hp|exact Hg]|].
  apply toQ_eq_cross; [exact Hp|apply Hc|exact Hv].
Qed.
