(** C07 — instrumented variants of the model functions: same computation, plus the
    list of every intermediate integer value the Rust code computes (operands,
    cross products, sums, the gcd loop's values via C11's [gcd_t], quotients,
    negations).  Used only in the statement of the no-overflow theorem.
    Definitions only. *)
From Coq Require Import ZArith List.
From RlibV Require Import Common.Iter C11.Model C11.Trace C07.Model.
Import ListNotations.
Open Scope Z_scope.

Definition norm_t (r : rat) : option rat * list Z :=
  let '(og, tr) := gcd_t (ra r) (rb r) in
  match og with
  | None => (None, tr)
  | Some g =>
      if g =? 0 then (None, tr)
      else
        let a := Z.quot (ra r) g in
        let b := Z.quot (rb r) g in
        if b <? 0 then (Some (Rat (- a) (- b)), [- a; - b; b; a] ++ tr)
        else (Some (Rat a b), [b; a] ++ tr)
  end.

Definition new_t (a b : Z) : option rat * list Z :=
  let '(r, tr) := norm_t (Rat a b) in (r, tr ++ [a; b]).

Definition operands (x y : rat) : list Z := [ra x; rb x; ra y; rb y].

Definition add_t (x y : rat) : option rat * list Z :=
  let '(r, tr) := new_t (ra x * rb y + rb x * ra y) (rb x * rb y) in
  (r, tr ++ [ra x * rb y; rb x * ra y] ++ operands x y).
Definition sub_t (x y : rat) : option rat * list Z :=
  let '(r, tr) := new_t (ra x * rb y - rb x * ra y) (rb x * rb y) in
  (r, tr ++ [ra x * rb y; rb x * ra y] ++ operands x y).
Definition mul_t (x y : rat) : option rat * list Z :=
  let '(r, tr) := new_t (ra x * ra y) (rb x * rb y) in (r, tr ++ operands x y).
Definition div_t (x y : rat) : option rat * list Z :=
  let '(r, tr) := new_t (ra x * rb y) (rb x * ra y) in (r, tr ++ operands x y).
Definition neg_t (x : rat) : rat * list Z := (Rat (- ra x) (rb x), [- ra x; ra x; rb x]).
Definition cmp_t (x y : rat) : option comparison * list Z :=
  let '(r, tr) := sub_t x y in
  (match r with None => None | Some d => Some (ra d ?= 0) end, tr).

Definition floor_t (x : rat) : option rat * list Z :=
  if rb x =? 0 then (None, [ra x; rb x])
  else if ra x >=? 0 then (Some (Rat (Z.quot (ra x) (rb x)) 1), [Z.quot (ra x) (rb x); ra x; rb x])
  else (Some (Rat (Z.quot (ra x - rb x + 1) (rb x)) 1),
        [Z.quot (ra x - rb x + 1) (rb x); ra x - rb x + 1; ra x - rb x; ra x; rb x]).
Definition ceil_t (x : rat) : option rat * list Z :=
  if rb x =? 0 then (None, [ra x; rb x])
  else if ra x >=? 0 then (Some (Rat (Z.quot (ra x + rb x - 1) (rb x)) 1),
        [Z.quot (ra x + rb x - 1) (rb x); ra x + rb x - 1; ra x + rb x; ra x; rb x])
  else (Some (Rat (Z.quot (ra x) (rb x)) 1), [Z.quot (ra x) (rb x); ra x; rb x]).

(** all four fields of two operands are bounded by M in magnitude *)
Definition within (M : Z) (x : rat) : Prop := Z.abs (ra x) <= M /\ Z.abs (rb x) <= M.
Definition all_below (B : Z) (l : list Z) : Prop := Forall (fun v => Z.abs v < B) l.
