(** C07 — notions used by the property statements (definitions only). *)
From Coq Require Import ZArith QArith.
From RlibV Require Import C07.Model.
Open Scope Z_scope.

(** lowest terms, positive denominator *)
Definition canonical (r : rat) : Prop := 0 < rb r /\ Z.gcd (ra r) (rb r) = 1.

(** the rational number denoted by a value with a positive denominator *)
Definition to_Q (r : rat) : Q := ra r # Z.to_pos (rb r).

(** the rational number a/b for a denominator of either sign *)
Definition frac (a b : Z) : Q := (inject_Z a / inject_Z b)%Q.

(** magnitudes small enough for the gcd loop to finish inside the model's fuel (2^130 steps) *)
Definition small (r : rat) : Prop := Z.abs (ra r) < 2 ^ 64 /\ Z.abs (rb r) < 2 ^ 64.
