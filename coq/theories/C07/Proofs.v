(** C07 — proofs about the model. *)
From Coq Require Import ZArith QArith Qround Lia Znumtheory Bool.
From RlibV Require Import Common.Iter C11.Model C11.Proofs C07.Model C07.Spec.
Open Scope Z_scope.

(** ---------- norm ---------- *)
Lemma norm_spec a b : b <> 0 -> Z.abs b < 2 ^ 130 ->
  exists r, norm (Rat a b) = Some r /\ canonical r /\ ra r * b = a * rb r.
Proof.
  intros Hb Hlt. unfold norm. cbn [ra rb]. rewrite gcd_correct by exact Hlt.
  set (g := Z.gcd a b).
  assert (Hg0 : 0 < g).
  { pose proof (Z.gcd_nonneg a b) as Hn. fold g in Hn.
    destruct (Z.eq_dec g 0) as [E|E]; [|lia].
    unfold g in E. apply Z.gcd_eq_0_r in E. contradiction. }
  destruct (Z.eqb_spec g 0) as [E|_]; [lia|].
  pose proof (Zdivide_Zdiv_eq g a Hg0 (Z.gcd_divide_l a b)) as Ha.
  pose proof (Zdivide_Zdiv_eq g b Hg0 (Z.gcd_divide_r a b)) as Hb'.
  pose proof (Z.gcd_div_gcd a b g ltac:(lia) eq_refl) as Hco.
  set (a' := a / g) in *. set (b' := b / g) in *.
  assert (Qa : Z.quot a g = a').
  { rewrite Ha at 1. rewrite Z.mul_comm. apply Z.quot_mul. lia. }
  assert (Qb : Z.quot b g = b').
  { rewrite Hb' at 1. rewrite Z.mul_comm. apply Z.quot_mul. lia. }
  rewrite Qa, Qb.
  assert (Hb'0 : b' <> 0) by (intros E; rewrite E in Hb'; lia).
  destruct (Z.ltb_spec b' 0) as [Hneg|Hpos].
  - eexists; split; [reflexivity|]. unfold canonical; cbn [ra rb]. repeat split.
    + lia.
    + rewrite Z.gcd_opp_l, Z.gcd_opp_r. exact Hco.
    + clear Qa Qb Hco. clearbody a' b' g. subst a b. ring.
  - eexists; split; [reflexivity|]. unfold canonical; cbn [ra rb]. repeat split.
    + lia.
    + exact Hco.
    + clear Qa Qb Hco. clearbody a' b' g. subst a b. ring.
Qed.

Lemma to_Q_frac r a b : 0 < rb r -> b <> 0 -> ra r * b = a * rb r -> to_Q r == frac a b.
Proof.
  intros Hr Hb H. unfold frac, to_Q, Qdiv, Qeq, Qmult, Qinv, inject_Z.
  destruct b as [|p|p]; [contradiction| |]; cbn [Qnum Qden];
    rewrite ?Pos.mul_1_l, ?Pos.mul_1_r, Z2Pos.id by exact Hr.
  - rewrite Z.mul_1_r. exact H.
  - rewrite <- Pos2Z.opp_pos in *. lia.
Qed.

Theorem new_canonical a b : b <> 0 -> Z.abs b < 2 ^ 130 ->
  exists r, new a b = Some r /\ canonical r /\ to_Q r == frac a b.
Proof.
  intros Hb Hlt. destruct (norm_spec a b Hb Hlt) as (r & Hn & Hc & Hv).
  exists r. split; [exact Hn|]. split; [exact Hc|].
  apply to_Q_frac; [apply Hc|exact Hb|exact Hv].
Qed.

(** ---------- operators ---------- *)
Lemma small_mul u v : Z.abs u < 2 ^ 64 -> Z.abs v < 2 ^ 64 -> Z.abs (u * v) < 2 ^ 130.
Proof.
  intros Hu Hv. rewrite Z.abs_mul.
  pose proof (Z.abs_nonneg u) as Hu0. pose proof (Z.abs_nonneg v) as Hv0.
  assert (Hp : Z.abs u * Z.abs v < 2 ^ 64 * 2 ^ 64) by (apply Z.mul_lt_mono_nonneg; lia).
  assert (E : 2 ^ 64 * 2 ^ 64 < 2 ^ 130) by reflexivity. lia.
Qed.

Lemma den_id x : 0 < rb x -> Z.pos (Z.to_pos (rb x)) = rb x.
Proof. intros H. apply Z2Pos.id. exact H. Qed.

Lemma sign_transfer p D q u v : 0 < D -> 0 < q -> p * D = (u - v) * q -> (p ?= 0) = (u ?= v).
Proof.
  intros HD Hq H.
  rewrite (Zmult_compare_compat_r p 0 D) by lia. rewrite H, Z.mul_0_l.
  rewrite (Z.compare_sub u v).
  rewrite (Zmult_compare_compat_r (u - v) 0 q) by lia. rewrite Z.mul_0_l. reflexivity.
Qed.

Section Binary.
Variables x y : rat.
Hypothesis Hx : 0 < rb x.
Hypothesis Hy : 0 < rb y.
Hypothesis Sx : small x.
Hypothesis Sy : small y.

Lemma den_ok : rb x * rb y <> 0 /\ Z.abs (rb x * rb y) < 2 ^ 130.
Proof. split; [nia|]. apply small_mul; [apply Sx|apply Sy]. Qed.

Theorem add_exact : exists r, add x y = Some r /\ canonical r /\ to_Q r == to_Q x + to_Q y.
Proof.
  destruct den_ok as [Hd Hs]. unfold add.
  destruct (norm_spec (ra x * rb y + rb x * ra y) _ Hd Hs) as (r & Hn & Hc & Hv).
  exists r. split; [exact Hn|]. split; [exact Hc|].
  unfold to_Q, Qplus, Qeq; cbn [Qnum Qden].
  rewrite Pos2Z.inj_mul, !den_id by (exact Hx || exact Hy || apply Hc). lia.
Qed.

Theorem sub_exact : exists r, sub x y = Some r /\ canonical r /\ to_Q r == to_Q x - to_Q y.
Proof.
  destruct den_ok as [Hd Hs]. unfold sub.
  destruct (norm_spec (ra x * rb y - rb x * ra y) _ Hd Hs) as (r & Hn & Hc & Hv).
  exists r. split; [exact Hn|]. split; [exact Hc|].
  unfold to_Q, Qminus, Qplus, Qopp, Qeq; cbn [Qnum Qden].
  rewrite Pos2Z.inj_mul, !den_id by (exact Hx || exact Hy || apply Hc). lia.
Qed.

Theorem mul_exact : exists r, mul x y = Some r /\ canonical r /\ to_Q r == to_Q x * to_Q y.
Proof.
  destruct den_ok as [Hd Hs]. unfold mul.
  destruct (norm_spec (ra x * ra y) _ Hd Hs) as (r & Hn & Hc & Hv).
  exists r. split; [exact Hn|]. split; [exact Hc|].
  unfold to_Q, Qmult, Qeq; cbn [Qnum Qden].
  rewrite Pos2Z.inj_mul, !den_id by (exact Hx || exact Hy || apply Hc). lia.
Qed.

Theorem div_exact : ra y <> 0 -> exists r, div x y = Some r /\ canonical r /\ to_Q r == to_Q x / to_Q y.
Proof.
  intros Hy0. unfold div.
  assert (Hd : rb x * ra y <> 0) by nia.
  assert (Hs : Z.abs (rb x * ra y) < 2 ^ 130) by (apply small_mul; [apply Sx|apply Sy]).
  destruct (norm_spec (ra x * rb y) _ Hd Hs) as (r & Hn & Hc & Hv).
  exists r. split; [exact Hn|]. split; [exact Hc|].
  destruct Hc as [Hr _].
  unfold to_Q, Qdiv, Qmult, Qinv, Qeq; cbn [Qnum Qden].
  destruct (ra y) as [|p|p] eqn:Ey; [contradiction| |]; cbn [Qnum Qden];
    rewrite Pos2Z.inj_mul, !den_id by (exact Hx || exact Hy || exact Hr).
  - lia.
  - rewrite <- Pos2Z.opp_pos in *. rewrite den_id by exact Hy. lia.
Qed.

(** Ord::cmp is the order of Q *)
Theorem cmp_spec : cmp x y = Some (to_Q x ?= to_Q y)%Q.
Proof.
  destruct den_ok as [Hd Hb]. unfold cmp, sub, new.
  destruct (norm_spec (ra x * rb y - rb x * ra y) _ Hd Hb) as (r & Hn & [Hr _] & Hv).
  rewrite Hn. f_equal.
  unfold Qcompare, to_Q; cbn [Qnum Qden]. rewrite !den_id by (exact Hx || exact Hy).
  apply sign_transfer with (D := rb x * rb y) (q := rb r); [nia|exact Hr|].
  rewrite Hv. ring.
Qed.
End Binary.

(** ---------- negation ---------- *)
Theorem neg_exact x : canonical x -> canonical (neg x) /\ to_Q (neg x) == - to_Q x.
Proof.
  intros [Hb Hg]. unfold neg, canonical, to_Q; cbn [ra rb]. repeat split.
  - exact Hb.
  - rewrite Z.gcd_opp_l. exact Hg.
Qed.

(** ---------- canonical forms are unique ---------- *)
Theorem canonical_eq x y : canonical x -> canonical y -> to_Q x == to_Q y -> x = y.
Proof.
  intros [Hx Gx] [Hy Gy] H. unfold to_Q, Qeq in H; cbn [Qnum Qden] in H.
  rewrite !den_id in H by assumption.
  destruct x as [xa xb], y as [ya yb]; cbn [ra rb] in *.
  assert (D1 : (xb | yb)).
  { apply Z.gauss with (m := xa); [|rewrite Z.gcd_comm; exact Gx].
    exists ya. lia. }
  assert (D2 : (yb | xb)).
  { apply Z.gauss with (m := ya); [|rewrite Z.gcd_comm; exact Gy].
    exists xa. lia. }
  assert (E : xb = yb) by (apply Z.divide_antisym_nonneg; lia || assumption).
  subst yb. f_equal. nia.
Qed.

Theorem cmp_eq_iff x y : canonical x -> canonical y -> small x -> small y ->
  (cmp x y = Some Eq <-> x = y).
Proof.
  intros Cx Cy Sx Sy. rewrite (cmp_spec x y (proj1 Cx) (proj1 Cy) Sx Sy). split.
  - intros H. injection H as H. apply canonical_eq; [exact Cx|exact Cy|]. apply Qeq_alt. exact H.
  - intros ->. f_equal. apply Qeq_alt. reflexivity.
Qed.

(** ---------- floor / ceil ---------- *)
Theorem floor_spec x : 0 < rb x -> floor x = Some (Rat (Qfloor (to_Q x)) 1).
Proof.
  intros Hb. unfold floor, to_Q, Qfloor. rewrite den_id by exact Hb.
  destruct (Z.eqb_spec (rb x) 0) as [E|_]; [lia|].
  set (a := ra x). set (b := rb x) in *.
  destruct (Z.geb_spec a 0) as [Ha|Ha].
  - rewrite Z.quot_div_nonneg by lia. reflexivity.
  - do 2 f_equal.
    replace (a - b + 1) with (- (b - a - 1)) by ring.
    rewrite Z.quot_opp_l, Z.quot_div_nonneg by lia.
    pose proof (Z.div_mod a b ltac:(lia)) as Hdm. pose proof (Z.mod_pos_bound a b Hb) as Hm.
    symmetry. rewrite <- (Z.opp_involutive (a / b)). f_equal.
    apply Z.div_unique with (r := b - 1 - a mod b); [lia|]. lia.
Qed.

Theorem ceil_spec x : 0 < rb x -> ceil x = Some (Rat (Qceiling (to_Q x)) 1).
Proof.
  intros Hb. unfold ceil, to_Q, Qceiling, Qfloor, Qopp; cbn [Qnum Qden]. rewrite den_id by exact Hb.
  destruct (Z.eqb_spec (rb x) 0) as [E|_]; [lia|].
  set (a := ra x). set (b := rb x) in *.
  destruct (Z.geb_spec a 0) as [Ha|Ha].
  - do 2 f_equal. rewrite Z.quot_div_nonneg by lia.
    pose proof (Z.div_mod (- a) b ltac:(lia)) as Hdm. pose proof (Z.mod_pos_bound (- a) b Hb) as Hm.
    set (k := - a / b) in *. set (m := (- a) mod b) in *.
    symmetry. apply Z.div_unique with (r := b - 1 - m); [lia|]. lia.
  - do 2 f_equal. rewrite <- (Z.opp_involutive a) at 1.
    rewrite Z.quot_opp_l, Z.quot_div_nonneg by lia. reflexivity.
Qed.

(** ---------- structural equality = numeric equality on canonical values ---------- *)
Lemma eqb_eq x y : eqb x y = true <-> x = y.
Proof.
  unfold eqb. rewrite andb_true_iff, !Z.eqb_eq. destruct x as [xa xb], y as [ya yb]; cbn [ra rb]. split.
  - intros [-> ->]. reflexivity.
  - intros H. injection H as -> ->. split; reflexivity.
Qed.

Theorem eqb_numeric x y : canonical x -> canonical y -> (eqb x y = true <-> to_Q x == to_Q y).
Proof.
  intros Cx Cy. rewrite eqb_eq. split.
  - intros ->. reflexivity.
  - apply canonical_eq; assumption.
Qed.

Theorem new_int_spec a : canonical (new_int a) /\ to_Q (new_int a) == inject_Z a.
Proof.
  unfold canonical, new_int, to_Q; cbn [ra rb]. split; [split|].
  - reflexivity.
  - apply Z.gcd_1_r.
  - reflexivity.
Qed.

(** floor/ceil as order statements: greatest integer <= x, least integer >= x *)
Theorem floor_bounds x : 0 < rb x ->
  exists n, floor x = Some (Rat n 1) /\ (inject_Z n <= to_Q x)%Q /\ (to_Q x < inject_Z (n + 1))%Q.
Proof.
  intros H. exists (Qfloor (to_Q x)). split; [apply floor_spec; exact H|].
  split; [apply Qfloor_le|apply Qlt_floor].
Qed.
Theorem ceil_bounds x : 0 < rb x ->
  exists n, ceil x = Some (Rat n 1) /\ (inject_Z (n - 1) < to_Q x)%Q /\ (to_Q x <= inject_Z n)%Q.
Proof.
  intros H. exists (Qceiling (to_Q x)). split; [apply ceil_spec; exact H|].
  split; [apply Qceiling_lt|apply Qle_ceiling].
Qed.
