(** C07 — non-vacuity: the model runs on literals, and every hypothesis of every
    property theorem has a concrete instance. *)
From Coq Require Import ZArith QArith Qround Lia String List.
Import ListNotations.
From RlibV Require Import C11.Model C07.Model C07.Spec C07.Properties.
Open Scope Z_scope.

Example ex_new : new 6 (-4) = Some (Rat (-3) 2). Proof. vm_compute. reflexivity. Qed.
Example ex_new_zero_den_panics : new 0 0 = None. Proof. vm_compute. reflexivity. Qed.
Example ex_add : add (Rat 1 6) (Rat 1 3) = Some (Rat 1 2). Proof. vm_compute. reflexivity. Qed.
Example ex_sub : sub (Rat 1 6) (Rat 1 3) = Some (Rat (-1) 6). Proof. vm_compute. reflexivity. Qed.
Example ex_mul : mul (Rat (-2) 3) (Rat 3 4) = Some (Rat (-1) 2). Proof. vm_compute. reflexivity. Qed.
Example ex_div : div (Rat 2 3) (Rat (-4) 9) = Some (Rat (-3) 2). Proof. vm_compute. reflexivity. Qed.
Example ex_cmp : cmp (Rat (-1) 2) (Rat (-1) 3) = Some Lt. Proof. vm_compute. reflexivity. Qed.
Example ex_floor : floor (Rat (-7) 2) = Some (Rat (-4) 1). Proof. vm_compute. reflexivity. Qed.
Example ex_ceil : ceil (Rat (-7) 2) = Some (Rat (-3) 1). Proof. vm_compute. reflexivity. Qed.
Example ex_floor_pos : floor (Rat 7 2) = Some (Rat 3 1). Proof. vm_compute. reflexivity. Qed.
Example ex_ceil_pos : ceil (Rat 7 2) = Some (Rat 4 1). Proof. vm_compute. reflexivity. Qed.
Example ex_display : display (Rat (-3) 2) = "-3/2"%string. Proof. vm_compute. reflexivity. Qed.

(** hypotheses are satisfiable *)
Lemma small_ex a b : Z.abs a < 2 ^ 64 -> Z.abs b < 2 ^ 64 -> small (Rat a b).
Proof. intros; split; assumption. Qed.
Lemma canon_m7_2 : canonical (Rat (-7) 2). Proof. split; reflexivity. Qed.
Lemma canon_3_4 : canonical (Rat 3 4). Proof. split; reflexivity. Qed.
Lemma small_m7_2 : small (Rat (-7) 2). Proof. split; reflexivity. Qed.
Lemma small_3_4 : small (Rat 3 4). Proof. split; reflexivity. Qed.

Example use_new := c07_new_canonical 6 (-4) ltac:(lia) eq_refl.
Example use_add := c07_add_exact _ _ (proj1 canon_m7_2) (proj1 canon_3_4) small_m7_2 small_3_4.
Example use_sub := c07_sub_exact _ _ (proj1 canon_m7_2) (proj1 canon_3_4) small_m7_2 small_3_4.
Example use_mul := c07_mul_exact _ _ (proj1 canon_m7_2) (proj1 canon_3_4) small_m7_2 small_3_4.
Example use_div := c07_div_exact (Rat 3 4) (Rat (-7) 2) eq_refl eq_refl small_3_4 small_m7_2 ltac:(cbn; lia).
Example use_neg := c07_neg _ canon_m7_2.
Example use_cmp := c07_cmp _ _ (proj1 canon_m7_2) (proj1 canon_3_4) small_m7_2 small_3_4.
Example use_cmp_eq := c07_cmp_eq _ _ canon_m7_2 canon_3_4 small_m7_2 small_3_4.
Example use_floor := c07_floor (Rat (-7) 2) eq_refl.
Example use_ceil := c07_ceil (Rat (-7) 2) eq_refl.
Example use_canonical_eq : Rat 3 4 = Rat 3 4 := c07_canonical_eq _ _ canon_3_4 canon_3_4 (Qeq_refl _).
Example use_eq_numeric := c07_eq_numeric _ _ canon_m7_2 canon_3_4.

(** the no-overflow theorems: the boxes are inhabited, at their corners too *)
From RlibV Require Import C07.Trace.
Lemma within_corner : within (2 ^ 30) (Rat (- 2 ^ 30) (2 ^ 30 - 1)).
Proof. split; cbn; lia. Qed.
Lemma within_corner14 : within (2 ^ 14) (Rat (- 2 ^ 14) (2 ^ 14 - 1)).
Proof. split; cbn; lia. Qed.
Example use_fits := c07_fits_2_30 _ _ (2 ^ 30) (- 2 ^ 30) within_corner within_corner ltac:(cbn; lia) ltac:(cbn; lia).
Example use_fits14 := c07_fits_i32_2_14 _ _ (2 ^ 14) (- 2 ^ 14) within_corner14 within_corner14 ltac:(cbn; lia) ltac:(cbn; lia).
Example use_fits_general := c07_fits_general 7 (Rat 3 (-7)) (Rat (-7) 5) 7 (-7) ltac:(lia) eq_refl
  ltac:(split; cbn; lia) ltac:(split; cbn; lia) ltac:(cbn; lia) ltac:(cbn; lia).
Example ex_add_trace : add_t (Rat 1 6) (Rat 1 3) = (Some (Rat 1 2), [2; 1; 0; 9; 18; 9; 9; 18; 3; 6; 1; 6; 1; 3]).
Proof. vm_compute. reflexivity. Qed.

(** model_check -> spec_check: an in-scope case on which the implementation agreed with the model *)
From RlibV Require Import C07.Corr C07.Scope.
Definition ex_case := Case FAsgRef OSub 0 (-3) (-3) (-2) (RRat (-3) 2).
Lemma ex_case_in_scope : in_scope ex_case. Proof. repeat split. Qed.
Lemma ex_case_model : model_check ex_case = true. Proof. vm_compute. reflexivity. Qed.
Example use_model_implies_spec : spec_check ex_case = true :=
  c07_model_implies_spec ex_case ex_case_in_scope ex_case_model.

Example use_floor_greatest := c07_floor_greatest (Rat (-7) 2) eq_refl.
Example use_ceil_least := c07_ceil_least (Rat (-7) 2) eq_refl.

(** unreduced operands: 2/4 and 6/9 behave like 1/2 and 2/3 *)
Lemma small_2_4 : small (Rat 2 4). Proof. split; reflexivity. Qed.
Lemma small_6_9 : small (Rat 6 9). Proof. split; reflexivity. Qed.
Lemma new_2_4 : new (ra (Rat 2 4)) (rb (Rat 2 4)) = Some (Rat 1 2). Proof. vm_compute. reflexivity. Qed.
Lemma new_6_9 : new (ra (Rat 6 9)) (rb (Rat 6 9)) = Some (Rat 2 3). Proof. vm_compute. reflexivity. Qed.
Example use_unreduced_same := c07_unreduced_same (Rat 2 4) (Rat 6 9) (Rat 1 2) (Rat 2 3) eq_refl eq_refl small_2_4 small_6_9 new_2_4 new_6_9.
Example ex_unreduced_add : add (Rat 2 4) (Rat 6 9) = Some (Rat 7 6). Proof. vm_compute. reflexivity. Qed.
Example use_new_canonical_id := c07_new_canonical_id (Rat (-7) 2) canon_m7_2 eq_refl.
