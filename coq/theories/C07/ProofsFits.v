(** C07 — no intermediate value overflows inside the property's box. *)
From Coq Require Import ZArith List Lia Bool.
From RlibV Require Import Common.Iter C11.Model C11.Trace C11.Properties C07.Model C07.Trace.
Import ListNotations.
Open Scope Z_scope.

(** ---- the instrumented variants compute the model's results ---- *)
Lemma gcd_t_fst a b : fst (gcd_t a b) = gcd a b.
Proof. exact (proj1 (c11_trace_same a b 0 0 0 0 0)). Qed.

Lemma norm_t_same r : fst (norm_t r) = norm r.
Proof.
  unfold norm_t, norm. pose proof (gcd_t_fst (ra r) (rb r)) as H.
  destruct (gcd_t (ra r) (rb r)) as [og tr]. cbn [fst] in H. subst og.
  destruct (gcd (ra r) (rb r)) as [g|]; [|reflexivity].
  destruct (g =? 0); [reflexivity|].
  destruct (Z.quot (rb r) g <? 0); reflexivity.
Qed.

Lemma new_t_same a b : fst (new_t a b) = new a b.
Proof.
  unfold new_t, new. pose proof (norm_t_same (Rat a b)) as H.
  destruct (norm_t (Rat a b)) as [r tr]. exact H.
Qed.

Ltac via_new n d :=
  let H := fresh in pose proof (new_t_same n d) as H;
  destruct (new_t n d) as [? ?]; exact H.

Lemma add_t_same x y : fst (add_t x y) = add x y.
Proof. unfold add_t, add. via_new (ra x * rb y + rb x * ra y) (rb x * rb y). Qed.
Lemma sub_t_same x y : fst (sub_t x y) = sub x y.
Proof. unfold sub_t, sub. via_new (ra x * rb y - rb x * ra y) (rb x * rb y). Qed.
Lemma mul_t_same x y : fst (mul_t x y) = mul x y.
Proof. unfold mul_t, mul. via_new (ra x * ra y) (rb x * rb y). Qed.
Lemma div_t_same x y : fst (div_t x y) = div x y.
Proof. unfold div_t, div. via_new (ra x * rb y) (rb x * ra y). Qed.
Lemma cmp_t_same x y : fst (cmp_t x y) = cmp x y.
Proof.
  unfold cmp_t, cmp. pose proof (sub_t_same x y) as H.
  destruct (sub_t x y) as [r tr]. cbn [fst] in *. subst r. reflexivity.
Qed.
Lemma floor_t_same x : fst (floor_t x) = floor x.
Proof. unfold floor_t, floor. destruct (rb x =? 0); [reflexivity|]. destruct (ra x >=? 0); reflexivity. Qed.
Lemma ceil_t_same x : fst (ceil_t x) = ceil x.
Proof. unfold ceil_t, ceil. destruct (rb x =? 0); [reflexivity|]. destruct (ra x >=? 0); reflexivity. Qed.

Theorem trace_same x y a b :
  fst (new_t a b) = new a b /\ fst (add_t x y) = add x y /\ fst (sub_t x y) = sub x y /\
  fst (mul_t x y) = mul x y /\ fst (div_t x y) = div x y /\ fst (neg_t x) = neg x /\
  fst (cmp_t x y) = cmp x y /\ fst (floor_t x) = floor x /\ fst (ceil_t x) = ceil x.
Proof.
  repeat split; auto using new_t_same, add_t_same, sub_t_same, mul_t_same, div_t_same,
    cmp_t_same, floor_t_same, ceil_t_same.
Qed.

(** ---- bounds ---- *)
Lemma abs_mul_le u v M N : Z.abs u <= M -> Z.abs v <= N -> Z.abs (u * v) <= M * N.
Proof.
  intros Hu Hv. rewrite Z.abs_mul.
  apply Z.mul_le_mono_nonneg; try assumption; apply Z.abs_nonneg.
Qed.

Lemma abs_quot_le n g : g <> 0 -> Z.abs (Z.quot n g) <= Z.abs n.
Proof.
  intros Hg. rewrite <- Z.quot_abs by lia.
  pose proof (Z.abs_nonneg n) as Hn. assert (Hg' : 0 < Z.abs g) by lia.
  rewrite Z.quot_div_nonneg by lia.
  apply Z.div_le_upper_bound; [lia|]. nia.
Qed.

Lemma all_below_weaken B l M : Forall (fun v => Z.abs v <= M) l -> M < B -> all_below B l.
Proof. intros H HM. unfold all_below. eapply Forall_impl; [|exact H]. cbn. intros; lia. Qed.

(** [new n d] with |n|, |d| <= M, M >= 1: everything stays <= M *)
Lemma new_t_bound n d M : 1 <= M < 2 ^ 130 -> Z.abs n <= M -> Z.abs d <= M ->
  Forall (fun v => Z.abs v <= M) (snd (new_t n d)).
Proof.
  intros HM Hn Hd. unfold new_t, norm_t. cbn [ra rb].
  pose proof (c11_fits_general M n d 0 ltac:(lia) Hn Hd ltac:(lia)) as (Hg & _ & _).
  pose proof (gcd_t_fst n d) as Hf. rewrite (c11_gcd n d) in Hf by lia.
  destruct (gcd_t n d) as [og tr]. cbn [fst snd] in *. subst og.
  assert (Hnd : Forall (fun v => Z.abs v <= M) [n; d]) by (repeat constructor; assumption).
  pose proof (Z.gcd_nonneg n d) as Hg0. set (g := Z.gcd n d) in *.
  destruct (Z.eqb_spec g 0) as [E|E]; [cbn [snd]; apply Forall_app; split; assumption|].
  pose proof (abs_quot_le n g ltac:(lia)) as Qn. pose proof (abs_quot_le d g ltac:(lia)) as Qd.
  destruct (Z.quot d g <? 0); cbn [snd]; apply Forall_app; (split; [|assumption]);
    apply Forall_app; (split; [|assumption]); repeat constructor; rewrite ?Z.abs_opp; lia.
Qed.

Section Ops.
Variable M : Z.
Hypothesis HM : 1 <= M.
Hypothesis HMM : 2 * (M * M) < 2 ^ 130.
Variables x y : rat.
Hypothesis Wx : within M x.
Hypothesis Wy : within M y.

Let B := 2 * (M * M).

Lemma M_le_B : M <= B. Proof. unfold B. nia. Qed.
Lemma MM_le_B : M * M <= B. Proof. unfold B. nia. Qed.

Lemma operands_bound : Forall (fun v => Z.abs v <= B) (operands x y).
Proof.
  pose proof M_le_B. destruct Wx, Wy. unfold operands. repeat constructor; lia.
Qed.

Lemma prods :
  Z.abs (ra x * rb y) <= M * M /\ Z.abs (rb x * ra y) <= M * M /\
  Z.abs (rb x * rb y) <= M * M /\ Z.abs (ra x * ra y) <= M * M.
Proof. destruct Wx, Wy. repeat split; apply abs_mul_le; assumption. Qed.

Lemma HB : 1 <= B < 2 ^ 130. Proof. pose proof M_le_B. unfold B in *. lia. Qed.

Lemma add_bound : Forall (fun v => Z.abs v <= B) (snd (add_t x y)).
Proof.
  destruct prods as (P1 & P2 & P3 & P4). pose proof MM_le_B as HMB. unfold add_t.
  pose proof (new_t_bound (ra x * rb y + rb x * ra y) (rb x * rb y) B HB
                ltac:(unfold B; lia) ltac:(lia)) as Hn.
  destruct (new_t _ _) as [r tr]. cbn [snd] in *.
  apply Forall_app; split; [exact Hn|]. apply Forall_app; split; [|exact operands_bound].
  repeat constructor; lia.
Qed.

Lemma sub_bound : Forall (fun v => Z.abs v <= B) (snd (sub_t x y)).
Proof.
  destruct prods as (P1 & P2 & P3 & P4). pose proof MM_le_B as HMB. unfold sub_t.
  pose proof (new_t_bound (ra x * rb y - rb x * ra y) (rb x * rb y) B HB
                ltac:(unfold B; lia) ltac:(lia)) as Hn.
  destruct (new_t _ _) as [r tr]. cbn [snd] in *.
  apply Forall_app; split; [exact Hn|]. apply Forall_app; split; [|exact operands_bound].
  repeat constructor; lia.
Qed.

Lemma mul_bound : Forall (fun v => Z.abs v <= B) (snd (mul_t x y)).
Proof.
  destruct prods as (P1 & P2 & P3 & P4). pose proof MM_le_B as HMB. unfold mul_t.
  pose proof (new_t_bound (ra x * ra y) (rb x * rb y) B HB ltac:(lia) ltac:(lia)) as Hn.
  destruct (new_t _ _) as [r tr]. cbn [snd] in *.
  apply Forall_app; split; [exact Hn|exact operands_bound].
Qed.

Lemma div_bound : Forall (fun v => Z.abs v <= B) (snd (div_t x y)).
Proof.
  destruct prods as (P1 & P2 & P3 & P4). pose proof MM_le_B as HMB. unfold div_t.
  pose proof (new_t_bound (ra x * rb y) (rb x * ra y) B HB ltac:(lia) ltac:(lia)) as Hn.
  destruct (new_t _ _) as [r tr]. cbn [snd] in *.
  apply Forall_app; split; [exact Hn|exact operands_bound].
Qed.

Lemma cmp_bound : Forall (fun v => Z.abs v <= B) (snd (cmp_t x y)).
Proof.
  pose proof sub_bound as H. unfold cmp_t. destruct (sub_t x y) as [r tr]. exact H.
Qed.

Lemma neg_bound : Forall (fun v => Z.abs v <= M) (snd (neg_t x)).
Proof. destruct Wx. unfold neg_t; cbn [snd]. repeat constructor; rewrite ?Z.abs_opp; lia. Qed.

Lemma floor_bound : Forall (fun v => Z.abs v <= 2 * M + 1) (snd (floor_t x)).
Proof.
  destruct Wx as [Ha Hb]. unfold floor_t.
  destruct (Z.eqb_spec (rb x) 0) as [E|E]; [cbn [snd]; repeat constructor; lia|].
  destruct (ra x >=? 0); cbn [snd].
  - pose proof (abs_quot_le (ra x) (rb x) E). repeat constructor; lia.
  - pose proof (abs_quot_le (ra x - rb x + 1) (rb x) E). repeat constructor; lia.
Qed.

Lemma ceil_bound : Forall (fun v => Z.abs v <= 2 * M + 1) (snd (ceil_t x)).
Proof.
  destruct Wx as [Ha Hb]. unfold ceil_t.
  destruct (Z.eqb_spec (rb x) 0) as [E|E]; [cbn [snd]; repeat constructor; lia|].
  destruct (ra x >=? 0); cbn [snd].
  - pose proof (abs_quot_le (ra x + rb x - 1) (rb x) E). repeat constructor; lia.
  - pose proof (abs_quot_le (ra x) (rb x) E). repeat constructor; lia.
Qed.
End Ops.

(** general form: operands bounded by M keep every intermediate of the binary operators and of cmp
    below or at 2*M*M, of floor/ceil at 2*M+1, of neg and new at M *)
Theorem fits_general M x y a b : 1 <= M -> 2 * (M * M) < 2 ^ 130 -> within M x -> within M y ->
  Z.abs a <= M -> Z.abs b <= M ->
  let le B := Forall (fun v => Z.abs v <= B) in
  le M (snd (new_t a b)) /\ le (2 * (M * M)) (snd (add_t x y)) /\ le (2 * (M * M)) (snd (sub_t x y)) /\
  le (2 * (M * M)) (snd (mul_t x y)) /\ le (2 * (M * M)) (snd (div_t x y)) /\ le M (snd (neg_t x)) /\
  le (2 * (M * M)) (snd (cmp_t x y)) /\ le (2 * M + 1) (snd (floor_t x)) /\ le (2 * M + 1) (snd (ceil_t x)).
Proof.
  intros HM HMM Wx Wy Ha Hb le. unfold le.
  split; [apply new_t_bound; [nia|assumption|assumption]|].
  repeat split; auto using add_bound, sub_bound, mul_bound, div_bound, cmp_bound, neg_bound, floor_bound, ceil_bound.
Qed.

(** the property's box: |.| <= 2^30 over i64 — nothing reaches 2^62 *)
Theorem fits_2_30 x y a b : within (2 ^ 30) x -> within (2 ^ 30) y -> Z.abs a <= 2 ^ 30 -> Z.abs b <= 2 ^ 30 ->
  all_below (2 ^ 62) (snd (new_t a b)) /\ all_below (2 ^ 62) (snd (add_t x y)) /\
  all_below (2 ^ 62) (snd (sub_t x y)) /\ all_below (2 ^ 62) (snd (mul_t x y)) /\
  all_below (2 ^ 62) (snd (div_t x y)) /\ all_below (2 ^ 62) (snd (neg_t x)) /\
  all_below (2 ^ 62) (snd (cmp_t x y)) /\ all_below (2 ^ 62) (snd (floor_t x)) /\
  all_below (2 ^ 62) (snd (ceil_t x)).
Proof.
  intros Wx Wy Ha Hb.
  destruct (fits_general (2 ^ 30) x y a b ltac:(lia) ltac:(reflexivity) Wx Wy Ha Hb)
    as (H1 & H2 & H3 & H4 & H5 & H6 & H7 & H8 & H9).
  repeat split; eapply all_below_weaken; try eassumption; reflexivity.
Qed.

(** the i32 box used by the executor: |.| <= 2^14 — nothing reaches 2^30 *)
Theorem fits_i32_2_14 x y a b : within (2 ^ 14) x -> within (2 ^ 14) y -> Z.abs a <= 2 ^ 14 -> Z.abs b <= 2 ^ 14 ->
  all_below (2 ^ 30) (snd (new_t a b)) /\ all_below (2 ^ 30) (snd (add_t x y)) /\
  all_below (2 ^ 30) (snd (sub_t x y)) /\ all_below (2 ^ 30) (snd (mul_t x y)) /\
  all_below (2 ^ 30) (snd (div_t x y)) /\ all_below (2 ^ 30) (snd (neg_t x)) /\
  all_below (2 ^ 30) (snd (cmp_t x y)) /\ all_below (2 ^ 30) (snd (floor_t x)) /\
  all_below (2 ^ 30) (snd (ceil_t x)).
Proof.
  intros Wx Wy Ha Hb.
  destruct (fits_general (2 ^ 14) x y a b ltac:(lia) ltac:(reflexivity) Wx Wy Ha Hb)
    as (H1 & H2 & H3 & H4 & H5 & H6 & H7 & H8 & H9).
  repeat split; eapply all_below_weaken; try eassumption; reflexivity.
Qed.
