(** C13 — the literal stop-flag inner loop equals its take-while form. *)
From mathcomp Require Import all_ssreflect.
From RlibV Require Import C13.Model.
Set Implicit Arguments.
Unset Strict Implicit.
Unset Printing Implicit Defensive.

Lemma inner_stopped n i m ps : foldl (inner_step n i) (true, m) ps = (true, m).
Proof. by elim: ps => [|p ps IH] //=. Qed.

(** once the break condition holds nothing more is written; until then every prime of the prefix is
    written; the test reads mnp[i], which no write of the loop touches because p * i <> i *)
Lemma inner_takewhile n i ps m :
  0 < i -> 1 \notin ps -> inner n i ps m = inner_tw n i ps m.
Proof.
move=> i0; rewrite /inner /inner_tw.
elim: ps m => [|p ps IH] m //=.
rewrite inE negb_or => /andP [p1 nps].
case: ifP => [_|c] /=; first by rewrite inner_stopped.
rewrite IH // nth_set_nth /= ifN //.
rewrite -{1}[i]mul1n eqn_pmul2r //.
Qed.

(** on an increasing list a downward-closed test cuts exactly the elements that fail it *)
Lemma takewhile_filter (a : pred nat) (s : seq nat) :
  sorted leq s -> (forall x y, x <= y -> a y -> a x) -> takewhile a s = filter a s.
Proof.
move=> ss amono; elim: s ss => [|x s IH] //= px.
have ss := path_sorted px.
case: ifP => ax; first by rewrite IH.
rewrite -(filter_pred0 s); apply: eq_in_filter => y ys /=.
have xy : x <= y by move/(order_path_min leq_trans)/allP: px; apply.
by apply/esym/negbTE/negP => ay; move: (amono _ _ xy ay); rewrite ax.
Qed.
