(** C13 — [model_check c = true -> spec_check c = true] for every case, unconditionally.

    When the implementation's dumped tables / factorisation lists equal what the verified model
    computes ([model_check]), they satisfy the model-independent trial-division specification of
    Corr.v ([spec_check]); so the batch lemma about the model carries the specification to the
    implementation by proof.  No side condition is needed: a negative limit fails [model_check]
    itself ([0 <=? n]), [CPanic] and [CIncoherent] fail it by definition, and [Z.to_nat]/[Z.of_nat] round-trip on n >= 0.

    Route: (1) the Z trial division [ld (cands_upto N) k] is mathcomp's [pdiv k] for 2 <= k <= N
    (the [d*d > k] cut is sound: [ltn_pdiv2_prime]), hence [primeb] is [prime] on 0..N;
    (2) CTab: the observed lists are the model's tables; [sizes_correct], [min_prime_correct],
    [is_prime_correct], [primes_correct] give [tab_ok] and the prime list;
    (3) CFact: splitting the flat list at -1 gives back one record per m (no record contains -1);
    for 1 <= m <= N the record is [prime_decomp m] ([factorize_correct]), whose primes are <= N,
    strictly increasing from above 1, with positive exponents and product m; m = 0 is ignored by
    the specification whatever the model returns.

    Mixed style by necessity (Corr.v is standard-library style over Z, the theorems are ssreflect):
    ssreflect tactics, [lia] (with the mathcomp zify instances) for the nat/Z conversions.
    [List.map], [List.filter], [List.length], [app] are convertible with [map], [filter], [size], [cat]. *)
From Coq Require Import List ZArith Bool String Ascii Lia.
From mathcomp Require Import all_ssreflect zify.
From RlibV Require Import Common.Batch C13.Model C13.Corr C13.ProofsInv C13.ProofsFact.
Set Implicit Arguments.
Unset Strict Implicit.
Unset Printing Implicit Defensive.
(* Corr.v opens Z_scope and that is exported; here nat is the default, Z terms carry %Z *)
Local Close Scope Z_scope.

(** * nat / Z bridging *)
Lemma modn_mod (a k : nat) : 0 < a -> k %% a = Nat.modulo k a.
Proof.
move=> a0; apply: (@Nat.mod_unique k a (k %/ a)); first exact/ltP/ltn_pmod.
by rewrite {1}(divn_eq k a) mulnC.
Qed.

Lemma Zmod_dvdn (a k : nat) : 0 < a -> (Z.of_nat k mod Z.of_nat a =? 0)%Z = (a %| k).
Proof. by move=> a0; rewrite -Nat2Z.inj_mod -modn_mod // /dvdn; lia. Qed.

Lemma Zsq_gt (a k : nat) : (Z.of_nat a * Z.of_nat a >? Z.of_nat k)%Z = (k < a * a).
Proof. lia. Qed.

Lemma seq_iota a n : List.seq a n = iota a n.
Proof. by elim: n a => //= n IH a; rewrite IH. Qed.

(** no divisor in [2, a) *)
Definition nodiv (a k : nat) := forall d, 1 < d < a -> ~~ (d %| k).

Lemma nodiv_pdiv a k : 1 < k -> nodiv a k -> a <= pdiv k.
Proof.
move=> k1 nd; rewrite leqNgt; apply/negP => lt.
have := nd (pdiv k); rewrite lt pdiv_dvd prime_gt1 ?pdiv_prime //.
by move=> /(_ isT).
Qed.

Lemma ld_iota a len k :
  1 < a -> 1 < k -> k < a + len -> nodiv a k ->
  ld (List.map Z.of_nat (iota a len)) (Z.of_nat k) = Z.of_nat (pdiv k).
Proof.
elim: len a => [|len IH] a a1 k1 klt nd.
  have := nodiv_pdiv k1 nd; have := pdiv_leq (ltnW k1); lia.
have a0 : 0 < a by apply: ltnW.
have ple := nodiv_pdiv k1 nd.
rewrite /= Zsq_gt Zmod_dvdn //.
case: ltnP => [lt|ge].
  congr Z.of_nat; apply/esym/pdiv_id/ltn_pdiv2_prime; first exact: ltnW.
  by apply: (leq_trans lt); rewrite -mulnn leq_mul.
case: (boolP (a %| k)) => [ak|nak].
  by congr Z.of_nat; apply/eqP; rewrite eqn_leq ple pdiv_min_dvd.
apply: IH => //.
  by rewrite addSnnS.
move=> d /andP [d1]; rewrite ltnS leq_eqVlt => /orP [/eqP -> //|da].
by apply: nd; rewrite d1.
Qed.

Lemma cands_upto_iota N : cands_upto (Z.of_nat N) = List.map Z.of_nat (iota 2 (N - 1)).
Proof. by rewrite /cands_upto Nat2Z.id seq_iota. Qed.

Lemma ld_pdiv N k : 1 < k <= N -> ld (cands_upto (Z.of_nat N)) (Z.of_nat k) = Z.of_nat (pdiv k).
Proof.
move=> /andP [k1 kN]; rewrite cands_upto_iota; apply: ld_iota => //; first by lia.
by move=> d /andP [d1]; rewrite ltnNge d1.
Qed.

Lemma pdiv_eq_prime k : 1 < k -> (pdiv k == k) = prime k.
Proof.
move=> k1; apply/eqP/idP => [<-|/pdiv_id //]; exact: pdiv_prime.
Qed.

Lemma primeb_prime N k : k <= N -> primeb (cands_upto (Z.of_nat N)) (Z.of_nat k) = prime k.
Proof.
move=> kN; rewrite /primeb; case: (ltnP 1 k) => k1.
  rewrite ld_pdiv ?k1 // -pdiv_eq_prime //.
  have -> : (2 <=? Z.of_nat k)%Z = true by lia.
  by rewrite /=; lia.
have -> : (2 <=? Z.of_nat k)%Z = false by lia.
by case: k k1 {kN} => [|[|]].
Qed.

(** * bridging: Batch.leqb, strings *)
Lemma leqb_Zeqb x y : leqb Z.eqb x y = true -> x = y.
Proof. by elim: x y => [|a x IH] [|b y] //= /andP [/Z.eqb_eq -> /IH ->]. Qed.

Lemma leqb_Zeqb_refl x : leqb Z.eqb x x = true.
Proof. by elim: x => //= a x ->; rewrite Z.eqb_refl. Qed.

Lemma bits_bstr l : bits (bstr l) = l.
Proof. by elim: l => //= [[|]] l ->. Qed.

Lemma only01_bstr l : only01 (bstr l) = true.
Proof. by elim: l => //= [[|]] l ->. Qed.

(** * CTab *)
Lemma tab_ok_of N k ml bl :
  size ml = size bl -> k + size ml <= N.+1 ->
  (forall j, j < size ml ->
     if k + j < 2 then nth false bl j = false
     else nth 0 ml j = pdiv (k + j) /\ nth false bl j = prime (k + j)) ->
  tab_ok (cands_upto (Z.of_nat N)) (Z.of_nat k) (zs ml) bl = true.
Proof.
elim: ml k bl => [|x ml IH] k [|y bl] //= [sz] kN H.
have := H 0 (ltn0Sn _); rewrite addn0 /= => H0.
have -> : (Z.of_nat k + 1)%Z = Z.of_nat k.+1 by lia.
rewrite IH ?andbT //; first last.
- by move=> j jlt; have := H j.+1; rewrite ltnS addSnnS; apply.
- by rewrite addSnnS.
case: ltnP H0 => [k2 ->|k2 [-> ->]].
  by have -> : (Z.of_nat k <? 2)%Z = true by lia.
have -> : (Z.of_nat k <? 2)%Z = false by lia.
have kN' : k <= N by rewrite -ltnS (leq_trans _ kN) // addnS ltnS leq_addr.
rewrite ld_pdiv ?k2 // Z.eqb_refl /= -pdiv_eq_prime //.
by case: eqP => e; lia.
Qed.

Lemma filter_primeb N l : all (fun k => k <= N) l ->
  List.filter (primeb (cands_upto (Z.of_nat N))) (List.map Z.of_nat l)
  = List.map Z.of_nat (filter prime l).
Proof.
by elim: l => //= k l IH /andP [kN /IH ->]; rewrite primeb_prime //; case: (prime k).
Qed.

Lemma tab_case n m i p :
  model_check (CTab n m i p) = true -> spec_check (CTab n m i p) = true.
Proof.
rewrite /model_check /spec_check.
move=> /andP [/andP [/andP [n0 /leqb_Zeqb <-] /String.eqb_eq <-] /leqb_Zeqb <-].
set N := Z.to_nat n; have nE : n = Z.of_nat N by lia.
have [sm si] := sizes_correct N.
cbv zeta; rewrite n0 only01_bstr bits_bstr -/N.
have -> : (Z.of_nat (List.length (zs (mnp (sieve N)))) =? n + 1)%Z = true.
  by rewrite /zs List.map_length; change (List.length ?l) with (size l); rewrite sm; lia.
rewrite nE (@tab_ok_of N 0) ?sm ?si //; last first.
  move=> j jN; rewrite add0n; case: ltnP => j2.
    by rewrite -/(is_prime _ _) is_prime_correct //; case: j j2 {jN} => [|[|]].
  by rewrite -/(is_prime _ _) -/(min_prime _ _) is_prime_correct // min_prime_correct // j2.
rewrite seq_iota filter_primeb; last by apply/allP => k; rewrite mem_iota add0n ltnS.
by rewrite -[prs _]/(primes_of _) primes_correct leqb_Zeqb_refl.
Qed.

(** * CFact *)
Definition flat (l : seq (nat * nat)) : list Z :=
  List.flat_map (fun pc => [:: Z.of_nat pc.1; Z.of_nat pc.2]) l.
(** one record without its terminator *)
Definition body (o : option (seq (nat * nat))) : list Z :=
  match o with None => [:: (-2)%Z] | Some l => flat l end.
Definition no_term (r : list Z) : bool := all (fun x => ~~ (x =? -1)%Z) r.

Lemma enc_fact_body o : enc_fact o = body o ++ [:: (-1)%Z].
Proof. by case: o. Qed.

Lemma no_term_body o : no_term (body o).
Proof.
case: o => [l|] //=; rewrite /no_term /flat.
by elim: l => //= [[p c]] l ->; rewrite andbT /=; apply/andP; split; lia.
Qed.

Lemma app_cat (T : Type) (a b : list T) : app a b = a ++ b.
Proof. by []. Qed.

Lemma split_recs_rec r f cur : no_term r ->
  split_recs (r ++ (-1)%Z :: f) cur = (List.rev cur ++ r) :: split_recs f [::].
Proof.
elim: r cur => [|x r IH] cur /=; first by rewrite cats0.
case/andP => /negbTE -> /IH ->.
by change (List.rev (x :: cur)) with (List.rev cur ++ [:: x]); rewrite -catA.
Qed.

Lemma split_recs_flat (g : nat -> list Z) l : (forall m, no_term (g m)) ->
  split_recs (List.flat_map (fun m => g m ++ [:: (-1)%Z]) l) [::] = List.map g l.
Proof.
move=> H; elim: l => //= m l IH.
by rewrite app_cat -catA /= split_recs_rec // IH.
Qed.

Lemma expn_pow p c : p ^ c = Nat.pow p c.
Proof. by elim: c => //= c <-; rewrite expnS. Qed.

Lemma rec_ok_flat N last l :
  all (fun pc => [&& prime pc.1, pc.1 <= N & 0 < pc.2]) l ->
  path ltn last (unzip1 l) ->
  rec_ok (cands_upto (Z.of_nat N)) (Z.of_nat last)
         (Z.of_nat (\prod_(pc <- l) pc.1 ^ pc.2)) (flat l) = true.
Proof.
elim: l last => [|[p c] l IH] last /=; first by rewrite big_nil.
move=> /andP [/and3P [pp pN c0] al] /andP [lp pl].
rewrite big_cons /= primeb_prime // pp.
have -> : (Z.of_nat last <? Z.of_nat p)%Z = true by lia.
have -> : (1 <=? Z.of_nat c)%Z = true by lia.
have pc0 : (Z.of_nat p ^ Z.of_nat c <> 0)%Z.
  by apply: Z.pow_nonzero; have := prime_gt0 pp; lia.
rewrite expn_pow; change (muln ?a ?b) with (Nat.mul a b).
rewrite Nat2Z.inj_mul Nat2Z.inj_pow Z.mul_comm Z.mod_mul // Z.div_mul //.
by rewrite (IH p).
Qed.

Lemma recs_ok_map cs (g : nat -> list Z) a len :
  (forall m, a <= m < a + len -> m = 0 \/ rec_ok cs 1 (Z.of_nat m) (g m) = true) ->
  recs_ok cs (Z.of_nat a) (List.map g (iota a len)) = true.
Proof.
elim: len a => [|len IH] a H //=.
have -> : (Z.of_nat a + 1)%Z = Z.of_nat a.+1 by lia.
rewrite IH ?andbT; last first.
  by move=> m /andP [am ml]; apply: H; rewrite (ltnW am) /= -addSnnS.
have /H [->|->] // : a <= a < a + len.+1 by rewrite leqnn addnS ltnS leq_addr.
by rewrite orbT.
Qed.

Lemma rec_ok_prime_decomp N m : 0 < m <= N ->
  rec_ok (cands_upto (Z.of_nat N)) 1 (Z.of_nat m) (flat (prime_decomp m)) = true.
Proof.
move=> /andP [m0 mN].
rewrite {1}(prod_prime_decomp m0); apply: (@rec_ok_flat N 1).
- apply/allP => [[p e]] /mem_prime_decomp [pp e0 pe] /=.
  rewrite pp e0 andbT /=; apply: leq_trans mN; apply: dvdn_leq => //.
  by apply: dvdn_trans pe; apply: dvdn_exp.
- rewrite -/(primes m) path_min_sorted ?sorted_primes //.
  by apply/allP => q; rewrite mem_primes => /andP [/prime_gt1].
Qed.

Lemma fact_case n f :
  model_check (CFact n f) = true -> spec_check (CFact n f) = true.
Proof.
rewrite /model_check /spec_check => /andP [n0 /leqb_Zeqb <-]; cbv zeta.
set N := Z.to_nat n; have nE : n = Z.of_nat N by lia.
rewrite n0 /model_flat seq_iota.
rewrite (_ : List.flat_map _ _ =
             List.flat_map (fun m => body (factorize (sieve N) m) ++ [:: (-1)%Z]) (iota 0 N.+1)); last first.
  by apply: List.flat_map_ext => m; rewrite enc_fact_body.
rewrite (split_recs_flat (g := fun m => body (factorize (sieve N) m))); last first.
  by move=> m; apply: no_term_body.
rewrite List.map_length; change (List.length ?l) with (size l); rewrite size_iota.
have -> : (Z.of_nat N.+1 =? n + 1)%Z = true by lia.
rewrite nE (@recs_ok_map _ _ 0) // => m; rewrite add0n ltnS => /andP [_ mN].
case: m mN => [|m] mN; [by left|right].
by rewrite factorize_correct ?mN //; apply: rec_ok_prime_decomp.
Qed.

Theorem model_check_spec_check (c : case) : model_check c = true -> spec_check c = true.
Proof. case: c => [n m i p|n f|n|n] //; [exact: tab_case|exact: fact_case]. Qed.
