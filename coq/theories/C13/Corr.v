(** C13 — correspondence cases (plain standard-library style so that the driver's batch files,
    which do not import ssreflect, can state them).

    [CTab n mnp isp primes]: the full tables of [Sieve::new(n)] as read through
      [min_prime(m)], [is_prime(m)] (m = 0..n, isp as a string of '0'/'1') and [primes()].
    [CFact n flat]: [factorize(m).collect()] for m = 0..n of [Sieve::new(n)], flattened:
      the pairs [p; c] of one m followed by -1; a panic inside the iterator is -2.
    [CPanic n]: [Sieve::new(n)] itself panicked (never happens with the real code).
    [CIncoherent n]: the executor's internal cross-checks on [Sieve::new(n)] failed (observation line
      [X ...]): the same value read twice through the public accessors differed (other order, second
      call, other [Sieve] object of the same limit, reads between [factorize] calls), a provided
      [Iterator] method ([collect], [for], [count], [last], [fold], [nth], [size_hint], ...) disagreed
      with the hand-written [next()] walk, or an exhausted iterator did not keep returning [None].
      The model is a pure function of the limit, so no such observation equals it; the specification
      fixes every answer, so two different answers cannot both satisfy it: both checks fail.
      The random-history ops [tabr]/[factr] of the executor print the same observation as
      [tab]/[fact] and are fed to [CTab]/[CFact].

    [model_check]: the observation equals what the Gallina model (Model.v) computes.
    [spec_check]: the observation satisfies the property, decided by trial division written here
      directly on binary integers — it does not mention the model.
    [model_check c = true -> spec_check c = true] for every case: ProofsCorr.v (pinned as
    c13_model_check_spec_check). *)
From Coq Require Import List ZArith Bool String Ascii.
From RlibV Require Import Common.Batch C13.Model.
Import ListNotations.
Open Scope Z_scope.

Inductive case :=
| CTab (n : Z) (tmnp : list Z) (tisp : string) (tprimes : list Z)
| CFact (n : Z) (flat : list Z)
| CPanic (n : Z)
| CIncoherent (n : Z).

(** * model side *)
Definition zs (l : list nat) : list Z := List.map Z.of_nat l.
Fixpoint bstr (l : list bool) : string :=
  match l with
  | [] => EmptyString
  | b :: l' => String (if b then "1"%char else "0"%char) (bstr l')
  end.
Definition enc_fact (o : option (list (nat * nat))) : list Z :=
  match o with
  | None => [-2; -1]
  | Some l => List.flat_map (fun pc => [Z.of_nat (fst pc); Z.of_nat (snd pc)]) l ++ [-1]
  end.
Definition model_flat (n : nat) : list Z :=
  let s := sieve n in List.flat_map (fun m => enc_fact (factorize s m)) (List.seq 0 (S n)).

Definition model_check (c : case) : bool :=
  match c with
  | CTab n m i p =>
      let s := sieve (Z.to_nat n) in
      (0 <=? n) && leqb Z.eqb (zs (mnp s)) m && String.eqb (bstr (isp s)) i && leqb Z.eqb (zs (prs s)) p
  | CFact n f => (0 <=? n) && leqb Z.eqb (model_flat (Z.to_nat n)) f
  | CPanic _ => false
  | CIncoherent _ => false
  end.

(** * specification side: trial division *)
(** least divisor >= 2 of n (for n >= 2), trying the candidates in order; a candidate d with
    d*d > n ends the search with n itself *)
Fixpoint ld (cands : list Z) (n : Z) : Z :=
  match cands with
  | [] => n
  | d :: ds => if d * d >? n then n else if n mod d =? 0 then d else ld ds n
  end.
Definition cands_upto (n : Z) : list Z := List.map Z.of_nat (List.seq 2 (Z.to_nat n - 1)).   (* 2..n *)
Definition primeb (cs : list Z) (k : Z) : bool := (2 <=? k) && (ld cs k =? k).

Fixpoint bits (s : string) : list bool :=
  match s with
  | EmptyString => []
  | String c s' => (if Ascii.eqb c "1"%char then true else false) :: bits s'
  end.
Fixpoint only01 (s : string) : bool :=
  match s with
  | EmptyString => true
  | String c s' => (Ascii.eqb c "1"%char || Ascii.eqb c "0"%char) && only01 s'
  end.

(** entry k of both tables, walking the two lists together *)
Fixpoint tab_ok (cs : list Z) (k : Z) (m : list Z) (b : list bool) : bool :=
  match m, b with
  | [], [] => true
  | x :: m', y :: b' =>
      (if k <? 2 then negb y                                   (* 0 and 1 are not prime; mnp[0], mnp[1] unspecified *)
       else (x =? ld cs k) && Bool.eqb y (ld cs k =? k))
      && tab_ok cs (k + 1) m' b'
  | _, _ => false
  end.

(** factorisation records: split the flat list at -1 *)
Fixpoint split_recs (f : list Z) (cur : list Z) : list (list Z) :=
  match f with
  | [] => match cur with [] => [] | _ => [List.rev cur] end   (* unterminated tail: kept, will fail *)
  | x :: f' => if x =? -1 then List.rev cur :: split_recs f' [] else split_recs f' (x :: cur)
  end.
(** one record is the factorisation of m: primes strictly increasing, exponents >= 1, product m *)
Fixpoint rec_ok (cs : list Z) (last : Z) (m : Z) (r : list Z) : bool :=
  match r with
  | [] => m =? 1
  | p :: c :: r' =>
      (last <? p) && primeb cs p && (1 <=? c) && (m mod (p ^ c) =? 0) && rec_ok cs p (m / p ^ c) r'
  | _ => false
  end.
Fixpoint recs_ok (cs : list Z) (m : Z) (rs : list (list Z)) : bool :=
  match rs with
  | [] => true
  | r :: rs' => ((m =? 0) (* factorize(0) is outside the property *) || rec_ok cs 1 m r) && recs_ok cs (m + 1) rs'
  end.

Definition spec_check (c : case) : bool :=
  match c with
  | CTab n m i p =>
      let cs := cands_upto n in
      (0 <=? n) && (Z.of_nat (List.length m) =? n + 1) && only01 i
      && tab_ok cs 0 m (bits i)
      && leqb Z.eqb (List.filter (primeb cs) (List.map Z.of_nat (List.seq 0 (S (Z.to_nat n))))) p
  | CFact n f =>
      let cs := cands_upto n in
      let rs := split_recs f [] in
      (0 <=? n) && (Z.of_nat (List.length rs) =? n + 1) && recs_ok cs 0 rs
  | CPanic _ => false
  | CIncoherent _ => false
  end.

(** what the model computes on the input of a case (for replay files) *)
Definition explain (c : case) : list Z * string * list Z * list Z :=
  match c with
  | CTab n _ _ _ => let s := sieve (Z.to_nat n) in (zs (mnp s), bstr (isp s), zs (prs s), [])
  | CFact n _ => ([], EmptyString, [], model_flat (Z.to_nat n))
  | CPanic n | CIncoherent n =>
      let s := sieve (Z.to_nat n) in (zs (mnp s), bstr (isp s), zs (prs s), model_flat (Z.to_nat n))
  end.
