(** C13 — the loop invariant of the linear sieve: the state after each outer step is determined. *)
From mathcomp Require Import all_ssreflect.
From RlibV Require Import C13.Model C13.ProofsBreak.
Set Implicit Arguments.
Unset Strict Implicit.
Unset Printing Implicit Defensive.

(** * arithmetic *)
Lemma pdiv_mul_small p i : prime p -> 1 < i -> p <= pdiv i -> pdiv (p * i) = p.
Proof.
move=> pp i1 ple.
have pi1 : 1 < p * i by rewrite (leq_trans (prime_gt1 pp)) // leq_pmulr // ltnW.
apply/eqP; rewrite eqn_leq; apply/andP; split.
- by apply: pdiv_min_dvd; [exact: prime_gt1|exact: dvdn_mulr].
- have qp := pdiv_prime pi1.
  have := pdiv_dvd (p * i); rewrite (Euclid_dvdM _ _ qp); case/orP => [d|d].
  + by move: d; rewrite dvdn_prime2 // => /eqP ->.
  + by apply: (leq_trans ple); apply: pdiv_min_dvd => //; exact: prime_gt1.
Qed.

(** * the determined state *)
(** content of cell m of mnp after the outer step with index i *)
Definition expected (i m : nat) : nat :=
  if m < 2 then 0 else
  if (m <= i) || (~~ prime m && (m %/ pdiv m <= i)) then pdiv m else 0.

Definition target (n i : nat) : st :=
  St (mkseq (fun m => (m <= i) && prime m) n) (mkseq (expected i) n) [seq p <- iota 0 i.+1 | prime p].

Lemma expected_next i : 0 < i -> expected i i.+1 = if prime i.+1 then 0 else pdiv i.+1.
Proof.
move=> i0; rewrite /expected ltnS ltnNge i0 /= ltnn /=.
case: (prime i.+1) => //=.
by rewrite -ltnS ltn_Pdiv // prime_gt1 // pdiv_prime.
Qed.

(** * sequences *)
Lemma set_nth_mkseq (T : Type) (x0 : T) (f : nat -> T) n k y :
  k < n -> set_nth x0 (mkseq f n) k y = mkseq (fun m => if m == k then y else f m) n.
Proof.
move=> kn; apply: (@eq_from_nth _ x0).
  by rewrite size_set_nth !size_mkseq; apply/maxn_idPr.
move=> m; rewrite size_set_nth size_mkseq (maxn_idPr kn) => mn.
by rewrite nth_set_nth /= !nth_mkseq.
Qed.

Lemma nth_writes j qs m0 x : 0 < j ->
  nth 0 (foldl (fun m p => set_nth 0 m (p * j) p) m0 qs) x =
  if (j %| x) && (x %/ j \in qs) then x %/ j else nth 0 m0 x.
Proof.
move=> j0; elim: qs m0 => [|p qs IH] m0 /=; first by rewrite andbF.
rewrite IH nth_set_nth /= inE.
case: (boolP (j %| x)) => [jx|njx] /=; last first.
  by case: eqP => // xe; move: njx; rewrite xe dvdn_mull.
case: (x %/ j \in qs); rewrite ?orbT // orbF.
rewrite [x %/ j == p]eq_sym eqn_div // [p * j == x]eq_sym.
by case: eqP => // ->; rewrite mulnK.
Qed.

Lemma size_writes j qs m0 :
  all (fun p => p * j < size m0) qs -> size (foldl (fun m p => set_nth 0 m (p * j) p) m0 qs) = size m0.
Proof.
elim: qs m0 => [|p qs IH] m0 //= /andP [pj aq].
have sz : size (set_nth 0 m0 (p * j) p) = size m0 by rewrite size_set_nth; apply/maxn_idPr.
by rewrite IH sz.
Qed.

(** * the arithmetic heart: one cell across one outer step *)
(** the primes written at outer index j into a table of length n *)
Definition written (n j q : nat) : bool := [&& prime q, q <= pdiv j & q * j < n].

Lemma composite_mul a b : 1 < a -> 1 < b -> prime (a * b) = false.
Proof.
move=> a1 b1; apply/negbTE/negP => /primeP [_ /(_ a)].
rewrite dvdn_mulr // => /(_ isT) /orP [/eqP a1'|]; first by rewrite a1' in a1.
by rewrite -{1}[a]muln1 eqn_pmul2l ?(ltnW a1) // => /eqP b1'; rewrite -b1' in b1.
Qed.

Lemma cell_step n i m : 0 < i -> m < n ->
  (if (i.+1 %| m) && written n i.+1 (m %/ i.+1) then m %/ i.+1
   else if m == i.+1 then pdiv i.+1 else expected i m) = expected i.+1 m.
Proof.
move=> i0 mn; set j := i.+1.
have j1 : 1 < j by [].
have j0 : 0 < j by [].
case: ifP => [/andP [jm /and3P [pq qle qn]]|nA].
- (* the cell is written by this step *)
  set q := m %/ j in pq qle qn *.
  have me : m = q * j by rewrite /q divnK.
  have q1 := prime_gt1 pq.
  have pm : pdiv m = q by rewrite me pdiv_mul_small.
  rewrite /expected pm.
  have -> : m < 2 = false.
    by apply/negbTE; rewrite -leqNgt me (leq_trans j1) // leq_pmull // ltnW.
  have -> : prime m = false by rewrite me composite_mul.
  by rewrite {2}me mulKn ?leqnn ?orbT // ltnW.
- case: eqP => [->|/eqP mj].
    by rewrite /expected ltnNge j1 /= leqnn.
  rewrite /expected; case: ifP => // m2.
  have m1 : 1 < m by rewrite ltnNge -ltnS m2.
  have -> : (m <= j) = (m <= i) by rewrite leq_eqVlt (negbTE mj) ltnS.
  case: (m <= i) => //=.
  case pm: (prime m) => //=.
  rewrite [_ <= j]leq_eqVlt ltnS; case: eqP => //= dj.
  (* m = pdiv m * j would have been written: contradiction with nA *)
  have me : m = pdiv m * j by rewrite -dj mulnC divnK ?pdiv_dvd // mulnC.
  move: nA; rewrite {1 2}me dvdn_mull // mulnK //= /written pdiv_prime //=.
  rewrite -me mn andbT pdiv_min_dvd //.
    by rewrite prime_gt1 // pdiv_prime.
  by rewrite (dvdn_trans (pdiv_dvd j)) // me dvdn_mull.
Qed.

(** * one outer step *)
Lemma prs_target n i : prs (target n i) = [seq p <- iota 0 i.+1 | prime p].
Proof. by []. Qed.

Lemma mem_prs i p : (p \in [seq p <- iota 0 i.+1 | prime p]) = prime p && (p <= i).
Proof. by rewrite mem_filter mem_iota /= add0n ltnS. Qed.

(** the table after the `if mnp[i] == 0 { .. }` block of outer step j = i+1 *)
Definition mnp1 (n i : nat) : seq nat := mkseq (fun m => if m == i.+1 then pdiv i.+1 else expected i m) n.
(** the primes whose multiple is written by the inner loop of outer step j, in order *)
Definition wlist (n j : nat) : seq nat :=
  [seq p <- [seq p <- iota 0 j.+1 | prime p] | ~~ ((pdiv j < p) || (n <= p * j))].

Lemma cell_is_zero n i : 0 < i -> i.+1 < n -> (nth 0 (mnp (target n i)) i.+1 == 0) = prime i.+1.
Proof.
move=> i0 jn; rewrite /= nth_mkseq // expected_next //.
by case: (prime i.+1); rewrite ?eqxx // (gtn_eqF (pdiv_gt0 _)).
Qed.

Lemma if_block n i : 0 < i -> i.+1 < n ->
  (if nth 0 (mnp (target n i)) i.+1 == 0
   then St (set_nth false (isp (target n i)) i.+1 true) (set_nth 0 (mnp (target n i)) i.+1 i.+1)
           (rcons (prs (target n i)) i.+1)
   else target n i)
  = St (mkseq (fun m => (m <= i.+1) && prime m) n) (mnp1 n i) [seq p <- iota 0 i.+2 | prime p].
Proof.
move=> i0 jn; rewrite cell_is_zero //; set j := i.+1 in jn *.
have iotaE : iota 0 j.+1 = rcons (iota 0 j) j by rewrite -addn1 iotaD /= add0n cats1.
rewrite /mnp1 -/j; case pj: (prime j); rewrite /target.
- rewrite [isp _]/= [mnp _]/= [prs _]/= !set_nth_mkseq // iotaE filter_rcons pj.
  congr St; apply: eq_mkseq => m.
  + by rewrite [m <= j]leq_eqVlt ltnS; case: eqP => [->|] //=; rewrite pj.
  + by case: eqP => // _; rewrite pdiv_id.
- rewrite iotaE filter_rcons pj; congr St; apply: eq_mkseq => m.
  + by rewrite [m <= j]leq_eqVlt ltnS; case: eqP => [->|] //=; rewrite pj andbF.
  + by case: eqP => // ->; rewrite expected_next // pj.
Qed.

Lemma mem_wlist n j q : 0 < j -> (q \in wlist n j) = written n j q.
Proof.
move=> j0; rewrite mem_filter mem_prs negb_or -leqNgt -ltnNge /written.
case pq: (prime q) => //=; rewrite ?andbF //.
case qle: (q <= pdiv j) => //=.
by rewrite (leq_trans qle) ?andbT // pdiv_leq.
Qed.

Lemma takewhile_wlist n j :
  takewhile (fun p => ~~ ((pdiv j < p) || (n <= p * j))) [seq p <- iota 0 j.+1 | prime p] = wlist n j.
Proof.
rewrite takewhile_filter //.
- by rewrite sorted_filter ?iota_sorted //; exact: leq_trans.
- move=> x y xy; rewrite !negb_or -!leqNgt -!ltnNge => /andP [yp yn].
  by rewrite (leq_trans xy yp) (leq_ltn_trans _ yn) // leq_mul2r xy orbT.
Qed.

Lemma outer_step_target n i : 0 < i -> i.+1 < n -> outer_step n (target n i) i.+1 = target n i.+1.
Proof.
move=> i0 jn; rewrite /outer_step if_block //; set j := i.+1 in jn *.
have j0 : 0 < j by [].
pose ps := [seq p <- iota 0 j.+1 | prime p]; rewrite -/ps /target /=; congr St.
rewrite inner_takewhile //; last by rewrite /ps mem_prs.
rewrite /inner_tw /mnp1 nth_mkseq // eqxx /ps takewhile_wlist.
have inr : all (fun p => p * j < n) (wlist n j).
  by apply/allP => q; rewrite mem_wlist // => /and3P [].
apply: (@eq_from_nth _ 0); first by rewrite size_writes !size_mkseq.
move=> m; rewrite size_writes ?size_mkseq // => mn.
rewrite nth_writes // mem_wlist // !nth_mkseq //.
exact: cell_step.
Qed.

(** * all outer steps *)
Lemma composite_quot_ge2 m : 1 < m -> ~~ prime m -> 1 < m %/ pdiv m.
Proof.
move=> m1 npm; have m0 : 0 < m by apply: ltnW.
have p1 : 1 < pdiv m by rewrite prime_gt1 // pdiv_prime.
apply: (leq_trans p1); rewrite leq_divRL ?pdiv_gt0 // mulnn.
by rewrite leqNgt; apply: contra npm; exact: ltn_pdiv2_prime.
Qed.

Lemma init_target n i : i <= 1 -> init n = target n i.
Proof.
move=> i1; rewrite /init /target.
have -> : [seq p <- iota 0 i.+1 | prime p] = [::] by case: i i1 => [|[|]].
congr St; [apply: (@eq_from_nth _ false)|apply: (@eq_from_nth _ 0)];
  rewrite ?size_nseq ?size_mkseq // => m mn; rewrite nth_nseq mn nth_mkseq //.
- apply/esym/negbTE; rewrite negb_and -implybE; apply/implyP => mi.
  by case: m {mn mi} (leq_trans mi i1) => [|[|]].
- rewrite /expected; case: ifP => // /negbT; rewrite -leqNgt => m2.
  rewrite leqNgt (leq_trans _ m2) //=.
  case pm: (prime m) => //=.
  by rewrite leqNgt (leq_trans _ (composite_quot_ge2 m2 (negbT pm))).
Qed.

Lemma iotaSr m k : iota m k.+1 = rcons (iota m k) (m + k).
Proof. by rewrite -addn1 iotaD /= cats1. Qed.

Lemma sieve_upto_target n k : k.+1 < n -> sieve_upto n k = target n k.+1.
Proof.
rewrite /sieve_upto; elim: k => [|k IH] kn; first exact: init_target.
rewrite iotaSr -cats1 foldl_cat /= IH; last exact: ltnW.
by rewrite add2n outer_step_target.
Qed.

Lemma sieve_target N : sieve N = target N.+1 N.
Proof.
rewrite /sieve; case: N => [|[|N]].
- exact: init_target.
- exact: init_target.
- have -> : N.+3 - 2 = N.+1 by rewrite subn2.
  by rewrite sieve_upto_target.
Qed.

(** * the tables *)
Lemma min_prime_correct N n : 1 < n <= N -> min_prime (sieve N) n = pdiv n.
Proof.
case/andP=> n1 nN; rewrite /min_prime sieve_target /= nth_mkseq ?ltnS //.
by rewrite /expected ltnNge n1 /= nN.
Qed.

Lemma min_prime_01 N n : n < 2 -> min_prime (sieve N) n = 0.
Proof.
move=> n2; rewrite /min_prime sieve_target /=.
case nN: (n <= N); last by rewrite nth_default // size_mkseq ltnNge nN.
by rewrite nth_mkseq ?ltnS // /expected n2.
Qed.

Lemma is_prime_correct N n : n <= N -> is_prime (sieve N) n = prime n.
Proof. by move=> nN; rewrite /is_prime sieve_target /= nth_mkseq ?ltnS // nN. Qed.

Lemma primes_correct N : primes_of (sieve N) = [seq p <- iota 0 N.+1 | prime p].
Proof. by rewrite /primes_of sieve_target. Qed.

Lemma sizes_correct N : size (mnp (sieve N)) = N.+1 /\ size (isp (sieve N)) = N.+1.
Proof. by rewrite sieve_target; split; exact: size_mkseq. Qed.

(** the invariant in the form of DESIGN.md: the state after the outer iterations 2 .. i (i = k+1) *)
Lemma invariant n k : k.+1 < n ->
  let s := sieve_upto n k in let i := k.+1 in
  [/\ size (mnp s) = n /\ size (isp s) = n,
      forall m, m < n -> m <= i -> nth 0 (mnp s) m = if m < 2 then 0 else pdiv m,
      forall m, m < n -> i < m ->
        nth 0 (mnp s) m = if ~~ prime m && (m %/ pdiv m <= i) then pdiv m else 0,
      prs s = [seq p <- iota 0 i.+1 | prime p] &
      forall m, m < n -> nth false (isp s) m = (m <= i) && prime m].
Proof.
move=> kn /=; rewrite sieve_upto_target //=; split=> //.
- by rewrite !size_mkseq.
- by move=> m mn mi; rewrite nth_mkseq // /expected mi.
- move=> m mn im; have m1 : 1 < m by exact: leq_trans im.
  by rewrite nth_mkseq // /expected ltnNge m1 /= [m <= _]leqNgt im.
- by move=> m mn; rewrite nth_mkseq.
Qed.
