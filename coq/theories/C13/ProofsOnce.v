(** C13 — no cell of mnp is assigned twice.

    Ghost.v instruments the model with a table [c] counting the assignments to every cell of
    [mnp].  Erasing the ghost gives back the model of Model.v; at the end every cell 2..N has been assigned exactly
    once and the cells 0 and 1 never. *)
From mathcomp Require Import all_ssreflect.
From RlibV Require Import C13.Model C13.Ghost C13.ProofsBreak C13.ProofsInv.
Set Implicit Arguments.
Unset Strict Implicit.
Unset Printing Implicit Defensive.

(** * erasure *)
Lemma inner_g_erase n i ps b m c :
  let r := foldl (inner_step_g n i) (b, (m, c)) ps in
  (r.1, r.2.1) = foldl (inner_step n i) (b, m) ps.
Proof.
elim: ps b m c => [|p ps IH] b m c //=.
case: b => /=; first exact: IH.
by case: ifP => _; exact: IH.
Qed.

Lemma inner_g_fst n i ps m c : (inner_g n i ps m c).1 = inner n i ps m.
Proof. by rewrite /inner_g /inner -(inner_g_erase n i ps false m c). Qed.

Lemma outer_step_g_fst n sc i : (outer_step_g n sc i).1 = outer_step n sc.1 i.
Proof. by rewrite /outer_step_g /outer_step /= inner_g_fst. Qed.

Lemma sieve_upto_g_fst n k : (sieve_upto_g n k).1 = sieve_upto n k.
Proof.
rewrite /sieve_upto_g /sieve_upto.
elim/last_ind: (iota 2 k) => [|l x IH] //.
by rewrite -!cats1 !foldl_cat -IH; exact: outer_step_g_fst.
Qed.

(** * the ghost table counts: c[x] = 1 if mnp[x] has been assigned (is non-zero), else 0 *)
Definition good (m c : seq nat) : Prop :=
  size c = size m /\ forall x, nth 0 c x = (nth 0 m x != 0).

Lemma good_write m c k v :
  good m c -> k < size m -> nth 0 m k = 0 -> v != 0 -> good (set_nth 0 m k v) (bump c k).
Proof.
move=> [sz gc] km mk0 v0; split.
  by rewrite /bump !size_set_nth sz.
move=> x; rewrite /bump !nth_set_nth /=; case: eqP => [_|_]; last exact: gc.
by rewrite gc mk0 eqxx v0.
Qed.

(** the take-while form of the instrumented loop *)
Definition write_g (i : nat) (mc : seq nat * seq nat) (p : nat) : seq nat * seq nat :=
  (set_nth 0 mc.1 (p * i) p, bump mc.2 (p * i)).

Lemma inner_g_stopped n i mc ps : foldl (inner_step_g n i) (true, mc) ps = (true, mc).
Proof. by elim: ps => [|p ps IH] //=; case: mc IH. Qed.

Lemma inner_g_takewhile n i ps m c :
  0 < i -> 1 \notin ps ->
  inner_g n i ps m c =
  foldl (write_g i) (m, c) (takewhile (fun p => ~~ ((nth 0 m i < p) || (n <= p * i))) ps).
Proof.
move=> i0; rewrite /inner_g.
elim: ps m c => [|p ps IH] m c //=.
rewrite inE negb_or => /andP [p1 nps].
case: ifP => [_|cnd] /=; first by rewrite inner_g_stopped.
rewrite IH // nth_set_nth /= ifN //.
by rewrite -{1}[i]mul1n eqn_pmul2r.
Qed.

Lemma good_writes j qs m c :
  0 < j -> good m c -> uniq qs ->
  (forall p, p \in qs -> [/\ p != 0, p * j < size m & nth 0 m (p * j) = 0]) ->
  let r := foldl (write_g j) (m, c) qs in good r.1 r.2.
Proof.
move=> j0; elim: qs m c => [|p qs IH] m c g //= /andP [pnq uq] H.
have [p0 pj z] := H p (mem_head _ _).
apply: IH => //; first exact: good_write.
move=> q qq; have [q0 qj zq] : [/\ q != 0, q * j < size m & nth 0 m (q * j) = 0].
  by apply: H; rewrite inE qq orbT.
split=> //.
  by rewrite size_set_nth (maxn_idPr pj).
rewrite nth_set_nth /= eqn_pmul2r //; case: eqP => // qp.
by move: pnq; rewrite -qp qq.
Qed.

(** * one instrumented outer step from the determined state *)
Lemma written_cell_zero n i p : 0 < i -> written n i.+1 p -> nth 0 (mnp1 n i) (p * i.+1) = 0.
Proof.
move=> i0 /and3P [pp ple pn]; set j := i.+1 in ple pn *.
have p1 := prime_gt1 pp.
rewrite /mnp1 nth_mkseq // -/j.
have jlt : j < p * j by rewrite -{1}[j]mul1n ltn_pmul2r.
rewrite (gtn_eqF jlt) /expected.
have -> : (p * j < 2) = false by apply/negbTE; rewrite -leqNgt (leq_trans _ jlt).
rewrite pdiv_mul_small // mulKn ?(ltnW p1) // [j <= i]ltnn andbF orbF.
by rewrite leqNgt (ltn_trans (ltnSn i) jlt).
Qed.

Lemma outer_step_g_target n i c : 0 < i -> i.+1 < n -> good (mnp (target n i)) c ->
  let r := outer_step_g n (target n i, c) i.+1 in r.1 = target n i.+1 /\ good (mnp r.1) r.2.
Proof.
move=> i0 jn g r; split; first by rewrite /r outer_step_g_fst outer_step_target.
rewrite /r {r} /outer_step_g [(_, _).1]/= [(_, _).2]/= if_block //.
set j := i.+1 in jn *; have j0 : 0 < j by [].
set c1 := (if _ then _ else _).
have g1 : good (mnp1 n i) c1.
  have e : (if nth 0 (mnp (target n i)) j == 0 then set_nth 0 (mnp (target n i)) j j
            else mnp (target n i)) = mnp1 n i.
    by have /= := congr1 mnp (if_block i0 jn); rewrite -/j => <-; case: ifP.
  rewrite /c1 -e; case: ifP => [/eqP z0|_] //.
  by apply: good_write => //; rewrite size_mkseq.
pose ps := [seq p <- iota 0 j.+1 | prime p].
change (let r := inner_g n j ps (mnp1 n i) c1 in good r.1 r.2).
rewrite inner_g_takewhile //; last by rewrite /ps mem_prs.
rewrite {1}/mnp1 nth_mkseq // eqxx /ps takewhile_wlist.
apply: good_writes => //.
  by rewrite /wlist !filter_uniq // iota_uniq.
move=> p; rewrite mem_wlist // => w; have /and3P [pp _ pn] := w.
split; first by rewrite -lt0n prime_gt0.
  by rewrite size_mkseq.
exact: written_cell_zero.
Qed.

(** * all steps *)
Lemma good_init n : good (mnp (init n)) (nseq n 0).
Proof. by split=> // x; rewrite /= nth_nseq; case: ifP. Qed.

Lemma sieve_upto_g_target n k : k.+1 < n ->
  (sieve_upto_g n k).1 = target n k.+1 /\ good (mnp (target n k.+1)) (sieve_upto_g n k).2.
Proof.
elim: k => [|k IH] kn.
  by rewrite -(@init_target n 1) //; split=> //; exact: good_init.
have [e g] := IH (ltnW kn).
rewrite /sieve_upto_g iotaSr -cats1 foldl_cat add2n -/(sieve_upto_g n k).
rewrite [foldl _ _ [:: _]]/= [sieve_upto_g n k]surjective_pairing e.
have [-> g'] := outer_step_g_target (isT : 0 < k.+1) kn g.
by split=> //; move: g'; rewrite (outer_step_g_target (isT : 0 < k.+1) kn g).1.
Qed.

Lemma sieve_g_good N : (sieve_g N).1 = sieve N /\ good (mnp (sieve N)) (sieve_g N).2.
Proof.
rewrite /sieve_g /sieve; case: N => [|[|N]].
- by split=> //; exact: good_init.
- by split=> //; exact: good_init.
- have -> : N.+3 - 2 = N.+1 by rewrite subn2.
  have [e g] := @sieve_upto_g_target N.+3 N.+1 (ltnSn _).
  by rewrite sieve_upto_target.
Qed.

(** every cell 2..N of mnp is assigned exactly once during [Sieve::new(N)], no other cell ever *)
Lemma written_once N :
  (sieve_g N).1 = sieve N /\ forall m, nth 0 (sieve_g N).2 m = (1 < m <= N).
Proof.
have [e [sz g]] := sieve_g_good N; split=> // m; rewrite g.
rewrite -/(min_prime (sieve N) m).
case m1: (1 < m); last by rewrite min_prime_01 ?eqxx // ltnNge m1.
case mN: (m <= N); first by rewrite min_prime_correct ?m1 // -lt0n pdiv_gt0.
by rewrite /min_prime nth_default ?eqxx // (sizes_correct N).1 ltnNge mN.
Qed.

(** the same at every intermediate state: the ghost count of a cell is 1 iff the cell is non-zero *)
Lemma written_once_upto n k : k.+1 < n ->
  (sieve_upto_g n k).1 = sieve_upto n k /\
  forall x, nth 0 (sieve_upto_g n k).2 x = (nth 0 (mnp (sieve_upto n k)) x != 0).
Proof.
move=> kn; have [e [_ g]] := sieve_upto_g_target kn.
by rewrite sieve_upto_target.
Qed.
