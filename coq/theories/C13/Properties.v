(** C13 — property theorems (statements only; proofs by [exact]).
    [sieve N] is the model of [Sieve::new(N)] (Model.v); [pdiv], [prime], [prime_decomp] are the
    Mathematical Components definitions (least divisor > 1, primality, sorted factorisation). *)
From mathcomp Require Import all_ssreflect.
From RlibV Require Import C13.Model C13.ProofsBreak C13.ProofsInv.

(** the loop invariant: the state after the outer iterations with index 2 .. i (i = k+1) of a table
    of length n: cells up to i hold their least prime factor (0 for 0 and 1); a cell above i holds
    its least prime factor iff it is composite with cofactor <= i, else still 0; the prime list is
    the primes <= i in increasing order; isp marks exactly the primes <= i *)
Theorem c13_invariant : forall n k : nat, k.+1 < n ->
  let s := sieve_upto n k in let i := k.+1 in
  [/\ size (mnp s) = n /\ size (isp s) = n,
      forall m, m < n -> m <= i -> nth 0 (mnp s) m = if m < 2 then 0 else pdiv m,
      forall m, m < n -> i < m ->
        nth 0 (mnp s) m = if ~~ prime m && (m %/ pdiv m <= i) then pdiv m else 0,
      prs s = [seq p <- iota 0 i.+1 | prime p] &
      forall m, m < n -> nth false (isp s) m = (m <= i) && prime m].
Proof. exact invariant. Qed.

(** min_prime(n) is the least prime factor, for every limit N and every 2 <= n <= N *)
Theorem c13_min_prime : forall N n : nat, 1 < n <= N -> min_prime (sieve N) n = pdiv n.
Proof. exact min_prime_correct. Qed.

(** is_prime(n) is exact for every 0 <= n <= N (false for 0 and 1) *)
Theorem c13_is_prime : forall N n : nat, n <= N -> is_prime (sieve N) n = prime n.
Proof. exact is_prime_correct. Qed.

(** primes() is the list of all primes <= N in increasing order *)
Theorem c13_primes : forall N : nat, primes_of (sieve N) = [seq p <- iota 0 N.+1 | prime p].
Proof. exact primes_correct. Qed.

(** the tables have length N + 1 *)
Theorem c13_sizes : forall N : nat, size (mnp (sieve N)) = N.+1 /\ size (isp (sieve N)) = N.+1.
Proof. exact sizes_correct. Qed.

(** the literal stop-flag inner loop equals the take-while form (the break test can be evaluated
    against the value of mnp[i] before the loop, because no write of the loop touches cell i) *)
Theorem c13_break_is_takewhile : forall (n i : nat) (ps m : seq nat),
  0 < i -> 1 \notin ps -> inner n i ps m = inner_tw n i ps m.
Proof. exact inner_takewhile. Qed.
