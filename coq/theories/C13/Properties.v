(** C13 — property theorems (statements only; proofs by [exact]).
    [sieve N] is the model of [Sieve::new(N)] (Model.v); [pdiv], [prime], [prime_decomp] are the
    Mathematical Components definitions (least divisor > 1, primality, sorted factorisation). *)
From mathcomp Require Import all_ssreflect.
From RlibV Require Import C13.Model C13.ProofsBreak C13.ProofsInv C13.Ghost C13.ProofsFact C13.ProofsFinite C13.ProofsOnce.
From RlibV Require Import C13.Corr C13.ProofsCorr.

(** the loop invariant: the state after the outer iterations with index 2 .. i (i = k+1) of a table
    of length n: cells up to i hold their least prime factor (0 for 0 and 1); a cell above i holds
    its least prime factor iff it is composite with cofactor <= i, else still 0; the prime list is
    the primes <= i in increasing order; isp marks exactly the primes <= i *)
Theorem c13_invariant : forall n k : nat, k.+1 < n ->
  let s := sieve_upto n k in let i := k.+1 in
  [/\ size (mnp s) = n /\ size (isp s) = n,
      forall m, m < n -> m <= i -> nth 0 (mnp s) m = if m < 2 then 0 else pdiv m,
      forall m, m < n -> i < m ->
        nth 0 (mnp s) m = if ~~ prime m && (m %/ pdiv m <= i) then pdiv m else 0,
      prs s = [seq p <- iota 0 i.+1 | prime p] &
      forall m, m < n -> nth false (isp s) m = (m <= i) && prime m].
Proof. exact invariant. Qed.

(** min_prime(n) is the least prime factor, for every limit N and every 2 <= n <= N *)
Theorem c13_min_prime : forall N n : nat, 1 < n <= N -> min_prime (sieve N) n = pdiv n.
Proof. exact min_prime_correct. Qed.

(** is_prime(n) is exact for every 0 <= n <= N (false for 0 and 1) *)
Theorem c13_is_prime : forall N n : nat, n <= N -> is_prime (sieve N) n = prime n.
Proof. exact is_prime_correct. Qed.

(** primes() is the list of all primes <= N in increasing order *)
Theorem c13_primes : forall N : nat, primes_of (sieve N) = [seq p <- iota 0 N.+1 | prime p].
Proof. exact primes_correct. Qed.

(** the tables have length N + 1 *)
Theorem c13_sizes : forall N : nat, size (mnp (sieve N)) = N.+1 /\ size (isp (sieve N)) = N.+1.
Proof. exact sizes_correct. Qed.

(** the literal stop-flag inner loop equals the take-while form (the break test can be evaluated
    against the value of mnp[i] before the loop, because no write of the loop touches cell i) *)
Theorem c13_break_is_takewhile : forall (n i : nat) (ps m : seq nat),
  0 < i -> 1 \notin ps -> inner n i ps m = inner_tw n i ps m.
Proof. exact inner_takewhile. Qed.

(** factorize(n).collect() is the prime decomposition: the strictly increasing primes of n with
    their exact exponents ([prime_decomp], see [prime_decomp_correct]); [Some] = no panic, fuel suffices *)
Theorem c13_factorize : forall N n : nat, 0 < n <= N -> factorize (sieve N) n = Some (prime_decomp n).
Proof. exact factorize_correct. Qed.

(** the same spelled out: the result lists primes with positive exponents, strictly increasing,
    whose product of powers is n (by unique factorisation this determines the list) *)
Theorem c13_factorize_spec : forall N n : nat, 0 < n <= N ->
  exists2 f, factorize (sieve N) n = Some f &
    [/\ n = \prod_(pc <- f) pc.1 ^ pc.2, all (fun pc => prime pc.1 && (0 < pc.2)) f
      & sorted ltn (unzip1 f)].
Proof. exact factorize_spec. Qed.

(** nothing for 1 (the table is not even read: any limit, including 0) *)
Theorem c13_factorize_one : forall N : nat, factorize (sieve N) 1 = Some [::].
Proof. exact factorize_1. Qed.

(** finite domain, by computation alone (independent of the proofs above): every limit N <= 600 *)
Theorem c13_all_limits_upto_K : forall N : nat, N <= 600 ->
  [/\ forall n, 1 < n <= N -> min_prime (sieve N) n = pdiv n,
      forall n, n <= N -> is_prime (sieve N) n = prime n,
      primes_of (sieve N) = [seq p <- iota 0 N.+1 | prime p] &
      forall n, 0 < n <= N -> factorize (sieve N) n = Some (prime_decomp n)].
Proof. exact all_limits_upto_600. Qed.

(** no cell is written twice: [sieve_g] is the model instrumented with a ghost table counting the
    assignments to each cell of mnp (ProofsOnce.v); erasing the ghost gives the model, and at the end
    every cell 2..N has been assigned exactly once, every other cell never *)
Theorem c13_written_once : forall N : nat,
  (sieve_g N).1 = sieve N /\ forall m, nth 0 (sieve_g N).2 m = (1 < m <= N).
Proof. exact written_once. Qed.

(** and at every intermediate state (after the outer steps 2 .. k+1): assigned once iff non-zero *)
Theorem c13_written_once_upto : forall n k : nat, k.+1 < n ->
  (sieve_upto_g n k).1 = sieve_upto n k /\
  forall x, nth 0 (sieve_upto_g n k).2 x = (nth 0 (mnp (sieve_upto n k)) x != 0).
Proof. exact written_once_upto. Qed.

(** the correspondence cases of Corr.v, for EVERY case and with no side condition: if the observation
    recorded in [c] (the dumped tables [min_prime(m)], [is_prime(m)], [primes()] of a limit n, or the
    flattened [factorize(m)] lists for m = 0..n) equals what the model computes ([model_check]), then it
    satisfies the model-independent trial-division specification ([spec_check]: every table entry is the
    least divisor found by trial division, the prime list is exactly the trial-division primes <= n, every
    factorisation record for m >= 1 lists trial-division primes strictly increasing with exponents >= 1 and
    product m).  Nothing is excluded: a negative limit, [CPanic] or [CIncoherent] already fails [model_check]. *)
Theorem c13_model_check_spec_check : forall c : case, model_check c = true -> spec_check c = true.
Proof. exact model_check_spec_check. Qed.
