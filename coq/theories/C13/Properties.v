(** C13 — property theorems (statements only; proofs by [exact]). *)
From mathcomp Require Import all_ssreflect.
From RlibV Require Import C13.Model.
