(** C13 — non-vacuity: the model runs on literals, and every hypothesis of every property theorem
    is met by a concrete instance. *)
From Coq Require Import ZArith String.   (* before mathcomp, so that its nat notations win *)
From mathcomp Require Import all_ssreflect.
From RlibV Require Import C13.Model C13.Ghost C13.Corr C13.Properties.
(* Corr.v opens Z_scope and that is exported; here nat is the default, Z terms carry %Z *)
Local Close Scope Z_scope.

Example ex_run_30 :
  (mnp (sieve 30), prs (sieve 30)) =
  ([:: 0; 0; 2; 3; 2; 5; 2; 7; 2; 3; 2; 11; 2; 13; 2; 3; 2; 17; 2; 19; 2; 3; 2; 23; 2; 5; 2; 3; 2; 29; 2],
   [:: 2; 3; 5; 7; 11; 13; 17; 19; 23; 29]).
Proof. by vm_compute. Qed.

Example ex_run_limits_0_1 :
  (mnp (sieve 0), isp (sieve 0), prs (sieve 0), mnp (sieve 1), isp (sieve 1), prs (sieve 1)) =
  ([:: 0], [:: false], [::], [:: 0; 0], [:: false; false], [::]).
Proof. by vm_compute. Qed.

(** the state in the middle of the run: limit 30 (n = 31), after the outer steps 2..5 (k = 4):
    25 = 5 * 5 is already written, 26 .. 30 are not (their cofactors 13, 9, 14, 29, 15 exceed 5), 7 is still 0 *)
Example ex_run_partial :
  (mnp (sieve_upto 31 4), prs (sieve_upto 31 4)) =
  ([:: 0; 0; 2; 3; 2; 5; 2; 0; 2; 3; 2; 0; 0; 0; 0; 3; 0; 0; 0; 0; 0; 0; 0; 0; 0; 5; 0; 0; 0; 0; 0],
   [:: 2; 3; 5]).
Proof. by vm_compute. Qed.

Example ex_invariant :
  let s := sieve_upto 31 4 in
  nth 0 (mnp s) 25 = (if ~~ prime 25 && (25 %/ pdiv 25 <= 5) then pdiv 25 else 0).
Proof. by have [_ _ h _ _] := @c13_invariant 31 4 isT; apply: h. Qed.

Example ex_min_prime : min_prime (sieve 100) 91 = pdiv 91.
Proof. exact: c13_min_prime. Qed.
Example ex_min_prime_run : min_prime (sieve 100) 91 = 7.
Proof. by vm_compute. Qed.

Example ex_is_prime : is_prime (sieve 100) 97 = prime 97 /\ is_prime (sieve 100) 0 = prime 0
                      /\ is_prime (sieve 100) 1 = prime 1.
Proof. by split; [|split]; exact: c13_is_prime. Qed.
Example ex_is_prime_run : (is_prime (sieve 100) 97, is_prime (sieve 100) 0, is_prime (sieve 100) 1, is_prime (sieve 100) 91)
                          = (true, false, false, false).
Proof. by vm_compute. Qed.

Example ex_primes : primes_of (sieve 30) = [seq p <- iota 0 31 | prime p].
Proof. exact: c13_primes. Qed.

Example ex_factorize : factorize (sieve 100) 84 = Some (prime_decomp 84).
Proof. exact: c13_factorize. Qed.
Example ex_factorize_run : factorize (sieve 100) 84 = Some [:: (2, 2); (3, 1); (7, 1)].
Proof. by vm_compute. Qed.
Example ex_factorize_at_limit : factorize (sieve 64) 64 = Some [:: (2, 6)].
Proof. by vm_compute. Qed.
(** outside the property: factorize(0) divides by mnp[0] = 0 — the Rust code panics, the model says None *)
Example ex_factorize_0 : factorize (sieve 10) 0 = None.
Proof. by vm_compute. Qed.

(** the inner loop at i = 6 of limit 30 (primes so far 2 3 5): only 2 * 6 is written, then break *)
Example ex_break :
  let m := mnp (sieve_upto 31 4) in inner 31 6 [:: 2; 3; 5] m = inner_tw 31 6 [:: 2; 3; 5] m.
Proof. exact: c13_break_is_takewhile. Qed.
Example ex_break_run :
  let m := mnp (sieve_upto 31 4) in
  inner 31 6 [:: 2; 3; 5] m = set_nth 0 m 12 2.
Proof. by vm_compute. Qed.

Example ex_all_limits : min_prime (sieve 600) 589 = pdiv 589.
Proof. by have [h _ _ _] := @c13_all_limits_upto_K 600 isT; apply: h. Qed.

(** the ghost write counts of limit 12, and in the middle of limit 30 *)
Example ex_written_once_run : (sieve_g 12).2 = [:: 0; 0; 1; 1; 1; 1; 1; 1; 1; 1; 1; 1; 1].
Proof. by vm_compute. Qed.
Example ex_written_once : nth 0 (sieve_g 12).2 12 = (1 < 12 <= 12).
Proof. by have [_ h] := c13_written_once 12; apply: h. Qed.
Example ex_written_once_upto :
  nth 0 (sieve_upto_g 31 4).2 25 = (nth 0 (mnp (sieve_upto 31 4)) 25 != 0).
Proof. by have [_ h] := @c13_written_once_upto 31 4 isT; apply: h. Qed.

Example ex_factorize_spec :
  exists2 f, factorize (sieve 100) 84 = Some f &
    [/\ 84 = \prod_(pc <- f) pc.1 ^ pc.2, all (fun pc => prime pc.1 && (0 < pc.2)) f & sorted ltn (unzip1 f)].
Proof. exact: c13_factorize_spec. Qed.

(** correspondence cases of limit 10 as the executor prints them: the hypothesis [model_check c = true]
    holds by computation, the specification follows by the theorem (and agrees with running it) *)
Definition ex_tab_10 : case :=
  CTab 10 [:: 0; 0; 2; 3; 2; 5; 2; 7; 2; 3; 2]%Z "00110101000"%string [:: 2; 3; 5; 7]%Z.
Definition ex_fact_10 : case :=
  CFact 10 [:: -2; -1;  -1;  2; 1; -1;  3; 1; -1;  2; 2; -1;  5; 1; -1;  2; 1; 3; 1; -1;  7; 1; -1;
               2; 3; -1;  3; 2; -1;  2; 1; 5; 1; -1]%Z.
Example ex_model_check_tab : model_check ex_tab_10 = true.
Proof. by vm_compute. Qed.
Example ex_model_check_fact : model_check ex_fact_10 = true.
Proof. by vm_compute. Qed.
Example ex_model_check_spec_check_tab : spec_check ex_tab_10 = true.
Proof. exact: c13_model_check_spec_check ex_model_check_tab. Qed.
Example ex_model_check_spec_check_fact : spec_check ex_fact_10 = true.
Proof. exact: c13_model_check_spec_check ex_model_check_fact. Qed.
Example ex_spec_check_run : (spec_check ex_tab_10, spec_check ex_fact_10) = (true, true).
Proof. by vm_compute. Qed.
(** the theorem is not vacuous the other way round: a wrong table fails [model_check] (and [spec_check]) *)
Example ex_wrong_table :
  let c := CTab 10 [:: 0; 0; 2; 3; 2; 5; 2; 7; 2; 3; 5]%Z "00110101000"%string [:: 2; 3; 5; 7]%Z in
  (model_check c, spec_check c) = (false, false).
Proof. by vm_compute. Qed.
