(** C13 — executable model of rlib/sieve/src/lib.rs (definitions only).

    [Sieve::new(N)]: tables of length n = N+1; the outer loop [for i in 2..n]; the inner loop
    [for j in 0..primes.len()] with its early [break] modelled literally: a left fold over the
    prime list carrying a stop flag; once the flag is set nothing more is written.
    Vectors are [seq]s, [v[k] = x] is [set_nth] (always in range here, because the second break
    condition [primes[j] * i >= n] is tested before the write), [i32]/[usize] values are [nat]
    (the property is about limits far below 2^31; the executor never goes beyond 10^7). *)
From mathcomp Require Import all_ssreflect.
Set Implicit Arguments.
Unset Strict Implicit.
Unset Printing Implicit Defensive.

Record st := St { isp : seq bool; mnp : seq nat; prs : seq nat }.

(** one iteration of [for j in 0..primes.len()] for the prime [p = primes[j]]:
      if primes[j] > mnp[i] || primes[j] * i >= n { break; }
      mnp[primes[j] * i] = primes[j];                                         *)
Definition inner_step (n i : nat) (acc : bool * seq nat) (p : nat) : bool * seq nat :=
  let: (stop, m) := acc in
  if stop then acc else
  if (nth 0 m i < p) || (n <= p * i) then (true, m) else (false, set_nth 0 m (p * i) p).

Definition inner (n i : nat) (ps : seq nat) (m : seq nat) : seq nat :=
  (foldl (inner_step n i) (false, m) ps).2.

(** body of [for i in 2..n] *)
Definition outer_step (n : nat) (s : st) (i : nat) : st :=
  let s1 := if nth 0 (mnp s) i == 0
            then St (set_nth false (isp s) i true) (set_nth 0 (mnp s) i i) (rcons (prs s) i)
            else s in
  St (isp s1) (inner n i (prs s1) (mnp s1)) (prs s1).

Definition init (n : nat) : st := St (nseq n false) (nseq n 0) [::].

(** the state after the outer iterations i = 2 .. k+1 (k iterations) with table length n *)
Definition sieve_upto (n k : nat) : st := foldl (outer_step n) (init n) (iota 2 k).

(** [Sieve::new(N)] *)
Definition sieve (N : nat) : st := sieve_upto N.+1 (N.+1 - 2).

(** the accessors (indexing; in range for n <= N, which every theorem assumes) *)
Definition min_prime (s : st) (n : nat) : nat := nth 0 (mnp s) n.
Definition is_prime (s : st) (n : nat) : bool := nth false (isp s) n.
Definition primes_of (s : st) : seq nat := prs s.

(** [PrimeIter::next]'s inner loop
      while self.sieve.min_prime(self.n) == p { cnt += 1; self.n /= p; }
    returns the new (n, cnt); [None] = out of fuel (never happens for fuel >= n when p >= 2) *)
Fixpoint strip (s : st) (p : nat) (fuel n cnt : nat) : option (nat * nat) :=
  if min_prime s n == p then
    if fuel is f.+1 then strip s p f (n %/ p) cnt.+1 else None
  else Some (n, cnt).

(** [factorize(n).collect()]: [None] = the Rust code panics (p = 0: division by zero) or the
    fuel ran out (excluded by the theorem) *)
Fixpoint factor_loop (s : st) (fuel n : nat) : option (seq (nat * nat)) :=
  if n == 1 then Some [::] else
  if fuel is f.+1 then
    let p := min_prime s n in
    if p == 0 then None else
    if strip s p n n 0 is Some (n', c) then
      if factor_loop s f n' is Some r then Some ((p, c) :: r) else None
    else None
  else None.

Definition factorize (s : st) (n : nat) : option (seq (nat * nat)) := factor_loop s n n.

(** the same inner loop in take-while form: the break test is evaluated against the value
    mnp[i] has *before* the loop, the prefix of primes passing it is written unconditionally
    (proved equal to [inner] in ProofsBreak.v, because mnp[i] is not overwritten: p * i <> i) *)
Fixpoint takewhile (T : Type) (a : pred T) (s : seq T) : seq T :=
  if s is x :: s' then if a x then x :: takewhile a s' else [::] else [::].

Definition inner_tw (n i : nat) (ps : seq nat) (m : seq nat) : seq nat :=
  let mi := nth 0 m i in
  foldl (fun m p => set_nth 0 m (p * i) p) m
        (takewhile (fun p => ~~ ((mi < p) || (n <= p * i))) ps).
