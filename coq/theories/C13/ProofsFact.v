(** C13 — factorize: repeated division by the table entry yields [prime_decomp]. *)
From mathcomp Require Import all_ssreflect.
From RlibV Require Import C13.Model C13.ProofsInv.
Set Implicit Arguments.
Unset Strict Implicit.
Unset Printing Implicit Defensive.

(** * arithmetic: peeling the least prime off the decomposition *)
Lemma prime_decomp_cons n : 1 < n ->
  prime_decomp n = (pdiv n, logn (pdiv n) n) :: prime_decomp (n %/ pdiv n ^ logn (pdiv n) n).
Proof.
move=> n1; have n0 : 0 < n by apply: ltnW.
set p := pdiv n; set e := logn p n.
have pp : prime p by apply: pdiv_prime.
have [m cpm ne] := pfactor_coprime pp n0; rewrite -/e in ne.
have pe0 : 0 < p ^ e by rewrite expn_gt0 prime_gt0.
have -> : n %/ p ^ e = m by rewrite ne mulnK.
have m0 : 0 < m by move: n0; rewrite ne muln_gt0 => /andP [].
have npm : ~~ (p %| m) by rewrite -prime_coprime.
have e0 : 0 < e by rewrite logn_gt0 mem_primes pp n0 pdiv_dvd.
have pr : primes n = p :: primes m.
  apply: (irr_sorted_eq ltn_trans ltnn); first exact: sorted_primes.
    rewrite /= path_min_sorted ?sorted_primes //; apply/allP => q.
    rewrite mem_primes => /and3P [pq _ qm].
    rewrite ltn_neqAle; apply/andP; split.
      by apply: contra npm => /eqP ->.
    by rewrite pdiv_min_dvd ?prime_gt1 // ne dvdn_mulr.
  move=> q; rewrite inE !mem_primes n0 m0 /=.
  case: eqP => [->|/eqP qp] /=; first by rewrite pp pdiv_dvd.
  case pq: (prime q) => //=.
  by rewrite ne Euclid_dvdM // Euclid_dvdX // [q %| p]dvdn_prime2 // (negbTE qp) orbF.
rewrite !prime_decompE pr /=; congr (_ :: _).
apply/eq_in_map => q; rewrite mem_primes => /and3P [pq _ qm].
have qp : q != p by apply: contra npm => /eqP <-.
by rewrite ne lognM // lognX (logn_prime _ pp) (negbTE qp) muln0 addn0.
Qed.

Section Factorize.
Variables (s : st) (N : nat).
Hypothesis mp1 : min_prime s 1 = 0.
Hypothesis mpE : forall n, 1 < n <= N -> min_prime s n = pdiv n.

Lemma strip_correct p fuel n cnt :
  prime p -> 0 < n <= N -> n <= fuel -> (forall q, 1 < q -> q %| n -> p <= q) ->
  strip s p fuel n cnt = Some (n %/ p ^ logn p n, cnt + logn p n).
Proof.
move=> pp; have p1 := prime_gt1 pp.
elim: fuel n cnt => [|f IH] n cnt /andP [n0 nN] nf minp.
  by move: nf n0; rewrite leqn0 => /eqP ->.
rewrite /= -/(strip s p f).
case n1: (1 < n); last first.
  have -> : n = 1 by apply/eqP; rewrite eqn_leq n0 leqNgt n1.
  by rewrite mp1 eq_sym (gtn_eqF (prime_gt0 pp)) logn1 expn0 divn1 addn0.
rewrite mpE ?n1 //.
case: eqP => [pe|/eqP pne].
- have pn : p %| n by rewrite -pe pdiv_dvd.
  have ln : logn p n = (logn p (n %/ p)).+1 by rewrite {1}lognE pp n0 pn.
  have lt : n %/ p < n by rewrite ltn_Pdiv.
  have q0 : 0 < n %/ p by rewrite divn_gt0 ?prime_gt0 // dvdn_leq.
  have c1 : 0 < n %/ p <= N by rewrite q0 (leq_trans (ltnW lt)).
  have c2 : n %/ p <= f by rewrite -ltnS (leq_trans lt).
  have c3 q : 1 < q -> q %| n %/ p -> p <= q.
    by move=> q1 qd; apply: minp => //; exact: dvdn_trans qd (dvdn_div pn).
  rewrite (IH _ _ c1 c2 c3).
  by rewrite ln expnS divnMA addSnnS.
- have npn : ~~ (p %| n).
    apply: contra pne => pn; rewrite eqn_leq pdiv_min_dvd //=.
    by apply: minp; rewrite ?pdiv_dvd // prime_gt1 // pdiv_prime.
  by rewrite lognE pp n0 (negbTE npn) /= expn0 divn1 addn0.
Qed.

Lemma factor_loop_correct fuel n :
  0 < n <= N -> n <= fuel -> factor_loop s fuel n = Some (prime_decomp n).
Proof.
elim: fuel n => [|f IH] n /andP [n0 nN] nf.
  by move: nf n0; rewrite leqn0 => /eqP ->.
rewrite /= -/(factor_loop s f).
case: eqP => [->|/eqP nn1] //.
have n1 : 1 < n by rewrite ltn_neqAle eq_sym nn1.
set p := pdiv n.
have pp : prime p by apply: pdiv_prime.
rewrite mpE ?n1 // -/p (gtn_eqF (prime_gt0 pp)).
rewrite strip_correct ?n0 //; last first.
  by move=> q q1 qn; apply: pdiv_min_dvd.
rewrite add0n.
have e0 : 0 < logn p n by rewrite logn_gt0 mem_primes pp n0 pdiv_dvd.
have pe1 : 1 < p ^ logn p n by rewrite -{1}(exp1n (logn p n)) ltn_exp2r // prime_gt1.
have lt : n %/ p ^ logn p n < n by rewrite ltn_Pdiv.
have q0 : 0 < n %/ p ^ logn p n.
  by rewrite divn_gt0 ?(ltnW pe1) // dvdn_leq // pfactor_dvdnn.
have c1 : 0 < n %/ p ^ logn p n <= N by rewrite q0 (leq_trans (ltnW lt)).
have c2 : n %/ p ^ logn p n <= f by rewrite -ltnS (leq_trans lt).
rewrite (IH _ c1 c2).
by rewrite -prime_decomp_cons.
Qed.

End Factorize.

Lemma factorize_correct N n : 0 < n <= N -> factorize (sieve N) n = Some (prime_decomp n).
Proof.
move=> nN; apply: (@factor_loop_correct _ N) => //.
- exact: min_prime_01.
- exact: min_prime_correct.
Qed.

Lemma factorize_1 N : factorize (sieve N) 1 = Some [::].
Proof. by []. Qed.

(** the same without reference to [prime_decomp]: primes, positive exponents, strictly increasing, product n *)
Lemma factorize_spec N n : 0 < n <= N ->
  exists2 f, factorize (sieve N) n = Some f &
    [/\ n = \prod_(pc <- f) pc.1 ^ pc.2, all (fun pc => prime pc.1 && (0 < pc.2)) f
      & sorted ltn (unzip1 f)].
Proof.
move=> nN; have n0 : 0 < n by case/andP: nN.
exists (prime_decomp n); first exact: factorize_correct.
split; first exact: prod_prime_decomp.
- rewrite prime_decompE all_map; apply/allP => p pn /=.
  by rewrite logn_gt0 pn andbT; move: pn; rewrite mem_primes => /and3P [].
- exact: sorted_primes.
Qed.
