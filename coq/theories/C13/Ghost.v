(** C13 — ghost instrumentation of the model (definitions only): the same loops as Model.v,
    carrying a table [c] that counts the assignments to every cell of [mnp] (both assignment
    sites: [mnp[i] = i] and [mnp[primes[j] * i] = primes[j]]).  Used by ProofsOnce.v to state and
    prove that no cell is assigned twice. *)
From mathcomp Require Import all_ssreflect.
From RlibV Require Import C13.Model.
Set Implicit Arguments.
Unset Strict Implicit.
Unset Printing Implicit Defensive.

Definition bump (c : seq nat) (k : nat) : seq nat := set_nth 0 c k (nth 0 c k).+1.

Definition inner_step_g (n i : nat) (acc : bool * (seq nat * seq nat)) (p : nat) :=
  let: (stop, (m, c)) := acc in
  if stop then acc else
  if (nth 0 m i < p) || (n <= p * i) then (true, (m, c))
  else (false, (set_nth 0 m (p * i) p, bump c (p * i))).

Definition inner_g (n i : nat) (ps m c : seq nat) : seq nat * seq nat :=
  (foldl (inner_step_g n i) (false, (m, c)) ps).2.

Definition outer_step_g (n : nat) (sc : st * seq nat) (i : nat) : st * seq nat :=
  let s := sc.1 in let c := sc.2 in
  let z := nth 0 (mnp s) i == 0 in
  let s1 := if z then St (set_nth false (isp s) i true) (set_nth 0 (mnp s) i i) (rcons (prs s) i) else s in
  let c1 := if z then bump c i else c in
  let mc := inner_g n i (prs s1) (mnp s1) c1 in
  (St (isp s1) mc.1 (prs s1), mc.2).

Definition sieve_upto_g (n k : nat) : st * seq nat :=
  foldl (outer_step_g n) (init n, nseq n 0) (iota 2 k).
Definition sieve_g (N : nat) : st * seq nat := sieve_upto_g N.+1 (N.+1 - 2).
