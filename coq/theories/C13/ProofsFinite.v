(** C13 — finite-domain check by computation: for every limit N <= 600 the model's tables and all
    factorisations equal the Mathematical Components definitions.  Independent of the general
    proofs (ProofsInv.v, ProofsFact.v): only [vm_compute] and list bookkeeping. *)
From mathcomp Require Import all_ssreflect.
From RlibV Require Import C13.Model.
Set Implicit Arguments.
Unset Strict Implicit.
Unset Printing Implicit Defensive.

Definition tables_ok (N : nat) : bool :=
  let s := sieve N in
  [&& drop 2 (mnp s) == [seq pdiv m | m <- iota 2 (N.+1 - 2)],
      isp s == [seq prime m | m <- iota 0 N.+1],
      prs s == [seq p <- iota 0 N.+1 | prime p] &
      all (fun n => factorize s n == Some (prime_decomp n)) (iota 1 N)].

Lemma all_tables_ok_600 : all tables_ok (iota 0 601) = true.
Proof. vm_cast_no_check (erefl true). Qed.

Lemma tables_okP N : tables_ok N ->
  [/\ forall n, 1 < n <= N -> min_prime (sieve N) n = pdiv n,
      forall n, n <= N -> is_prime (sieve N) n = prime n,
      primes_of (sieve N) = [seq p <- iota 0 N.+1 | prime p] &
      forall n, 0 < n <= N -> factorize (sieve N) n = Some (prime_decomp n)].
Proof.
case/and4P => /eqP mE /eqP iE /eqP pE /allP fE; split.
- move=> n /andP [n1 nN]; rewrite /min_prime -{1}(subnKC n1) -nth_drop mE.
  have sz : n - 2 < N.+1 - 2 by rewrite ltn_sub2r // (leq_ltn_trans n1).
  by rewrite (nth_map 0) ?size_iota // nth_iota // subnKC.
- move=> n nN; rewrite /is_prime iE (nth_map 0) ?size_iota ?ltnS //.
  by rewrite nth_iota ?ltnS.
- exact: pE.
- move=> n /andP [n0 nN]; apply/eqP/fE.
  by rewrite mem_iota n0 add1n ltnS.
Qed.

Lemma all_limits_upto_600 N : N <= 600 ->
  [/\ forall n, 1 < n <= N -> min_prime (sieve N) n = pdiv n,
      forall n, n <= N -> is_prime (sieve N) n = prime n,
      primes_of (sieve N) = [seq p <- iota 0 N.+1 | prime p] &
      forall n, 0 < n <= N -> factorize (sieve N) n = Some (prime_decomp n)].
Proof.
move=> N600; apply: tables_okP.
by move/allP: all_tables_ok_600; apply; rewrite mem_iota /= add0n ltnS.
Qed.
