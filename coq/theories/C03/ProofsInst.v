(** C03 — the two harness items satisfy every law of the interface; the concrete cases are fresh. *)
From Coq Require Import ZArith List Bool Lia.
From RlibV Require Import C03.Model C03.Proofs.
Import ListNotations.
Open Scope Z_scope.

Lemma zsum_app a b : zsum (a ++ b) = zsum a + zsum b.
Proof. induction a as [|x a IH]; simpl; lia. Qed.
Lemma len_cons {V} (x : V) xs : len (x :: xs) = 1 + len xs.
Proof. unfold len. simpl length. lia. Qed.
Lemma len_app {V} (a b : list V) : len (a ++ b) = len a + len b.
Proof. unfold len. rewrite app_length. lia. Qed.
Lemma len_nil {V} : len (@nil V) = 0.
Proof. reflexivity. Qed.

(** ---------- instance 0: lazy add, sum ---------- *)
Definition isz_pending (x : isz) (ms : list Z) : Prop := imd x = zsum ms.

Lemma acts_add ms v : acts Z.add ms v = v + zsum ms.
Proof. unfold acts. revert v. induction ms as [|m ms IH]; intros v; simpl; [lia|]. rewrite IH. lia. Qed.
Lemma zsum_map_add ms xs : zsum (map (acts Z.add ms) xs) = zsum xs + zsum ms * len xs.
Proof.
  induction xs as [|x xs IH]; [unfold len; simpl; lia|].
  simpl map. simpl zsum. rewrite IH, acts_add, len_cons. lia.
Qed.

Lemma isz_summ o ls : Summ isize ism zsum o ls -> isz_osm o = zsum ls /\ isz_osz o = len ls.
Proof. destruct o; simpl; [tauto|]. intros ->. auto. Qed.

Lemma isz_pushed ms c o :
  c = zsum ms -> Pushed isize ix ism Z.add zsum isz_pending ms o (option_map (isz_modify c) o).
Proof.
  intros ->. destruct o as [a|]; simpl; [|exact I]. repeat split.
  - now rewrite acts_add.
  - rewrite zsum_map_add. rewrite <- H, H0. lia.
  - assumption.
  - intros ps Hps. unfold isz_pending in *. rewrite zsum_app. simpl. lia.
Qed.

Theorem isz_lawful : lawful isz_update isz_push isize isz_modify ix ism Z.add zsum isz_pending.
Proof.
  constructor.
  - intros x ol or ls rs Hl Hr. apply isz_summ in Hl, Hr. destruct Hl as [Hl1 Hl2], Hr as [Hr1 Hr2].
    simpl. rewrite zsum_app, len_app, len_cons. simpl zsum. repeat split; try lia. auto.
  - intros x oa ob x' oa' ob' ms Hp HE. unfold isz_push in HE. injection HE as <- <- <-. simpl.
    repeat split; try reflexivity; apply isz_pushed; exact Hp.
  - intros m x. apply (isz_pushed [m] m (Some x)). simpl. lia.
Qed.

Lemma isz_fresh v : Fresh isize ix ism zsum isz_pending (isz_mk v).
Proof. repeat split. simpl. lia. Qed.

(** ---------- instance 1: assign-or-add ---------- *)
Definition tagf (s : option Z) (d : Z) (e : Z) : Z := match s with Some c => c | None => e end + d.
Definition iaa_pending (x : iaa) (ms : list amod) : Prop := forall e, acts amod_act ms e = tagf (aset x) (aadd x) e.

Lemma zsum_map_tagf s d xs :
  zsum (map (tagf s d) xs) = match s with Some c => c * len xs | None => zsum xs end + d * len xs.
Proof.
  induction xs as [|x xs IH]; [destruct s; unfold len; simpl; lia|].
  simpl map. cbn [zsum fold_right]. fold (zsum (map (tagf s d) xs)). fold (zsum xs). rewrite IH, len_cons. destruct s; unfold tagf; lia.
Qed.

Lemma iaa_summ o ls : Summ asize asm zsum o ls -> iaa_osm o = zsum ls /\ iaa_osz o = len ls.
Proof. destruct o; simpl; [tauto|]. intros ->. auto. Qed.

(** applying to [a] a tag that acts like [ms] *)
Lemma iaa_push_to_pushed x ms o : iaa_pending x ms ->
  Pushed asize ax asm amod_act zsum iaa_pending ms o (option_map (iaa_push_to x) o).
Proof.
  intros Hp. destruct o as [a|]; simpl; [|exact I].
  assert (Hmap : forall xs, map (acts amod_act ms) xs = map (tagf (aset x) (aadd x)) xs) by (intros; apply map_ext; exact Hp).
  unfold iaa_push_to. repeat split.
  - rewrite Hp. unfold tagf. destruct (aset x) as [c|]; destruct (aadd x =? 0) eqn:Ed; simpl;
      try (apply Z.eqb_eq in Ed; rewrite Ed); lia.
  - rewrite Hmap, zsum_map_tagf. rewrite <- H0.
    destruct (aset x) as [c|]; destruct (aadd x =? 0) eqn:Ed; simpl;
      try (apply Z.eqb_eq in Ed; rewrite Ed); lia.
  - destruct (aset x) as [c|]; destruct (aadd x =? 0); simpl; assumption.
  - intros ps Hps e. rewrite acts_app, Hp, Hps. unfold tagf.
    destruct (aset x) as [c|]; destruct (aadd x =? 0) eqn:Ed; simpl;
      try (apply Z.eqb_eq in Ed; rewrite Ed); destruct (aset a); lia.
Qed.

Lemma iaa_modify_pushed m x : Pushed asize ax asm amod_act zsum iaa_pending [m] (Some x) (Some (iaa_modify m x)).
Proof.
  assert (Hmap : forall xs, map (acts amod_act [m]) xs =
                            map (tagf (match m with MSet c => Some c | MAdd _ => None end) (match m with MSet _ => 0 | MAdd c => c end)) xs).
  { intros. apply map_ext. intros e. destruct m; unfold acts, tagf; simpl; lia. }
  simpl. repeat split.
  - destruct m; reflexivity.
  - rewrite Hmap, zsum_map_tagf. rewrite <- H0. destruct m; simpl; lia.
  - destruct m; simpl; assumption.
  - intros ps Hps e. rewrite acts_app, Hps. destruct m; unfold acts, tagf; simpl; destruct (aset x); lia.
Qed.

Theorem iaa_lawful : lawful iaa_update iaa_push asize iaa_modify ax asm amod_act zsum iaa_pending.
Proof.
  constructor.
  - intros x ol or ls rs Hl Hr. apply iaa_summ in Hl, Hr. destruct Hl as [Hl1 Hl2], Hr as [Hr1 Hr2].
    simpl. rewrite zsum_app, len_app, len_cons. simpl zsum. repeat split; try lia. auto.
  - intros x oa ob x' oa' ob' ms Hp HE. unfold iaa_push in HE. injection HE as <- <- <-. simpl.
    repeat split; try reflexivity; try (apply iaa_push_to_pushed; exact Hp).
    intros e. unfold tagf. simpl. unfold acts. simpl. lia.
  - exact iaa_modify_pushed.
Qed.

Lemma iaa_fresh v : Fresh asize ax asm zsum iaa_pending (iaa_mk v).
Proof. repeat split. - intros e. unfold tagf, acts. simpl. lia. - simpl. lia. Qed.
