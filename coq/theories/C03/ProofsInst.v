(** C03 — the three harness items satisfy every law of the interface; the concrete cases are fresh. *)
From Coq Require Import ZArith List Bool Lia Zdiv Morphisms Setoid.
From RlibV Require Import C03.Model C03.Proofs.
Import ListNotations.
Open Scope Z_scope.

Lemma zsum_app a b : zsum (a ++ b) = zsum a + zsum b.
Proof. induction a as [|x a IH]; simpl; lia. Qed.
Lemma len_cons {V} (x : V) xs : len (x :: xs) = 1 + len xs.
Proof. unfold len. simpl length. lia. Qed.
Lemma len_app {V} (a b : list V) : len (a ++ b) = len a + len b.
Proof. unfold len. rewrite app_length. lia. Qed.
Lemma len_nil {V} : len (@nil V) = 0.
Proof. reflexivity. Qed.

(** ---------- instance 0: lazy add, sum ---------- *)
Definition isz_pending (x : isz) (ms : list Z) : Prop := imd x = zsum ms.

Lemma acts_add ms v : acts Z.add ms v = v + zsum ms.
Proof. unfold acts. revert v. induction ms as [|m ms IH]; intros v; simpl; [lia|]. rewrite IH. lia. Qed.
Lemma zsum_map_add ms xs : zsum (map (acts Z.add ms) xs) = zsum xs + zsum ms * len xs.
Proof.
  induction xs as [|x xs IH]; [unfold len; simpl; lia|].
  simpl map. simpl zsum. rewrite IH, acts_add, len_cons. lia.
Qed.

Lemma isz_summ o ls : Summ isize ism zsum o ls -> isz_osm o = zsum ls /\ isz_osz o = len ls.
Proof. destruct o; simpl; [tauto|]. intros ->. auto. Qed.

Lemma isz_pushed ms c o :
  c = zsum ms -> Pushed isize ix ism Z.add zsum isz_pending ms o (option_map (isz_modify c) o).
Proof.
  intros ->. destruct o as [a|]; simpl; [|exact I]. repeat split.
  - now rewrite acts_add.
  - rewrite zsum_map_add. rewrite <- H, H0. lia.
  - assumption.
  - intros ps Hps. unfold isz_pending in *. rewrite zsum_app. simpl. lia.
Qed.

Theorem isz_lawful : lawful isz_update isz_push isize isz_modify ix ism Z.add zsum isz_pending.
Proof.
  constructor.
  - intros x ol or ls rs Hl Hr. apply isz_summ in Hl, Hr. destruct Hl as [Hl1 Hl2], Hr as [Hr1 Hr2].
    simpl. rewrite zsum_app, len_app, len_cons. simpl zsum. repeat split; try lia. auto.
  - intros x oa ob x' oa' ob' ms Hp HE. unfold isz_push in HE. injection HE as <- <- <-. simpl.
    repeat split; try reflexivity; apply isz_pushed; exact Hp.
  - intros m x. apply (isz_pushed [m] m (Some x)). simpl. lia.
Qed.

Lemma isz_fresh v : Fresh isize ix ism zsum isz_pending (isz_mk v).
Proof. repeat split. simpl. lia. Qed.

(** ---------- instance 1: assign-or-add ---------- *)
Definition tagf (s : option Z) (d : Z) (e : Z) : Z := match s with Some c => c | None => e end + d.
Definition iaa_pending (x : iaa) (ms : list amod) : Prop := forall e, acts amod_act ms e = tagf (aset x) (aadd x) e.

Lemma zsum_map_tagf s d xs :
  zsum (map (tagf s d) xs) = match s with Some c => c * len xs | None => zsum xs end + d * len xs.
Proof.
  induction xs as [|x xs IH]; [destruct s; unfold len; simpl; lia|].
  simpl map. cbn [zsum fold_right]. fold (zsum (map (tagf s d) xs)). fold (zsum xs). rewrite IH, len_cons. destruct s; unfold tagf; lia.
Qed.

Lemma iaa_summ o ls : Summ asize asm zsum o ls -> iaa_osm o = zsum ls /\ iaa_osz o = len ls.
Proof. destruct o; simpl; [tauto|]. intros ->. auto. Qed.

(** applying to [a] a tag that acts like [ms] *)
Lemma iaa_push_to_pushed x ms o : iaa_pending x ms ->
  Pushed asize ax asm amod_act zsum iaa_pending ms o (option_map (iaa_push_to x) o).
Proof.
  intros Hp. destruct o as [a|]; simpl; [|exact I].
  assert (Hmap : forall xs, map (acts amod_act ms) xs = map (tagf (aset x) (aadd x)) xs) by (intros; apply map_ext; exact Hp).
  unfold iaa_push_to. repeat split.
  - rewrite Hp. unfold tagf. destruct (aset x) as [c|]; destruct (aadd x =? 0) eqn:Ed; simpl;
      try (apply Z.eqb_eq in Ed; rewrite Ed); lia.
  - rewrite Hmap, zsum_map_tagf. rewrite <- H0.
    destruct (aset x) as [c|]; destruct (aadd x =? 0) eqn:Ed; simpl;
      try (apply Z.eqb_eq in Ed; rewrite Ed); lia.
  - destruct (aset x) as [c|]; destruct (aadd x =? 0); simpl; assumption.
  - intros ps Hps e. rewrite acts_app, Hp, Hps. unfold tagf.
    destruct (aset x) as [c|]; destruct (aadd x =? 0) eqn:Ed; simpl;
      try (apply Z.eqb_eq in Ed; rewrite Ed); destruct (aset a); lia.
Qed.

Lemma iaa_modify_pushed m x : Pushed asize ax asm amod_act zsum iaa_pending [m] (Some x) (Some (iaa_modify m x)).
Proof.
  assert (Hmap : forall xs, map (acts amod_act [m]) xs =
                            map (tagf (match m with MSet c => Some c | MAdd _ => None end) (match m with MSet _ => 0 | MAdd c => c end)) xs).
  { intros. apply map_ext. intros e. destruct m; unfold acts, tagf; simpl; lia. }
  simpl. repeat split.
  - destruct m; reflexivity.
  - rewrite Hmap, zsum_map_tagf. rewrite <- H0. destruct m; simpl; lia.
  - destruct m; simpl; assumption.
  - intros ps Hps e. rewrite acts_app, Hps. destruct m; unfold acts, tagf; simpl; destruct (aset x); lia.
Qed.

Theorem iaa_lawful : lawful iaa_update iaa_push asize iaa_modify ax asm amod_act zsum iaa_pending.
Proof.
  constructor.
  - intros x ol or ls rs Hl Hr. apply iaa_summ in Hl, Hr. destruct Hl as [Hl1 Hl2], Hr as [Hr1 Hr2].
    simpl. rewrite zsum_app, len_app, len_cons. simpl zsum. repeat split; try lia. auto.
  - intros x oa ob x' oa' ob' ms Hp HE. unfold iaa_push in HE. injection HE as <- <- <-. simpl.
    repeat split; try reflexivity; try (apply iaa_push_to_pushed; exact Hp).
    intros e. unfold tagf. simpl. unfold acts. simpl. lia.
  - exact iaa_modify_pushed.
Qed.

Lemma iaa_fresh v : Fresh asize ax asm zsum iaa_pending (iaa_mk v).
Proof. repeat split. - intros e. unfold tagf, acts. simpl. lia. - simpl. lia. Qed.

(** ---------- instance 2: positional hash (order-sensitive aggregate), lazy add ----------
    Arithmetic modulo hP is done with the [eqm] setoid of Zdiv; [Hr] is the unreduced Horner evaluation. *)
Lemma hP_pos : 0 < hP. Proof. reflexivity. Qed.
Lemma hP_nz : hP <> 0. Proof. discriminate. Qed.
Lemma hP_gt1 : 1 < hP. Proof. reflexivity. Qed.
Lemma hB_range : 0 <= hB < hP. Proof. split; [discriminate|reflexivity]. Qed.

#[local] Instance eqmP_equiv : Equivalence (eqm hP) := eqm_setoid hP.
#[local] Instance eqmP_add : Proper (eqm hP ==> eqm hP ==> eqm hP) Z.add := Zplus_eqm hP.
#[local] Instance eqmP_mul : Proper (eqm hP ==> eqm hP ==> eqm hP) Z.mul := Zmult_eqm hP.
Lemma modP_eqm a : eqm hP (a mod hP) a.
Proof. apply Zmod_eqm. Qed.
#[local] Opaque hP hB.

Ltac modp := change (?a mod hP = ?b mod hP) with (eqm hP a b); rewrite ?modP_eqm; unfold eqm; f_equal; try ring.

(* unreduced Horner *)
Definition Hr (acc : Z) (xs : list Z) : Z := fold_left (fun a x => a * hB + x) xs acc.
Definition ones (xs : list Z) : list Z := map (fun _ => 1) xs.

Lemma pow_len_cons (x : Z) xs : hB ^ len (x :: xs) = hB * hB ^ len xs.
Proof. rewrite len_cons. rewrite Z.pow_add_r by (unfold len; lia). now rewrite Z.pow_1_r. Qed.
Lemma Hr_acc xs : forall acc, Hr acc xs = acc * hB ^ len xs + Hr 0 xs.
Proof.
  induction xs as [|x xs IH]; intros acc.
  - unfold Hr, len. simpl. lia.
  - unfold Hr in *. cbn [fold_left]. rewrite (IH (acc * hB + x)), (IH (0 * hB + x)), pow_len_cons. ring.
Qed.
Lemma Hr_app ls e rs : Hr 0 (ls ++ e :: rs) = Hr 0 ls * (hB * hB ^ len rs) + e * hB ^ len rs + Hr 0 rs.
Proof.
  unfold Hr at 1. rewrite fold_left_app. cbn [fold_left]. fold (Hr 0 ls). fold (Hr (Hr 0 ls * hB + e) rs).
  rewrite Hr_acc. ring.
Qed.
Lemma Hr_lin c xs : forall a b, Hr (a + c * b) (map (fun x => x + c) xs) = Hr a xs + c * Hr b (ones xs).
Proof.
  induction xs as [|x xs IH]; intros a b.
  - reflexivity.
  - unfold Hr, ones in *. cbn [map fold_left].
    replace ((a + c * b) * hB + (x + c)) with ((a * hB + x) + c * (b * hB + 1)) by ring. apply IH.
Qed.

Definition Gm (acc : Z) (xs : list Z) : Z := fold_left (fun a x => (a * hB + x) mod hP) xs acc.
Lemma Gm_Hr xs : forall a a', a mod hP = a' mod hP -> Gm a xs mod hP = Hr a' xs mod hP.
Proof.
  induction xs as [|x xs IH]; intros a a' H; [exact H|].
  unfold Gm, Hr in *. cbn [fold_left]. apply IH. rewrite Zmod_mod.
  change (eqm hP (a * hB + x) (a' * hB + x)). change (eqm hP a a') in H. now rewrite H.
Qed.
Lemma Gm_range xs : forall a, 0 <= a < hP -> 0 <= Gm a xs < hP.
Proof.
  induction xs as [|x xs IH]; intros a H; [exact H|].
  unfold Gm in *. cbn [fold_left]. apply IH. apply Z.mod_pos_bound, hP_pos.
Qed.
Lemma hashf_Hr xs : hashf xs = Hr 0 xs mod hP.
Proof.
  unfold hashf. fold (Gm 0 xs). rewrite <- (Gm_Hr xs 0 0 eq_refl). symmetry. apply Z.mod_small, Gm_range.
  pose proof hP_pos. lia.
Qed.

Definition Pm (acc : Z) (xs : list Z) : Z := fold_left (fun a (_ : Z) => (a * hB) mod hP) xs acc.
Lemma Pm_pow xs : forall a, Pm a xs mod hP = (a * hB ^ len xs) mod hP.
Proof.
  induction xs as [|x xs IH]; intros a.
  - unfold Pm, len. simpl. f_equal. lia.
  - unfold Pm in *. cbn [fold_left]. rewrite IH, pow_len_cons. modp.
Qed.
Lemma Pm_range xs : forall a, 0 <= a < hP -> 0 <= Pm a xs < hP.
Proof.
  induction xs as [|x xs IH]; intros a H; [exact H|].
  unfold Pm in *. cbn [fold_left]. apply IH. apply Z.mod_pos_bound, hP_pos.
Qed.
Lemma hpowf_pow xs : hpowf xs = hB ^ len xs mod hP.
Proof.
  unfold hpowf. fold (Pm 1 xs). rewrite <- (Z.mul_1_l (hB ^ len xs)), <- Pm_pow. symmetry.
  apply Z.mod_small, Pm_range. pose proof hP_gt1. lia.
Qed.

Lemma len_ones xs : len (ones xs) = len xs.
Proof. unfold ones. apply len_map. Qed.
Lemma ones_app a e b : ones (a ++ e :: b) = ones a ++ 1 :: ones b.
Proof. unfold ones. now rewrite map_app. Qed.
Lemma ones_map (f : Z -> Z) xs : ones (map f xs) = ones xs.
Proof. unfold ones. now rewrite map_map. Qed.

(* the aggregate of a concatenation, as [ihs_update] computes it *)
Lemma hashagg_node ls e rs :
  let bp := (hB * hpowf rs) mod hP in
  hashagg (ls ++ e :: rs) =
  ((hashf ls * bp + e * hpowf rs + hashf rs) mod hP,
   (hpowf ls * bp) mod hP,
   (hashf (ones ls) * bp + hpowf rs + hashf (ones rs)) mod hP).
Proof.
  intros bp. subst bp. unfold hashagg. fold (ones (ls ++ e :: rs)). rewrite ones_app.
  rewrite !hashf_Hr, !hpowf_pow, !Hr_app, !len_ones.
  rewrite len_app, len_cons, !Z.pow_add_r, Z.pow_1_r by (unfold len; lia).
  f_equal; [f_equal|]; modp.
Qed.

Lemma hashagg_add c xs :
  hashagg (map (fun x => x + c) xs) = ((hashf xs + c * hashf (ones xs)) mod hP, hpowf xs, hashf (ones xs)).
Proof.
  unfold hashagg. fold (ones (map (fun x => x + c) xs)). fold (ones xs). rewrite ones_map.
  rewrite !hpowf_pow, len_map. do 2 f_equal.
  rewrite !hashf_Hr. pose proof (Hr_lin c xs 0 0) as H. replace (0 + c * 0) with 0 in H by ring. rewrite H. modp.
Qed.

Definition ihs_pending (x : ihs) (ms : list Z) : Prop := hmd x = zsum ms.

Lemma ihs_summ o ls : Summ hsz ihs_agg hashagg o ls ->
  ihs_oh o = hashf ls /\ ihs_opw o = hpowf ls /\ ihs_orp o = hashf (ones ls) /\ ihs_osz o = len ls.
Proof.
  destruct o as [a|]; simpl.
  - unfold ihs_agg, hashagg. intros [H ->]. injection H as -> -> ->. auto.
  - intros ->. repeat split.
Qed.

Lemma ihs_pushed ms c o :
  c = zsum ms -> Pushed hsz hx ihs_agg Z.add hashagg ihs_pending ms o (option_map (ihs_modify c) o).
Proof.
  intros ->. destruct o as [a|]; simpl; [|exact I]. repeat split.
  - now rewrite acts_add.
  - rewrite (map_ext _ (fun x => x + zsum ms) (acts_add ms)), hashagg_add.
    unfold ihs_agg, hashagg in H. injection H as H1 H2 H3.
    unfold ihs_agg, ihs_modify. cbn [hh hpw hrp]. fold (ones xs) in H3. now rewrite H1, H2, H3.
  - assumption.
  - intros ps Hps. unfold ihs_pending in *. rewrite zsum_app. simpl. lia.
Qed.

Theorem ihs_lawful : lawful ihs_update ihs_push hsz ihs_modify hx ihs_agg Z.add hashagg ihs_pending.
Proof.
  constructor.
  - intros x ol or ls rs Hl Hr. apply ihs_summ in Hl, Hr.
    destruct Hl as (Hl1 & Hl2 & Hl3 & Hl4), Hr as (Hr1 & Hr2 & Hr3 & Hr4).
    repeat split.
    + unfold ihs_agg, ihs_update. cbn [hh hpw hrp hx]. rewrite hashagg_node. cbv zeta.
      now rewrite Hl1, Hl2, Hl3, Hr1, Hr2, Hr3.
    + unfold ihs_update. cbn [hsz hx]. rewrite Hl4, Hr4, len_app, len_cons. lia.
    + auto.
  - intros x oa ob x' oa' ob' ms Hp HE. unfold ihs_push in HE. injection HE as <- <- <-. simpl.
    repeat split; try reflexivity; apply ihs_pushed; exact Hp.
  - intros m x. apply (ihs_pushed [m] m (Some x)). simpl. lia.
Qed.

Lemma ihs_fresh v : Fresh hsz hx ihs_agg hashagg ihs_pending (ihs_mk v).
Proof.
  split; [reflexivity|]. split; [|reflexivity]. unfold ihs_agg, ihs_mk, hashagg. cbn [hh hpw hrp hx map]. unfold hashf, hpowf. cbn [fold_left].
  rewrite !Z.mul_0_l, !Z.add_0_l, Z.mul_1_l. f_equal; try (symmetry; apply Z.mod_small; pose proof hP_gt1; lia).
Qed.
