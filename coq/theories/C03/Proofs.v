(** C03 — proofs: the lawful-item interface, [Rep], every operation, the machine, the history theorem. *)
From Coq Require Import ZArith List Bool Lia.
From RlibV Require Import C03.Model.
Import ListNotations.
Open Scope Z_scope.


(** ---------- Forall2 through the machine's list plumbing ---------- *)
Section F2.
Context {X Y : Type} (R : X -> Y -> Prop).
Definition opt_rel (a : option X) (b : option Y) : Prop :=
  match a, b with Some x, Some y => R x y | None, None => True | _, _ => False end.
Lemma F2_nth l l' i : Forall2 R l l' -> opt_rel (nth_error l i) (nth_error l' i).
Proof. intros H. revert i. induction H as [|a b l l' Hab H IH]; intros [|i]; simpl; auto. Qed.
Lemma F2_remove l l' i : Forall2 R l l' -> Forall2 R (remove_nth i l) (remove_nth i l').
Proof. intros H. revert i. induction H as [|a b l l' Hab H IH]; intros [|i]; simpl; auto. Qed.
Lemma F2_replace l l' i a b : Forall2 R l l' -> R a b -> Forall2 R (replace_nth i a l) (replace_nth i b l').
Proof. intros H Hab. revert i. induction H as [|a0 b0 l l' Hab0 H IH]; intros [|i]; simpl; auto. Qed.
Lemma F2_take1 l l' i : Forall2 R l l' ->
  match take1 i l, take1 i l' with
  | Some (a, r), Some (b, r') => R a b /\ Forall2 R r r'
  | None, None => True
  | _, _ => False
  end.
Proof.
  intros H. unfold take1. pose proof (F2_nth l l' i H) as Hn.
  destruct (nth_error l i), (nth_error l' i); simpl in Hn; try contradiction; auto using F2_remove.
Qed.
Lemma F2_take2 l l' i j : Forall2 R l l' ->
  match take2 i j l, take2 i j l' with
  | Some (a, b, r), Some (a', b', r') => R a a' /\ R b b' /\ Forall2 R r r'
  | None, None => True
  | _, _ => False
  end.
Proof.
  intros H. unfold take2. destruct (Nat.eqb i j); [exact I|].
  pose proof (F2_nth l l' i H) as Hi. pose proof (F2_nth l l' j H) as Hj.
  destruct (nth_error l i), (nth_error l' i); simpl in Hi; try contradiction;
  destruct (nth_error l j), (nth_error l' j); simpl in Hj; try contradiction; auto using F2_remove.
Qed.
End F2.

(** ---------- the position functions of the specification are firstn / skipn / nth_error at [Z.to_nat k] ---------- *)
Section ZPos.
Context {X : Type}.
Lemma zfirstn_eq (k : Z) (l : list X) : zfirstn k l = firstn (Z.to_nat k) l.
Proof.
  unfold zfirstn. destruct (Z.le_gt_cases k (Z.of_nat (length l))) as [H|H].
  - now rewrite Z.min_l.
  - rewrite Z.min_r by lia. rewrite Nat2Z.id. rewrite !firstn_all2 by lia. reflexivity.
Qed.
Lemma zskipn_eq (k : Z) (l : list X) : zskipn k l = skipn (Z.to_nat k) l.
Proof.
  unfold zskipn. destruct (Z.le_gt_cases k (Z.of_nat (length l))) as [H|H].
  - now rewrite Z.min_l.
  - rewrite Z.min_r by lia. rewrite Nat2Z.id. rewrite !skipn_all2 by lia. reflexivity.
Qed.
Lemma znth_eq (k : Z) (l : list X) : znth k l = nth_error l (Z.to_nat k).
Proof.
  unfold znth. destruct (k <? Z.of_nat (length l)) eqn:H; [reflexivity|].
  apply Z.ltb_ge in H. symmetry. apply nth_error_None. lia.
Qed.
End ZPos.

Section Laws.
Context {T M V A : Type}.
Variable update : T -> option T -> option T -> T.
Variable push : T -> option T -> option T -> T * option T * option T.
Variable size : T -> Z.
Variable modify : M -> T -> T.
Variable elem : T -> V.
Variable agg : T -> A.
Variable act : M -> V -> V.
Variable aggf : list V -> A.
(** ghost reading of the lazy tag stored in an item: the modifications, in attachment order, that still
    have to be applied to everything below the node *)
Variable Pending : T -> list M -> Prop.

Notation acts := (Model.acts act).
Notation mods := (Model.mods modify).
Definition len (xs : list V) : Z := Z.of_nat (length xs).

(** the root item [o] of a subtree summarises the sequence [xs] *)
Definition Summ (o : option T) (xs : list V) : Prop :=
  match o with None => xs = [] | Some a => agg a = aggf xs /\ size a = len xs end.

(** [o'] is [o] after the modifications [ms] were applied to it from above *)
Definition Pushed (ms : list M) (o o' : option T) : Prop :=
  match o, o' with
  | None, None => True
  | Some a, Some a' =>
      elem a' = acts ms (elem a)
      /\ (forall xs, agg a = aggf xs -> size a = len xs -> agg a' = aggf (map (acts ms) xs) /\ size a' = len xs)
      /\ (forall ps, Pending a ps -> Pending a' (ps ++ ms))
  | _, _ => False
  end.

Record lawful : Prop := {
  law_update : forall x ol or ls rs, Summ ol ls -> Summ or rs ->
    elem (update x ol or) = elem x
    /\ agg (update x ol or) = aggf (ls ++ elem x :: rs)
    /\ size (update x ol or) = len (ls ++ elem x :: rs)
    /\ (forall ms, Pending x ms -> Pending (update x ol or) ms);
  law_push : forall x oa ob x' oa' ob' ms, Pending x ms -> push x oa ob = (x', oa', ob') ->
    elem x' = elem x /\ agg x' = agg x /\ size x' = size x /\ Pending x' []
    /\ Pushed ms oa oa' /\ Pushed ms ob ob';
  law_modify : forall m x, Pushed [m] (Some x) (Some (modify m x))
}.

(** a freshly made item: one element, nothing pending *)
Definition Fresh (x : T) : Prop := Pending x [] /\ agg x = aggf [elem x] /\ size x = 1.
(** an item that is not inside a treap and summarises its own element only: one element, aggregate of that
    one-element sequence, size 1, ANY pending tag (a fresh item, or the item that remove_at returned, after the
    caller modified it any number of times: move-and-update).  The pending modifications have already been applied
    to its own element (that is what [modify] does); they concern whatever is attached below it later. *)
Definition Detached (x : T) : Prop := exists ms, Pending x ms /\ agg x = aggf [elem x] /\ size x = 1.

Hypothesis LAW : lawful.

Notation tree := (@tree T).

(** [Rep t xs]: the treap [t] denotes the sequence [xs] *)
Inductive Rep : tree -> list V -> Prop :=
| RepE : Rep E []
| RepN l x p r ms ls rs xs :
    Pending x ms -> Rep l ls -> Rep r rs ->
    xs = map (acts ms) ls ++ elem x :: map (acts ms) rs ->
    agg x = aggf xs -> size x = len xs ->
    Rep (Nd l x p r) xs.

Lemma acts_app ms ps v : acts (ps ++ ms) v = acts ms (acts ps v).
Proof. unfold acts. now rewrite fold_left_app. Qed.
Lemma map_acts_nil (vs : list V) : map (acts []) vs = vs.
Proof. induction vs; simpl; congruence. Qed.
Lemma map_acts_app ms ps (vs : list V) : map (acts ms) (map (acts ps) vs) = map (acts (ps ++ ms)) vs.
Proof. rewrite map_map. apply map_ext. intros. now rewrite acts_app. Qed.
Lemma len_map (f : V -> V) xs : len (map f xs) = len xs.
Proof. unfold len. now rewrite map_length. Qed.

Lemma set_item_Nd l x0 p r (o : option T) : set_item (Nd l x0 p r) o = Nd l (ovr o x0) p r.
Proof. destruct o; reflexivity. Qed.
Lemma set_item_None (t : tree) : set_item t None = t.
Proof. destruct t; reflexivity. Qed.

Lemma Rep_Summ t xs : Rep t xs -> Summ (item t) xs.
Proof. destruct 1; simpl; auto. Qed.
Lemma Rep_osize t xs : Rep t xs -> osize size (item t) = len xs.
Proof. destruct 1; simpl; auto. Qed.
Lemma Rep_E_inv xs : Rep E xs -> xs = [].
Proof. inversion 1; auto. Qed.
Lemma Rep_nil_inv t : Rep t [] -> t = E.
Proof. inversion 1 as [|l x p r ms ls rs xs Hp Hl Hr Hx Ha Hs]; auto. now apply app_cons_not_nil in Hx. Qed.
Lemma Rep_Nd_nonnil l x p r xs : Rep (Nd l x p r) xs -> xs <> [].
Proof. inversion 1; subst. intro H0. symmetry in H0. now apply app_cons_not_nil in H0. Qed.

Lemma Rep_pushed t xs ms o' : Rep t xs -> Pushed ms (item t) o' -> Rep (set_item t o') (map (acts ms) xs).
Proof.
  intros HR HP. destruct HR as [|l x p r ps ls rs xs Hp Hl Hr Hx Ha Hs]; simpl in *.
  - destruct o'; [contradiction|]. constructor.
  - destruct o' as [x'|]; [|contradiction]. destruct HP as (He & Hag & Hpe).
    destruct (Hag xs Ha Hs) as [Ha' Hs'].
    eapply RepN with (ms := ps ++ ms); eauto.
    + subst xs. rewrite map_app. simpl. rewrite !map_acts_app. now rewrite He.
    + now rewrite len_map.
Qed.

Lemma Rep_push_node l x p r xs x' ol or :
  Rep (Nd l x p r) xs -> push x (item l) (item r) = (x', ol, or) ->
  exists ls rs, xs = ls ++ elem x' :: rs /\ Rep (set_item l ol) ls /\ Rep (set_item r or) rs
    /\ Pending x' [] /\ agg x' = aggf xs /\ size x' = len xs.
Proof.
  intros HR HP. inversion HR as [|l0 x0 p0 r0 ms ls rs xs0 Hp Hl Hr Hx Ha Hs]; subst.
  destruct (law_push LAW _ _ _ _ _ _ _ Hp HP) as (He & Hag & Hsz & Hp' & Pl & Pr).
  exists (map (acts ms) ls), (map (acts ms) rs). rewrite He. repeat split; auto.
  - now apply Rep_pushed.
  - now apply Rep_pushed.
  - congruence.
  - congruence.
Qed.

Lemma Rep_node l x p r ls rs :
  Rep l ls -> Rep r rs -> Pending x [] -> agg x = aggf (ls ++ elem x :: rs) -> size x = len (ls ++ elem x :: rs) ->
  Rep (Nd l x p r) (ls ++ elem x :: rs).
Proof. intros. eapply RepN with (ms := []); eauto. now rewrite !map_acts_nil. Qed.

Lemma Rep_mk l x p r ls rs :
  Rep l ls -> Rep r rs -> Pending x [] ->
  Rep (Nd l (update x (item l) (item r)) p r) (ls ++ elem x :: rs).
Proof.
  intros Hl Hr Hp.
  destruct (law_update LAW x _ _ _ _ (Rep_Summ _ _ Hl) (Rep_Summ _ _ Hr)) as (He & Ha & Hs & Hpe).
  rewrite <- He. apply Rep_node; auto; rewrite He; auto.
Qed.

Lemma Fresh_Detached x : Fresh x -> Detached x.
Proof. intros (Hp & Ha & Hs). exists []. auto. Qed.

(** modifying a detached item keeps it detached; its element is acted upon *)
Lemma Detached_modify m x : Detached x -> Detached (modify m x) /\ elem (modify m x) = act m (elem x).
Proof.
  intros (ms & Hp & Ha & Hs). destruct (law_modify LAW m x) as (He & Hag & Hpe).
  destruct (Hag [elem x] Ha Hs) as [Ha' Hs']. simpl in He, Ha'. split; [|exact He].
  exists (ms ++ [m]). rewrite He. auto.
Qed.
Lemma Detached_mods ms : forall x, Detached x -> Detached (mods ms x) /\ elem (mods ms x) = acts ms (elem x).
Proof.
  induction ms as [|m ms IH]; intros x Hx; [split; [exact Hx|reflexivity]|].
  destruct (Detached_modify m x Hx) as [Hd He]. destruct (IH (modify m x) Hd) as [Hd' He'].
  split; [exact Hd'|]. unfold Model.mods, Model.acts in *. cbn [fold_left]. now rewrite He', He.
Qed.

(** a single node holding a detached item denotes its one element, whatever is pending on it *)
Lemma Rep_single x p : Detached x -> Rep (single x p) [elem x].
Proof.
  intros (ms & Hp & Ha & Hs). unfold single. eapply RepN with (ms := ms) (ls := []) (rs := []); eauto; constructor.
Qed.

(** ---------- merge ---------- *)
Lemma merge_rep_gen a : forall oa b ob xs ys,
  Rep (set_item a oa) xs -> Rep (set_item b ob) ys -> Rep (merge update push a oa b ob) (xs ++ ys).
Proof.
  induction a as [|al IHal ax0 ap ar IHar]; intros oa b ob xs ys Ha Hb.
  - simpl in *. apply Rep_E_inv in Ha. subst. exact Hb.
  - rewrite set_item_Nd in Ha. revert ob ys Hb.
    induction b as [|bl IHbl bx0 bp br IHbr]; intros ob ys Hb.
    + simpl in *. apply Rep_E_inv in Hb. subst. now rewrite app_nil_r.
    + rewrite set_item_Nd in Hb. cbn [merge].
      destruct (ap <? bp) eqn:Hlt.
      * destruct (push (ovr oa ax0) (item al) (item ar)) as [[ax' ol] or] eqn:Epush.
        destruct (Rep_push_node _ _ _ _ _ _ _ _ Ha Epush) as (ls & rs & Hx & Hl & Hr & Hp & _ & _).
        subst xs. rewrite <- app_assoc. simpl.
        apply Rep_mk; [exact Hl | | exact Hp].
        apply IHar; [exact Hr | now rewrite set_item_Nd].
      * destruct (push (ovr ob bx0) (item bl) (item br)) as [[bx' ol] or] eqn:Epush.
        destruct (Rep_push_node _ _ _ _ _ _ _ _ Hb Epush) as (ls & rs & Hx & Hl & Hr & Hp & _ & _).
        subst ys. rewrite app_assoc.
        apply Rep_mk; [apply (IHbl ol ls Hl) | exact Hr | exact Hp].
Qed.

(** ---------- list facts ---------- *)
Lemma firstn_app_gt (ls rs : list V) e (k : Z) : len ls < k ->
  firstn (Z.to_nat k) (ls ++ e :: rs) = ls ++ e :: firstn (Z.to_nat (k - len ls - 1)) rs.
Proof.
  unfold len. intros H. rewrite firstn_app. rewrite firstn_all2 by lia.
  replace (Z.to_nat k - length ls)%nat with (S (Z.to_nat (k - Z.of_nat (length ls) - 1))) by lia.
  reflexivity.
Qed.
Lemma skipn_app_gt (ls rs : list V) e (k : Z) : len ls < k ->
  skipn (Z.to_nat k) (ls ++ e :: rs) = skipn (Z.to_nat (k - len ls - 1)) rs.
Proof.
  unfold len. intros H. rewrite skipn_app. rewrite skipn_all2 by lia.
  replace (Z.to_nat k - length ls)%nat with (S (Z.to_nat (k - Z.of_nat (length ls) - 1))) by lia.
  reflexivity.
Qed.
Lemma firstn_app_le (ls rs : list V) (k : Z) : k <= len ls ->
  firstn (Z.to_nat k) (ls ++ rs) = firstn (Z.to_nat k) ls.
Proof.
  unfold len. intros H. rewrite firstn_app.
  replace (Z.to_nat k - length ls)%nat with O by lia. simpl. now rewrite app_nil_r.
Qed.
Lemma skipn_app_le (ls rs : list V) (k : Z) : k <= len ls ->
  skipn (Z.to_nat k) (ls ++ rs) = skipn (Z.to_nat k) ls ++ rs.
Proof.
  unfold len. intros H. rewrite skipn_app.
  replace (Z.to_nat k - length ls)%nat with O by lia. reflexivity.
Qed.

(** ---------- split_at ---------- *)
Lemma split_at_rep_gen t : forall ot k xs a b,
  Rep (set_item t ot) xs -> split_at update push size t ot k = (a, b) ->
  Rep a (firstn (Z.to_nat k) xs) /\ Rep b (skipn (Z.to_nat k) xs).
Proof.
  induction t as [|l IHl x0 p r IHr]; intros ot k xs a b HR HS.
  - simpl in *. apply Rep_E_inv in HR. subst. injection HS as <- <-.
    rewrite firstn_nil, skipn_nil. split; constructor.
  - rewrite set_item_Nd in HR. cbn [split_at] in HS.
    destruct (push (ovr ot x0) (item l) (item r)) as [[x' ol] or] eqn:Epush.
    destruct (Rep_push_node _ _ _ _ _ _ _ _ HR Epush) as (ls & rs & Hx & Hl & Hr & Hp & _ & _).
    rewrite (Rep_osize _ _ Hl) in HS. subst xs.
    destruct (len ls <? k) eqn:Hk.
    + apply Z.ltb_lt in Hk.
      destruct (split_at update push size r or (k - len ls - 1)) as [a0 b0] eqn:Er.
      injection HS as <- <-.
      destruct (IHr _ _ _ _ _ Hr Er) as [Ha Hb].
      rewrite firstn_app_gt, skipn_app_gt by assumption. split; [|exact Hb].
      apply Rep_mk; assumption.
    + apply Z.ltb_ge in Hk.
      destruct (split_at update push size l ol k) as [a0 b0] eqn:El.
      injection HS as <- <-.
      destruct (IHl _ _ _ _ _ Hl El) as [Ha Hb].
      rewrite firstn_app_le, skipn_app_le by assumption. split; [exact Ha|].
      apply Rep_mk; assumption.
Qed.

(** ---------- split_by ---------- *)
Lemma tw_app_true (q : V -> bool) ls r : forallb q ls = true ->
  take_while q (ls ++ r) = ls ++ take_while q r /\ drop_while q (ls ++ r) = drop_while q r.
Proof.
  induction ls as [|a ls IH]; simpl; intros H; [auto|].
  apply andb_true_iff in H. destruct H as [Ha H]. rewrite Ha. destruct (IH H) as [-> ->]. auto.
Qed.
Lemma mono_true (q : V -> bool) ls e rs : monotone_on q (ls ++ e :: rs) = true -> q e = true -> forallb q ls = true.
Proof.
  unfold monotone_on. induction ls as [|a ls IH]; simpl; intros H He; [auto|].
  destruct (q a) eqn:Ha; simpl; [now apply IH|].
  exfalso. simpl in H. rewrite Ha in H. simpl in H. rewrite forallb_app in H.
  apply andb_true_iff in H. destruct H as [_ H]. simpl in H. rewrite He in H. discriminate.
Qed.
Lemma dw_false (q : V -> bool) ls e rs : q e = false ->
  take_while q (ls ++ e :: rs) = take_while q ls /\ drop_while q (ls ++ e :: rs) = drop_while q ls ++ e :: rs.
Proof.
  intros He. induction ls as [|a ls [IH1 IH2]]; simpl.
  - now rewrite He.
  - destruct (q a); [now rewrite IH1, IH2|auto].
Qed.
Lemma mono_left (q : V -> bool) ls e rs : monotone_on q (ls ++ e :: rs) = true -> q e = false -> monotone_on q ls = true.
Proof.
  unfold monotone_on. intros H He. destruct (dw_false q ls e rs He) as [_ E]. rewrite E in H.
  rewrite forallb_app in H. now apply andb_true_iff in H.
Qed.
Lemma mono_right (q : V -> bool) ls e rs : monotone_on q (ls ++ e :: rs) = true -> q e = true -> monotone_on q rs = true.
Proof.
  unfold monotone_on. intros H He. pose proof (mono_true q ls e rs H He) as Hl.
  destruct (tw_app_true q ls (e :: rs) Hl) as [_ E]. rewrite E in H. simpl in H. now rewrite He in H.
Qed.

Lemma split_by_rep_gen (qv : V -> bool) t : forall ot xs a b,
  Rep (set_item t ot) xs -> monotone_on qv xs = true ->
  split_by update push (fun x => qv (elem x)) t ot = (a, b) ->
  Rep a (take_while qv xs) /\ Rep b (drop_while qv xs).
Proof.
  induction t as [|l IHl x0 p r IHr]; intros ot xs a b HR HM HS.
  - simpl in *. apply Rep_E_inv in HR. subst. injection HS as <- <-. split; constructor.
  - rewrite set_item_Nd in HR. cbn [split_by] in HS.
    destruct (push (ovr ot x0) (item l) (item r)) as [[x' ol] or] eqn:Epush.
    destruct (Rep_push_node _ _ _ _ _ _ _ _ HR Epush) as (ls & rs & Hx & Hl & Hr & Hp & _ & _).
    subst xs.
    destruct (qv (elem x')) eqn:Hq.
    + destruct (split_by update push (fun x => qv (elem x)) r or) as [a0 b0] eqn:Er.
      injection HS as <- <-.
      destruct (IHr _ _ _ _ Hr (mono_right _ _ _ _ HM Hq) Er) as [Ha Hb].
      destruct (tw_app_true qv ls (elem x' :: rs) (mono_true _ _ _ _ HM Hq)) as [-> ->].
      simpl. rewrite Hq. split; [|exact Hb]. apply Rep_mk; assumption.
    + destruct (split_by update push (fun x => qv (elem x)) l ol) as [a0 b0] eqn:El.
      injection HS as <- <-.
      destruct (IHl _ _ _ _ Hl (mono_left _ _ _ _ HM Hq) El) as [Ha Hb].
      destruct (dw_false qv ls (elem x') rs Hq) as [-> ->].
      split; [exact Ha|]. apply Rep_mk; assumption.
Qed.

(** ---------- collect, first, last ---------- *)
Lemma collect_rep_gen t : forall ot xs t' ys,
  Rep (set_item t ot) xs -> collect push t ot = (t', ys) -> Rep t' xs /\ map elem ys = xs.
Proof.
  induction t as [|l IHl x0 p r IHr]; intros ot xs t' ys HR HC.
  - simpl in *. apply Rep_E_inv in HR. subst. injection HC as <- <-. split; [constructor|reflexivity].
  - rewrite set_item_Nd in HR. cbn [collect] in HC.
    destruct (push (ovr ot x0) (item l) (item r)) as [[x' ol] or] eqn:Epush.
    destruct (Rep_push_node _ _ _ _ _ _ _ _ HR Epush) as (ls & rs & Hx & Hl & Hr & Hp & Hag & Hsz).
    destruct (collect push l ol) as [l' lys] eqn:El. destruct (collect push r or) as [r' rys] eqn:Er.
    injection HC as <- <-.
    destruct (IHl _ _ _ _ Hl El) as [Hl' Hlm]. destruct (IHr _ _ _ _ Hr Er) as [Hr' Hrm].
    subst xs. split.
    + apply Rep_node; auto.
    + rewrite map_app. simpl. now rewrite Hlm, Hrm.
Qed.

Lemma first_rep_gen t : forall ot xs t' res,
  Rep (set_item t ot) xs -> first push t ot = (t', res) -> Rep t' xs /\ option_map elem res = hd_error xs.
Proof.
  induction t as [|l IHl x0 p r IHr]; intros ot xs t' res HR HF.
  - simpl in *. apply Rep_E_inv in HR. subst. injection HF as <- <-. split; [constructor|reflexivity].
  - rewrite set_item_Nd in HR. cbn [first] in HF. destruct l as [|ll lx lp lr].
    + injection HF as <- <-. split; [exact HR|].
      inversion HR as [|l0 x1 p0 r0 ms ls rs xs0 Hp Hl Hr Hx Ha Hs]; subst.
      apply Rep_E_inv in Hl. subst. reflexivity.
    + destruct (push (ovr ot x0) (item (Nd ll lx lp lr)) (item r)) as [[x' ol] or] eqn:Epush.
      destruct (Rep_push_node _ _ _ _ _ _ _ _ HR Epush) as (ls & rs & Hx & Hl & Hr & Hp & Hag & Hsz).
      destruct (first push (Nd ll lx lp lr) ol) as [l' res0] eqn:El.
      injection HF as <- <-.
      destruct (IHl _ _ _ _ Hl El) as [Hl' Hres].
      subst xs. split; [apply Rep_node; auto|].
      rewrite Hres. rewrite set_item_Nd in Hl. apply Rep_Nd_nonnil in Hl.
      destruct ls; [congruence|reflexivity].
Qed.

Lemma last_cons_indep (l : list V) v d : List.last (v :: l) d = List.last l v.
Proof. revert v d. induction l as [|a l IH]; intros v d; [reflexivity|]. 
  change (List.last (v :: a :: l) d) with (List.last (a :: l) d). now rewrite !IH. Qed.
Lemma last_error_app (ls rs : list V) : rs <> [] -> last_error (ls ++ rs) = last_error rs.
Proof.
  intros H. induction ls as [|a ls IH]; [reflexivity|].
  simpl. destruct (ls ++ rs) as [|b m] eqn:E.
  - destruct ls; simpl in E; [congruence|discriminate].
  - rewrite <- IH. unfold last_error. f_equal. apply last_cons_indep.
Qed.

Lemma last_rep_gen t : forall ot xs t' res,
  Rep (set_item t ot) xs -> last push t ot = (t', res) -> Rep t' xs /\ option_map elem res = last_error xs.
Proof.
  induction t as [|l IHl x0 p r IHr]; intros ot xs t' res HR HF.
  - simpl in *. apply Rep_E_inv in HR. subst. injection HF as <- <-. split; [constructor|reflexivity].
  - rewrite set_item_Nd in HR. cbn [last] in HF. destruct r as [|rl rx rp rr].
    + injection HF as <- <-. split; [exact HR|].
      inversion HR as [|l0 x1 p0 r0 ms ls rs xs0 Hp Hl Hr Hx Ha Hs]; subst.
      apply Rep_E_inv in Hr. subst. simpl. rewrite last_error_app by discriminate. reflexivity.
    + destruct (push (ovr ot x0) (item l) (item (Nd rl rx rp rr))) as [[x' ol] or] eqn:Epush.
      destruct (Rep_push_node _ _ _ _ _ _ _ _ HR Epush) as (ls & rs & Hx & Hl & Hr & Hp & Hag & Hsz).
      destruct (last push (Nd rl rx rp rr) or) as [r' res0] eqn:Er.
      injection HF as <- <-.
      destruct (IHr _ _ _ _ Hr Er) as [Hr' Hres].
      subst xs. split; [apply Rep_node; auto|].
      rewrite Hres. rewrite set_item_Nd in Hr. apply Rep_Nd_nonnil in Hr.
      rewrite last_error_app by discriminate.
      change (elem x' :: rs) with ([elem x'] ++ rs). now rewrite last_error_app.
Qed.

(** ---------- root modification ---------- *)
Lemma modify_root_rep m t xs : Rep t xs -> Rep (modify_root modify m t) (map (act m) xs).
Proof.
  intros HR. replace (map (act m) xs) with (map (acts [m]) xs) by (apply map_ext; reflexivity).
  destruct t as [|l x p r].
  - apply Rep_E_inv in HR. subst. constructor.
  - apply (Rep_pushed (Nd l x p r) xs [m] (Some (modify m x)) HR). apply (law_modify LAW).
Qed.

(** ---------- insert_at, remove_at ---------- *)
Lemma insert_at_rep t k x p xs : Rep t xs -> Detached x ->
  Rep (insert_at update push size t k x p) (firstn (Z.to_nat k) xs ++ elem x :: skipn (Z.to_nat k) xs).
Proof.
  intros HR HF. unfold insert_at. destruct (split_at update push size t None k) as [l r] eqn:ES.
  destruct (split_at_rep_gen t None k xs l r) as [Hl Hr]; [now rewrite set_item_None | exact ES |].
  change (elem x :: skipn (Z.to_nat k) xs) with ([elem x] ++ skipn (Z.to_nat k) xs). rewrite app_assoc.
  apply merge_rep_gen; rewrite set_item_None; [|exact Hr].
  apply merge_rep_gen; rewrite set_item_None; [exact Hl|]. now apply Rep_single.
Qed.

Lemma nth_error_skipn (xs : list V) n : nth_error xs n = hd_error (skipn n xs).
Proof. revert n. induction xs as [|a xs IH]; intros [|n]; simpl; auto. Qed.
Lemma skipn_1_skipn (xs : list V) n : skipn 1 (skipn n xs) = skipn (S n) xs.
Proof. revert n. induction xs as [|a xs IH]; intros [|n]; simpl; auto. apply (IH n). Qed.
Lemma Rep_item_hd t ys : Rep t (firstn 1 ys) -> option_map elem (item t) = hd_error ys.
Proof.
  destruct ys as [|v ys]; simpl; intros HR.
  - apply Rep_nil_inv in HR. now subst.
  - inversion HR as [|l x p r ms ls rs xs Hp Hl Hr Hx Ha Hs]; subst. simpl.
    destruct (map (acts ms) ls) as [|a m]; simpl in Hx.
    + now injection Hx as ->.
    + injection Hx as _ Hx. now apply app_cons_not_nil in Hx.
Qed.

(** the root item of a tree handed out by split_at has been pushed: nothing is pending on it *)
Definition RootClean (t : tree) : Prop := match item t with Some x => Pending x [] | None => True end.

Lemma update_clean l x r ls rs : Rep l ls -> Rep r rs -> Pending x [] -> Pending (update x (item l) (item r)) [].
Proof.
  intros Hl Hr Hp.
  destruct (law_update LAW x _ _ _ _ (Rep_Summ _ _ Hl) (Rep_Summ _ _ Hr)) as (_ & _ & _ & Hpe). auto.
Qed.

Lemma split_at_clean t : forall ot k xs a b,
  Rep (set_item t ot) xs -> split_at update push size t ot k = (a, b) -> RootClean a /\ RootClean b.
Proof.
  induction t as [|l IHl x0 p r IHr]; intros ot k xs a b HR HS.
  - simpl in HS. injection HS as <- <-. split; exact I.
  - rewrite set_item_Nd in HR. cbn [split_at] in HS.
    destruct (push (ovr ot x0) (item l) (item r)) as [[x' ol] or] eqn:Epush.
    destruct (Rep_push_node _ _ _ _ _ _ _ _ HR Epush) as (ls & rs & Hx & Hl & Hr & Hp & _ & _).
    rewrite (Rep_osize _ _ Hl) in HS.
    destruct (len ls <? k) eqn:Hk.
    + destruct (split_at update push size r or (k - len ls - 1)) as [a0 b0] eqn:Er.
      injection HS as <- <-.
      destruct (IHr _ _ _ _ _ Hr Er) as [_ Hb].
      destruct (split_at_rep_gen r or _ rs a0 b0 Hr Er) as [Ha0 _].
      split; [|exact Hb]. unfold RootClean. cbn [item]. eapply update_clean; eauto.
    + destruct (split_at update push size l ol k) as [a0 b0] eqn:El.
      injection HS as <- <-.
      destruct (IHl _ _ _ _ _ Hl El) as [Ha _].
      destruct (split_at_rep_gen l ol _ ls a0 b0 Hl El) as [_ Hb0].
      split; [exact Ha|]. unfold RootClean. cbn [item]. eapply update_clean; eauto.
Qed.

(** a pushed root that denotes a one-element sequence is as good as a freshly made item *)
Lemma Rep_item_fresh t ys x : Rep t (firstn 1 ys) -> RootClean t -> item t = Some x -> Fresh x.
Proof.
  destruct ys as [|v ys]; simpl; intros HR HC HI.
  - apply Rep_nil_inv in HR. subst. discriminate.
  - inversion HR as [|l x1 p r ms ls rs xs Hp Hl Hr Hx Ha Hs]; subst. simpl in HI, HC. injection HI as ->.
    assert (Hv : v = elem x).
    { destruct (map (acts ms) ls) as [|a m]; simpl in Hx.
      - now injection Hx.
      - injection Hx as _ Hx. now apply app_cons_not_nil in Hx. }
    subst v. repeat split; auto.
Qed.

(** remove_at: the remaining sequence, the element of the returned item, and the returned item is [Fresh]:
    one element, aggregate of that one-element sequence, size 1, nothing pending — it can be inserted again *)
Lemma remove_at_rep t k xs t' res : Rep t xs -> remove_at update push size t k = (t', res) ->
  Rep t' (firstn (Z.to_nat k) xs ++ skipn (S (Z.to_nat k)) xs) /\ option_map elem res = nth_error xs (Z.to_nat k)
  /\ (forall x, res = Some x -> Fresh x).
Proof.
  intros HR HE. unfold remove_at in HE.
  destruct (split_at update push size t None k) as [t1 t23] eqn:E1.
  destruct (split_at update push size t23 None 1) as [t2 t3] eqn:E2.
  injection HE as <- <-.
  destruct (split_at_rep_gen t None k xs t1 t23) as [H1 H23]; [now rewrite set_item_None | exact E1 |].
  destruct (split_at_rep_gen t23 None 1 (skipn (Z.to_nat k) xs) t2 t3) as [H2 H3]; [rewrite set_item_None; exact H23 | exact E2 |].
  destruct (split_at_clean t23 None 1 (skipn (Z.to_nat k) xs) t2 t3) as [C2 _]; [rewrite set_item_None; exact H23 | exact E2 |].
  change (Z.to_nat 1) with 1%nat in *. rewrite skipn_1_skipn in H3. split; [|split].
  - apply merge_rep_gen; now rewrite set_item_None.
  - rewrite nth_error_skipn. now apply Rep_item_hd.
  - intros x Hx. eapply Rep_item_fresh; eauto.
Qed.

Lemma root_agg_rep t xs : Rep t xs ->
  option_map agg (item t) = match xs with [] => None | _ => Some (aggf xs) end.
Proof.
  intros HR. destruct t as [|l x p r].
  - apply Rep_E_inv in HR. now subst.
  - pose proof (Rep_Nd_nonnil _ _ _ _ _ HR) as Hn. apply Rep_Summ in HR. simpl in *. destruct HR as [-> _].
    destruct xs; [congruence|reflexivity].
Qed.

(** ---------- the machine refines the list-of-lists specification ---------- *)
Notation op := (@op T M V).
(** what the history theorem asks of the items that the caller hands to from_item / insert_at: they are
    [Detached] (one element, any pending tag).  The item that [Move] inserts is the one remove_at returned
    ([Fresh], proved) after the caller's modifications: [Detached] by [Detached_mods], nothing to assume. *)
Definition op_detached (o : op) : Prop :=
  match o with FromItem x => Detached x | InsertAt _ _ x => Detached x | _ => True end.
(** every item that the machine hands out through remove_at is [Fresh] *)
Definition out_fresh (o : @output T V A) : Prop := match o with ORemoved x => Fresh x | _ => True end.

Lemma F2_snoc (st : list tree) sst t xs : Forall2 Rep st sst -> Rep t xs -> Forall2 Rep (st ++ [t]) (sst ++ [xs]).
Proof. intros. apply Forall2_app; auto. Qed.
Lemma F2_snoc2 (st : list tree) sst t xs t2 xs2 :
  Forall2 Rep st sst -> Rep t xs -> Rep t2 xs2 -> Forall2 Rep (st ++ [t; t2]) (sst ++ [xs; xs2]).
Proof. intros. apply Forall2_app; auto. Qed.

Lemma replace_nth_same {X} (l : list X) i x : nth_error l i = Some x -> replace_nth i x l = l.
Proof.
  revert i. induction l as [|y l IH]; intros [|i] H; simpl in *; try discriminate; auto.
  - now injection H as ->.
  - f_equal. auto.
Qed.

Ltac nth_cases H i st sst :=
  pose proof (F2_nth Rep st sst i H) as Hn;
  destruct (nth_error st i) as [t|]; destruct (nth_error sst i) as [xs|] eqn:Es; simpl in Hn; try contradiction.
Ltac outs := cbn [out_elem out_fresh]; split; [reflexivity | solve [exact I | assumption]].

Lemma step_rep st sst ps o sst' out st' ps' out' :
  Forall2 Rep st sst -> op_detached o ->
  sstep elem act aggf sst o = Some (sst', out) ->
  step update push size modify elem agg st ps o = (st', ps', out') ->
  Forall2 Rep st' sst' /\ out_elem elem out' = out /\ out_fresh out'.
Proof.
  intros H HF HS HM. destruct o; [simpl in HS, HM, HF .. | cbn [sstep step] in HS, HM].
  - (* New *) injection HS as <- <-. injection HM as <- <- <-. split; [|now outs]. apply F2_snoc; auto. constructor.
  - (* FromItem *) destruct (next_prio ps) as [p ps1]. injection HS as <- <-. injection HM as <- <- <-.
    split; [|now outs]. apply F2_snoc; auto. now apply Rep_single.
  - (* Merge *) pose proof (F2_take2 Rep st sst i j H) as H2.
    destruct (take2 i j st) as [[[a b] rest]|], (take2 i j sst) as [[[xa xb] xrest]|]; try contradiction.
    + destruct H2 as (Ha & Hb & Hr). injection HS as <- <-. injection HM as <- <- <-. split; [|now outs].
      apply F2_snoc; auto. apply merge_rep_gen; now rewrite set_item_None.
    + injection HS as <- <-. injection HM as <- <- <-. split; [assumption|outs].
  - (* SplitAt *) pose proof (F2_take1 Rep st sst i H) as H1.
    destruct (take1 i st) as [[t rest]|], (take1 i sst) as [[xs xrest]|]; try contradiction.
    + destruct H1 as (Ht & Hr). destruct (split_at update push size t None k) as [a b] eqn:ES.
      injection HS as <- <-. injection HM as <- <- <-. split; [|now outs].
      destruct (split_at_rep_gen t None k xs a b) as [Ha Hb]; [now rewrite set_item_None | exact ES |].
      rewrite zfirstn_eq, zskipn_eq. apply F2_snoc2; auto.
    + injection HS as <- <-. injection HM as <- <- <-. split; [assumption|outs].
  - (* SplitBy *) pose proof (F2_take1 Rep st sst i H) as H1.
    destruct (take1 i st) as [[t rest]|], (take1 i sst) as [[xs xrest]|]; try contradiction.
    + destruct H1 as (Ht & Hr). destruct (monotone_on q xs) eqn:Hmono; [|discriminate].
      destruct (split_by update push (fun x => q (elem x)) t None) as [a b] eqn:ES.
      injection HS as <- <-. injection HM as <- <- <-. split; [|now outs].
      destruct (split_by_rep_gen q t None xs a b) as [Ha Hb]; [now rewrite set_item_None | exact Hmono | exact ES |].
      apply F2_snoc2; auto.
    + injection HS as <- <-. injection HM as <- <- <-. split; [assumption|outs].
  - (* InsertAt *) nth_cases H i st sst.
    + destruct (next_prio ps) as [p ps1]. injection HS as <- <-. injection HM as <- <- <-. split; [|now outs].
      rewrite zfirstn_eq, zskipn_eq. apply F2_replace; auto. now apply insert_at_rep.
    + injection HS as <- <-. injection HM as <- <- <-. split; [assumption|outs].
  - (* RemoveAt *) nth_cases H i st sst.
    + destruct (remove_at update push size t k) as [t' res] eqn:ER.
      destruct (remove_at_rep t k xs t' res Hn ER) as (HR' & Hres & Hfr).
      injection HM as <- <- <-. rewrite znth_eq in HS.
      destruct (nth_error xs (Z.to_nat k)) as [v|] eqn:En.
      * injection HS as <- <-. destruct res as [x|]; simpl in Hres; [|discriminate].
        injection Hres as Hv. subst v. specialize (Hfr x eq_refl). split; [|now outs]. apply F2_replace; auto.
      * injection HS as <- <-. destruct res as [x|]; simpl in Hres; [discriminate|]. split; [|now outs].
        rewrite <- (replace_nth_same sst i xs Es). apply F2_replace; auto.
        apply nth_error_None in En. rewrite firstn_all2, skipn_all2 in HR' by lia. now rewrite app_nil_r in HR'.
    + injection HS as <- <-. injection HM as <- <- <-. split; [assumption|outs].
  - (* ModifyRoot *) nth_cases H i st sst.
    + injection HS as <- <-. injection HM as <- <- <-. split; [|now outs].
      apply F2_replace; auto. now apply modify_root_rep.
    + injection HS as <- <-. injection HM as <- <- <-. split; [assumption|outs].
  - (* First *) nth_cases H i st sst.
    + destruct (first push t None) as [t' res] eqn:EF.
      destruct (first_rep_gen t None xs t' res) as [HR' Hres]; [now rewrite set_item_None | exact EF |].
      injection HS as <- <-. injection HM as <- <- <-. split; [|cbn [out_elem]; rewrite Hres; now outs].
      rewrite <- (replace_nth_same sst i xs Es). apply F2_replace; auto.
    + injection HS as <- <-. injection HM as <- <- <-. split; [assumption|outs].
  - (* Last *) nth_cases H i st sst.
    + destruct (last push t None) as [t' res] eqn:EF.
      destruct (last_rep_gen t None xs t' res) as [HR' Hres]; [now rewrite set_item_None | exact EF |].
      injection HS as <- <-. injection HM as <- <- <-. split; [|cbn [out_elem]; rewrite Hres; now outs].
      rewrite <- (replace_nth_same sst i xs Es). apply F2_replace; auto.
    + injection HS as <- <-. injection HM as <- <- <-. split; [assumption|outs].
  - (* Collect *) nth_cases H i st sst.
    + destruct (collect push t None) as [t' ys] eqn:EF.
      destruct (collect_rep_gen t None xs t' ys) as [HR' Hres]; [now rewrite set_item_None | exact EF |].
      injection HS as <- <-. injection HM as <- <- <-. split; [|cbn [out_elem]; rewrite Hres; now outs].
      rewrite <- (replace_nth_same sst i xs Es). apply F2_replace; auto.
    + injection HS as <- <-. injection HM as <- <- <-. split; [assumption|outs].
  - (* Size *) nth_cases H i st sst.
    + injection HS as <- <-. injection HM as <- <- <-. split; auto. unfold tsize. rewrite (Rep_osize _ _ Hn). now outs.
    + injection HS as <- <-. injection HM as <- <- <-. split; [assumption|outs].
  - (* RootAgg *) nth_cases H i st sst.
    + injection HS as <- <-. injection HM as <- <- <-. split; auto. rewrite (root_agg_rep _ _ Hn). now outs.
    + injection HS as <- <-. injection HM as <- <- <-. split; [assumption|outs].
  - (* Move: remove_at on treap i, then insert_at of the returned item on treap j *)
    pose proof (F2_nth Rep st sst i H) as Hi. pose proof (F2_nth Rep st sst j H) as Hj.
    destruct (nth_error st i) as [t|]; destruct (nth_error sst i) as [xs|] eqn:Es; simpl in Hi; try contradiction;
      [|injection HS as <- <-; injection HM as <- <- <-; split; [assumption|outs]].
    destruct (nth_error st j) as [tj|]; destruct (nth_error sst j) as [xj|]; simpl in Hj; try contradiction;
      [|injection HS as <- <-; injection HM as <- <- <-; split; [assumption|outs]].
    destruct (remove_at update push size t k) as [t' res] eqn:ER.
    destruct (remove_at_rep t k xs t' res Hi ER) as (HR' & Hres & Hfr). rewrite znth_eq in HS.
    destruct (nth_error xs (Z.to_nat k)) as [v|] eqn:En.
    + destruct res as [x|]; simpl in Hres; [|discriminate]. injection Hres as Hv. subst v. specialize (Hfr x eq_refl).
      assert (H1 : Forall2 Rep (replace_nth i t' st)
                     (replace_nth i (firstn (Z.to_nat k) xs ++ skipn (S (Z.to_nat k)) xs) sst)) by (apply F2_replace; auto).
      pose proof (F2_nth Rep _ _ j H1) as Hj1.
      destruct (nth_error (replace_nth i t' st) j) as [u|];
        destruct (nth_error (replace_nth i (firstn (Z.to_nat k) xs ++ skipn (S (Z.to_nat k)) xs) sst) j) as [ys|];
        simpl in Hj1; try contradiction.
      * destruct (next_prio ps) as [p ps1]. injection HS as <- <-. injection HM as <- <- <-.
        split; [|now outs]. rewrite zfirstn_eq, zskipn_eq. apply F2_replace; auto.
        destruct (Detached_mods ms x (Fresh_Detached x Hfr)) as [Hd He]. rewrite <- He.
        apply insert_at_rep; auto.
      * injection HS as <- <-. injection HM as <- <- <-. split; [assumption|outs].
    + destruct res as [x|]; simpl in Hres; [discriminate|].
      injection HS as <- <-. injection HM as <- <- <-. split; [|now outs].
      rewrite <- (replace_nth_same sst i xs Es). apply F2_replace; auto.
      apply nth_error_None in En. rewrite firstn_all2, skipn_all2 in HR' by lia. now rewrite app_nil_r in HR'.
Qed.

Lemma run_rep ops : forall st sst ps sst' outs,
  Forall2 Rep st sst -> Forall op_detached ops ->
  srun elem act aggf sst ops = Some (sst', outs) ->
  Forall2 Rep (fst (fst (run update push size modify elem agg st ps ops))) sst'
  /\ map (out_elem elem) (snd (run update push size modify elem agg st ps ops)) = outs
  /\ Forall out_fresh (snd (run update push size modify elem agg st ps ops)).
Proof.
  induction ops as [|o ops IH]; intros st sst ps sst' outs H HF HS; simpl in *.
  - injection HS as <- <-. auto.
  - inversion HF as [|o' ops' Ho Hops]; subst.
    destruct (sstep elem act aggf sst o) as [[sst1 out]|] eqn:E1; [|discriminate].
    destruct (srun elem act aggf sst1 ops) as [[sst2 outs2]|] eqn:E2; [|discriminate].
    injection HS as <- <-.
    destruct (step update push size modify elem agg st ps o) as [[st1 ps1] out1] eqn:EM.
    destruct (step_rep _ _ _ _ _ _ _ _ _ H Ho E1 EM) as (H1 & <- & Hf1).
    specialize (IH st1 sst1 ps1 sst2 outs2 H1 Hops E2).
    destruct (run update push size modify elem agg st1 ps1 ops) as [[st2 ps2] outs'] eqn:ER.
    simpl in *. destruct IH as (IH1 & <- & IH3). auto.
Qed.

(** ---------- statements used by Properties.v ---------- *)
Theorem merge_rep a b xs ys : Rep a xs -> Rep b ys -> Rep (merge update push a None b None) (xs ++ ys).
Proof. intros. apply merge_rep_gen; now rewrite set_item_None. Qed.

Theorem split_at_rep t k xs a b : Rep t xs -> split_at update push size t None k = (a, b) ->
  Rep a (firstn (Z.to_nat k) xs) /\ Rep b (skipn (Z.to_nat k) xs)
  /\ (len xs <= k -> Rep a xs /\ b = E).
Proof.
  intros HR HS. destruct (split_at_rep_gen t None k xs a b) as [Ha Hb]; [now rewrite set_item_None|exact HS|].
  split; [exact Ha|]. split; [exact Hb|]. unfold len. intros Hk.
  rewrite firstn_all2 in Ha by lia. rewrite skipn_all2 in Hb by lia. split; [exact Ha|]. now apply Rep_nil_inv.
Qed.

Theorem split_by_rep (q : V -> bool) t xs a b : Rep t xs -> monotone_on q xs = true ->
  split_by update push (fun x => q (elem x)) t None = (a, b) ->
  Rep a (take_while q xs) /\ Rep b (drop_while q xs).
Proof. intros HR HM HS. apply (split_by_rep_gen q t None xs a b); auto. now rewrite set_item_None. Qed.

Theorem first_last_collect_size t xs : Rep t xs ->
  (forall t' res, first push t None = (t', res) -> Rep t' xs /\ option_map elem res = hd_error xs)
  /\ (forall t' res, last push t None = (t', res) -> Rep t' xs /\ option_map elem res = last_error xs)
  /\ (forall t' ys, collect push t None = (t', ys) -> Rep t' xs /\ map elem ys = xs)
  /\ tsize size t = len xs
  /\ option_map agg (item t) = match xs with [] => None | _ => Some (aggf xs) end.
Proof.
  intros HR. repeat split.
  - eapply first_rep_gen; [rewrite set_item_None|]; eauto.
  - eapply first_rep_gen; [rewrite set_item_None|]; eauto.
  - eapply last_rep_gen; [rewrite set_item_None|]; eauto.
  - eapply last_rep_gen; [rewrite set_item_None|]; eauto.
  - eapply collect_rep_gen; [rewrite set_item_None|]; eauto.
  - eapply collect_rep_gen; [rewrite set_item_None|]; eauto.
  - now apply Rep_osize.
  - now apply root_agg_rep.
Qed.

Theorem history ps ops sst outs :
  Forall op_detached ops -> srun elem act aggf [] ops = Some (sst, outs) ->
  map (out_elem elem) (run_outputs update push size modify elem agg ps ops) = outs
  /\ Forall out_fresh (run_outputs update push size modify elem agg ps ops)
  /\ Forall2 Rep (run_final update push size modify elem agg ps ops) sst.
Proof.
  intros HF HS. unfold run_outputs, run_final.
  destruct (run_rep ops [] [] ps sst outs (Forall2_nil _) HF HS) as (H1 & H2 & H3). auto.
Qed.
End Laws.
