(** C03 — correspondence cases.  One case = one multi-treap history over one of the three item kinds
    (0: lazy add + sum; 1: assign-or-add + sum; 2: lazy add + positional hash, an order-sensitive aggregate), the
    priorities that node creation consumed, and every output the implementation produced.
    [model_check]: the outputs are those of the tree model.  [spec_check]: the outputs are those of the
    list-of-lists specification ([srun], which never mentions a tree). *)
From Coq Require Import ZArith List Bool.
From RlibV Require Import Common.Batch C03.Model.
Import ListNotations.
Open Scope Z_scope.

(** concrete operations (payloads are integers; [CSplitBy i c] uses the predicate [elem < c]) *)
Inductive cop :=
| CNew | CFrom (v : Z) | CMerge (i j : nat) | CSplitAt (i : nat) (k : Z) | CSplitBy (i : nat) (c : Z)
| CInsert (i : nat) (k v : Z) | CRemove (i : nat) (k : Z) | CMod (i : nat) (m : amod)
| CFirst (i : nat) | CLast (i : nat) | CCollect (i : nat) | CSize (i : nat) | CAgg (i : nat).

Definition out := @output Z Z.

Definition conv {T M : Type} (mk : Z -> T) (md : amod -> M) (o : cop) : @op T M Z :=
  match o with
  | CNew => New | CFrom v => FromItem (mk v) | CMerge i j => Merge i j | CSplitAt i k => SplitAt i k
  | CSplitBy i c => SplitBy i (fun e => e <? c)
  | CInsert i k v => InsertAt i k (mk v) | CRemove i k => RemoveAt i k | CMod i m => ModifyRoot i (md m)
  | CFirst i => First i | CLast i => Last i | CCollect i => Collect i | CSize i => Size i | CAgg i => RootAgg i
  end.

(** kind 0 treats every modification as an addition (the harness item does the same) *)
Definition md0 (m : amod) : Z := match m with MAdd c => c | MSet c => c end.
Definition to_op0 := conv isz_mk md0.
Definition to_op1 := conv iaa_mk (fun m => m).

Definition run0 (ps : list Z) (ops : list cop) :=
  run isz_update isz_push isize isz_modify ix ism [] ps (map to_op0 ops).
Definition run1 (ps : list Z) (ops : list cop) :=
  run iaa_update iaa_push asize iaa_modify ax asm [] ps (map to_op1 ops).
Definition srun0 (ops : list cop) := srun ix Z.add zsum [] (map to_op0 ops).
Definition srun1 (ops : list cop) := srun ax amod_act zsum [] (map to_op1 ops).

(** kind 2: modifications are additions (as for kind 0); the aggregate of the model and of the specification
    is the triple (hash, hB^n, hash of ones); the executor prints the hash, so outputs are projected on it *)
Definition to_op2 := conv ihs_mk md0.
Definition run2 (ps : list Z) (ops : list cop) :=
  run ihs_update ihs_push hsz ihs_modify hx ihs_agg [] ps (map to_op2 ops).
Definition srun2 (ops : list cop) := srun hx Z.add hashagg [] (map to_op2 ops).
Definition proj_out (o : @output Z (Z * Z * Z)) : out :=
  match o with
  | OInvalid => OInvalid | OUnit => OUnit | OPanic => OPanic | OElem e => OElem e | OList l => OList l
  | OSize n => OSize n | ORemoved v => ORemoved v
  | OAgg a => OAgg (option_map (fun t => fst (fst t)) a)
  end.

Definition out_eqb (a b : out) : bool :=
  match a, b with
  | OInvalid, OInvalid | OUnit, OUnit | OPanic, OPanic => true
  | OElem x, OElem y => oeqb Z.eqb x y
  | OList x, OList y => leqb Z.eqb x y
  | OSize x, OSize y => Z.eqb x y
  | OAgg x, OAgg y => oeqb Z.eqb x y
  | ORemoved x, ORemoved y => Z.eqb x y
  | _, _ => false
  end.

(** [obs = None]: the executor panicked outside remove_at (never on the unchanged tree) *)
Inductive case := Case (kind : nat) (ops : list cop) (prios : list Z) (obs : option (list out)).

Definition model_outputs (kind : nat) (ps : list Z) (ops : list cop) : list out :=
  match kind with
  | O => snd (run0 ps ops)
  | S O => snd (run1 ps ops)
  | _ => map proj_out (snd (run2 ps ops))
  end.
Definition spec_outputs (kind : nat) (ops : list cop) : option (list out) :=
  match kind with
  | O => option_map snd (srun0 ops)
  | S O => option_map snd (srun1 ops)
  | _ => option_map (fun r => map proj_out (snd r)) (srun2 ops)
  end.

Definition model_check (c : case) : bool :=
  let '(Case kind ops ps obs) := c in
  match obs with Some o => leqb out_eqb (model_outputs kind ps ops) o | None => false end.

Definition spec_check (c : case) : bool :=
  let '(Case kind ops ps obs) := c in
  match spec_outputs kind ops with
  | None => true   (* a split_by predicate was not prefix-monotone: outside the property *)
  | Some so => match obs with Some o => leqb out_eqb so o | None => false end
  end.

Definition explain (c : case) :=
  let '(Case kind ops ps obs) := c in (model_outputs kind ps ops, spec_outputs kind ops).
