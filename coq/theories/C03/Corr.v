(** C03 — correspondence cases.  One case = one multi-treap history over one of the three item kinds
    (0: lazy add + sum; 1: assign-or-add + sum; 2: lazy add + positional hash, an order-sensitive aggregate), the
    priorities that node creation consumed, and every output the implementation produced.
    [model_check]: the outputs are those of the tree model; an item returned by remove_at is compared as a whole
    (every field).  [spec_check]: the outputs are those of the list-of-lists specification ([srun], which never
    mentions a tree); an item returned by remove_at must be a one-element subtree root for the removed element
    ([fresh_ok]). *)
From Coq Require Import ZArith List Bool.
From RlibV Require Import Common.Batch C03.Model.
Import ListNotations.
Open Scope Z_scope.

(** concrete operations (payloads are integers; [CSplitBy i c] uses the predicate [elem < c]).
    [CFrom v ms] / [CInsert i k v ms]: the item is made from the value [v] and then MODIFIED by [ms] (in order) before
    it is handed to from_item / insert_at — with [ms <> []] it enters the treap with a pending tag ([ms = []]: a fresh item).
    [CMove i k j k2 ms]: remove_at(k) on treap i, the caller applies [ms] to the item object that was returned, then
    insert_at(k2, <that object>) on treap j ([ms = []]: handed over untouched). *)
Inductive cop :=
| CNew | CFrom (v : Z) (ms : list amod) | CMerge (i j : nat) | CSplitAt (i : nat) (k : Z) | CSplitBy (i : nat) (c : Z)
| CInsert (i : nat) (k v : Z) (ms : list amod) | CRemove (i : nat) (k : Z) | CMod (i : nat) (m : amod)
| CFirst (i : nat) | CLast (i : nat) | CCollect (i : nat) | CSize (i : nat) | CAgg (i : nat)
| CMove (i : nat) (k : Z) (j : nat) (k2 : Z) (ms : list amod).

(** a COMPLETE item as the executor prints it (the same six numbers as for every node of the raw shapes):
    element, aggregate, size, and
      kind 0:  md 0 0        kind 1:  add, then  1 c  for set = Some c /  0 0  for set = None        kind 2:  md pw rp
    Every field of the three item records is there: the encodings are injective. *)
Record ritem := RItem { r_x : Z; r_agg : Z; r_sz : Z; r_t1 : Z; r_t2 : Z; r_t3 : Z }.
Definition ri0 (x : isz) : ritem := RItem (ix x) (ism x) (isize x) (imd x) 0 0.
Definition ri1 (x : iaa) : ritem :=
  match aset x with
  | Some c => RItem (ax x) (asm x) (asize x) (aadd x) 1 c
  | None => RItem (ax x) (asm x) (asize x) (aadd x) 0 0
  end.
Definition ri2 (x : ihs) : ritem := RItem (hx x) (hh x) (hsz x) (hmd x) (hpw x) (hrp x).
Definition ritem_eqb (a b : ritem) : bool :=
  (r_x a =? r_x b) && (r_agg a =? r_agg b) && (r_sz a =? r_sz b)
  && (r_t1 a =? r_t1 b) && (r_t2 a =? r_t2 b) && (r_t3 a =? r_t3 b).

(** what the implementation showed (and what the tree model shows): removed items are complete items *)
Definition out := @output ritem Z Z.
(** what the list-of-lists specification shows: of a removed item, its element *)
Definition sout := @output Z Z Z.

Definition conv {T M : Type} (modify : M -> T -> T) (mk : Z -> T) (md : amod -> M) (o : cop) : @op T M Z :=
  match o with
  | CNew => New | CFrom v ms => FromItem (mods modify (map md ms) (mk v)) | CMerge i j => Merge i j | CSplitAt i k => SplitAt i k
  | CSplitBy i c => SplitBy i (fun e => e <? c)
  | CInsert i k v ms => InsertAt i k (mods modify (map md ms) (mk v)) | CRemove i k => RemoveAt i k | CMod i m => ModifyRoot i (md m)
  | CFirst i => First i | CLast i => Last i | CCollect i => Collect i | CSize i => Size i | CAgg i => RootAgg i
  | CMove i k j k2 ms => Move i k j k2 (map md ms)
  end.

(** kind 0 treats every modification as an addition (the harness item does the same) *)
Definition md0 (m : amod) : Z := match m with MAdd c => c | MSet c => c end.
Definition to_op0 := conv isz_modify isz_mk md0.
Definition to_op1 := conv iaa_modify iaa_mk (fun m => m).

Definition run0 (ps : list Z) (ops : list cop) :=
  run isz_update isz_push isize isz_modify ix ism [] ps (map to_op0 ops).
Definition run1 (ps : list Z) (ops : list cop) :=
  run iaa_update iaa_push asize iaa_modify ax asm [] ps (map to_op1 ops).
Definition srun0 (ops : list cop) := srun ix Z.add zsum [] (map to_op0 ops).
Definition srun1 (ops : list cop) := srun ax amod_act zsum [] (map to_op1 ops).

(** kind 2: modifications are additions (as for kind 0); the aggregate of the model and of the specification
    is the triple (hash, hB^n, hash of ones); for a root aggregate the executor prints the hash, so those outputs are
    projected on it (a removed item is printed with all three) *)
Definition to_op2 := conv ihs_modify ihs_mk md0.
Definition run2 (ps : list Z) (ops : list cop) :=
  run ihs_update ihs_push hsz ihs_modify hx ihs_agg [] ps (map to_op2 ops).
Definition srun2 (ops : list cop) := srun hx Z.add hashagg [] (map to_op2 ops).
Definition fst3 (t : Z * Z * Z) : Z := fst (fst t).
Definition idZ (v : Z) : Z := v.

Definition out_eqb (a b : out) : bool :=
  match a, b with
  | OInvalid, OInvalid | OUnit, OUnit | OPanic, OPanic => true
  | OElem x, OElem y => oeqb Z.eqb x y
  | OList x, OList y => leqb Z.eqb x y
  | OSize x, OSize y => Z.eqb x y
  | OAgg x, OAgg y => oeqb Z.eqb x y
  | ORemoved x, ORemoved y => ritem_eqb x y
  | _, _ => false
  end.

(** [obs = None]: the executor panicked outside remove_at (never on the unchanged tree) *)
Inductive case := Case (kind : nat) (ops : list cop) (prios : list Z) (obs : option (list out)).

Definition model_outputs (kind : nat) (ps : list Z) (ops : list cop) : list out :=
  match kind with
  | O => map (out_map ri0 idZ) (snd (run0 ps ops))
  | S O => map (out_map ri1 idZ) (snd (run1 ps ops))
  | _ => map (out_map ri2 fst3) (snd (run2 ps ops))
  end.
Definition spec_outputs (kind : nat) (ops : list cop) : option (list sout) :=
  match kind with
  | O => option_map snd (srun0 ops)
  | S O => option_map snd (srun1 ops)
  | _ => option_map (fun r => map (out_map idZ fst3) (snd r)) (srun2 ops)
  end.

(** The specification's requirement on the item that remove_at returned, given the element [v] that the vector
    operation removes (independent of the tree model).  The returned item is a detached one-element subtree root:
      - its element is [v];
      - its size is 1;
      - its aggregate is the aggregate of the one-element sequence [v]: the sum [v] (kinds 0, 1), resp. all three
        components of the positional-hash aggregate of [v] (kind 2: hash, hB^1, hash of [1]);
      - its pending tag is the identity, i.e. nothing is pending that would act on the elements attached below it
        when it is inserted again: md = 0 (kinds 0, 2); add = 0 and set = None (kind 1).
    (r_t2, r_t3 of kind 0 and r_t3 of kind 1 with set = None are constants of the printer, not fields.) *)
Definition fresh_ok (kind : nat) (v : Z) (it : ritem) : bool :=
  (r_x it =? v) && (r_sz it =? 1) &&
  match kind with
  | O => (r_agg it =? zsum [v]) && (r_t1 it =? 0)
  | S O => (r_agg it =? zsum [v]) && (r_t1 it =? 0) && (r_t2 it =? 0)
  | _ => let '(h, pw, rp) := hashagg [v] in (r_agg it =? h) && (r_t2 it =? pw) && (r_t3 it =? rp) && (r_t1 it =? 0)
  end.

(** one observed output against the output of the list-of-lists specification *)
Definition spec_ok (kind : nat) (s : sout) (o : out) : bool :=
  match s, o with
  | OInvalid, OInvalid | OUnit, OUnit | OPanic, OPanic => true
  | OElem x, OElem y => oeqb Z.eqb x y
  | OList x, OList y => leqb Z.eqb x y
  | OSize x, OSize y => Z.eqb x y
  | OAgg x, OAgg y => oeqb Z.eqb x y
  | ORemoved v, ORemoved it => fresh_ok kind v it
  | _, _ => false
  end.
Fixpoint all2 {X Y} (f : X -> Y -> bool) (a : list X) (b : list Y) : bool :=
  match a, b with
  | [], [] => true
  | x :: a', y :: b' => f x y && all2 f a' b'
  | _, _ => false
  end.

Definition model_check (c : case) : bool :=
  let '(Case kind ops ps obs) := c in
  match obs with Some o => leqb out_eqb (model_outputs kind ps ops) o | None => false end.

Definition spec_check (c : case) : bool :=
  let '(Case kind ops ps obs) := c in
  match spec_outputs kind ops with
  | None => true   (* a split_by predicate was not prefix-monotone: outside the property *)
  | Some so => match obs with Some o => all2 (spec_ok kind) so o | None => false end
  end.

Definition explain (c : case) :=
  let '(Case kind ops ps obs) := c in (model_outputs kind ps ops, spec_outputs kind ops).
