(** C03 — on every correspondence case, agreement with the model implies the list-of-lists specification
    (corollary of the history theorem for the three lawful harness items): the outputs are those of the
    specification, and every item that remove_at returned — compared with the model as a whole — is a one-element
    subtree root for the removed element ([fresh_ok]), because the model's returned items are [Fresh]. *)
From Coq Require Import ZArith List Bool Lia.
From RlibV Require Import Common.Batch C03.Model C03.Corr C03.Proofs C03.ProofsInst.
Import ListNotations.
Open Scope Z_scope.

(** every item that a concrete history hands to from_item / insert_at is a freshly made item modified any number of
    times: [Detached] for a lawful item *)
Lemma conv_detached {T M A} (update : T -> option T -> option T -> T) (push : T -> option T -> option T -> T * option T * option T)
      (size : T -> Z) (modify : M -> T -> T) (elem : T -> Z) (agg : T -> A) (act : M -> Z -> Z) (aggf : list Z -> A)
      (Pending : T -> list M -> Prop) (mk : Z -> T) (md : amod -> M) :
  lawful update push size modify elem agg act aggf Pending ->
  (forall v, Fresh size elem agg aggf Pending (mk v)) ->
  forall ops, Forall (op_detached size elem agg aggf Pending) (map (conv modify mk md) ops).
Proof.
  intros LAW Hf ops. induction ops as [|o ops IH]; simpl; constructor; auto.
  destruct o; simpl; auto;
    apply (Detached_mods update push size modify elem agg act aggf Pending LAW); apply Fresh_Detached, Hf.
Qed.

(** ---------- boolean equalities ---------- *)
Lemma c03_oeqb_refl (o : option Z) : oeqb Z.eqb o o = true.
Proof. destruct o; simpl; auto using Z.eqb_refl. Qed.
Lemma c03_leqb_refl (l : list Z) : leqb Z.eqb l l = true.
Proof. induction l; simpl; auto. now rewrite Z.eqb_refl. Qed.
Lemma c03_oeqb_eq (a b : option Z) : oeqb Z.eqb a b = true -> a = b.
Proof. destruct a, b; simpl; try discriminate; auto. intros H. apply Z.eqb_eq in H. now subst. Qed.
Lemma c03_leqb_eq {X} (e : X -> X -> bool) : (forall x y, e x y = true -> x = y) ->
  forall l l', leqb e l l' = true -> l = l'.
Proof.
  intros He l. induction l as [|x l IH]; intros [|y l'] H; simpl in H; try discriminate; auto.
  apply andb_true_iff in H. destruct H as [H1 H2]. f_equal; auto.
Qed.
Lemma ritem_eqb_eq a b : ritem_eqb a b = true -> a = b.
Proof.
  destruct a, b. unfold ritem_eqb. simpl. rewrite !andb_true_iff, !Z.eqb_eq.
  intros [[[[[-> ->] ->] ->] ->] ->]. reflexivity.
Qed.
Lemma out_eqb_eq (a b : out) : out_eqb a b = true -> a = b.
Proof.
  destruct a, b; simpl; try discriminate; auto; intros H.
  - now apply c03_oeqb_eq in H; subst.
  - apply (c03_leqb_eq Z.eqb (fun x y E => proj1 (Z.eqb_eq x y) E)) in H. now subst.
  - apply Z.eqb_eq in H. now subst.
  - now apply c03_oeqb_eq in H; subst.
  - apply ritem_eqb_eq in H. now subst.
Qed.

Lemma all2_map_map {X Y W} (P : Y -> W -> bool) (f : X -> Y) (g : X -> W) (l : list X) :
  Forall (fun x => P (f x) (g x) = true) l -> all2 P (map f l) (map g l) = true.
Proof. induction 1 as [|x l Hx Hl IH]; simpl; auto. now rewrite Hx, IH. Qed.

(** ---------- an item that is [Fresh] in the model is printed as a [fresh_ok] item ---------- *)
Lemma fresh_ok0 x : Fresh isize ix ism zsum isz_pending x -> fresh_ok 0 (ix x) (ri0 x) = true.
Proof.
  intros (Hp & Ha & Hs). unfold isz_pending in Hp. unfold fresh_ok, ri0. cbn [r_x r_agg r_sz r_t1 r_t2 r_t3].
  rewrite Ha, Hs, Hp. simpl zsum. now rewrite !Z.eqb_refl.
Qed.
Lemma fresh_ok1 x : Fresh asize ax asm zsum iaa_pending x -> fresh_ok 1 (ax x) (ri1 x) = true.
Proof.
  intros (Hp & Ha & Hs). unfold iaa_pending, acts, tagf in Hp. simpl in Hp.
  pose proof (Hp 0) as H0. pose proof (Hp 1) as H1.
  unfold fresh_ok, ri1. destruct (aset x) as [c|]; [exfalso; lia|].
  cbn [r_x r_agg r_sz r_t1 r_t2 r_t3]. rewrite Ha, Hs. replace (aadd x) with 0 by lia.
  simpl zsum. now rewrite !Z.eqb_refl.
Qed.
Lemma fresh_ok2 k x : Fresh hsz hx ihs_agg hashagg ihs_pending x -> fresh_ok (S (S k)) (hx x) (ri2 x) = true.
Proof.
  intros (Hp & Ha & Hs). unfold ihs_pending in Hp. simpl in Hp. unfold fresh_ok, ri2.
  cbn [r_x r_agg r_sz r_t1 r_t2 r_t3]. rewrite <- Ha. unfold ihs_agg. rewrite Hs, Hp. now rewrite !Z.eqb_refl.
Qed.

(** one output of the model (printed) against the same output as the specification sees it *)
Lemma spec_ok_model {T A} (kind : nat) (elem : T -> Z) (ri : T -> ritem) (fa : A -> Z) (r : @output T Z A) :
  (forall x, r = ORemoved x -> fresh_ok kind (elem x) (ri x) = true) ->
  spec_ok kind (out_map idZ fa (out_elem elem r)) (out_map ri fa r) = true.
Proof.
  intros Hf. destruct r; cbn [out_elem out_map spec_ok]; auto.
  - apply c03_oeqb_refl.
  - apply c03_leqb_refl.
  - apply Z.eqb_refl.
  - apply c03_oeqb_refl.
  - apply (Hf x eq_refl).
Qed.
Lemma out_map_id (s : sout) : out_map idZ idZ s = s.
Proof. destruct s; simpl; auto. destruct o; reflexivity. Qed.

Theorem model_check_spec_check (c : case) : model_check c = true -> spec_check c = true.
Proof.
  destruct c as [kind ops ps [o|]]; simpl; [|discriminate].
  intros Hm. apply (c03_leqb_eq out_eqb out_eqb_eq) in Hm. subst o.
  unfold spec_outputs, model_outputs. destruct kind as [|[|k]].
  - unfold srun0, run0. destruct (srun ix Z.add zsum [] (map to_op0 ops)) as [[sst outs]|] eqn:E; simpl; [|reflexivity].
    destruct (history _ _ _ _ _ _ _ _ _ isz_lawful ps _ sst outs (conv_detached _ _ _ _ _ _ _ _ _ _ _ isz_lawful isz_fresh ops) E) as (H & Hf & _).
    unfold run_outputs in H, Hf. rewrite <- H. apply all2_map_map. eapply Forall_impl; [|exact Hf].
    intros r Hr. rewrite <- (out_map_id (out_elem ix r)). apply spec_ok_model.
    intros x ->. now apply fresh_ok0.
  - unfold srun1, run1. destruct (srun ax amod_act zsum [] (map to_op1 ops)) as [[sst outs]|] eqn:E; simpl; [|reflexivity].
    destruct (history _ _ _ _ _ _ _ _ _ iaa_lawful ps _ sst outs (conv_detached _ _ _ _ _ _ _ _ _ _ _ iaa_lawful iaa_fresh ops) E) as (H & Hf & _).
    unfold run_outputs in H, Hf. rewrite <- H. apply all2_map_map. eapply Forall_impl; [|exact Hf].
    intros r Hr. rewrite <- (out_map_id (out_elem ax r)). apply spec_ok_model.
    intros x ->. now apply fresh_ok1.
  - unfold srun2, run2. destruct (srun hx Z.add hashagg [] (map to_op2 ops)) as [[sst outs]|] eqn:E; simpl; [|reflexivity].
    destruct (history _ _ _ _ _ _ _ _ _ ihs_lawful ps _ sst outs (conv_detached _ _ _ _ _ _ _ _ _ _ _ ihs_lawful ihs_fresh ops) E) as (H & Hf & _).
    unfold run_outputs in H, Hf. rewrite <- H. rewrite map_map. apply all2_map_map. eapply Forall_impl; [|exact Hf].
    intros r Hr. apply spec_ok_model. intros x ->. now apply fresh_ok2.
Qed.
