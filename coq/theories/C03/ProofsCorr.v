(** C03 — on every correspondence case, agreement with the model implies the list-of-lists specification
    (corollary of the history theorem for the three lawful harness items). *)
From Coq Require Import ZArith List Bool Lia.
From RlibV Require Import Common.Batch C03.Model C03.Corr C03.Proofs C03.ProofsInst.
Import ListNotations.
Open Scope Z_scope.

Lemma conv_fresh {T M A} (size : T -> Z) (elem : T -> Z) (agg : T -> A) (aggf : list Z -> A)
      (Pending : T -> list M -> Prop) (mk : Z -> T) (md : amod -> M) :
  (forall v, Fresh size elem agg aggf Pending (mk v)) ->
  forall ops, Forall (op_fresh size elem agg aggf Pending) (map (conv mk md) ops).
Proof.
  intros Hf ops. induction ops as [|o ops IH]; simpl; constructor; auto.
  destruct o; simpl; auto.
Qed.

Theorem model_check_spec_check (c : case) : model_check c = true -> spec_check c = true.
Proof.
  destruct c as [kind ops ps [o|]]; simpl; [|discriminate].
  unfold spec_outputs, model_outputs. destruct kind as [|[|k]].
  - unfold srun0, run0. destruct (srun ix Z.add zsum [] (map to_op0 ops)) as [[sst outs]|] eqn:E; simpl; [|reflexivity].
    destruct (history _ _ _ _ _ _ _ _ _ isz_lawful ps _ sst outs (conv_fresh _ _ _ _ _ _ _ isz_fresh ops) E) as [H _].
    unfold run_outputs in H. intros Hm. rewrite <- H. exact Hm.
  - unfold srun1, run1. destruct (srun ax amod_act zsum [] (map to_op1 ops)) as [[sst outs]|] eqn:E; simpl; [|reflexivity].
    destruct (history _ _ _ _ _ _ _ _ _ iaa_lawful ps _ sst outs (conv_fresh _ _ _ _ _ _ _ iaa_fresh ops) E) as [H _].
    unfold run_outputs in H. intros Hm. rewrite <- H. exact Hm.
  - unfold srun2, run2. destruct (srun hx Z.add hashagg [] (map to_op2 ops)) as [[sst outs]|] eqn:E; simpl; [|reflexivity].
    destruct (history _ _ _ _ _ _ _ _ _ ihs_lawful ps _ sst outs (conv_fresh _ _ _ _ _ _ _ ihs_fresh ops) E) as [H _].
    unfold run_outputs in H. intros Hm. rewrite <- H. exact Hm.
Qed.
