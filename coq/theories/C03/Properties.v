(** C03 — property theorems (statements only; proofs by [exact]).
    [Rep t xs]: the treap [t] denotes the sequence [xs] (Proofs.v); [lawful]: the item interface. *)
From Coq Require Import ZArith List Bool.
From RlibV Require Import C03.Model C03.Corr C03.Proofs C03.ProofsInst C03.ProofsCorr.
Import ListNotations.
Open Scope Z_scope.

(** merge concatenates: for every pair of priorities at every level (ties included) *)
Theorem c03_merge_rep : forall (T M V A : Type) (update : T -> option T -> option T -> T) (push : T -> option T -> option T -> T * option T * option T) (size : T -> Z) (modify : M -> T -> T) (elem : T -> V) (agg : T -> A) (act : M -> V -> V) (aggf : list V -> A) (Pending : T -> list M -> Prop), lawful update push size modify elem agg act aggf Pending -> forall (a b : tree) (xs ys : list V), Rep size elem agg act aggf Pending a xs -> Rep size elem agg act aggf Pending b ys -> Rep size elem agg act aggf Pending (merge update push a None b None) (xs ++ ys).
Proof. exact @merge_rep. Qed.

(** split_at k yields the first k elements and the rest, for every k (negative as 0); k >= len leaves everything on the left *)
Theorem c03_split_at_rep : forall (T M V A : Type) (update : T -> option T -> option T -> T) (push : T -> option T -> option T -> T * option T * option T) (size : T -> Z) (modify : M -> T -> T) (elem : T -> V) (agg : T -> A) (act : M -> V -> V) (aggf : list V -> A) (Pending : T -> list M -> Prop), lawful update push size modify elem agg act aggf Pending -> forall (t : tree) (k : Z) (xs : list V) (a b : tree), Rep size elem agg act aggf Pending t xs -> split_at update push size t None k = (a, b) -> Rep size elem agg act aggf Pending a (firstn (Z.to_nat k) xs) /\ Rep size elem agg act aggf Pending b (skipn (Z.to_nat k) xs) /\ (len xs <= k -> Rep size elem agg act aggf Pending a xs /\ b = E).
Proof. exact @split_at_rep. Qed.

(** split_by with a predicate on elements that is prefix-monotone on the sequence yields take_while / drop_while *)
Theorem c03_split_by_rep : forall (T M V A : Type) (update : T -> option T -> option T -> T) (push : T -> option T -> option T -> T * option T * option T) (size : T -> Z) (modify : M -> T -> T) (elem : T -> V) (agg : T -> A) (act : M -> V -> V) (aggf : list V -> A) (Pending : T -> list M -> Prop), lawful update push size modify elem agg act aggf Pending -> forall (q : V -> bool) (t : tree) (xs : list V) (a b : tree), Rep size elem agg act aggf Pending t xs -> monotone_on q xs = true -> split_by update push (fun x => q (elem x)) t None = (a, b) -> Rep size elem agg act aggf Pending a (take_while q xs) /\ Rep size elem agg act aggf Pending b (drop_while q xs).
Proof. exact @split_by_rep. Qed.

(** insert_at k x inserts the element of a detached item (one element, ANY pending tag: a fresh item, or one the caller
    modified before handing it over) before position k (k >= len appends) *)
Theorem c03_insert_at : forall (T M V A : Type) (update : T -> option T -> option T -> T) (push : T -> option T -> option T -> T * option T * option T) (size : T -> Z) (modify : M -> T -> T) (elem : T -> V) (agg : T -> A) (act : M -> V -> V) (aggf : list V -> A) (Pending : T -> list M -> Prop), lawful update push size modify elem agg act aggf Pending -> forall (t : tree) (k : Z) (x : T) (p : Z) (xs : list V), Rep size elem agg act aggf Pending t xs -> Detached size elem agg aggf Pending x -> Rep size elem agg act aggf Pending (insert_at update push size t k x p) (firstn (Z.to_nat k) xs ++ elem x :: skipn (Z.to_nat k) xs).
Proof. exact @insert_at_rep. Qed.

(** remove_at k removes and returns the k-th element; out of range it returns nothing (the unwrap panics) and the sequence is unchanged;
    the returned ITEM is as good as a freshly made one (nothing pending, aggregate of the one-element sequence, size 1): it can be inserted again *)
Theorem c03_remove_at : forall (T M V A : Type) (update : T -> option T -> option T -> T) (push : T -> option T -> option T -> T * option T * option T) (size : T -> Z) (modify : M -> T -> T) (elem : T -> V) (agg : T -> A) (act : M -> V -> V) (aggf : list V -> A) (Pending : T -> list M -> Prop), lawful update push size modify elem agg act aggf Pending -> forall (t : tree) (k : Z) (xs : list V) (t' : tree) (res : option T), Rep size elem agg act aggf Pending t xs -> remove_at update push size t k = (t', res) -> Rep size elem agg act aggf Pending t' (firstn (Z.to_nat k) xs ++ skipn (S (Z.to_nat k)) xs) /\ option_map elem res = nth_error xs (Z.to_nat k) /\ (forall x : T, res = Some x -> Fresh size elem agg aggf Pending x).
Proof. exact @remove_at_rep. Qed.

(** first/last/collect keep the sequence (they push lazily) and return head / last / all elements; size = length; the root aggregate is the fold of the whole sequence *)
Theorem c03_first_last_collect_size : forall (T M V A : Type) (update : T -> option T -> option T -> T) (push : T -> option T -> option T -> T * option T * option T) (size : T -> Z) (modify : M -> T -> T) (elem : T -> V) (agg : T -> A) (act : M -> V -> V) (aggf : list V -> A) (Pending : T -> list M -> Prop), lawful update push size modify elem agg act aggf Pending -> forall (t : tree) (xs : list V), Rep size elem agg act aggf Pending t xs -> (forall t' res, first push t None = (t', res) -> Rep size elem agg act aggf Pending t' xs /\ option_map elem res = hd_error xs) /\ (forall t' res, last push t None = (t', res) -> Rep size elem agg act aggf Pending t' xs /\ option_map elem res = last_error xs) /\ (forall t' ys, collect push t None = (t', ys) -> Rep size elem agg act aggf Pending t' xs /\ map elem ys = xs) /\ tsize size t = len xs /\ option_map agg (item t) = match xs with [] => None | _ => Some (aggf xs) end.
Proof. exact @first_last_collect_size. Qed.

(** a modification attached to the root acts on exactly the elements of that treap, once *)
Theorem c03_modify_root : forall (T M V A : Type) (update : T -> option T -> option T -> T) (push : T -> option T -> option T -> T * option T * option T) (size : T -> Z) (modify : M -> T -> T) (elem : T -> V) (agg : T -> A) (act : M -> V -> V) (aggf : list V -> A) (Pending : T -> list M -> Prop), lawful update push size modify elem agg act aggf Pending -> forall (m : M) (t : tree) (xs : list V), Rep size elem agg act aggf Pending t xs -> Rep size elem agg act aggf Pending (modify_root modify m t) (map (act m) xs).
Proof. exact @modify_root_rep. Qed.

(** every history of the multi-treap machine (including Move: remove_at, the caller's modifications of the returned item object, insert_at of that object;
    items handed to from_item / insert_at may carry any pending tag: op_detached), for every priority stream,
    produces the outputs of the list-of-lists specification (of a removed item the specification sees the element), every item handed out by remove_at is
    Fresh, and the history ends in treaps that denote the specification's lists *)
Theorem c03_history : forall (T M V A : Type) (update : T -> option T -> option T -> T) (push : T -> option T -> option T -> T * option T * option T) (size : T -> Z) (modify : M -> T -> T) (elem : T -> V) (agg : T -> A) (act : M -> V -> V) (aggf : list V -> A) (Pending : T -> list M -> Prop), lawful update push size modify elem agg act aggf Pending -> forall (ps : list Z) (ops : list op) (sst : list (list V)) (outs : list output), Forall (op_detached size elem agg aggf Pending) ops -> srun elem act aggf [] ops = Some (sst, outs) -> map (out_elem elem) (run_outputs update push size modify elem agg ps ops) = outs /\ Forall (out_fresh size elem agg aggf Pending) (run_outputs update push size modify elem agg ps ops) /\ Forall2 (Rep size elem agg act aggf Pending) (run_final update push size modify elem agg ps ops) sst.
Proof. exact @history. Qed.

(** the ItemSized item (lazy add, sum, size) over Z satisfies the interface *)
Theorem c03_isz_lawful : lawful isz_update isz_push isize isz_modify ix ism Z.add zsum isz_pending.
Proof. exact isz_lawful. Qed.

(** the assign-or-add item (non-commuting modifications) satisfies the interface *)
Theorem c03_iaa_lawful : lawful iaa_update iaa_push asize iaa_modify ax asm amod_act zsum iaa_pending.
Proof. exact iaa_lawful. Qed.

(** the positional-hash item (order-sensitive aggregate: exchanging the children changes it; lazy add) satisfies the
    interface, with the aggregate of a sequence computed directly on the list by Horner evaluation modulo hP *)
Theorem c03_ihash_lawful : lawful ihs_update ihs_push hsz ihs_modify hx ihs_agg Z.add hashagg ihs_pending.
Proof. exact ihs_lawful. Qed.

(** on every correspondence case, agreement with the model implies the list-of-lists specification: the batch lemma
    about the model carries the specification to the implementation by proof *)
Theorem c03_model_check_spec_check : forall c : case, model_check c = true -> spec_check c = true.
Proof. exact model_check_spec_check. Qed.
