(** C03 — executable model of rlib/treap (treap.rs, treap_node.rs), and the three harness items.

    [tree := E | Nd l item prio r].  The item operations ([update], [push], [size] of the traits
    [TreapItem]/[TreapItemSized], the user-level [modify], and the projections [elem]/[agg] that the
    observations read) are section variables: the model is generic over the item, exactly like the code.

    A push rewrites the root items of the two children before the code recurses into one of them.
    Recursing into a rebuilt child is rejected by the guard checker, so every recursive function takes the
    subtree AND an override for its root item: [merge a oa b ob] merges [set_item a oa] and [set_item b ob].
    The recursion is then on a genuine subterm and no fuel is needed.

    Priorities are an input: node creation consumes the next element of a list given to the machine.
    remove_at hands out the ITEM of the split-out node; the machine shows that item as a whole ([ORemoved x]) and
    can give the same item back to insert_at ([Move]), as a caller that moves an element does — possibly after
    modifying it ([Move i k j k2 ms]: move-and-update), so that the item enters the treap with a pending tag.
    [FromItem x] / [InsertAt i k x] take ANY item, in particular a freshly made one that was modified before.
    Positions and sizes are [Z] ([usize] in the code; no operation here can overflow).
    Definitions only; proofs are in Proofs*.v. *)
From Coq Require Import ZArith List Bool.
Import ListNotations.
Open Scope Z_scope.

(** ---------- list plumbing shared by the machine and by the list-of-lists specification ---------- *)
Section Plumbing.
Context {X : Type}.
Fixpoint remove_nth (i : nat) (l : list X) : list X :=
  match l, i with
  | [], _ => []
  | _ :: xs, O => xs
  | x :: xs, S i' => x :: remove_nth i' xs
  end.
Fixpoint replace_nth (i : nat) (y : X) (l : list X) : list X :=
  match l, i with
  | [], _ => []
  | _ :: xs, O => y :: xs
  | x :: xs, S i' => x :: replace_nth i' y xs
  end.
(** the treaps named [i] and [j] (distinct, both live) and the remaining ones *)
Definition take2 (i j : nat) (l : list X) : option (X * X * list X) :=
  if Nat.eqb i j then None else
  match nth_error l i, nth_error l j with
  | Some a, Some b => Some (a, b, remove_nth (Nat.min i j) (remove_nth (Nat.max i j) l))
  | _, _ => None
  end.
Definition take1 (i : nat) (l : list X) : option (X * list X) :=
  match nth_error l i with Some a => Some (a, remove_nth i l) | None => None end.
(** Positions are [Z] ([usize] in the code: up to 2^64-1).  [zfirstn k l = firstn (Z.to_nat k) l], [zskipn k l =
    skipn (Z.to_nat k) l], [znth k l = nth_error l (Z.to_nat k)] (Proofs.v: zfirstn_eq, zskipn_eq, znth_eq), written so
    that evaluation never builds a unary number larger than the length of the list. *)
Definition zfirstn (k : Z) (l : list X) : list X := firstn (Z.to_nat (Z.min k (Z.of_nat (length l)))) l.
Definition zskipn (k : Z) (l : list X) : list X := skipn (Z.to_nat (Z.min k (Z.of_nat (length l)))) l.
Definition znth (k : Z) (l : list X) : option X := if k <? Z.of_nat (length l) then nth_error l (Z.to_nat k) else None.
End Plumbing.
Arguments zfirstn : simpl never.
Arguments zskipn : simpl never.
Arguments znth : simpl never.

(** ---------- what one operation of the machine shows ----------
    [OInvalid]: the operation named a treap that is not live (skipped). [OPanic]: remove_at out of range.
    [ORemoved x]: what remove_at returned.  The tree machine shows the COMPLETE returned item ([R] = the item type:
    element, aggregate, size, pending tag, every other field); the list-of-lists specification shows the removed
    element ([R] = the element type). *)
Inductive output {R V A : Type} :=
| OInvalid | OUnit | OPanic | OElem (o : option V) | OList (l : list V) | OSize (n : Z)
| OAgg (o : option A) | ORemoved (x : R).
Definition out_map {R R' V A A' : Type} (fr : R -> R') (fa : A -> A') (o : @output R V A) : @output R' V A' :=
  match o with
  | OInvalid => OInvalid | OUnit => OUnit | OPanic => OPanic | OElem e => OElem e | OList l => OList l
  | OSize n => OSize n | OAgg a => OAgg (option_map fa a) | ORemoved x => ORemoved (fr x)
  end.

Section Treap.
Context {T M V A : Type}.
Variable update : T -> option T -> option T -> T.                       (* TreapItem::update *)
Variable push : T -> option T -> option T -> T * option T * option T.   (* TreapItem::push *)
Variable size : T -> Z.                                                 (* TreapItemSized::size *)
Variable modify : M -> T -> T.          (* what the user does through root_mut() *)
Variable elem : T -> V.                 (* the element value read from an item *)
Variable agg : T -> A.                  (* the subtree aggregate read from a root item *)

Inductive tree := E | Nd (l : tree) (x : T) (p : Z) (r : tree).

Definition item (t : tree) : option T := match t with E => None | Nd _ x _ _ => Some x end.
Definition set_item (t : tree) (o : option T) : tree :=
  match t, o with Nd l _ p r, Some x => Nd l x p r | _, _ => t end.
Definition ovr (o : option T) (x : T) : T := match o with Some y => y | None => x end.
Definition osize (o : option T) : Z := match o with Some y => size y | None => 0 end.

(** TreapNode::merge.  Outer recursion on [a], inner on [b]; the left root wins only if its priority is
    strictly smaller (ties: the right root becomes the root). *)
Fixpoint merge (a : tree) (oa : option T) : tree -> option T -> tree :=
  match a with
  | E => fun b ob => set_item b ob
  | Nd al ax0 ap ar =>
    let ax := ovr oa ax0 in
    fix merge_r (b : tree) (ob : option T) : tree :=
      match b with
      | E => Nd al ax ap ar
      | Nd bl bx0 bp br =>
        let bx := ovr ob bx0 in
        if ap <? bp then
          let '(ax', ol, or) := push ax (item al) (item ar) in
          let al' := set_item al ol in
          let m := merge ar or b ob in
          Nd al' (update ax' (item al') (item m)) ap m
        else
          let '(bx', ol, or) := push bx (item bl) (item br) in
          let br' := set_item br or in
          let m := merge_r bl ol in
          Nd m (update bx' (item m) (item br')) bp br'
      end
  end.

(** TreapNode::split_at: push, compare [pos] with the size of the (pushed) left child *)
Fixpoint split_at (t : tree) (ot : option T) (pos : Z) : tree * tree :=
  match t with
  | E => (E, E)
  | Nd l x0 p r =>
    let x := ovr ot x0 in
    let '(x', ol, or) := push x (item l) (item r) in
    let l' := set_item l ol in
    let r' := set_item r or in
    let lsz := osize (item l') in
    if lsz <? pos then
      let '(a, b) := split_at r or (pos - lsz - 1) in
      (Nd l' (update x' (item l') (item a)) p a, b)
    else
      let '(a, b) := split_at l ol pos in
      (a, Nd b (update x' (item b) (item r')) p r')
  end.

(** TreapNode::split_by: the predicate sees the root item after the push *)
Fixpoint split_by (q : T -> bool) (t : tree) (ot : option T) : tree * tree :=
  match t with
  | E => (E, E)
  | Nd l x0 p r =>
    let x := ovr ot x0 in
    let '(x', ol, or) := push x (item l) (item r) in
    let l' := set_item l ol in
    let r' := set_item r or in
    if q x' then
      let '(a, b) := split_by q r or in
      (Nd l' (update x' (item l') (item a)) p a, b)
    else
      let '(a, b) := split_by q l ol in
      (a, Nd b (update x' (item b) (item r')) p r')
  end.

(** TreapNode::collect_into: push at every node, in-order; returns the pushed tree and the items *)
Fixpoint collect (t : tree) (ot : option T) : tree * list T :=
  match t with
  | E => (E, [])
  | Nd l x0 p r =>
    let x := ovr ot x0 in
    let '(x', ol, or) := push x (item l) (item r) in
    let '(l', ls) := collect l ol in
    let '(r', rs) := collect r or in
    (Nd l' x' p r', ls ++ x' :: rs)
  end.

(** Treap::first: push only while a left child exists; the node reached is returned unpushed *)
Fixpoint first (t : tree) (ot : option T) : tree * option T :=
  match t with
  | E => (E, None)
  | Nd l x0 p r =>
    let x := ovr ot x0 in
    match l with
    | E => (Nd E x p r, Some x)
    | Nd _ _ _ _ =>
      let '(x', ol, or) := push x (item l) (item r) in
      let '(l', res) := first l ol in
      (Nd l' x' p (set_item r or), res)
    end
  end.

Fixpoint last (t : tree) (ot : option T) : tree * option T :=
  match t with
  | E => (E, None)
  | Nd l x0 p r =>
    let x := ovr ot x0 in
    match r with
    | E => (Nd l x p E, Some x)
    | Nd _ _ _ _ =>
      let '(x', ol, or) := push x (item l) (item r) in
      let '(r', res) := last r or in
      (Nd (set_item l ol) x' p r', res)
    end
  end.

(** TreapNode::new: item as given, no update *)
Definition single (x : T) (p : Z) : tree := Nd E x p E.

(** Treap::insert_at *)
Definition insert_at (t : tree) (pos : Z) (x : T) (p : Z) : tree :=
  let '(l, r) := split_at t None pos in
  merge (merge l None (single x p) None) None r None.

(** Treap::remove_at: the root is reassigned before [t2.unwrap()]; [None] = that unwrap panicked
    (the treap then holds merge(t1, t3), i.e. the same sequence) *)
Definition remove_at (t : tree) (pos : Z) : tree * option T :=
  let '(t1, t23) := split_at t None pos in
  let '(t2, t3) := split_at t23 None 1 in
  (merge t1 None t3 None, item t2).

Definition tsize (t : tree) : Z := osize (item t).

(** a caller applying modifications to an item it holds (not yet / no longer inside a treap), in order *)
Definition mods (ms : list M) (x : T) : T := fold_left (fun y m => modify m y) ms x.

(** root_mut().map(|r| r.modify(m)) *)
Definition modify_root (m : M) (t : tree) : tree :=
  match t with E => E | Nd l x p r => Nd l (modify m x) p r end.

(** ---------- the multi-treap machine ---------- *)
Inductive op :=
| New | FromItem (x : T) | Merge (i j : nat) | SplitAt (i : nat) (k : Z) | SplitBy (i : nat) (q : V -> bool)
| InsertAt (i : nat) (k : Z) (x : T) | RemoveAt (i : nat) (k : Z) | ModifyRoot (i : nat) (m : M)
| First (i : nat) | Last (i : nat) | Collect (i : nat) | Size (i : nat) | RootAgg (i : nat)
(** [Move i k j k2 ms]:  let mut x = treaps[i].remove_at(k); x.modify(m) for m in ms; treaps[j].insert_at(k2, x)
    — the item OBJECT that remove_at returned is inserted (as it is when [ms = []]; with a pending tag otherwise:
    move-and-update); i = j allowed; skipped when i or j is not live.  The output is the item as remove_at
    returned it (before the modifications). *)
| Move (i : nat) (k : Z) (j : nat) (k2 : Z) (ms : list M).

Definition next_prio (ps : list Z) : Z * list Z :=
  match ps with p :: ps' => (p, ps') | [] => (0, []) end.

Definition step (st : list tree) (ps : list Z) (o : op) : list tree * list Z * @output T V A :=
  match o with
  | New => (st ++ [E], ps, OUnit)
  | FromItem x => let '(p, ps') := next_prio ps in (st ++ [single x p], ps', OUnit)
  | Merge i j =>
    match take2 i j st with
    | Some (a, b, rest) => (rest ++ [merge a None b None], ps, OUnit)
    | None => (st, ps, OInvalid)
    end
  | SplitAt i k =>
    match take1 i st with
    | Some (t, rest) => let '(a, b) := split_at t None k in (rest ++ [a; b], ps, OUnit)
    | None => (st, ps, OInvalid)
    end
  | SplitBy i q =>
    match take1 i st with
    | Some (t, rest) => let '(a, b) := split_by (fun x => q (elem x)) t None in (rest ++ [a; b], ps, OUnit)
    | None => (st, ps, OInvalid)
    end
  | InsertAt i k x =>
    match nth_error st i with
    | Some t => let '(p, ps') := next_prio ps in (replace_nth i (insert_at t k x p) st, ps', OUnit)
    | None => (st, ps, OInvalid)
    end
  | RemoveAt i k =>
    match nth_error st i with
    | Some t => let '(t', res) := remove_at t k in
                (replace_nth i t' st, ps, match res with Some x => ORemoved x | None => OPanic end)
    | None => (st, ps, OInvalid)
    end
  | ModifyRoot i m =>
    match nth_error st i with
    | Some t => (replace_nth i (modify_root m t) st, ps, OUnit)
    | None => (st, ps, OInvalid)
    end
  | First i =>
    match nth_error st i with
    | Some t => let '(t', res) := first t None in (replace_nth i t' st, ps, OElem (option_map elem res))
    | None => (st, ps, OInvalid)
    end
  | Last i =>
    match nth_error st i with
    | Some t => let '(t', res) := last t None in (replace_nth i t' st, ps, OElem (option_map elem res))
    | None => (st, ps, OInvalid)
    end
  | Collect i =>
    match nth_error st i with
    | Some t => let '(t', xs) := collect t None in (replace_nth i t' st, ps, OList (map elem xs))
    | None => (st, ps, OInvalid)
    end
  | Size i =>
    match nth_error st i with
    | Some t => (st, ps, OSize (tsize t))
    | None => (st, ps, OInvalid)
    end
  | RootAgg i =>
    match nth_error st i with
    | Some t => (st, ps, OAgg (option_map agg (item t)))
    | None => (st, ps, OInvalid)
    end
  | Move i k j k2 ms =>
    match nth_error st i, nth_error st j with
    | Some t, Some _ =>
      let '(t', res) := remove_at t k in
      let st1 := replace_nth i t' st in
      match res with
      | None => (st1, ps, OPanic)           (* remove_at panicked: nothing is inserted *)
      | Some x =>
        match nth_error st1 j with
        | Some u => let '(p, ps') := next_prio ps in (replace_nth j (insert_at u k2 (mods ms x) p) st1, ps', ORemoved x)
        | None => (st1, ps, OInvalid)       (* not reachable: [replace_nth] keeps the length *)
        end
      end
    | _, _ => (st, ps, OInvalid)
    end
  end.

(** run a history; outputs in order *)
Fixpoint run (st : list tree) (ps : list Z) (ops : list op) : list tree * list Z * list (@output T V A) :=
  match ops with
  | [] => (st, ps, [])
  | o :: ops' =>
    let '(st1, ps1, out) := step st ps o in
    let '(st2, ps2, outs) := run st1 ps1 ops' in
    (st2, ps2, out :: outs)
  end.

Definition run_outputs (ps : list Z) (ops : list op) : list (@output T V A) := snd (run [] ps ops).
(** what the list-of-lists specification can say about an output: of a removed item, its element *)
Definition out_elem (o : @output T V A) : @output V V A :=
  match o with
  | OInvalid => OInvalid | OUnit => OUnit | OPanic => OPanic | OElem e => OElem e | OList l => OList l
  | OSize n => OSize n | OAgg a => OAgg a | ORemoved x => ORemoved (elem x)
  end.
Definition run_final (ps : list Z) (ops : list op) : list tree := fst (fst (run [] ps ops)).

(** ---------- the list-of-lists specification (does not mention trees) ---------- *)
Variable act : M -> V -> V.             (* what a modification does to one element *)
Variable aggf : list V -> A.            (* the fold that an aggregate is supposed to equal *)
(** modifications applied to one element, in order *)
Definition acts (ms : list M) (v : V) : V := fold_left (fun v m => act m v) ms v.

Fixpoint take_while (q : V -> bool) (l : list V) : list V :=
  match l with [] => [] | x :: xs => if q x then x :: take_while q xs else [] end.
Fixpoint drop_while (q : V -> bool) (l : list V) : list V :=
  match l with [] => [] | x :: xs => if q x then drop_while q xs else l end.
(** prefix-monotone: true on a prefix, false on the rest *)
Definition monotone_on (q : V -> bool) (l : list V) : bool := forallb (fun x => negb (q x)) (drop_while q l).
Definition last_error (l : list V) : option V :=
  match l with [] => None | x :: xs => Some (List.last xs x) end.

(** [None]: the history left the quantifier of the property (split_by with a predicate that is not
    prefix-monotone on the current sequence) *)
Definition sstep (st : list (list V)) (o : op) : option (list (list V) * @output V V A) :=
  match o with
  | New => Some (st ++ [[]], OUnit)
  | FromItem x => Some (st ++ [[elem x]], OUnit)
  | Merge i j =>
    match take2 i j st with
    | Some (a, b, rest) => Some (rest ++ [a ++ b], OUnit)
    | None => Some (st, OInvalid)
    end
  | SplitAt i k =>
    match take1 i st with
    | Some (xs, rest) => Some (rest ++ [zfirstn k xs; zskipn k xs], OUnit)
    | None => Some (st, OInvalid)
    end
  | SplitBy i q =>
    match take1 i st with
    | Some (xs, rest) =>
      if monotone_on q xs then Some (rest ++ [take_while q xs; drop_while q xs], OUnit) else None
    | None => Some (st, OInvalid)
    end
  | InsertAt i k x =>
    match nth_error st i with
    | Some xs => Some (replace_nth i (zfirstn k xs ++ elem x :: zskipn k xs) st, OUnit)
    | None => Some (st, OInvalid)
    end
  | RemoveAt i k =>
    match nth_error st i with
    | Some xs =>
      match znth k xs with
      | Some v => Some (replace_nth i (firstn (Z.to_nat k) xs ++ skipn (S (Z.to_nat k)) xs) st, ORemoved v)
      | None => Some (st, OPanic)
      end
    | None => Some (st, OInvalid)
    end
  | ModifyRoot i m =>
    match nth_error st i with
    | Some xs => Some (replace_nth i (map (act m) xs) st, OUnit)
    | None => Some (st, OInvalid)
    end
  | First i =>
    match nth_error st i with Some xs => Some (st, OElem (hd_error xs)) | None => Some (st, OInvalid) end
  | Last i =>
    match nth_error st i with Some xs => Some (st, OElem (last_error xs)) | None => Some (st, OInvalid) end
  | Collect i =>
    match nth_error st i with Some xs => Some (st, OList xs) | None => Some (st, OInvalid) end
  | Size i =>
    match nth_error st i with Some xs => Some (st, OSize (Z.of_nat (length xs))) | None => Some (st, OInvalid) end
  | RootAgg i =>
    match nth_error st i with
    | Some xs => Some (st, OAgg (match xs with [] => None | _ => Some (aggf xs) end))
    | None => Some (st, OInvalid)
    end
  | Move i k j k2 ms =>
    match nth_error st i, nth_error st j with
    | Some xs, Some _ =>
      match znth k xs with
      | Some v =>
        let st1 := replace_nth i (firstn (Z.to_nat k) xs ++ skipn (S (Z.to_nat k)) xs) st in
        match nth_error st1 j with
        | Some ys => Some (replace_nth j (zfirstn k2 ys ++ acts ms v :: zskipn k2 ys) st1, ORemoved v)
        | None => Some (st1, OInvalid)
        end
      | None => Some (st, OPanic)
      end
    | _, _ => Some (st, OInvalid)
    end
  end.

Fixpoint srun (st : list (list V)) (ops : list op) : option (list (list V) * list (@output V V A)) :=
  match ops with
  | [] => Some (st, [])
  | o :: ops' =>
    match sstep st o with
    | None => None
    | Some (st1, out) =>
      match srun st1 ops' with
      | None => None
      | Some (st2, outs) => Some (st2, out :: outs)
      end
    end
  end.

End Treap.

Arguments E {T}.
Arguments Nd {T} l x p r.

(** ---------- item instance 0: the ItemSized of rlib/treap/tests/tests.rs over Z (lazy add, sum) ---------- *)
Record isz := ISz { ix : Z; ism : Z; isize : Z; imd : Z }.
Definition isz_osm (o : option isz) : Z := match o with Some i => ism i | None => 0 end.
Definition isz_osz (o : option isz) : Z := match o with Some i => isize i | None => 0 end.
Definition isz_update (x : isz) (l r : option isz) : isz :=
  ISz (ix x) (isz_osm l + isz_osm r + ix x) (isz_osz l + isz_osz r + 1) (imd x).
Definition isz_modify (m : Z) (x : isz) : isz :=
  ISz (ix x + m) (ism x + m * isize x) (isize x) (imd x + m).
Definition isz_push (x : isz) (l r : option isz) : isz * option isz * option isz :=
  (ISz (ix x) (ism x) (isize x) 0, option_map (isz_modify (imd x)) l, option_map (isz_modify (imd x)) r).
Definition isz_mk (v : Z) : isz := ISz v v 1 0.
Definition zsum (l : list Z) : Z := fold_right Z.add 0 l.

(** ---------- item instance 1: assign-or-add (modifications do not commute) ---------- *)
Inductive amod := MAdd (c : Z) | MSet (c : Z).
(** pending tag = the function  e -> (aset or e) + aadd *)
Record iaa := IAA { ax : Z; asm : Z; asize : Z; aset : option Z; aadd : Z }.
Definition iaa_osm (o : option iaa) : Z := match o with Some i => asm i | None => 0 end.
Definition iaa_osz (o : option iaa) : Z := match o with Some i => asize i | None => 0 end.
Definition iaa_update (x : iaa) (l r : option iaa) : iaa :=
  IAA (ax x) (iaa_osm l + ax x + iaa_osm r) (iaa_osz l + 1 + iaa_osz r) (aset x) (aadd x).
Definition iaa_modify (m : amod) (x : iaa) : iaa :=
  match m with
  | MAdd c => IAA (ax x + c) (asm x + c * asize x) (asize x) (aset x) (aadd x + c)
  | MSet c => IAA c (c * asize x) (asize x) (Some c) 0
  end.
Definition iaa_push_to (x ch : iaa) : iaa :=
  let ch1 := match aset x with Some c => iaa_modify (MSet c) ch | None => ch end in
  if aadd x =? 0 then ch1 else iaa_modify (MAdd (aadd x)) ch1.
Definition iaa_push (x : iaa) (l r : option iaa) : iaa * option iaa * option iaa :=
  (IAA (ax x) (asm x) (asize x) None 0, option_map (iaa_push_to x) l, option_map (iaa_push_to x) r).
Definition iaa_mk (v : Z) : iaa := IAA v v 1 None 0.
Definition amod_act (m : amod) (e : Z) : Z := match m with MAdd c => e + c | MSet c => c end.

(** ---------- item instance 2: positional hash (the aggregate is ORDER-SENSITIVE), lazy add ----------
    For the subsequence x_0..x_{n-1} of a subtree, all reduced into [0, hP):
      hsz = n,  hpw = hB^n,  hrp = sum_{i<n} hB^i,  hh = sum_i x_i * hB^(n-1-i).
    Same formulas and the same reductions as [ItemHash] in harness/crates/c03 ([rem_euclid] = [mod] for a
    positive modulus); [hx] and [hmd] are not reduced (they stay below 2^24 in the code, where every product is
    therefore below 2^40).  The modulus is a 16-bit prime on purpose: [mod] on binary [Z] under vm_compute costs
    (bits of the product) x (bits of the modulus), and order-sensitivity needs only hB <> 1.
    The aggregate read from a root is the triple (hh, hpw, hrp); the executor prints hh. *)
Definition hP : Z := 65521.
Definition hB : Z := 30011.
Record ihs := IHs { hx : Z; hsz : Z; hpw : Z; hrp : Z; hh : Z; hmd : Z }.
Definition ihs_osz (o : option ihs) : Z := match o with Some i => hsz i | None => 0 end.
Definition ihs_opw (o : option ihs) : Z := match o with Some i => hpw i | None => 1 end.
Definition ihs_orp (o : option ihs) : Z := match o with Some i => hrp i | None => 0 end.
Definition ihs_oh (o : option ihs) : Z := match o with Some i => hh i | None => 0 end.
Definition ihs_update (x : ihs) (l r : option ihs) : ihs :=
  let bp := (hB * ihs_opw r) mod hP in
  IHs (hx x) (ihs_osz l + 1 + ihs_osz r)
      ((ihs_opw l * bp) mod hP)
      ((ihs_orp l * bp + ihs_opw r + ihs_orp r) mod hP)
      ((ihs_oh l * bp + hx x * ihs_opw r + ihs_oh r) mod hP)
      (hmd x).
Definition ihs_modify (c : Z) (x : ihs) : ihs :=
  IHs (hx x + c) (hsz x) (hpw x) (hrp x) ((hh x + c * hrp x) mod hP) (hmd x + c).
Definition ihs_push (x : ihs) (l r : option ihs) : ihs * option ihs * option ihs :=
  (IHs (hx x) (hsz x) (hpw x) (hrp x) (hh x) 0, option_map (ihs_modify (hmd x)) l, option_map (ihs_modify (hmd x)) r).
Definition ihs_mk (v : Z) : ihs := IHs v 1 (hB mod hP) 1 (v mod hP) 0.
Definition ihs_agg (x : ihs) : Z * Z * Z := (hh x, hpw x, hrp x).
(** the fold the aggregate is supposed to equal, computed directly on the list (Horner evaluation, left to
    right): the positional hash, hB^length, and the positional hash of the all-ones list of that length *)
Definition hashf (xs : list Z) : Z := fold_left (fun a x => (a * hB + x) mod hP) xs 0.
Definition hpowf (xs : list Z) : Z := fold_left (fun a _ => (a * hB) mod hP) xs 1.
Definition hashagg (xs : list Z) : Z * Z * Z := (hashf xs, hpowf xs, hashf (map (fun _ => 1) xs)).
