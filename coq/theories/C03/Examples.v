(** C03 — non-vacuity: every hypothesis of the property theorems is met by concrete instances, and the
    model runs on literals. *)
From Coq Require Import ZArith List Bool Lia.
From RlibV Require Import C03.Model C03.Corr C03.Proofs C03.ProofsInst C03.Properties.
Import ListNotations.
Open Scope Z_scope.

Notation RepZ := (Rep isize ix ism Z.add zsum isz_pending).
Notation RepA := (Rep asize ax asm amod_act zsum iaa_pending).

(** [lawful] is inhabited twice (c03_isz_lawful, c03_iaa_lawful); [Fresh] by every freshly made item *)
Example ex_fresh : Fresh isize ix ism zsum isz_pending (isz_mk 5) /\ Fresh asize ax asm zsum iaa_pending (iaa_mk 5).
Proof. split; [apply isz_fresh|apply iaa_fresh]. Qed.

(** a three-node treap whose root carries a pending "+100": it denotes [105; 107; 111] *)
Definition t3 : @tree isz := Nd (Nd E (isz_mk 5) 10 E) (ISz 107 323 3 100) 3 (Nd E (isz_mk 11) 20 E).
Example ex_rep : RepZ t3 [105; 107; 111].
Proof.
  unfold t3. eapply RepN with (ms := [100]) (ls := [5]) (rs := [11]); try reflexivity.
  - apply (Rep_single isize ix ism Z.add zsum isz_pending (isz_mk 5) 10), isz_fresh.
  - apply (Rep_single isize ix ism Z.add zsum isz_pending (isz_mk 11) 20), isz_fresh.
Qed.

(** the hypotheses of c03_split_at_rep / c03_merge_rep / c03_remove_at on that treap; the pending tag is
    pushed through the split and the removed element is the modified one *)
Example ex_split : exists a b, split_at isz_update isz_push isize t3 None 1 = (a, b) /\ RepZ a [105] /\ RepZ b [107; 111].
Proof.
  destruct (split_at isz_update isz_push isize t3 None 1) as [a b] eqn:E. exists a, b. split; [reflexivity|].
  destruct (c03_split_at_rep _ _ _ _ _ _ _ _ _ _ _ _ _ isz_lawful t3 1 _ a b ex_rep E) as (Ha & Hb & _). auto.
Qed.
Example ex_remove : snd (remove_at isz_update isz_push isize t3 2) = Some (ISz 111 111 1 0).
Proof. vm_compute. reflexivity. Qed.
Example ex_merge : RepZ (merge isz_update isz_push t3 None t3 None) [105; 107; 111; 105; 107; 111].
Proof. apply (c03_merge_rep _ _ _ _ _ _ _ _ _ _ _ _ _ isz_lawful t3 t3 _ _ ex_rep ex_rep). Qed.

(** c03_split_by_rep: a prefix-monotone predicate *)
Example ex_mono : monotone_on (fun e => e <? 107) [105; 107; 111] = true.
Proof. reflexivity. Qed.
Example ex_split_by : exists a b, split_by isz_update isz_push (fun x => ix x <? 107) t3 None = (a, b) /\ RepZ a [105] /\ RepZ b [107; 111].
Proof.
  destruct (split_by isz_update isz_push (fun x => ix x <? 107) t3 None) as [a b] eqn:E. exists a, b. split; [reflexivity|].
  apply (c03_split_by_rep _ _ _ _ _ _ _ _ _ _ _ _ _ isz_lawful (fun e => e <? 107) t3 _ a b ex_rep ex_mono E).
Qed.

(** c03_history on a concrete history with non-commuting modifications: set 9 then add 1 on the middle
    range [1,2] of [1;2;3;4], for the priority stream [5;5;1;9] (ties) — and for any other stream *)
Definition hist : list cop :=
  [CFrom 1; CInsert 0 1 2; CInsert 0 2 3; CInsert 0 3 4;
   CSplitAt 0 3; CSplitAt 0 1; CMod 2 (MSet 9); CMod 2 (MAdd 1); CAgg 2;
   CMerge 1 2; CMerge 1 0; CCollect 0; CRemove 0 1; CFirst 0; CLast 0; CSize 0].
Example ex_hist_fresh : Forall (op_fresh asize ax asm zsum iaa_pending) (map to_op1 hist).
Proof. repeat constructor; apply iaa_fresh. Qed.
Example ex_hist_spec : option_map snd (srun1 hist) =
  Some [OUnit; OUnit; OUnit; OUnit; OUnit; OUnit; OUnit; OUnit; OAgg (Some 20); OUnit; OUnit;
        OList [1; 10; 10; 4]; ORemoved 10; OElem (Some 1); OElem (Some 4); OSize 3].
Proof. vm_compute. reflexivity. Qed.
Example ex_hist_model : forall ps, snd (run1 ps hist) =
  [OUnit; OUnit; OUnit; OUnit; OUnit; OUnit; OUnit; OUnit; OAgg (Some 20); OUnit; OUnit;
   OList [1; 10; 10; 4]; ORemoved 10; OElem (Some 1); OElem (Some 4); OSize 3].
Proof.
  intros ps. destruct (srun1 hist) as [[sst outs]|] eqn:E; [|discriminate (f_equal (option_map snd) E)].
  pose proof ex_hist_spec as S. unfold srun1 in *. rewrite E in S. simpl in S. injection S as S.
  destruct (c03_history _ _ _ _ _ _ _ _ _ _ _ _ _ iaa_lawful ps (map to_op1 hist) sst outs ex_hist_fresh E) as [H _].
  unfold run1. unfold run_outputs in H. rewrite H. exact S.
Qed.
(** the model itself, on literals, for one stream *)
Example ex_hist_run : snd (run1 [5; 5; 1; 9] hist) = snd (run1 [] hist).
Proof. vm_compute. reflexivity. Qed.

(** ---------- the positional-hash item (kind 2): [lawful] is inhabited a third time (c03_ihash_lawful) ---------- *)
Notation RepH := (Rep hsz hx ihs_agg Z.add hashagg ihs_pending).
Example ex_fresh_hash : Fresh hsz hx ihs_agg hashagg ihs_pending (ihs_mk 5).
Proof. apply ihs_fresh. Qed.
(** the aggregate is order-sensitive: the fold of [10;20] is not the fold of [20;10] *)
Example ex_hash_order : hashf [10; 20] = 38046 /\ hashf [20; 10] = 10541 /\ hashagg [10; 20] <> hashagg [20; 10].
Proof. repeat split. discriminate. Qed.
(** merge(singleton 10, singleton 20): whichever root wins, the root aggregate is the hash of [10;20] *)
Example ex_hash_merge : forall p q,
  option_map ihs_agg (item (merge ihs_update ihs_push (single (ihs_mk 10) p) None (single (ihs_mk 20) q) None))
  = Some (hashagg [10; 20]).
Proof.
  intros p q.
  pose proof (c03_merge_rep _ _ _ _ _ _ _ _ _ _ _ _ _ ihs_lawful (single (ihs_mk 10) p) (single (ihs_mk 20) q) [10] [20]
                (Rep_single hsz hx ihs_agg Z.add hashagg ihs_pending (ihs_mk 10) p (ihs_fresh 10))
                (Rep_single hsz hx ihs_agg Z.add hashagg ihs_pending (ihs_mk 20) q (ihs_fresh 20))) as H.
  destruct (c03_first_last_collect_size _ _ _ _ _ _ _ _ _ _ _ _ _ ihs_lawful _ _ H) as (_ & _ & _ & _ & Hagg).
  exact Hagg.
Qed.
(** c03_history on the hash item: build [1;2;3;4], add 5 to the middle range [2;3], read the hash of the middle and of
    the whole; every priority stream gives the outputs of the list specification *)
Definition hhist : list cop :=
  [CFrom 1; CInsert 0 1 2; CInsert 0 2 3; CInsert 0 3 4; CAgg 0;
   CSplitAt 0 3; CSplitAt 0 1; CMod 2 (MAdd 5); CAgg 2; CMerge 1 2; CMerge 1 0; CAgg 0; CCollect 0; CRemove 0 0; CAgg 0].
Example ex_hhist_fresh : Forall (op_fresh hsz hx ihs_agg hashagg ihs_pending) (map to_op2 hhist).
Proof. repeat constructor; apply ihs_fresh. Qed.
Example ex_hhist_spec : spec_outputs 2 hhist =
  Some [OUnit; OUnit; OUnit; OUnit; OAgg (Some (hashf [1; 2; 3; 4])); OUnit; OUnit; OUnit; OAgg (Some (hashf [7; 8]));
        OUnit; OUnit; OAgg (Some (hashf [1; 7; 8; 4])); OList [1; 7; 8; 4]; ORemoved 1; OAgg (Some (hashf [7; 8; 4]))].
Proof. vm_compute. reflexivity. Qed.
Example ex_hhist_model : forall ps, Some (model_outputs 2 ps hhist) = spec_outputs 2 hhist.
Proof.
  intros ps. unfold model_outputs, spec_outputs, run2, srun2.
  destruct (srun hx Z.add hashagg [] (map to_op2 hhist)) as [[sst outs]|] eqn:E; [|discriminate (f_equal (option_map snd) E)].
  destruct (c03_history _ _ _ _ _ _ _ _ _ _ _ _ _ ihs_lawful ps (map to_op2 hhist) sst outs ex_hhist_fresh E) as [H _].
  unfold run_outputs in H. rewrite H. reflexivity.
Qed.
(** the model itself, on literals: two priority streams that build different shapes, same outputs *)
Example ex_hhist_run : model_outputs 2 [5; 5; 1; 9] hhist = model_outputs 2 [4; 3; 2; 1] hhist
  /\ run_final ihs_update ihs_push hsz ihs_modify hx ihs_agg [5; 5; 1; 9] (map to_op2 hhist)
     <> run_final ihs_update ihs_push hsz ihs_modify hx ihs_agg [4; 3; 2; 1] (map to_op2 hhist).
Proof. split; [vm_compute; reflexivity|]. vm_compute. discriminate. Qed.
