(** C03 — non-vacuity: every hypothesis of the property theorems is met by concrete instances, and the
    model runs on literals. *)
From Coq Require Import ZArith List Bool Lia.
From RlibV Require Import C03.Model C03.Corr C03.Proofs C03.ProofsInst C03.Properties.
Import ListNotations.
Open Scope Z_scope.

Notation RepZ := (Rep isize ix ism Z.add zsum isz_pending).
Notation RepA := (Rep asize ax asm amod_act zsum iaa_pending).

(** [lawful] is inhabited twice (c03_isz_lawful, c03_iaa_lawful); [Fresh] by every freshly made item *)
Example ex_fresh : Fresh isize ix ism zsum isz_pending (isz_mk 5) /\ Fresh asize ax asm zsum iaa_pending (iaa_mk 5).
Proof. split; [apply isz_fresh|apply iaa_fresh]. Qed.

(** a three-node treap whose root carries a pending "+100": it denotes [105; 107; 111] *)
Definition t3 : @tree isz := Nd (Nd E (isz_mk 5) 10 E) (ISz 107 323 3 100) 3 (Nd E (isz_mk 11) 20 E).
Example ex_rep : RepZ t3 [105; 107; 111].
Proof.
  unfold t3. eapply RepN with (ms := [100]) (ls := [5]) (rs := [11]); try reflexivity.
  - apply (Rep_single isize ix ism Z.add zsum isz_pending (isz_mk 5) 10), isz_fresh.
  - apply (Rep_single isize ix ism Z.add zsum isz_pending (isz_mk 11) 20), isz_fresh.
Qed.

(** the hypotheses of c03_split_at_rep / c03_merge_rep / c03_remove_at on that treap; the pending tag is
    pushed through the split and the removed element is the modified one *)
Example ex_split : exists a b, split_at isz_update isz_push isize t3 None 1 = (a, b) /\ RepZ a [105] /\ RepZ b [107; 111].
Proof.
  destruct (split_at isz_update isz_push isize t3 None 1) as [a b] eqn:E. exists a, b. split; [reflexivity|].
  destruct (c03_split_at_rep _ _ _ _ _ _ _ _ _ _ _ _ _ isz_lawful t3 1 _ a b ex_rep E) as (Ha & Hb & _). auto.
Qed.
Example ex_remove : snd (remove_at isz_update isz_push isize t3 2) = Some (ISz 111 111 1 0).
Proof. vm_compute. reflexivity. Qed.
Example ex_merge : RepZ (merge isz_update isz_push t3 None t3 None) [105; 107; 111; 105; 107; 111].
Proof. apply (c03_merge_rep _ _ _ _ _ _ _ _ _ _ _ _ _ isz_lawful t3 t3 _ _ ex_rep ex_rep). Qed.

(** c03_split_by_rep: a prefix-monotone predicate *)
Example ex_mono : monotone_on (fun e => e <? 107) [105; 107; 111] = true.
Proof. reflexivity. Qed.
Example ex_split_by : exists a b, split_by isz_update isz_push (fun x => ix x <? 107) t3 None = (a, b) /\ RepZ a [105] /\ RepZ b [107; 111].
Proof.
  destruct (split_by isz_update isz_push (fun x => ix x <? 107) t3 None) as [a b] eqn:E. exists a, b. split; [reflexivity|].
  apply (c03_split_by_rep _ _ _ _ _ _ _ _ _ _ _ _ _ isz_lawful (fun e => e <? 107) t3 _ a b ex_rep ex_mono E).
Qed.

(** c03_history on a concrete history with non-commuting modifications: set 9 then add 1 on the middle
    range [1,2] of [1;2;3;4], for the priority stream [5;5;1;9] (ties) — and for any other stream *)
Definition hist : list cop :=
  [CFrom 1; CInsert 0 1 2; CInsert 0 2 3; CInsert 0 3 4;
   CSplitAt 0 3; CSplitAt 0 1; CMod 2 (MSet 9); CMod 2 (MAdd 1); CAgg 2;
   CMerge 1 2; CMerge 1 0; CCollect 0; CRemove 0 1; CFirst 0; CLast 0; CSize 0].
Example ex_hist_fresh : Forall (op_fresh asize ax asm zsum iaa_pending) (map to_op1 hist).
Proof. repeat constructor; apply iaa_fresh. Qed.
Example ex_hist_spec : option_map snd (srun1 hist) =
  Some [OUnit; OUnit; OUnit; OUnit; OUnit; OUnit; OUnit; OUnit; OAgg (Some 20); OUnit; OUnit;
        OList [1; 10; 10; 4]; ORemoved 10; OElem (Some 1); OElem (Some 4); OSize 3].
Proof. vm_compute. reflexivity. Qed.
Example ex_hist_model : forall ps, snd (run1 ps hist) =
  [OUnit; OUnit; OUnit; OUnit; OUnit; OUnit; OUnit; OUnit; OAgg (Some 20); OUnit; OUnit;
   OList [1; 10; 10; 4]; ORemoved 10; OElem (Some 1); OElem (Some 4); OSize 3].
Proof.
  intros ps. destruct (srun1 hist) as [[sst outs]|] eqn:E; [|discriminate (f_equal (option_map snd) E)].
  pose proof ex_hist_spec as S. unfold srun1 in *. rewrite E in S. simpl in S. injection S as S.
  destruct (c03_history _ _ _ _ _ _ _ _ _ _ _ _ _ iaa_lawful ps (map to_op1 hist) sst outs ex_hist_fresh E) as [H _].
  unfold run1. unfold run_outputs in H. rewrite H. exact S.
Qed.
(** the model itself, on literals, for one stream *)
Example ex_hist_run : snd (run1 [5; 5; 1; 9] hist) = snd (run1 [] hist).
Proof. vm_compute. reflexivity. Qed.
