(** C03 — non-vacuity: every hypothesis of the property theorems is met by concrete instances, and the
    model runs on literals. *)
From Coq Require Import ZArith List Bool Lia.
From RlibV Require Import C03.Model C03.Corr C03.Proofs C03.ProofsInst C03.ProofsCorr C03.Properties.
Import ListNotations.
Open Scope Z_scope.

Notation RepZ := (Rep isize ix ism Z.add zsum isz_pending).
Notation RepA := (Rep asize ax asm amod_act zsum iaa_pending).

(** [lawful] is inhabited twice (c03_isz_lawful, c03_iaa_lawful); [Fresh] by every freshly made item *)
Example ex_fresh : Fresh isize ix ism zsum isz_pending (isz_mk 5) /\ Fresh asize ax asm zsum iaa_pending (iaa_mk 5).
Proof. split; [apply isz_fresh|apply iaa_fresh]. Qed.

(** a three-node treap whose root carries a pending "+100": it denotes [105; 107; 111] *)
Definition t3 : @tree isz := Nd (Nd E (isz_mk 5) 10 E) (ISz 107 323 3 100) 3 (Nd E (isz_mk 11) 20 E).
Example ex_rep : RepZ t3 [105; 107; 111].
Proof.
  unfold t3. eapply RepN with (ms := [100]) (ls := [5]) (rs := [11]); try reflexivity.
  - apply (Rep_single isize ix ism Z.add zsum isz_pending (isz_mk 5) 10), Fresh_Detached, isz_fresh.
  - apply (Rep_single isize ix ism Z.add zsum isz_pending (isz_mk 11) 20), Fresh_Detached, isz_fresh.
Qed.

(** the hypotheses of c03_split_at_rep / c03_merge_rep / c03_remove_at on that treap; the pending tag is
    pushed through the split and the removed element is the modified one *)
Example ex_split : exists a b, split_at isz_update isz_push isize t3 None 1 = (a, b) /\ RepZ a [105] /\ RepZ b [107; 111].
Proof.
  destruct (split_at isz_update isz_push isize t3 None 1) as [a b] eqn:E. exists a, b. split; [reflexivity|].
  destruct (c03_split_at_rep _ _ _ _ _ _ _ _ _ _ _ _ _ isz_lawful t3 1 _ a b ex_rep E) as (Ha & Hb & _). auto.
Qed.
Example ex_remove : snd (remove_at isz_update isz_push isize t3 2) = Some (ISz 111 111 1 0).
Proof. vm_compute. reflexivity. Qed.
Example ex_merge : RepZ (merge isz_update isz_push t3 None t3 None) [105; 107; 111; 105; 107; 111].
Proof. apply (c03_merge_rep _ _ _ _ _ _ _ _ _ _ _ _ _ isz_lawful t3 t3 _ _ ex_rep ex_rep). Qed.

(** c03_split_by_rep: a prefix-monotone predicate *)
Example ex_mono : monotone_on (fun e => e <? 107) [105; 107; 111] = true.
Proof. reflexivity. Qed.
Example ex_split_by : exists a b, split_by isz_update isz_push (fun x => ix x <? 107) t3 None = (a, b) /\ RepZ a [105] /\ RepZ b [107; 111].
Proof.
  destruct (split_by isz_update isz_push (fun x => ix x <? 107) t3 None) as [a b] eqn:E. exists a, b. split; [reflexivity|].
  apply (c03_split_by_rep _ _ _ _ _ _ _ _ _ _ _ _ _ isz_lawful (fun e => e <? 107) t3 _ a b ex_rep ex_mono E).
Qed.

(** c03_history on a concrete history with non-commuting modifications: set 9 then add 1 on the middle
    range [1,2] of [1;2;3;4], for the priority stream [5;5;1;9] (ties) — and for any other stream *)
Definition hist : list cop :=
  [CFrom 1 []; CInsert 0 1 2 []; CInsert 0 2 3 []; CInsert 0 3 4 [];
   CSplitAt 0 3; CSplitAt 0 1; CMod 2 (MSet 9); CMod 2 (MAdd 1); CAgg 2;
   CMerge 1 2; CMerge 1 0; CCollect 0; CRemove 0 1; CFirst 0; CLast 0; CSize 0].
Example ex_hist_fresh : Forall (op_detached asize ax asm zsum iaa_pending) (map to_op1 hist).
Proof. repeat constructor; apply Fresh_Detached, iaa_fresh. Qed.
Example ex_hist_spec : option_map snd (srun1 hist) =
  Some [OUnit; OUnit; OUnit; OUnit; OUnit; OUnit; OUnit; OUnit; OAgg (Some 20); OUnit; OUnit;
        OList [1; 10; 10; 4]; ORemoved 10; OElem (Some 1); OElem (Some 4); OSize 3].
Proof. vm_compute. reflexivity. Qed.
Example ex_hist_model : forall ps, map (out_elem ax) (snd (run1 ps hist)) =
  [OUnit; OUnit; OUnit; OUnit; OUnit; OUnit; OUnit; OUnit; OAgg (Some 20); OUnit; OUnit;
   OList [1; 10; 10; 4]; ORemoved 10; OElem (Some 1); OElem (Some 4); OSize 3]
  /\ Forall (out_fresh asize ax asm zsum iaa_pending) (snd (run1 ps hist)).
Proof.
  intros ps. destruct (srun1 hist) as [[sst outs]|] eqn:E; [|discriminate (f_equal (option_map snd) E)].
  pose proof ex_hist_spec as S. unfold srun1 in *. rewrite E in S. simpl in S. injection S as S.
  destruct (c03_history _ _ _ _ _ _ _ _ _ _ _ _ _ iaa_lawful ps (map to_op1 hist) sst outs ex_hist_fresh E) as (H & Hf & _).
  unfold run1. unfold run_outputs in H, Hf. rewrite H. split; [exact S|exact Hf].
Qed.
(** the model itself, on literals, for one stream *)
Example ex_hist_run : snd (run1 [5; 5; 1; 9] hist) = snd (run1 [] hist).
Proof. vm_compute. reflexivity. Qed.

(** ---------- the positional-hash item (kind 2): [lawful] is inhabited a third time (c03_ihash_lawful) ---------- *)
Notation RepH := (Rep hsz hx ihs_agg Z.add hashagg ihs_pending).
Example ex_fresh_hash : Fresh hsz hx ihs_agg hashagg ihs_pending (ihs_mk 5).
Proof. apply ihs_fresh. Qed.
(** the aggregate is order-sensitive: the fold of [10;20] is not the fold of [20;10] *)
Example ex_hash_order : hashf [10; 20] = 38046 /\ hashf [20; 10] = 10541 /\ hashagg [10; 20] <> hashagg [20; 10].
Proof. repeat split. discriminate. Qed.
(** merge(singleton 10, singleton 20): whichever root wins, the root aggregate is the hash of [10;20] *)
Example ex_hash_merge : forall p q,
  option_map ihs_agg (item (merge ihs_update ihs_push (single (ihs_mk 10) p) None (single (ihs_mk 20) q) None))
  = Some (hashagg [10; 20]).
Proof.
  intros p q.
  pose proof (c03_merge_rep _ _ _ _ _ _ _ _ _ _ _ _ _ ihs_lawful (single (ihs_mk 10) p) (single (ihs_mk 20) q) [10] [20]
                (Rep_single hsz hx ihs_agg Z.add hashagg ihs_pending (ihs_mk 10) p (Fresh_Detached _ _ _ _ _ _ (ihs_fresh 10)))
                (Rep_single hsz hx ihs_agg Z.add hashagg ihs_pending (ihs_mk 20) q (Fresh_Detached _ _ _ _ _ _ (ihs_fresh 20)))) as H.
  destruct (c03_first_last_collect_size _ _ _ _ _ _ _ _ _ _ _ _ _ ihs_lawful _ _ H) as (_ & _ & _ & _ & Hagg).
  exact Hagg.
Qed.
(** c03_history on the hash item: build [1;2;3;4], add 5 to the middle range [2;3], read the hash of the middle and of
    the whole; every priority stream gives the outputs of the list specification *)
Definition hhist : list cop :=
  [CFrom 1 []; CInsert 0 1 2 []; CInsert 0 2 3 []; CInsert 0 3 4 []; CAgg 0;
   CSplitAt 0 3; CSplitAt 0 1; CMod 2 (MAdd 5); CAgg 2; CMerge 1 2; CMerge 1 0; CAgg 0; CCollect 0; CRemove 0 0; CAgg 0].
Example ex_hhist_fresh : Forall (op_detached hsz hx ihs_agg hashagg ihs_pending) (map to_op2 hhist).
Proof. repeat constructor; apply Fresh_Detached, ihs_fresh. Qed.
Example ex_hhist_spec : spec_outputs 2 hhist =
  Some [OUnit; OUnit; OUnit; OUnit; OAgg (Some (hashf [1; 2; 3; 4])); OUnit; OUnit; OUnit; OAgg (Some (hashf [7; 8]));
        OUnit; OUnit; OAgg (Some (hashf [1; 7; 8; 4])); OList [1; 7; 8; 4]; ORemoved 1; OAgg (Some (hashf [7; 8; 4]))].
Proof. vm_compute. reflexivity. Qed.
Example ex_hhist_model : forall ps,
  Some (map (out_map idZ fst3) (map (out_elem hx) (snd (run2 ps hhist)))) = spec_outputs 2 hhist.
Proof.
  intros ps. unfold spec_outputs, run2, srun2.
  destruct (srun hx Z.add hashagg [] (map to_op2 hhist)) as [[sst outs]|] eqn:E; [|discriminate (f_equal (option_map snd) E)].
  destruct (c03_history _ _ _ _ _ _ _ _ _ _ _ _ _ ihs_lawful ps (map to_op2 hhist) sst outs ex_hhist_fresh E) as (H & _).
  unfold run_outputs in H. rewrite H. reflexivity.
Qed.
(** the model itself, on literals: two priority streams that build different shapes, same outputs *)
Example ex_hhist_run : model_outputs 2 [5; 5; 1; 9] hhist = model_outputs 2 [4; 3; 2; 1] hhist
  /\ run_final ihs_update ihs_push hsz ihs_modify hx ihs_agg [5; 5; 1; 9] (map to_op2 hhist)
     <> run_final ihs_update ihs_push hsz ihs_modify hx ihs_agg [4; 3; 2; 1] (map to_op2 hhist).
Proof. split; [vm_compute; reflexivity|]. vm_compute. discriminate. Qed.

(** ---------- Move: remove_at followed by insert_at of the ITEM OBJECT that remove_at returned ----------
    Build [10;20;30;40], attach +1 to the root, move position 1 to the end, observe; split, move across two treaps;
    a move whose remove_at is out of range (panic, nothing inserted) and a move naming a treap that is not live. *)
Definition mhist : list cop :=
  [CFrom 10 []; CInsert 0 1 20 []; CInsert 0 2 30 []; CInsert 0 3 40 []; CMod 0 (MAdd 1);
   CMove 0 1 0 3 []; CSize 0; CAgg 0; CCollect 0; CSplitAt 0 2; CCollect 0; CCollect 1;
   CFrom 5 []; CMove 0 0 2 1 []; CCollect 2; CSize 2; CSize 0; CMove 0 7 2 0 []; CMove 5 0 0 0 []].
Example ex_mhist_fresh : Forall (op_detached isize ix ism zsum isz_pending) (map to_op0 mhist).
Proof. repeat constructor; apply Fresh_Detached, isz_fresh. Qed.
Example ex_mhist_spec : spec_outputs 0 mhist =
  Some [OUnit; OUnit; OUnit; OUnit; OUnit; ORemoved 21; OSize 4; OAgg (Some 104); OList [11; 31; 41; 21]; OUnit;
        OList [11; 31]; OList [41; 21]; OUnit; ORemoved 11; OList [5; 11]; OSize 2; OSize 1; OPanic; OInvalid].
Proof. vm_compute. reflexivity. Qed.
(** for EVERY priority stream the model gives these outputs, and every item that remove_at handed out is Fresh *)
Example ex_mhist_model : forall ps, Some (map (out_elem ix) (snd (run0 ps mhist))) = spec_outputs 0 mhist
  /\ Forall (out_fresh isize ix ism zsum isz_pending) (snd (run0 ps mhist)).
Proof.
  intros ps. unfold spec_outputs, run0, srun0.
  destruct (srun ix Z.add zsum [] (map to_op0 mhist)) as [[sst outs]|] eqn:E; [|discriminate (f_equal (option_map snd) E)].
  destruct (c03_history _ _ _ _ _ _ _ _ _ _ _ _ _ isz_lawful ps (map to_op0 mhist) sst outs ex_mhist_fresh E) as (H & Hf & _).
  unfold run_outputs in H, Hf. rewrite H. split; [reflexivity|exact Hf].
Qed.
(** the model on literals, priorities [2;0;1;3]: the node removed by the first move is the ROOT, with two children
    and the pending +1; the item it returns is complete and clean (element 21, aggregate 21, size 1, nothing pending) *)
Example ex_mhist_shape :
  fst (fst (run0 [2; 0; 1; 3] [CFrom 10 []; CInsert 0 1 20 []; CInsert 0 2 30 []; CInsert 0 3 40 []; CMod 0 (MAdd 1)]))
  = [Nd (Nd E (ISz 10 10 1 0) 2 E) (ISz 21 104 4 1) 0 (Nd E (ISz 30 70 2 0) 1 (Nd E (ISz 40 40 1 0) 3 E))].
Proof. vm_compute. reflexivity. Qed.
Example ex_mhist_run : model_outputs 0 [2; 0; 1; 3; 0; 9; 0] mhist =
  [OUnit; OUnit; OUnit; OUnit; OUnit; ORemoved (RItem 21 21 1 0 0 0); OSize 4; OAgg (Some 104); OList [11; 31; 41; 21]; OUnit;
   OList [11; 31]; OList [41; 21]; OUnit; ORemoved (RItem 11 11 1 0 0 0); OList [5; 11]; OSize 2; OSize 1; OPanic; OInvalid]
  /\ nth 5 (model_outputs 2 [2; 0; 1; 3; 0; 9; 0] mhist) OUnit = ORemoved (RItem 21 21 1 0 30011 1).
Proof. split; vm_compute; reflexivity. Qed.
(** c03_remove_at, third part: the hypothesis is met by t3 (pending +100 at the root), the returned item is Fresh *)
Example ex_remove_fresh : Fresh isize ix ism zsum isz_pending (ISz 111 111 1 0).
Proof.
  destruct (remove_at isz_update isz_push isize t3 2) as [t' res] eqn:E.
  destruct (c03_remove_at _ _ _ _ _ _ _ _ _ _ _ _ _ isz_lawful t3 2 _ t' res ex_rep E) as (_ & _ & Hf).
  apply Hf. pose proof ex_remove as R. rewrite E in R. exact R.
Qed.
(** [spec_check] rejects a returned item that still carries its former subtree's aggregate and size (what an
    unlink-without-update remove_at returns for [10;20], position 1 being the root), and accepts the clean one *)
Example ex_spec_rejects_stale :
  spec_check (Case 0 [CFrom 10 []; CInsert 0 1 20 []; CRemove 0 1] [5; 1] (Some [OUnit; OUnit; ORemoved (RItem 20 30 2 0 0 0)])) = false
  /\ spec_check (Case 0 [CFrom 10 []; CInsert 0 1 20 []; CRemove 0 1] [5; 1] (Some [OUnit; OUnit; ORemoved (RItem 20 20 1 0 0 0)])) = true
  /\ model_check (Case 0 [CFrom 10 []; CInsert 0 1 20 []; CRemove 0 1] [5; 1] (Some [OUnit; OUnit; ORemoved (RItem 20 20 1 0 0 0)])) = true.
Proof. repeat split; vm_compute; reflexivity. Qed.

(** ---------- items that enter a treap WITH a pending tag (pre-modified fresh item; move-and-update) ---------- *)
(** [Detached] (the hypothesis of c03_insert_at and of c03_history on FromItem / InsertAt) is met by a freshly made
    item that the caller modified — "set 9, then add 1" is pending on it — and such an item is NOT [Fresh] *)
Definition tagged : iaa := iaa_modify (MAdd 1) (iaa_modify (MSet 9) (iaa_mk 5)).
Example ex_detached : Detached asize ax asm zsum iaa_pending tagged /\ ~ Fresh asize ax asm zsum iaa_pending tagged
  /\ tagged = IAA 10 10 1 (Some 9) 1.
Proof.
  split; [|split; [|reflexivity]].
  - apply (Detached_mods _ _ _ _ _ _ _ _ _ iaa_lawful [MSet 9; MAdd 1] (iaa_mk 5)), Fresh_Detached, iaa_fresh.
  - intros (Hp & _). specialize (Hp 0). vm_compute in Hp. discriminate.
Qed.
(** c03_insert_at with that item: whatever the priority of the new node (it may become the root and get both halves
    as children: its tag must not reach them), the sequence gains exactly the item's element *)
Example ex_insert_tagged : forall p, RepA (insert_at iaa_update iaa_push asize
      (Nd (Nd E (iaa_mk 1) 10 E) (IAA 2 6 3 None 0) 3 (Nd E (iaa_mk 3) 20 E)) 1 tagged p) [1; 10; 2; 3].
Proof.
  intros p.
  assert (H : RepA (Nd (Nd E (iaa_mk 1) 10 E) (IAA 2 6 3 None 0) 3 (Nd E (iaa_mk 3) 20 E)) [1; 2; 3]).
  { eapply RepN with (ms := []) (ls := [1]) (rs := [3]); try reflexivity.
    - intros e. unfold tagf, acts. simpl. lia.
    - apply (Rep_single asize ax asm amod_act zsum iaa_pending (iaa_mk 1) 10), Fresh_Detached, iaa_fresh.
    - apply (Rep_single asize ax asm amod_act zsum iaa_pending (iaa_mk 3) 20), Fresh_Detached, iaa_fresh. }
  exact (c03_insert_at _ _ _ _ _ _ _ _ _ _ _ _ _ iaa_lawful _ 1 tagged p _ H (proj1 ex_detached)).
Qed.
(** a history with a pre-modified item in insert_at and in from_item, and a move-and-update *)
Definition thist : list cop :=
  [CFrom 1 []; CInsert 0 1 2 []; CInsert 0 2 3 []; CInsert 0 1 50 [MSet 9; MAdd 1]; CCollect 0; CAgg 0;
   CMove 0 0 0 2 [MAdd 5]; CCollect 0; CFrom 7 [MAdd 3]; CMerge 1 0; CCollect 0; CAgg 0; CMod 0 (MAdd 1); CRemove 0 3].
Example ex_thist_spec : spec_outputs 1 thist =
  Some [OUnit; OUnit; OUnit; OUnit; OList [1; 10; 2; 3]; OAgg (Some 16); ORemoved 1; OList [10; 2; 6; 3];
        OUnit; OUnit; OList [10; 10; 2; 6; 3]; OAgg (Some 31); OUnit; ORemoved 7].
Proof. vm_compute. reflexivity. Qed.
(** for EVERY priority stream the model gives the outputs of the list specification (c03_history; its hypothesis
    [op_detached] holds for every concrete history: conv_detached) *)
Example ex_thist_model : forall ps, Some (map (out_elem ax) (snd (run1 ps thist))) = spec_outputs 1 thist
  /\ Forall (out_fresh asize ax asm zsum iaa_pending) (snd (run1 ps thist)).
Proof.
  intros ps. unfold spec_outputs, run1, srun1.
  destruct (srun ax amod_act zsum [] (map to_op1 thist)) as [[sst outs]|] eqn:E; [|discriminate (f_equal (option_map snd) E)].
  destruct (c03_history _ _ _ _ _ _ _ _ _ _ _ _ _ iaa_lawful ps (map to_op1 thist) sst outs
              (conv_detached _ _ _ _ _ _ _ _ _ _ _ iaa_lawful iaa_fresh thist) E) as (H & Hf & _).
  unfold run_outputs in H, Hf. rewrite H. split; [reflexivity|exact Hf].
Qed.
(** the model on literals, priorities [5; 6; 7; 1; ...]: the node of the tagged item (priority 1) becomes the ROOT
    with both halves as children and its tag has been pushed (to nothing) before they were attached; the item that
    the move hands to insert_at carries "+5" *)
Example ex_thist_shape :
  fst (fst (run1 [5; 6; 7; 1] [CFrom 1 []; CInsert 0 1 2 []; CInsert 0 2 3 []; CInsert 0 1 50 [MSet 9; MAdd 1]]))
  = [Nd (Nd E (IAA 1 1 1 None 0) 5 E) (IAA 10 16 4 None 0) 1 (Nd E (IAA 2 5 2 None 0) 6 (Nd E (IAA 3 3 1 None 0) 7 E))].
Proof. vm_compute. reflexivity. Qed.
Example ex_thist_run : model_outputs 1 [5; 6; 7; 1; 0; 9] thist =
  [OUnit; OUnit; OUnit; OUnit; OList [1; 10; 2; 3]; OAgg (Some 16); ORemoved (RItem 1 1 1 0 0 0); OList [10; 2; 6; 3];
   OUnit; OUnit; OList [10; 10; 2; 6; 3]; OAgg (Some 31); OUnit; ORemoved (RItem 7 7 1 0 0 0)].
Proof. vm_compute. reflexivity. Qed.
(** [spec_check] rejects what an insert_at that hangs the halves under the new node WITHOUT pushing the node first
    would show (the "+7" of the inserted item reaches its neighbours), and accepts the right answer; a merge that
    drops a node of priority 2^32-1 next to an empty operand is rejected too *)
Example ex_spec_rejects_unpushed :
  spec_check (Case 0 [CFrom 1 []; CInsert 0 1 2 []; CInsert 0 1 50 [MAdd 7]; CCollect 0] [5; 6; 1]
                (Some [OUnit; OUnit; OUnit; OList [8; 57; 9]])) = false
  /\ spec_check (Case 0 [CFrom 1 []; CInsert 0 1 2 []; CInsert 0 1 50 [MAdd 7]; CCollect 0] [5; 6; 1]
                (Some [OUnit; OUnit; OUnit; OList [1; 57; 2]])) = true
  /\ model_check (Case 0 [CFrom 1 []; CInsert 0 1 2 []; CInsert 0 1 50 [MAdd 7]; CCollect 0] [5; 6; 1]
                (Some [OUnit; OUnit; OUnit; OList [1; 57; 2]])) = true
  /\ spec_check (Case 0 [CFrom 1 []; CNew; CMerge 0 1; CCollect 0; CSize 0] [4294967295]
                (Some [OUnit; OUnit; OUnit; OList []; OSize 0])) = false
  /\ model_check (Case 0 [CFrom 1 []; CNew; CMerge 0 1; CCollect 0; CSize 0] [4294967295]
                (Some [OUnit; OUnit; OUnit; OList [1]; OSize 1])) = true.
Proof. repeat split; vm_compute; reflexivity. Qed.
