(** C14 — the const-generic generator and the fast state jump: [Rng] is an instance of the generic
    model, [lcg_jump] is the iterated state transition, outputs are 64-bit words.  (The histories of
    mixed operations built on them are treated in ProofsCorr.v.) *)
From Coq Require Import ZArith NArith List Bool Lia Permutation.
From Coq Require Import Floats.SpecFloat.
From RlibV Require Import Common.Batch C14.Model C14.Corr C14.Spec.
From RlibV Require Import C14.ProofsInt C14.ProofsLcg C14.ProofsShuffle C14.ProofsFloat C14.ProofsValid.
Import ListNotations.
Open Scope Z_scope.

Local Notation M64 := (2 ^ 64).

(** * [Rng] is the instance (lcg_A, lcg_C) of the generic generator *)
Theorem generic_instance :
  forall st, glcg_step lcg_A lcg_C st = lcg_step st /\ gnext_raw lcg_A lcg_C st = next_raw st
             /\ gnext lcg_A lcg_C st = rng_next st.
Proof. intros st. repeat split. Qed.

Lemma glcg_step_range a c st : 0 <= glcg_step a c st < M64.
Proof. unfold glcg_step. apply Z.mod_pos_bound. reflexivity. Qed.

Lemma gnext_raw_range a c st : 0 <= snd (gnext_raw a c st) < M64.
Proof. unfold gnext_raw. cbn [snd]. apply out_mix_range. apply glcg_step_range. Qed.

Lemma gnext_total a c : forall s, gnext a c s <> None.
Proof. intros s. unfold gnext. discriminate. Qed.

(** * the jump *)
Lemma aff_app_step a c x : aff_app (a, c) x = glcg_step a c x.
Proof. reflexivity. Qed.

Lemma aff_comp_app f g x : aff_app (aff_comp f g) x = aff_app g (aff_app f x).
Proof.
  destruct f as [a1 c1], g as [a2 c2]. unfold aff_app, aff_comp. cbn [fst snd].
  rewrite Z.add_mod_idemp_r by lia.
  rewrite <- Z.add_mod_idemp_l by lia. rewrite Z.mul_mod_idemp_r by lia. rewrite Z.add_mod_idemp_l by lia.
  symmetry.
  rewrite <- Z.add_mod_idemp_l by lia. rewrite Z.mul_mod_idemp_l by lia. rewrite Z.add_mod_idemp_l by lia.
  f_equal. ring.
Qed.

Lemma aff_pow_iter f p x : aff_app (aff_pow f p) x = iter_n (aff_app f) (Pos.to_nat p) x.
Proof.
  revert x. induction p as [q IH|q IH|]; intros x; cbn [aff_pow].
  - rewrite !aff_comp_app, !IH.
    rewrite Pos2Nat.inj_xI. cbn [iter_n].
    replace (2 * Pos.to_nat q)%nat with (Pos.to_nat q + Pos.to_nat q)%nat by lia.
    now rewrite iter_n_add.
  - rewrite aff_comp_app, !IH. rewrite Pos2Nat.inj_xO.
    replace (2 * Pos.to_nat q)%nat with (Pos.to_nat q + Pos.to_nat q)%nat by lia.
    now rewrite iter_n_add.
  - reflexivity.
Qed.

Lemma iter_n_ext {X} (f g : X -> X) : (forall x, f x = g x) -> forall n x, iter_n f n x = iter_n g n x.
Proof. intros H n. induction n as [|n IH]; intros x; cbn [iter_n]; [reflexivity|]. now rewrite H, IH. Qed.

Theorem jump_is_iterated_step :
  forall (a c : Z) (n : N) (st : Z), lcg_jump a c n st = iter_n (glcg_step a c) (N.to_nat n) st.
Proof.
  intros a c [|p] st; cbn [lcg_jump N.to_nat iter_n]; [reflexivity|].
  rewrite aff_pow_iter. apply iter_n_ext. intros x. apply aff_app_step.
Qed.

(** for [Rng]: the jump is [state_after] *)
Corollary jump_state_after n st : lcg_jump lcg_A lcg_C n st = state_after (N.to_nat n) st.
Proof. rewrite jump_is_iterated_step. reflexivity. Qed.
