(** C14 — correspondence cases: what the implementation returned on an input, compared with the
    model ([model_check]) and with the property itself ([spec_check]: range membership,
    reachability, permutation, aperiodicity — decided on the observation, without the model). *)
From Coq Require Import ZArith NArith List Bool.
From Coq Require Import Floats.SpecFloat.
From Coq Require Import Numbers.Cyclic.Int63.Uint63.
From RlibV Require Import Common.Batch C14.Model.
Import ListNotations.
Open Scope Z_scope.

(** Large literals in generated batch files: a 64-bit decimal [Z] literal costs ~1.5 ms to
    elaborate (a 64-constructor term), a primitive-integer literal 0.1 ms.  The printer writes
    [U n] (n < 2^62), [W hi lo] (= hi * 2^32 + lo) and their negations; they are only ever
    evaluated ([vm_compute]), no theorem mentions them. *)
Definition U (n : int) : Z := Uint63.to_Z n.
Definition Un (n : int) : Z := - Uint63.to_Z n.
Definition W (hi lo : int) : Z := Uint63.to_Z hi * 4294967296 + Uint63.to_Z lo.
Definition Wn (hi lo : int) : Z := - (Uint63.to_Z hi * 4294967296 + Uint63.to_Z lo).
Arguments U n%uint63.
Arguments Un n%uint63.
Arguments W (hi lo)%uint63.
Arguments Wn (hi lo)%uint63.

Inductive case :=
(** [gen_from_u64] of one range on several raws: (raw, result or panic) *)
| CInt (sg : bool) (w : Z) (f : form) (obs : list (Z * option Z))
(** results for raws 0,1,..,k-1 (k = length of [obs]) of a small range: reachability *)
| CReach (sg : bool) (w : Z) (f : form) (obs : list (option Z))
(** f64 range: bit patterns of start, end; raw; bit pattern of the result or panic *)
| CFloat (s e raw : Z) (r : option Z)
(** [next_raw] stream of Rng::from_seed(seed) *)
| CRaw (seed : Z) (obs : list Z)
(** [next(range)] stream of Rng::from_seed(seed), n draws; panic = None *)
| CStream (sg : bool) (w : Z) (f : form) (seed : Z) (n : N) (r : option (list Z))
(** k raw draws, then [let h = g] (Copy); the next raws of g and of h *)
| CCopy (seed : Z) (k : N) (a b : list Z)
(** [shuffle] driven by a scripted source replaying [raws] *)
| CShufS (raws : list Z) (v : list Z) (r : option (list Z))
(** [shuffle] of [0..n) driven by Rng::from_seed(seed), for each seed *)
| CShufR (n : N) (obs : list (Z * list Z))
(** the same, where the set of seeds is meant to reach every order of [0..n) *)
| CShufAll (n : N) (obs : list (Z * list Z))
(** a history of different operations (draws of several types and forms, f64 draws, raw words, long
    silent runs, shuffles, copies) on ONE generator LinearCongruentialGenerator64<a, c>::from_seed(seed);
    one observation per operation, ending at the first panic ([None]) *)
| CMix (a c seed : Z) (ops : list mop) (obs : list (option (list Z))).

Definition ozeqb := oeqb Z.eqb.
Definition lzeqb := leqb Z.eqb.
Definition zseq (n : N) : list Z := map Z.of_nat (seq 0 (N.to_nat n)).

(** * implementation = model *)
Definition model_check (c : case) : bool :=
  match c with
  | CInt sg w f obs => forallb (fun p => ozeqb (gen sg w f (fst p)) (snd p)) obs
  | CReach sg w f obs =>
      leqb ozeqb (map (fun k => gen sg w f (Z.of_nat k)) (seq 0 (length obs))) obs
  | CFloat s e raw r =>
      ozeqb (option_map bits_of_sf (float_range (sf_of_bits s) (sf_of_bits e) raw)) r
  | CRaw seed obs => oeqb lzeqb (raw_stream seed (length obs)) (Some obs)
  | CStream sg w f seed n r => oeqb lzeqb (stream sg w f seed (N.to_nat n)) r
  | CCopy seed k a b =>
      match raws rng_next (N.to_nat k) (from_seed seed) with
      | Some (st, _) =>
          oeqb lzeqb (opt_snd (raws rng_next (length a) st)) (Some a)
          && oeqb lzeqb (opt_snd (raws rng_next (length b) st)) (Some b)
      | None => false
      end
  | CShufS rs v r => oeqb lzeqb (shuffle_script rs v) r
  | CShufR n obs | CShufAll n obs =>
      forallb (fun p => oeqb lzeqb (shuffle_rng (fst p) (zseq n)) (Some (snd p))) obs
  | CMix a c seed ops obs => leqb (oeqb lzeqb) (mix_run a c ops (from_seed seed)) obs
  end.

(** * the property, decided on the observation *)
(** value set of a range form as an interval [lo, hi] (inclusive); empty iff hi < lo.
    [..e] and [..=e] are sampled from 0 (as the repository's tests expect), so their reachable
    set is [0, e) resp. [0, e]; membership for them only asks x < e resp. x <= e. *)
Definition form_lo (sg : bool) (w : Z) (f : form) : Z :=
  match f with FRange s _ | FIncl s _ => s | FTo _ | FToIncl _ => 0 | FFull => tmin sg w end.
Definition form_hi (sg : bool) (w : Z) (f : form) : Z :=
  match f with FRange _ e | FTo e => e - 1 | FIncl _ e | FToIncl e => e | FFull => tmax sg w end.
Definition form_member_lo (sg : bool) (w : Z) (f : form) : Z :=
  match f with FTo _ | FToIncl _ => tmin sg w | _ => form_lo sg w f end.
Definition form_nonempty (sg : bool) (w : Z) (f : form) : bool := form_lo sg w f <=? form_hi sg w f.
Definition in_form (sg : bool) (w : Z) (f : form) (x : Z) : bool :=
  in_ty sg w x && (form_member_lo sg w f <=? x) && (x <=? form_hi sg w f).

Definition spec_int (sg : bool) (w : Z) (f : form) (r : option Z) : bool :=
  match r with
  | Some x => in_form sg w f x
  | None => negb (form_nonempty sg w f)     (* only an empty range may panic *)
  end.

(** no period p in [1, n/4] (checked on streams of at least 64 draws from >= 2 values) *)
Fixpoint differs_at_lag (l m : list Z) : bool :=
  match l, m with
  | a :: l', b :: m' => negb (a =? b) || differs_at_lag l' m'
  | _, _ => false
  end.
Definition aperiodic (l : list Z) : bool :=
  let n := length l in
  forallb (fun p => differs_at_lag l (skipn p l)) (seq 1 (Nat.div n 4)).

(** insertion sort on Z, for the permutation check *)
Fixpoint zinsert (x : Z) (l : list Z) : list Z :=
  match l with [] => [x] | y :: t => if x <=? y then x :: l else y :: zinsert x t end.
Definition zsort (l : list Z) : list Z := fold_right zinsert [] l.
Definition is_perm (a b : list Z) : bool := lzeqb (zsort a) (zsort b).

(** all orders of a list *)
Fixpoint ins_all {X} (a : X) (l : list X) : list (list X) :=
  match l with
  | [] => [[a]]
  | h :: t => (a :: l) :: map (cons h) (ins_all a t)
  end.
Fixpoint perms {X} (l : list X) : list (list X) :=
  match l with
  | [] => [[]]
  | a :: t => flat_map (ins_all a) (perms t)
  end.

(** one operation of a history: what the property says about its observation *)
Definition spec_u64 (r : Z) : bool := (0 <=? r) && (r <? 2 ^ 64).
Definition spec_mop (o : mop) (r : option (list Z)) : bool :=
  match o, r with
  | MDraw sg w f, Some [x] => in_form sg w f x
  | MDraw sg w f, None => negb (form_nonempty sg w f)       (* only an empty range may panic *)
  | MFloat s e, Some [x] =>
      let fs := sf_of_bits s in let fe := sf_of_bits e in
      SFltb fs fe && SFleb fs (sf_of_bits x) && SFltb (sf_of_bits x) fe
  | MFloat s e, None => negb (SFltb (sf_of_bits s) (sf_of_bits e))
  | MRaw, Some [x] | MSkip _, Some [x] | MCopy, Some [x] => spec_u64 x
  | MShuf n, Some l => is_perm l (zseq n)
  | _, _ => false
  end.
(** one observation per operation; a panic ends the history *)
Fixpoint spec_mix (ops : list mop) (obs : list (option (list Z))) : bool :=
  match ops, obs with
  | [], [] => true
  | o :: _, [None] => spec_mop o None
  | o :: ops', Some l :: obs' => spec_mop o (Some l) && spec_mix ops' obs'
  | _, _ => false
  end.
(** two consecutive shuffles of equally long slices (>= 10 elements: 10! > 3.6e6 orders) by one
    generator give different orders: the second shuffle continues the stream, it does not replay it.
    Asked of the concrete generator [Rng] only ([is_rng]): other constants may be degenerate on purpose
    (A = 0: a constant stream; A = C = 2^64-1: period 2). *)
Definition is_rng (a c : Z) : bool := (a =? lcg_A) && (c =? lcg_C).
Fixpoint shuffles_differ (ops : list mop) (obs : list (option (list Z))) : bool :=
  match ops, obs with
  | o1 :: ops', r1 :: obs' =>
      match o1, r1, ops', obs' with
      | MShuf n, Some l1, MShuf m :: _, Some l2 :: _ =>
          if (10 <=? n)%N && (n =? m)%N then negb (lzeqb l1 l2) else true
      | _, _, _, _ => true
      end && shuffles_differ ops' obs'
  | _, _ => true
  end.

Definition spec_check (c : case) : bool :=
  match c with
  | CInt sg w f obs => forallb (fun p => spec_int sg w f (snd p)) obs
  | CReach sg w f obs =>
      forallb (spec_int sg w f) obs
      && (* every value of the range appears, provided enough raws were tried *)
         (if Z.of_nat (length obs) <? form_hi sg w f - form_lo sg w f + 1 then true
          else forallb (fun x => existsb (fun o => ozeqb o (Some x)) obs)
                       (map (fun k => form_lo sg w f + Z.of_nat k)
                            (seq 0 (Z.to_nat (form_hi sg w f - form_lo sg w f + 1)))))
  | CFloat s e raw r =>
      let fs := sf_of_bits s in let fe := sf_of_bits e in
      match r with
      | Some x => SFltb fs fe && SFleb fs (sf_of_bits x) && SFltb (sf_of_bits x) fe
      | None => negb (SFltb fs fe)
      end
  | CRaw seed obs => forallb (fun x => (0 <=? x) && (x <? 2 ^ 64)) obs
  | CStream sg w f seed n r =>
      match r with
      | None => negb (form_nonempty sg w f) || (n =? 0)%N
      | Some l =>
          (N.of_nat (length l) =? n)%N && forallb (in_form sg w f) l
          && (if (64 <=? n)%N && (form_lo sg w f <? form_hi sg w f) then aperiodic l else true)
      end
  | CCopy seed k a b => lzeqb a b
  | CShufS rs v r =>
      match r with
      | Some o => is_perm o v
      | None => Nat.ltb (length rs) (length v - 1)   (* only an exhausted script may panic *)
      end
  | CShufR n obs => forallb (fun p => is_perm (snd p) (zseq n)) obs
  | CShufAll n obs =>
      forallb (fun p => is_perm (snd p) (zseq n)) obs
      && forallb (fun p => existsb (fun o => lzeqb (snd o) p) obs) (perms (zseq n))
  | CMix a c seed ops obs => spec_mix ops obs && (if is_rng a c then shuffles_differ ops obs else true)
  end.

(** what the model computes on the input of a case (for replay files) *)
Definition explain (c : case) : list (option Z) * option (list Z) * list (option (list Z)) :=
  match c with
  | CInt sg w f obs => (map (fun p => gen sg w f (fst p)) obs, None, [])
  | CReach sg w f obs => (map (fun k => gen sg w f (Z.of_nat k)) (seq 0 (length obs)), None, [])
  | CFloat s e raw r =>
      ([option_map bits_of_sf (float_range (sf_of_bits s) (sf_of_bits e) raw)], None, [])
  | CRaw seed obs => ([], raw_stream seed (length obs), [])
  | CStream sg w f seed n r => ([], stream sg w f seed (N.to_nat n), [])
  | CCopy seed k a b =>
      ([], match raws rng_next (N.to_nat k) (from_seed seed) with
           | Some (st, _) => opt_snd (raws rng_next (length a) st) | None => None end, [])
  | CShufS rs v r => ([], shuffle_script rs v, [])
  | CShufR n obs | CShufAll n obs => ([], None, map (fun p => shuffle_rng (fst p) (zseq n)) obs)
  | CMix a c seed ops obs => ([], None, mix_run a c ops (from_seed seed))
  end.

(** * scope of the theorem [model_check c = true -> spec_check c = true] (ProofsCorr.v)
    [in_scope c] collects (1) the validity conditions on the parameters of a case that the
    model theorems need (the generator in checks/c14.py only produces valid ones) and (2) the
    clauses of [spec_check] that are NOT consequences of the model theorems and are therefore
    kept as hypotheses (they are still decided by computation in [batch_spec]). *)
(** the width of an integer type: the theorems hold for 1..64 (the Rust types are 8, 16, 32, 64) *)
Definition width_ok (w : Z) : bool := (1 <=? w) && (w <=? 64).
(** the bounds of a range are values of the type (boolean form of [Spec.form_valid]) *)
Definition form_ok (sg : bool) (w : Z) (f : form) : bool :=
  match f with
  | FRange s e | FIncl s e => in_ty sg w s && in_ty sg w e
  | FTo e | FToIncl e => in_ty sg w e
  | FFull => true
  end.
(** the parameters of one operation of a history are valid *)
Definition mop_ok (o : mop) : bool :=
  match o with
  | MDraw sg w f => width_ok w && form_ok sg w f
  | MShuf n => (Z.of_N n <=? 2 ^ 64)
  | _ => true
  end.
Definition in_scope (c : case) : bool :=
  match c with
  (** validity of the type and of the bounds; nothing is asked of the raws (the theorems hold for every raw in Z) *)
  | CInt sg w f _ => width_ok w && form_ok sg w f
  (** the same; the reachability sweep IS proved (raws 0..k-1 contain the witness raw of every value) *)
  | CReach sg w f _ => width_ok w && form_ok sg w f
  (** no condition: every bit pattern decodes to a canonical binary64 and the model's result is canonical *)
  | CFloat _ _ _ _ => true
  (** no condition (not even on the seed: the first state transition reduces modulo 2^64) *)
  | CRaw _ _ => true
  (** validity, and the [aperiodic] test on streams of >= 64 draws from >= 2 values kept as a
      hypothesis: absence of short periods is a statistical property of the concrete generator,
      not a consequence of the model theorems (cf. c14_old_low_bits_periodic for a generator
      that fails it).  Length and range membership of every stream are proved. *)
  | CStream sg w f _ n r =>
      width_ok w && form_ok sg w f
      && match r with
         | Some l => if (64 <=? n)%N && (form_lo sg w f <? form_hi sg w f) then aperiodic l else true
         | None => true
         end
  (** the two observed continuations have the same length (a shorter one would be a prefix, not equal) *)
  | CCopy _ _ a b => Nat.eqb (length a) (length b)
  (** a slice has at most 2^64 elements (otherwise the index range 0..=i leaves usize and the model panics) *)
  | CShufS _ v _ => Z.of_nat (length v) <=? 2 ^ 64
  (** no condition *)
  | CShufR _ _ => true
  (** the all-orders coverage kept as a hypothesis: it depends on the list of seeds tried (for the
      seed lists of Spec.seeds_for it is c14_fairness_partial); that every result is a permutation is proved *)
  | CShufAll n obs => forallb (fun p => existsb (fun o => lzeqb (snd o) p) obs) (perms (zseq n))
  (** validity of every operation (nothing is asked of a, c, seed); that consecutive long shuffles of [Rng] differ is
      kept as a hypothesis (a statistical property of the concrete generator, like [aperiodic]); range
      membership, panics only on empty ranges, u64 raws, permutation results, one observation per
      operation are proved *)
  | CMix a c _ ops obs => forallb mop_ok ops && (if is_rng a c then shuffles_differ ops obs else true)
  end.
