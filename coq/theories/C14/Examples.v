(** C14 — non-vacuity: the model runs on literals; every hypothesis of every property theorem is
    met by a concrete instance. *)
From Coq Require Import ZArith NArith List Bool.
From RlibV Require Import C14.Model C14.Corr C14.Spec C14.Properties.
Import ListNotations.
Open Scope Z_scope.

(** the three witnesses of the repaired defects *)
Example ex_float_end_excluded :
  option_map bits_of_sf (float_range (sf_of_bits 0) (sf_of_bits 4607182418800017408) (2 ^ 64 - 1))
  = Some 4607182418800017407.   (* 1 - 2^-53, not 1.0 *)
Proof. vm_compute. reflexivity. Qed.
Example ex_stream_0_4_seed_42 :
  stream false 32 (FRange 0 4) 42 12 = Some [0; 1; 2; 1; 1; 1; 1; 3; 1; 3; 2; 3].
Proof. vm_compute. reflexivity. Qed.
Example ex_old_stream_0_4_seed_42 :
  opt_snd (draws rng_next_old false 32 (FRange 0 4) 12 (from_seed 42)) = Some [1; 0; 3; 2; 1; 0; 3; 2; 1; 0; 3; 2].
Proof. vm_compute. reflexivity. Qed.
Example ex_range_i8_wrapping_len : gen true 8 (FRange (-128) 127) 254 = Some 126.
Proof. vm_compute. reflexivity. Qed.
Example ex_incl_full_i8 : gen true 8 (FIncl (-128) 127) 255 = Some (-1).
Proof. vm_compute. reflexivity. Qed.
Example ex_empty_panics : gen false 8 (FRange 3 3) 7 = None.
Proof. vm_compute. reflexivity. Qed.
Example ex_shuffle_script : shuffle_script [5; 5; 5] [10; 20; 30; 40] = Some [10; 40; 30; 20].
Proof. vm_compute. reflexivity. Qed.

(** * instances of the property theorems: every hypothesis is met *)
From Coq Require Import Lia Permutation Reals Lra.
From Coq Require Import Floats.SpecFloat.
From Flocq Require Import Core.Defs Core.Raux IEEE754.BinarySingleNaN.

Lemma vw8 : valid_width 8. Proof. unfold valid_width. lia. Qed.
Lemma vw64 : valid_width 64. Proof. unfold valid_width. lia. Qed.

(** i8, -128..127: the length 255 only fits the unsigned type (wrapping_sub) *)
Example ex_in_bounds :
  exists x, gen true 8 (FRange (-128) 127) 254 = Some x
            /\ form_lo true 8 (FRange (-128) 127) <= x <= form_hi true 8 (FRange (-128) 127)
            /\ in_ty true 8 x = true.
Proof. apply c14_range_in_bounds; [exact vw8|split; reflexivity|cbn; lia]. Qed.
(** i64::MIN..=i64::MAX *)
Example ex_in_bounds_full64 :
  exists x, gen true 64 (FIncl (- 2 ^ 63) (2 ^ 63 - 1)) (2 ^ 64 - 1) = Some x
            /\ form_lo true 64 (FIncl (- 2 ^ 63) (2 ^ 63 - 1)) <= x <= form_hi true 64 (FIncl (- 2 ^ 63) (2 ^ 63 - 1))
            /\ in_ty true 64 x = true.
Proof. apply c14_range_in_bounds; [exact vw64|split; reflexivity|cbn; lia]. Qed.
Example ex_reachable :
  gen true 8 (FRange (-128) 127) (witness_raw true 8 (FRange (-128) 127) 126) = Some 126
  /\ 0 <= witness_raw true 8 (FRange (-128) 127) 126 < 2 ^ 64.
Proof. apply c14_range_reachable; [exact vw8|split; reflexivity|cbn; lia]. Qed.
Example ex_witness_value : witness_raw true 8 (FRange (-128) 127) 126 = 254 /\ witness_raw true 8 FFull (-1) = 255.
Proof. split; reflexivity. Qed.
Example ex_truncation : gen true 8 FFull 255 = Some (cast true 8 255) /\ cast true 8 255 = -1.
Proof. split; [apply (c14_full_range_is_truncation true 8 255 vw8)|reflexivity]. Qed.
Example ex_empty : gen false 8 (FRange 3 3) 7 = None.
Proof. apply c14_empty_range_panics; [exact vw8|split; reflexivity|cbn; lia]. Qed.
Example ex_empty_to_signed : gen true 8 (FTo (-5)) 7 = None.
Proof. apply c14_empty_range_panics; [exact vw8|reflexivity|cbn; lia]. Qed.

Example ex_det : stream false 32 (FRange 0 4) 42 12 = stream false 32 (FRange 0 4) 42 12.
Proof. now apply (proj1 c14_stream_deterministic). Qed.
Example ex_step_bij : 0 <= lcg_step 42 < 2 ^ 64 /\ lcg_unstep (lcg_step 42) = 42.
Proof. apply (proj1 c14_state_step_bijective). lia. Qed.
Example ex_unstep_bij : 0 <= lcg_unstep 42 < 2 ^ 64 /\ lcg_step (lcg_unstep 42) = 42.
Proof. apply (proj2 c14_state_step_bijective). lia. Qed.
Example ex_out_bij : 0 <= out_mix (2 ^ 64 - 1) < 2 ^ 64 /\ out_mix (out_mix (2 ^ 64 - 1)) = 2 ^ 64 - 1.
Proof. apply c14_output_bijective. lia. Qed.
Example ex_seed_inj : 42 = 42.
Proof. apply c14_seed_injective; [lia|lia|reflexivity]. Qed.
(** seeds differing only in bit 63 differ in the first output *)
Example ex_seed_high_bit : snd (next_raw (from_seed 0)) <> snd (next_raw (from_seed (2 ^ 63))).
Proof. intros E. apply c14_seed_injective in E; [discriminate|lia|lia]. Qed.

Example ex_shuffle_perm : Permutation [10; 20; 30; 40] [10; 40; 30; 20].
Proof.
  apply (c14_shuffle_permutation (list Z) Z script_next [5; 5; 5] [10; 20; 30; 40] [] [10; 40; 30; 20]).
  vm_compute. reflexivity.
Qed.
Example ex_shuffle_total : shuffle rng_next (from_seed 42) [1; 2; 3; 4; 5] <> None.
Proof. apply c14_shuffle_total; [intros s; discriminate|cbn; lia]. Qed.
Example ex_reaches : exists rs, length rs = 2%nat /\ Forall (fun r => 0 <= r < 2 ^ 64) rs
                                /\ shuffle_script rs (zseq 3) = Some [2; 0; 1].
Proof.
  apply (c14_shuffle_reaches_all_partial 3 [2; 0; 1]); [lia|].
  eapply perm_trans; [apply perm_swap|apply perm_skip; apply perm_swap].
Qed.
Example ex_reaches_gen : exists rs, length rs = 2%nat /\ Forall (fun r => 0 <= r < 2 ^ 64) rs
                                /\ shuffle_script rs [7; 7; 9] = Some [9; 7; 7].
Proof.
  apply (c14_shuffle_reaches_all Z [7; 7; 9] [9; 7; 7]); [|cbn; lia].
  eapply perm_trans; [apply perm_swap|apply perm_skip; apply perm_swap].
Qed.
Example ex_old_period : state_after (2 ^ 2 + 5) 42 mod 2 ^ Z.of_nat 2 = state_after 5 42 mod 2 ^ Z.of_nat 2.
Proof. apply (c14_old_low_bits_periodic 2 5 42). lia. Qed.
Example ex_fair4 : exists seed, In seed (seeds_for 4) /\ 0 <= seed < 2 ^ 64 /\ shuffle_rng seed (zseq 4) = Some [1; 0; 2; 3].
Proof. apply c14_fairness_partial; [lia|apply perm_swap]. Qed.
Example ex_fair6_run : shuffle_rng 4720 (zseq 6) <> None /\ length seeds6 = 720%nat.
Proof. split; [vm_compute; discriminate|reflexivity]. Qed.

(** floats: 0.0 .. 1.0 *)
Example ex_float_in_range :
  exists x, float_range (sf_of_bits 0) (sf_of_bits 4607182418800017408) (2 ^ 64 - 1) = Some x
            /\ SFleb (sf_of_bits 0) x = true /\ SFltb x (sf_of_bits 4607182418800017408) = true.
Proof. apply c14_float_in_range. vm_compute. reflexivity. Qed.
Example ex_float_empty : float_range (sf_of_bits 0) (sf_of_bits 0) 5 = None.
Proof. apply c14_float_empty_panics. vm_compute. reflexivity. Qed.
Example ex_float_nan : float_range S754_nan (sf_of_bits 4607182418800017408) 5 = None.
Proof. apply c14_float_empty_panics. reflexivity. Qed.
Example ex_float_real :
  exists x : binary_float 53 1024,
    float_range (B2SF (B754_zero false : binary_float 53 1024)) (B2SF ProofsFloatR.b_one) 12345 = Some (B2SF x)
    /\ is_finite x = true /\ (B2R (B754_zero false : binary_float 53 1024) <= B2R x < B2R ProofsFloatR.b_one)%R.
Proof.
  apply c14_float_in_range_real; try reflexivity.
  unfold ProofsFloatR.b_one, B2R, F2R. cbn [Fnum Fexp cond_Zopp].
  apply Rmult_lt_0_compat; [apply IZR_lt; lia|apply bpow_gt_0].
Qed.
Example ex_float_unit :
  exists u : binary_float 53 1024, f_unit (2 ^ 64 - 1) = B2SF u /\ is_finite u = true
    /\ B2R u = (IZR ((2 ^ 64 - 1) / 2 ^ 11) * / IZR (2 ^ 53))%R /\ (0 <= B2R u < 1)%R.
Proof. apply c14_float_unit_in_0_1. lia. Qed.

(** the correspondence corollary on concrete cases of several constructors: each is in scope and agrees
    with the model (by computation), so it satisfies the specification by the theorem *)
Definition ex_corr_cases : list case :=
  [ CInt true 8 (FRange (-128) 127) [(254, Some 126); (0, Some (-128))];
    CInt false 8 (FRange 3 3) [(7, None)];
    CReach true 8 (FIncl (-1) 1) [Some (-1); Some 0; Some 1];
    CReach true 8 FFull (map (fun k => Some (cast true 8 (Z.of_nat k))) (seq 0 256));
    CFloat 0 4607182418800017408 (2 ^ 64 - 1) (Some 4607182418800017407);
    CFloat 0 0 5 None;
    CRaw 42 [10481999408619181148; 4159066172747877833];
    CStream false 32 (FRange 0 4) 42 12 (Some [0; 1; 2; 1; 1; 1; 1; 3; 1; 3; 2; 3]);
    CStream false 8 (FRange 3 3) 1 2 None;
    CCopy 42 1 [4159066172747877833] [4159066172747877833];
    CShufS [5; 5; 5] [10; 20; 30; 40] (Some [10; 40; 30; 20]);
    CShufS [5] [10; 20; 30; 40] None;
    CShufR 3 [(0, [0; 1; 2]); (4, [0; 2; 1])];
    CShufAll 3 [(0, [0; 1; 2]); (4, [0; 2; 1]); (2, [1; 0; 2]); (1, [1; 2; 0]); (7, [2; 0; 1]); (6, [2; 1; 0])] ].
Example ex_corr_hyps : forallb in_scope ex_corr_cases = true /\ forallb model_check ex_corr_cases = true.
Proof. split; vm_compute; reflexivity. Qed.
Example ex_corr_spec : forall c, In c ex_corr_cases -> spec_check c = true.
Proof.
  destruct ex_corr_hyps as [Hs Hm]. rewrite forallb_forall in Hs, Hm.
  intros c Hc. apply c14_model_check_spec_check; auto.
Qed.
(** a stream of 64 draws: the aperiodicity test is the hypothesis kept in [in_scope] *)
Example ex_corr_stream64 :
  match stream false 32 (FRange 0 4) 42 64 with
  | Some l => in_scope (CStream false 32 (FRange 0 4) 42 64 (Some l)) = true
              /\ spec_check (CStream false 32 (FRange 0 4) 42 64 (Some l)) = true
  | None => False
  end.
Proof.
  destruct (stream false 32 (FRange 0 4) 42 64) as [l|] eqn:E; [|vm_compute in E; discriminate].
  assert (Hs : in_scope (CStream false 32 (FRange 0 4) 42 64 (Some l)) = true)
    by (vm_compute in E; injection E as <-; vm_compute; reflexivity).
  split; [exact Hs|]. apply c14_model_check_spec_check; [exact Hs|].
  cbn [model_check]. change (N.to_nat 64) with 64%nat. rewrite E. cbn [Batch.oeqb]. apply ProofsCorr.lzeqb_refl.
Qed.

(** * the generic generator, the jump, histories *)
Example ex_generic_instance : gnext lcg_A lcg_C 42 = rng_next 42.
Proof. apply (c14_generic_instance 42). Qed.
Example ex_generic_counter : opt_snd (raws (gnext 1 1) 3 (from_seed 5)) = Some [6; 7; 8].
Proof. vm_compute. reflexivity. Qed.
Example ex_jump : lcg_jump lcg_A lcg_C 1000 42 = state_after 1000 42 /\ lcg_jump 5 3 4 1 = 1093.
Proof. split; [rewrite c14_jump_is_iterated_step; reflexivity|reflexivity]. Qed.
(** a history: a draw, a long silent run, two shuffles (the second continues the stream), an f64 draw, a copy
    (the raw drawn by the original is the next raw of the copy) *)
Example ex_mix_run :
  mix_run lcg_A lcg_C [MDraw false 8 (FRange 0 4); MSkip 100000; MShuf 5; MShuf 5;
                       MFloat 0 4607182418800017408; MCopy; MRaw; MDraw true 8 (FRange 3 3); MRaw] (from_seed 42)
  = [Some [0]; Some [5398859907229714167]; Some [1; 0; 4; 2; 3]; Some [2; 4; 3; 0; 1]; Some [4604278746016977196];
     Some [407143487357440990]; Some [407143487357440990]; None].
Proof. vm_compute. reflexivity. Qed.
Example ex_mix_corr :
  let c := CMix 5 3 7 [MRaw; MShuf 3; MDraw true 8 (FIncl (-2) 2)] [Some [38]; Some [0; 1; 2]; Some [1]] in
  in_scope c = true /\ model_check c = true /\ spec_check c = true.
Proof. split; [reflexivity|]. split; [reflexivity|apply c14_model_check_spec_check; reflexivity]. Qed.
