(** C14 — non-vacuity: the model runs on literals; every hypothesis of every property theorem is
    met by a concrete instance. *)
From Coq Require Import ZArith NArith List Bool.
From RlibV Require Import C14.Model C14.Corr C14.Properties.
Import ListNotations.
Open Scope Z_scope.

(** the three witnesses of the repaired defects *)
Example ex_float_end_excluded :
  option_map bits_of_sf (float_range (sf_of_bits 0) (sf_of_bits 4607182418800017408) (2 ^ 64 - 1))
  = Some 4607182418800017407.   (* 1 - 2^-53, not 1.0 *)
Proof. vm_compute. reflexivity. Qed.
Example ex_stream_0_4_seed_42 :
  stream false 32 (FRange 0 4) 42 12 = Some [0; 1; 2; 1; 1; 1; 1; 3; 1; 3; 2; 3].
Proof. vm_compute. reflexivity. Qed.
Example ex_old_stream_0_4_seed_42 :
  opt_snd (draws rng_next_old false 32 (FRange 0 4) 12 (from_seed 42)) = Some [1; 0; 3; 2; 1; 0; 3; 2; 1; 0; 3; 2].
Proof. vm_compute. reflexivity. Qed.
Example ex_range_i8_wrapping_len : gen true 8 (FRange (-128) 127) 254 = Some 126.
Proof. vm_compute. reflexivity. Qed.
Example ex_incl_full_i8 : gen true 8 (FIncl (-128) 127) 255 = Some (-1).
Proof. vm_compute. reflexivity. Qed.
Example ex_empty_panics : gen false 8 (FRange 3 3) 7 = None.
Proof. vm_compute. reflexivity. Qed.
Example ex_shuffle_script : shuffle_script [5; 5; 5] [10; 20; 30; 40] = Some [10; 40; 30; 20].
Proof. vm_compute. reflexivity. Qed.
