(** C14 — f64 range, part 1 (no axioms): the guard makes the result lie in [start, end) in the
    order decided by [SFcompare] (the IEEE comparison the Rust code itself uses). *)
From Coq Require Import ZArith Bool Lia.
From Coq Require Import Floats.SpecFloat.
From RlibV Require Import C14.Model.
Open Scope Z_scope.

Lemma SFcompare_antisym x y : SFcompare y x = option_map CompOpp (SFcompare x y).
Proof.
  destruct x as [sx|sx| |sx mx ex], y as [sy|sy| |sy my ey]; cbn [SFcompare option_map];
    try reflexivity;
    try (destruct sx; reflexivity); try (destruct sy; reflexivity);
    try (destruct sx, sy; reflexivity).
  destruct sx, sy; cbn [CompOpp]; try reflexivity; f_equal.
  - rewrite (Z.compare_antisym ex ey). destruct (ex ?= ey); cbn [CompOpp]; try reflexivity.
    f_equal. symmetry. apply (Pos.compare_cont_antisym mx my Eq).
  - rewrite (Z.compare_antisym ex ey). destruct (ex ?= ey); cbn [CompOpp]; try reflexivity.
    symmetry. apply (Pos.compare_cont_antisym mx my Eq).
Qed.

Lemma SFcompare_refl x : x <> S754_nan -> SFcompare x x = Some Eq.
Proof.
  destruct x as [s|s| |s m e]; intros H; cbn [SFcompare]; try reflexivity.
  - destruct s; reflexivity.
  - congruence.
  - destruct s; rewrite Z.compare_refl, Pos.compare_cont_refl; reflexivity.
Qed.

Lemma SFltb_not_nan_l s e : SFltb s e = true -> s <> S754_nan.
Proof. intros H ->. discriminate. Qed.

Lemma f_ge_leb a b : f_ge a b = true -> SFleb b a = true.
Proof.
  unfold f_ge, SFleb. rewrite (SFcompare_antisym a b).
  destruct (SFcompare a b) as [[| |]|]; cbn [option_map CompOpp]; congruence.
Qed.

Theorem float_in_range s e raw :
  SFltb s e = true ->
  exists x, float_range s e raw = Some x /\ SFleb s x = true /\ SFltb x e = true.
Proof.
  intros Hlt. unfold float_range. rewrite Hlt.
  set (res := SFadd _ _ _ _).
  destruct (f_ge res s && SFltb res e) eqn:G.
  - apply andb_true_iff in G as [G1 G2]. exists res. split; [reflexivity|]. split; [now apply f_ge_leb|exact G2].
  - exists s. split; [reflexivity|]. split; [|exact Hlt].
    unfold SFleb. rewrite SFcompare_refl; [reflexivity|]. now apply SFltb_not_nan_l in Hlt.
Qed.

Theorem float_empty_panics s e raw : SFltb s e = false -> float_range s e raw = None.
Proof. intros H. unfold float_range. now rewrite H. Qed.
