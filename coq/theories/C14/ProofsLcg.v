(** C14 — the generator: determinism, bijectivity of state transition and output function,
    and the low-bit periodicity of the old (pre-repair) output function. *)
From Coq Require Import ZArith List Bool Lia Znumtheory.
From RlibV Require Import C14.Model C14.Corr C14.Spec.
Import ListNotations.
Open Scope Z_scope.

Local Notation M64 := (2 ^ 64).

(** * state transition *)
Lemma lcg_step_range st : 0 <= lcg_step st < M64.
Proof. unfold lcg_step. apply Z.mod_pos_bound. reflexivity. Qed.

Lemma lcg_unstep_range st : 0 <= lcg_unstep st < M64.
Proof. unfold lcg_unstep. apply Z.mod_pos_bound. reflexivity. Qed.

Lemma A_Ainv : (lcg_A * lcg_Ainv) mod M64 = 1.
Proof. vm_compute. reflexivity. Qed.

Lemma lcg_unstep_step st : 0 <= st < M64 -> lcg_unstep (lcg_step st) = st.
Proof.
  intros Hst. unfold lcg_unstep, lcg_step.
  rewrite <- Zmult_mod_idemp_l. rewrite Zminus_mod_idemp_l. rewrite Zmult_mod_idemp_l.
  replace ((st * lcg_A + lcg_C - lcg_C) * lcg_Ainv) with (st * (lcg_A * lcg_Ainv)) by ring.
  rewrite <- Zmult_mod_idemp_r. rewrite A_Ainv. rewrite Z.mul_1_r. apply Z.mod_small. exact Hst.
Qed.

Lemma lcg_step_unstep st : 0 <= st < M64 -> lcg_step (lcg_unstep st) = st.
Proof.
  intros Hst. unfold lcg_unstep, lcg_step.
  rewrite <- Zplus_mod_idemp_l. rewrite Zmult_mod_idemp_l.
  replace ((st - lcg_C) * lcg_Ainv * lcg_A) with ((st - lcg_C) * (lcg_A * lcg_Ainv)) by ring.
  rewrite <- Zmult_mod_idemp_r. rewrite A_Ainv. rewrite Z.mul_1_r.
  rewrite Zplus_mod_idemp_l. replace (st - lcg_C + lcg_C) with st by ring. apply Z.mod_small. exact Hst.
Qed.

Theorem state_step_bijective :
  (forall s, 0 <= s < M64 -> 0 <= lcg_step s < M64 /\ lcg_unstep (lcg_step s) = s)
  /\ (forall t, 0 <= t < M64 -> 0 <= lcg_unstep t < M64 /\ lcg_step (lcg_unstep t) = t).
Proof.
  split; intros x Hx; split;
    auto using lcg_step_range, lcg_unstep_range, lcg_unstep_step, lcg_step_unstep.
Qed.

(** * output function  x ^ (x >> 32)  is an involution on 64-bit words *)
Lemma lxor_range n a b : 0 < n -> 0 <= a < 2 ^ n -> 0 <= b < 2 ^ n -> 0 <= Z.lxor a b < 2 ^ n.
Proof.
  intros Hn Ha Hb. assert (H0 : 0 <= Z.lxor a b) by (apply Z.lxor_nonneg; lia).
  split; [exact H0|].
  destruct (Z.eq_dec (Z.lxor a b) 0) as [E|E]; [rewrite E; apply Z.pow_pos_nonneg; lia|].
  apply Z.log2_lt_pow2; [lia|].
  eapply Z.le_lt_trans; [apply Z.log2_lxor; lia|].
  assert (La : Z.log2 a < n).
  { destruct (Z.eq_dec a 0) as [->|]; [cbn; lia|]. apply Z.log2_lt_pow2; lia. }
  assert (Lb : Z.log2 b < n).
  { destruct (Z.eq_dec b 0) as [->|]; [cbn; lia|]. apply Z.log2_lt_pow2; lia. }
  lia.
Qed.

Lemma shiftr32_range x : 0 <= x < M64 -> 0 <= Z.shiftr x 32 < M64.
Proof.
  intros Hx. rewrite Z.shiftr_div_pow2 by lia. split.
  - apply Z.div_pos; lia.
  - apply Z.div_lt_upper_bound; lia.
Qed.

Lemma out_mix_range x : 0 <= x < M64 -> 0 <= out_mix x < M64.
Proof. intros Hx. unfold out_mix. apply lxor_range; [lia|exact Hx|now apply shiftr32_range]. Qed.

Lemma out_mix_involutive x : 0 <= x < M64 -> out_mix (out_mix x) = x.
Proof.
  intros Hx. unfold out_mix.
  rewrite Z.shiftr_lxor. rewrite Z.shiftr_shiftr by lia.
  replace (Z.shiftr x (32 + 32)) with 0.
  2:{ rewrite Z.shiftr_div_pow2 by lia. symmetry. apply Z.div_small. exact Hx. }
  rewrite Z.lxor_0_r. rewrite Z.lxor_assoc. rewrite Z.lxor_nilpotent. apply Z.lxor_0_r.
Qed.

Theorem output_bijective :
  forall x, 0 <= x < M64 -> 0 <= out_mix x < M64 /\ out_mix (out_mix x) = x.
Proof. intros x Hx. split; [now apply out_mix_range|now apply out_mix_involutive]. Qed.

(** distinct seeds give distinct first outputs (hence distinct streams) *)
Theorem seed_injective s1 s2 :
  0 <= s1 < M64 -> 0 <= s2 < M64 ->
  snd (next_raw (from_seed s1)) = snd (next_raw (from_seed s2)) -> s1 = s2.
Proof.
  intros H1 H2 E. unfold next_raw, from_seed in E. cbn [snd] in E.
  assert (E' : lcg_step s1 = lcg_step s2).
  { rewrite <- (out_mix_involutive (lcg_step s1)) by apply lcg_step_range.
    rewrite <- (out_mix_involutive (lcg_step s2)) by apply lcg_step_range. now rewrite E. }
  rewrite <- (lcg_unstep_step s1 H1), <- (lcg_unstep_step s2 H2). now rewrite E'.
Qed.

(** * determinism *)
Section Det.
Context {St : Type} (nxt : St -> option (St * Z)).

Lemma draws_app sg w f n m st :
  draws nxt sg w f (n + m) st =
  match draws nxt sg w f n st with
  | None => None
  | Some (st', xs) =>
      match draws nxt sg w f m st' with
      | None => None
      | Some (st'', ys) => Some (st'', xs ++ ys)
      end
  end.
Proof.
  revert st. induction n as [|n IH]; intros st; cbn [draws Nat.add].
  - destruct (draws nxt sg w f m st) as [[st'' ys]|]; reflexivity.
  - destruct (next nxt sg w f st) as [[st1 x]|]; [|reflexivity].
    rewrite IH. destruct (draws nxt sg w f n st1) as [[st' xs]|]; [|reflexivity].
    destruct (draws nxt sg w f m st') as [[st'' ys]|]; reflexivity.
Qed.
End Det.

Theorem stream_deterministic :
  (forall sg w f n seed1 seed2, seed1 = seed2 -> stream sg w f seed1 n = stream sg w f seed2 n)
  /\ (forall sg w f n m st,
        draws rng_next sg w f (n + m) st =
        match draws rng_next sg w f n st with
        | None => None
        | Some (st', xs) =>
            match draws rng_next sg w f m st' with
            | None => None
            | Some (st'', ys) => Some (st'', xs ++ ys)
            end
        end)
  /\ (forall n st, raws rng_next n st = Some (state_after n st, map out_mix (map (fun k => state_after (S k) st) (seq 0 n)))).
Proof.
  split; [intros; subst; reflexivity|]. split; [intros; apply draws_app|].
  intros n. induction n as [|n IH]; intros st.
  - reflexivity.
  - cbn [raws]. unfold rng_next at 1, next_raw. rewrite IH. f_equal. f_equal.
    cbn [seq map]. f_equal. rewrite <- seq_shift, !map_map. reflexivity.
Qed.

(** * the old output function: the low k bits of the raw LCG state have period dividing 2^k *)
Definition F (x : Z) : Z := x * lcg_A + lcg_C.

Lemma iter_n_add {X} (f : X -> X) a b x : iter_n f (a + b) x = iter_n f b (iter_n f a x).
Proof. revert x. induction a as [|a IH]; intros x; cbn [iter_n Nat.add]; [reflexivity|apply IH]. Qed.

Lemma iterF_diff n x y : iter_n F n x - iter_n F n y = lcg_A ^ Z.of_nat n * (x - y).
Proof.
  revert x y. induction n as [|n IH]; intros x y.
  - cbn [iter_n]. change (Z.of_nat 0) with 0. rewrite Z.pow_0_r. ring.
  - cbn [iter_n]. rewrite IH. rewrite Nat2Z.inj_succ, Z.pow_succ_r by lia. unfold F. ring.
Qed.

Lemma A_pow_odd n : exists q, lcg_A ^ Z.of_nat n = 2 * q + 1.
Proof.
  induction n as [|n [q Hq]].
  - exists 0. reflexivity.
  - rewrite Nat2Z.inj_succ, Z.pow_succ_r by lia. rewrite Hq.
    exists (3182068111923396502 * (2 * q + 1) + q). unfold lcg_A. ring.
Qed.

Lemma iterF_pow2 k x : (2 ^ Z.of_nat k | iter_n F (2 ^ k) x - x).
Proof.
  revert x. induction k as [|k IH]; intros x.
  - change (2 ^ Z.of_nat 0) with 1. apply Z.divide_1_l.
  - replace (2 ^ S k)%nat with (2 ^ k + 2 ^ k)%nat by (cbn [Nat.pow]; lia).
    rewrite iter_n_add. set (g := iter_n F (2 ^ k)) in *.
    replace (g (g x) - x) with ((g (g x) - g x) + (g x - x)) by ring.
    unfold g at 1 2. rewrite iterF_diff. fold g.
    destruct (A_pow_odd (2 ^ k)) as [q Hq]. rewrite Hq.
    destruct (IH x) as [d Hd]. rewrite Hd.
    rewrite Nat2Z.inj_succ, Z.pow_succ_r by lia.
    exists (d * (q + 1)). ring.
Qed.

Lemma pow2_divide k : 0 <= k <= 64 -> (2 ^ k | M64).
Proof. intros Hk. exists (2 ^ (64 - k)). rewrite <- Z.pow_add_r by lia. f_equal. lia. Qed.

Lemma mod_mod_pow2 k a : 0 <= k <= 64 -> (a mod M64) mod 2 ^ k = a mod 2 ^ k.
Proof.
  intros Hk. symmetry. apply Zmod_div_mod; [apply Z.pow_pos_nonneg; lia|reflexivity|now apply pow2_divide].
Qed.

Lemma step_congr k x y : 0 <= k <= 64 -> x mod 2 ^ k = y mod 2 ^ k -> lcg_step x mod 2 ^ k = F y mod 2 ^ k.
Proof.
  intros Hk E. unfold lcg_step, F. rewrite mod_mod_pow2 by exact Hk.
  rewrite Zplus_mod, Zmult_mod, E, <- Zmult_mod, <- Zplus_mod. reflexivity.
Qed.

Lemma F_congr k x y : x mod 2 ^ k = y mod 2 ^ k -> F x mod 2 ^ k = F y mod 2 ^ k.
Proof. intros E. unfold F. rewrite Zplus_mod, Zmult_mod, E, <- Zmult_mod, <- Zplus_mod. reflexivity. Qed.

Lemma iter_congr k n x y : 0 <= k <= 64 -> x mod 2 ^ k = y mod 2 ^ k ->
  iter_n lcg_step n x mod 2 ^ k = iter_n F n y mod 2 ^ k.
Proof.
  intros Hk. revert x y. induction n as [|n IH]; intros x y E; cbn [iter_n]; [exact E|].
  apply IH. now apply step_congr.
Qed.

Lemma iterF_congr k n x y : x mod 2 ^ k = y mod 2 ^ k -> iter_n F n x mod 2 ^ k = iter_n F n y mod 2 ^ k.
Proof.
  revert x y. induction n as [|n IH]; intros x y E; cbn [iter_n]; [exact E|]. apply IH. now apply F_congr.
Qed.

Theorem old_low_bits_periodic (k n : nat) (st : Z) :
  (k <= 64)%nat ->
  (forall s, snd (next_raw_old s) = lcg_step s /\ fst (next_raw_old s) = lcg_step s)
  /\ state_after (2 ^ k + n) st mod 2 ^ Z.of_nat k = state_after n st mod 2 ^ Z.of_nat k.
Proof.
  intros Hk. split; [intros s; split; reflexivity|].
  assert (Hk' : 0 <= Z.of_nat k <= 64) by lia.
  unfold state_after. rewrite iter_n_add.
  rewrite (iter_congr (Z.of_nat k) n _ (iter_n F (2 ^ k) st) Hk').
  2:{ apply iter_congr; [exact Hk'|reflexivity]. }
  rewrite (iter_congr (Z.of_nat k) n st st Hk' eq_refl).
  apply iterF_congr.
  destruct (iterF_pow2 k st) as [d Hd].
  replace (iter_n F (2 ^ k) st) with (st + d * 2 ^ Z.of_nat k) by lia.
  apply Z_mod_plus_full.
Qed.
