(** C14 — model of rlib_rand: integer/float ranges ([randomable.rs]), the 64-bit LCG with
    output mixing ([lcg.rs], constants from [lib.rs]) and the provided [shuffle] ([mrand.rs]).
    Executable definitions only.

    Integers of a Rust type are represented by their mathematical value in [Z]; a type is a pair
    (signedness [sg], width [w]); [usize]/[isize] are 64-bit.  A panic is [None]. *)
From Coq Require Import ZArith NArith List Bool.
From Coq Require Import Floats.SpecFloat.
Import ListNotations.
Open Scope Z_scope.

(** * fixed-width helpers *)
Definition wrap (w x : Z) : Z := x mod 2 ^ w.
(** two's-complement reinterpretation of the low [w] bits ([as iN]) *)
Definition to_signed (w x : Z) : Z :=
  let u := wrap w x in if u <? 2 ^ (w - 1) then u else u - 2 ^ w.
Definition tmin (sg : bool) (w : Z) : Z := if sg then - 2 ^ (w - 1) else 0.
Definition tmax (sg : bool) (w : Z) : Z := if sg then 2 ^ (w - 1) - 1 else 2 ^ w - 1.
Definition in_ty (sg : bool) (w x : Z) : bool := (tmin sg w <=? x) && (x <=? tmax sg w).
(** [raw as t]: truncation, two's complement for signed targets *)
Definition cast (sg : bool) (w x : Z) : Z := if sg then to_signed w x else wrap w x.
(** [+], [-] written without [wrapping_]: overflow panics in debug builds (and would wrap in
    release builds; the theorems show it never happens, so both profiles agree with this model) *)
Definition chk (sg : bool) (w x : Z) : option Z := if in_ty sg w x then Some x else None.

(** * [Range<t>::gen_from_u64]  (make_randomable!) *)
Definition range (sg : bool) (w s e raw : Z) : option Z :=
  if s <? e then                                       (* assert!(!self.is_empty()) *)
    if sg then
      (* let len = (self.end as $ut).wrapping_sub(self.start as $ut); *)
      let len := wrap w (wrap w e - wrap w s) in
      (* ((rng % len as u64) as $ut).wrapping_add(self.start as $ut) as $it   — % by zero panics *)
      if len =? 0 then None
      else Some (to_signed w (wrap w (wrap w (raw mod len) + wrap w s)))
    else
      (* let len = self.end - self.start;  (rng % len as u64) as $ut + self.start *)
      match chk false w (e - s) with
      | None => None
      | Some len => if len =? 0 then None else chk false w (wrap w (raw mod len) + s)
      end
  else None.

(** * the other range forms  (implement_ranges!) *)
Definition range_incl (sg : bool) (w s e raw : Z) : option Z :=
  if negb (s =? tmin sg w) then
    match chk sg w (s - 1) with
    | None => None
    | Some s1 => match range sg w s1 e raw with
                 | None => None
                 | Some r => chk sg w (r + 1)
                 end
    end
  else if negb (e =? tmax sg w) then
    match chk sg w (e + 1) with
    | None => None
    | Some e1 => range sg w s e1 raw
    end
  else Some (cast sg w raw).

Inductive form :=
| FRange (s e : Z)     (* s..e  *)
| FIncl (s e : Z)      (* s..=e *)
| FTo (e : Z)          (* ..e   *)
| FToIncl (e : Z)      (* ..=e  *)
| FFull.               (* ..    *)

Definition gen (sg : bool) (w : Z) (f : form) (raw : Z) : option Z :=
  match f with
  | FRange s e => range sg w s e raw
  | FIncl s e => range_incl sg w s e raw
  | FTo e => range sg w 0 e raw
  | FToIncl e => range_incl sg w 0 e raw
  | FFull => Some (cast sg w raw)
  end.

(** * [Range<f64>::gen_from_u64] on IEEE binary64 = spec_float at (53, 1024) *)
Definition fprec : Z := 53.
Definition femax : Z := 1024.
Definition f_of_Z (m : Z) : spec_float := binary_normalize fprec femax m 0 false.
Definition f_one : spec_float := S754_finite false 4503599627370496 (-52).
(** (1.0 / (1u64 << 53) as f64) = 2^-53, computed as written *)
Definition f_two_m53 : spec_float :=
  Eval vm_compute in SFdiv fprec femax f_one (f_of_Z (2 ^ 53)).
Definition f_unit (raw : Z) : spec_float :=
  SFmul fprec femax (f_of_Z (Z.shiftr raw 11)) f_two_m53.
(** Rust [a >= b] on f64 *)
Definition f_ge (a b : spec_float) : bool :=
  match SFcompare a b with Some Gt | Some Eq => true | _ => false end.
Definition float_range (s e : spec_float) (raw : Z) : option spec_float :=
  if SFltb s e then                                    (* assert!(!self.is_empty()) : !(start < end) *)
    let u := f_unit raw in
    let res := SFadd fprec femax (SFmul fprec femax s (SFsub fprec femax f_one u))
                                 (SFmul fprec femax e u) in
    Some (if f_ge res s && SFltb res e then res else s)
  else None.

(** binary64 bit patterns (the executor passes floats as [to_bits]) *)
Definition sf_of_bits (b : Z) : spec_float :=
  let sgn := Z.testbit b 63 in
  let ex := (b / 2 ^ 52) mod 2 ^ 11 in
  let mant := b mod 2 ^ 52 in
  if ex =? 0 then (if mant =? 0 then S754_zero sgn else S754_finite sgn (Z.to_pos mant) (-1074))
  else if ex =? 2047 then (if mant =? 0 then S754_infinity sgn else S754_nan)
  else S754_finite sgn (Z.to_pos (mant + 2 ^ 52)) (ex - 1075).
Definition bits_of_sf (x : spec_float) : Z :=
  let sb (s : bool) := if s then 2 ^ 63 else 0 in
  match x with
  | S754_zero s => sb s
  | S754_infinity s => sb s + 2047 * 2 ^ 52
  | S754_nan => 2047 * 2 ^ 52 + 2 ^ 51
  | S754_finite s m e =>
      if Zpos m <? 2 ^ 52 then sb s + Zpos m
      else sb s + (e + 1075) * 2 ^ 52 + (Zpos m - 2 ^ 52)
  end.

(** * the generator: LinearCongruentialGenerator64<A, C> *)
Definition lcg_A : Z := 6364136223846793005.
Definition lcg_C : Z := 1442695040888963407.
Definition lcg_step (st : Z) : Z := (st * lcg_A + lcg_C) mod 2 ^ 64.
(** output function: state ^ (state >> 32) *)
Definition out_mix (x : Z) : Z := Z.lxor x (Z.shiftr x 32).
(** [from_seed seed] = state [seed]; [next_raw] returns (new state, output) *)
Definition from_seed (seed : Z) : Z := seed.
Definition next_raw (st : Z) : Z * Z := let st' := lcg_step st in (st', out_mix st').
(** the output function before the repair (returned the state itself) — kept for documentation *)
Definition next_raw_old (st : Z) : Z * Z := let st' := lcg_step st in (st', st').

(** * [Rand]: a source of raw words; [next(range) = range.gen_from_u64(raw)] *)
Section Source.
Context {St : Type} (nxt : St -> option (St * Z)).   (* [None]: the source itself panics *)

Definition next (sg : bool) (w : Z) (f : form) (st : St) : option (St * Z) :=
  match nxt st with
  | None => None
  | Some (st', raw) => match gen sg w f raw with None => None | Some x => Some (st', x) end
  end.

(** [n] consecutive draws from the same range *)
Fixpoint draws (sg : bool) (w : Z) (f : form) (n : nat) (st : St) : option (St * list Z) :=
  match n with
  | O => Some (st, [])
  | S k =>
      match next sg w f st with
      | None => None
      | Some (st', x) =>
          match draws sg w f k st' with None => None | Some (st'', xs) => Some (st'', x :: xs) end
      end
  end.

Fixpoint raws (n : nat) (st : St) : option (St * list Z) :=
  match n with
  | O => Some (st, [])
  | S k =>
      match nxt st with
      | None => None
      | Some (st', x) =>
          match raws k st' with None => None | Some (st'', xs) => Some (st'', x :: xs) end
      end
  end.

(** * [shuffle]: for i in 1..v.len() { v.swap(i, self.next(0..=i)) }   (index type usize) *)
Context {A : Type}.
Fixpoint upd (l : list A) (i : nat) (x : A) : list A :=
  match l, i with
  | [], _ => []
  | _ :: t, O => x :: t
  | h :: t, S k => h :: upd t k x
  end.
(** slice::swap panics on an index out of bounds *)
Definition swap (l : list A) (i j : nat) : option (list A) :=
  match nth_error l i, nth_error l j with
  | Some a, Some b => Some (upd (upd l i b) j a)
  | _, _ => None
  end.
Definition shuffle_step (acc : option (St * list A)) (i : nat) : option (St * list A) :=
  match acc with
  | None => None
  | Some (st, v) =>
      match next false 64 (FIncl 0 (Z.of_nat i)) st with
      | None => None
      | Some (st', j) =>
          match swap v i (Z.to_nat j) with None => None | Some v' => Some (st', v') end
      end
  end.
Definition shuffle (st : St) (v : list A) : option (St * list A) :=
  fold_left shuffle_step (seq 1 (length v - 1)) (Some (st, v)).
End Source.

(** the two sources used: the real generator, and a script of raw words (panics when exhausted) *)
Definition rng_next (st : Z) : option (Z * Z) := Some (next_raw st).
Definition rng_next_old (st : Z) : option (Z * Z) := Some (next_raw_old st).
Definition script_next (l : list Z) : option (list Z * Z) :=
  match l with [] => None | r :: t => Some (t, r) end.

Definition opt_snd {X Y} (o : option (X * Y)) : option Y :=
  match o with Some (_, y) => Some y | None => None end.
Definition shuffle_rng {A} (seed : Z) (v : list A) : option (list A) :=
  opt_snd (shuffle rng_next (from_seed seed) v).
Definition shuffle_script {A} (rs : list Z) (v : list A) : option (list A) :=
  opt_snd (shuffle script_next rs v).
Definition stream (sg : bool) (w : Z) (f : form) (seed : Z) (n : nat) : option (list Z) :=
  opt_snd (draws rng_next sg w f n (from_seed seed)).
Definition raw_stream (seed : Z) (n : nat) : option (list Z) :=
  opt_snd (raws rng_next n (from_seed seed)).

(** * the const-generic generator [LinearCongruentialGenerator64<A, C>] for arbitrary constants
    ([Rng] is the instance [lcg_A], [lcg_C]: [gnext lcg_A lcg_C = rng_next], ProofsMix.v) *)
Definition glcg_step (a c st : Z) : Z := (st * a + c) mod 2 ^ 64.
Definition gnext_raw (a c st : Z) : Z * Z := let st' := glcg_step a c st in (st', out_mix st').
Definition gnext (a c st : Z) : option (Z * Z) := Some (gnext_raw a c st).

(** [n] state transitions at once (what [n] calls of [next_raw] whose results are dropped do to the
    state): the n-th power of the affine map x -> x*a + c (mod 2^64) by repeated squaring.
    [lcg_jump a c n st] = [glcg_step a c] iterated [n] times on [st] (proved: c14_jump_is_iterated_step);
    it lets a correspondence case look at the outputs after 2^16 .. 2^24 earlier draws. *)
Definition aff_app (f : Z * Z) (x : Z) : Z := (x * fst f + snd f) mod 2 ^ 64.
(** first [f], then [g] *)
Definition aff_comp (f g : Z * Z) : Z * Z :=
  ((fst f * fst g) mod 2 ^ 64, (snd f * fst g + snd g) mod 2 ^ 64).
Fixpoint aff_pow (f : Z * Z) (p : positive) : Z * Z :=
  match p with
  | xH => f
  | xO q => let g := aff_pow f q in aff_comp g g
  | xI q => let g := aff_pow f q in aff_comp f (aff_comp g g)
  end.
Definition lcg_jump (a c : Z) (n : N) (st : Z) : Z :=
  match n with N0 => st | Npos p => aff_app (aff_pow (a, c) p) st end.

(** * a history of different operations on ONE generator (state threaded through all of them) *)
Inductive mop :=
| MDraw (sg : bool) (w : Z) (f : form)   (* g.next(range) of an integer type *)
| MFloat (s e : Z)                       (* g.next(s..e) of f64, bounds as bit patterns *)
| MRaw                                   (* g.next_raw() *)
| MSkip (n : N)                          (* n calls of g.next_raw() whose results are dropped, then one that is observed *)
| MShuf (n : N)                          (* g.shuffle(&mut [0, 1, .., n-1]) *)
| MCopy.                                 (* h = copy/clone of g; g.next_raw() is observed; the history continues on h *)

(** one operation: new state and what is observed ([None] = panic) *)
Definition mix_step (a c : Z) (o : mop) (st : Z) : option (Z * list Z) :=
  match o with
  | MDraw sg w f =>
      match next (gnext a c) sg w f st with Some (st', x) => Some (st', [x]) | None => None end
  | MFloat s e =>
      let (st', raw) := gnext_raw a c st in
      match float_range (sf_of_bits s) (sf_of_bits e) raw with
      | Some x => Some (st', [bits_of_sf x])
      | None => None
      end
  | MRaw => let (st', r) := gnext_raw a c st in Some (st', [r])
  | MSkip n => let (st', r) := gnext_raw a c (lcg_jump a c n st) in Some (st', [r])
  | MShuf n => shuffle (gnext a c) st (map Z.of_nat (seq 0 (N.to_nat n)))
  | MCopy => Some (st, [snd (gnext_raw a c st)])
  end.
(** the observations of a history; it ends at the first panic *)
Fixpoint mix_run (a c : Z) (ops : list mop) (st : Z) : list (option (list Z)) :=
  match ops with
  | [] => []
  | o :: t =>
      match mix_step a c o st with
      | None => [None]
      | Some (st', l) => Some l :: mix_run a c t st'
      end
  end.
