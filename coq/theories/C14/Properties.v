(** C14 — property theorems (statements only; proofs by [exact]). *)
From Coq Require Import ZArith NArith List Bool Permutation.
From RlibV Require Import C14.Model C14.Corr.
Import ListNotations.
Open Scope Z_scope.
