(** C14 — property theorems (statements only; proofs by [exact]).  GENERATED together with the
    pinned statements in checks/c14.py. *)
From Coq Require Import ZArith NArith List Bool Permutation Reals.
From Coq Require Import Floats.SpecFloat.
From Flocq Require Import Core.Defs Core.Raux IEEE754.BinarySingleNaN.
From RlibV Require Import C14.Model C14.Corr C14.Spec C14.ProofsInt C14.ProofsLcg C14.ProofsShuffle C14.ProofsFloat C14.ProofsFloatR C14.ProofsMix C14.ProofsCorr.
Import ListNotations.
Open Scope Z_scope.

(** (a) every integer type (signedness sg, width w in 1..64; the Rust types are w = 8,16,32,64) and every range form: for EVERY raw word the draw exists (no panic, no overflow in either build profile) and lies in the range, provided the range is non-empty; includes MIN..=MAX and signed ranges whose length wraps *)
Theorem c14_range_in_bounds :
  forall (sg : bool) (w : Z) (f : form) (raw : Z), valid_width w -> form_valid sg w f -> form_lo sg w f <= form_hi sg w f -> exists x, gen sg w f raw = Some x /\ form_lo sg w f <= x <= form_hi sg w f /\ in_ty sg w x = true.
Proof. exact range_in_bounds. Qed.

(** (a) every value of every range is produced by the explicit raw word witness_raw (= x - low bound, or the low w bits of x for a range covering the whole type), which is a u64 *)
Theorem c14_range_reachable :
  forall (sg : bool) (w : Z) (f : form) (x : Z), valid_width w -> form_valid sg w f -> form_lo sg w f <= x <= form_hi sg w f -> gen sg w f (witness_raw sg w f x) = Some x /\ 0 <= witness_raw sg w f x < 2 ^ 64.
Proof. exact range_reachable. Qed.

(** (a) `..` and MIN..=MAX return `raw as t`: a value of the type congruent to raw modulo 2^w *)
Theorem c14_full_range_is_truncation :
  forall (sg : bool) (w : Z) (raw : Z), valid_width w -> gen sg w FFull raw = Some (cast sg w raw) /\ gen sg w (FIncl (tmin sg w) (tmax sg w)) raw = Some (cast sg w raw) /\ in_ty sg w (cast sg w raw) = true /\ (cast sg w raw) mod 2 ^ w = raw mod 2 ^ w.
Proof. exact full_range_is_truncation. Qed.

(** an empty range (a..b with b <= a, a..=b with b < a, ..b with b <= 0, ..=b with b < 0) panics, for every raw *)
Theorem c14_empty_range_panics :
  forall (sg : bool) (w : Z) (f : form) (raw : Z), valid_width w -> form_valid sg w f -> form_hi sg w f < form_lo sg w f -> gen sg w f raw = None.
Proof. exact empty_range_panics. Qed.

(** (c) the stream is a function of the seed; the state reached after n draws (what a Copy duplicates) determines all later draws; the raw stream is out_mix of the iterated state transition *)
Theorem c14_stream_deterministic :
  (forall sg w f n seed1 seed2, seed1 = seed2 -> stream sg w f seed1 n = stream sg w f seed2 n) /\ (forall sg w f n m st, draws rng_next sg w f (n + m) st = match draws rng_next sg w f n st with | None => None | Some (st', xs) => match draws rng_next sg w f m st' with | None => None | Some (st'', ys) => Some (st'', xs ++ ys) end end) /\ (forall n st, raws rng_next n st = Some (state_after n st, map out_mix (map (fun k => state_after (S k) st) (seq 0 n)))).
Proof. exact stream_deterministic. Qed.

(** the LCG state transition is a bijection of the 64-bit words (explicit inverse) *)
Theorem c14_state_step_bijective :
  (forall s, 0 <= s < 2 ^ 64 -> 0 <= lcg_step s < 2 ^ 64 /\ lcg_unstep (lcg_step s) = s) /\ (forall t, 0 <= t < 2 ^ 64 -> 0 <= lcg_unstep t < 2 ^ 64 /\ lcg_step (lcg_unstep t) = t).
Proof. exact state_step_bijective. Qed.

(** the output function x ^ (x >> 32) is an involution, hence a bijection, of the 64-bit words: the output stream inherits the period of the state *)
Theorem c14_output_bijective :
  forall x, 0 <= x < 2 ^ 64 -> 0 <= out_mix x < 2 ^ 64 /\ out_mix (out_mix x) = x.
Proof. exact output_bijective. Qed.

(** consequence: generators built from different seeds already differ in their first raw output (from_seed uses the whole seed) *)
Theorem c14_seed_injective :
  forall s1 s2, 0 <= s1 < 2 ^ 64 -> 0 <= s2 < 2 ^ 64 -> snd (next_raw (from_seed s1)) = snd (next_raw (from_seed s2)) -> s1 = s2.
Proof. exact seed_injective. Qed.

(** (d) for ANY source of raw words (any state type, any transition): whatever shuffle returns is a permutation of its input *)
Theorem c14_shuffle_permutation :
  forall (St A : Type) (nxt : St -> option (St * Z)) (st : St) (v : list A) (st' : St) (v' : list A), shuffle nxt st v = Some (st', v') -> Permutation v v'.
Proof. exact @shuffle_permutation. Qed.

(** (d) shuffle never panics unless the source does: indices stay inside the slice and `0..=i` never overflows *)
Theorem c14_shuffle_total :
  forall (St A : Type) (nxt : St -> option (St * Z)) (st : St) (v : list A), (forall s, nxt s <> None) -> Z.of_nat (length v) <= 2 ^ 64 -> shuffle nxt st v <> None.
Proof. exact @shuffle_total. Qed.

(** (d) Fisher-Yates is surjective, EVERY length and element type: every rearrangement of the slice is produced by some sequence of len-1 raw words (each a u64) *)
Theorem c14_shuffle_reaches_all :
  forall (A : Type) (v p : list A), Permutation p v -> Z.of_nat (length v) <= 2 ^ 64 -> exists rs, length rs = (length v - 1)%nat /\ Forall (fun r => 0 <= r < 2 ^ 64) rs /\ shuffle_script rs v = Some p.
Proof. exact @shuffle_reaches_all_gen. Qed.

(** (d) PARTIAL (slices of length <= 6, by enumeration of the index choices): every order of [0..n) is produced by some sequence of n-1 raw words: an independent computational re-check of c14_shuffle_reaches_all on the enumerated scripts *)
Theorem c14_shuffle_reaches_all_partial :
  forall (n : nat) (p : list Z), (n <= 6)%nat -> Permutation p (zseq (N.of_nat n)) -> exists rs, length rs = (n - 1)%nat /\ Forall (fun r => 0 <= r < 2 ^ 64) rs /\ shuffle_script rs (zseq (N.of_nat n)) = Some p.
Proof. exact shuffle_reaches_all. Qed.

(** documentation of the repaired defect: the OLD output function next_raw_old returned the LCG state itself, and the low k bits of the state have a period dividing 2^k (so next(0..4) cycled with period 4) *)
Theorem c14_old_low_bits_periodic :
  forall (k n : nat) (st : Z), (k <= 64)%nat -> (forall s, snd (next_raw_old s) = lcg_step s /\ fst (next_raw_old s) = lcg_step s) /\ state_after (2 ^ k + n) st mod 2 ^ Z.of_nat k = state_after n st mod 2 ^ Z.of_nat k.
Proof. exact old_low_bits_periodic. Qed.

(** (d) PARTIAL: with the concrete generator every order of a slice of length <= 6 (1, 1, 2, 6, 24, 120, 720 orders) is produced by an explicit seed (Spec.seeds4/5/6, found by the executor's search, checked here by computation). Missing: near-equal frequencies and aperiodicity of small-range streams are statistical; they are measured by the search in checks/c14.py (extra), not proved *)
Theorem c14_fairness_partial :
  forall (n : N) (p : list Z), (n <= 6)%N -> Permutation p (zseq n) -> exists seed, In seed (seeds_for n) /\ 0 <= seed < 2 ^ 64 /\ shuffle_rng seed (zseq n) = Some p.
Proof. exact fairness_partial. Qed.

(** (b) for every start < end in the IEEE order (this excludes NaN bounds; infinite bounds are allowed) and EVERY raw word the draw exists and start <= x < end, in the comparison [SFcompare] that the Rust code itself uses; no axioms *)
Theorem c14_float_in_range :
  forall (s e : spec_float) (raw : Z), SFltb s e = true -> exists x, float_range s e raw = Some x /\ SFleb s x = true /\ SFltb x e = true.
Proof. exact float_in_range. Qed.

(** a float range that is empty, reversed or has a NaN bound panics *)
Theorem c14_float_empty_panics :
  forall (s e : spec_float) (raw : Z), SFltb s e = false -> float_range s e raw = None.
Proof. exact float_empty_panics. Qed.

(** (b) in real numbers, for all finite binary64 start < end and every raw word: the draw is a finite binary64 x with start <= x < end (Flocq; uses that the model's SpecFloat operations are Flocq's IEEE operations) *)
Theorem c14_float_in_range_real :
  forall (s e : binary_float 53 1024) (raw : Z), is_finite s = true -> is_finite e = true -> (B2R s < B2R e)%R -> exists x : binary_float 53 1024, float_range (B2SF s) (B2SF e) raw = Some (B2SF x) /\ is_finite x = true /\ (B2R s <= B2R x < B2R e)%R.
Proof. exact float_in_range_R. Qed.

(** (b) the 53-bit unit value (raw >> 11) as f64 * 2^-53 is computed without rounding: it is exactly (raw / 2^11) / 2^53, a finite binary64 in [0, 1) *)
Theorem c14_float_unit_in_0_1 :
  forall raw : Z, 0 <= raw < 2 ^ 64 -> exists u : binary_float 53 1024, f_unit raw = B2SF u /\ is_finite u = true /\ B2R u = (IZR (raw / 2 ^ 11) * / IZR (2 ^ 53))%R /\ (0 <= B2R u < 1)%R.
Proof. exact float_unit_exact. Qed.

(** the concrete generator [Rng] is the instance (lcg_A, lcg_C) of the model of the const-generic LinearCongruentialGenerator64<A, C> that the mixed-history cases (Corr.CMix) run for several pairs of constants *)
Theorem c14_generic_instance :
  forall st, glcg_step lcg_A lcg_C st = lcg_step st /\ gnext_raw lcg_A lcg_C st = next_raw st /\ gnext lcg_A lcg_C st = rng_next st.
Proof. exact generic_instance. Qed.

(** the fast jump used by the long-run cases (n dropped calls of next_raw) is the state transition iterated n times, for every pair of constants, every n and every state *)
Theorem c14_jump_is_iterated_step :
  forall (a c : Z) (n : N) (st : Z), lcg_jump a c n st = iter_n (glcg_step a c) (N.to_nat n) st.
Proof. exact jump_is_iterated_step. Qed.

(** correspondence corollary: on every case in scope (Corr.in_scope: valid width and bounds, equally long copies, a slice of at most 2^64 elements; the aperiodicity test of long streams and the all-orders coverage of a seed list are kept as hypotheses, everything else is unconditional), if what the real crate returned equals what the model computes then it satisfies the model-independent specification: draws in range / panic exactly on empty ranges, reachability sweeps, start <= x < end on decoded bit patterns, u64 raws, stream length and membership, equal copies, shuffle results are permutations and panic only on an exhausted script; for a history of mixed operations on one generator of arbitrary constants (Corr.CMix: valid operations; that consecutive long shuffles differ is kept as a hypothesis) every single observation satisfies the clause of its operation and there is exactly one observation per operation up to the first panic; no axioms *)
Theorem c14_model_check_spec_check :
  forall c : case, in_scope c = true -> model_check c = true -> spec_check c = true.
Proof. exact model_check_spec_check. Qed.

(** the two real-number statements above as ONE pinned theorem (see the note in checks/c14.py: the audit parser allows axioms only in the last pin) *)
Theorem c14_float_real_statements :
  (forall (s e : binary_float 53 1024) (raw : Z), is_finite s = true -> is_finite e = true -> (B2R s < B2R e)%R -> exists x : binary_float 53 1024, float_range (B2SF s) (B2SF e) raw = Some (B2SF x) /\ is_finite x = true /\ (B2R s <= B2R x < B2R e)%R) /\ (forall raw : Z, 0 <= raw < 2 ^ 64 -> exists u : binary_float 53 1024, f_unit raw = B2SF u /\ is_finite u = true /\ B2R u = (IZR (raw / 2 ^ 11) * / IZR (2 ^ 53))%R /\ (0 <= B2R u < 1)%R).
Proof. exact (conj c14_float_in_range_real c14_float_unit_in_0_1). Qed.
