(** C14 — f64 range, part 2 (Flocq; classical real-number axioms): the executable SpecFloat
    operations of the model are Flocq's correctly rounded IEEE operations at (53, 1024); in real
    numbers start <= x < end, and the 53-bit unit value is exact.  The transport lemmas replay
    the generic part of Flocq.IEEE754.PrimFloat without primitive floats. *)
From Coq Require Import ZArith Reals Bool Lia Lra.
From Coq Require Import Floats.SpecFloat.
From Flocq Require Import Core.Zaux Core.Raux Core.Defs Core.Generic_fmt Core.FLT Core.Round_NE Core.Float_prop IEEE754.BinarySingleNaN.
From RlibV Require Import C14.Model C14.ProofsFloat.
Open Scope Z_scope.


Section Gen.
Variables prec emax : Z.
Context (Hprec : FLX.Prec_gt_0 prec) (Hmax : Prec_lt_emax prec emax).
Notation bf := (binary_float prec emax).

Lemma round_nearest_even_equiv s m l :
  round_nearest_even m l = choice_mode mode_NE s m l.
Proof.
case l; [reflexivity|intro c].
case c; [ | reflexivity..].
now simpl; unfold Round.cond_incr; case Z.even.
Qed.

Lemma binary_round_aux_equiv sx mx ex lx :
  SpecFloat.binary_round_aux prec emax sx mx ex lx
  = binary_round_aux prec emax mode_NE sx mx ex lx.
Proof.
unfold SpecFloat.binary_round_aux, binary_round_aux.
set (mrse' := shr_fexp _ _ _).
case mrse'; intros mrs' e'; simpl.
now rewrite (round_nearest_even_equiv sx).
Qed.

Lemma binary_round_equiv s m e :
  SpecFloat.binary_round prec emax s m e =
  binary_round prec emax mode_NE s m e.
Proof.
unfold SpecFloat.binary_round, binary_round, shl_align_fexp.
set (mez := shl_align _ _ _); case mez as [mz ez].
apply binary_round_aux_equiv.
Qed.

Lemma binary_normalize_equiv m e szero :
  SpecFloat.binary_normalize prec emax m e szero
  = B2SF (binary_normalize prec emax Hprec Hmax mode_NE m e szero).
Proof.
case m as [ | p | p].
- now simpl.
- simpl; rewrite B2SF_SF2B; apply binary_round_equiv.
- simpl; rewrite B2SF_SF2B; apply binary_round_equiv.
Qed.

Theorem SFadd_Bplus (x y : bf) :
  SFadd prec emax (B2SF x) (B2SF y) = B2SF (Bplus mode_NE x y).
Proof.
destruct x as [sx|sx| |sx mx ex Bx]; destruct y as [sy|sy| |sy my ey By];
  try (now (trivial || simpl; case Bool.eqb)).
apply binary_normalize_equiv.
Qed.

Theorem SFsub_Bminus (x y : bf) :
  SFsub prec emax (B2SF x) (B2SF y) = B2SF (Bminus mode_NE x y).
Proof.
destruct x as [sx|sx| |sx mx ex Bx]; destruct y as [sy|sy| |sy my ey By];
  try (now (trivial || simpl; case Bool.eqb)).
simpl. unfold Zminus. rewrite <- cond_Zopp_negb. apply binary_normalize_equiv.
Qed.

Theorem SFmul_Bmult (x y : bf) :
  SFmul prec emax (B2SF x) (B2SF y) = B2SF (Bmult mode_NE x y).
Proof.
destruct x as [sx|sx| |sx mx ex Bx]; destruct y as [sy|sy| |sy my ey By]; try now trivial.
simpl. rewrite B2SF_SF2B. apply binary_round_aux_equiv.
Qed.
End Gen.

Lemma Hp53 : FLX.Prec_gt_0 53. Proof. reflexivity. Qed.
Lemma He1024 : Prec_lt_emax 53 1024. Proof. reflexivity. Qed.
#[local] Existing Instance Hp53.
#[local] Existing Instance He1024.
Notation b64 := (binary_float 53 1024).

Definition b_one : b64 := @B754_finite 53 1024 false 4503599627370496 (-52) eq_refl.
Definition b_two_m53 : b64 := @B754_finite 53 1024 false 4503599627370496 (-105) eq_refl.
Definition b_of_Z (k : Z) : b64 := binary_normalize 53 1024 Hp53 He1024 mode_NE k 0 false.
Definition b_unit (raw : Z) : b64 := Bmult mode_NE (b_of_Z (Z.shiftr raw 11)) b_two_m53.

Lemma f_one_b : f_one = B2SF b_one. Proof. reflexivity. Qed.
Lemma f_two_m53_b : f_two_m53 = B2SF b_two_m53. Proof. reflexivity. Qed.
Lemma f_of_Z_b k : f_of_Z k = B2SF (b_of_Z k).
Proof. unfold f_of_Z, b_of_Z. apply binary_normalize_equiv. Qed.
Lemma f_unit_b raw : f_unit raw = B2SF (b_unit raw).
Proof. unfold f_unit, b_unit. rewrite f_of_Z_b, f_two_m53_b. apply (SFmul_Bmult 53 1024 Hp53 He1024). Qed.

Definition b_res (s e : b64) (raw : Z) : b64 :=
  Bplus mode_NE (Bmult mode_NE s (Bminus mode_NE b_one (b_unit raw))) (Bmult mode_NE e (b_unit raw)).

Lemma guard_finite (r s e : b64) :
  is_finite s = true -> is_finite e = true ->
  f_ge (B2SF r) (B2SF s) = true -> SFltb (B2SF r) (B2SF e) = true -> is_finite r = true.
Proof.
  intros Fs Fe G1 G2. destruct r as [sr|sr| |sr mr er Br]; try reflexivity; exfalso.
  - destruct s as [ss|ss| |ss ms es Bs], e as [se|se| |se me ee Be]; try discriminate;
      destruct sr; cbn in G1, G2; discriminate.
  - discriminate.
Qed.

Theorem float_in_range_R (s e : b64) (raw : Z) :
  is_finite s = true -> is_finite e = true -> (B2R s < B2R e)%R ->
  exists x : b64, float_range (B2SF s) (B2SF e) raw = Some (B2SF x)
                  /\ is_finite x = true /\ (B2R s <= B2R x < B2R e)%R.
Proof.
  intros Fs Fe Hlt.
  assert (Hc : SFltb (B2SF s) (B2SF e) = true).
  { unfold SFltb. change (SFcompare (B2SF s) (B2SF e)) with (Bcompare s e).
    rewrite Bcompare_correct by assumption. now rewrite Rcompare_Lt. }
  unfold float_range. rewrite Hc.
  rewrite f_unit_b, f_one_b. unfold fprec, femax.
  rewrite (SFsub_Bminus 53 1024 Hp53 He1024).
  rewrite !(SFmul_Bmult 53 1024 Hp53 He1024). rewrite (SFadd_Bplus 53 1024 Hp53 He1024).
  fold (b_res s e raw). set (r := b_res s e raw).
  destruct (f_ge (B2SF r) (B2SF s) && SFltb (B2SF r) (B2SF e)) eqn:G.
  - apply andb_true_iff in G as [G1 G2].
    assert (Fr : is_finite r = true) by exact (guard_finite r s e Fs Fe G1 G2).
    exists r. split; [reflexivity|]. split; [exact Fr|]. split.
    + unfold f_ge in G1. change (SFcompare (B2SF r) (B2SF s)) with (Bcompare r s) in G1.
      rewrite Bcompare_correct in G1 by assumption.
      destruct (Rcompare_spec (B2R r) (B2R s)); try discriminate; lra.
    + unfold SFltb in G2. change (SFcompare (B2SF r) (B2SF e)) with (Bcompare r e) in G2.
      rewrite Bcompare_correct in G2 by assumption.
      destruct (Rcompare_spec (B2R r) (B2R e)); try discriminate; lra.
  - exists s. split; [reflexivity|]. split; [exact Fs|]. lra.
Qed.

(** * the unit value is exact *)
Lemma bpow_IZR e : 0 <= e -> bpow radix2 e = IZR (2 ^ e).
Proof. intros He. symmetry. apply (IZR_Zpower radix2 e He). Qed.

Lemma small_lt_emax k : Z.abs k < 2 ^ 53 -> (Rabs (IZR k) < bpow radix2 1024)%R.
Proof.
  intros Hk. rewrite <- abs_IZR. rewrite bpow_IZR by lia. apply IZR_lt.
  eapply Z.lt_trans; [exact Hk|]. apply Z.pow_lt_mono_r; lia.
Qed.

Lemma format_scaled k e : Z.abs k < 2 ^ 53 -> -1074 <= e ->
  generic_format radix2 (fexp 53 1024) (IZR k * bpow radix2 e)%R.
Proof.
  intros Hk He. change (fexp 53 1024) with (FLT_exp (-1074) 53).
  apply generic_format_FLT. apply (FLT_spec radix2 (-1074) 53 _ (Float radix2 k e)).
  - reflexivity.
  - exact Hk.
  - exact He.
Qed.

Lemma b_of_Z_correct k : 0 <= k < 2 ^ 53 -> B2R (b_of_Z k) = IZR k /\ is_finite (b_of_Z k) = true.
Proof.
  intros Hk. unfold b_of_Z.
  pose proof (binary_normalize_correct 53 1024 Hp53 He1024 mode_NE k 0 false) as H. cbv zeta in H.
  assert (Hx : F2R (Float radix2 k 0) = IZR k) by (unfold F2R; simpl; ring).
  rewrite Hx in H.
  assert (Hg : generic_format radix2 (fexp 53 1024) (IZR k)).
  { replace (IZR k) with (IZR k * bpow radix2 0)%R by (simpl; ring). apply format_scaled; lia. }
  rewrite round_generic in H; [|apply valid_rnd_round_mode|exact Hg].
  rewrite Rlt_bool_true in H by (apply small_lt_emax; lia).
  destruct H as [H1 [H2 _]]. split; assumption.
Qed.

Lemma b_two_m53_R : B2R b_two_m53 = bpow radix2 (-53).
Proof.
  unfold b_two_m53, B2R, F2R. cbn [Fnum Fexp cond_Zopp].
  change (-53) with (52 + -105). rewrite bpow_plus. rewrite (bpow_IZR 52) by lia. reflexivity.
Qed.

Theorem float_unit_exact raw :
  0 <= raw < 2 ^ 64 ->
  exists u : b64, f_unit raw = B2SF u /\ is_finite u = true
                  /\ B2R u = (IZR (raw / 2 ^ 11) * / IZR (2 ^ 53))%R /\ (0 <= B2R u < 1)%R.
Proof.
  intros Hraw. exists (b_unit raw). split; [apply f_unit_b|].
  unfold b_unit. rewrite Z.shiftr_div_pow2 by lia. set (k := raw / 2 ^ 11).
  assert (Hk : 0 <= k < 2 ^ 53).
  { unfold k. split; [apply Z.div_pos; lia|apply Z.div_lt_upper_bound; lia]. }
  destruct (b_of_Z_correct k Hk) as [Hr Hf].
  pose proof (Bmult_correct 53 1024 Hp53 He1024 mode_NE (b_of_Z k) b_two_m53) as H.
  rewrite Hr, b_two_m53_R in H.
  assert (Hg : generic_format radix2 (fexp 53 1024) (IZR k * bpow radix2 (-53))%R)
    by (apply format_scaled; lia).
  rewrite round_generic in H; [|apply valid_rnd_round_mode|exact Hg].
  assert (Hpos : (0 < bpow radix2 (-53))%R) by apply bpow_gt_0.
  assert (Hk0 : (0 <= IZR k)%R) by (apply IZR_le; lia).
  assert (Hk1 : (IZR k < bpow radix2 53)%R) by (rewrite bpow_IZR by lia; apply IZR_lt; lia).
  assert (Hone : (bpow radix2 53 * bpow radix2 (-53) = 1)%R) by (rewrite <- bpow_plus; reflexivity).
  assert (Hb : (0 <= IZR k * bpow radix2 (-53) < 1)%R).
  { split; [apply Rmult_le_pos; lra|]. rewrite <- Hone. apply Rmult_lt_compat_r; assumption. }
  rewrite Rlt_bool_true in H.
  2:{ rewrite Rabs_pos_eq by lra. eapply Rlt_trans; [apply Hb|]. change 1%R with (bpow radix2 0). apply bpow_lt. lia. }
  destruct H as [H1 [H2 _]]. rewrite Hf in H2. split; [exact H2|].
  rewrite H1. split; [|exact Hb].
  f_equal.
Qed.
