(** C14 — validity of the binary64 values the model handles (no axioms, integers only):
    every value decoded from a bit pattern is a canonical binary64 ([valid_binary 53 1024]),
    the SpecFloat operations of the model ([SFadd], [SFsub], [SFmul], [binary_normalize]) return
    canonical values on canonical arguments, hence so does [float_range]; and on canonical values
    the bit-pattern encoding is inverted by the decoding: [sf_of_bits (bits_of_sf y) = y].
    (Flocq proves the same through real numbers; this file stays inside Z so that the
    correspondence theorem of ProofsCorr.v is closed under the global context.) *)
From Coq Require Import ZArith Bool Lia.
From Coq Require Import Floats.SpecFloat.
From RlibV Require Import C14.Model.
Open Scope Z_scope.

Notation fx := (fexp 53 1024).
Notation vb := (valid_binary 53 1024).

Lemma fexp_eq z : fx z = Z.max (z - 53) (-1074).
Proof. reflexivity. Qed.

Lemma digits2_size p : digits2_pos p = Pos.size p.
Proof. induction p as [p IH|p IH|]; cbn [digits2_pos Pos.size]; congruence. Qed.

Lemma Zdigits2_log2 m : 0 < m -> Zdigits2 m = Z.log2 m + 1.
Proof.
  destruct m as [|p|p]; try lia. intros _. cbn [Zdigits2]. rewrite digits2_size.
  destruct p as [p|p|]; cbn [Pos.size Z.log2]; lia.
Qed.

Lemma Zdigits2_nonneg m : 0 <= Zdigits2 m.
Proof. destruct m; cbn [Zdigits2]; lia. Qed.

Lemma Zdigits2_pos m : 0 < m -> 1 <= Zdigits2 m.
Proof. destruct m; cbn [Zdigits2]; lia. Qed.

Lemma Zdigits2_mono a b : 0 <= a <= b -> Zdigits2 a <= Zdigits2 b.
Proof.
  intros [Ha Hab]. destruct (Z.eq_dec a 0) as [->|Hn].
  - apply Zdigits2_nonneg.
  - rewrite !Zdigits2_log2 by lia. pose proof (Z.log2_le_mono a b Hab). lia.
Qed.

Lemma Zdigits2_div2 m : 0 <= m -> Zdigits2 (Z.div2 m) = Z.max 0 (Zdigits2 m - 1).
Proof.
  destruct m as [|[p|p|]|p]; intros H; cbn [Z.div2 Zdigits2 digits2_pos Pos.div2]; lia.
Qed.

Lemma shr_1_m mrs : 0 <= shr_m mrs -> shr_m (shr_1 mrs) = Z.div2 (shr_m mrs).
Proof.
  destruct mrs as [m r s]. cbn [shr_m]. intros H.
  destruct m as [|[p|p|]|p]; cbn [shr_1 shr_m Z.div2 Pos.div2]; try reflexivity; lia.
Qed.

Lemma iter_pos_inv {A} (f : A -> A) (Q : Z -> A -> Prop) :
  (forall k x, 0 <= k -> Q k x -> Q (k + 1) (f x)) ->
  forall p k x, 0 <= k -> Q k x -> Q (k + Zpos p) (iter_pos f p x).
Proof.
  intros Hs. induction p as [p IH|p IH|]; intros k x Hk HQ; cbn [iter_pos].
  - replace (k + Zpos p~1) with (k + 1 + Zpos p + Zpos p) by lia.
    apply IH; [lia|]. apply IH; [lia|]. now apply Hs.
  - replace (k + Zpos p~0) with (k + Zpos p + Zpos p) by lia.
    apply IH; [lia|]. now apply IH.
  - now apply Hs.
Qed.

Lemma shr_iter_digits p mrs :
  0 <= shr_m mrs ->
  0 <= shr_m (iter_pos shr_1 p mrs)
  /\ Zdigits2 (shr_m (iter_pos shr_1 p mrs)) = Z.max 0 (Zdigits2 (shr_m mrs) - Zpos p).
Proof.
  intros H0.
  apply (iter_pos_inv shr_1
           (fun k x => 0 <= shr_m x /\ Zdigits2 (shr_m x) = Z.max 0 (Zdigits2 (shr_m mrs) - k)) ) with (k := 0) (x := mrs).
  - intros k x Hk [Hx Hd]. rewrite shr_1_m by exact Hx. split.
    + apply Z.div2_nonneg. exact Hx.
    + rewrite Zdigits2_div2 by exact Hx. lia.
  - lia.
  - split; [exact H0|]. pose proof (Zdigits2_nonneg (shr_m mrs)). lia.
Qed.

Lemma shr_m_of_loc m l : shr_m (shr_record_of_loc m l) = m.
Proof. destruct l as [|[| |]]; reflexivity. Qed.

Lemma shr_fexp_canon m e l mrs e' :
  0 <= m -> e <= fx (Zdigits2 m + e) ->
  shr_fexp 53 1024 m e l = (mrs, e') ->
  0 <= shr_m mrs /\ fx (Zdigits2 (shr_m mrs) + e') = e'.
Proof.
  intros Hm Hle. unfold shr_fexp, shr.
  pose proof (Zdigits2_nonneg m) as Hd.
  destruct (fx (Zdigits2 m + e) - e) as [|p|p] eqn:Ek; intros E; injection E as <- <-.
  - rewrite shr_m_of_loc. split; [exact Hm|lia].
  - destruct (shr_iter_digits p (shr_record_of_loc m l)) as [H1 H2]; [now rewrite shr_m_of_loc|].
    rewrite shr_m_of_loc in H2. split; [exact H1|]. rewrite H2.
    rewrite fexp_eq in *. lia.
  - lia.
Qed.

Lemma rne_bounds m l : m <= round_nearest_even m l <= m + 1.
Proof. destruct l as [|[| |]]; cbn [round_nearest_even]; try lia. destruct (Z.even m); lia. Qed.

Lemma fexp_mono a b : a <= b -> fx a <= fx b.
Proof. rewrite !fexp_eq. lia. Qed.

Lemma binary_round_aux_valid sx mx ex lx :
  0 <= mx -> ex <= fx (Zdigits2 mx + ex) -> vb (binary_round_aux 53 1024 sx mx ex lx) = true.
Proof.
  intros Hm Hle. unfold binary_round_aux.
  destruct (shr_fexp 53 1024 mx ex lx) as [mrs1 e1] eqn:E1.
  apply shr_fexp_canon in E1 as [H1 C1]; [|exact Hm|exact Hle].
  set (m2 := round_nearest_even (shr_m mrs1) (loc_of_shr_record mrs1)).
  pose proof (rne_bounds (shr_m mrs1) (loc_of_shr_record mrs1)) as Hb. fold m2 in Hb.
  destruct (shr_fexp 53 1024 m2 e1 loc_Exact) as [mrs2 e2] eqn:E2.
  apply shr_fexp_canon in E2 as [H2 C2]; [|lia|].
  - destruct (shr_m mrs2) as [|m|m] eqn:Em; [reflexivity| |lia].
    destruct (Zle_bool e2 (1024 - 53)) eqn:Ee; [|reflexivity].
    cbn [valid_binary]. unfold bounded, canonical_mantissa. rewrite Ee, andb_true_r.
    cbn [Zdigits2] in C2. rewrite C2. unfold Zeq_bool. now rewrite Z.compare_refl.
  - rewrite <- C1 at 1. apply fexp_mono.
    pose proof (Zdigits2_mono (shr_m mrs1) m2). lia.
Qed.

Lemma digits2_shift_pos d m : Zpos (digits2_pos (shift_pos d m)) = Zpos (digits2_pos m) + Zpos d.
Proof.
  unfold shift_pos. induction d as [|d IH] using Pos.peano_ind.
  - cbn [Pos.iter digits2_pos]. lia.
  - rewrite Pos.iter_succ. cbn [digits2_pos]. lia.
Qed.

Lemma binary_round_valid sx mx ex : vb (binary_round 53 1024 sx mx ex) = true.
Proof.
  unfold binary_round, shl_align.
  destruct (fx (Zpos (digits2_pos mx) + ex) - ex) as [|d|d] eqn:Ek;
    apply binary_round_aux_valid; try lia; cbn [Zdigits2]; try lia.
  rewrite digits2_shift_pos.
  replace (Zpos (digits2_pos mx) + Zpos d + fx (Zpos (digits2_pos mx) + ex)) with (Zpos (digits2_pos mx) + ex) by lia.
  lia.
Qed.

Lemma binary_normalize_valid m e sz : vb (binary_normalize 53 1024 m e sz) = true.
Proof. destruct m; cbn [binary_normalize]; [reflexivity|apply binary_round_valid|apply binary_round_valid]. Qed.

Lemma canonical_iff m e : vb (S754_finite false m e) = true <-> fx (Zpos (digits2_pos m) + e) = e /\ e <= 971.
Proof.
  cbn [valid_binary]. unfold bounded, canonical_mantissa. rewrite andb_true_iff.
  rewrite <- Zeq_is_eq_bool. rewrite <- Zle_is_le_bool. reflexivity.
Qed.

Lemma valid_sign s s' m e : vb (S754_finite s m e) = true -> vb (S754_finite s' m e) = true.
Proof. intros H; exact H. Qed.

Lemma SFmul_valid x y : vb x = true -> vb y = true -> vb (SFmul 53 1024 x y) = true.
Proof.
  intros Hx Hy. destruct x as [sx|sx| |sx mx ex], y as [sy|sy| |sy my ey]; try reflexivity.
  cbn [SFmul]. apply (canonical_iff mx ex) in Hx as [Cx _]. apply (canonical_iff my ey) in Hy as [Cy _].
  apply binary_round_aux_valid; [lia|].
  assert (HD : Zpos (digits2_pos mx) + Zpos (digits2_pos my) - 1 <= Zdigits2 (Zpos (mx * my))).
  { pose proof (Zdigits2_log2 (Zpos mx) ltac:(lia)) as E1. pose proof (Zdigits2_log2 (Zpos my) ltac:(lia)) as E2.
    pose proof (Zdigits2_log2 (Zpos (mx * my)) ltac:(lia)) as E3. cbn [Zdigits2] in E1, E2. rewrite E1, E2, E3.
    pose proof (Z.log2_mul_below (Zpos mx) (Zpos my) ltac:(lia) ltac:(lia)) as Hl.
    rewrite Pos2Z.inj_mul. lia. }
  rewrite fexp_eq in *. lia.
Qed.

Lemma SFadd_valid x y : vb x = true -> vb y = true -> vb (SFadd 53 1024 x y) = true.
Proof.
  intros Hx Hy. destruct x as [sx|sx| |sx mx ex], y as [sy|sy| |sy my ey]; cbn [SFadd]; try reflexivity; try assumption;
    try (destruct (Bool.eqb sx sy); reflexivity).
  apply binary_normalize_valid.
Qed.

Lemma SFsub_valid x y : vb x = true -> vb y = true -> vb (SFsub 53 1024 x y) = true.
Proof.
  intros Hx Hy. destruct x as [sx|sx| |sx mx ex], y as [sy|sy| |sy my ey]; cbn [SFsub]; try reflexivity; try assumption;
    try (destruct (Bool.eqb sx (negb sy)); reflexivity).
  apply binary_normalize_valid.
Qed.

(** * bit patterns *)
Lemma decode_fields (s : bool) E M :
  0 <= E < 2 ^ 11 -> 0 <= M < 2 ^ 52 ->
  let b := (if s then 2 ^ 63 else 0) + E * 2 ^ 52 + M in
  Z.testbit b 63 = s /\ (b / 2 ^ 52) mod 2 ^ 11 = E /\ b mod 2 ^ 52 = M.
Proof.
  intros HE HM b. subst b. rewrite Z.testbit_odd, Z.shiftr_div_pow2 by lia.
  change (2 ^ 63) with 9223372036854775808. change (2 ^ 52) with 4503599627370496 in *.
  change (2 ^ 11) with 2048 in *.
  repeat split.
  - destruct s.
    + replace ((9223372036854775808 + E * 4503599627370496 + M) / 9223372036854775808) with 1; [reflexivity|].
      apply Z.div_unique with (r := E * 4503599627370496 + M); lia.
    + rewrite Z.div_small; [reflexivity|lia].
  - destruct s; Z.div_mod_to_equations; lia.
  - destruct s; Z.div_mod_to_equations; lia.
Qed.

Lemma sf_of_bits_valid b : vb (sf_of_bits b) = true.
Proof.
  unfold sf_of_bits.
  assert (HM : 0 <= b mod 2 ^ 52 < 2 ^ 52) by (apply Z.mod_pos_bound; lia).
  assert (HE : 0 <= (b / 2 ^ 52) mod 2 ^ 11 < 2 ^ 11) by (apply Z.mod_pos_bound; lia).
  set (M := b mod 2 ^ 52) in *. set (E := (b / 2 ^ 52) mod 2 ^ 11) in *.
  cbv zeta.
  destruct (E =? 0) eqn:E0.
  - destruct (M =? 0) eqn:M0; [reflexivity|]. apply Z.eqb_neq in M0.
    apply canonical_iff. split; [|lia].
    destruct M as [|p|p] eqn:EM; try lia. cbn [Z.to_pos].
    pose proof (Zdigits2_log2 (Zpos p) ltac:(lia)) as Hd. cbn [Zdigits2] in Hd. rewrite Hd.
    assert (Z.log2 (Zpos p) < 52) by (apply Z.log2_lt_pow2; lia).
    rewrite fexp_eq. lia.
  - apply Z.eqb_neq in E0. destruct (E =? 2047) eqn:E1.
    + destruct (M =? 0); reflexivity.
    + apply Z.eqb_neq in E1. apply canonical_iff.
      change (2 ^ 11) with 2048 in HE. split; [|lia].
      destruct (M + 2 ^ 52) as [|p|p] eqn:EM; try lia. cbn [Z.to_pos].
      pose proof (Zdigits2_log2 (Zpos p) ltac:(lia)) as Hd. cbn [Zdigits2] in Hd. rewrite Hd.
      assert (Z.log2 (Zpos p) = 52).
      { apply Z.log2_unique; [lia|]. rewrite <- EM. change (2 ^ (52 + 1)) with (2 ^ 52 + 2 ^ 52). lia. }
      rewrite fexp_eq. lia.
Qed.

Lemma bits_roundtrip y : vb y = true -> sf_of_bits (bits_of_sf y) = y.
Proof.
  intros Hv. destruct y as [s|s| |s m e].
  - destruct s; reflexivity.
  - destruct s; reflexivity.
  - reflexivity.
  - apply (valid_sign s false) in Hv. apply canonical_iff in Hv as [C He].
    pose proof (Zdigits2_log2 (Zpos m) ltac:(lia)) as Hd. cbn [Zdigits2] in Hd. rewrite Hd, fexp_eq in C.
    cbn [bits_of_sf]. destruct (Zpos m <? 2 ^ 52) eqn:Hm.
    + apply Z.ltb_lt in Hm.
      assert (Z.log2 (Zpos m) < 52) by (apply Z.log2_lt_pow2; lia).
      assert (e = -1074) by lia. subst e.
      destruct (decode_fields s 0 (Zpos m)) as [F1 [F2 F3]]; [lia|lia|].
      rewrite Z.mul_0_l, Z.add_0_r in F1, F2, F3.
      unfold sf_of_bits. rewrite F1, F2, F3. reflexivity.
    + apply Z.ltb_ge in Hm.
      assert (52 <= Z.log2 (Zpos m)) by (apply Z.log2_le_pow2; lia).
      assert (HL : Z.log2 (Zpos m) = 52) by lia.
      assert (Zpos m < 2 ^ 53) by (apply Z.log2_lt_pow2; lia).
      assert (-1074 <= e) by lia.
      destruct (decode_fields s (e + 1075) (Zpos m - 2 ^ 52)) as [F1 [F2 F3]];
        [change (2 ^ 11) with 2048; lia|change (2 ^ 53) with (2 ^ 52 + 2 ^ 52) in *; lia|].
      unfold sf_of_bits. rewrite F1, F2, F3. cbv zeta.
      destruct (e + 1075 =? 0) eqn:E0; [apply Z.eqb_eq in E0; lia|].
      destruct (e + 1075 =? 2047) eqn:E1; [apply Z.eqb_eq in E1; lia|].
      replace (Zpos m - 2 ^ 52 + 2 ^ 52) with (Zpos m) by lia. cbn [Z.to_pos].
      f_equal. lia.
Qed.

Lemma f_unit_valid raw : vb (f_unit raw) = true.
Proof. unfold f_unit. apply SFmul_valid; [apply binary_normalize_valid|reflexivity]. Qed.

Lemma float_range_valid s e raw y :
  vb s = true -> vb e = true -> float_range s e raw = Some y -> vb y = true.
Proof.
  intros Hs He. unfold float_range. destruct (SFltb s e); [|discriminate].
  cbv zeta. intros E. injection E as <-.
  match goal with |- vb (if ?c then _ else _) = true => destruct c end; [|exact Hs].
  exact (SFadd_valid _ _ (SFmul_valid _ _ Hs (SFsub_valid f_one (f_unit raw) eq_refl (f_unit_valid raw)))
                         (SFmul_valid _ _ He (f_unit_valid raw))).
Qed.
