(** C14 — integer ranges: result in range, reachability, truncation, panics. *)
From Coq Require Import ZArith List Bool Lia.
From RlibV Require Import C14.Model C14.Corr C14.Spec.
Import ListNotations.
Open Scope Z_scope.

Lemma in_ty_iff sg w x : in_ty sg w x = true <-> tmin sg w <= x <= tmax sg w.
Proof. unfold in_ty. rewrite andb_true_iff, !Z.leb_le. tauto. Qed.

Lemma chk_some sg w x : tmin sg w <= x <= tmax sg w -> chk sg w x = Some x.
Proof. intros H. unfold chk. apply in_ty_iff in H. now rewrite H. Qed.

Lemma pow_split w : 1 <= w -> 2 ^ w = 2 * 2 ^ (w - 1) /\ 0 < 2 ^ (w - 1).
Proof.
  intros Hw. split.
  - replace w with (Z.succ (w - 1)) at 1 by lia. rewrite Z.pow_succ_r by lia. reflexivity.
  - apply Z.pow_pos_nonneg; lia.
Qed.

(** two's-complement reinterpretation is the identity on (the residue of) a signed value *)
Lemma to_signed_mod w v :
  1 <= w -> - 2 ^ (w - 1) <= v < 2 ^ (w - 1) -> to_signed w (v mod 2 ^ w) = v.
Proof.
  intros Hw Hv. destruct (pow_split w Hw) as [HM HH].
  unfold to_signed, wrap. rewrite Z.mod_mod by lia.
  set (M := 2 ^ w) in *. set (H := 2 ^ (w - 1)) in *.
  destruct (Z.lt_ge_cases v 0) as [Hneg|Hpos].
  - assert (Hm : v mod M = v + M).
    { rewrite <- (Z_mod_plus_full v 1 M). rewrite Z.mod_small; lia. }
    rewrite Hm. destruct (v + M <? H) eqn:E; [apply Z.ltb_lt in E|]; lia.
  - rewrite Z.mod_small by lia. destruct (v <? H) eqn:E; [reflexivity|apply Z.ltb_ge in E; lia].
Qed.

Lemma to_signed_range w x : 1 <= w -> - 2 ^ (w - 1) <= to_signed w x < 2 ^ (w - 1).
Proof.
  intros Hw. destruct (pow_split w Hw) as [HM HH]. unfold to_signed, wrap.
  assert (Hb : 0 <= x mod 2 ^ w < 2 ^ w) by (apply Z.mod_pos_bound; lia).
  destruct (x mod 2 ^ w <? 2 ^ (w - 1)) eqn:E; [apply Z.ltb_lt in E|apply Z.ltb_ge in E]; lia.
Qed.

Lemma to_signed_congr w x : 1 <= w -> (to_signed w x) mod 2 ^ w = x mod 2 ^ w.
Proof.
  intros Hw. destruct (pow_split w Hw) as [HM HH]. unfold to_signed, wrap.
  destruct (x mod 2 ^ w <? 2 ^ (w - 1)).
  - apply Z.mod_mod. lia.
  - rewrite <- (Z_mod_plus_full _ 1 (2 ^ w)). replace (x mod 2 ^ w - 2 ^ w + 1 * 2 ^ w) with (x mod 2 ^ w) by lia.
    apply Z.mod_mod. lia.
Qed.

(** * the half-open range *)
Lemma range_spec sg w s e raw :
  valid_width w -> in_ty sg w s = true -> in_ty sg w e = true -> s < e ->
  range sg w s e raw = Some (s + raw mod (e - s)).
Proof.
  intros [Hw _] Hs He Hlt. apply in_ty_iff in Hs. apply in_ty_iff in He.
  destruct (pow_split w Hw) as [HM HH].
  unfold range. apply Z.ltb_lt in Hlt as Hltb. rewrite Hltb.
  assert (Hr : 0 <= raw mod (e - s) < e - s) by (apply Z.mod_pos_bound; lia).
  destruct sg; cbn [tmin tmax] in Hs, He.
  - (* signed *)
    assert (Hlen : wrap w (wrap w e - wrap w s) = e - s).
    { unfold wrap. rewrite <- Zminus_mod. apply Z.mod_small. lia. }
    cbv zeta. rewrite Hlen.
    destruct (e - s =? 0) eqn:E; [apply Z.eqb_eq in E; lia|].
    f_equal. unfold wrap. rewrite (Z.mod_small (raw mod (e - s))) by lia.
    rewrite Zplus_mod_idemp_r. rewrite to_signed_mod by lia. lia.
  - (* unsigned *)
    rewrite chk_some by (cbn [tmin tmax]; lia).
    destruct (e - s =? 0) eqn:E; [apply Z.eqb_eq in E; lia|].
    unfold wrap. rewrite (Z.mod_small (raw mod (e - s))) by lia.
    rewrite chk_some by (cbn [tmin tmax]; lia). f_equal. lia.
Qed.

Lemma range_empty sg w s e raw : e <= s -> range sg w s e raw = None.
Proof. intros H. unfold range. apply Z.ltb_ge in H. now rewrite H. Qed.

Lemma tmin_le_tmax sg w : 1 <= w -> tmin sg w <= 0 <= tmax sg w.
Proof. intros Hw. destruct (pow_split w Hw). destruct sg; cbn [tmin tmax]; lia. Qed.

Lemma in_ty_0 sg w : 1 <= w -> in_ty sg w 0 = true.
Proof. intros Hw. apply in_ty_iff. now apply tmin_le_tmax. Qed.

(** * the inclusive range *)
Lemma range_incl_spec sg w s e raw :
  valid_width w -> in_ty sg w s = true -> in_ty sg w e = true -> s <= e ->
  range_incl sg w s e raw =
    Some (if (s =? tmin sg w) && (e =? tmax sg w) then cast sg w raw else s + raw mod (e - s + 1)).
Proof.
  intros Hv Hs He Hle. pose proof Hs as Hs'. pose proof He as He'.
  apply in_ty_iff in Hs'. apply in_ty_iff in He'.
  unfold range_incl. destruct (s =? tmin sg w) eqn:Es; cbn [negb andb].
  - apply Z.eqb_eq in Es. destruct (e =? tmax sg w) eqn:Ee; cbn [negb].
    + reflexivity.
    + apply Z.eqb_neq in Ee. rewrite chk_some by lia.
      rewrite range_spec; auto; try lia.
      * replace (e + 1 - s) with (e - s + 1) by lia. reflexivity.
      * apply in_ty_iff. lia.
  - apply Z.eqb_neq in Es. rewrite chk_some by lia.
    rewrite range_spec; auto; try lia.
    + replace (e - (s - 1)) with (e - s + 1) by lia.
      assert (Hr : 0 <= raw mod (e - s + 1) < e - s + 1) by (apply Z.mod_pos_bound; lia).
      rewrite chk_some by lia. f_equal. lia.
    + apply in_ty_iff. lia.
Qed.

Lemma range_incl_empty sg w s e raw :
  in_ty sg w s = true -> in_ty sg w e = true -> e < s -> range_incl sg w s e raw = None.
Proof.
  intros Hs He Hlt. apply in_ty_iff in Hs. apply in_ty_iff in He.
  unfold range_incl. destruct (s =? tmin sg w) eqn:Es; [apply Z.eqb_eq in Es; lia|].
  cbn [negb]. rewrite chk_some by lia. rewrite range_empty by lia. reflexivity.
Qed.

(** * all forms at once *)
Lemma gen_spec sg w f raw :
  valid_width w -> form_valid sg w f -> form_lo sg w f <= form_hi sg w f ->
  gen sg w f raw =
    Some (if full_width sg w f then cast sg w raw
          else form_lo sg w f + raw mod (form_hi sg w f - form_lo sg w f + 1)).
Proof.
  intros Hv Hf Hne. pose proof Hv as [Hw _]. pose proof (tmin_le_tmax sg w Hw) as H0.
  unfold full_width. destruct f as [s e|s e|e|e|]; cbn [gen form_lo form_hi form_valid] in *.
  - destruct Hf as [Hs He]. rewrite range_spec by (auto; lia).
    apply in_ty_iff in He. replace (e - 1 =? tmax sg w) with false by (symmetry; apply Z.eqb_neq; lia).
    rewrite andb_false_r. replace (e - 1 - s + 1) with (e - s) by lia. reflexivity.
  - destruct Hf as [Hs He]. now rewrite range_incl_spec.
  - rewrite range_spec by (auto using in_ty_0; lia).
    apply in_ty_iff in Hf. replace (e - 1 =? tmax sg w) with false by (symmetry; apply Z.eqb_neq; lia).
    rewrite andb_false_r. replace (e - 1 - 0 + 1) with (e - 0) by lia. reflexivity.
  - rewrite range_incl_spec by (auto using in_ty_0; lia). reflexivity.
  - rewrite !Z.eqb_refl. reflexivity.
Qed.

Lemma cast_in_range sg w x : 1 <= w -> tmin sg w <= cast sg w x <= tmax sg w.
Proof.
  intros Hw. destruct (pow_split w Hw). destruct sg; cbn [cast tmin tmax].
  - pose proof (to_signed_range w x Hw). lia.
  - unfold wrap. assert (0 <= x mod 2 ^ w < 2 ^ w) by (apply Z.mod_pos_bound; lia). lia.
Qed.

Lemma cast_congr sg w x : 1 <= w -> (cast sg w x) mod 2 ^ w = x mod 2 ^ w.
Proof.
  intros Hw. destruct sg; cbn [cast]; [now apply to_signed_congr|].
  unfold wrap. apply Z.mod_mod. destruct (pow_split w Hw); lia.
Qed.

Lemma cast_wrap_id sg w x : 1 <= w -> tmin sg w <= x <= tmax sg w -> cast sg w (wrap w x) = x.
Proof.
  intros Hw Hx. destruct (pow_split w Hw). destruct sg; cbn [cast tmin tmax] in *.
  - unfold wrap. apply to_signed_mod; lia.
  - unfold wrap. rewrite Z.mod_mod by lia. apply Z.mod_small. lia.
Qed.

Theorem range_in_bounds sg w f raw :
  valid_width w -> form_valid sg w f -> form_lo sg w f <= form_hi sg w f ->
  exists x, gen sg w f raw = Some x /\ form_lo sg w f <= x <= form_hi sg w f /\ in_ty sg w x = true.
Proof.
  intros Hv Hf Hne. rewrite gen_spec by assumption. eexists. split; [reflexivity|].
  pose proof Hv as [Hw _].
  assert (Hb : tmin sg w <= form_lo sg w f /\ form_hi sg w f <= tmax sg w).
  { pose proof (tmin_le_tmax sg w Hw).
    destruct f as [s e|s e|e|e|]; cbn [form_lo form_hi form_valid] in *;
      repeat match goal with H : _ /\ _ |- _ => destruct H end;
      repeat match goal with H : in_ty _ _ _ = true |- _ => apply in_ty_iff in H end; lia. }
  unfold full_width. destruct ((form_lo sg w f =? tmin sg w) && (form_hi sg w f =? tmax sg w)) eqn:E.
  - apply andb_true_iff in E as [E1 E2]. apply Z.eqb_eq in E1, E2. rewrite E1, E2.
    pose proof (cast_in_range sg w raw Hw). split; [lia|]. apply in_ty_iff. lia.
  - assert (0 <= raw mod (form_hi sg w f - form_lo sg w f + 1) < form_hi sg w f - form_lo sg w f + 1)
      by (apply Z.mod_pos_bound; lia).
    split; [lia|]. apply in_ty_iff. lia.
Qed.

Theorem range_reachable sg w f x :
  valid_width w -> form_valid sg w f -> form_lo sg w f <= x <= form_hi sg w f ->
  gen sg w f (witness_raw sg w f x) = Some x /\ 0 <= witness_raw sg w f x < 2 ^ 64.
Proof.
  intros Hv Hf Hx. pose proof Hv as [Hw Hw64]. rewrite gen_spec by (auto; lia).
  destruct (pow_split w Hw) as [HM HH].
  assert (Hp : 2 ^ w <= 2 ^ 64) by (apply Z.pow_le_mono_r; lia).
  assert (Hb : tmin sg w <= form_lo sg w f /\ form_hi sg w f <= tmax sg w).
  { pose proof (tmin_le_tmax sg w Hw).
    destruct f as [s e|s e|e|e|]; cbn [form_lo form_hi form_valid] in *;
      repeat match goal with H : _ /\ _ |- _ => destruct H end;
      repeat match goal with H : in_ty _ _ _ = true |- _ => apply in_ty_iff in H end; lia. }
  assert (Hspan : tmax sg w - tmin sg w = 2 ^ w - 1) by (destruct sg; cbn [tmin tmax]; lia).
  unfold witness_raw. destruct (full_width sg w f) eqn:E.
  - split.
    + f_equal. apply cast_wrap_id; lia.
    + unfold wrap. assert (0 <= x mod 2 ^ w < 2 ^ w) by (apply Z.mod_pos_bound; lia). lia.
  - split.
    + f_equal. rewrite Z.mod_small by lia. lia.
    + lia.
Qed.

Theorem full_range_is_truncation sg w raw :
  valid_width w ->
  gen sg w FFull raw = Some (cast sg w raw)
  /\ gen sg w (FIncl (tmin sg w) (tmax sg w)) raw = Some (cast sg w raw)
  /\ in_ty sg w (cast sg w raw) = true
  /\ (cast sg w raw) mod 2 ^ w = raw mod 2 ^ w.
Proof.
  intros [Hw Hw64]. pose proof (tmin_le_tmax sg w Hw). repeat split.
  - cbn [gen]. unfold range_incl. rewrite !Z.eqb_refl. reflexivity.
  - apply in_ty_iff. now apply cast_in_range.
  - now apply cast_congr.
Qed.

Theorem empty_range_panics sg w f raw :
  valid_width w -> form_valid sg w f -> form_hi sg w f < form_lo sg w f -> gen sg w f raw = None.
Proof.
  intros [Hw _] Hf He. pose proof (tmin_le_tmax sg w Hw) as H0.
  destruct f as [s e|s e|e|e|]; cbn [gen form_lo form_hi form_valid] in *.
  - apply range_empty. lia.
  - destruct Hf. apply range_incl_empty; auto.
  - apply range_empty. lia.
  - apply range_incl_empty; auto. apply in_ty_iff. lia.
  - lia.
Qed.
