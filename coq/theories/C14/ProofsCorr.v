(** C14 — the correspondence corollary: on every case in scope, agreement of the implementation
    with the model ([model_check]) implies the model-independent specification ([spec_check]).
    Proved from the property theorems (range_in_bounds, range_reachable, empty_range_panics,
    float_in_range, float_empty_panics, shuffle_permutation, ...) and decoding lemmas.
    No axioms: the float part uses the [SFcompare]-level theorems and ProofsValid.v. *)
From Coq Require Import ZArith NArith List Bool Lia Permutation.
From Coq Require Import Floats.SpecFloat.
From RlibV Require Import Common.Batch C14.Model C14.Corr C14.Spec.
From RlibV Require Import C14.ProofsInt C14.ProofsLcg C14.ProofsShuffle C14.ProofsFloat C14.ProofsValid C14.ProofsMix.
Import ListNotations.
Open Scope Z_scope.

(** * decoding the boolean comparisons *)
Lemma ozeqb_eq a b : ozeqb a b = true -> a = b.
Proof.
  destruct a as [x|], b as [y|]; cbn [ozeqb oeqb]; intros H; try discriminate; [|reflexivity].
  apply Z.eqb_eq in H. now subst.
Qed.

Lemma ozeqb_refl a : ozeqb a a = true.
Proof. destruct a as [x|]; cbn [ozeqb oeqb]; [apply Z.eqb_refl|reflexivity]. Qed.

Lemma lzeqb_refl a : lzeqb a a = true.
Proof. unfold lzeqb. induction a as [|x a IH]; cbn [leqb]; [reflexivity|]. now rewrite Z.eqb_refl, IH. Qed.

Lemma olzeqb_eq a b : oeqb lzeqb a b = true -> a = b.
Proof.
  destruct a as [x|], b as [y|]; cbn [oeqb]; intros H; try discriminate; [|reflexivity].
  apply lzeqb_eq in H. now subst.
Qed.

Lemma leqb_ozeqb_eq a b : leqb ozeqb a b = true -> a = b.
Proof.
  revert b. induction a as [|x a IH]; intros [|y b] H; cbn [leqb] in H; try discriminate; [reflexivity|].
  apply andb_true_iff in H as [H1 H2]. apply ozeqb_eq in H1. subst. f_equal. now apply IH.
Qed.

Lemma width_ok_valid w : width_ok w = true -> valid_width w.
Proof. unfold width_ok, valid_width. rewrite andb_true_iff, !Z.leb_le. tauto. Qed.

Lemma form_ok_valid sg w f : form_ok sg w f = true -> form_valid sg w f.
Proof.
  destruct f as [s e|s e|e|e|]; cbn [form_ok form_valid]; try rewrite andb_true_iff; tauto.
Qed.

(** * integer ranges *)
(** whatever the model returns satisfies the specification of a single draw *)
Lemma gen_spec_int sg w f raw :
  valid_width w -> form_valid sg w f -> spec_int sg w f (gen sg w f raw) = true.
Proof.
  intros Hv Hf. destruct (Z_le_gt_dec (form_lo sg w f) (form_hi sg w f)) as [Hne|He].
  - destruct (range_in_bounds sg w f raw Hv Hf Hne) as [x [Hg [Hx Hty]]].
    rewrite Hg. cbn [spec_int]. unfold in_form. rewrite Hty. cbn [andb].
    apply andb_true_iff. split; apply Z.leb_le; [|lia].
    apply in_ty_iff in Hty. destruct f; cbn [form_member_lo form_lo] in *; lia.
  - rewrite (empty_range_panics sg w f raw Hv Hf) by lia. cbn [spec_int].
    unfold form_nonempty. apply negb_true_iff. apply Z.leb_gt. lia.
Qed.

Lemma corr_int sg w f obs :
  in_scope (CInt sg w f obs) = true -> model_check (CInt sg w f obs) = true ->
  spec_check (CInt sg w f obs) = true.
Proof.
  cbn [in_scope model_check spec_check]. intros Hs Hm.
  apply andb_true_iff in Hs as [Hw Hf]. apply width_ok_valid in Hw. apply form_ok_valid in Hf.
  rewrite forallb_forall in *. intros p Hp. specialize (Hm p Hp). apply ozeqb_eq in Hm.
  rewrite <- Hm. now apply gen_spec_int.
Qed.

(** the witness raw of every value of the range is below the number of values of the range *)
Lemma witness_raw_small sg w f x :
  valid_width w -> form_valid sg w f -> form_lo sg w f <= x <= form_hi sg w f ->
  0 <= witness_raw sg w f x < form_hi sg w f - form_lo sg w f + 1.
Proof.
  intros [Hw Hw64] Hf Hx. destruct (pow_split w Hw) as [HM HH].
  unfold witness_raw. destruct (full_width sg w f) eqn:E; [|lia].
  unfold full_width in E. apply andb_true_iff in E as [E1 E2]. apply Z.eqb_eq in E1, E2.
  rewrite E1, E2.
  assert (Hspan : tmax sg w - tmin sg w + 1 = 2 ^ w) by (destruct sg; cbn [tmin tmax]; lia).
  rewrite Hspan. unfold wrap. apply Z.mod_pos_bound. lia.
Qed.

Lemma corr_reach sg w f obs :
  in_scope (CReach sg w f obs) = true -> model_check (CReach sg w f obs) = true ->
  spec_check (CReach sg w f obs) = true.
Proof.
  cbn [in_scope model_check spec_check]. intros Hs Hm.
  apply andb_true_iff in Hs as [Hw Hf]. apply width_ok_valid in Hw. apply form_ok_valid in Hf.
  apply leqb_ozeqb_eq in Hm. remember (length obs) as n eqn:Hn. clear Hn.
  subst obs. apply andb_true_iff. split.
  - apply forallb_forall. intros o Ho. apply in_map_iff in Ho as [k [<- _]]. now apply gen_spec_int.
  -
    set (L := form_hi sg w f - form_lo sg w f + 1).
    destruct (Z.of_nat n <? L) eqn:EL; [reflexivity|]. apply Z.ltb_ge in EL.
    apply forallb_forall. intros x Hx. apply in_map_iff in Hx as [k [<- Hk]]. apply in_seq in Hk.
    set (x := form_lo sg w f + Z.of_nat k).
    assert (Hxr : form_lo sg w f <= x <= form_hi sg w f) by (subst x L; lia).
    destruct (range_reachable sg w f x Hw Hf Hxr) as [Hg _].
    pose proof (witness_raw_small sg w f x Hw Hf Hxr) as Hr. fold L in Hr.
    apply existsb_exists. exists (Some x). split; [|apply ozeqb_refl].
    apply in_map_iff. exists (Z.to_nat (witness_raw sg w f x)). split.
    + rewrite Z2Nat.id by lia. exact Hg.
    + apply in_seq. lia.
Qed.

(** * floats *)
Lemma corr_float s e raw r :
  model_check (CFloat s e raw r) = true -> spec_check (CFloat s e raw r) = true.
Proof.
  cbn [model_check spec_check]. intros Hm. apply ozeqb_eq in Hm. subst r.
  destruct (SFltb (sf_of_bits s) (sf_of_bits e)) eqn:Hlt.
  - destruct (float_in_range (sf_of_bits s) (sf_of_bits e) raw Hlt) as [y [Hy [H1 H2]]].
    rewrite Hy. cbn [option_map]. cbv zeta.
    rewrite bits_roundtrip by (eapply float_range_valid; [apply sf_of_bits_valid|apply sf_of_bits_valid|exact Hy]).
    now rewrite H1, H2.
  - rewrite (float_empty_panics _ _ raw Hlt). cbn [option_map]. reflexivity.
Qed.

(** * raw streams *)
Lemma raws_range n : forall st st' xs,
  raws rng_next n st = Some (st', xs) -> forallb (fun x => (0 <=? x) && (x <? 2 ^ 64)) xs = true.
Proof.
  induction n as [|n IH]; intros st st' xs H; cbn [raws] in H.
  - injection H as _ <-. reflexivity.
  - unfold rng_next at 1 in H. unfold next_raw in H. cbv zeta in H.
    destruct (raws rng_next n (lcg_step st)) as [[st2 ys]|] eqn:E; [|discriminate].
    injection H as _ <-. cbn [forallb]. rewrite (IH _ _ _ E), andb_true_r.
    pose proof (out_mix_range (lcg_step st) (lcg_step_range st)) as Hr.
    apply andb_true_iff. split; [apply Z.leb_le|apply Z.ltb_lt]; lia.
Qed.

Lemma corr_raw seed obs :
  model_check (CRaw seed obs) = true -> spec_check (CRaw seed obs) = true.
Proof.
  cbn [model_check spec_check]. intros Hm. apply olzeqb_eq in Hm. unfold raw_stream in Hm.
  destruct (raws rng_next (length obs) (from_seed seed)) as [[st xs]|] eqn:E; [|discriminate].
  cbn [opt_snd] in Hm. injection Hm as ->. eapply raws_range. exact E.
Qed.

(** * streams of draws *)
Lemma draws_some sg w f : valid_width w -> form_valid sg w f -> forall n st st' l,
  draws rng_next sg w f n st = Some (st', l) ->
  length l = n /\ forallb (in_form sg w f) l = true.
Proof.
  intros Hv Hf. induction n as [|n IH]; intros st st' l H; cbn [draws] in H.
  - injection H as _ <-. split; reflexivity.
  - unfold next at 1 in H. unfold rng_next at 1 in H.
    destruct (next_raw st) as [st1 raw].
    pose proof (gen_spec_int sg w f raw Hv Hf) as Hg.
    destruct (gen sg w f raw) as [x|]; [|discriminate]. cbn [spec_int] in Hg.
    destruct (draws rng_next sg w f n st1) as [[st2 xs]|] eqn:E; [|discriminate].
    injection H as _ <-. destruct (IH _ _ _ E) as [H1 H2]. cbn [length forallb]. rewrite Hg, H2. split; [lia|reflexivity].
Qed.

Lemma draws_nonempty sg w f : valid_width w -> form_valid sg w f -> form_lo sg w f <= form_hi sg w f ->
  forall n st, draws rng_next sg w f n st <> None.
Proof.
  intros Hv Hf Hne. induction n as [|n IH]; intros st; cbn [draws]; [discriminate|].
  unfold next at 1. unfold rng_next at 1. destruct (next_raw st) as [st1 raw].
  destruct (range_in_bounds sg w f raw Hv Hf Hne) as [x [Hg _]]. rewrite Hg.
  specialize (IH st1). destruct (draws rng_next sg w f n st1) as [[st2 xs]|]; [discriminate|congruence].
Qed.

Lemma corr_stream sg w f seed n r :
  in_scope (CStream sg w f seed n r) = true -> model_check (CStream sg w f seed n r) = true ->
  spec_check (CStream sg w f seed n r) = true.
Proof.
  cbn [in_scope model_check spec_check]. intros Hs Hm.
  apply andb_true_iff in Hs as [Hs Hap]. apply andb_true_iff in Hs as [Hw Hf].
  apply width_ok_valid in Hw. apply form_ok_valid in Hf.
  apply olzeqb_eq in Hm. unfold stream in Hm.
  destruct (draws rng_next sg w f (N.to_nat n) (from_seed seed)) as [[st l]|] eqn:E; cbn [opt_snd] in Hm; subst r.
  - destruct (draws_some sg w f Hw Hf _ _ _ _ E) as [H1 H2].
    rewrite H1, N2Nat.id, N.eqb_refl, H2. exact Hap.
  - unfold form_nonempty. destruct (form_lo sg w f <=? form_hi sg w f) eqn:Ene; [|reflexivity].
    apply Z.leb_le in Ene. exfalso. exact (draws_nonempty sg w f Hw Hf Ene _ _ E).
Qed.

(** * copies *)
Lemma corr_copy seed k a b :
  in_scope (CCopy seed k a b) = true -> model_check (CCopy seed k a b) = true ->
  spec_check (CCopy seed k a b) = true.
Proof.
  cbn [in_scope model_check spec_check]. intros Hs Hm. apply Nat.eqb_eq in Hs.
  destruct (raws rng_next (N.to_nat k) (from_seed seed)) as [[st xs]|]; [|discriminate].
  apply andb_true_iff in Hm as [Ha Hb]. apply olzeqb_eq in Ha, Hb. rewrite Hs, Hb in Ha.
  injection Ha as ->. apply lzeqb_refl.
Qed.

(** * shuffle *)
Lemma zinsert_comm x y l : zinsert x (zinsert y l) = zinsert y (zinsert x l).
Proof.
  induction l as [|h t IH]; cbn [zinsert].
  - destruct (x <=? y) eqn:A, (y <=? x) eqn:B; try reflexivity.
    + apply Z.leb_le in A, B. assert (x = y) by lia. now subst.
    + apply Z.leb_gt in A, B. lia.
  - destruct (y <=? h) eqn:Yh, (x <=? h) eqn:Xh; cbn [zinsert]; rewrite ?Yh, ?Xh.
    + destruct (x <=? y) eqn:A, (y <=? x) eqn:B; try reflexivity.
      * apply Z.leb_le in A, B. assert (x = y) by lia. now subst.
      * apply Z.leb_gt in A, B. lia.
    + destruct (x <=? y) eqn:A; [|reflexivity].
      apply Z.leb_le in A, Yh. apply Z.leb_gt in Xh. lia.
    + destruct (y <=? x) eqn:B; [|reflexivity].
      apply Z.leb_le in B, Xh. apply Z.leb_gt in Yh. lia.
    + now rewrite IH.
Qed.

Lemma zsort_perm a b : Permutation a b -> zsort a = zsort b.
Proof.
  induction 1 as [|x a b _ IH|x y a|a b c _ IH1 _ IH2]; cbn [zsort fold_right].
  - reflexivity.
  - fold (zsort a). fold (zsort b). now rewrite IH.
  - apply zinsert_comm.
  - congruence.
Qed.

Lemma is_perm_of_perm a b : Permutation a b -> is_perm a b = true.
Proof. intros H. unfold is_perm. rewrite (zsort_perm a b H). apply lzeqb_refl. Qed.

(** a script with one raw per step never makes shuffle panic *)
Lemma script_fold_total {A} l : forall rs (v : list A),
  (length l <= length rs)%nat ->
  Forall (fun i => (i < length v)%nat /\ Z.of_nat i < 2 ^ 64) l ->
  fold_left (shuffle_step script_next) l (Some (rs, v)) <> None.
Proof.
  induction l as [|i l IH]; intros rs v Hlen Hl; cbn [fold_left]; [discriminate|].
  inversion Hl as [|? ? [Hi Hi64] Hl']; subst.
  destruct rs as [|raw rs]; [cbn [length] in Hlen; lia|].
  unfold shuffle_step at 2. unfold next. cbn [script_next].
  assert (Hv : valid_width 64) by (unfold valid_width; lia).
  assert (Hf : form_valid false 64 (FIncl 0 (Z.of_nat i))).
  { cbn [form_valid]. split; apply in_ty_iff; cbn [tmin tmax]; lia. }
  destruct (range_in_bounds false 64 (FIncl 0 (Z.of_nat i)) raw Hv Hf) as [j [Hg [Hj _]]];
    [cbn [form_lo form_hi]; lia|].
  rewrite Hg. cbn [form_lo form_hi] in Hj.
  destruct (swap_some v i (Z.to_nat j)) as [v1 Hs]; [exact Hi|lia|].
  rewrite Hs. apply IH; [cbn [length] in Hlen; lia|].
  rewrite (swap_length _ _ _ _ Hs). exact Hl'.
Qed.

Lemma corr_shufs rs v r :
  in_scope (CShufS rs v r) = true -> model_check (CShufS rs v r) = true ->
  spec_check (CShufS rs v r) = true.
Proof.
  cbn [in_scope model_check spec_check]. intros Hs Hm. apply Z.leb_le in Hs.
  apply olzeqb_eq in Hm. subst r. unfold shuffle_script.
  destruct (shuffle script_next rs v) as [[st o]|] eqn:E; cbn [opt_snd].
  - apply is_perm_of_perm. apply Permutation_sym. eapply shuffle_permutation. exact E.
  - apply Nat.ltb_lt. destruct (Nat.lt_ge_cases (length rs) (length v - 1)) as [Hlt|Hge]; [exact Hlt|].
    exfalso. revert E. unfold shuffle. apply script_fold_total.
    + now rewrite seq_length.
    + apply Forall_forall. intros i Hi. apply in_seq in Hi. lia.
Qed.

Lemma shufr_perms n obs :
  forallb (fun p => oeqb lzeqb (shuffle_rng (fst p) (zseq n)) (Some (snd p))) obs = true ->
  forallb (fun p : Z * list Z => is_perm (snd p) (zseq n)) obs = true.
Proof.
  intros Hm. rewrite forallb_forall in *. intros p Hp. specialize (Hm p Hp).
  apply olzeqb_eq in Hm. unfold shuffle_rng in Hm.
  destruct (shuffle rng_next (from_seed (fst p)) (zseq n)) as [[st o]|] eqn:E; [|discriminate].
  cbn [opt_snd] in Hm. injection Hm as <-.
  apply is_perm_of_perm. apply Permutation_sym. eapply shuffle_permutation. exact E.
Qed.

(** * histories of mixed operations on one generator *)
Lemma spec_u64_out a c st : spec_u64 (snd (gnext_raw a c st)) = true.
Proof.
  pose proof (gnext_raw_range a c st) as H. unfold spec_u64.
  apply andb_true_iff. split; [apply Z.leb_le|apply Z.ltb_lt]; lia.
Qed.

(** whatever the model computes for one valid operation satisfies its specification *)
Lemma mix_step_spec a c o st :
  mop_ok o = true -> spec_mop o (option_map snd (mix_step a c o st)) = true.
Proof.
  intros Hok. destruct o as [sg w f|s e| |n|n|]; cbn [mix_step mop_ok] in *.
  - apply andb_true_iff in Hok as [Hw Hf].
    assert (Hv : valid_width w).
    { unfold width_ok in Hw. unfold valid_width. rewrite andb_true_iff, !Z.leb_le in Hw. tauto. }
    assert (Hfv : form_valid sg w f).
    { destruct f as [s e|s e|e|e|]; cbn [form_ok form_valid] in *; try rewrite andb_true_iff in Hf; tauto. }
    unfold next, gnext. destruct (gnext_raw a c st) as [st1 raw].
    pose proof (gen_spec_int sg w f raw Hv Hfv) as Hg.
    destruct (gen sg w f raw) as [x|]; cbn [option_map snd spec_mop]; exact Hg.
  - destruct (gnext_raw a c st) as [st1 raw].
    destruct (SFltb (sf_of_bits s) (sf_of_bits e)) eqn:Hlt.
    + destruct (float_in_range (sf_of_bits s) (sf_of_bits e) raw Hlt) as [y [Hy [H1 H2]]].
      rewrite Hy. cbn [option_map snd spec_mop]. cbv zeta.
      rewrite bits_roundtrip by (eapply float_range_valid; [apply sf_of_bits_valid|apply sf_of_bits_valid|exact Hy]).
      now rewrite Hlt, H1, H2.
    + rewrite (float_empty_panics _ _ raw Hlt). cbn [option_map spec_mop]. now rewrite Hlt.
  - pose proof (spec_u64_out a c st) as H. destruct (gnext_raw a c st) as [st1 r].
    cbn [option_map snd spec_mop] in *. exact H.
  - pose proof (spec_u64_out a c (lcg_jump a c n st)) as H.
    destruct (gnext_raw a c (lcg_jump a c n st)) as [st1 r].
    cbn [option_map snd spec_mop] in *. exact H.
  - apply Z.leb_le in Hok. fold (zseq n).
    destruct (shuffle (gnext a c) st (zseq n)) as [[st1 l]|] eqn:E; cbn [option_map snd spec_mop].
    + apply is_perm_of_perm. apply Permutation_sym. eapply shuffle_permutation. exact E.
    + exfalso. revert E. apply shuffle_total; [apply gnext_total|].
      unfold zseq. rewrite map_length, seq_length. lia.
  - cbn [option_map snd spec_mop]. apply spec_u64_out.
Qed.

Lemma mix_run_spec a c ops : forall st,
  forallb mop_ok ops = true -> spec_mix ops (mix_run a c ops st) = true.
Proof.
  induction ops as [|o ops IH]; intros st Hok; cbn [mix_run spec_mix forallb] in *; [reflexivity|].
  apply andb_true_iff in Hok as [Ho Hops].
  pose proof (mix_step_spec a c o st Ho) as Hs.
  destruct (mix_step a c o st) as [[st1 l]|]; cbn [option_map snd] in Hs; cbn [spec_mix].
  - rewrite Hs. cbn [andb]. now apply IH.
  - exact Hs.
Qed.

Lemma leqb_olzeqb_eq (x y : list (option (list Z))) : leqb (oeqb lzeqb) x y = true -> x = y.
Proof.
  revert y. induction x as [|a x IH]; intros [|b y] H; cbn [leqb] in H; try discriminate; [reflexivity|].
  apply andb_true_iff in H as [H1 H2]. f_equal; [|now apply IH].
  destruct a as [u|], b as [v|]; cbn [oeqb] in H1; try discriminate; [|reflexivity].
  apply lzeqb_eq in H1. now subst.
Qed.

Lemma corr_mix a c seed ops obs :
  in_scope (CMix a c seed ops obs) = true -> model_check (CMix a c seed ops obs) = true ->
  spec_check (CMix a c seed ops obs) = true.
Proof.
  cbn [in_scope model_check spec_check]. intros Hs Hm.
  apply andb_true_iff in Hs as [Hok Hd]. apply leqb_olzeqb_eq in Hm. subst obs.
  rewrite Hd, andb_true_r. now apply mix_run_spec.
Qed.

(** * all cases *)
Theorem model_check_spec_check c :
  in_scope c = true -> model_check c = true -> spec_check c = true.
Proof.
  destruct c as [sg w f obs|sg w f obs|s e raw r|seed obs|sg w f seed n r|seed k a b|rs v r|n obs|n obs|a c seed ops obs].
  - apply corr_int.
  - apply corr_reach.
  - intros _. apply corr_float.
  - intros _. apply corr_raw.
  - apply corr_stream.
  - apply corr_copy.
  - apply corr_shufs.
  - intros _. cbn [model_check spec_check]. apply shufr_perms.
  - cbn [in_scope model_check spec_check]. intros Hs Hm. now rewrite (shufr_perms n obs Hm), Hs.
  - apply corr_mix.
Qed.
