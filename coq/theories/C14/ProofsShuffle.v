(** C14 — shuffle: permutation for any raw source, no panic, reachability of every order of a
    short slice (scripted source: by enumeration of the index choices; real generator: by the
    explicit seeds of [Spec.seeds4/5/6]). *)
From Coq Require Import ZArith NArith List Bool Lia Permutation.
From RlibV Require Import Common.Batch C14.Model C14.Corr C14.Spec C14.ProofsInt.
Import ListNotations.
Open Scope Z_scope.

(** * swap is a permutation *)
Section Swap.
Context {A : Type}.

Lemma upd_length (l : list A) i x : length (upd l i x) = length l.
Proof. revert i. induction l as [|h t IH]; intros [|i]; cbn [upd length]; auto. Qed.

Lemma upd_perm_cons (t : list A) j a b :
  nth_error t j = Some b -> Permutation (b :: upd t j a) (a :: t).
Proof.
  revert j. induction t as [|h t IH]; intros [|j] H; cbn [nth_error upd] in *; try discriminate.
  - injection H as ->. apply perm_swap.
  - eapply perm_trans; [apply perm_swap|]. eapply perm_trans; [|apply perm_swap].
    apply perm_skip. now apply IH.
Qed.

Lemma nth_error_upd_same (l : list A) i x : (i < length l)%nat -> nth_error (upd l i x) i = Some x.
Proof. revert i. induction l as [|h t IH]; intros [|i] H; cbn [upd nth_error length] in *; try lia; auto. apply IH. lia. Qed.

Lemma swap_perm (l l' : list A) i j : swap l i j = Some l' -> Permutation l' l.
Proof.
  unfold swap. destruct (nth_error l i) as [a|] eqn:Ei; [|discriminate].
  destruct (nth_error l j) as [b|] eqn:Ej; [|discriminate]. intros H. injection H as <-.
  revert i j Ei Ej. induction l as [|h t IH]; intros i j Ei Ej.
  - destruct i; discriminate.
  - destruct i as [|i], j as [|j]; cbn [nth_error upd] in *.
    + injection Ei as ->. injection Ej as ->. reflexivity.
    + injection Ei as ->. now apply upd_perm_cons.
    + injection Ej as ->. now apply upd_perm_cons.
    + apply perm_skip. now apply IH.
Qed.

Lemma swap_length (l l' : list A) i j : swap l i j = Some l' -> length l' = length l.
Proof.
  unfold swap. destruct (nth_error l i); [|discriminate]. destruct (nth_error l j); [|discriminate].
  intros H. injection H as <-. now rewrite !upd_length.
Qed.

Lemma swap_some (l : list A) i j : (i < length l)%nat -> (j < length l)%nat -> exists l', swap l i j = Some l'.
Proof.
  intros Hi Hj. unfold swap.
  destruct (nth_error l i) eqn:Ei; [|apply nth_error_None in Ei; lia].
  destruct (nth_error l j) eqn:Ej; [|apply nth_error_None in Ej; lia].
  eexists. reflexivity.
Qed.
End Swap.

(** * shuffle *)
Section Shuffle.
Context {St A : Type} (nxt : St -> option (St * Z)).

Lemma shuffle_step_none l : fold_left (shuffle_step (A := A) nxt) l None = None.
Proof. induction l; cbn [fold_left]; auto. Qed.

Lemma shuffle_fold_perm (v0 : list A) l : forall st v st' v',
  Permutation v v0 ->
  fold_left (shuffle_step nxt) l (Some (st, v)) = Some (st', v') -> Permutation v' v0.
Proof.
  induction l as [|i l IH]; intros st v st' v' Hp H; cbn [fold_left] in H.
  - injection H as _ <-. exact Hp.
  - unfold shuffle_step at 2 in H.
    destruct (next nxt false 64 (FIncl 0 (Z.of_nat i)) st) as [[st1 j]|]; [|rewrite shuffle_step_none in H; discriminate].
    destruct (swap v i (Z.to_nat j)) as [v1|] eqn:Es; [|rewrite shuffle_step_none in H; discriminate].
    eapply IH; [|exact H]. eapply perm_trans; [eapply swap_perm; exact Es|exact Hp].
Qed.

Theorem shuffle_permutation st (v : list A) st' v' :
  shuffle nxt st v = Some (st', v') -> Permutation v v'.
Proof. intros H. apply Permutation_sym. eapply shuffle_fold_perm; [reflexivity|exact H]. Qed.

(** a source that never panics never makes shuffle panic (indices stay in bounds, no overflow) *)
Lemma shuffle_fold_total l : forall st (v : list A),
  (forall s, nxt s <> None) ->
  Forall (fun i => (i < length v)%nat /\ Z.of_nat i < 2 ^ 64) l ->
  fold_left (shuffle_step nxt) l (Some (st, v)) <> None.
Proof.
  induction l as [|i l IH]; intros st v Ht Hl; cbn [fold_left]; [discriminate|].
  inversion Hl as [|? ? [Hi Hi64] Hl']; subst.
  unfold shuffle_step at 2. unfold next.
  destruct (nxt st) as [[st1 raw]|] eqn:En; [|exfalso; now apply (Ht st)].
  assert (Hv : valid_width 64) by (unfold valid_width; lia).
  assert (Hf : form_valid false 64 (FIncl 0 (Z.of_nat i))).
  { cbn [form_valid]. split; apply in_ty_iff; cbn [tmin tmax]; lia. }
  destruct (range_in_bounds false 64 (FIncl 0 (Z.of_nat i)) raw Hv Hf) as [j [Hg [Hj _]]];
    [cbn [form_lo form_hi]; lia|].
  rewrite Hg. cbn [form_lo form_hi] in Hj.
  destruct (swap_some v i (Z.to_nat j)) as [v1 Hs]; [exact Hi|lia|].
  rewrite Hs. apply IH; [exact Ht|].
  rewrite (swap_length _ _ _ _ Hs). exact Hl'.
Qed.

Theorem shuffle_total st (v : list A) :
  (forall s, nxt s <> None) -> Z.of_nat (length v) <= 2 ^ 64 -> shuffle nxt st v <> None.
Proof.
  intros Ht Hlen. unfold shuffle. apply shuffle_fold_total; [exact Ht|].
  apply Forall_forall. intros i Hi. apply in_seq in Hi. lia.
Qed.
End Shuffle.

(** * all orders *)
Lemma ins_all_in {X} (a : X) l1 l2 : In (l1 ++ a :: l2) (ins_all a (l1 ++ l2)).
Proof.
  induction l1 as [|h t IH]; cbn [app].
  - destruct l2; cbn [ins_all]; left; reflexivity.
  - cbn [ins_all]. right. apply in_map. exact IH.
Qed.

Lemma perms_complete {X} (l p : list X) : Permutation p l -> In p (perms l).
Proof.
  revert p. induction l as [|a t IH]; intros p Hp.
  - apply Permutation_sym, Permutation_nil in Hp. subst. left. reflexivity.
  - assert (Ha : In a p) by (eapply Permutation_in; [apply Permutation_sym; exact Hp|left; reflexivity]).
    apply in_split in Ha as [p1 [p2 ->]].
    cbn [perms]. apply in_flat_map. exists (p1 ++ p2). split.
    + apply IH. apply Permutation_sym. eapply Permutation_cons_app_inv. apply Permutation_sym. exact Hp.
    + apply ins_all_in.
Qed.

Lemma lzeqb_eq a b : lzeqb a b = true -> a = b.
Proof.
  unfold lzeqb. revert b. induction a as [|x a IH]; intros [|y b] H; cbn [leqb] in H; try discriminate; auto.
  apply andb_true_iff in H as [H1 H2]. apply Z.eqb_eq in H1. subst. f_equal. now apply IH.
Qed.

(** the decidable statement checked by computation: every order of [base] is among [outs] *)
Definition covers (base : list Z) (outs : list (option (list Z))) : bool :=
  forallb (fun p => existsb (fun o => oeqb lzeqb o (Some p)) outs) (perms base).

Lemma covers_sound base outs p :
  covers base outs = true -> Permutation p base -> In (Some p) outs.
Proof.
  intros Hc Hp. unfold covers in Hc. rewrite forallb_forall in Hc.
  specialize (Hc p (perms_complete _ _ Hp)). apply existsb_exists in Hc as [o [Ho E]].
  destruct o as [q|]; cbn [oeqb] in E; [|discriminate]. apply lzeqb_eq in E. subst. exact Ho.
Qed.

(** ** scripted source, every length: Fisher-Yates reaches every order *)
Section ReachAll.
Context {A : Type}.

Lemma upd_app_at (a : list A) y c z : upd (a ++ y :: c) (length a) z = a ++ z :: c.
Proof. induction a as [|h t IH]; cbn [app length upd]; [reflexivity|now rewrite IH]. Qed.

Lemma nth_error_app_at (a : list A) y c : nth_error (a ++ y :: c) (length a) = Some y.
Proof. induction a as [|h t IH]; cbn [app length nth_error]; auto. Qed.

(** the index drawn from [0..=i] by the raw word [j <= i] is [j] *)
Lemma gen_incl_small (i j : nat) : (j <= i)%nat -> Z.of_nat i < 2 ^ 64 ->
  gen false 64 (FIncl 0 (Z.of_nat i)) (Z.of_nat j) = Some (Z.of_nat j).
Proof.
  intros Hj Hi.
  assert (Hv : valid_width 64) by (unfold valid_width; lia).
  assert (Hf : form_valid false 64 (FIncl 0 (Z.of_nat i))).
  { cbn [form_valid]. split; apply in_ty_iff; cbn [tmin tmax]; lia. }
  rewrite gen_spec by (auto; cbn [form_lo form_hi]; lia).
  f_equal. cbn [form_lo form_hi]. destruct (full_width false 64 (FIncl 0 (Z.of_nat i))).
  - cbn [cast]. unfold wrap. apply Z.mod_small. lia.
  - rewrite Z.mod_small by lia. lia.
Qed.

(** one step of the loop with a scripted source *)
Lemma script_step (i j : nat) rs (v v' : list A) :
  (j <= i)%nat -> Z.of_nat i < 2 ^ 64 -> swap v i j = Some v' ->
  shuffle_step script_next (Some (Z.of_nat j :: rs, v)) i = Some (rs, v').
Proof.
  intros Hj Hi Hs. unfold shuffle_step, next. cbn [script_next].
  rewrite gen_incl_small by assumption. rewrite Nat2Z.id. now rewrite Hs.
Qed.

(** swapping the last element [x] of the prefix with position [length a] *)
Lemma swap_last_with (a b : list A) x y t :
  swap ((a ++ y :: b) ++ x :: t) (length (a ++ y :: b)) (length a) = Some ((a ++ x :: b ++ [y]) ++ t).
Proof.
  unfold swap. rewrite nth_error_app_at.
  rewrite <- app_assoc. cbn [app]. rewrite nth_error_app_at.
  f_equal.
  replace (a ++ y :: b ++ x :: t) with ((a ++ y :: b) ++ x :: t) by (rewrite <- app_assoc; reflexivity).
  rewrite upd_app_at. rewrite <- app_assoc. cbn [app]. rewrite upd_app_at.
  rewrite <- !app_assoc. cbn [app]. rewrite <- app_assoc. reflexivity.
Qed.

Lemma swap_last_self (a : list A) x t :
  swap (a ++ x :: t) (length a) (length a) = Some (a ++ x :: t).
Proof. unfold swap. rewrite nth_error_app_at. f_equal. now rewrite !upd_app_at. Qed.

(** main induction: the first k-1 steps can put any order of the first k elements in place *)
Lemma reach_prefix (u : list A) : forall (q t : list A),
  Permutation q u -> Z.of_nat (length u) <= 2 ^ 64 ->
  exists rs, length rs = (length u - 1)%nat
             /\ Forall (fun r => 0 <= r < 2 ^ 64) rs
             /\ forall rs', fold_left (shuffle_step script_next) (seq 1 (length u - 1)) (Some (rs ++ rs', u ++ t))
                            = Some (rs', q ++ t).
Proof.
  induction u as [|x u' IH] using rev_ind; intros q t Hq Hlen.
  - apply Permutation_sym, Permutation_nil in Hq. subst q. exists []. cbn. repeat split; auto.
  - rewrite app_length in *. cbn [length] in *.
    destruct u' as [|h0 u0] eqn:Eu.
    { (* a single element *)
      cbn [app length] in *. apply Permutation_sym, Permutation_length_1_inv in Hq. subst q.
      exists []. cbn. repeat split; auto. }
    rewrite <- Eu in *. assert (Hl : (length u' >= 1)%nat) by (subst u'; cbn [length]; lia).
    (* position of x in q *)
    assert (Hin : In x q) by (eapply Permutation_in; [apply Permutation_sym; exact Hq|apply in_or_app; right; left; reflexivity]).
    apply in_split in Hin as [a [b Hab]]. subst q.
    assert (Hperm : Permutation (a ++ b) u').
    { apply Permutation_app_inv_r with (l := [x]). 
      eapply perm_trans; [|exact Hq].
      rewrite <- app_assoc. apply Permutation_app_head. cbn [app]. apply Permutation_sym, Permutation_cons_append. }
    destruct b as [|y0 b0] using rev_ind.
    + (* x is last in q: keep it in place *)
      rewrite app_nil_r in Hperm.
      destruct (IH a (x :: t) Hperm ltac:(lia)) as [rs [Hrl [Hrr Hfold]]].
      exists (rs ++ [Z.of_nat (length u')]). split; [rewrite app_length; cbn [length]; lia|]. split.
      { apply Forall_app. split; [exact Hrr|]. constructor; [lia|constructor]. }
      intros rs'. replace (length u' + 1 - 1)%nat with (S (length u' - 1)) by lia.
      rewrite seq_S, fold_left_app. cbn [fold_left].
      rewrite <- !app_assoc. cbn [app]. rewrite Hfold.
      replace (1 + (length u' - 1))%nat with (length u') by lia.
      pose proof (Permutation_length Hperm) as Hla. rewrite <- Hla.
      apply script_step; [lia|lia|]. apply swap_last_self.
    + (* x sits at position [length a]; the last element y0 of q goes there first *)
      clear IHb0.
      assert (Hperm' : Permutation (a ++ y0 :: b0) u').
      { eapply perm_trans; [|exact Hperm]. apply Permutation_app_head. apply Permutation_cons_append. }
      destruct (IH (a ++ y0 :: b0) (x :: t) Hperm' ltac:(lia)) as [rs [Hrl [Hrr Hfold]]].
      assert (Hla : (length a < length u')%nat).
      { rewrite <- (Permutation_length Hperm'). rewrite app_length. cbn [length]. lia. }
      exists (rs ++ [Z.of_nat (length a)]). split; [rewrite app_length; cbn [length]; lia|]. split.
      { apply Forall_app. split; [exact Hrr|]. constructor; [lia|constructor]. }
      intros rs'. replace (length u' + 1 - 1)%nat with (S (length u' - 1)) by lia.
      rewrite seq_S, fold_left_app. cbn [fold_left].
      rewrite <- !app_assoc. cbn [app]. rewrite Hfold.
      replace (1 + (length u' - 1))%nat with (length u') by lia.
      pose proof (Permutation_length Hperm') as Hlq. rewrite <- Hlq.
      apply script_step; [rewrite app_length; lia|lia|].
      rewrite swap_last_with. f_equal. repeat (rewrite <- app_assoc || rewrite <- app_comm_cons). reflexivity.
Qed.

Theorem shuffle_reaches_all_gen (v p : list A) :
  Permutation p v -> Z.of_nat (length v) <= 2 ^ 64 ->
  exists rs, length rs = (length v - 1)%nat /\ Forall (fun r => 0 <= r < 2 ^ 64) rs
             /\ shuffle_script rs v = Some p.
Proof.
  intros Hp Hlen. destruct (reach_prefix v p [] Hp Hlen) as [rs [Hl [Hr Hf]]].
  exists rs. split; [exact Hl|]. split; [exact Hr|].
  unfold shuffle_script, shuffle. specialize (Hf []). rewrite !app_nil_r in Hf. rewrite Hf. reflexivity.
Qed.
End ReachAll.

(** ** scripted source, slices of length <= 6, by enumeration (an independent computational check) *)
Lemma scripted_cover n : (n <= 6)%nat ->
  covers (zseq (N.of_nat n)) (map (fun rs => shuffle_script rs (zseq (N.of_nat n))) (scripts n)) = true.
Proof.
  intros Hn. do 7 (destruct n as [|n]; [vm_compute; reflexivity|]). lia.
Qed.

Lemma scripts_wf n : (n <= 6)%nat ->
  forallb (fun rs => (length rs =? n - 1)%nat && forallb (fun r => (0 <=? r) && (r <? 2 ^ 64)) rs) (scripts n) = true.
Proof.
  intros Hn. do 7 (destruct n as [|n]; [vm_compute; reflexivity|]). lia.
Qed.

Theorem shuffle_reaches_all n p :
  (n <= 6)%nat -> Permutation p (zseq (N.of_nat n)) ->
  exists rs, length rs = (n - 1)%nat /\ Forall (fun r => 0 <= r < 2 ^ 64) rs
             /\ shuffle_script rs (zseq (N.of_nat n)) = Some p.
Proof.
  intros Hn Hp. pose proof (covers_sound _ _ _ (scripted_cover n Hn) Hp) as Hin.
  apply in_map_iff in Hin as [rs [Hrs Hin]]. exists rs.
  pose proof (scripts_wf n Hn) as Hwf. rewrite forallb_forall in Hwf. specialize (Hwf rs Hin).
  apply andb_true_iff in Hwf as [Hl Hr]. apply Nat.eqb_eq in Hl. split; [exact Hl|]. split; [|exact Hrs].
  apply Forall_forall. intros r Hin'. rewrite forallb_forall in Hr. specialize (Hr r Hin').
  apply andb_true_iff in Hr as [H1 H2]. apply Z.leb_le in H1. apply Z.ltb_lt in H2. lia.
Qed.

(** ** the real generator: explicit seeds reaching all 24 / 120 / 720 orders *)
Lemma rng_cover4 : covers (zseq 4) (map (fun s => shuffle_rng s (zseq 4)) seeds4) = true.
Proof. vm_compute. reflexivity. Qed.
Lemma rng_cover5 : covers (zseq 5) (map (fun s => shuffle_rng s (zseq 5)) seeds5) = true.
Proof. vm_compute. reflexivity. Qed.
Lemma rng_cover6 : covers (zseq 6) (map (fun s => shuffle_rng s (zseq 6)) seeds6) = true.
Proof. vm_compute. reflexivity. Qed.

Theorem fairness_partial n p :
  (n <= 6)%N -> Permutation p (zseq n) ->
  exists seed, In seed (seeds_for n) /\ 0 <= seed < 2 ^ 64 /\ shuffle_rng seed (zseq n) = Some p.
Proof.
  intros Hn Hp.
  assert (Hr : forall l, forallb (fun r => (0 <=? r) && (r <? 2 ^ 64)) l = true ->
                         forall s, In s l -> 0 <= s < 2 ^ 64).
  { intros l Hl s Hs. rewrite forallb_forall in Hl. specialize (Hl s Hs).
    apply andb_true_iff in Hl as [H1 H2]. apply Z.leb_le in H1. apply Z.ltb_lt in H2. lia. }
  assert (Hcov : covers (zseq n) (map (fun s => shuffle_rng s (zseq n)) (seeds_for n)) = true
                 /\ forallb (fun r => (0 <=? r) && (r <? 2 ^ 64)) (seeds_for n) = true).
  { assert (Hc : (n = 0 \/ n = 1 \/ n = 2 \/ n = 3 \/ n = 4 \/ n = 5 \/ n = 6)%N) by lia.
    destruct Hc as [-> | [-> | [-> | [-> | [-> | [-> | ->]]]]]]; (split; [|vm_compute; reflexivity]).
    - vm_compute. reflexivity.
    - vm_compute. reflexivity.
    - vm_compute. reflexivity.
    - vm_compute. reflexivity.
    - exact rng_cover4.
    - exact rng_cover5.
    - exact rng_cover6. }
  destruct Hcov as [Hcov Hrange].
  pose proof (covers_sound _ _ _ Hcov Hp) as Hin. apply in_map_iff in Hin as [s [Hs Hin]].
  exists s. split; [exact Hin|]. split; [|exact Hs]. apply (Hr (seeds_for n)); [exact Hrange|exact Hin].
Qed.

(** * finite aperiodicity evidence for the repaired generator (checked by computation):
      256 consecutive draws from 0..k have no period <= 64, for the listed k and seeds *)
Definition aperiodic_ranges : list Z := [2; 3; 4; 5; 6; 7; 8; 10; 16; 256].
Definition aperiodic_seeds : list Z := [0; 1; 42; 18446744073709551615].
Theorem aperiodic_partial :
  forallb (fun k => forallb (fun seed =>
     match stream false 64 (FRange 0 k) seed 256 with Some l => aperiodic l | None => false end)
     aperiodic_seeds) aperiodic_ranges = true.
Proof. vm_compute. reflexivity. Qed.
(** ... whereas the old output function fails the same test for every power of two *)
Theorem old_stream_periodic_example :
  forallb (fun k =>
     match opt_snd (draws rng_next_old false 64 (FRange 0 k) 256 (from_seed 42)) with
     | Some l => negb (aperiodic l) | None => false end) [2; 4; 8; 16] = true.
Proof. vm_compute. reflexivity. Qed.
