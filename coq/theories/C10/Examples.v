(** C10 — non-vacuity: the binary64 instance of the model runs on literals, and every hypothesis of
    every property theorem is met by a concrete instance (eps = 1e-9 as a real number). *)
From Coq Require Import Reals Lra Psatz ZArith Bool Floats.
From RlibV Require Import C10.Model C10.RInst C10.Corr C10.ProofsLine C10.ProofsCL C10.Properties.
Open Scope R_scope.

Definition EPSR : R := 1 / 1000000000.
Lemma EPSR_pos : 0 < EPSR. Proof. unfold EPSR. lra. Qed.
Lemma EPSR_small : EPSR <= 1 / 1000. Proof. unfold EPSR. lra. Qed.

(** ** the binary64 instance runs *)
Example ex_run_cl_tangent :
  model_check (CCL 5 0 1 (LB 6 0 6 1) (OTouch 6 0)) = true /\ spec_check (CCL 5 0 1 (LB 6 0 6 1) (OTouch 6 0)) = true.
Proof. vm_compute. split; reflexivity. Qed.
(** what the code returned before the repair is rejected by the specification *)
Example ex_run_cl_tangent_old : spec_check (CCL 5 0 1 (LB 6 0 6 1) (OTouch (-1) 0)) = false.
Proof. vm_compute. reflexivity. Qed.
Example ex_run_cc_touch_inside :
  model_check (CCC 0 0 10 3 4 5 (OTouchIn 6 8)) = true /\ spec_check (CCC 0 0 10 3 4 5 (OTouchIn 6 8)) = true
  /\ spec_check (CCC 0 0 10 3 4 5 (OTouchOut 6 8)) = false.
Proof. vm_compute. repeat split; reflexivity. Qed.
Example ex_run_position : model_check (CPos 3 4 5 0 0 (OPos 1)) = true /\ spec_check (CPos 3 4 5 0 0 (OPos 1)) = true.
Proof. vm_compute. split; reflexivity. Qed.

(** the entry points observed on their own: Line::dist (a negative value is rejected), util::dist, util::parallel,
    the Point operations; a struct-literal line; a failed consistency check of the executor fails both checks *)
Example ex_run_ldist :
  model_check (CLDist (LB 6 0 6 1) 5 0 (OVals (v1 1))) = true /\ spec_check (CLDist (LB 6 0 6 1) 5 0 (OVals (v1 1))) = true
  /\ spec_check (CLDist (LB 6 0 6 1) 5 0 (OVals (v1 (-1)))) = false.
Proof. vm_compute. repeat split; reflexivity. Qed.
Example ex_run_dist :
  model_check (CDist 0 0 3 4 (OVals (v1 5))) = true /\ spec_check (CDist 0 0 3 4 (OVals (v1 5))) = true
  /\ spec_check (CDist 0 0 3 4 (OVals (v1 25))) = false.
Proof. vm_compute. repeat split; reflexivity. Qed.
Example ex_run_par :
  model_check (CPar (LB 0 0 1 0) (LB 0 1 2 1) (OBool true)) = true /\ spec_check (CPar (LB 0 0 1 0) (LB 0 1 2 1) (OBool true)) = true
  /\ spec_check (CPar (LB 0 0 1 0) (LB 0 1 2 1) (OBool false)) = false
  /\ spec_check (CPar (LB 0 0 1 0) (LB 0 1 2 2) (OBool true)) = false.
Proof. vm_compute. repeat split; reflexivity. Qed.
Example ex_run_pt :
  model_check (CPt 3 4 1 2 2 (OVals (v12 4 6 2 2 6 8 1.5 2 11 2 25 5))) = true
  /\ spec_check (CPt 3 4 1 2 2 (OVals (v12 4 6 2 2 6 8 1.5 2 11 2 25 5))) = true
  /\ spec_check (CPt 3 4 1 2 2 (OVals (v12 4 6 (-2) (-2) 6 8 1.5 2 11 2 25 5))) = false.
Proof. vm_compute. repeat split; reflexivity. Qed.
Example ex_run_literal_line :
  model_check (CCL 0 0 1 (LR 0 1 0) (OTwo (-1) 0 1 0)) = true /\ spec_check (CCL 0 0 1 (LR 0 1 0) (OTwo (-1) 0 1 0)) = true
  /\ in_scope (CCL 0 0 1 (LR 0 1 0) ONone) = true /\ in_scope (CCL 0 0 1 (LR 0 0 0) ONone) = false.
Proof. vm_compute. repeat split; reflexivity. Qed.
Example ex_run_fail : model_check (CLine (LB 0 0 1 0) OFail) = false /\ spec_check (CLine (LB 0 0 1 0) OFail) = false.
Proof. vm_compute. split; reflexivity. Qed.

(** ** helpers *)
Lemma edist_axis x y : x <= y -> edist (mkPt x 0) (mkPt y 0) = y - x.
Proof.
  intros H. unfold edist, d2. cbn [px py].
  replace ((x - y) * (x - y) + (0 - 0) * (0 - 0)) with ((y - x) * (y - x)) by ring.
  apply sqrt_square. lra.
Qed.
Lemma unit_x c : unit_line (mkLn 1 0 c). Proof. unfold unit_line. cbn [la lb]. ring. Qed.
Lemma unit_y c : unit_line (mkLn 0 1 c). Proof. unfold unit_line. cbn [la lb]. ring. Qed.
Lemma ldist_x c x y : ldist rops (mkLn 1 0 c) (mkPt x y) = Rabs (x + c).
Proof. unfold ldist. rsimp. f_equal. ring. Qed.
Lemma ldist_y c x y : ldist rops (mkLn 0 1 c) (mkPt x y) = Rabs (y + c).
Proof. unfold ldist. rsimp. f_equal. ring. Qed.

(** ** lines *)
Example ex_line_new : unit_line (line_new rops 3 4 (-25)).
Proof. apply (c10_line_new_unit 3 4 (-25)). intro E. injection E as E1 E2. lra. Qed.

Example ex_dist_euclidean : on_line (mkLn 1 0 (-6)) (foot (mkLn 1 0 (-6)) (mkPt 5 0)).
Proof. apply (c10_dist_euclidean (mkLn 1 0 (-6)) (mkPt 5 0)). apply unit_x. Qed.

Example ex_between : on_line (line_between rops (mkPt 3 4) (mkPt 5 (-6))) (mkPt 3 4).
Proof.
  apply (c10_between_contains EPSR (mkPt 3 4) (mkPt 5 (-6)) EPSR_pos).
  intro E. injection E as E1 E2. lra.
Qed.

Example ex_contains : contains rops EPSR (mkLn 1 0 (-6)) (mkPt 6 2) = true.
Proof. apply c10_contains. rewrite ldist_x. replace (6 + -6) with 0 by ring. rewrite Rabs_R0. apply EPSR_pos. Qed.

Lemma ex_not_parallel : parallel rops EPSR (mkLn 1 0 0) (mkLn 0 1 0) = false.
Proof.
  destruct (parallel rops EPSR (mkLn 1 0 0) (mkLn 0 1 0)) eqn:E; [|reflexivity].
  apply (proj1 (c10_ll_parallel_none _ _ _)) in E. cbn [la lb] in E.
  replace (1 * 1 - 0 * 0) with 1 in E by ring. rewrite Rabs_R1 in E. unfold EPSR in E. lra.
Qed.
Example ex_ll_on_both :
  exists p, intersect_ll rops EPSR (mkLn 1 0 0) (mkLn 0 1 0) = Some p /\ on_line (mkLn 1 0 0) p /\ on_line (mkLn 0 1 0) p.
Proof. apply c10_ll_on_both; [apply EPSR_pos|apply ex_not_parallel]. Qed.

Example ex_ll_parallel : intersect_ll rops EPSR (mkLn 1 0 0) (mkLn 1 0 (-1)) = None.
Proof.
  apply (proj2 (c10_ll_parallel_none _ _ _)). apply (proj1 (c10_ll_parallel_none _ _ _)). cbn [la lb].
  replace (1 * 0 - 0 * 1) with 0 by ring. rewrite Rabs_R0. apply EPSR_pos.
Qed.

(** ** circle-line *)
Example ex_cl_none : intersect_cl rops EPSR (mkCirc (mkPt 0 0) 1) (mkLn 1 0 (-3)) = CLNone.
Proof.
  apply (c10_cl_none EPSR (mkCirc (mkPt 0 0) 1) (mkLn 1 0 (-3)) (unit_x _) EPSR_pos); cbn [cc cr]; [lra|].
  rewrite ldist_x. replace (0 + -3) with (-3) by ring. rewrite Rabs_left by lra. unfold EPSR. lra.
Qed.

Example ex_cl_two_points : exists p q, intersect_cl rops EPSR (mkCirc (mkPt 0 0) 5) (mkLn 0 1 (-3)) = CLIntersect p q
    /\ on_line (mkLn 0 1 (-3)) p /\ on_circle (mkCirc (mkPt 0 0) 5) p
    /\ on_line (mkLn 0 1 (-3)) q /\ on_circle (mkCirc (mkPt 0 0) 5) q /\ p <> q.
Proof.
  apply (c10_cl_two_points EPSR _ _ (unit_y _) EPSR_pos). cbn [cc cr].
  rewrite ldist_y. replace (0 + -3) with (-3) by ring. rewrite Rabs_left by lra. unfold EPSR. lra.
Qed.

Example ex_cl_tangent : exists p, intersect_cl rops EPSR (mkCirc (mkPt 5 0) 1) (mkLn 1 0 (-6)) = CLTouch p
    /\ on_line (mkLn 1 0 (-6)) p /\ Rabs (edist p (mkPt 5 0) - 1) <= EPSR /\ p = foot (mkLn 1 0 (-6)) (mkPt 5 0).
Proof.
  apply (c10_cl_tangent EPSR (mkCirc (mkPt 5 0) 1) _ (unit_x _)). cbn [cc cr].
  rewrite ldist_x. replace (5 + -6) with (-1) by ring. rewrite Rabs_left by lra. unfold EPSR. lra.
Qed.

(** ** position *)
Example ex_position : position rops EPSR (mkCirc (mkPt 0 0) 5) (mkPt 5 0) = Border.
Proof.
  assert (Hr : 0 < cr (mkCirc (mkPt 0 0) 5)) by (cbn [cr]; lra).
  assert (He : 0 <= EPSR) by (unfold EPSR; lra).
  destruct (c10_position EPSR (mkCirc (mkPt 0 0) 5) (mkPt 5 0) Hr He) as (_ & _ & HB).
  apply HB. clear. cbn [cc cr]. rewrite edist_axis by lra. unfold EPSR. lra.
Qed.

(** ** circle-circle: one instance per clause of [c10_cc_kinds] *)
Definition cA : Circ R := mkCirc (mkPt 0 0) 3.
Definition cB (x : R) : Circ R := mkCirc (mkPt x 0) 2.
Lemma cAB_hyp : 0 < EPSR /\ EPSR <= 2 /\ 2 <= 3. Proof. unfold EPSR. lra. Qed.
Lemma cAB_d x : 0 <= x -> edist (cc cA) (cc (cB x)) = x.
Proof. intros H. unfold cA, cB. cbn [cc]. rewrite edist_axis by lra. ring. Qed.

Ltac cc_clause x :=
  pose proof (c10_cc_kinds EPSR cA (cB x) (proj1 cAB_hyp) (proj1 (proj2 cAB_hyp)) (proj2 (proj2 cAB_hyp))) as K;
  cbv zeta in K; rewrite (cAB_d x) in K by lra; cbn [cr cA cB] in K;
  destruct K as (K1 & K2 & K3 & K4 & K5 & K6).

Example ex_cc_separate : intersect_cc rops EPSR cA (cB 10) = CCNone.
Proof. cc_clause 10. apply K1. unfold EPSR. lra. Qed.
Example ex_cc_touch_outside : intersect_cc rops EPSR cA (cB 5) = CCTouchOutside (touch_pt cA (cB 5)).
Proof. cc_clause 5. apply K2. unfold EPSR. lra. Qed.
Example ex_cc_crossing : exists p q, intersect_cc rops EPSR cA (cB 4) = CCIntersect p q
  /\ on_circle cA p /\ on_circle (cB 4) p /\ on_circle cA q /\ on_circle (cB 4) q /\ p <> q.
Proof. cc_clause 4. apply K3; unfold EPSR; lra. Qed.
Example ex_cc_touch_inside : intersect_cc rops EPSR cA (cB 1) = CCTouchInside (touch_pt cA (cB 1)).
Proof. cc_clause 1. apply K4; unfold EPSR; lra. Qed.
Example ex_cc_contained : intersect_cc rops EPSR cA (cB (1 / 2)) = CCNone.
Proof. cc_clause (1 / 2). apply K5. unfold EPSR. lra. Qed.
Example ex_cc_same : intersect_cc rops EPSR cA cA = CCSame.
Proof.
  pose proof (c10_cc_kinds EPSR cA cA EPSR_pos) as K. cbv zeta in K.
  assert (Hd : edist (cc cA) (cc cA) = 0) by (unfold cA; cbn [cc]; rewrite edist_axis by lra; ring).
  rewrite Hd in K. cbn [cr cA] in K.
  assert (H1 : EPSR <= 3) by (unfold EPSR; lra). assert (H2 : 3 <= 3) by lra.
  destruct (K H1 H2) as (_ & _ & _ & _ & _ & K6). apply K6; unfold EPSR; lra.
Qed.

Example ex_cc_swap : intersect_cc rops EPSR (cB 4) cA = intersect_cc rops EPSR cA (cB 4).
Proof. apply c10_cc_swap. cbn [cr cA cB]. lra. Qed.

Example ex_touch_points : on_circle cA (touch_pt cA (cB 5)) /\ Rabs (edist (touch_pt cA (cB 5)) (cc (cB 5)) - 2) <= EPSR.
Proof.
  pose proof (c10_touch_points_on_both EPSR cA (cB 5) (proj1 cAB_hyp) (proj1 (proj2 cAB_hyp)) (proj2 (proj2 cAB_hyp))) as K.
  cbv zeta in K. rewrite (cAB_d 5) in K by lra. cbn [cr cA cB] in K. apply K; [lra|]. left. unfold EPSR. lra.
Qed.
Example ex_touch_points_inside : on_circle cA (touch_pt cA (cB 1)) /\ Rabs (edist (touch_pt cA (cB 1)) (cc (cB 1)) - 2) <= EPSR.
Proof.
  pose proof (c10_touch_points_on_both EPSR cA (cB 1) (proj1 cAB_hyp) (proj1 (proj2 cAB_hyp)) (proj2 (proj2 cAB_hyp))) as K.
  cbv zeta in K. rewrite (cAB_d 1) in K by lra. cbn [cr cA cB] in K. apply K; [lra|]. right. unfold EPSR. lra.
Qed.

Example ex_old_tangent : intersect_cl_old rops EPSR (mkCirc (mkPt 5 0) 1) (line_between rops (mkPt 6 0) (mkPt 6 1)) = CLTouch (mkPt (-1) 0).
Proof. apply (c10_old_tangent_refuted EPSR EPSR_pos). Qed.
