(** C10 — the real-number instance of the model and the vocabulary of exact plane geometry in
    which the theorems are stated. *)
From Coq Require Import Reals Lra ZArith Bool.
From RlibV Require Import C10.Model.
Open Scope R_scope.

Definition Rltb (x y : R) : bool := if Rlt_dec x y then true else false.
Definition Reqb (x y : R) : bool := if Req_EM_T x y then true else false.
Definition rops : Ops R := mkOps R Rplus Rminus Rmult Rdiv Ropp sqrt Rabs Rmax Rltb Reqb IZR.

Lemma Rltb_true x y : Rltb x y = true <-> x < y.
Proof. unfold Rltb; destruct (Rlt_dec x y); split; intros; try easy. Qed.
Lemma Rltb_false x y : Rltb x y = false <-> y <= x.
Proof. unfold Rltb; destruct (Rlt_dec x y); split; intros; try easy; lra. Qed.
Lemma Reqb_true x y : Reqb x y = true <-> x = y.
Proof. unfold Reqb; destruct (Req_EM_T x y); split; intros; easy. Qed.
Lemma Reqb_false x y : Reqb x y = false <-> x <> y.
Proof. unfold Reqb; destruct (Req_EM_T x y); split; intros; easy. Qed.

(** * exact geometry *)
(** p satisfies the line equation *)
Definition on_line (l : Ln R) (p : Pt R) : Prop := la l * px p + lb l * py p + lc l = 0.
(** the stored normal is a unit vector *)
Definition unit_line (l : Ln R) : Prop := la l * la l + lb l * lb l = 1.
(** squared Euclidean distance, Euclidean distance *)
Definition d2 (p q : Pt R) : R := (px p - px q) * (px p - px q) + (py p - py q) * (py p - py q).
Definition edist (p q : Pt R) : R := sqrt (d2 p q).
(** p lies on the circle *)
Definition on_circle (c : Circ R) (p : Pt R) : Prop := d2 p (cc c) = cr c * cr c.
(** foot of the perpendicular from p onto the (unit) line l *)
Definition foot (l : Ln R) (p : Pt R) : Pt R :=
  let s := la l * px p + lb l * py p + lc l in mkPt (px p - la l * s) (py p - lb l * s).
(** the point reported by the two direct tangent branches of intersect_cc (A the larger circle):
    centre of A moved by the radius of A towards the centre of B *)
Definition touch_pt (A B : Circ R) : Pt R :=
  padd rops (cc A) (pscale rops (pdiv rops (psub rops (cc B) (cc A)) (edist (cc A) (cc B))) (cr A)).
