(** C10 — proofs about intersect_cc (instance R): radical line, tangent points, the case analysis of d against r1 +- r2. *)
From Coq Require Import Reals Lra Psatz ZArith Bool Nsatz.
From RlibV Require Import C10.Model C10.RInst C10.ProofsLine C10.ProofsCL C10.ProofsMisc.
Open Scope R_scope.

Ltac case_ltb :=
  match goal with
  | |- context [Rltb ?x ?y] =>
      let E := fresh "E" in destruct (Rltb x y) eqn:E; [apply Rltb_true in E | apply Rltb_false in E]
  end.


Lemma ldist_line_new a b c p : (a, b) <> (0, 0) ->
  ldist rops (line_new rops a b c) p = Rabs (a * px p + b * py p + c) / sqrt (a * a + b * b).
Proof.
  intros Hne. unfold ldist, line_new, len, slen. rsimp.
  set (n := sqrt (a * a + b * b)).
  assert (Hn : 0 < n) by now apply sqrt_sumsq_pos.
  replace (a / n * px p + b / n * py p + c / n) with ((a * px p + b * py p + c) / n) by (field; lra).
  unfold Rdiv. rewrite Rabs_mult, (Rabs_right (/ n)); [reflexivity|].
  apply Rle_ge, Rlt_le, Rinv_0_lt_compat, Hn.
Qed.

Section Radical.
Variables (A B : Circ R).
Let ax := px (cc A). Let ay := py (cc A). Let bx := px (cc B). Let b_y := py (cc B).
Let R0 := cr A. Let r0 := cr B.
Let d := edist (cc A) (cc B).
Let a' := - ax * 2 + bx * 2.
Let b' := - ay * 2 + b_y * 2.
Let c' := ax * ax + ay * ay - bx * bx - b_y * b_y - R0 * R0 + r0 * r0.

Lemma radical_line_eq : radical_line rops A B = line_new rops a' b' c'.
Proof. reflexivity. Qed.

Lemma dd : d * d = (ax - bx) * (ax - bx) + (ay - b_y) * (ay - b_y).
Proof. unfold d. rewrite edist_sqr. reflexivity. Qed.

Lemma rad_norm : a' * a' + b' * b' = (2 * d) * (2 * d).
Proof. pose proof dd as H. unfold a', b'. nsatz. Qed.

Lemma rad_nz : 0 < d -> (a', b') <> (0, 0).
Proof.
  intros Hd E. injection E as E1 E2. pose proof rad_norm as H. rewrite E1, E2 in H. nra.
Qed.

Lemma rad_unit : 0 < d -> unit_line (radical_line rops A B).
Proof. intros Hd. rewrite radical_line_eq. apply line_new_unit, rad_nz, Hd. Qed.

(** distance of the larger circle's centre from the radical line *)
Lemma rad_dist : 0 < d -> r0 * r0 <= R0 * R0 ->
  ldist rops (radical_line rops A B) (cc A) = (d * d + R0 * R0 - r0 * r0) / (2 * d).
Proof.
  intros Hd Hr. rewrite radical_line_eq, ldist_line_new by (apply rad_nz, Hd).
  rewrite rad_norm, sqrt_square by lra.
  f_equal. fold ax ay.
  replace (a' * ax + b' * ay + c') with (- (d * d + R0 * R0 - r0 * r0)).
  - rewrite Rabs_Ropp. apply Rabs_right. pose proof dd. nra.
  - pose proof dd as H. unfold a', b', c'. nsatz.
Qed.

(** the radical-line lemma: a point of circle A on the radical line is on circle B *)
Lemma radical_on_B p : 0 < d -> on_line (radical_line rops A B) p -> on_circle A p -> on_circle B p.
Proof.
  intros Hd Hl HA. rewrite radical_line_eq in Hl. apply (proj1 (line_new_same_line _ _ _ _ (rad_nz Hd))) in Hl.
  unfold on_circle, d2 in HA |- *. unfold a', b', c', ax, ay, bx, b_y, R0, r0 in Hl.
  clear - Hl HA. nsatz.
Qed.

Lemma touch_pt_on_A : 0 < d -> on_circle A (touch_pt A B).
Proof.
  intros Hd. unfold on_circle, d2, touch_pt, padd, pscale, pdiv, psub. rsimp. fold ax ay bx b_y R0 d.
  pose proof dd as H.
  assert (Hd0 : d <> 0) by lra.
  field_simplify_eq; [|exact Hd0]. clear - H. clearbody d ax ay bx b_y R0. nra.
Qed.

Lemma touch_pt_dist_B : 0 < d -> edist (touch_pt A B) (cc B) = Rabs (d - R0).
Proof.
  intros Hd. unfold edist. rewrite <- sqrt_Rsqr_abs. f_equal. unfold Rsqr.
  unfold d2, touch_pt, padd, pscale, pdiv, psub. rsimp. fold ax ay bx b_y R0 d.
  pose proof dd as H.
  assert (Hd0 : d <> 0) by lra.
  field_simplify_eq; [|exact Hd0]. clear - H. clearbody d ax ay bx b_y R0.
  transitivity (((ax - bx) * (ax - bx) + (ay - b_y) * (ay - b_y)) * ((d - R0) * (d - R0))); [ring|].
  rewrite <- H. ring.
Qed.
End Radical.

(** * circle-circle, larger circle first *)
Section Ordered.
Variables (eps : R) (A B : Circ R).
Let R0 := cr A. Let r0 := cr B.
Let d := edist (cc A) (cc B).
Hypothesis He : 0 < eps.
Hypothesis Hr : eps <= r0.
Hypothesis HR : r0 <= R0.

Lemma ord_separate : R0 + r0 + eps <= d -> intersect_cc_ordered rops eps A B = CCNone.
Proof.
  intros H. unfold intersect_cc_ordered. rewrite dist_edist. fold d R0 r0. rsimp.
  pose proof (edist_nonneg (cc A) (cc B)) as Hd0; fold d in Hd0.
  repeat (case_ltb; cbn [andb]; try lra); reflexivity.
Qed.

Lemma ord_touch_out : R0 + r0 - eps <= d < R0 + r0 + eps ->
  intersect_cc_ordered rops eps A B = CCTouchOutside (touch_pt A B).
Proof.
  intros H. unfold intersect_cc_ordered. rewrite dist_edist. fold d R0 r0. rsimp.
  pose proof (edist_nonneg (cc A) (cc B)) as Hd0; fold d in Hd0.
  repeat (case_ltb; cbn [andb]; try lra); reflexivity.
Qed.

Lemma ord_touch_in : R0 - r0 - eps <= d < R0 - r0 + eps -> ~ (d < eps /\ R0 < r0 + eps) ->
  intersect_cc_ordered rops eps A B = CCTouchInside (touch_pt A B).
Proof.
  intros H Hs. unfold intersect_cc_ordered. rewrite dist_edist. fold d R0 r0. rsimp.
  pose proof (edist_nonneg (cc A) (cc B)) as Hd0; fold d in Hd0.
  repeat (case_ltb; cbn [andb]; try lra); reflexivity.
Qed.

Lemma ord_contained : d < R0 - r0 - eps -> intersect_cc_ordered rops eps A B = CCNone.
Proof.
  intros H. unfold intersect_cc_ordered. rewrite dist_edist. fold d R0 r0. rsimp.
  pose proof (edist_nonneg (cc A) (cc B)) as Hd0; fold d in Hd0.
  repeat (case_ltb; cbn [andb]; try lra); reflexivity.
Qed.

Lemma ord_same : d < eps -> R0 < r0 + eps -> intersect_cc_ordered rops eps A B = CCSame.
Proof.
  intros H1 H2. unfold intersect_cc_ordered. rewrite dist_edist. fold d R0 r0. rsimp.
  pose proof (edist_nonneg (cc A) (cc B)) as Hd0; fold d in Hd0.
  repeat (case_ltb; cbn [andb]; try lra); reflexivity.
Qed.

(** the crossing branch: both points on both circles exactly, and distinct *)
Lemma ord_cross : R0 - r0 + eps <= d < R0 + r0 - eps ->
  exists p q, intersect_cc_ordered rops eps A B = CCIntersect p q
    /\ on_circle A p /\ on_circle B p /\ on_circle A q /\ on_circle B q /\ p <> q.
Proof.
  intros H.
  assert (Hd : 0 < d) by lra.
  unfold intersect_cc_ordered. rewrite dist_edist. fold d R0 r0. rsimp.
  pose proof (edist_nonneg (cc A) (cc B)) as Hd0; fold d in Hd0.
  repeat (case_ltb; cbn [andb]; try lra).
  eexists; eexists; split; [reflexivity|].
  pose proof (edist_sqr (cc A) (cc B)) as HD. fold d in HD. unfold d2 in HD.
  unfold on_circle, d2, padd, psub, pscale, pdiv. rsimp. fold R0 r0.
  destruct A as [[ax ay] RA], B as [[bx b_y] RB]. cbn [cc cr px py] in *.
  subst R0 r0. cbn [cr] in *.
  set (y := (d * d + RB * RB - RA * RA) / (2 * d)) in *.
  assert (Hy : 2 * d * y = d * d + RB * RB - RA * RA) by (unfold y; field; lra).
  (* - RB < y < RB *)
  assert (HyR : 2 * d * (RB - y) = (RA + RB - d) * (RA + d - RB)) by (rewrite Rmult_minus_distr_l, Hy; ring).
  assert (HyL : 2 * d * (RB + y) = (RB + d - RA) * (RB + d + RA)) by (rewrite Rmult_plus_distr_l, Hy; ring).
  assert (Hp1 : 0 < (RA + RB - d) * (RA + d - RB)) by (apply Rmult_lt_0_compat; lra).
  assert (Hp2 : 0 < (RB + d - RA) * (RB + d + RA)) by (apply Rmult_lt_0_compat; lra).
  assert (Hy1 : y < RB) by nra.
  assert (Hy2 : - RB < y) by nra.
  assert (Hv : 0 < RB * RB - y * y) by nra.
  rewrite Rmax_left by lra.
  set (h := sqrt (RB * RB - y * y)) in *.
  assert (Hh : h * h = RB * RB - y * y) by (apply sqrt_sqrt; lra).
  assert (Hh0 : 0 < h) by (apply sqrt_lt_R0; lra).
  set (ux := (bx - ax) / d) in *. set (uy := (b_y - ay) / d) in *.
  assert (Hux : d * ux = bx - ax) by (unfold ux; field; lra).
  assert (Huy : d * uy = b_y - ay) by (unfold uy; field; lra).
  assert (Hu : ux * ux + uy * uy = 1).
  { apply (Rmult_eq_reg_l (d * d)); [|nra].
    replace (d * d * (ux * ux + uy * uy)) with ((d * ux) * (d * ux) + (d * uy) * (d * uy)) by ring.
    rewrite Hux, Huy, Rmult_1_r, HD. ring. }
  clearbody y h ux uy d.
  assert (Hbx : bx = ax + d * ux) by lra. assert (Hby : b_y = ay + d * uy) by lra.
  repeat split.
  - subst bx b_y. clear - Hh Hu Hy. nsatz.
  - clear - Hh Hu. nsatz.
  - subst bx b_y. clear - Hh Hu Hy. nsatz.
  - clear - Hh Hu. nsatz.
  - intro Epq. injection Epq as Ep1 Ep2.
    assert (uy * h = 0) by lra. assert (ux * h = 0) by lra. nra.
Qed.

(** the same branch as written between commit bc281aa and the present code (measured from the larger
    circle): in exact arithmetic it has the same property *)
Lemma ord_cross_big : R0 - r0 + eps <= d < R0 + r0 - eps ->
  exists p q, intersect_cc_ordered_big rops eps A B = CCIntersect p q
    /\ on_circle A p /\ on_circle B p /\ on_circle A q /\ on_circle B q /\ p <> q.
Proof.
  intros H.
  assert (Hd : 0 < d) by lra.
  unfold intersect_cc_ordered_big. rewrite dist_edist. fold d R0 r0. rsimp.
  pose proof (edist_nonneg (cc A) (cc B)) as Hd0; fold d in Hd0.
  repeat (case_ltb; cbn [andb]; try lra).
  eexists; eexists; split; [reflexivity|].
  pose proof (edist_sqr (cc A) (cc B)) as HD. fold d in HD. unfold d2 in HD.
  unfold on_circle, d2, padd, psub, pscale, pdiv. rsimp. fold R0 r0.
  destruct A as [[ax ay] RA], B as [[bx b_y] RB]. cbn [cc cr px py] in *.
  subst R0 r0. cbn [cr] in *.
  set (x := (d * d + RA * RA - RB * RB) / (2 * d)) in *.
  assert (Hx : 2 * d * x = d * d + RA * RA - RB * RB) by (unfold x; field; lra).
  (* 0 <= x < RA *)
  assert (Hx0 : 0 <= x) by nra.
  assert (HxR : 2 * d * (RA - x) = (RA + RB - d) * (RB + d - RA)) by (rewrite Rmult_minus_distr_l, Hx; ring).
  assert (Hprod : 0 < (RA + RB - d) * (RB + d - RA)) by (apply Rmult_lt_0_compat; lra).
  assert (HxR' : x < RA) by nra.
  assert (Hv : 0 < RA * RA - x * x) by nra.
  rewrite Rmax_left by lra.
  set (h := sqrt (RA * RA - x * x)) in *.
  assert (Hh : h * h = RA * RA - x * x) by (apply sqrt_sqrt; lra).
  assert (Hh0 : 0 < h) by (apply sqrt_lt_R0; lra).
  set (ux := (bx - ax) / d) in *. set (uy := (b_y - ay) / d) in *.
  assert (Hux : d * ux = bx - ax) by (unfold ux; field; lra).
  assert (Huy : d * uy = b_y - ay) by (unfold uy; field; lra).
  assert (Hu : ux * ux + uy * uy = 1).
  { apply (Rmult_eq_reg_l (d * d)); [|nra].
    replace (d * d * (ux * ux + uy * uy)) with ((d * ux) * (d * ux) + (d * uy) * (d * uy)) by ring.
    rewrite Hux, Huy, Rmult_1_r, HD. ring. }
  clearbody x h ux uy d.
  assert (Hbx : bx = ax + d * ux) by lra. assert (Hby : b_y = ay + d * uy) by lra.
  repeat split.
  - clear - Hh Hu. nsatz.
  - subst bx b_y. clear - Hh Hu Hx. nsatz.
  - clear - Hh Hu. nsatz.
  - subst bx b_y. clear - Hh Hu Hx. nsatz.
  - intro Epq. injection Epq as Ep1 Ep2.
    assert (uy * h = 0) by lra. assert (ux * h = 0) by lra. nra.
Qed.

(** the crossing branch before commit bc281aa (through the radical line), correct only under the
    extra sagitta hypothesis *)
Lemma ord_cross_old : R0 - r0 + eps <= d < R0 + r0 - eps ->
  2 * d * eps <= (R0 + r0 - d) * (r0 + d - R0) ->
  exists p q, intersect_cc_ordered_old rops eps A B = CCIntersect p q
    /\ on_circle A p /\ on_circle B p /\ on_circle A q /\ on_circle B q /\ p <> q.
Proof.
  intros H Hch.
  assert (Hd : 0 < d) by lra.
  assert (Hdist : ldist rops (radical_line rops A B) (cc A) <= cr A - eps).
  { rewrite rad_dist; fold d R0 r0; [|exact Hd|nra].
    apply (Rmult_le_reg_r (2 * d)); [lra|].
    unfold Rdiv. rewrite Rmult_assoc, Rinv_l, Rmult_1_r by lra. nra. }
  destruct (cl_two_points eps A (radical_line rops A B) (rad_unit A B Hd) He Hdist)
    as (p & q & Hcl & Hlp & HAp & Hlq & HAq & Hne).
  exists p, q.
  split.
  - unfold intersect_cc_ordered_old. rewrite dist_edist. fold d R0 r0. rsimp.
    pose proof (edist_nonneg (cc A) (cc B)) as Hd0; fold d in Hd0.
    repeat (case_ltb; cbn [andb]; try lra). now rewrite Hcl.
  - repeat split; auto; eapply radical_on_B; eauto.
Qed.
End Ordered.

(** * intersect_cc (with the swap) *)
Lemma cc_noswap eps a b : cr b <= cr a -> intersect_cc rops eps a b = intersect_cc_ordered rops eps a b.
Proof. intros H. unfold intersect_cc. rsimp. case_ltb; [lra|reflexivity]. Qed.

Lemma cc_swap eps a b : cr a < cr b -> intersect_cc rops eps a b = intersect_cc rops eps b a.
Proof. intros H. unfold intersect_cc. rsimp. repeat (case_ltb; try lra). reflexivity. Qed.

(** triangle inequality for [edist] *)
Lemma edist_triangle (p q s : Pt R) : edist p q <= edist p s + edist s q.
Proof.
  pose proof (edist_nonneg p q) as H0. pose proof (edist_nonneg p s) as H1. pose proof (edist_nonneg s q) as H2.
  pose proof (edist_sqr p q) as S0. pose proof (edist_sqr p s) as S1. pose proof (edist_sqr s q) as S2.
  unfold d2 in S0, S1, S2.
  set (e0 := edist p q) in *. set (e1 := edist p s) in *. set (e2 := edist s q) in *.
  set (ux := px p - px s) in *. set (uy := py p - py s) in *.
  set (vx := px s - px q) in *. set (vy := py s - py q) in *.
  assert (Hw : e0 * e0 = e1 * e1 + e2 * e2 + 2 * (ux * vx + uy * vy)).
  { rewrite S0, S1, S2. unfold ux, uy, vx, vy. ring. }
  assert (Hcs : (ux * vx + uy * vy) * (ux * vx + uy * vy) <= (e1 * e2) * (e1 * e2)).
  { replace (e1 * e2 * (e1 * e2)) with ((e1 * e1) * (e2 * e2)) by ring. rewrite S1, S2.
    pose proof (Rle_0_sqr (ux * vy - uy * vx)) as Hsq. unfold Rsqr in Hsq. nra. }
  assert (Hdot : ux * vx + uy * vy <= e1 * e2).
  { destruct (Rle_lt_dec (ux * vx + uy * vy) (e1 * e2)) as [Hle|Hgt]; [exact Hle|].
    exfalso. assert (0 <= e1 * e2) by nra. nra. }
  clearbody e0 e1 e2 ux uy vx vy. nra.
Qed.

Lemma on_circle_edist (c : Circ R) p : 0 <= cr c -> on_circle c p -> edist p (cc c) = cr c.
Proof. intros Hr H. unfold edist. rewrite H. now apply sqrt_square. Qed.

Lemma cc_disjoint (a b : Circ R) : 0 <= cr b -> cr b <= cr a ->
  cr a + cr b < edist (cc a) (cc b) \/ edist (cc a) (cc b) < cr a - cr b ->
  forall p, on_circle a p -> ~ on_circle b p.
Proof.
  intros Hb Hab Hd p Ha Hpb.
  apply on_circle_edist in Ha; [|lra]. apply on_circle_edist in Hpb; [|lra].
  destruct Hd as [Hd|Hd].
  - pose proof (edist_triangle (cc a) (cc b) p) as T. rewrite (edist_sym (cc a) p) in T. lra.
  - pose proof (edist_triangle (cc a) p (cc b)) as T. rewrite (edist_sym (cc b) p), (edist_sym (cc a) p) in T. lra.
Qed.

Theorem cc_kinds : forall (eps : R) (a b : Circ R), 0 < eps -> eps <= cr b -> cr b <= cr a ->
  let d := edist (cc a) (cc b) in
  (cr a + cr b + eps <= d ->
     intersect_cc rops eps a b = CCNone /\ forall p, on_circle a p -> ~ on_circle b p) /\
  (cr a + cr b - eps <= d < cr a + cr b + eps ->
     intersect_cc rops eps a b = CCTouchOutside (touch_pt a b)) /\
  (cr a - cr b + eps <= d < cr a + cr b - eps ->
     exists p q, intersect_cc rops eps a b = CCIntersect p q
       /\ on_circle a p /\ on_circle b p /\ on_circle a q /\ on_circle b q /\ p <> q) /\
  (cr a - cr b - eps <= d < cr a - cr b + eps -> ~ (d < eps /\ cr a < cr b + eps) ->
     intersect_cc rops eps a b = CCTouchInside (touch_pt a b)) /\
  (d < cr a - cr b - eps ->
     intersect_cc rops eps a b = CCNone /\ forall p, on_circle a p -> ~ on_circle b p) /\
  (d < eps -> cr a < cr b + eps -> intersect_cc rops eps a b = CCSame).
Proof.
  intros eps a b He Hr HR d. rewrite (cc_noswap eps a b HR).
  repeat split.
  - now apply ord_separate.
  - apply cc_disjoint; try lra. fold d. lra.
  - now apply ord_touch_out.
  - intros; now apply ord_cross.
  - intros; now apply ord_touch_in.
  - apply ord_contained; auto.
  - apply cc_disjoint; try lra. fold d. lra.
  - intros; now apply ord_same.
Qed.

Theorem touch_points_on_both : forall (eps : R) (a b : Circ R), 0 < eps -> eps <= cr b -> cr b <= cr a ->
  let d := edist (cc a) (cc b) in 0 < d ->
  (cr a + cr b - eps <= d < cr a + cr b + eps \/ cr a - cr b - eps <= d < cr a - cr b + eps) ->
  on_circle a (touch_pt a b) /\ Rabs (edist (touch_pt a b) (cc b) - cr b) <= eps.
Proof.
  intros eps a b He Hr HR d Hd Hband.
  split; [now apply touch_pt_on_A|].
  rewrite touch_pt_dist_B by exact Hd. fold d.
  destruct Hband as [[H1 H2]|[H1 H2]].
  - rewrite (Rabs_right (d - cr a)) by lra. apply Rabs_le. lra.
  - rewrite (Rabs_left1 (d - cr a)) by lra. apply Rabs_le. lra.
Qed.
