(** C10 — correspondence cases.

    A case = one call of the geometry library on binary64 inputs, together with what the Rust code
    returned (kind + coordinates).  The executor prints bit patterns; the driver writes every value
    as an exact hexadecimal float literal (a decimal [Z] literal of 19 digits costs Coq 1.3 ms to
    parse, a float literal 0.09 ms).

    [model_check]: the binary64 instance of [Model] (primitive floats, executed by [vm_compute])
    returns the SAME KIND, and every coordinate equal to the implementation's either bit for bit
    (after -0 |-> +0, NaN = NaN) or within 1e-9 absolute/relative (the gate tolerates a harmless
    re-association inside the library; [exact_check] is the bit-for-bit version used for statistics).

    [spec_check]: model-independent.  Inputs and returned coordinates are decoded to EXACT dyadic
    rationals [m * 2^e]; all geometry below is exact integer arithmetic on them (squared distances,
    cross-multiplied inequalities, no square roots, no floats):
    - every returned point is within 1e-7 of both primitives;
    - the kind equals the exact kind when the configuration is farther than 1e-8 (10 EPS) from
      every boundary between kinds, and equals the tangent kind when it is within 1e-10 of a tangency
      (exact lattice tangencies: Pythagorean triples); between the two anything is accepted;
    - [position] / [contains] likewise with the library's relative (resp. absolute) tolerance:
      mandatory outside 1e-8, mandatory [Border]/[true] inside 1e-10;
    - [parallel] with the bands of [intersect_ll]; [Line::dist] / [util::dist] non-negative and within 1e-7 of
      the exact distance; the Point operations within 2^-50 (relative to the magnitude of the exact terms) of
      the exact sum / difference / product / dot / cross product, quotient and length through their defining
      equations.
    An observation [OFail] (an internal consistency check of the executor failed) fails both checks. *)
From Coq Require Import List ZArith Bool Floats Uint63.
From RlibV Require Import Common.Batch C10.Model.
Import ListNotations.
Open Scope Z_scope.

(** * binary64 instance (primitive floats) *)
Definition f_of_Z (z : Z) : float :=
  match z with
  | Z0 => 0%float
  | Zpos _ => PrimFloat.of_uint63 (Uint63.of_Z z)
  | Zneg p => PrimFloat.opp (PrimFloat.of_uint63 (Uint63.of_Z (Zpos p)))
  end.
(** [f64::max]: the other operand when one is NaN *)
Definition f_max (x y : float) : float :=
  if PrimFloat.ltb x y then y else if PrimFloat.is_nan x then y else x.
Definition fops : Ops float :=
  mkOps float PrimFloat.add PrimFloat.sub PrimFloat.mul PrimFloat.div PrimFloat.opp PrimFloat.sqrt
        PrimFloat.abs f_max PrimFloat.ltb PrimFloat.eqb f_of_Z.

Definition sf_of_bits (b : Z) : spec_float :=
  let s := Z.testbit b 63 in
  let e := Z.land (Z.shiftr b 52) 2047 in
  let m := Z.land b (2 ^ 52 - 1) in
  if e =? 2047 then (if m =? 0 then S754_infinity s else S754_nan)
  else if e =? 0 then match m with Zpos p => S754_finite s p (-1074) | _ => S754_zero s end
  else match m + 2 ^ 52 with Zpos p => S754_finite s p (e - 1075) | _ => S754_nan end.
Definition f_of_bits (b : Z) : float := SF2Prim (sf_of_bits b).
(** the library's [EPS = 1e-9], as the bit pattern rustc produces for the literal *)
Definition eps_bits : Z := 4472406533629990549.
Definition feps : float := f_of_bits eps_bits.

Definition fpt (x y : float) : Pt float := mkPt x y.

(** numeric equality: identifies -0 and +0; all NaNs are identified *)
Definition feqb (x y : float) : bool :=
  PrimFloat.eqb x y || (PrimFloat.is_nan x && PrimFloat.is_nan y).
Definition tol9 : float := f_of_bits eps_bits.
(** gate: equal, or within 1e-9 * max(1, |y|) *)
Definition fclose (x y : float) : bool :=
  feqb x y ||
  PrimFloat.leb (PrimFloat.abs (PrimFloat.sub x y)) (PrimFloat.mul tol9 (f_max (PrimFloat.abs y) 1%float)).

(** * cases *)
(** [LB]: Line::between, [LN]: Line::new, [LR]: the struct literal [Line { a, b, c }] (the fields are public;
    [Line::default()] is [LR 0 0 0]) *)
Inductive lspec := LB (x1 y1 x2 y2 : float) | LN (a b c : float) | LR (a b c : float).
Inductive obs :=
| OPanic
| ONone | OSame
| OPt (x y : float)                 (* intersect_ll: Some *)
| OTouch (x y : float)              (* circle-line Touch *)
| OTouchIn (x y : float) | OTouchOut (x y : float)
| OTwo (x1 y1 x2 y2 : float)        (* Intersect *)
| OPos (k : Z)                  (* 0 Inside, 1 Border, 2 Outside *)
| OBool (b : bool)
| OLine (a b c : float)
| OVals (l : list float)           (* scalar results: Line::dist, util::dist, the Point operations *)
| OFail.                           (* an internal consistency check of the executor failed (token X) *)
(** list builders for the case printer (a literal inside the list notation needs an explicit scope, which makes the
    batch files slow to parse) *)
Definition v1 (a : float) : list float := [a].
Definition v12 (a b c d e f g h i j k l : float) : list float := [a; b; c; d; e; f; g; h; i; j; k; l].
Inductive case :=
| CLine (l : lspec) (r : obs)
| CLL (l1 l2 : lspec) (r : obs)
| CCL (cx cy r0 : float) (l : lspec) (r : obs)
| CCC (ax ay ar bx b_y br : float) (r : obs)
| CPos (cx cy r0 px py : float) (r : obs)
| CCon (l : lspec) (px py : float) (r : obs)
| CLDist (l : lspec) (px py : float) (r : obs)          (* Line::dist *)
| CDist (x1 y1 x2 y2 : float) (r : obs)                 (* util::dist *)
| CPar (l1 l2 : lspec) (r : obs)                        (* util::parallel *)
| CPt (x1 y1 x2 y2 k : float) (r : obs).                (* a+b, a-b, a*k, a/k, dp, cp, slen, len *)

(** * model side *)
Definition fline (l : lspec) : Ln float :=
  match l with
  | LB x1 y1 x2 y2 => line_between fops (fpt x1 y1) (fpt x2 y2)
  | LN a b c => line_new fops a b c
  | LR a b c => mkLn a b c
  end.

(** model results, as floats *)
Inductive mres :=
| MNone | MSame | MPt (p : Pt float) | MTouch (p : Pt float) | MTouchIn (p : Pt float) | MTouchOut (p : Pt float)
| MTwo (p q : Pt float) | MPos (k : Z) | MBool (b : bool) | MLine (l : Ln float) | MVals (l : list float).

Definition of_cl (r : CL float) : mres :=
  match r with CLNone => MNone | CLTouch p => MTouch p | CLIntersect p q => MTwo p q end.
Definition of_cc (r : CCRes float) : mres :=
  match r with
  | CCNone => MNone | CCSame => MSame | CCTouchInside p => MTouchIn p | CCTouchOutside p => MTouchOut p
  | CCIntersect p q => MTwo p q
  end.
Definition of_pos (p : Position) : Z := match p with Inside => 0 | Border => 1 | Outside => 2 end.

Definition run_model (c : case) : mres :=
  match c with
  | CLine l _ => MLine (fline l)
  | CLL l1 l2 _ => match intersect_ll fops feps (fline l1) (fline l2) with None => MNone | Some p => MPt p end
  | CCL cx cy r0 l _ => of_cl (intersect_cl fops feps (mkCirc (fpt cx cy) r0) (fline l))
  | CCC ax ay ar bx b_y br _ =>
      of_cc (intersect_cc fops feps (mkCirc (fpt ax ay) ar) (mkCirc (fpt bx b_y) br))
  | CPos cx cy r0 px py _ => MPos (of_pos (position fops feps (mkCirc (fpt cx cy) r0) (fpt px py)))
  | CCon l px py _ => MBool (contains fops feps (fline l) (fpt px py))
  | CLDist l px py _ => MVals [ldist fops (fline l) (fpt px py)]
  | CDist x1 y1 x2 y2 _ => MVals [dist fops (fpt x1 y1) (fpt x2 y2)]
  | CPar l1 l2 _ => MBool (parallel fops feps (fline l1) (fline l2))
  | CPt x1 y1 x2 y2 k _ =>
      let a := fpt x1 y1 in let b := fpt x2 y2 in
      let s := padd fops a b in let d := psub fops a b in let m := pscale fops a k in let q := pdiv fops a k in
      MVals [px s; py s; px d; py d; px m; py m; px q; py q; dp fops a b; cp fops a b; slen fops a; len fops a]
  end.
Definition observed (c : case) : obs :=
  match c with
  | CLine _ r | CLL _ _ r | CCL _ _ _ _ r | CCC _ _ _ _ _ _ r | CPos _ _ _ _ _ r | CCon _ _ _ r
  | CLDist _ _ _ r | CDist _ _ _ _ r | CPar _ _ r | CPt _ _ _ _ _ r => r
  end.

Section Cmp.
Variable fe : float -> float -> bool.
Definition pt_ok (p : Pt float) (x y : float) : bool := fe (px p) x && fe (py p) y.
Fixpoint vals_ok (m r : list float) : bool :=
  match m, r with
  | [], [] => true
  | x :: m', y :: r' => fe x y && vals_ok m' r'
  | _, _ => false
  end.
Definition res_ok (m : mres) (r : obs) : bool :=
  match m, r with
  | MNone, ONone => true
  | MSame, OSame => true
  | MPt p, OPt x y => pt_ok p x y
  | MTouch p, OTouch x y => pt_ok p x y
  | MTouchIn p, OTouchIn x y => pt_ok p x y
  | MTouchOut p, OTouchOut x y => pt_ok p x y
  | MTwo p q, OTwo x1 y1 x2 y2 => pt_ok p x1 y1 && pt_ok q x2 y2
  | MPos k, OPos k' => k =? k'
  | MBool b, OBool b' => Bool.eqb b b'
  | MLine l, OLine a b c => fe (la l) a && fe (lb l) b && fe (lc l) c
  | MVals m, OVals l => vals_ok m l
  | _, _ => false
  end.
End Cmp.

Definition model_check (c : case) : bool := res_ok fclose (run_model c) (observed c).
(** statistics only: bit-for-bit agreement (up to the sign of zero / NaN payload) *)
Definition exact_check (c : case) : bool := res_ok feqb (run_model c) (observed c).
Definition count_exact (l : list case) : Z * Z :=
  (Z.of_nat (length (filter exact_check l)), Z.of_nat (length l)).

(** * exact dyadic arithmetic for the specification *)
Record dy := mkDy { dm : Z; de : Z }.   (* dm * 2^de *)
Definition dy_of_bits (x : float) : option dy :=
  match Prim2SF x with
  | S754_zero _ => Some (mkDy 0 0)
  | S754_finite s m e => Some (mkDy (if s then Zneg m else Zpos m) e)
  | _ => None
  end.
Definition dZ (z : Z) : dy := mkDy z 0.
Definition dadd (x y : dy) : dy :=
  let e := Z.min (de x) (de y) in mkDy (dm x * 2 ^ (de x - e) + dm y * 2 ^ (de y - e)) e.
Definition dopp (x : dy) : dy := mkDy (- dm x) (de x).
Definition dsub (x y : dy) : dy := dadd x (dopp y).
Definition dmul (x y : dy) : dy := mkDy (dm x * dm y) (de x + de y).
Definition dsq (x : dy) : dy := dmul x x.
Definition dsgn (x : dy) : Z := Z.sgn (dm x).
Definition dle (x y : dy) : bool := dsgn (dsub x y) <=? 0.
Definition dlt (x y : dy) : bool := dsgn (dsub x y) <? 0.
Definition deq (x y : dy) : bool := dsgn (dsub x y) =? 0.
Definition dabs (x : dy) : dy := mkDy (Z.abs (dm x)) (de x).
Definition dmax (x y : dy) : dy := if dle x y then y else x.
Definition dmin (x y : dy) : dy := if dle x y then x else y.
Definition dscale (k : Z) (x : dy) : dy := mkDy (k * dm x) (de x).
Definition d0 := dZ 0.
Definition d1 := dZ 1.

Definition obind {A B} (o : option A) (f : A -> option B) : option B := match o with Some x => f x | None => None end.
Notation "'do' x <- o ; k" := (obind o (fun x => k)) (at level 200, x pattern, o at level 100, k at level 200).

Definition dpt := (dy * dy)%type.
Definition dpt_of (x y : float) : option dpt := do a <- dy_of_bits x; do b <- dy_of_bits y; Some (a, b).
Definition dd2 (p q : dpt) : dy := dadd (dsq (dsub (fst p) (fst q))) (dsq (dsub (snd p) (snd q))).

(** exact (unnormalised) line A x + B y + C = 0 *)
Definition dline := (dy * dy * dy)%type.
Definition dline_of (l : lspec) : option dline :=
  match l with
  | LB x1 y1 x2 y2 =>
      do u <- dpt_of x1 y1; do v <- dpt_of x2 y2;
      let A := dsub (snd u) (snd v) in
      let B := dsub (fst v) (fst u) in
      Some (A, B, dopp (dadd (dmul A (fst u)) (dmul B (snd u))))
  | LN a b c | LR a b c => do A <- dy_of_bits a; do B <- dy_of_bits b; do C <- dy_of_bits c; Some (A, B, C)
  end.
Definition ln2 (l : dline) : dy := let '(A, B, _) := l in dadd (dsq A) (dsq B).
Definition lev (l : dline) (p : dpt) : dy := let '(A, B, C) := l in dadd (dadd (dmul A (fst p)) (dmul B (snd p))) C.

(** bounds of the quantifier: |coordinate| <= 1024, radius in [2^-10, 1024] *)
Definition coord_ok (x : dy) : bool := dle (dabs x) (dZ 1024).
Definition pt_in (p : dpt) : bool := coord_ok (fst p) && coord_ok (snd p).
Definition rad_ok (r : dy) : bool := dle (mkDy 1 (-10)) r && dle r (dZ 1024).
(** a proper line: (A,B) <> 0, defining data within bounds; two defining points at least 2^-10 apart; a struct
    literal has to carry a unit normal (the library's documented use: [dist] is a distance only then), i.e.
    |A^2 + B^2 - 1| <= 2^-48, which admits every correctly rounded unit vector *)
Definition line_in (l : lspec) : bool :=
  match l with
  | LB x1 y1 x2 y2 =>
      match dpt_of x1 y1, dpt_of x2 y2 with
      | Some u, Some v => pt_in u && pt_in v && dle (mkDy 1 (-20)) (dd2 u v)
      | _, _ => false
      end
  | LN a b c =>
      match dy_of_bits a, dy_of_bits b, dy_of_bits c with
      | Some A, Some B, Some C => coord_ok A && coord_ok B && coord_ok C && dle (mkDy 1 (-20)) (dadd (dsq A) (dsq B))
      | _, _, _ => false
      end
  | LR a b c =>
      match dy_of_bits a, dy_of_bits b, dy_of_bits c with
      | Some A, Some B, Some C =>
          coord_ok A && coord_ok B && coord_ok C && dle (dabs (dsub (dadd (dsq A) (dsq B)) d1)) (mkDy 1 (-48))
      | _, _, _ => false
      end
  end.

(** p within 1e-7 of the circle (c, r):  (10^7 r - 1)^2 <= 10^14 |p - c|^2 <= (10^7 r + 1)^2 *)
Definition near_circle (p c : dpt) (r : dy) : bool :=
  let k := 10 ^ 7 in
  let s := dscale k r in
  let D := dscale (k * k) (dd2 p c) in
  dle D (dsq (dadd s d1)) && (dle s d1 || dle (dsq (dsub s d1)) D).
(** p within 1e-7 of the line:  10^14 (A px + B py + C)^2 <= A^2 + B^2 *)
Definition near_line (p : dpt) (l : dline) : bool :=
  dle (dscale (10 ^ 14) (dsq (lev l p))) (ln2 l).

(** circle-line configuration, all at scale K = 10^10:
    s2 = K^2 (A cx + B cy + C)^2,  bound t = ((K r + j)^2) (A^2 + B^2) *)
Definition cl_cmp (l : dline) (c : dpt) (r : dy) (j : Z) : comparison :=
  (* compare dist(c, l) with r + j * 1e-10 ; requires K r + j >= 0 *)
  let K := 10 ^ 10 in
  let s2 := dscale (K * K) (dsq (lev l c)) in
  let t := dmul (dsq (dadd (dscale K r) (dZ j))) (ln2 l) in
  if dlt s2 t then Lt else if dlt t s2 then Gt else Eq.
Definition is_lt c := match c with Lt => true | _ => false end.
Definition is_gt c := match c with Gt => true | _ => false end.
(** margins in units of 1e-10 *)
Definition OUTER : Z := 100.      (* 1e-8 = 10 EPS *)
Definition INNER : Z := 1.        (* 1e-10 *)

Definition two_distinct (p q : dpt) : bool := negb (deq (fst p) (fst q) && deq (snd p) (snd q)).

Definition spec_cl (c : dpt) (r : dy) (l : dline) (o : obs) : bool :=
  let far_out := is_gt (cl_cmp l c r OUTER) in
  let far_in := is_lt (cl_cmp l c r (- OUTER)) in
  let tangent := negb (is_lt (cl_cmp l c r (- INNER))) && negb (is_gt (cl_cmp l c r INNER)) in
  match o with
  | ONone => negb far_in && negb tangent
  | OTouch x y =>
      match dpt_of x y with
      | Some p => negb far_out && negb far_in && near_circle p c r && near_line p l
      | None => false
      end
  | OTwo x1 y1 x2 y2 =>
      match dpt_of x1 y1, dpt_of x2 y2 with
      | Some p, Some q =>
          negb far_out && negb tangent && near_circle p c r && near_line p l && near_circle q c r && near_line q l
          && (negb far_in || two_distinct p q)
      | _, _ => false
      end
  | _ => false
  end.

(** circle-circle: D = |ca - cb|^2 against (R0 + j 1e-10)^2 at scale K^2 *)
Definition cc_cmp (D R0 : dy) (j : Z) : comparison :=
  (* compare d with R0 + j * 1e-10; if K R0 + j < 0 the answer is Gt *)
  let K := 10 ^ 10 in
  let b := dadd (dscale K R0) (dZ j) in
  if dlt b d0 then Gt
  else let s := dscale (K * K) D in let t := dsq b in
       if dlt s t then Lt else if dlt t s then Gt else Eq.

Definition spec_cc (ca : dpt) (ra : dy) (cb : dpt) (rb : dy) (o : obs) : bool :=
  let D := dd2 ca cb in
  let sum := dadd ra rb in
  let dif := dabs (dsub ra rb) in
  let separate := is_gt (cc_cmp D sum OUTER) in
  let contained := is_lt (cc_cmp D dif (- OUTER)) in
  let crossing := is_gt (cc_cmp D dif OUTER) && is_lt (cc_cmp D sum (- OUTER)) in
  let t_out := negb (is_lt (cc_cmp D sum (- INNER))) && negb (is_gt (cc_cmp D sum INNER)) in
  let t_in := negb (is_lt (cc_cmp D dif (- INNER))) && negb (is_gt (cc_cmp D dif INNER))
              && dle (mkDy 1 (-10)) dif in
  let same := deq D d0 && deq ra rb in
  let pts_ok (l : list dpt) := forallb (fun p => near_circle p ca ra && near_circle p cb rb) l in
  match o with
  | ONone => negb crossing && negb t_out && negb t_in && negb same
  | OSame => negb separate && negb contained && negb crossing && negb t_out && negb t_in
  | OTouchIn x y =>
      match dpt_of x y with
      | Some p => negb separate && negb contained && negb crossing && negb t_out && negb same && pts_ok [p]
      | None => false
      end
  | OTouchOut x y =>
      match dpt_of x y with
      | Some p => negb separate && negb contained && negb crossing && negb t_in && negb same && pts_ok [p]
      | None => false
      end
  | OTwo x1 y1 x2 y2 =>
      match dpt_of x1 y1, dpt_of x2 y2 with
      | Some p, Some q =>
          negb separate && negb contained && negb t_out && negb t_in && negb same && pts_ok [p; q]
          && (negb crossing || two_distinct p q)
      | _, _ => false
      end
  | _ => false
  end.

(** position: relative tolerance. inside mandatory: 10^16 D < r^2 (10^8 - 1)^2 ... *)
Definition spec_pos (c : dpt) (r : dy) (p : dpt) (o : obs) : bool :=
  let D := dd2 c p in
  let r2 := dsq r in
  let inside := dlt (dscale (10 ^ 16) D) (dscale ((10 ^ 8 - 1) ^ 2) r2) in
  let outside := dlt (dscale ((10 ^ 8 + 1) ^ 2) r2) (dscale (10 ^ 16) D) in
  let border := dle (dscale ((10 ^ 10 - 1) ^ 2) r2) (dscale (10 ^ 20) D)
                && dle (dscale (10 ^ 20) D) (dscale ((10 ^ 10 + 1) ^ 2) r2) in
  match o with
  | OPos 0 => negb outside && negb border
  | OPos 1 => negb inside && negb outside
  | OPos 2 => negb inside && negb border
  | _ => false
  end.

(** contains: true mandatory when dist <= 1e-10, false mandatory when dist >= 1e-8 *)
Definition spec_con (l : dline) (p : dpt) (o : obs) : bool :=
  let s2 := dsq (lev l p) in
  let n2 := ln2 l in
  match o with
  | OBool true => dlt (dscale (10 ^ 16) s2) n2
  | OBool false => dlt n2 (dscale (10 ^ 20) s2)
  | _ => false
  end.

(** line-line: sin^2 of the angle = cross^2 / (N1 N2) *)
Definition spec_ll (l1 l2 : dline) (o : obs) : bool :=
  let '(A1, B1, _) := l1 in let '(A2, B2, _) := l2 in
  let cr2 := dsq (dsub (dmul A1 B2) (dmul B1 A2)) in
  let nn := dmul (ln2 l1) (ln2 l2) in
  let surely_parallel := dle (dscale (10 ^ 20) cr2) nn in         (* |sin| <= 1e-10 *)
  let surely_crossing := dle nn (dscale (10 ^ 16) cr2) in         (* |sin| >= 1e-8 *)
  let well_conditioned := dle nn (dscale (10 ^ 6) cr2) in         (* |sin| >= 1e-3 *)
  match o with
  | ONone => negb surely_crossing
  | OPt x y =>
      match dpt_of x y with
      | Some p => negb surely_parallel && (negb well_conditioned || (near_line p l1 && near_line p l2))
      | None => false
      end
  | _ => false
  end.

(** util::parallel: the same two bands *)
Definition spec_par (l1 l2 : dline) (o : obs) : bool :=
  let '(A1, B1, _) := l1 in let '(A2, B2, _) := l2 in
  let cr2 := dsq (dsub (dmul A1 B2) (dmul B1 A2)) in
  let nn := dmul (ln2 l1) (ln2 l2) in
  match o with
  | OBool true => negb (dle nn (dscale (10 ^ 16) cr2))          (* not when |sin| >= 1e-8 *)
  | OBool false => negb (dle (dscale (10 ^ 20) cr2) nn)         (* not when |sin| <= 1e-10 *)
  | _ => false
  end.

(** Line::dist: within 1e-7 of the exact distance |A px + B py + C| / sqrt (A^2 + B^2), and not negative:
    (10^7 x - 1)^2 N <= 10^14 ev^2 <= (10^7 x + 1)^2 N *)
Definition spec_ldist (l : dline) (p : dpt) (o : obs) : bool :=
  match o with
  | OVals [x] =>
      match dy_of_bits x with
      | Some X =>
          let k := 10 ^ 7 in
          let s := dscale k X in
          let E := dscale (k * k) (dsq (lev l p)) in
          dle d0 X && dle E (dmul (dsq (dadd s d1)) (ln2 l)) && (dle s d1 || dle (dmul (dsq (dsub s d1)) (ln2 l)) E)
      | None => false
      end
  | _ => false
  end.

(** util::dist: within 1e-7 of the exact distance, not negative *)
Definition spec_dist (p q : dpt) (o : obs) : bool :=
  match o with
  | OVals [x] => match dy_of_bits x with Some X => dle d0 X && near_circle p q X | None => false end
  | _ => false
  end.

(** the Point operations against exact arithmetic: |observed - exact| <= 2^-50 * (sum of the magnitudes of the
    exact terms) + 2^-200 (a correctly rounded sum of two correctly rounded products is within 2^-52 of it);
    a quotient [q = x / k] is checked as |q k - x| <= 2^-50 |x| + ..., the length as |l^2 - slen| <= 2^-48 slen + ... *)
Definition tiny : dy := mkDy 1 (-200).
Definition close_to (o : float) (exact mag : dy) (e : Z) : bool :=
  match dy_of_bits o with
  | Some v => dle (dabs (dsub v exact)) (dadd (dmul (mkDy 1 e) mag) tiny)
  | None => false
  end.
Definition spec_pt (a b : dpt) (k : dy) (o : obs) : bool :=
  let '(x1, y1) := a in let '(x2, y2) := b in
  match o with
  | OVals [sx; sy; ex; ey; mx; my; qx; qy; dpv; cpv; sl; ln] =>
      close_to sx (dadd x1 x2) (dadd (dabs x1) (dabs x2)) (-50)
      && close_to sy (dadd y1 y2) (dadd (dabs y1) (dabs y2)) (-50)
      && close_to ex (dsub x1 x2) (dadd (dabs x1) (dabs x2)) (-50)
      && close_to ey (dsub y1 y2) (dadd (dabs y1) (dabs y2)) (-50)
      && close_to mx (dmul x1 k) (dabs (dmul x1 k)) (-50)
      && close_to my (dmul y1 k) (dabs (dmul y1 k)) (-50)
      && match dy_of_bits qx, dy_of_bits qy with
         | Some QX, Some QY =>
             dle (dabs (dsub (dmul QX k) x1)) (dadd (dmul (mkDy 1 (-50)) (dabs x1)) tiny)
             && dle (dabs (dsub (dmul QY k) y1)) (dadd (dmul (mkDy 1 (-50)) (dabs y1)) tiny)
         | _, _ => false
         end
      && close_to dpv (dadd (dmul x1 x2) (dmul y1 y2)) (dadd (dabs (dmul x1 x2)) (dabs (dmul y1 y2))) (-50)
      && close_to cpv (dsub (dmul x1 y2) (dmul y1 x2)) (dadd (dabs (dmul x1 y2)) (dabs (dmul y1 x2))) (-50)
      && close_to sl (dadd (dsq x1) (dsq y1)) (dadd (dsq x1) (dsq y1)) (-50)
      && match dy_of_bits ln with
         | Some L =>
             let s2 := dadd (dsq x1) (dsq y1) in
             dle d0 L && dle (dabs (dsub (dsq L) s2)) (dadd (dmul (mkDy 1 (-48)) s2) tiny)
         | None => false
         end
  | _ => false
  end.

(** Line::new / Line::between: unit normal, same line, same orientation *)
Definition spec_line (l : dline) (o : obs) : bool :=
  match o with
  | OLine a b c =>
      match dy_of_bits a, dy_of_bits b, dy_of_bits c with
      | Some a, Some b, Some c =>
          let '(A, B, C) := l in
          let n := dadd (dsq a) (dsq b) in
          let W := dadd (ln2 l) (dsq C) in
          let w := dadd n (dsq c) in
          let small x := dle (dscale (10 ^ 18) (dsq x)) (dmul W w) in
          dle (dscale (10 ^ 9) (dabs (dsub n d1))) d1
          && small (dsub (dmul a B) (dmul b A)) && small (dsub (dmul a C) (dmul c A)) && small (dsub (dmul b C) (dmul c B))
          && dlt d0 (dadd (dmul a A) (dmul b B))
      | _, _, _ => false
      end
  | _ => false
  end.

Definition circ_of (cx cy r0 : float) : option (dpt * dy) :=
  do c <- dpt_of cx cy; do r <- dy_of_bits r0; if pt_in c && rad_ok r then Some (c, r) else None.
Definition line_of (l : lspec) : option dline := if line_in l then dline_of l else None.
Definition pt_of (x y : float) : option dpt := do p <- dpt_of x y; if pt_in p then Some p else None.

(** the case lies inside the quantifier of the property *)
Definition in_scope (c : case) : bool :=
  match c with
  | CLine l _ => line_in l
  | CLL l1 l2 _ => line_in l1 && line_in l2
  | CCL cx cy r0 l _ => match circ_of cx cy r0 with Some _ => line_in l | None => false end
  | CCC ax ay ar bx b_y br _ =>
      match circ_of ax ay ar, circ_of bx b_y br with Some _, Some _ => true | _, _ => false end
  | CPos cx cy r0 px py _ =>
      match circ_of cx cy r0, pt_of px py with Some _, Some _ => true | _, _ => false end
  | CCon l px py _ | CLDist l px py _ => match pt_of px py with Some _ => line_in l | None => false end
  | CDist x1 y1 x2 y2 _ => match pt_of x1 y1, pt_of x2 y2 with Some _, Some _ => true | _, _ => false end
  | CPar l1 l2 _ => line_in l1 && line_in l2
  | CPt x1 y1 x2 y2 k _ =>
      match pt_of x1 y1, pt_of x2 y2, dy_of_bits k with
      | Some _, Some _, Some K => rad_ok (dabs K)
      | _, _, _ => false
      end
  end.

Definition spec_check (c : case) : bool :=
  negb (in_scope c) ||
  match c with
  | CLine l r => match dline_of l with Some L => spec_line L r | None => false end
  | CLL l1 l2 r =>
      match dline_of l1, dline_of l2 with Some L1, Some L2 => spec_ll L1 L2 r | _, _ => false end
  | CCL cx cy r0 l r =>
      match circ_of cx cy r0, dline_of l with Some (c, rr), Some L => spec_cl c rr L r | _, _ => false end
  | CCC ax ay ar bx b_y br r =>
      match circ_of ax ay ar, circ_of bx b_y br with
      | Some (ca, ra), Some (cb, rb) => spec_cc ca ra cb rb r
      | _, _ => false
      end
  | CPos cx cy r0 px py r =>
      match circ_of cx cy r0, pt_of px py with Some (c, rr), Some p => spec_pos c rr p r | _, _ => false end
  | CCon l px py r =>
      match dline_of l, pt_of px py with Some L, Some p => spec_con L p r | _, _ => false end
  | CLDist l px py r =>
      match dline_of l, pt_of px py with Some L, Some p => spec_ldist L p r | _, _ => false end
  | CDist x1 y1 x2 y2 r =>
      match pt_of x1 y1, pt_of x2 y2 with Some p, Some q => spec_dist p q r | _, _ => false end
  | CPar l1 l2 r =>
      match dline_of l1, dline_of l2 with Some L1, Some L2 => spec_par L1 L2 r | _, _ => false end
  | CPt x1 y1 x2 y2 k r =>
      match pt_of x1 y1, pt_of x2 y2, dy_of_bits k with
      | Some a, Some b, Some K => spec_pt a b K r
      | _, _, _ => false
      end
  end.

(** what the model computes on the input of a case (for replay files), and whether the case is
    inside the quantifier *)
Definition explain (c : case) : mres * bool := (run_model c, in_scope c).
