(** C10 — executable model of rlib/geometry (point.rs, line.rs, circle.rs, util.rs),
    ONE definition polymorphic in the scalar operations [Ops F] and in the tolerance [EPS]
    (the library's [pub const EPS: f64 = 1e-9]).

    Instances (see Corr.v / ProofsR.v): primitive binary64 floats (executed and compared with the
    Rust code) and Coq's real numbers [R] (carries the theorems).  The difference between the two
    instances is rounding; it is named ([c10_rounding_partial]), not proved.

    Conventions:
    - every Rust expression is transcribed with the same association and the same order of
      comparisons ([d > r + EPS] first, then [d > r - EPS]; [d < EPS && a.r < b.r + EPS] ...);
    - [a > b] is [ltb b a]; [x != 0.0] is [negb (eqb x 0)]; [x.powi(2)] is [x * x];
      [x.max(0.0)] is [fmax x 0]; unary minus is [neg]; [p * -1.0] multiplies by the constant -1;
    - nothing here can panic: division by zero gives inf/NaN in binary64 (the [R] instance uses
      Coq's total division and every theorem that divides has a non-zero hypothesis);
    - definitions only, no proofs. *)
From Coq Require Import ZArith Bool.

Record Ops (F : Type) := mkOps {
  add : F -> F -> F; sub : F -> F -> F; mul : F -> F -> F; div : F -> F -> F;
  neg : F -> F; fsqrt : F -> F; fabs : F -> F;
  fmax : F -> F -> F;           (* f64::max *)
  ltb : F -> F -> bool;         (* <  (false when unordered) *)
  eqb : F -> F -> bool;         (* == (false when unordered; -0 == +0) *)
  of_Z : Z -> F                 (* literals: 0.0, 2.0, -1.0 *)
}.
Arguments add {F}. Arguments sub {F}. Arguments mul {F}. Arguments div {F}. Arguments neg {F}.
Arguments fsqrt {F}. Arguments fabs {F}. Arguments fmax {F}. Arguments ltb {F}. Arguments eqb {F}.
Arguments of_Z {F}.

Section Model.
Context {F : Type} (o : Ops F) (EPS : F).

Local Notation "x + y" := (add o x y).
Local Notation "x - y" := (sub o x y).
Local Notation "x * y" := (mul o x y).
Local Notation "x / y" := (div o x y).
Local Notation "- x" := (neg o x).
Local Notation "x <? y" := (ltb o x y).
Local Notation "x >? y" := (ltb o y x).
Local Notation c0 := (of_Z o 0%Z).
Local Notation c2 := (of_Z o 2%Z).
Local Notation cm1 := (of_Z o (-1)%Z).

(** * point.rs *)
Record Pt := mkPt { px : F; py : F }.
Definition slen (p : Pt) : F := px p * px p + py p * py p.
Definition len (p : Pt) : F := fsqrt o (slen p).
Definition dp (p q : Pt) : F := px p * px q + py p * py q.
Definition cp (p q : Pt) : F := px p * py q - py p * px q.
Definition padd (p q : Pt) : Pt := mkPt (px p + px q) (py p + py q).
Definition psub (p q : Pt) : Pt := mkPt (px p - px q) (py p - py q).
Definition pscale (p : Pt) (k : F) : Pt := mkPt (px p * k) (py p * k).
Definition pdiv (p : Pt) (k : F) : Pt := mkPt (px p / k) (py p / k).

(** * line.rs *)
Record Ln := mkLn { la : F; lb : F; lc : F }.
(** [Line::new]: normalisation by [len (a, b)]; a = b = 0 divides by zero (NaN/inf in binary64) *)
Definition line_new (a b c : F) : Ln :=
  let d := len (mkPt a b) in mkLn (a / d) (b / d) (c / d).
Definition line_between (u v : Pt) : Ln :=
  let a := py u - py v in
  let b := px v - px u in
  let c := - (a * px u + b * py u) in
  line_new a b c.
Definition ldist (l : Ln) (p : Pt) : F := fabs o (la l * px p + lb l * py p + lc l).
Definition contains (l : Ln) (p : Pt) : bool := ldist l p <? EPS.
Definition ort (l : Ln) : Pt := mkPt (la l) (lb l).

(** * circle.rs *)
Record Circ := mkCirc { cc : Pt; cr : F }.
Inductive Position := Inside | Border | Outside.
(** relative tolerance: [((c - p).len() - r) / r] against [-EPS], [EPS] *)
Definition position (c : Circ) (p : Pt) : Position :=
  let d := (len (psub (cc c) p) - cr c) / cr c in
  if d <? - EPS then Inside
  else if d >? EPS then Outside
  else Border.
(** documentation only: a variant with an ABSOLUTE tolerance (not what the code does) *)
Definition position_abs (c : Circ) (p : Pt) : Position :=
  let d := len (psub (cc c) p) - cr c in
  if d <? - EPS then Inside else if d >? EPS then Outside else Border.

(** * util.rs *)
Definition dist (a b : Pt) : F := len (psub a b).
Definition parallel (a b : Ln) : bool := fabs o (cp (ort a) (ort b)) <? EPS.

Definition intersect_ll (u v : Ln) : option Pt :=
  if parallel u v then None
  else
    let x := - (lc u * lb v - lb u * lc v) / (la u * lb v - lb u * la v) in
    let y := - (lc u * la v - la u * lc v) / (lb u * la v - la u * lb v) in
    Some (mkPt x y).

Inductive CL := CLNone | CLTouch (p : Pt) | CLIntersect (p q : Pt).

(** signed value of the line equation at the centre *)
Definition line_eval (l : Ln) (p : Pt) : F := la l * px p + lb l * py p + lc l.

Definition intersect_cl (c : Circ) (l : Ln) : CL :=
  let d := ldist l (cc c) in
  if d >? cr c + EPS then CLNone
  else if d >? cr c - EPS then
    let ort0 := mkPt (la l) (lb l) in
    let ort1 := pdiv ort0 (len ort0) in
    CLTouch (psub (cc c) (pscale ort1 (line_eval l (cc c))))
  else
    let ort0 := mkPt (la l) (lb l) in
    let ort1 := if negb (eqb o (len ort0) c0) then pdiv ort0 (len ort0) else ort0 in
    let ort2 := if line_eval l (cc c) >? c0 then pscale ort1 cm1 else ort1 in
    let par := mkPt (- py ort2) (px ort2) in
    let ort3 := pscale ort2 d in
    let side := fsqrt o (fmax o (cr c * cr c - d * d) c0) in
    CLIntersect (padd (padd (cc c) ort3) (pscale par side))
                (psub (padd (cc c) ort3) (pscale par side)).

(** the tangent branch BEFORE the repair (commit 76057d7): returned [ort * c.r], the unit normal
    scaled by the radius, not a point near the circle.  Kept as a named old variant for
    [c10_old_tangent_refuted]; nothing else uses it. *)
Definition intersect_cl_old (c : Circ) (l : Ln) : CL :=
  let d := ldist l (cc c) in
  if d >? cr c + EPS then CLNone
  else if d >? cr c - EPS then
    let ort0 := mkPt (la l) (lb l) in
    let ort1 := pdiv ort0 (len ort0) in
    CLTouch (pscale ort1 (cr c))
  else intersect_cl c l.

Inductive CCRes := CCNone | CCSame | CCTouchInside (p : Pt) | CCTouchOutside (p : Pt) | CCIntersect (p q : Pt).

(** the radical line of [a], [b] as built by the code before commit bc281aa (through [Line::new]) *)
Definition radical_line (a b : Circ) : Ln :=
  line_new (- px (cc a) * c2 + px (cc b) * c2)
           (- py (cc a) * c2 + py (cc b) * c2)
           (px (cc a) * px (cc a) + py (cc a) * py (cc a) - px (cc b) * px (cc b) - py (cc b) * py (cc b)
            - cr a * cr a + cr b * cr b).

(** after the swap: [cr a >= cr b] (or unordered).  Crossing branch: the two points are computed
    directly (commit bc281aa; before that through [intersect_cl] on the radical line) from the foot
    [mid] of the common chord on the centre line and the half chord [h], and both are measured from
    the SMALLER circle [b] ([y] = signed distance of the chord from [b.c] towards [a.c]); the version
    of bc281aa measured them from the larger circle, see [intersect_cc_ordered_big] *)
Definition intersect_cc_ordered (a b : Circ) : CCRes :=
  let d := dist (cc a) (cc b) in
  if (d <? EPS) && (cr a <? cr b + EPS) then CCSame
  else if d <? cr a - cr b - EPS then CCNone
  else if d <? cr a - cr b + EPS then
    CCTouchInside (padd (cc a) (pscale (pdiv (psub (cc b) (cc a)) d) (cr a)))
  else if d <? cr a + cr b - EPS then
    let y := (d * d + cr b * cr b - cr a * cr a) / (c2 * d) in
    let h := fsqrt o (fmax o (cr b * cr b - y * y) c0) in
    let dir := pdiv (psub (cc b) (cc a)) d in
    let mid := psub (cc b) (pscale dir y) in
    let par := mkPt (- py dir) (px dir) in
    CCIntersect (padd mid (pscale par h)) (psub mid (pscale par h))
  else if d <? cr a + cr b + EPS then
    CCTouchOutside (padd (cc a) (pscale (pdiv (psub (cc b) (cc a)) d) (cr a)))
  else CCNone.

(** the crossing branch between commit bc281aa and the repair described above: chord foot at distance
    [x] from the LARGER circle's centre and [h = sqrt (a.r^2 - x^2)].  Exact in real arithmetic
    (the points coincide with those of [intersect_cc_ordered]), but in binary64 the square root
    cancels at the scale of [a.r^2]: for a.r = 1000, b.r = 0.001 the points are 1.2e-7 off the small
    circle ([c10_cc_big_ratio_refuted]).  Kept as a named old variant; nothing else uses it. *)
Definition intersect_cc_ordered_big (a b : Circ) : CCRes :=
  let d := dist (cc a) (cc b) in
  if (d <? EPS) && (cr a <? cr b + EPS) then CCSame
  else if d <? cr a - cr b - EPS then CCNone
  else if d <? cr a - cr b + EPS then
    CCTouchInside (padd (cc a) (pscale (pdiv (psub (cc b) (cc a)) d) (cr a)))
  else if d <? cr a + cr b - EPS then
    let x := (d * d + cr a * cr a - cr b * cr b) / (c2 * d) in
    let h := fsqrt o (fmax o (cr a * cr a - x * x) c0) in
    let dir := pdiv (psub (cc b) (cc a)) d in
    let mid := padd (cc a) (pscale dir x) in
    let par := mkPt (- py dir) (px dir) in
    CCIntersect (padd mid (pscale par h)) (psub mid (pscale par h))
  else if d <? cr a + cr b + EPS then
    CCTouchOutside (padd (cc a) (pscale (pdiv (psub (cc b) (cc a)) d) (cr a)))
  else CCNone.
Definition intersect_cc_big (a b : Circ) : CCRes :=
  if cr a <? cr b then intersect_cc_ordered_big b a else intersect_cc_ordered_big a b.

(** the crossing branch BEFORE commit bc281aa: the radical line was built through [Line::new] and
    handed to [intersect_cl], whose own absolute +-EPS test is about [cr a / cr b] times more
    sensitive than the test on [d]; near a tangency of very unequal circles it answered [Touch]
    (reported as [TouchOutside], even at an inner contact) with a point up to ~EPS * cr a / cr b
    away from circle [b].  Kept as a named old variant for [c10_cc_old_near_tangent_refuted];
    nothing else uses it. *)
Definition intersect_cc_ordered_old (a b : Circ) : CCRes :=
  let d := dist (cc a) (cc b) in
  if (d <? EPS) && (cr a <? cr b + EPS) then CCSame
  else if d <? cr a - cr b - EPS then CCNone
  else if d <? cr a - cr b + EPS then
    CCTouchInside (padd (cc a) (pscale (pdiv (psub (cc b) (cc a)) d) (cr a)))
  else if d <? cr a + cr b - EPS then
    match intersect_cl a (radical_line a b) with
    | CLNone => CCNone
    | CLTouch p => CCTouchOutside p
    | CLIntersect u v => CCIntersect u v
    end
  else if d <? cr a + cr b + EPS then
    CCTouchOutside (padd (cc a) (pscale (pdiv (psub (cc b) (cc a)) d) (cr a)))
  else CCNone.

Definition intersect_cc (a b : Circ) : CCRes :=
  if cr a <? cr b then intersect_cc_ordered b a else intersect_cc_ordered a b.

End Model.

Arguments mkPt {F}. Arguments px {F}. Arguments py {F}.
Arguments mkLn {F}. Arguments la {F}. Arguments lb {F}. Arguments lc {F}.
Arguments mkCirc {F}. Arguments cc {F}. Arguments cr {F}.
Arguments CLNone {F}. Arguments CLTouch {F}. Arguments CLIntersect {F}.
Arguments CCNone {F}. Arguments CCSame {F}. Arguments CCTouchInside {F}. Arguments CCTouchOutside {F}.
Arguments CCIntersect {F}.
Arguments Pt : clear implicits. Arguments Ln : clear implicits. Arguments Circ : clear implicits.
Arguments CL : clear implicits. Arguments CCRes : clear implicits.
