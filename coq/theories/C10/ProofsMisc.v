(** C10 — proofs (instance R): Circle::position, and the refutation of the tangent branch before the repair. *)
From Coq Require Import Reals Lra Psatz ZArith Bool Nsatz.
From RlibV Require Import C10.Model.
From RlibV Require Import C10.RInst C10.ProofsLine C10.ProofsCL.
Open Scope R_scope.

Lemma len_psub (p q : Pt R) : len rops (psub rops p q) = edist p q.
Proof. reflexivity. Qed.
Lemma dist_edist (p q : Pt R) : dist rops p q = edist p q.
Proof. reflexivity. Qed.

(** * position *)
Lemma position_spec eps (c : Circ R) (p : Pt R) : 0 < cr c -> 0 <= eps ->
  let d := edist (cc c) p in
  (position rops eps c p = Inside <-> d < cr c * (1 - eps)) /\
  (position rops eps c p = Outside <-> cr c * (1 + eps) < d) /\
  (position rops eps c p = Border <-> cr c * (1 - eps) <= d <= cr c * (1 + eps)).
Proof.
  intros Hr He d. unfold position. rewrite len_psub. fold d. rsimp.
  set (r := cr c) in *.
  assert (Hlt : forall x, (d - r) / r < x <-> d < r * (1 + x)).
  { intros x. split; intros H.
    - apply (Rmult_lt_compat_r r) in H; [|lra]. unfold Rdiv in H. rewrite Rmult_assoc, Rinv_l, Rmult_1_r in H; lra.
    - apply (Rmult_lt_reg_r r); [lra|]. unfold Rdiv. rewrite Rmult_assoc, Rinv_l, Rmult_1_r; lra. }
  assert (Hgt : forall x, x < (d - r) / r <-> r * (1 + x) < d).
  { intros x. split; intros H.
    - apply (Rmult_lt_compat_r r) in H; [|lra]. unfold Rdiv in H. rewrite Rmult_assoc, Rinv_l, Rmult_1_r in H; lra.
    - apply (Rmult_lt_reg_r r); [lra|]. unfold Rdiv. rewrite Rmult_assoc, Rinv_l, Rmult_1_r; lra. }
  destruct (Rltb ((d - r) / r) (- eps)) eqn:E1.
  - apply Rltb_true, Hlt in E1.
    repeat split; intros; try discriminate; try nra.
  - apply Rltb_false in E1.
    assert (E1' : ~ (d - r) / r < - eps) by lra. rewrite Hlt in E1'.
    destruct (Rltb eps ((d - r) / r)) eqn:E2.
    + apply Rltb_true, Hgt in E2. repeat split; intros; try discriminate; try nra.
    + apply Rltb_false in E2. assert (E2' : ~ eps < (d - r) / r) by lra. rewrite Hgt in E2'.
      repeat split; intros; try discriminate; try nra.
Qed.

(** * the tangent branch before the repair *)
Lemma old_tangent_refuted : forall eps, 0 < eps ->
  let c := mkCirc (mkPt 5 0) 1 in
  let l := line_between rops (mkPt 6 0) (mkPt 6 1) in
  l = mkLn (-1) 0 6 /\ unit_line l /\ ldist rops l (cc c) = cr c /\
  intersect_cl_old rops eps c l = CLTouch (mkPt (-1) 0) /\ ~ on_circle c (mkPt (-1) 0) /\
  intersect_cl rops eps c l = CLTouch (mkPt 6 0) /\ on_circle c (mkPt 6 0) /\ on_line l (mkPt 6 0).
Proof.
  intros eps He c l.
  assert (Hl : l = mkLn (-1) 0 6).
  { unfold l, line_between, line_new, len, slen. rsimp.
    replace ((0 - 1) * (0 - 1) + (6 - 6) * (6 - 6)) with 1 by ring. rewrite sqrt_1. f_equal; field. }
  split; [exact Hl|]. rewrite Hl. clear Hl l. subst c. cbn [cc cr].
  assert (Hd : ldist rops (mkLn (-1) 0 6) (mkPt 5 0) = 1).
  { unfold ldist. rsimp. replace (-1 * 5 + 0 * 0 + 6) with 1 by ring. apply Rabs_R1. }
  assert (Hlen : len rops (mkPt (-1) 0) = 1).
  { unfold len, slen. rsimp. replace (-1 * -1 + 0 * 0) with 1 by ring. apply sqrt_1. }
  split; [unfold unit_line; cbn [la lb]; ring|].
  split; [exact Hd|].
  split.
  { unfold intersect_cl_old. cbn [cc cr]. rewrite Hd. rsimp. cbn [la lb lc].
    replace (Rltb (1 + eps) 1) with false by (symmetry; apply Rltb_false; lra).
    replace (Rltb (1 - eps) 1) with true by (symmetry; apply Rltb_true; lra).
    rewrite Hlen. unfold pscale, pdiv. rsimp. apply f_equal; apply f_equal2; field. }
  split.
  { unfold on_circle, d2. rsimp. lra. }
  split.
  { unfold intersect_cl. cbn [cc cr]. rewrite Hd. rsimp. cbn [la lb lc].
    replace (Rltb (1 + eps) 1) with false by (symmetry; apply Rltb_false; lra).
    replace (Rltb (1 - eps) 1) with true by (symmetry; apply Rltb_true; lra).
    rewrite Hlen. unfold psub, pscale, pdiv, line_eval. rsimp. apply f_equal; apply f_equal2; field. }
  split.
  { unfold on_circle, d2. rsimp. lra. }
  unfold on_line. rsimp. lra.
Qed.
