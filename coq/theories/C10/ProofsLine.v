(** C10 — proofs about lines (instance R): normalisation, Line::between, ldist = Euclidean distance, contains, intersect_ll. *)
From Coq Require Import Reals Lra Psatz ZArith Bool.
From RlibV Require Import C10.Model.
From RlibV Require Import C10.RInst.
Open Scope R_scope.

Ltac rsimp := cbn [add sub mul div neg fsqrt fabs fmax ltb eqb of_Z rops px py la lb lc cc cr] in *.

Lemma sumsq_pos a b : (a, b) <> (0, 0) -> 0 < a * a + b * b.
Proof.
  intros Hne.
  destruct (Req_dec a 0) as [->|Ha]; destruct (Req_dec b 0) as [->|Hb]; try nra.
  exfalso; now apply Hne.
Qed.

Lemma sqrt_sumsq_pos a b : (a, b) <> (0, 0) -> 0 < sqrt (a * a + b * b).
Proof. intros H. apply sqrt_lt_R0. now apply sumsq_pos. Qed.

Lemma line_new_unit a b c : (a, b) <> (0, 0) -> unit_line (line_new rops a b c).
Proof.
  intros Hne. unfold unit_line, line_new, len, slen. rsimp.
  set (d := sqrt (a * a + b * b)).
  assert (Hpos : 0 < a * a + b * b) by now apply sumsq_pos.
  assert (Hd : d * d = a * a + b * b) by (apply sqrt_sqrt; lra).
  assert (Hd0 : d <> 0) by (intro E; rewrite E in Hd; lra).
  field_simplify_eq; [|exact Hd0]. nra.
Qed.

Lemma line_new_same_line a b c p : (a, b) <> (0, 0) ->
  (on_line (line_new rops a b c) p <-> a * px p + b * py p + c = 0).
Proof.
  intros Hne. unfold on_line, line_new, len, slen. rsimp.
  set (d := sqrt (a * a + b * b)).
  assert (Hd0 : 0 < d) by now apply sqrt_sumsq_pos.
  replace (a / d * px p + b / d * py p + c / d) with ((a * px p + b * py p + c) / d) by (field; lra).
  split; intros H.
  - apply (Rmult_eq_compat_r d) in H. unfold Rdiv in H. rewrite Rmult_assoc, Rinv_l, Rmult_1_r, Rmult_0_l in H; lra.
  - rewrite H. unfold Rdiv. ring.
Qed.

(** the stored normal keeps the orientation of (a, b) *)
Lemma line_new_orient a b c : (a, b) <> (0, 0) ->
  exists k, 0 < k /\ la (line_new rops a b c) = k * a /\ lb (line_new rops a b c) = k * b /\ lc (line_new rops a b c) = k * c.
Proof.
  intros Hne. unfold line_new, len, slen. rsimp.
  set (d := sqrt (a * a + b * b)).
  assert (Hd0 : 0 < d) by now apply sqrt_sumsq_pos.
  exists (/ d). split; [now apply Rinv_0_lt_compat|]. unfold Rdiv. repeat split; ring.
Qed.

Lemma between_normal_nz (u v : Pt R) : u <> v -> (py u - py v, px v - px u) <> (0, 0).
Proof.
  intros Hne E. injection E as E1 E2. apply Hne. destruct u, v; cbn in *. f_equal; lra.
Qed.

Lemma between_contains (u v : Pt R) : u <> v ->
  unit_line (line_between rops u v) /\ on_line (line_between rops u v) u /\ on_line (line_between rops u v) v.
Proof.
  intros Hne. unfold line_between. rsimp.
  pose proof (between_normal_nz u v Hne) as Hn.
  split; [now apply line_new_unit|].
  split; apply (proj2 (line_new_same_line _ _ _ _ Hn)); ring.
Qed.

(** on a unit line [ldist] is the Euclidean distance to the line: a lower bound for the distance to
    every point of the line, attained at the foot of the perpendicular *)
Lemma ldist_lower (l : Ln R) (p q : Pt R) : unit_line l -> on_line l q -> ldist rops l p <= edist p q.
Proof.
  unfold unit_line, on_line, ldist, edist, d2. rsimp. intros Hu Hq.
  destruct l as [a b c], p as [x y], q as [x' y']; cbn [la lb lc px py] in *.
  rewrite <- sqrt_Rsqr_abs. apply sqrt_le_1_alt. unfold Rsqr.
  replace (a * x + b * y + c) with (a * (x - x') + b * (y - y')) by lra.
  (* Cauchy-Schwarz with |(a,b)| = 1 *)
  set (X := x - x'). set (Y := y - y').
  assert (Hid : (a * X + b * Y) * (a * X + b * Y) + (a * Y - b * X) * (a * Y - b * X)
                = (a * a + b * b) * (X * X + Y * Y)) by ring.
  rewrite Hu, Rmult_1_l in Hid.
  pose proof (Rle_0_sqr (a * Y - b * X)) as Hsq. unfold Rsqr in Hsq. lra.
Qed.


Lemma ldist_attained (l : Ln R) (p : Pt R) : unit_line l ->
  on_line l (foot l p) /\ edist p (foot l p) = ldist rops l p.
Proof.
  unfold unit_line, on_line, ldist, edist, d2, foot. rsimp. intros Hu.
  destruct l as [a b c], p as [x y]; cbn [la lb lc px py] in *.
  set (s := a * x + b * y + c).
  split.
  - replace (a * (x - a * s) + b * (y - b * s) + c) with (s - (a * a + b * b) * s) by (unfold s; ring).
    rewrite Hu. ring.
  - replace ((x - (x - a * s)) * (x - (x - a * s)) + (y - (y - b * s)) * (y - (y - b * s)))
      with ((a * a + b * b) * (s * s)) by ring.
    rewrite Hu, Rmult_1_l. apply sqrt_Rsqr_abs.
Qed.

Lemma contains_spec eps (l : Ln R) (p : Pt R) : contains rops eps l p = true <-> ldist rops l p < eps.
Proof. unfold contains. rsimp. apply Rltb_true. Qed.

(** * line-line *)
Lemma parallel_spec eps (u v : Ln R) :
  parallel rops eps u v = true <-> Rabs (la u * lb v - lb u * la v) < eps.
Proof. unfold parallel, cp, ort. rsimp. apply Rltb_true. Qed.

Lemma ll_parallel_none eps (u v : Ln R) : parallel rops eps u v = true -> intersect_ll rops eps u v = None.
Proof. intros H. unfold intersect_ll. now rewrite H. Qed.

Lemma ll_on_both eps (u v : Ln R) : 0 < eps -> parallel rops eps u v = false ->
  exists p, intersect_ll rops eps u v = Some p /\ on_line u p /\ on_line v p.
Proof.
  intros He Hp. unfold intersect_ll. rewrite Hp.
  assert (Hdet : la u * lb v - lb u * la v <> 0).
  { destruct (parallel rops eps u v) eqn:E; [discriminate|].
    intro Z. assert (parallel rops eps u v = true); [|congruence].
    apply parallel_spec. rewrite Z, Rabs_R0. exact He. }
  eexists; split; [reflexivity|].
  unfold on_line. rsimp. destruct u as [a1 b1 c1], v as [a2 b2 c2]; cbn [la lb lc] in *.
  split; field; lra.
Qed.

(** ** packaged statements *)
Lemma line_new_full : forall a b c : R, (a, b) <> (0, 0) ->
  unit_line (line_new rops a b c) /\
  (forall p, on_line (line_new rops a b c) p <-> a * px p + b * py p + c = 0) /\
  (exists k, 0 < k /\ la (line_new rops a b c) = k * a /\ lb (line_new rops a b c) = k * b /\ lc (line_new rops a b c) = k * c).
Proof.
  intros a b c H. split; [now apply line_new_unit|]. split; [intros p; now apply line_new_same_line|now apply line_new_orient].
Qed.

Lemma dist_euclidean : forall (l : Ln R) (p : Pt R), unit_line l ->
  (forall q, on_line l q -> ldist rops l p <= edist p q) /\
  (on_line l (foot l p) /\ edist p (foot l p) = ldist rops l p).
Proof. intros l p Hu. split; [intros q Hq; now apply ldist_lower|now apply ldist_attained]. Qed.

Lemma on_line_ldist0 (l : Ln R) (p : Pt R) : on_line l p -> ldist rops l p = 0.
Proof. unfold on_line, ldist. rsimp. intros ->. apply Rabs_R0. Qed.

Lemma between_full : forall (eps : R) (u v : Pt R), 0 < eps -> u <> v ->
  let l := line_between rops u v in
  unit_line l /\ on_line l u /\ on_line l v /\ contains rops eps l u = true /\ contains rops eps l v = true.
Proof.
  intros eps u v He Hne l. destruct (between_contains u v Hne) as (Hu & H1 & H2). fold l in Hu, H1, H2.
  repeat split; auto; apply contains_spec; rewrite on_line_ldist0; auto.
Qed.

Lemma ll_parallel_full : forall (eps : R) (u v : Ln R),
  (parallel rops eps u v = true <-> Rabs (la u * lb v - lb u * la v) < eps) /\
  (parallel rops eps u v = true -> intersect_ll rops eps u v = None).
Proof. intros. split; [apply parallel_spec|apply ll_parallel_none]. Qed.
