(** C10 — property theorems (statements only; every proof is [exact lemma]).
    All statements are about the REAL-NUMBER instance [rops] of the polymorphic model in Model.v,
    for an arbitrary tolerance [eps] (the library's EPS = 1e-9 is one value of it).
    Vocabulary (RInst.v): [on_line l p]  : a x + b y + c = 0;   [unit_line l] : a^2 + b^2 = 1;
    [d2], [edist] : squared / Euclidean distance;   [on_circle c p] : |p - centre|^2 = r^2.

    NOT proved — [c10_rounding_partial]: that the binary64 instance stays within 1e-7 of these exact
    statements for coordinates up to 1e3.  That clause is decided on every run by the exact dyadic
    [spec_check] of Corr.v on the sampled cases and by the implementation-level search. *)
From Coq Require Import Reals ZArith Bool.
From RlibV Require Import C10.Model C10.RInst C10.ProofsLine C10.ProofsCL C10.ProofsMisc C10.ProofsCC.
From RlibV Require C10.Corr C10.ProofsRatio.
Open Scope R_scope.

(** Line::new stores a unit normal, describes the same line, keeps the orientation *)
Theorem c10_line_new_unit : forall a b c : R, (a, b) <> (0, 0) ->
  unit_line (line_new rops a b c) /\
  (forall p, on_line (line_new rops a b c) p <-> a * px p + b * py p + c = 0) /\
  (exists k, 0 < k /\ la (line_new rops a b c) = k * a /\ lb (line_new rops a b c) = k * b /\ lc (line_new rops a b c) = k * c).
Proof. exact line_new_full. Qed.

(** hence [dist] is the Euclidean distance to the line: a lower bound, attained at the foot *)
Theorem c10_dist_euclidean : forall (l : Ln R) (p : Pt R), unit_line l ->
  (forall q, on_line l q -> ldist rops l p <= edist p q) /\
  (on_line l (foot l p) /\ edist p (foot l p) = ldist rops l p).
Proof. exact dist_euclidean. Qed.

Theorem c10_between_contains : forall (eps : R) (u v : Pt R), 0 < eps -> u <> v ->
  let l := line_between rops u v in
  unit_line l /\ on_line l u /\ on_line l v /\ contains rops eps l u = true /\ contains rops eps l v = true.
Proof. exact between_full. Qed.

Theorem c10_contains : forall (eps : R) (l : Ln R) (p : Pt R),
  contains rops eps l p = true <-> ldist rops l p < eps.
Proof. exact contains_spec. Qed.

Theorem c10_ll_on_both : forall (eps : R) (u v : Ln R), 0 < eps -> parallel rops eps u v = false ->
  exists p, intersect_ll rops eps u v = Some p /\ on_line u p /\ on_line v p.
Proof. exact ll_on_both. Qed.

Theorem c10_ll_parallel_none : forall (eps : R) (u v : Ln R),
  (parallel rops eps u v = true <-> Rabs (la u * lb v - lb u * la v) < eps) /\
  (parallel rops eps u v = true -> intersect_ll rops eps u v = None).
Proof. exact ll_parallel_full. Qed.

Theorem c10_cl_none : forall (eps : R) (c : Circ R) (l : Ln R),
  unit_line l -> 0 < eps -> 0 <= cr c -> cr c + eps < ldist rops l (cc c) ->
  intersect_cl rops eps c l = CLNone /\ forall p, on_line l p -> ~ on_circle c p.
Proof. exact cl_none. Qed.

Theorem c10_cl_two_points : forall (eps : R) (c : Circ R) (l : Ln R),
  unit_line l -> 0 < eps -> ldist rops l (cc c) <= cr c - eps ->
  exists p q, intersect_cl rops eps c l = CLIntersect p q
    /\ on_line l p /\ on_circle c p /\ on_line l q /\ on_circle c q /\ p <> q.
Proof. exact cl_two_points. Qed.

Theorem c10_cl_tangent : forall (eps : R) (c : Circ R) (l : Ln R),
  unit_line l -> cr c - eps < ldist rops l (cc c) <= cr c + eps ->
  exists p, intersect_cl rops eps c l = CLTouch p /\ on_line l p /\ Rabs (edist p (cc c) - cr c) <= eps
            /\ p = foot l (cc c).
Proof. exact cl_tangent. Qed.

Theorem c10_position : forall (eps : R) (c : Circ R) (p : Pt R), 0 < cr c -> 0 <= eps ->
  let d := edist (cc c) p in
  (position rops eps c p = Inside <-> d < cr c * (1 - eps)) /\
  (position rops eps c p = Outside <-> cr c * (1 + eps) < d) /\
  (position rops eps c p = Border <-> cr c * (1 - eps) <= d <= cr c * (1 + eps)).
Proof. exact position_spec. Qed.

(** circle-circle, stated for [cr b <= cr a]; the other order is [c10_cc_swap].
    d = distance of the centres.  Away from the +-eps bands the constructor follows the exact case
    analysis of d against r1 +- r2; [None] really means no common point; in the crossing case both
    reported points lie on both circles exactly and are distinct (crossing branch measured from the
    smaller circle; for the code before commit bc281aa see [c10_cc_old_crossing], for the code
    between that commit and the present one see [c10_cc_big_crossing] / [c10_cc_big_ratio_refuted]). *)
Theorem c10_cc_kinds : forall (eps : R) (a b : Circ R), 0 < eps -> eps <= cr b -> cr b <= cr a ->
  let d := edist (cc a) (cc b) in
  (cr a + cr b + eps <= d ->
     intersect_cc rops eps a b = CCNone /\ forall p, on_circle a p -> ~ on_circle b p) /\
  (cr a + cr b - eps <= d < cr a + cr b + eps ->
     intersect_cc rops eps a b = CCTouchOutside (touch_pt a b)) /\
  (cr a - cr b + eps <= d < cr a + cr b - eps ->
     exists p q, intersect_cc rops eps a b = CCIntersect p q
       /\ on_circle a p /\ on_circle b p /\ on_circle a q /\ on_circle b q /\ p <> q) /\
  (cr a - cr b - eps <= d < cr a - cr b + eps -> ~ (d < eps /\ cr a < cr b + eps) ->
     intersect_cc rops eps a b = CCTouchInside (touch_pt a b)) /\
  (d < cr a - cr b - eps ->
     intersect_cc rops eps a b = CCNone /\ forall p, on_circle a p -> ~ on_circle b p) /\
  (d < eps -> cr a < cr b + eps -> intersect_cc rops eps a b = CCSame).
Proof. exact cc_kinds. Qed.

(** documentation: the crossing branch BEFORE commit bc281aa ([intersect_cc_ordered_old]: radical
    line handed to [intersect_cl]) yields the two exact points only under the additional hypothesis
    2 d eps <= (R + r - d)(r + d - R)  (the larger circle's centre is at least eps closer to the
    radical line than R).  Near a tangency of very unequal circles that fails although d is many
    eps away from R +- r; the old code then answered TouchOutside with a point up to ~eps R / r off
    circle b (observed on the real crate: a = (0,0) r 900, b = (899.0000005,0) r 1 gave
    TouchOutside((899.99999999944,0)), 5.0e-7 off circle b, at an INNER near-contact). *)
Theorem c10_cc_old_crossing : forall (eps : R) (a b : Circ R), 0 < eps -> eps <= cr b -> cr b <= cr a ->
  let d := edist (cc a) (cc b) in
  cr a - cr b + eps <= d < cr a + cr b - eps -> 2 * d * eps <= (cr a + cr b - d) * (cr b + d - cr a) ->
  exists p q, intersect_cc_ordered_old rops eps a b = CCIntersect p q
    /\ on_circle a p /\ on_circle b p /\ on_circle a q /\ on_circle b q /\ p <> q.
Proof. exact ord_cross_old. Qed.

(** documentation: the crossing branch as written between commit bc281aa and the present code
    ([intersect_cc_ordered_big]: chord foot and half chord measured from the LARGER circle) is exact
    over the reals as well ... *)
Theorem c10_cc_big_crossing : forall (eps : R) (a b : Circ R), 0 < eps -> eps <= cr b -> cr b <= cr a ->
  let d := edist (cc a) (cc b) in
  cr a - cr b + eps <= d < cr a + cr b - eps ->
  exists p q, intersect_cc_ordered_big rops eps a b = CCIntersect p q
    /\ on_circle a p /\ on_circle b p /\ on_circle a q /\ on_circle b q /\ p <> q.
Proof. exact ord_cross_big. Qed.

(** ... but NOT in binary64: for a = ((0,0), 1000), b = ((999.9993,0), 0.001) (a proper crossing, 3e-4
    from both tangencies; [ProofsRatio.w_a], [w_b] give the exact bit patterns) the binary64 instance
    of that branch returns two points that the exact dyadic specification rejects (1.2e-7 off the
    small circle: sqrt(a.r^2 - x^2) cancels at the scale of a.r^2), while the present code's points
    are accepted, in either argument order.  Observed on the real crate before the repair. *)
Theorem c10_cc_big_ratio_refuted :
  (exists p q, Corr.of_cc (intersect_cc_big Corr.fops Corr.feps ProofsRatio.w_a ProofsRatio.w_b) = Corr.MTwo p q) /\
  Corr.spec_check (ProofsRatio.w_case (ProofsRatio.obs_of (Corr.of_cc (intersect_cc_big Corr.fops Corr.feps ProofsRatio.w_a ProofsRatio.w_b)))) = false /\
  Corr.spec_check (ProofsRatio.w_case (ProofsRatio.obs_of (Corr.of_cc (intersect_cc Corr.fops Corr.feps ProofsRatio.w_a ProofsRatio.w_b)))) = true /\
  Corr.spec_check (ProofsRatio.w_case (ProofsRatio.obs_of (Corr.of_cc (intersect_cc Corr.fops Corr.feps ProofsRatio.w_b ProofsRatio.w_a)))) = true.
Proof. exact ProofsRatio.cc_big_ratio_refuted. Qed.

Theorem c10_cc_swap : forall (eps : R) (a b : Circ R), cr a < cr b ->
  intersect_cc rops eps a b = intersect_cc rops eps b a.
Proof. exact cc_swap. Qed.

(** the TouchInside / TouchOutside point lies on the larger circle exactly and within eps of the smaller one *)
Theorem c10_touch_points_on_both : forall (eps : R) (a b : Circ R), 0 < eps -> eps <= cr b -> cr b <= cr a ->
  let d := edist (cc a) (cc b) in 0 < d ->
  (cr a + cr b - eps <= d < cr a + cr b + eps \/ cr a - cr b - eps <= d < cr a - cr b + eps) ->
  on_circle a (touch_pt a b) /\ Rabs (edist (touch_pt a b) (cc b) - cr b) <= eps.
Proof. exact touch_points_on_both. Qed.

(** documentation: the tangent branch BEFORE the repair ([intersect_cl_old], returned the unit
    normal scaled by the radius) violates "the point is on the circle" on circle (5,0) r = 1 and
    the line x = 6; the repaired branch returns (6,0). *)
Theorem c10_old_tangent_refuted : forall eps : R, 0 < eps ->
  let c := mkCirc (mkPt 5 0) 1 in
  let l := line_between rops (mkPt 6 0) (mkPt 6 1) in
  l = mkLn (-1) 0 6 /\ unit_line l /\ ldist rops l (cc c) = cr c /\
  intersect_cl_old rops eps c l = CLTouch (mkPt (-1) 0) /\ ~ on_circle c (mkPt (-1) 0) /\
  intersect_cl rops eps c l = CLTouch (mkPt 6 0) /\ on_circle c (mkPt 6 0) /\ on_line l (mkPt 6 0).
Proof. exact old_tangent_refuted. Qed.
