(** C10 — proofs about intersect_cl (instance R): none / tangent band / two points. *)
From Coq Require Import Reals Lra Psatz ZArith Bool Nsatz.
From RlibV Require Import C10.Model.
From RlibV Require Import C10.RInst C10.ProofsLine.
Open Scope R_scope.

Lemma unit_len (l : Ln R) : unit_line l -> len rops (mkPt (la l) (lb l)) = 1.
Proof. unfold unit_line, len, slen. rsimp. intros ->. apply sqrt_1. Qed.

Lemma d2_sym (p q : Pt R) : d2 p q = d2 q p.
Proof. unfold d2. ring. Qed.
Lemma d2_nonneg (p q : Pt R) : 0 <= d2 p q.
Proof. unfold d2. apply Rplus_le_le_0_compat; apply Rle_0_sqr. Qed.
Lemma edist_sym p q : edist p q = edist q p.
Proof. unfold edist. now rewrite d2_sym. Qed.
Lemma edist_nonneg p q : 0 <= edist p q.
Proof. apply sqrt_pos. Qed.
Lemma edist_sqr p q : edist p q * edist p q = d2 p q.
Proof. apply sqrt_sqrt, d2_nonneg. Qed.
Lemma ldist_nonneg l p : 0 <= ldist rops l p.
Proof. unfold ldist. rsimp. apply Rabs_pos. Qed.

(** ** circle-line: no intersection *)
Lemma cl_none eps (c : Circ R) (l : Ln R) :
  unit_line l -> 0 < eps -> 0 <= cr c -> cr c + eps < ldist rops l (cc c) ->
  intersect_cl rops eps c l = CLNone /\ forall p, on_line l p -> ~ on_circle c p.
Proof.
  intros Hu He Hr Hd. split.
  - unfold intersect_cl. rsimp.
    destruct (Rltb (cr c + eps) (ldist rops l (cc c))) eqn:E; [reflexivity|].
    apply Rltb_false in E. lra.
  - intros p Hp Hc. unfold on_circle in Hc.
    pose proof (ldist_lower l (cc c) p Hu Hp) as Hlow.
    pose proof (edist_sqr (cc c) p) as Hs. rewrite d2_sym, Hc in Hs.
    pose proof (edist_nonneg (cc c) p). nra.
Qed.

(** ** circle-line: tangent band *)
Lemma cl_tangent eps (c : Circ R) (l : Ln R) :
  unit_line l -> cr c - eps < ldist rops l (cc c) <= cr c + eps ->
  exists p, intersect_cl rops eps c l = CLTouch p /\ on_line l p /\ Rabs (edist p (cc c) - cr c) <= eps
            /\ p = foot l (cc c).
Proof.
  intros Hu [Hlo Hhi]. unfold intersect_cl. rsimp.
  destruct (Rltb (cr c + eps) (ldist rops l (cc c))) eqn:E1.
  { apply Rltb_true in E1. lra. }
  destruct (Rltb (cr c - eps) (ldist rops l (cc c))) eqn:E2.
  2:{ apply Rltb_false in E2. lra. }
  rewrite (unit_len l Hu).
  eexists; split; [reflexivity|].
  assert (Hfoot : psub rops (cc c) (pscale rops (pdiv rops (mkPt (la l) (lb l)) 1) (line_eval rops l (cc c)))
                  = foot l (cc c)).
  { unfold foot, psub, pscale, pdiv, line_eval. rsimp. f_equal; field. }
  rewrite Hfoot.
  destruct (ldist_attained l (cc c) Hu) as [Hon Hd].
  split; [exact Hon|]. split; [|reflexivity].
  rewrite edist_sym, Hd. apply Rabs_le. lra.
Qed.

(** ** circle-line: two points *)
Lemma cl_two_points eps (c : Circ R) (l : Ln R) :
  unit_line l -> 0 < eps -> ldist rops l (cc c) <= cr c - eps ->
  exists p q, intersect_cl rops eps c l = CLIntersect p q
    /\ on_line l p /\ on_circle c p /\ on_line l q /\ on_circle c q /\ p <> q.
Proof.
  intros Hu He Hd. unfold intersect_cl. rsimp.
  pose proof (ldist_nonneg l (cc c)) as Hd0.
  destruct (Rltb (cr c + eps) (ldist rops l (cc c))) eqn:E1.
  { apply Rltb_true in E1. lra. }
  destruct (Rltb (cr c - eps) (ldist rops l (cc c))) eqn:E2.
  { apply Rltb_true in E2. lra. }
  rewrite (unit_len l Hu).
  replace (Reqb 1 0) with false by (symmetry; apply Reqb_false; lra).
  cbn [negb].
  eexists; eexists; split; [reflexivity|].
  unfold on_line, on_circle, d2, ldist, line_eval, padd, psub, pscale, pdiv in *. rsimp.
  destruct l as [a b c0], c as [[cx cy] r]. cbn [la lb lc px py cc cr] in *. unfold unit_line in Hu. cbn [la lb] in Hu.
  remember (a * cx + b * cy + c0) as s eqn:Hs.
  assert (Hr : Rabs s < r) by lra.
  assert (Hss : s * s < r * r).
  { pose proof (Rabs_pos s). replace (s * s) with (Rabs s * Rabs s); [nra|].
    unfold Rabs; destruct (Rcase_abs s); ring. }
  assert (Habs2 : Rabs s * Rabs s = s * s) by (unfold Rabs; destruct (Rcase_abs s); ring).
  rewrite Habs2, Rmax_left by lra.
  set (side := sqrt (r * r - s * s)).
  assert (Hside : side * side = r * r - s * s) by (apply sqrt_sqrt; lra).
  assert (Hside0 : 0 < side) by (apply sqrt_lt_R0; lra).
  clearbody side. unfold Rdiv. rewrite Rinv_1.
  destruct (Rltb 0 s) eqn:Es.
  - apply Rltb_true in Es. rewrite (Rabs_right s) by lra. cbn [px py].
    repeat split; try (clear - Hu Hs Hside; nsatz).
    intro E. injection E as E3 E4.
    assert (a * side = 0) by lra. assert (b * side = 0) by lra. nra.
  - apply Rltb_false in Es. rewrite (Rabs_left1 s) by lra. cbn [px py].
    repeat split; try (clear - Hu Hs Hside; nsatz).
    intro E. injection E as E3 E4.
    assert (a * side = 0) by lra. assert (b * side = 0) by lra. nra.
Qed.
