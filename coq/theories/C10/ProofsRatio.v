(** C10 — the crossing branch of intersect_cc measured from the larger circle (the code between commit
    bc281aa and the repair that followed) violates the 1e-7 clause in binary64 at an extreme radius
    ratio, although it is exact over the reals ([ord_cross_big]).  Decided by evaluation of the
    binary64 instance and of the exact dyadic specification. *)
From Coq Require Import List ZArith Bool Floats.
From RlibV Require Import C10.Model C10.Corr.
Open Scope Z_scope.

Definition obs_of (m : mres) : obs :=
  match m with
  | MNone => ONone | MSame => OSame
  | MPt p => OPt (px p) (py p)
  | MTouch p => OTouch (px p) (py p)
  | MTouchIn p => OTouchIn (px p) (py p)
  | MTouchOut p => OTouchOut (px p) (py p)
  | MTwo p q => OTwo (px p) (py p) (px q) (py q)
  | MPos k => OPos k
  | MBool b => OBool b
  | MLine l => OLine (la l) (lb l) (lc l)
  | MVals l => OVals l
  end.

(** circle a = ((0,0), 1000), circle b = ((999.9993,0), 0.001) as binary64 values: a proper crossing,
    3e-4 away from both tangencies *)
Definition w_ar : float := f_of_bits 4652007308841189376.
Definition w_bx : float := f_of_bits 4652007302683924261.
Definition w_br : float := f_of_bits 4562254508917369340.
Definition w_a : Circ float := mkCirc (fpt 0 0) w_ar.
Definition w_b : Circ float := mkCirc (fpt w_bx 0) w_br.
Definition w_case (o : obs) : case := CCC 0 0 w_ar w_bx 0 w_br o.

Lemma cc_big_ratio_refuted :
  (exists p q, of_cc (intersect_cc_big fops feps w_a w_b) = MTwo p q) /\
  spec_check (w_case (obs_of (of_cc (intersect_cc_big fops feps w_a w_b)))) = false /\
  spec_check (w_case (obs_of (of_cc (intersect_cc fops feps w_a w_b)))) = true /\
  spec_check (w_case (obs_of (of_cc (intersect_cc fops feps w_b w_a)))) = true.
Proof.
  split; [eexists; eexists; vm_compute; reflexivity|].
  vm_compute. repeat split; reflexivity.
Qed.
