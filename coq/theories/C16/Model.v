(** C16 — executable definitions on top of the treap model of C03: heap order, height, in-order priorities,
    the Cartesian tree of a priority sequence, the priority generator of treap_node.rs (one process-wide
    LCG behind a mutex, seeded with 42 - the executor puts it back to the seed at the start of every line -, raw = state ^ (state >> 32) after the step, priority = low 32 bits), and the named
    adversarial insertion families.  Definitions only. *)
From Coq Require Import ZArith NArith List Bool.
From RlibV Require Import C03.Model.
Import ListNotations.
Open Scope Z_scope.

Section Shape.
Context {T : Type}.

Fixpoint height (t : @tree T) : Z :=
  match t with E => 0 | Nd l _ _ r => 1 + Z.max (height l) (height r) end.

(** the root of [t] (if any) has priority >= p *)
Definition root_geb (p : Z) (t : @tree T) : bool :=
  match t with E => true | Nd _ _ q _ => p <=? q end.

(** min-heap on priorities along every edge *)
Fixpoint heapb (t : @tree T) : bool :=
  match t with
  | E => true
  | Nd l _ p r => root_geb p l && root_geb p r && heapb l && heapb r
  end.

Fixpoint inorder (t : @tree T) : list (Z * T) :=
  match t with E => [] | Nd l x p r => inorder l ++ (p, x) :: inorder r end.

Fixpoint tmap {U : Type} (f : T -> U) (t : @tree T) : @tree U :=
  match t with E => E | Nd l x p r => Nd (tmap f l) (f x) p (tmap f r) end.

(** Cartesian tree of a sequence, built by appending on the right spine; on a tie the newcomer goes up
    (as [merge] does: the left root wins only if strictly smaller) *)
Fixpoint cart_app (t : @tree T) (p : Z) (x : T) : @tree T :=
  match t with
  | E => Nd E x p E
  | Nd l y q r => if p <=? q then Nd t x p E else Nd l y q (cart_app r p x)
  end.
Definition cart (l : list (Z * T)) : @tree T :=
  fold_left (fun t px => cart_app t (fst px) (snd px)) l E.
End Shape.

(** ---------- the priority generator ---------- *)
Definition lcg_next (s : Z) : Z := (s * 6364136223846793005 + 1442695040888963407) mod 2 ^ 64.
Definition lcg_prio (s : Z) : Z := (Z.lxor s (Z.shiftr s 32)) mod 2 ^ 32.
Fixpoint lcg_prios (n : nat) (s : Z) : list Z :=
  match n with O => [] | S n' => let s' := lcg_next s in lcg_prio s' :: lcg_prios n' s' end.
Definition lcg_seed : Z := 42.

(** ---------- adversarial families (item = the ItemSized instance, value i) ---------- *)
Definition ins := insert_at isz_update isz_push isize.
(** state: tree, generator state, number of elements inserted so far *)
Definition fam_state := (@tree isz * Z * Z)%type.
Definition fam_init : fam_state := (E, lcg_seed, 0).

Definition step_append (s : fam_state) : fam_state :=
  let '(t, g, i) := s in let g' := lcg_next g in (ins t i (isz_mk i) (lcg_prio g'), g', i + 1).
Definition step_front (s : fam_state) : fam_state :=
  let '(t, g, i) := s in let g' := lcg_next g in (ins t 0 (isz_mk i) (lcg_prio g'), g', i + 1).
(** insert at a scattered position, then split at a scattered cut and merge the halves the other way round *)
Definition step_rotate (s : fam_state) : fam_state :=
  let '(t, g, i) := s in
  let g' := lcg_next g in
  let t1 := ins t (Z.rem (i * 7919) (i + 1)) (isz_mk i) (lcg_prio g') in
  let '(l, r) := split_at isz_update isz_push isize t1 None (Z.rem (i * 104729 + 12345) (i + 2)) in
  (merge isz_update isz_push r None l None, g', i + 1).

Definition fam (step : fam_state -> fam_state) (n : Z) : @tree isz :=
  fst (fst (N.iter (Z.to_N n) step fam_init)).
Definition height_bound (n : Z) : Z := 5 * Z.log2 (n + 1) + 20.
Definition fam_ok (step : fam_state -> fam_state) (n : Z) : bool :=
  let t := fam step n in (height t <=? height_bound n) && heapb t && (tsize isize t =? n).

(** ---------- list-of-lists machine carrying (priority, value) pairs: the specification side of C16 ---------- *)
From RlibV Require Import C03.Corr.
Definition pv := (Z * Z)%type.
(** kind 0 treats every modification as an addition *)
Definition md0_act (m : amod) (e : Z) : Z := e + md0 m.
Definition pact (act : amod -> Z -> Z) (m : amod) (e : pv) : pv := (fst e, act m (snd e)).
(** the caller's modifications of an item it holds (before from_item / insert_at), applied to its value in order *)
Definition cacts (act : amod -> Z -> Z) (ms : list amod) (v : Z) : Z := fold_left (fun e m => act m e) ms v.
Fixpoint ptake (c : Z) (l : list pv) : list pv :=
  match l with [] => [] | x :: xs => if snd x <? c then x :: ptake c xs else [] end.
Fixpoint pdrop (c : Z) (l : list pv) : list pv :=
  match l with [] => [] | x :: xs => if snd x <? c then pdrop c xs else l end.

(** [firstn k xs ++ skipn (k+1) xs], evaluated without building a unary number larger than the list (C16/ProofsHist.v: premove_eq) *)
Definition premove {X : Type} (k : Z) (xs : list X) : list X :=
  match znth k xs with Some _ => firstn (Z.to_nat k) xs ++ skipn (S (Z.to_nat k)) xs | None => xs end.
Arguments premove : simpl never.

Definition pstep (act : amod -> Z -> Z) (st : list (list pv)) (ps : list Z) (o : cop)
  : option (list (list pv) * list Z) :=
  match o with
  | CNew => Some (st ++ [[]], ps)
  | CFrom v ms => let '(p, ps') := next_prio ps in Some (st ++ [[(p, cacts act ms v)]], ps')
  | CMerge i j =>
    match take2 i j st with Some (a, b, rest) => Some (rest ++ [a ++ b], ps) | None => Some (st, ps) end
  | CSplitAt i k =>
    match take1 i st with
    | Some (xs, rest) => Some (rest ++ [zfirstn k xs; zskipn k xs], ps)
    | None => Some (st, ps)
    end
  | CSplitBy i c =>
    match take1 i st with
    | Some (xs, rest) =>
      if forallb (fun x => negb (snd x <? c)) (pdrop c xs) then Some (rest ++ [ptake c xs; pdrop c xs], ps) else None
    | None => Some (st, ps)
    end
  | CInsert i k v ms =>
    match nth_error st i with
    | Some xs => let '(p, ps') := next_prio ps in
                 Some (replace_nth i (zfirstn k xs ++ (p, cacts act ms v) :: zskipn k xs) st, ps')
    | None => Some (st, ps)
    end
  | CRemove i k =>
    match nth_error st i with
    | Some xs => Some (replace_nth i (premove k xs) st, ps)
    | None => Some (st, ps)
    end
  | CMod i m =>
    match nth_error st i with
    | Some xs => Some (replace_nth i (map (pact act m) xs) st, ps)
    | None => Some (st, ps)
    end
  | CFirst _ | CLast _ | CCollect _ | CSize _ | CAgg _ => Some (st, ps)
  (* remove_at on treap i, insert_at of the returned item (after the caller's modifications [ms]) on treap j: the
     value moves, its priority does not — insert_at creates a new node, which draws the next priority *)
  | CMove i k j k2 ms =>
    match nth_error st i, nth_error st j with
    | Some xs, Some _ =>
      match znth k xs with
      | Some pvx =>
        let st1 := replace_nth i (firstn (Z.to_nat k) xs ++ skipn (S (Z.to_nat k)) xs) st in
        match nth_error st1 j with
        | Some ys => let '(p, ps') := next_prio ps in
                     Some (replace_nth j (zfirstn k2 ys ++ (p, cacts act ms (snd pvx)) :: zskipn k2 ys) st1, ps')
        | None => Some (st1, ps)
        end
      | None => Some (st, ps)     (* remove_at panicked: same sequences, nothing inserted *)
      end
    | _, _ => Some (st, ps)
    end
  end.

Fixpoint prun (act : amod -> Z -> Z) (st : list (list pv)) (ps : list Z) (ops : list cop) : option (list (list pv)) :=
  match ops with
  | [] => Some st
  | o :: ops' => match pstep act st ps o with None => None | Some (st1, ps1) => prun act st1 ps1 ops' end
  end.
