(** C16 — further adversarial insertion families of the implementation-level search, as executable definitions on the
    treap model of C03 (state: tree, generator state, number of elements inserted so far), and the tighter height bound
    of that search.  Definitions only. *)
From Coq Require Import ZArith NArith List Bool.
From RlibV Require Import C03.Model C16.Model.
Import ListNotations.
Open Scope Z_scope.

(** 3*floor(log2(n+1)) + 12: for independent uniform priorities the probability of a larger height is below 3e-6 for
    every n <= 2^21 (Chernoff bound on the depth of a node, union over the nodes) *)
Definition tight_bound (n : Z) : Z := 3 * Z.log2 (n + 1) + 12.

(** insert_at(0) / insert_at(size) alternately *)
Definition step_deque (s : fam_state) : fam_state :=
  let '(t, g, i) := s in let g' := lcg_next g in
  (ins t (if Z.even i then 0 else i) (isz_mk i) (lcg_prio g'), g', i + 1).
(** insert_at(size / 2) *)
Definition step_middle (s : fam_state) : fam_state :=
  let '(t, g, i) := s in let g' := lcg_next g in (ins t (Z.quot i 2) (isz_mk i) (lcg_prio g'), g', i + 1).
(** t = merge(t, from_item(x)), every other step merge(from_item(x), t) *)
Definition step_mergebuild (s : fam_state) : fam_state :=
  let '(t, g, i) := s in let g' := lcg_next g in
  let x := single (isz_mk i) (lcg_prio g') in
  (if Z.odd i then merge isz_update isz_push x None t None else merge isz_update isz_push t None x None, g', i + 1).

Definition tight_steps : list (fam_state -> fam_state) :=
  [step_append; step_front; step_rotate; step_deque; step_middle; step_mergebuild].
Definition fam_tight (n : Z) (step : fam_state -> fam_state) : bool :=
  let t := fam step n in (height t <=? tight_bound n) && heapb t && (tsize isize t =? n).
Definition tight_all (k : Z) : bool := forallb (fam_tight (2 ^ k)) tight_steps.
